// COPIED (generators and canonical printers only) from harness/wb/exporters/otlp/otlptrace/internal/tracetransform/zz_verif_c13_shared_test.go
// by the e2e builder; keep in sync with the C13 white-box harness: the C13 driver parses these canonical forms.
// C13 — helpers shared by all C13 white-box legs: canonical token writer, generic protobuf dumper
// (protoreflect, every field of the descriptor in field-number order), attribute generators/printers.
// This file is injected unchanged into the four `transform` packages (otlpmetric{http,grpc},
// otlplog{http,grpc}); the tracetransform and zipkin legs use a copy that differs only in the package clause
// (harness/wb/exporters/otlp/otlptrace/internal/tracetransform/zz_verif_c13_shared_test.go is generated from
// this file with `sed s/^package transform/package tracetransform/`).
package otlpe2e

import (
	"encoding/hex"
	"math"
	"sort"
	"strconv"
	"strings"

	"google.golang.org/protobuf/proto"
	"google.golang.org/protobuf/reflect/protoreflect"

	"go.opentelemetry.io/otel/attribute"
)

// ---------------------------------------------------------------- token writer
type c13W struct{ sb strings.Builder }

func (w *c13W) tok(s string)   { w.sb.WriteString(s); w.sb.WriteByte(' ') }
func (w *c13W) open()          { w.sb.WriteString("( ") }
func (w *c13W) close()         { w.sb.WriteString(") ") }
func (w *c13W) str(s string)   { w.tok("x" + hex.EncodeToString([]byte(s))) }
func (w *c13W) bytes(b []byte) { w.tok("x" + hex.EncodeToString(b)) }
func (w *c13W) i64(v int64)    { w.tok(strconv.FormatInt(v, 10)) }
func (w *c13W) u64(v uint64)   { w.tok(strconv.FormatUint(v, 10)) }
func (w *c13W) f64(v float64)  { w.tok("f" + c13Hex16(math.Float64bits(v))) }
func (w *c13W) boolean(b bool) {
	if b {
		w.tok("1")
	} else {
		w.tok("0")
	}
}
func (w *c13W) String() string { return strings.TrimSpace(w.sb.String()) }

func c13Hex16(u uint64) string {
	s := strconv.FormatUint(u, 16)
	return strings.Repeat("0", 16-len(s)) + s
}

// ---------------------------------------------------------------- generic protobuf dump
// Every field of the message descriptor is printed, in field-number order:
//
//	repeated -> ( e1 e2 … ) ; field with presence (message, oneof member, proto3 optional) and unset -> - ;
//	bool 0/1 ; integers decimal ; float/double f<16 hex of the float64 bits> ; string/bytes x<hex> ; enum = number.
func c13DumpMsg(w *c13W, m protoreflect.Message) {
	w.open()
	fds := m.Descriptor().Fields()
	idx := make([]int, fds.Len())
	for i := range idx {
		idx[i] = i
	}
	sort.Slice(idx, func(a, b int) bool { return fds.Get(idx[a]).Number() < fds.Get(idx[b]).Number() })
	for _, i := range idx {
		fd := fds.Get(i)
		switch {
		case fd.IsMap():
			w.tok("MAP-UNSUPPORTED")
		case fd.IsList():
			l := m.Get(fd).List()
			w.open()
			for j := 0; j < l.Len(); j++ {
				c13DumpVal(w, fd, l.Get(j))
			}
			w.close()
		case fd.HasPresence() && !m.Has(fd):
			w.tok("-")
		default:
			c13DumpVal(w, fd, m.Get(fd))
		}
	}
	if len(m.GetUnknown()) != 0 {
		w.tok("UNKNOWN-FIELDS")
	}
	w.close()
}

func c13DumpVal(w *c13W, fd protoreflect.FieldDescriptor, v protoreflect.Value) {
	switch fd.Kind() {
	case protoreflect.BoolKind:
		w.boolean(v.Bool())
	case protoreflect.Int32Kind, protoreflect.Sint32Kind, protoreflect.Sfixed32Kind,
		protoreflect.Int64Kind, protoreflect.Sint64Kind, protoreflect.Sfixed64Kind:
		w.i64(v.Int())
	case protoreflect.Uint32Kind, protoreflect.Fixed32Kind, protoreflect.Uint64Kind, protoreflect.Fixed64Kind:
		w.u64(v.Uint())
	case protoreflect.FloatKind, protoreflect.DoubleKind:
		w.f64(v.Float())
	case protoreflect.StringKind:
		w.str(v.String())
	case protoreflect.BytesKind:
		w.bytes(v.Bytes())
	case protoreflect.EnumKind:
		w.i64(int64(v.Enum()))
	case protoreflect.MessageKind, protoreflect.GroupKind:
		c13DumpMsg(w, v.Message())
	}
}

// c13WireRoundTrip marshals src and unmarshals the bytes into dst (a fresh message of the same type).
func c13WireRoundTrip(src, dst proto.Message) error {
	b, err := proto.Marshal(src)
	if err != nil {
		return err
	}
	return proto.Unmarshal(b, dst)
}

// c13DumpSorted dumps each message and returns "( d1 d2 … )" with the dumps sorted (the transforms return
// the resource groups in Go map iteration order).
func c13DumpSorted(ms []protoreflect.Message) string {
	ds := make([]string, len(ms))
	for i, m := range ms {
		var w c13W
		c13DumpMsg(&w, m)
		ds[i] = w.String()
	}
	sort.Strings(ds)
	return strings.TrimSpace("( " + strings.Join(ds, " ") + " )")
}

// ---------------------------------------------------------------- generators
var c13Ints = []int64{0, 1, -1, 2, 1<<31 - 1, 1 << 31, -(1 << 31), 1<<32 - 1, 1 << 32, 1<<32 + 1,
	1<<53 - 1, 1 << 53, 1<<53 + 1, -(1 << 53) - 1, math.MaxInt64, math.MinInt64, math.MaxInt64 - 1, 42}

func c13Int(r *vRand) int64 {
	if r.Intn(5) == 0 {
		return int64(r.U64())
	}
	return c13Ints[r.Intn(len(c13Ints))]
}

// c13Uint: uint64 values around the same boundaries
func c13Uint(r *vRand) uint64 {
	switch r.Intn(6) {
	case 0:
		return r.U64()
	case 1:
		return math.MaxUint64
	default:
		return uint64(c13Ints[r.Intn(len(c13Ints))]) & math.MaxInt64
	}
}

var c13FloatBits = []uint64{0, 1 << 63, 0x3ff0000000000000, 0xbff0000000000000, 0x7ff0000000000000,
	0xfff0000000000000, 0x7ff8000000000001, 1, 0x7fefffffffffffff, 0x3fd0000000000000, 0x4340000000000000,
	0x4340000000000001, 0x3ff8000000000000, 0x4059000000000000}

// c13Float: IEEE bit patterns; nan=false excludes NaN (attribute sets used as map keys: C05/F9 territory)
func c13Float(r *vRand, nan bool) float64 {
	for {
		var b uint64
		if r.Intn(4) == 0 {
			b = r.U64()
		} else {
			b = c13FloatBits[r.Intn(len(c13FloatBits))]
		}
		f := math.Float64frombits(b)
		if !nan && f != f {
			continue
		}
		if f != f {
			// keep NaNs quiet (a signalling NaN may be quieted by the FPU on some paths)
			f = math.Float64frombits(b | 0x0008000000000000)
		}
		return f
	}
}

var c13Times = []int64{0, -1, 1, math.MaxInt64, math.MinInt64, 1700000000000000000, 1700000000000000001, 999999999, 1000000000}

func c13TimeNanos(r *vRand) int64 {
	if r.Intn(4) == 0 {
		return int64(r.U64())
	}
	return c13Times[r.Intn(len(c13Times))]
}

var c13Keys = []string{"", "a", "b", "k", "http.method", "š", "key with space", "z€", "a.b.c", "\U0001F600"}

func c13Key(r *vRand) string {
	if r.Intn(6) == 0 {
		return vValidStr(r, 4)
	}
	return c13Keys[r.Intn(len(c13Keys))]
}

// c13Value: one attribute.Value of any of the eight types or (rarely, if inv) of the INVALID type.
func c13Value(r *vRand, inv, nan bool) attribute.Value {
	n := r.Intn(4)
	if r.Intn(3) == 0 {
		n = 0 // empty slices are frequent on purpose
	}
	k := r.Intn(9)
	if k == 8 && !inv {
		k = r.Intn(8)
	}
	switch k {
	case 0:
		return attribute.BoolValue(r.Bool())
	case 1:
		return attribute.Int64Value(c13Int(r))
	case 2:
		return attribute.Float64Value(c13Float(r, true)) // scalar floats are stored as bits: NaN is harmless
	case 3:
		return attribute.StringValue(vValidStr(r, 5))
	case 4:
		v := make([]bool, n)
		for i := range v {
			v[i] = r.Bool()
		}
		return attribute.BoolSliceValue(v)
	case 5:
		v := make([]int64, n)
		for i := range v {
			v[i] = c13Int(r)
		}
		return attribute.Int64SliceValue(v)
	case 6:
		v := make([]float64, n)
		for i := range v {
			v[i] = c13Float(r, nan)
		}
		return attribute.Float64SliceValue(v)
	case 7:
		v := make([]string, n)
		for i := range v {
			v[i] = vValidStr(r, 3)
		}
		return attribute.StringSliceValue(v)
	default:
		return attribute.Value{}
	}
}

// c13KVs: a plain attribute slice (duplicates and empty keys allowed, INVALID values allowed)
func c13KVs(r *vRand, max int) []attribute.KeyValue {
	n := r.Intn(max + 1)
	if n == 0 {
		if r.Bool() {
			return nil
		}
		return []attribute.KeyValue{}
	}
	out := make([]attribute.KeyValue, n)
	for i := range out {
		out[i] = attribute.KeyValue{Key: attribute.Key(c13Key(r)), Value: c13Value(r, true, true)}
	}
	return out
}

// c13SetKVs: attributes for an attribute.Set / resource: valid values, non-empty keys, no NaN inside float slices
func c13SetKVs(r *vRand, max int, nan bool) []attribute.KeyValue {
	n := r.Intn(max + 1)
	out := make([]attribute.KeyValue, 0, n)
	for i := 0; i < n; i++ {
		k := c13Key(r)
		if k == "" {
			k = "e"
		}
		out = append(out, attribute.KeyValue{Key: attribute.Key(k), Value: c13Value(r, false, nan)})
	}
	return out
}

// ---------------------------------------------------------------- canonical input printers
func c13PrintValue(w *c13W, v attribute.Value) {
	w.open()
	switch v.Type() {
	case attribute.BOOL:
		w.tok("b")
		w.boolean(v.AsBool())
	case attribute.INT64:
		w.tok("i")
		w.i64(v.AsInt64())
	case attribute.FLOAT64:
		w.tok("f")
		w.f64(v.AsFloat64())
	case attribute.STRING:
		w.tok("s")
		w.str(v.AsString())
	case attribute.BOOLSLICE:
		w.tok("bs")
		w.open()
		for _, x := range v.AsBoolSlice() {
			w.boolean(x)
		}
		w.close()
	case attribute.INT64SLICE:
		w.tok("is")
		w.open()
		for _, x := range v.AsInt64Slice() {
			w.i64(x)
		}
		w.close()
	case attribute.FLOAT64SLICE:
		w.tok("fs")
		w.open()
		for _, x := range v.AsFloat64Slice() {
			w.f64(x)
		}
		w.close()
	case attribute.STRINGSLICE:
		w.tok("ss")
		w.open()
		for _, x := range v.AsStringSlice() {
			w.str(x)
		}
		w.close()
	default:
		w.tok("inv")
	}
	w.close()
}

func c13PrintKV(w *c13W, kv attribute.KeyValue) {
	w.open()
	w.str(string(kv.Key))
	c13PrintValue(w, kv.Value)
	w.close()
}

func c13PrintKVs(w *c13W, kvs []attribute.KeyValue) {
	w.open()
	for _, kv := range kvs {
		c13PrintKV(w, kv)
	}
	w.close()
}

// c13PrintIter prints the attributes in the iterator's (= the Set's canonical) order.
func c13PrintIter(w *c13W, it attribute.Iterator) {
	w.open()
	for it.Next() {
		c13PrintKV(w, it.Attribute())
	}
	w.close()
}

// c13CaseSeed derives the per-case generator state from (run seed, case index); the case seed is printed on
// the trace line so that a single case can be regenerated in replay mode.
func c13CaseSeed(seed uint64, i int) uint64 {
	r := vRand{s: seed ^ (uint64(i)+1)*0x9e3779b97f4a7c15}
	return r.U64() >> 1
}

// c13ReplayCases returns (gen tag, case seed) of every replay line of the given line kind.
func c13ReplayCases(kind string) (tags []string, seeds []uint64, replay bool) {
	lines := vReplayLines()
	if lines == nil {
		return nil, nil, false
	}
	for _, l := range lines {
		if len(l) < 3 || l[0] != kind {
			continue
		}
		s, err := strconv.ParseUint(l[2], 10, 64)
		if err != nil {
			continue
		}
		tags = append(tags, l[1])
		seeds = append(seeds, s)
	}
	return tags, seeds, true
}
