// C13 — end to end, compression pairs and partial-success answers (leg `e2epair`, test TestVerifE2E13Pair).
//
// For each of the six OTLP exporters and a seeded batch, TWO exporters are built through the public API that differ
// only in the compression option (gzip / none); both export the same batch to an in-process collector that answers
// `nretry` retryable answers and then a FINAL answer: plain success, a partial success (rejected items + message), a
// partial success that is only a warning (0 rejected, message), or a non-empty response without partial_success.
//
//   - each run prints an ordinary `e2e13` line (judged like every other e2e13 line: every attempt of the export decodes
//     to the model's encoding of the batch);
//   - the pair prints  e2epair pair <exp> <gen>:<seed> <nretry> <final> => <attempts gz> <attempts id> <enc gz> <enc id> <same|differs|nodata>
//     `same` = every attempt of the gzip run and every attempt of the identity run decoded (after gunzip where
//     announced) to one and the same message — compared here directly, not through the model; the expected number of
//     attempts is nretry+1 for both: a partial success is a final answer, the payload is delivered exactly once more
//     after each retryable answer and never again after the final one.
package otlpe2e

import (
	"strconv"
	"strings"
	"testing"
)

func e2ePairFinals(exp string) []string {
	if exp[1] == 'h' {
		return []string{"200;-;0;e", "200;-;0;p1:2:" + vHex("partial"), "200;-;0;p1:0:" + vHex("warning"), "200;-;0;n1",
			"200;-;0;p1:9223372036854775807:" + vHex("all")}
	}
	return []string{"0;-;-", "0;-;2:" + vHex("partial"), "0;-;0:" + vHex("warning"), "0;-;9223372036854775807:" + vHex("all")}
}

func e2ePairScenario(exp, bgen string, bseed uint64, nretry int, final string, gz bool) *e2eScenario {
	s := &e2eScenario{gen: "pair", exp: exp, bgen: bgen, bseed: bseed, en: true, msel: "H"}
	base := 1
	if exp[1] == 'g' {
		base = 4
	}
	s.items = []c20Item{{kind: 'E', s: e2ePlaceholder(base)}, {kind: 'I'}, e2eComp(exp, gz)}
	s.env = e2eEnv("-", "-", "-", "-", "-", "-", "-", "-", "-", "-")
	for i := 0; i < nretry; i++ {
		if exp[1] == 'h' {
			s.script = append(s.script, "503;-;0;e")
		} else {
			s.script = append(s.script, "14;-;-")
		}
	}
	s.script = append(s.script, final)
	return s
}

func e2ePairEnc(res *e2eResult) string {
	enc := "-"
	for i, a := range res.attempts {
		e := "id"
		if a.cenc == "gzip" {
			e = "gzip"
		} else if a.cenc != "" && a.cenc != "identity" {
			e = "other"
		}
		if i > 0 && e != enc {
			return "mixed"
		}
		enc = e
	}
	return enc
}

func e2ePairRun(out *vOut, w *e2eWorld, exp, bgen string, bseed uint64, nretry int, final string) {
	sg := e2ePairScenario(exp, bgen, bseed, nretry, final, true)
	si := e2ePairScenario(exp, bgen, bseed, nretry, final, false)
	rg, ok1 := w.run(sg)
	ri, ok2 := w.run(si)
	if !ok1 || !ok2 || !rg.built || !ri.built {
		return
	}
	out.Line("%s # %s => %s", sg.prefix("e2e13"), rg.batch.canon, rg.obs13(sg))
	out.Line("%s # %s => %s", si.prefix("e2e13"), ri.batch.canon, ri.obs13(si))
	eq := "same"
	if len(rg.attempts) == 0 || len(ri.attempts) == 0 {
		eq = "nodata"
	} else {
		ref := rg.attempts[0]
		for _, a := range append(append([]*e2eAttempt{}, rg.attempts...), ri.attempts...) {
			if !a.wireOK || !ref.wireOK || a.dump != ref.dump {
				eq = "differs"
			}
		}
	}
	out.Line("e2epair pair %s %s:%d %d %s => %d %d %s %s %s", exp, bgen, bseed, nretry, final,
		len(rg.attempts), len(ri.attempts), e2ePairEnc(rg), e2ePairEnc(ri), eq)
}

func TestVerifE2E13Pair(t *testing.T) {
	out := vOpen(t)
	defer out.Close()
	w, err := e2eNewWorld()
	if err != nil {
		t.Fatal(err)
	}
	defer w.close()
	if rp := vReplayLines(); rp != nil {
		for _, f := range rp {
			switch {
			case f[0] == "e2epair" && len(f) >= 6:
				bg, bs, ok := strings.Cut(f[3], ":")
				seed, err1 := strconv.ParseUint(bs, 10, 64)
				nr, err2 := strconv.Atoi(f[4])
				if ok && err1 == nil && err2 == nil && len(f[2]) == 2 {
					e2ePairRun(out, w, f[2], bg, seed, nr, f[5])
				}
			case f[0] == "e2e13":
				if s, ok := e2eParseScenario(f); ok && s.role == 0 {
					if res, ok := w.run(s); ok {
						out.Line("%s # %s => %s", s.prefix("e2e13"), res.batch.canon, res.obs13(s))
					}
				}
			}
		}
		return
	}
	r := &vRand{s: vSeed() ^ 0x9a13c0de}
	n := vN(120)
	for i := 0; i < n; i++ {
		exp := e2eExps[i%len(e2eExps)]
		var bgen string
		var bseed uint64
		for try := 0; ; try++ {
			bseed = r.U64() >> 1
			switch exp[0] {
			case 't':
				bgen = vPick(r, e2eSpanGens)
			case 'm':
				bgen = vPick(r, e2eMetricGens)
			default:
				bgen = vPick(r, e2eLogGens)
			}
			if !e2eMakeBatch(exp[0], bgen, bseed).empty || try > 20 {
				break
			}
		}
		finals := e2ePairFinals(exp)
		final := finals[(i/len(e2eExps))%len(finals)]
		nretry := 0
		if r.Intn(3) == 0 {
			nretry = 1 + r.Intn(2)
		}
		e2ePairRun(out, w, exp, bgen, bseed, nretry, final)
	}
}
