// C13 — interleaved exports on the SAME exporter instance (added after seeded change C13-6 was MISSED: a per-client
// scratch buffer that the uncompressed request body keeps aliasing; the pairs of e2eGenIlv use two exporters).
//
// One exporter, one collector, two exports A and B from two goroutines:
//
//	gen "ilvs" (hold):    A's first attempt is held by the collector (its retryable answer withheld) until B's export
//	                      has gone through; then A is answered and retries.
//	gen "ilvb" (backoff): A's first attempt is answered (retryable) at once, A waits in a back-off of >= 150 ms, B's
//	                      export runs in that window, then A's retry follows.
//
// Exporters that serialise their exports (the metric exporters hold a mutex across Upload) show the order
// A#1, A#2…, B#1 instead of A#1, B#1, A#2…; which one happened is decided by whether B's export returned while A was
// still held, and the attempts are attributed to the two exports by their arrival index accordingly.
// Both roles print an ordinary e2e13 line: every attempt of an export must decode to the model's encoding of ITS OWN batch.
package otlpe2e

import (
	"context"
	"time"
)

func e2eIsSame(gen string) bool { return gen == "ilvs" || gen == "ilvb" }

var e2eSameExps = []string{"th", "th", "th", "tg", "mh", "mg", "lh", "lh", "lg"}

// e2eGenIlvSame: role A scenario; role B is derived by partnerSame (same options, same collector).
func e2eGenIlvSame(r *vRand, i int) *e2eScenario {
	exp := e2eSameExps[i%len(e2eSameExps)]
	gen := "ilvs"
	if i%4 == 3 && exp[0] != 'm' {
		gen = "ilvb"
	}
	s := &e2eScenario{gen: gen, exp: exp, role: 'A', en: true, msel: "H"}
	big, small := e2eSpanGens, []string{"onespan"}
	switch exp[0] {
	case 'm':
		big, small = e2eMetricGens, []string{"kinds"}
	case 'l':
		big, small = e2eLogGens, []string{"onerec", "sev"}
	}
	for try := 0; ; try++ {
		switch r.Intn(4) {
		case 0, 1: // equal encoded sizes: an in-place overwrite of a shared buffer is completely silent
			s.bgen, s.pgen = "fixed", "fixed"
		case 2: // B smaller than A
			s.bgen, s.pgen = vPick(r, big), vPick(r, small)
		default: // B larger than A
			s.bgen, s.pgen = vPick(r, small), vPick(r, big)
		}
		s.bseed, s.pseed = r.U64()>>1, r.U64()>>1
		if try > 20 || (!e2eMakeBatch(exp[0], s.bgen, s.bseed).empty && !e2eMakeBatch(exp[0], s.pgen, s.pseed).empty) {
			break
		}
	}
	cols := e2eCols(r, exp)
	s.items = []c20Item{{kind: 'E', s: cols[0]}, {kind: 'I'}}
	switch r.Intn(3) {
	case 0: // compression not mentioned: the default (none)
	case 1:
		s.items = append(s.items, e2eComp(exp, false))
	default:
		s.items = append(s.items, e2eComp(exp, true))
	}
	s.env = e2eEnv("-", "-", "-", "-", "-", "-", "-", "-", "-", "-")
	s.script = e2eRetryThenOK(exp)
	if gen == "ilvs" && r.Intn(4) == 0 {
		s.script = append([]string{s.script[0]}, s.script...)
	}
	return s
}

// partnerSame: the other role's scenario — everything the same, batches swapped.
func (w *e2eWorld) partnerSame(s *e2eScenario) *e2eScenario {
	p := &e2eScenario{gen: s.gen, exp: s.exp, bgen: s.pgen, bseed: s.pseed, pgen: s.bgen, pseed: s.bseed, env: s.env, en: true, msel: "H",
		items: append([]c20Item{}, s.items...)}
	if s.role == 'A' {
		p.role, p.script = 'B', e2eOKScript(s.exp)
	} else {
		p.role, p.script = 'A', e2eRetryThenOK(s.exp)
	}
	return p
}

// runIlvSame: `a` is the role A scenario, `b` role B. ok=false: the intended schedule was not achieved (discard).
func (w *e2eWorld) runIlvSame(a, b *e2eScenario) (*e2eResult, *e2eResult, bool) {
	sa, ok := w.prepSide(a)
	if !ok {
		return nil, nil, false
	}
	sb, ok := w.prepSide(b)
	if !ok || sa.col != sb.col || sa.res.batch.empty || sb.res.batch.empty {
		return nil, nil, false
	}
	backoff := a.gen == "ilvb"
	col := sa.col
	ctx, cancel := context.WithCancel(context.Background())
	defer cancel()
	watchdog := time.AfterFunc(20*time.Second, cancel)
	defer watchdog.Stop()
	for _, c := range w.cols {
		c.reset(a.exp[0], nil, nil, 0, cancel)
	}
	// answers by arrival index: concurrent exporters A#1, B#1, A#2… ; serialising exporters A#1, A#2…, B#1
	merged := func(serial bool) ([]e2eHTTPItem, []e2eGRPCItem) {
		if serial {
			return append(append([]e2eHTTPItem{}, sa.res.httpScr...), sb.res.httpScr...), append(append([]e2eGRPCItem{}, sa.res.grpcScr...), sb.res.grpcScr...)
		}
		var hs []e2eHTTPItem
		var gs []e2eGRPCItem
		if len(sa.res.httpScr) > 0 {
			hs = append(append(append(hs, sa.res.httpScr[0]), sb.res.httpScr...), sa.res.httpScr[1:]...)
		}
		if len(sa.res.grpcScr) > 0 {
			gs = append(append(append(gs, sa.res.grpcScr[0]), sb.res.grpcScr...), sa.res.grpcScr[1:]...)
		}
		return hs, gs
	}
	hs, gs := merged(false)
	col.reset(a.exp[0], hs, gs, 0, cancel)
	arrived, release := make(chan struct{}), make(chan struct{})
	col.setHold(func(i int, done <-chan struct{}) {
		if i != 0 {
			return
		}
		close(arrived)
		if backoff {
			return
		}
		select {
		case <-release:
		case <-done:
		case <-ctx.Done():
		}
	})
	e2eClearOtelEnv()
	rc := e2eRetry{en: true, ini: 1, max: 1, maxEla: time.Hour}
	if backoff {
		rc.ini, rc.max = 300*time.Millisecond, 300*time.Millisecond // randomised: 150 … 450 ms
	}
	var exp *e2eExporter
	func() {
		defer func() {
			if r := recover(); r != nil {
				sa.res.buildErr = "panic"
			}
		}()
		var err error
		if exp, err = e2eBuild(w, a.exp, a.items, rc); err != nil {
			sa.res.buildErr = "err"
		}
	}()
	sa.res.built, sb.res.built, sb.res.buildErr = exp != nil, exp != nil, sa.res.buildErr
	if exp == nil {
		return sa.res, sb.res, true
	}
	e2eTakeHandled()
	type done struct {
		err error
		t   time.Time
	}
	errA, errB := make(chan done, 1), make(chan done, 1)
	sa.res.t0 = time.Now()
	go func() { e := exp.export(ctx, sa.res.batch); errA <- done{e, time.Now()} }()
	select {
	case <-arrived:
	case <-time.After(5 * time.Second):
		cancel()
		<-errA
		_ = exp.shutdown(context.Background())
		return nil, nil, false
	}
	if backoff {
		// wait until A's first attempt has been answered
		for i := 0; i < 20000; i++ {
			col.mu.Lock()
			answered := len(col.attempts) > 0 && !col.attempts[0].answered.IsZero()
			col.mu.Unlock()
			if answered {
				break
			}
			time.Sleep(100 * time.Microsecond)
		}
	}
	sb.res.t0 = time.Now()
	go func() { e := exp.export(ctx, sb.res.batch); errB <- done{e, time.Now()} }()
	var dA, dB done
	bFirst := false // B's export returned while A was still held / backing off
	if backoff {
		dB = <-errB
		bFirst = true
	} else {
		// B's attempt reaches the collector within milliseconds unless B is blocked behind A (the exporter
		// serialises its exports): decide by whether a second attempt arrives within 400 ms
	wait:
		for i := 0; i < 400; i++ {
			select {
			case dB = <-errB:
				bFirst = true
				break wait
			case <-time.After(time.Millisecond):
			}
			col.mu.Lock()
			second := len(col.attempts) >= 2
			col.mu.Unlock()
			if second {
				select {
				case dB = <-errB:
					bFirst = true
				case <-time.After(10 * time.Second):
				}
				break wait
			}
		}
		if !bFirst {
			hs, gs := merged(true)
			col.mu.Lock()
			col.httpScr, col.grpcScr = hs, gs
			col.mu.Unlock()
		}
		close(release)
	}
	dA = <-errA
	if !bFirst {
		dB = <-errB
	}
	sa.res.exportErr, sa.res.tEnd = dA.err, dA.t
	sb.res.exportErr, sb.res.tEnd = dB.err, dB.t
	sa.res.handled = e2eTakeHandled()
	sctx, scancel := context.WithTimeout(context.Background(), 5*time.Second)
	ts := time.Now()
	sa.res.shutdownErr = exp.shutdown(sctx)
	sa.res.shutdownDur = time.Since(ts)
	scancel()
	for i := 0; i < 50000; i++ {
		if col.idle() {
			break
		}
		time.Sleep(100 * time.Microsecond)
	}
	col.mu.Lock()
	atts := append([]*e2eAttempt{}, col.attempts...)
	exhausted, hellos := col.exhausted, col.tlsHellos
	col.mu.Unlock()
	n := len(atts)
	if n < 2 {
		return nil, nil, false
	}
	bIdx := n - 1 // serial order
	if bFirst {
		bIdx = 1
		if backoff {
			// the schedule must really have been A#1 < B#1 < (B returned) < A#2: otherwise discard the case
			if !atts[1].arrive.After(sb.res.t0) || atts[1].arrive.After(dB.t) || (n > 2 && !atts[2].arrive.After(dB.t)) {
				return nil, nil, false
			}
		}
	}
	for i, at := range atts {
		if i == bIdx {
			sb.res.attempts = append(sb.res.attempts, at)
		} else {
			sa.res.attempts = append(sa.res.attempts, at)
		}
	}
	for _, sd := range []*e2eIlvSide{sa, sb} {
		sd.res.exhausted, sd.res.tlsHellos, sd.res.col, sd.res.hit = exhausted, hellos, col, []*e2eCollector{col}
	}
	return sa.res, sb.res, true
}
