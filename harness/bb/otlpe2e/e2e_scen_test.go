// End-to-end legs of C13 / C14 / C20: scenarios. One scenario = one exporter built through the PUBLIC API from a
// mix of options and environment variables, one Export of a seeded batch against the in-process collectors, one
// Shutdown. Line grammar (common input part, then a kind specific observation):
//
//	<kind> <gen> <exp> <bgen>:<bseed> <opts> <epS> <epG> <insS> <insG> <hdS> <hdG> <coS> <coG> <toS> <toG> <url table>
//	       <en 0|1> <M 0|H|T> <stall ms> <tls 0|1> <resp> | <resp> … [# <batch>]  => <observation>
//
// exp th|tg|mh|mg|lh|lg; opts/env/url table exactly as on the C20 `cfg` lines, except that the collectors appear as
// the placeholders 127.0.0.1:1000K (K = 1..3 HTTP, 4..6 gRPC; the harness substitutes the real ports, so lines do
// not depend on them); en/M/resp exactly as on the C14 `uph`/`upg` lines; stall: the collector delays its first
// answer by that many ms (timeout observation); tls: OTEL_EXPORTER_OTLP_CERTIFICATE points at the harness CA.
//
// Interleaved exporters: <bgen>:<bseed>~<bgen2>:<bseed2>~<A|B>: two exporters of the same kind in one scenario, both
// configured by options only (host option naming collector K for role A, the next collector of the group for role B).
// Collector A withholds its first answer (retryable, by A's script) until B's whole export (B's script: one success)
// has completed; then A is answered and re-sends. One line per role (own batch first, the partner's second); these
// scenarios run with GOMAXPROCS(1) and the GC switched off so that package-level sync.Pools hand B what A put back.
//
//	e2e13 … # <batch> => <attempts> <ok|err|-> <k> <dump> [|| <k> <dump>]…
//	      batch and dump in the canonical forms of the C13 lines (spans / logs / metrics by the first letter of
//	      exp); attempts with identical decoded payloads are grouped (k = size of the group); ok|err = the metric
//	      exporter reported a transform error (metrics only)
//	e2e14 … => <res> <attempts> s<0|1> h<n> g<bits|-> p<0|1>
//	      as `uph`/`upg`; res ok|elapsed|would|cancel|err|exhausted (an API user cannot tell a retryable from a fatal
//	      final error); s: every attempt was the same request (path, headers, encodings, bytes, decoded payload);
//	      p: the exporter's Shutdown after the export returned nil within 2 s
//	e2e20 … => <collector|-|multi> <path|-|?> <plain 0|1|-> <headers|?> <gzip 0|1|X|?> <ct|?> <ua|?> <deadline n|lo:hi|-> <stall T|D|->
//	      who received the (first) request; gRPC: path = full method; X = encoding announced but the body is not
//	      (or the reverse); deadline: bounds (ns) on the timeout from the deadline the gRPC server saw;
//	      the whole observation is `err` / `panic` when the constructor returned an error / panicked
package otlpe2e

import (
	"context"
	"errors"
	"fmt"
	"net/url"
	"os"
	"runtime"
	"runtime/debug"
	"sort"
	"strconv"
	"strings"
	"sync"
	"time"

	"go.opentelemetry.io/otel"
	"go.opentelemetry.io/otel/exporters/otlp/otlplog/otlploggrpc"
	"go.opentelemetry.io/otel/exporters/otlp/otlplog/otlploghttp"
	"go.opentelemetry.io/otel/exporters/otlp/otlpmetric/otlpmetricgrpc"
	"go.opentelemetry.io/otel/exporters/otlp/otlpmetric/otlpmetrichttp"
	"go.opentelemetry.io/otel/exporters/otlp/otlptrace/otlptracegrpc"
	"go.opentelemetry.io/otel/exporters/otlp/otlptrace/otlptracehttp"
	sdklog "go.opentelemetry.io/otel/sdk/log"
	"go.opentelemetry.io/otel/sdk/metric/metricdata"
	tracesdk "go.opentelemetry.io/otel/sdk/trace"
)

// ---------------------------------------------------------------- option items (grammar of the C20 harness)

type c20Item struct {
	kind byte
	s    string
	m    map[string]string
	n    int64
}

func c20RenderMap(m map[string]string) string {
	if len(m) == 0 {
		return "{}"
	}
	keys := make([]string, 0, len(m))
	for k := range m {
		keys = append(keys, k)
	}
	sort.Strings(keys)
	parts := make([]string, len(keys))
	for i, k := range keys {
		parts[i] = vHex(k) + ":" + vHex(m[k])
	}
	return strings.Join(parts, ",")
}

func c20ParseMap(s string) map[string]string {
	m := map[string]string{}
	if s == "{}" {
		return m
	}
	for _, kv := range strings.Split(s, ",") {
		k, v, _ := strings.Cut(kv, ":")
		m[vUnhex(k)] = vUnhex(v)
	}
	return m
}

func (it c20Item) tok() string {
	switch it.kind {
	case 'E', 'U', 'P', 'W':
		return string(it.kind) + vHex(it.s)
	case 'H':
		return "H" + c20RenderMap(it.m)
	case 'C', 'T':
		return string(it.kind) + strconv.FormatInt(it.n, 10)
	}
	return string(it.kind)
}

func c20ParseItems(tok string) []c20Item {
	if tok == "-" {
		return nil
	}
	var out []c20Item
	for _, s := range strings.Split(tok, ";") {
		if s == "" {
			continue
		}
		it := c20Item{kind: s[0]}
		switch s[0] {
		case 'E', 'U', 'P', 'W':
			it.s = vUnhex(s[1:])
		case 'H':
			it.m = c20ParseMap(s[1:])
		case 'C', 'T':
			it.n, _ = strconv.ParseInt(s[1:], 10, 64)
		}
		out = append(out, it)
	}
	return out
}

func c20ItemsTok(items []c20Item) string {
	if len(items) == 0 {
		return "-"
	}
	p := make([]string, len(items))
	for i, it := range items {
		p[i] = it.tok()
	}
	return strings.Join(p, ";")
}

func c20EnvTok(s string) string {
	if s == "-" {
		return "-"
	}
	return vHex(s)
}

// c20Table prints what url.Parse returns for every URL string of the case (raw and trimmed).
func c20Table(items []c20Item, env []string) string {
	seen := map[string]bool{}
	var ents []string
	add := func(s string) {
		if seen[s] {
			return
		}
		seen[s] = true
		u, err := url.Parse(s)
		if err != nil {
			ents = append(ents, vHex(s)+"=e")
			return
		}
		ents = append(ents, vHex(s)+"="+vHex(u.Scheme)+","+vHex(u.Host)+","+vHex(u.Path))
	}
	for _, it := range items {
		if it.kind == 'U' {
			add(it.s)
		}
	}
	for _, tok := range env[:2] {
		if tok != "-" {
			s := vUnhex(tok)
			add(s)
			add(strings.TrimSpace(s))
		}
	}
	if len(ents) == 0 {
		return "-"
	}
	return strings.Join(ents, ";")
}

func e2eSigName(exp string) string {
	switch exp[0] {
	case 't':
		return "TRACES"
	case 'm':
		return "METRICS"
	}
	return "LOGS"
}

func e2eEnvKeys(exp string) []string {
	s := e2eSigName(exp)
	return []string{
		"OTEL_EXPORTER_OTLP_" + s + "_ENDPOINT", "OTEL_EXPORTER_OTLP_ENDPOINT",
		"OTEL_EXPORTER_OTLP_" + s + "_INSECURE", "OTEL_EXPORTER_OTLP_INSECURE",
		"OTEL_EXPORTER_OTLP_" + s + "_HEADERS", "OTEL_EXPORTER_OTLP_HEADERS",
		"OTEL_EXPORTER_OTLP_" + s + "_COMPRESSION", "OTEL_EXPORTER_OTLP_COMPRESSION",
		"OTEL_EXPORTER_OTLP_" + s + "_TIMEOUT", "OTEL_EXPORTER_OTLP_TIMEOUT",
	}
}

func e2eClearOtelEnv() {
	for _, kv := range os.Environ() {
		if strings.HasPrefix(kv, "OTEL_") {
			os.Unsetenv(kv[:strings.IndexByte(kv, '=')])
		}
	}
}

// ---------------------------------------------------------------- the world: collectors + error handler

type e2eWorld struct {
	cols   []*e2eCollector // index k-1
	caFile string          // PEM of the harness CA ("" = collectors have no TLS side)
	tmpDir string
}

var e2eHandled struct {
	mu sync.Mutex
	n  int
}

func e2eTakeHandled() int {
	e2eHandled.mu.Lock()
	defer e2eHandled.mu.Unlock()
	n := e2eHandled.n
	e2eHandled.n = 0
	return n
}

func e2eNewWorld() (*e2eWorld, error) {
	w := &e2eWorld{}
	tlsCfg, caFile, dir, err := e2eMakeCA()
	if err != nil {
		return nil, err
	}
	w.caFile, w.tmpDir = caFile, dir
	for k := 1; k <= 6; k++ {
		c, err := e2eStartCollector(k, k >= 4, tlsCfg)
		if err != nil {
			w.close()
			return nil, err
		}
		w.cols = append(w.cols, c)
	}
	otel.SetErrorHandler(otel.ErrorHandlerFunc(func(error) {
		e2eHandled.mu.Lock()
		e2eHandled.n++
		e2eHandled.mu.Unlock()
	}))
	return w, nil
}

func (w *e2eWorld) close() {
	for _, c := range w.cols {
		c.stop()
	}
	if w.tmpDir != "" {
		os.RemoveAll(w.tmpDir)
	}
}

func (w *e2eWorld) subst(s string) string {
	for _, c := range w.cols {
		s = strings.ReplaceAll(s, e2ePlaceholder(c.k), c.addr)
	}
	return s
}

// ---------------------------------------------------------------- scenario

type e2eScenario struct {
	gen    string
	exp    string
	bgen   string
	bseed  uint64
	items  []c20Item
	env    []string // ten tokens: `-` or x<hex>
	en     bool
	msel   string
	stall  int // ms
	tls    bool
	script []string
	// interleaved exporters (role A: retried export held back until role B's export is through; see runIlv)
	role  byte // 0 = single exporter
	pgen  string
	pseed uint64
}

func (s *e2eScenario) isHTTP() bool { return s.exp[1] == 'h' }

func (s *e2eScenario) batchTok() string {
	if s.role == 0 {
		return fmt.Sprintf("%s:%d", s.bgen, s.bseed)
	}
	return fmt.Sprintf("%s:%d~%s:%d~%c", s.bgen, s.bseed, s.pgen, s.pseed, s.role)
}

func (s *e2eScenario) prefix(kind string) string {
	return fmt.Sprintf("%s %s %s %s %s %s %s %d %s %d %d %s", kind, s.gen, s.exp, s.batchTok(), c20ItemsTok(s.items),
		strings.Join(s.env, " "), c20Table(s.items, s.env), vB(s.en), s.msel, s.stall, vB(s.tls), strings.Join(s.script, " | "))
}

func vB(b bool) int {
	if b {
		return 1
	}
	return 0
}

// e2eParseScenario: the inverse of prefix (replay). f = whitespace-split input part.
func e2eParseScenario(f []string) (*e2eScenario, bool) {
	if len(f) < 21 {
		return nil, false
	}
	s := &e2eScenario{gen: f[1], exp: f[2]}
	switch s.exp {
	case "th", "tg", "mh", "mg", "lh", "lg":
	default:
		return nil, false
	}
	parts := strings.Split(f[3], "~")
	bg, bs, ok := strings.Cut(parts[0], ":")
	if !ok {
		return nil, false
	}
	s.bgen = bg
	var err error
	if s.bseed, err = strconv.ParseUint(bs, 10, 64); err != nil {
		return nil, false
	}
	// roles A/B: interleaved pair; roles C/D: C20 two-exporter scenario (e2e_two_test.go)
	if len(parts) == 3 && (parts[2] == "A" || parts[2] == "B" || parts[2] == "C" || parts[2] == "D") {
		pg, ps, ok := strings.Cut(parts[1], ":")
		if !ok {
			return nil, false
		}
		s.role, s.pgen = parts[2][0], pg
		if s.pseed, err = strconv.ParseUint(ps, 10, 64); err != nil {
			return nil, false
		}
	} else if len(parts) != 1 {
		return nil, false
	}
	s.items = c20ParseItems(f[4])
	s.env = append([]string{}, f[5:15]...)
	s.en = f[16] == "1"
	s.msel = f[17]
	if s.stall, err = strconv.Atoi(f[18]); err != nil {
		return nil, false
	}
	s.tls = f[19] == "1"
	for _, x := range f[20:] {
		if x == "#" {
			break
		}
		if x != "|" {
			s.script = append(s.script, x)
		}
	}
	return s, len(s.script) > 0
}

// ---------------------------------------------------------------- batches

type e2eBatch struct {
	spans []tracesdk.ReadOnlySpan
	rm    *metricdata.ResourceMetrics
	recs  []sdklog.Record
	canon string
	empty bool // nothing would be sent (no span / no record)
}

func e2eMakeBatch(sig byte, bgen string, bseed uint64) *e2eBatch {
	b := &e2eBatch{}
	var w c13W
	switch sig {
	case 't':
		b.spans = c13GenSpanBatch(bgen, bseed)
		w.open()
		b.empty = true
		for _, s := range b.spans {
			c13PrintSpan(&w, s)
			if s != nil {
				b.empty = false
			}
		}
		w.close()
	case 'm':
		b.rm = c13GenRM(bgen, bseed)
		c13PrintRM(&w, b.rm)
	default:
		b.recs = c13GenLogBatch(bgen, bseed, 0)
		w.open()
		for _, rec := range b.recs {
			c13PrintRecord(&w, rec)
		}
		w.close()
		b.empty = len(b.recs) == 0
	}
	b.canon = w.String()
	return b
}

// ---------------------------------------------------------------- exporters through the public API

type e2eRetry struct {
	en               bool
	ini, max, maxEla time.Duration
}

type e2eExporter struct {
	export   func(context.Context, *e2eBatch) error
	shutdown func(context.Context) error
}

type e2eMk[O any] struct {
	E func(string) O
	U func(string) O
	P func(string) O
	I func() O
	H func(map[string]string) O
	C func(bool) O
	W func(string) O
	T func(time.Duration) O
	R func(e2eRetry) O
}

func e2eOpts[O any](w *e2eWorld, mk e2eMk[O], items []c20Item, rc e2eRetry) ([]O, error) {
	var out []O
	bad := func(k byte) error { return fmt.Errorf("option kind %c not available for this exporter", k) }
	for _, it := range items {
		switch it.kind {
		case 'E':
			out = append(out, mk.E(w.subst(it.s)))
		case 'U':
			out = append(out, mk.U(w.subst(it.s)))
		case 'P':
			if mk.P == nil {
				return nil, bad(it.kind)
			}
			out = append(out, mk.P(it.s))
		case 'I':
			out = append(out, mk.I())
		case 'H':
			out = append(out, mk.H(it.m))
		case 'C':
			if mk.C == nil {
				return nil, bad(it.kind)
			}
			out = append(out, mk.C(it.n == 1))
		case 'W':
			if mk.W == nil {
				return nil, bad(it.kind)
			}
			out = append(out, mk.W(it.s))
		case 'T':
			out = append(out, mk.T(time.Duration(it.n)))
		default:
			return nil, bad(it.kind)
		}
	}
	// the retry configuration goes first: it is not one of the modelled settings and no other option touches it
	return append([]O{mk.R(rc)}, out...), nil
}

func e2eCompressor(gz bool) string {
	if gz {
		return "gzip"
	}
	return "none"
}

func e2eBuild(w *e2eWorld, exp string, items []c20Item, rc e2eRetry) (*e2eExporter, error) {
	ctx := context.Background()
	switch exp {
	case "th":
		mk := e2eMk[otlptracehttp.Option]{E: otlptracehttp.WithEndpoint, U: otlptracehttp.WithEndpointURL, P: otlptracehttp.WithURLPath,
			I: otlptracehttp.WithInsecure, H: otlptracehttp.WithHeaders, T: otlptracehttp.WithTimeout,
			C: func(gz bool) otlptracehttp.Option {
				if gz {
					return otlptracehttp.WithCompression(otlptracehttp.GzipCompression)
				}
				return otlptracehttp.WithCompression(otlptracehttp.NoCompression)
			},
			R: func(r e2eRetry) otlptracehttp.Option {
				return otlptracehttp.WithRetry(otlptracehttp.RetryConfig{Enabled: r.en, InitialInterval: r.ini, MaxInterval: r.max, MaxElapsedTime: r.maxEla})
			}}
		opts, err := e2eOpts(w, mk, items, rc)
		if err != nil {
			return nil, err
		}
		e, err := otlptracehttp.New(ctx, opts...)
		if err != nil {
			return nil, err
		}
		return &e2eExporter{export: func(c context.Context, b *e2eBatch) error { return e.ExportSpans(c, b.spans) }, shutdown: e.Shutdown}, nil
	case "tg":
		mk := e2eMk[otlptracegrpc.Option]{E: otlptracegrpc.WithEndpoint, U: otlptracegrpc.WithEndpointURL,
			I: otlptracegrpc.WithInsecure, H: otlptracegrpc.WithHeaders, T: otlptracegrpc.WithTimeout,
			C: func(gz bool) otlptracegrpc.Option { return otlptracegrpc.WithCompressor(e2eCompressor(gz)) },
			R: func(r e2eRetry) otlptracegrpc.Option {
				return otlptracegrpc.WithRetry(otlptracegrpc.RetryConfig{Enabled: r.en, InitialInterval: r.ini, MaxInterval: r.max, MaxElapsedTime: r.maxEla})
			}}
		opts, err := e2eOpts(w, mk, items, rc)
		if err != nil {
			return nil, err
		}
		e, err := otlptracegrpc.New(ctx, opts...)
		if err != nil {
			return nil, err
		}
		return &e2eExporter{export: func(c context.Context, b *e2eBatch) error { return e.ExportSpans(c, b.spans) }, shutdown: e.Shutdown}, nil
	case "mh":
		mk := e2eMk[otlpmetrichttp.Option]{E: otlpmetrichttp.WithEndpoint, U: otlpmetrichttp.WithEndpointURL, P: otlpmetrichttp.WithURLPath,
			I: otlpmetrichttp.WithInsecure, H: otlpmetrichttp.WithHeaders, T: otlpmetrichttp.WithTimeout,
			C: func(gz bool) otlpmetrichttp.Option {
				if gz {
					return otlpmetrichttp.WithCompression(otlpmetrichttp.GzipCompression)
				}
				return otlpmetrichttp.WithCompression(otlpmetrichttp.NoCompression)
			},
			R: func(r e2eRetry) otlpmetrichttp.Option {
				return otlpmetrichttp.WithRetry(otlpmetrichttp.RetryConfig{Enabled: r.en, InitialInterval: r.ini, MaxInterval: r.max, MaxElapsedTime: r.maxEla})
			}}
		opts, err := e2eOpts(w, mk, items, rc)
		if err != nil {
			return nil, err
		}
		e, err := otlpmetrichttp.New(ctx, opts...)
		if err != nil {
			return nil, err
		}
		return &e2eExporter{export: func(c context.Context, b *e2eBatch) error { return e.Export(c, b.rm) }, shutdown: e.Shutdown}, nil
	case "mg":
		mk := e2eMk[otlpmetricgrpc.Option]{E: otlpmetricgrpc.WithEndpoint, U: otlpmetricgrpc.WithEndpointURL,
			I: otlpmetricgrpc.WithInsecure, H: otlpmetricgrpc.WithHeaders, T: otlpmetricgrpc.WithTimeout,
			C: func(gz bool) otlpmetricgrpc.Option { return otlpmetricgrpc.WithCompressor(e2eCompressor(gz)) },
			R: func(r e2eRetry) otlpmetricgrpc.Option {
				return otlpmetricgrpc.WithRetry(otlpmetricgrpc.RetryConfig{Enabled: r.en, InitialInterval: r.ini, MaxInterval: r.max, MaxElapsedTime: r.maxEla})
			}}
		opts, err := e2eOpts(w, mk, items, rc)
		if err != nil {
			return nil, err
		}
		e, err := otlpmetricgrpc.New(ctx, opts...)
		if err != nil {
			return nil, err
		}
		return &e2eExporter{export: func(c context.Context, b *e2eBatch) error { return e.Export(c, b.rm) }, shutdown: e.Shutdown}, nil
	case "lh":
		mk := e2eMk[otlploghttp.Option]{E: otlploghttp.WithEndpoint, U: otlploghttp.WithEndpointURL, P: otlploghttp.WithURLPath,
			I: otlploghttp.WithInsecure, H: otlploghttp.WithHeaders, T: otlploghttp.WithTimeout,
			C: func(gz bool) otlploghttp.Option {
				if gz {
					return otlploghttp.WithCompression(otlploghttp.GzipCompression)
				}
				return otlploghttp.WithCompression(otlploghttp.NoCompression)
			},
			R: func(r e2eRetry) otlploghttp.Option {
				return otlploghttp.WithRetry(otlploghttp.RetryConfig{Enabled: r.en, InitialInterval: r.ini, MaxInterval: r.max, MaxElapsedTime: r.maxEla})
			}}
		opts, err := e2eOpts(w, mk, items, rc)
		if err != nil {
			return nil, err
		}
		e, err := otlploghttp.New(ctx, opts...)
		if err != nil {
			return nil, err
		}
		return &e2eExporter{export: func(c context.Context, b *e2eBatch) error { return e.Export(c, b.recs) }, shutdown: e.Shutdown}, nil
	case "lg":
		mk := e2eMk[otlploggrpc.Option]{E: otlploggrpc.WithEndpoint, U: otlploggrpc.WithEndpointURL,
			I: otlploggrpc.WithInsecure, H: otlploggrpc.WithHeaders, T: otlploggrpc.WithTimeout,
			W: otlploggrpc.WithCompressor,
			R: func(r e2eRetry) otlploggrpc.Option {
				return otlploggrpc.WithRetry(otlploggrpc.RetryConfig{Enabled: r.en, InitialInterval: r.ini, MaxInterval: r.max, MaxElapsedTime: r.maxEla})
			}}
		opts, err := e2eOpts(w, mk, items, rc)
		if err != nil {
			return nil, err
		}
		e, err := otlploggrpc.New(ctx, opts...)
		if err != nil {
			return nil, err
		}
		return &e2eExporter{export: func(c context.Context, b *e2eBatch) error { return e.Export(c, b.recs) }, shutdown: e.Shutdown}, nil
	}
	return nil, errors.New("unknown exporter " + exp)
}

// ---------------------------------------------------------------- running one scenario

type e2eResult struct {
	built       bool
	buildErr    string // "" | panic | err
	exportErr   error
	shutdownErr error
	shutdownDur time.Duration
	t0          time.Time
	tEnd        time.Time
	handled     int
	hit         []*e2eCollector // collectors that saw a request or a TLS hello
	col         *e2eCollector   // the one collector hit (nil if none or several)
	attempts    []*e2eAttempt
	tlsHellos   int
	exhausted   bool
	batch       *e2eBatch
	httpScr     []e2eHTTPItem
	grpcScr     []e2eGRPCItem
}

func (w *e2eWorld) run(s *e2eScenario) (*e2eResult, bool) {
	res := &e2eResult{}
	sig := s.exp[0]
	for _, t := range s.script {
		if s.isHTTP() {
			it, ok := e2eParseHTTP(t, sig)
			if !ok {
				return nil, false
			}
			res.httpScr = append(res.httpScr, it)
		} else {
			it, ok := e2eParseGRPC(t)
			if !ok {
				return nil, false
			}
			res.grpcScr = append(res.grpcScr, it)
		}
	}
	res.batch = e2eMakeBatch(sig, s.bgen, s.bseed)
	// no deadline on the export context (the exporters' own timeout is an observation): a watchdog cancels instead
	ctx, cancel := context.WithCancel(context.Background())
	defer cancel()
	watchdog := time.AfterFunc(20*time.Second, cancel)
	defer watchdog.Stop()
	for _, c := range w.cols {
		c.reset(sig, res.httpScr, res.grpcScr, time.Duration(s.stall)*time.Millisecond, cancel)
	}
	e2eClearOtelEnv()
	defer e2eClearOtelEnv()
	for i, k := range e2eEnvKeys(s.exp) {
		if s.env[i] != "-" {
			if err := os.Setenv(k, w.subst(vUnhex(s.env[i]))); err != nil {
				return nil, false
			}
		}
	}
	if s.tls {
		os.Setenv("OTEL_EXPORTER_OTLP_CERTIFICATE", w.caFile)
	}
	rc := e2eRetry{en: s.en, ini: 1, max: 1}
	switch s.msel {
	case "H":
		rc.maxEla = time.Hour
	case "T":
		rc.maxEla = 1
	}
	var exp *e2eExporter
	func() {
		defer func() {
			if r := recover(); r != nil {
				res.buildErr = "panic"
			}
		}()
		var err error
		exp, err = e2eBuild(w, s.exp, s.items, rc)
		if err != nil {
			res.buildErr = "err"
		}
	}()
	if exp == nil {
		return res, true
	}
	res.built = true
	e2eTakeHandled() // e.g. WithCompressor("none") reports through the error handler at construction
	res.t0 = time.Now()
	res.exportErr = exp.export(ctx, res.batch)
	res.tEnd = time.Now()
	res.handled = e2eTakeHandled()
	sctx, scancel := context.WithTimeout(context.Background(), 5*time.Second)
	ts := time.Now()
	res.shutdownErr = exp.shutdown(sctx)
	res.shutdownDur = time.Since(ts)
	scancel()
	// every handler has returned (a stalled answer outlives the export call)
	for i := 0; i < 50000; i++ {
		busy := false
		for _, c := range w.cols {
			busy = busy || !c.idle()
		}
		if !busy {
			break
		}
		time.Sleep(100 * time.Microsecond)
	}
	for _, c := range w.cols {
		c.mu.Lock()
		if len(c.attempts) > 0 || c.tlsHellos > 0 {
			res.hit = append(res.hit, c)
		}
		c.mu.Unlock()
	}
	if len(res.hit) == 1 {
		c := res.hit[0]
		res.col = c
		c.mu.Lock()
		res.attempts = append([]*e2eAttempt{}, c.attempts...)
		res.tlsHellos, res.exhausted = c.tlsHellos, c.exhausted
		c.mu.Unlock()
	}
	return res, true
}

// ---------------------------------------------------------------- observations

// C14 view. An API user sees ok / the two give-up errors / a context error / some other error.
func (res *e2eResult) class14(sig byte) string {
	err := res.exportErr
	if sig == 'm' && err != nil && !strings.HasPrefix(err.Error(), "failed to upload") {
		err = nil // only the transform error of a partially convertible batch: the upload itself succeeded
	}
	switch {
	case res.exhausted:
		return "exhausted"
	case err == nil:
		return "ok"
	case strings.Contains(err.Error(), "max retry time elapsed: "):
		return "elapsed"
	case strings.Contains(err.Error(), "max retry time would elapse: "):
		return "would"
	case errors.Is(err, context.Canceled):
		return "cancel"
	}
	return "err"
}

func (res *e2eResult) obs14(s *e2eScenario) string {
	n := len(res.attempts)
	same := 1
	for _, a := range res.attempts {
		if a.sig() != res.attempts[0].sig() || !a.wireOK {
			same = 0
		}
	}
	g := ""
	for i := 0; i+1 < n && i < len(s.script); i++ {
		var hint time.Duration
		if s.isHTTP() {
			hint = res.httpScr[i].hint()
		} else {
			hint = res.grpcScr[i].hint
		}
		if res.attempts[i+1].arrive.Sub(res.attempts[i].answered) >= hint {
			g += "1"
		} else {
			g += "0"
		}
	}
	if g == "" {
		g = "-"
	}
	// p: Shutdown after the export returned nil, promptly
	p := 1
	if res.shutdownErr != nil || res.shutdownDur > 2*time.Second {
		p = 0
	}
	return fmt.Sprintf("%s %d s%d h%d g%s p%d", res.class14(s.exp[0]), n, same, res.handled, g, p)
}

// C13 view: every attempt's decoded payload, equal ones grouped.
func (res *e2eResult) obs13(s *e2eScenario) string {
	st := "-"
	if s.exp[0] == 'm' {
		st = "ok"
		if e := res.exportErr; e != nil && (!strings.HasPrefix(e.Error(), "failed to upload") || strings.HasPrefix(e.Error(), "failed to upload incomplete metrics")) {
			st = "err"
		}
	}
	var dumps []string
	var counts []int
	for _, a := range res.attempts {
		d := a.dump
		if !a.wireOK {
			d = "err:wire"
		}
		if k := len(dumps) - 1; k >= 0 && dumps[k] == d {
			counts[k]++
			continue
		}
		dumps = append(dumps, d)
		counts = append(counts, 1)
	}
	parts := make([]string, len(dumps))
	for i := range dumps {
		parts[i] = fmt.Sprintf("%d %s", counts[i], dumps[i])
	}
	if len(parts) == 0 {
		parts = []string{"0 -"}
	}
	return fmt.Sprintf("%d %s %s", len(res.attempts), st, strings.Join(parts, " || "))
}

// C20 view: who got the first request and how it looked.
func (res *e2eResult) obs20(s *e2eScenario) string {
	if !res.built {
		return res.buildErr
	}
	if len(res.hit) == 0 {
		return "- ? - ? ? ? ? - -"
	}
	if len(res.hit) > 1 {
		return "multi ? - ? ? ? ? - -"
	}
	who := vHex(e2ePlaceholder(res.col.k))
	if len(res.attempts) == 0 {
		// only TLS hellos: the exporter spoke TLS to this collector and no request got through
		return who + " ? 0 ? ? ? ? - -"
	}
	a := res.attempts[0]
	hd := "{}"
	if len(a.hdrs) > 0 {
		hd = strings.Join(a.hdrs, ",")
	}
	gz := "0"
	switch {
	case !a.wireOK:
		gz = "X"
	case a.cenc == "gzip" && a.bodyGz:
		gz = "1"
	case a.cenc == "" || a.cenc == "identity":
		if a.bodyGz && s.isHTTP() {
			gz = "X"
		}
	default:
		gz = "X"
	}
	ua := a.ua
	if i := strings.IndexByte(ua, '/'); i >= 0 && s.isHTTP() {
		ua = ua[:i] // up to the version
	} else if i := strings.LastIndex(ua, " grpc-go/"); i >= 0 {
		ua = ua[:i]
		if j := strings.LastIndexByte(ua, '/'); j >= 0 {
			ua = ua[:j]
		}
	}
	dl := "-"
	if !s.isHTTP() {
		dl = "n"
		if a.hasDL {
			// server deadline = client deadline + transit + grpc-timeout rounding: T in [rem - 1 ms, rem + (arrive - t0)]
			lo := a.dlRem - time.Millisecond
			hi := a.dlRem + a.arrive.Sub(res.t0)
			dl = fmt.Sprintf("%d:%d", int64(lo), int64(hi))
		}
	}
	st := "-"
	if s.stall > 0 {
		st = "D"
		// the export failed and either the collector saw the client go away while it was still holding its answer
		// back, or the call returned before the answer was due
		if res.exportErr != nil && (a.gaveUp || res.tEnd.Before(a.arrive.Add(time.Duration(s.stall)*time.Millisecond))) {
			st = "T"
		}
	}
	path := a.path
	return fmt.Sprintf("%s %s %d %s %s %s %s %s %s", who, vHex(path), vB(!a.tls), hd, gz, vHex(a.ctype), vHex(ua), dl, st)
}

// ---------------------------------------------------------------- interleaved exporters

func e2eOKScript(exp string) []string { return []string{e2eOKResp(exp)} }

func e2eOKResp(exp string) string {
	if exp[1] == 'h' {
		return "200;-;0;e"
	}
	return "0;-;-"
}

func e2eRetryThenOK(exp string) []string {
	if exp[1] == 'h' {
		return []string{"503;-;0;e", "200;-;0;e"}
	}
	return []string{"14;-;-", "0;-;-"}
}

// e2eIlvCollectors: the collector a scenario's host option names, and the next one of its group.
func (w *e2eWorld) ilvCollectors(s *e2eScenario) (own, next *e2eCollector) {
	for _, it := range s.items {
		if it.kind == 'E' {
			for i, c := range w.cols {
				if e2ePlaceholder(c.k) == it.s {
					base := 0
					if c.k >= 4 {
						base = 3
					}
					return c, w.cols[base+(i-base+1)%3]
				}
			}
		}
	}
	return nil, nil
}

// e2ePartner derives the other role's scenario: same exporter kind and options, host option naming the partner's
// collector, the partner's batch; role B's script is one success, role A's (when derived from a B line) 503/Unavailable
// then success.
func (w *e2eWorld) partner(s *e2eScenario) *e2eScenario {
	own, next := w.ilvCollectors(s)
	if own == nil {
		return nil
	}
	other := next
	p := &e2eScenario{gen: s.gen, exp: s.exp, bgen: s.pgen, bseed: s.pseed, pgen: s.bgen, pseed: s.bseed, env: s.env, en: s.en, msel: s.msel}
	if s.role == 'A' {
		p.role, p.script = 'B', e2eOKScript(s.exp)
	} else {
		// B's line names the NEXT collector as its own partner's: A sits on the previous one of the group
		base := 0
		if own.k >= 4 {
			base = 3
		}
		other = w.cols[base+(own.k-1-base+2)%3]
		p.role, p.script, p.en, p.msel = 'A', e2eRetryThenOK(s.exp), true, "H"
	}
	for _, it := range s.items {
		if it.kind == 'E' {
			it.s = e2ePlaceholder(other.k)
		}
		p.items = append(p.items, it)
	}
	return p
}

type e2eIlvSide struct {
	s    *e2eScenario
	col  *e2eCollector
	res  *e2eResult
	exp  *e2eExporter
	once int
}

func (w *e2eWorld) prepSide(s *e2eScenario) (*e2eIlvSide, bool) {
	col, _ := w.ilvCollectors(s)
	if col == nil {
		return nil, false
	}
	sd := &e2eIlvSide{s: s, col: col, res: &e2eResult{}}
	sig := s.exp[0]
	for _, t := range s.script {
		if s.isHTTP() {
			it, ok := e2eParseHTTP(t, sig)
			if !ok {
				return nil, false
			}
			sd.res.httpScr = append(sd.res.httpScr, it)
		} else {
			it, ok := e2eParseGRPC(t)
			if !ok {
				return nil, false
			}
			sd.res.grpcScr = append(sd.res.grpcScr, it)
		}
	}
	sd.res.batch = e2eMakeBatch(sig, s.bgen, s.bseed)
	return sd, true
}

func (sd *e2eIlvSide) build(w *e2eWorld) {
	rc := e2eRetry{en: sd.s.en, ini: 1, max: 1}
	switch sd.s.msel {
	case "H":
		rc.maxEla = time.Hour
	case "T":
		rc.maxEla = 1
	}
	func() {
		defer func() {
			if r := recover(); r != nil {
				sd.res.buildErr = "panic"
			}
		}()
		var err error
		if sd.exp, err = e2eBuild(w, sd.s.exp, sd.s.items, rc); err != nil {
			sd.res.buildErr = "err"
		}
	}()
	sd.res.built = sd.exp != nil
}

func (sd *e2eIlvSide) gather() {
	c := sd.col
	c.mu.Lock()
	sd.res.attempts = append([]*e2eAttempt{}, c.attempts...)
	sd.res.tlsHellos, sd.res.exhausted = c.tlsHellos, c.exhausted
	c.mu.Unlock()
	sd.res.col = c
	sd.res.hit = []*e2eCollector{c}
}

// runIlv runs role A and role B together; `a` must be the role A scenario, `b` role B.
func (w *e2eWorld) runIlv(a, b *e2eScenario) (*e2eResult, *e2eResult, bool) {
	sa, ok := w.prepSide(a)
	if !ok {
		return nil, nil, false
	}
	sb, ok := w.prepSide(b)
	if !ok || sa.col == sb.col {
		return nil, nil, false
	}
	// the demonstration of a pool-related defect needs B to be handed what A put back: one P, no GC in between
	defer runtime.GOMAXPROCS(runtime.GOMAXPROCS(1))
	defer debug.SetGCPercent(debug.SetGCPercent(-1))
	ctx, cancel := context.WithCancel(context.Background())
	defer cancel()
	watchdog := time.AfterFunc(20*time.Second, cancel)
	defer watchdog.Stop()
	for _, c := range w.cols {
		c.reset(a.exp[0], nil, nil, 0, cancel)
	}
	sa.col.reset(a.exp[0], sa.res.httpScr, sa.res.grpcScr, 0, cancel)
	sb.col.reset(b.exp[0], sb.res.httpScr, sb.res.grpcScr, 0, cancel)
	arrived, release := make(chan struct{}), make(chan struct{})
	sa.col.setHold(func(i int, done <-chan struct{}) {
		if i != 0 {
			return
		}
		close(arrived)
		select {
		case <-release:
		case <-done:
		case <-ctx.Done():
		}
	})
	e2eClearOtelEnv()
	sa.build(w)
	sb.build(w)
	if !sa.res.built || !sb.res.built {
		return sa.res, sb.res, true
	}
	e2eTakeHandled()
	errA := make(chan error, 1)
	sa.res.t0 = time.Now()
	go func() { errA <- sa.exp.export(ctx, sa.res.batch) }()
	select {
	case <-arrived:
	case e := <-errA: // A ended without ever being held (e.g. nothing was sent)
		errA <- e
	case <-time.After(5 * time.Second):
	}
	hA := e2eTakeHandled()
	sb.res.t0 = time.Now()
	sb.res.exportErr = sb.exp.export(ctx, sb.res.batch)
	sb.res.tEnd = time.Now()
	sb.res.handled = e2eTakeHandled()
	close(release)
	sa.res.exportErr = <-errA
	sa.res.tEnd = time.Now()
	sa.res.handled = hA + e2eTakeHandled()
	for _, sd := range []*e2eIlvSide{sa, sb} {
		sctx, scancel := context.WithTimeout(context.Background(), 5*time.Second)
		ts := time.Now()
		sd.res.shutdownErr = sd.exp.shutdown(sctx)
		sd.res.shutdownDur = time.Since(ts)
		scancel()
	}
	for i := 0; i < 50000; i++ {
		busy := false
		for _, c := range w.cols {
			busy = busy || !c.idle()
		}
		if !busy {
			break
		}
		time.Sleep(100 * time.Microsecond)
	}
	sa.gather()
	sb.gather()
	return sa.res, sb.res, true
}
