// End-to-end legs of C13 / C14 / C20: in-process collectors.
//
// Every collector listens on its own loopback port through a sniffing listener: a connection whose first byte is
// 0x16 (TLS ClientHello) is either served by the collector's TLS server (real certificate issued by the harness
// CA) or — when the collector has no TLS side — counted as a "TLS attempt" and closed; everything else is served
// in clear text. HTTP collectors are plain net/http servers (no mux: the request path is seen as sent), gRPC
// collectors are grpc.Servers with the three OTLP collector services and a stats.Handler (grpc-encoding is not
// visible through the metadata API).
//
// A collector follows the response script of the current scenario (same token grammar as the C14 harness:
// HTTP `<status>;<Retry-After hex|->;0;<body>`, gRPC `<code>;<details>;<partial>`), optionally stalls its first
// answer, and records for each attempt: path / full method, headers / metadata, content type and encoding, user
// agent, whether the body was gzip, the decoded payload in the canonical C13 dump, arrival and answer times,
// the deadline the server saw (gRPC).
package otlpe2e

import (
	"bytes"
	"compress/gzip"
	"context"
	"crypto/tls"
	"fmt"
	"io"
	"log"
	"net"
	"net/http"
	"sort"
	"strconv"
	"strings"
	"sync"
	"time"

	"google.golang.org/genproto/googleapis/rpc/errdetails"
	"google.golang.org/grpc"
	"google.golang.org/grpc/codes"
	"google.golang.org/grpc/credentials"
	_ "google.golang.org/grpc/encoding/gzip"
	"google.golang.org/grpc/metadata"
	"google.golang.org/grpc/stats"
	"google.golang.org/grpc/status"
	"google.golang.org/protobuf/proto"
	"google.golang.org/protobuf/protoadapt"
	"google.golang.org/protobuf/reflect/protoreflect"
	"google.golang.org/protobuf/types/known/durationpb"

	collogpb "go.opentelemetry.io/proto/otlp/collector/logs/v1"
	colmetricpb "go.opentelemetry.io/proto/otlp/collector/metrics/v1"
	coltracepb "go.opentelemetry.io/proto/otlp/collector/trace/v1"
	logpb "go.opentelemetry.io/proto/otlp/logs/v1"
	metricpb "go.opentelemetry.io/proto/otlp/metrics/v1"
	tracepb "go.opentelemetry.io/proto/otlp/trace/v1"
)

// ---------------------------------------------------------------- sniffing listener

type e2ePeeked struct {
	net.Conn
	first byte
	used  bool
}

func (p *e2ePeeked) Read(b []byte) (int, error) {
	if !p.used && len(b) > 0 {
		p.used = true
		b[0] = p.first
		return 1, nil
	}
	return p.Conn.Read(b)
}

type e2eChanListener struct {
	ch   chan net.Conn
	addr net.Addr
	done chan struct{}
	once sync.Once
}

func (l *e2eChanListener) Accept() (net.Conn, error) {
	select {
	case c := <-l.ch:
		return c, nil
	case <-l.done:
		return nil, net.ErrClosed
	}
}
func (l *e2eChanListener) Close() error   { l.once.Do(func() { close(l.done) }); return nil }
func (l *e2eChanListener) Addr() net.Addr { return l.addr }

type e2eSniffer struct {
	inner  net.Listener
	plain  *e2eChanListener
	secure *e2eChanListener // nil: TLS hellos are counted and the connection is closed
	onTLS  func()
	mu     sync.Mutex
	conns  map[net.Conn]struct{}
	closed bool
}

func e2eNewSniffer(inner net.Listener, withTLS bool, onTLS func()) *e2eSniffer {
	s := &e2eSniffer{inner: inner, onTLS: onTLS, conns: map[net.Conn]struct{}{}}
	s.plain = &e2eChanListener{ch: make(chan net.Conn), addr: inner.Addr(), done: make(chan struct{})}
	if withTLS {
		s.secure = &e2eChanListener{ch: make(chan net.Conn), addr: inner.Addr(), done: make(chan struct{})}
	}
	go s.loop()
	return s
}

func (s *e2eSniffer) loop() {
	for {
		c, err := s.inner.Accept()
		if err != nil {
			return
		}
		s.mu.Lock()
		if s.closed {
			s.mu.Unlock()
			c.Close()
			return
		}
		s.conns[c] = struct{}{}
		s.mu.Unlock()
		go func() {
			var b [1]byte
			if _, err := io.ReadFull(c, b[:]); err != nil {
				s.drop(c)
				return
			}
			pc := &e2ePeeked{Conn: c, first: b[0]}
			target := s.plain
			if b[0] == 0x16 {
				s.onTLS()
				if s.secure == nil {
					s.drop(c)
					return
				}
				target = s.secure
			}
			select {
			case target.ch <- pc:
			case <-target.done:
				s.drop(c)
			}
		}()
	}
}

func (s *e2eSniffer) drop(c net.Conn) {
	c.Close()
	s.mu.Lock()
	delete(s.conns, c)
	s.mu.Unlock()
}

func (s *e2eSniffer) Close() {
	s.mu.Lock()
	s.closed = true
	for c := range s.conns {
		c.Close()
	}
	s.mu.Unlock()
	s.inner.Close()
	s.plain.Close()
	if s.secure != nil {
		s.secure.Close()
	}
}

// ---------------------------------------------------------------- script items (grammar of the C14 harness)

type e2eHTTPItem struct {
	status int
	hdr    *string
	body   []byte
	ct     string
}

func e2eAllDigits(s string) bool {
	if s == "" {
		return false
	}
	for i := 0; i < len(s); i++ {
		if s[i] < '0' || s[i] > '9' {
			return false
		}
	}
	return true
}

// hint in the unit the statement means (seconds), as in the C14 harness
func (it e2eHTTPItem) hint() time.Duration {
	if it.hdr != nil && e2eAllDigits(*it.hdr) {
		if v, e := strconv.ParseInt(*it.hdr, 10, 64); e == nil && v < 1000000 {
			return time.Duration(v) * time.Second
		}
	}
	return 0
}

func e2ePartialBody(sig byte, rejected int64, msg string) []byte {
	var m proto.Message
	switch sig {
	case 't':
		m = &coltracepb.ExportTraceServiceResponse{PartialSuccess: &coltracepb.ExportTracePartialSuccess{RejectedSpans: rejected, ErrorMessage: msg}}
	case 'm':
		m = &colmetricpb.ExportMetricsServiceResponse{PartialSuccess: &colmetricpb.ExportMetricsPartialSuccess{RejectedDataPoints: rejected, ErrorMessage: msg}}
	default:
		m = &collogpb.ExportLogsServiceResponse{PartialSuccess: &collogpb.ExportLogsPartialSuccess{RejectedLogRecords: rejected, ErrorMessage: msg}}
	}
	b, err := proto.Marshal(m)
	if err != nil {
		panic(err)
	}
	return b
}

func e2eParseHTTP(tok string, sig byte) (e2eHTTPItem, bool) {
	p := strings.Split(tok, ";")
	if len(p) != 4 || p[2] != "0" || p[3] == "" {
		return e2eHTTPItem{}, false
	}
	var it e2eHTTPItem
	var err error
	if it.status, err = strconv.Atoi(p[0]); err != nil || it.status < 200 || it.status > 599 {
		return it, false
	}
	if p[1] != "-" {
		s := vUnhex(p[1])
		it.hdr = &s
	}
	b := p[3]
	ct := func(c byte) string {
		if c == '1' {
			return "application/x-protobuf"
		}
		return "application/json"
	}
	switch b[0] {
	case 'e':
	case 'n':
		if len(b) != 2 {
			return it, false
		}
		it.ct, it.body = ct(b[1]), []byte{0x78, 0x01} // unknown field 15 = 1: a non-empty message without partial_success
	case 'g':
		if len(b) != 2 {
			return it, false
		}
		it.ct, it.body = ct(b[1]), []byte{0xff, 0xff, 0xff}
	case 'p':
		if len(b) < 4 {
			return it, false
		}
		q := strings.Split(b[3:], ":")
		if len(q) != 2 {
			return it, false
		}
		n, _ := strconv.ParseInt(q[0], 10, 64)
		it.ct, it.body = ct(b[1]), e2ePartialBody(sig, n, vUnhex(q[1]))
	default:
		return it, false
	}
	return it, true
}

type e2eGRPCItem struct {
	err     error
	partial bool
	rej     int64
	msg     string
	hint    time.Duration
}

func e2eParseGRPC(tok string) (e2eGRPCItem, bool) {
	p := strings.Split(tok, ";")
	if len(p) != 3 {
		return e2eGRPCItem{}, false
	}
	var it e2eGRPCItem
	code, err := strconv.Atoi(p[0])
	if err != nil || code < 0 {
		return it, false
	}
	if code != 0 {
		st := status.New(codes.Code(code), "verif")
		if p[1] != "-" {
			var details []protoadapt.MessageV1
			first := true
			for _, d := range strings.Split(p[1], ".") {
				if d == "" {
					return it, false
				}
				switch d[0] {
				case 'n':
					details = append(details, &errdetails.DebugInfo{Detail: "verif"})
				case 'z':
					details = append(details, &errdetails.RetryInfo{})
					first = false
				case 'r':
					ns, _ := strconv.ParseInt(d[1:], 10, 64)
					details = append(details, &errdetails.RetryInfo{RetryDelay: durationpb.New(time.Duration(ns))})
					if first {
						it.hint = time.Duration(ns)
					}
					first = false
				default:
					return it, false
				}
			}
			st2, err := st.WithDetails(details...)
			if err != nil {
				return it, false
			}
			st = st2
		}
		it.err = st.Err()
	}
	if p[2] != "-" {
		q := strings.Split(p[2], ":")
		if len(q) != 2 {
			return it, false
		}
		it.partial = true
		it.rej, _ = strconv.ParseInt(q[0], 10, 64)
		it.msg = vUnhex(q[1])
	}
	return it, true
}

// ---------------------------------------------------------------- what a collector records

type e2eAttempt struct {
	path     string // HTTP: URL path (+ ?query) as received; gRPC: full method
	method   string // HTTP method; gRPC: "-"
	hdrs     []string
	ctype    string
	cenc     string // Content-Encoding / grpc-encoding
	ua       string
	bodyGz   bool // the body really was a gzip stream (HTTP)
	wireOK   bool // gunzip (if announced) + proto.Unmarshal succeeded
	raw      []byte
	plain    []byte
	dump     string
	n        int // number of Resource* messages in the request
	tls      bool
	arrive   time.Time
	answered time.Time
	hasDL    bool
	dlRem    time.Duration
	gaveUp   bool // the client was gone before the stalled answer was due
}

// sig: what makes two attempts "the same request" for the C14 `s` flag
func (a *e2eAttempt) sig() string {
	return strings.Join([]string{a.path, a.method, strings.Join(a.hdrs, ","), a.ctype, a.cenc, a.ua, strconv.FormatBool(a.tls), string(a.raw), string(a.plain)}, "\x00")
}

type e2eCollector struct {
	k        int // placeholder index 1..6
	isGRPC   bool
	addr     string // real host:port
	sniff    *e2eSniffer
	httpSrv  *http.Server
	httpsSrv *http.Server
	grpcSrv  *grpc.Server
	grpcsSrv *grpc.Server

	running   int // handlers still running (a stalled answer may outlive the export call); under mu
	mu        sync.Mutex
	sig       byte // t m l: signal of the current scenario (HTTP bodies are decoded by it)
	httpScr   []e2eHTTPItem
	grpcScr   []e2eGRPCItem
	stall     time.Duration
	hold      func(i int, done <-chan struct{}) // interleaved scenarios: called before attempt i is answered
	attempts  []*e2eAttempt
	tlsHellos int
	exhausted bool
	abort     context.CancelFunc
}

func e2ePlaceholder(k int) string { return fmt.Sprintf("127.0.0.1:1000%d", k) }

func (c *e2eCollector) reset(sig byte, hs []e2eHTTPItem, gs []e2eGRPCItem, stall time.Duration, abort context.CancelFunc) {
	c.mu.Lock()
	defer c.mu.Unlock()
	c.sig, c.httpScr, c.grpcScr, c.stall, c.abort = sig, hs, gs, stall, abort
	c.attempts, c.tlsHellos, c.exhausted, c.hold = nil, 0, false, nil
}

func (c *e2eCollector) setHold(h func(i int, done <-chan struct{})) {
	c.mu.Lock()
	c.hold = h
	c.mu.Unlock()
}

func (c *e2eCollector) getHold() func(i int, done <-chan struct{}) {
	c.mu.Lock()
	defer c.mu.Unlock()
	return c.hold
}

func (c *e2eCollector) enter() { c.mu.Lock(); c.running++; c.mu.Unlock() }
func (c *e2eCollector) leave() { c.mu.Lock(); c.running--; c.mu.Unlock() }
func (c *e2eCollector) idle() bool {
	c.mu.Lock()
	defer c.mu.Unlock()
	return c.running == 0
}

func (c *e2eCollector) onTLS() {
	c.mu.Lock()
	c.tlsHellos++
	n, abort := c.tlsHellos, c.abort
	c.mu.Unlock()
	if n > 40 && abort != nil {
		abort()
	}
}

// begin registers an attempt and returns its index
func (c *e2eCollector) begin(a *e2eAttempt) (int, time.Duration) {
	c.mu.Lock()
	defer c.mu.Unlock()
	i := len(c.attempts)
	c.attempts = append(c.attempts, a)
	if i > 40 && c.abort != nil {
		c.abort() // a runaway retry loop must not hang the harness
	}
	return i, c.stall
}

func e2eSortedDump(ms []protoreflect.Message) string { return c13DumpSorted(ms) }

// e2eDecode: payload bytes -> (canonical dump, number of Resource* messages, ok)
func e2eDecode(sig byte, b []byte) (string, int, bool) {
	switch sig {
	case 't':
		var req coltracepb.ExportTraceServiceRequest
		if err := proto.Unmarshal(b, &req); err != nil || len(req.ProtoReflect().GetUnknown()) != 0 {
			return "", 0, false
		}
		return e2eDumpSpans(req.ResourceSpans), len(req.ResourceSpans), true
	case 'm':
		var req colmetricpb.ExportMetricsServiceRequest
		if err := proto.Unmarshal(b, &req); err != nil || len(req.ProtoReflect().GetUnknown()) != 0 {
			return "", 0, false
		}
		return e2eDumpMetrics(req.ResourceMetrics)
	default:
		var req collogpb.ExportLogsServiceRequest
		if err := proto.Unmarshal(b, &req); err != nil || len(req.ProtoReflect().GetUnknown()) != 0 {
			return "", 0, false
		}
		return e2eDumpLogs(req.ResourceLogs), len(req.ResourceLogs), true
	}
}

func e2eDumpSpans(rs []*tracepb.ResourceSpans) string {
	ms := make([]protoreflect.Message, len(rs))
	for i, m := range rs {
		ms[i] = m.ProtoReflect()
	}
	return e2eSortedDump(ms)
}

func e2eDumpLogs(rl []*logpb.ResourceLogs) string {
	ms := make([]protoreflect.Message, len(rl))
	for i, m := range rl {
		ms[i] = m.ProtoReflect()
	}
	return e2eSortedDump(ms)
}

// the metric exporters send exactly one ResourceMetrics per request
func e2eDumpMetrics(rm []*metricpb.ResourceMetrics) (string, int, bool) {
	if len(rm) != 1 {
		return "", len(rm), false
	}
	var d c13W
	c13DumpMsg(&d, rm[0].ProtoReflect())
	return d.String(), 1, true
}

var e2eStdHTTP = map[string]bool{"user-agent": true, "content-type": true, "content-encoding": true, "content-length": true,
	"accept-encoding": true, "host": true, "transfer-encoding": true, "connection": true, "te": true, "trailer": true}
var e2eStdGRPC = map[string]bool{":authority": true, "content-type": true, "user-agent": true, "grpc-accept-encoding": true,
	"grpc-timeout": true, "grpc-encoding": true, "te": true, ":method": true, ":path": true, ":scheme": true}

func e2eHdrList(h map[string][]string, std map[string]bool) []string {
	var out []string
	for k, vs := range h {
		lk := strings.ToLower(k)
		if std[lk] {
			continue
		}
		for _, v := range vs {
			out = append(out, vHex(lk)+":"+vHex(v))
		}
	}
	sort.Strings(out)
	return out
}

// ---------------------------------------------------------------- HTTP side

func (c *e2eCollector) ServeHTTP(w http.ResponseWriter, r *http.Request) {
	c.enter()
	defer c.leave()
	a := &e2eAttempt{arrive: time.Now(), method: r.Method, tls: r.TLS != nil}
	a.path = r.URL.Path
	if r.URL.RawQuery != "" {
		a.path += "?" + r.URL.RawQuery
	}
	raw, _ := io.ReadAll(r.Body)
	a.raw = raw
	a.hdrs = e2eHdrList(r.Header, e2eStdHTTP)
	a.ctype = r.Header.Get("Content-Type")
	a.cenc = r.Header.Get("Content-Encoding")
	a.ua = r.Header.Get("User-Agent")
	plain := raw
	a.bodyGz = len(raw) >= 2 && raw[0] == 0x1f && raw[1] == 0x8b
	okz := true
	if a.cenc == "gzip" {
		zr, err := gzip.NewReader(bytes.NewReader(raw))
		if err != nil {
			okz = false
		} else if plain, err = io.ReadAll(zr); err != nil {
			okz = false
		}
	}
	c.mu.Lock()
	sig := c.sig
	c.mu.Unlock()
	if okz {
		a.plain = plain
		a.dump, a.n, a.wireOK = e2eDecode(sig, plain)
	}
	i, stall := c.begin(a)
	if h := c.getHold(); h != nil {
		h(i, r.Context().Done())
	}
	if i == 0 && stall > 0 {
		select {
		case <-time.After(stall):
		case <-r.Context().Done():
			// the client is gone; answering at once would race with the client noticing its own deadline
			a.gaveUp = true
			time.Sleep(20 * time.Millisecond)
		}
	}
	c.mu.Lock()
	var it e2eHTTPItem
	if i < len(c.httpScr) {
		it = c.httpScr[i]
	} else {
		c.exhausted = true
		it = e2eHTTPItem{status: 400}
	}
	a.answered = time.Now()
	c.mu.Unlock()
	if it.hdr != nil {
		w.Header()["Retry-After"] = []string{*it.hdr}
	}
	if it.ct != "" {
		w.Header().Set("Content-Type", it.ct)
	}
	w.WriteHeader(it.status)
	if len(it.body) > 0 {
		w.Write(it.body)
	}
}

// ---------------------------------------------------------------- gRPC side

type e2eRPCKey struct{}
type e2eRPCTag struct {
	method  string
	comp    string
	length  int
	compLen int
}

type e2eStats struct{}

func (e2eStats) TagRPC(ctx context.Context, info *stats.RPCTagInfo) context.Context {
	return context.WithValue(ctx, e2eRPCKey{}, &e2eRPCTag{method: info.FullMethodName})
}
func (e2eStats) HandleRPC(ctx context.Context, s stats.RPCStats) {
	tag, _ := ctx.Value(e2eRPCKey{}).(*e2eRPCTag)
	if tag == nil {
		return
	}
	switch v := s.(type) {
	case *stats.InHeader:
		tag.comp = v.Compression
	case *stats.InPayload:
		tag.length, tag.compLen = v.Length, v.CompressedLength
	}
}
func (e2eStats) TagConn(ctx context.Context, _ *stats.ConnTagInfo) context.Context { return ctx }
func (e2eStats) HandleConn(context.Context, stats.ConnStats)                       {}

type e2eTLSKey struct{}

func (c *e2eCollector) grpcAttempt(ctx context.Context, isTLS bool, req proto.Message, dump string, n int, ok bool) (e2eGRPCItem, error) {
	c.enter()
	defer c.leave()
	a := &e2eAttempt{arrive: time.Now(), method: "-", tls: isTLS, dump: dump, n: n, wireOK: ok}
	if tag, _ := ctx.Value(e2eRPCKey{}).(*e2eRPCTag); tag != nil {
		a.path, a.cenc = tag.method, tag.comp
		// compressing the message is grpc-go's business once the call option is set (the compressed length may
		// even equal the plain length): the announced encoding is the observation
		a.bodyGz = tag.comp == "gzip"
	}
	if md, ok := metadata.FromIncomingContext(ctx); ok {
		a.hdrs = e2eHdrList(md, e2eStdGRPC)
		if v := md.Get("content-type"); len(v) > 0 {
			a.ctype = v[0]
		}
		if v := md.Get("user-agent"); len(v) > 0 {
			a.ua = v[0]
		}
	}
	if dl, ok := ctx.Deadline(); ok {
		a.hasDL, a.dlRem = true, dl.Sub(a.arrive)
	}
	a.plain, _ = proto.MarshalOptions{Deterministic: true}.Marshal(req)
	i, stall := c.begin(a)
	if h := c.getHold(); h != nil {
		h(i, ctx.Done())
	}
	if i == 0 && stall > 0 {
		select {
		case <-time.After(stall):
		case <-ctx.Done():
			// the server side deadline is the client's plus transit: answering at once would race with the client
			// noticing its own deadline
			a.gaveUp = true
			time.Sleep(20 * time.Millisecond)
		}
	}
	c.mu.Lock()
	defer c.mu.Unlock()
	a.answered = time.Now()
	if i >= len(c.grpcScr) {
		c.exhausted = true
		return e2eGRPCItem{}, status.Error(codes.InvalidArgument, "verif script exhausted")
	}
	return c.grpcScr[i], nil
}

type e2eTraceSvc struct {
	coltracepb.UnimplementedTraceServiceServer
	c   *e2eCollector
	tls bool
}

func (s *e2eTraceSvc) Export(ctx context.Context, req *coltracepb.ExportTraceServiceRequest) (*coltracepb.ExportTraceServiceResponse, error) {
	it, err := s.c.grpcAttempt(ctx, s.tls, req, e2eDumpSpans(req.ResourceSpans), len(req.ResourceSpans), len(req.ProtoReflect().GetUnknown()) == 0)
	if err != nil {
		return nil, err
	}
	if it.err != nil {
		return nil, it.err
	}
	resp := &coltracepb.ExportTraceServiceResponse{}
	if it.partial {
		resp.PartialSuccess = &coltracepb.ExportTracePartialSuccess{RejectedSpans: it.rej, ErrorMessage: it.msg}
	}
	return resp, nil
}

type e2eMetricSvc struct {
	colmetricpb.UnimplementedMetricsServiceServer
	c   *e2eCollector
	tls bool
}

func (s *e2eMetricSvc) Export(ctx context.Context, req *colmetricpb.ExportMetricsServiceRequest) (*colmetricpb.ExportMetricsServiceResponse, error) {
	d, n, ok := e2eDumpMetrics(req.ResourceMetrics)
	it, err := s.c.grpcAttempt(ctx, s.tls, req, d, n, ok && len(req.ProtoReflect().GetUnknown()) == 0)
	if err != nil {
		return nil, err
	}
	if it.err != nil {
		return nil, it.err
	}
	resp := &colmetricpb.ExportMetricsServiceResponse{}
	if it.partial {
		resp.PartialSuccess = &colmetricpb.ExportMetricsPartialSuccess{RejectedDataPoints: it.rej, ErrorMessage: it.msg}
	}
	return resp, nil
}

type e2eLogSvc struct {
	collogpb.UnimplementedLogsServiceServer
	c   *e2eCollector
	tls bool
}

func (s *e2eLogSvc) Export(ctx context.Context, req *collogpb.ExportLogsServiceRequest) (*collogpb.ExportLogsServiceResponse, error) {
	it, err := s.c.grpcAttempt(ctx, s.tls, req, e2eDumpLogs(req.ResourceLogs), len(req.ResourceLogs), len(req.ProtoReflect().GetUnknown()) == 0)
	if err != nil {
		return nil, err
	}
	if it.err != nil {
		return nil, it.err
	}
	resp := &collogpb.ExportLogsServiceResponse{}
	if it.partial {
		resp.PartialSuccess = &collogpb.ExportLogsPartialSuccess{RejectedLogRecords: it.rej, ErrorMessage: it.msg}
	}
	return resp, nil
}

func (c *e2eCollector) newGRPCServer(isTLS bool, creds credentials.TransportCredentials) *grpc.Server {
	opts := []grpc.ServerOption{grpc.StatsHandler(e2eStats{})}
	if creds != nil {
		opts = append(opts, grpc.Creds(creds))
	}
	s := grpc.NewServer(opts...)
	coltracepb.RegisterTraceServiceServer(s, &e2eTraceSvc{c: c, tls: isTLS})
	colmetricpb.RegisterMetricsServiceServer(s, &e2eMetricSvc{c: c, tls: isTLS})
	collogpb.RegisterLogsServiceServer(s, &e2eLogSvc{c: c, tls: isTLS})
	return s
}

// ---------------------------------------------------------------- start / stop

// e2eStartCollector: tlsCfg nil = no TLS side (hellos are only counted).
func e2eStartCollector(k int, isGRPC bool, tlsCfg *tls.Config) (*e2eCollector, error) {
	l, err := net.Listen("tcp", "127.0.0.1:0")
	if err != nil {
		return nil, err
	}
	c := &e2eCollector{k: k, isGRPC: isGRPC, addr: l.Addr().String()}
	c.sniff = e2eNewSniffer(l, tlsCfg != nil, c.onTLS)
	if isGRPC {
		c.grpcSrv = c.newGRPCServer(false, nil)
		go c.grpcSrv.Serve(c.sniff.plain)
		if tlsCfg != nil {
			c.grpcsSrv = c.newGRPCServer(true, credentials.NewTLS(tlsCfg.Clone()))
			go c.grpcsSrv.Serve(c.sniff.secure)
		}
	} else {
		quiet := log.New(io.Discard, "", 0) // failed handshakes are observations, not noise for the test log
		c.httpSrv = &http.Server{Handler: c, ErrorLog: quiet}
		go c.httpSrv.Serve(c.sniff.plain)
		if tlsCfg != nil {
			c.httpsSrv = &http.Server{Handler: c, TLSConfig: tlsCfg.Clone(), ErrorLog: quiet} // ServeTLS adjusts its config: own copy
			go c.httpsSrv.ServeTLS(c.sniff.secure, "", "")
		}
	}
	return c, nil
}

func (c *e2eCollector) stop() {
	if c.grpcSrv != nil {
		c.grpcSrv.Stop()
	}
	if c.grpcsSrv != nil {
		c.grpcsSrv.Stop()
	}
	if c.httpSrv != nil {
		c.httpSrv.Close()
	}
	if c.httpsSrv != nil {
		c.httpsSrv.Close()
	}
	c.sniff.Close()
}
