package otlpe2e

// C14 + C20 — self-contained (uses nothing of the shared e2e machinery but the trace writer of the common file).
//
// "never blocks beyond that" for the `slow responses` collector outcome, and "each exporter takes the timeout from the
// highest-precedence source", end to end through the PUBLIC API and for EVERY way an exporter's client can be
// assembled: each of the six exporters is built by its New() with
//
//	path (HTTP):  def (shared transport) | proxy (WithProxy) | tls (WithTLSClientConfig) | tlsproxy | envcert
//	              (OTEL_EXPORTER_OTLP_CERTIFICATE) | gz (WithCompression(gzip))
//	path (gRPC):  def (WithInsecure) | tls (WithTLSCredentials) | dial (WithDialOption) | conn (WithGRPCConn) |
//	              svc (WithServiceConfig + WithReconnectionPeriod) | envcert | gz (WithCompressor)
//	timeout:      option / OTEL_EXPORTER_OTLP_<SIGNAL>_TIMEOUT / OTEL_EXPORTER_OTLP_TIMEOUT, each one of
//	              - (absent) | a (120 ms) | b (900 ms) | x (`abc`: unparsable; variables only)
//
// and exports one batch to an in-process collector that ACCEPTS the first k requests and never answers them
// (k = 1, 2: slow then 200 OK, retry MaxElapsedTime 0; k = inf: always slow, MaxElapsedTime 400 ms; retry intervals
// 10-20 ms). Observed, by order relations only (Ta = 120 ms, Tb = 900 ms, S = 600 ms, S2 = 2 s):
//
//	tmo <gen> <th|tg|mh|mg|lh|lg> <path> <opt> <envs> <envg> <M ms> <k|inf>
//	    => <ok|elapsed|would|deadline|err|stuck> n<requests that reached the collector> f<lt|A|mid|B|gt|-> e<A|B|gt>
//	 f: when the collector saw the client abandon the FIRST request, measured from the start of the export call:
//	    A = [Ta, Ta+S], B = [Tb, Tb+S] (a timer never fires early, so the effective timeout is a strict lower bound)
//	 e: the export returned within bound(Ta) (A), else within bound(Tb) (B), else gt; bound(T) = k(T + 30 ms) + S2 for
//	    finite k, M + T + 30 ms + S2 for k = inf, T + S2 for gRPC (the timeout spans the whole export there)
//	 stuck: the call had not returned 6 s after its start, in each of 3 executions of the scenario (the caller's
//	    context is cancelled afterwards, so the harness always terminates)

import (
	"context"
	"crypto/tls"
	"crypto/x509"
	"encoding/pem"
	"errors"
	"fmt"
	"io"
	"net"
	"net/http"
	"net/http/httptest"
	"net/url"
	"os"
	"path/filepath"
	"strconv"
	"strings"
	"sync"
	"testing"
	"time"

	"google.golang.org/grpc"
	"google.golang.org/grpc/codes"
	"google.golang.org/grpc/credentials"
	"google.golang.org/grpc/credentials/insecure"
	"google.golang.org/grpc/status"

	"go.opentelemetry.io/otel/exporters/otlp/otlplog/otlploggrpc"
	"go.opentelemetry.io/otel/exporters/otlp/otlplog/otlploghttp"
	"go.opentelemetry.io/otel/exporters/otlp/otlpmetric/otlpmetricgrpc"
	"go.opentelemetry.io/otel/exporters/otlp/otlpmetric/otlpmetrichttp"
	"go.opentelemetry.io/otel/exporters/otlp/otlptrace/otlptracegrpc"
	"go.opentelemetry.io/otel/exporters/otlp/otlptrace/otlptracehttp"
	sdklog "go.opentelemetry.io/otel/sdk/log"
	"go.opentelemetry.io/otel/sdk/metric/metricdata"
	sdktrace "go.opentelemetry.io/otel/sdk/trace"
	"go.opentelemetry.io/otel/sdk/trace/tracetest"
	"go.opentelemetry.io/otel/trace"
	collogpb "go.opentelemetry.io/proto/otlp/collector/logs/v1"
	colmetricpb "go.opentelemetry.io/proto/otlp/collector/metrics/v1"
	coltracepb "go.opentelemetry.io/proto/otlp/collector/trace/v1"
)

const (
	c14tTa    = 120 * time.Millisecond
	c14tTb    = 900 * time.Millisecond
	c14tS     = 600 * time.Millisecond
	c14tS2    = 2 * time.Second
	c14tGuard = 6 * time.Second
)

func c14tDur(tok string) time.Duration {
	if tok == "b" {
		return c14tTb
	}
	return c14tTa
}

// c14tColl: accepts the first `slow` requests without ever answering them, answers all later ones with success.
type c14tColl struct {
	mu       sync.Mutex
	slow     int // -1: every request
	arrived  int
	abandon1 time.Time // when the collector saw the client give up the first request
	release  chan struct{}
}

// serve returns true when the request is to be answered with success.
func (c *c14tColl) serve(ctx context.Context) bool {
	c.mu.Lock()
	c.arrived++
	i := c.arrived
	c.mu.Unlock()
	if c.slow >= 0 && i > c.slow {
		return true
	}
	select {
	case <-ctx.Done():
		if i == 1 {
			c.mu.Lock()
			c.abandon1 = time.Now()
			c.mu.Unlock()
		}
	case <-c.release:
	}
	return false
}

type c14tTrace struct {
	coltracepb.UnimplementedTraceServiceServer
	c *c14tColl
}

func (s c14tTrace) Export(ctx context.Context, _ *coltracepb.ExportTraceServiceRequest) (*coltracepb.ExportTraceServiceResponse, error) {
	if s.c.serve(ctx) {
		return &coltracepb.ExportTraceServiceResponse{}, nil
	}
	return nil, status.Error(codes.Canceled, "verif: abandoned")
}

type c14tMetric struct {
	colmetricpb.UnimplementedMetricsServiceServer
	c *c14tColl
}

func (s c14tMetric) Export(ctx context.Context, _ *colmetricpb.ExportMetricsServiceRequest) (*colmetricpb.ExportMetricsServiceResponse, error) {
	if s.c.serve(ctx) {
		return &colmetricpb.ExportMetricsServiceResponse{}, nil
	}
	return nil, status.Error(codes.Canceled, "verif: abandoned")
}

type c14tLog struct {
	collogpb.UnimplementedLogsServiceServer
	c *c14tColl
}

func (s c14tLog) Export(ctx context.Context, _ *collogpb.ExportLogsServiceRequest) (*collogpb.ExportLogsServiceResponse, error) {
	if s.c.serve(ctx) {
		return &collogpb.ExportLogsServiceResponse{}, nil
	}
	return nil, status.Error(codes.Canceled, "verif: abandoned")
}

type c14tScen struct {
	gen, exp, path   string
	opt, envs, envg  string // - | a | b | x
	m                int    // MaxElapsedTime ms
	k                int    // slow requests; -1 = inf
	line             string
}

func (sc *c14tScen) input() string {
	k := "inf"
	if sc.k >= 0 {
		k = strconv.Itoa(sc.k)
	}
	return fmt.Sprintf("tmo %s %s %s %s %s %s %d %s", sc.gen, sc.exp, sc.path, sc.opt, sc.envs, sc.envg, sc.m, k)
}

type c14tExp struct {
	export   func(context.Context) error
	shutdown func(context.Context) error
}

// the certificate every TLS collector of this file presents, and what a client needs to trust it
type c14tPKI struct {
	cert    tls.Certificate
	pool    *x509.CertPool
	pemFile string
}

func c14tNewPKI(dir string) (*c14tPKI, error) {
	s := httptest.NewUnstartedServer(http.NotFoundHandler())
	s.StartTLS()
	defer s.Close()
	p := &c14tPKI{cert: s.TLS.Certificates[0], pool: x509.NewCertPool()}
	p.pool.AddCert(s.Certificate())
	p.pemFile = filepath.Join(dir, "verif-c14-ca.pem")
	b := pem.EncodeToMemory(&pem.Block{Type: "CERTIFICATE", Bytes: s.Certificate().Raw})
	return p, os.WriteFile(p.pemFile, b, 0o600)
}

func c14tIsTLS(path string) bool { return strings.HasPrefix(path, "tls") || path == "envcert" }

var c14tSigEnv = map[byte]string{'t': "TRACES", 'm': "METRICS", 'l': "LOGS"}

func c14tEnvVal(tok string) string {
	switch tok {
	case "a":
		return strconv.FormatInt(c14tTa.Milliseconds(), 10)
	case "b":
		return strconv.FormatInt(c14tTb.Milliseconds(), 10)
	}
	return "abc"
}

// c14tBuild builds the exporter (callers serialise: it sets environment variables for the duration of New()).
func c14tBuild(sc *c14tScen, ep string, pki *c14tPKI) (*c14tExp, func(), error) {
	ctx := context.Background()
	cleanup := func() {}
	set := func(k, v string) { os.Setenv(k, v) }
	var names []string
	if sc.envs != "-" {
		n := "OTEL_EXPORTER_OTLP_" + c14tSigEnv[sc.exp[0]] + "_TIMEOUT"
		set(n, c14tEnvVal(sc.envs))
		names = append(names, n)
	}
	if sc.envg != "-" {
		set("OTEL_EXPORTER_OTLP_TIMEOUT", c14tEnvVal(sc.envg))
		names = append(names, "OTEL_EXPORTER_OTLP_TIMEOUT")
	}
	if sc.path == "envcert" {
		set("OTEL_EXPORTER_OTLP_CERTIFICATE", pki.pemFile)
		names = append(names, "OTEL_EXPORTER_OTLP_CERTIFICATE")
	}
	defer func() {
		for _, n := range names {
			os.Unsetenv(n)
		}
	}()
	iv, mv := 10*time.Millisecond, 20*time.Millisecond
	me := time.Duration(sc.m) * time.Millisecond
	tlsCfg := &tls.Config{RootCAs: pki.pool}
	noProxy := func(*http.Request) (*url.URL, error) { return nil, nil }
	spans := []sdktrace.ReadOnlySpan{tracetest.SpanStub{Name: "verif-c14-tmo",
		SpanContext: trace.NewSpanContext(trace.SpanContextConfig{TraceID: trace.TraceID{1}, SpanID: trace.SpanID{2}, TraceFlags: trace.FlagsSampled}),
		StartTime:   time.Unix(1, 0), EndTime: time.Unix(2, 0)}.Snapshot()}
	rm := &metricdata.ResourceMetrics{}
	recs := make([]sdklog.Record, 1)
	recs[0].SetSeverityText("verif-c14-tmo")
	grpcConn := func() (*grpc.ClientConn, error) {
		conn, err := grpc.NewClient(ep, grpc.WithTransportCredentials(insecure.NewCredentials()))
		if err == nil {
			cleanup = func() { _ = conn.Close() }
		}
		return conn, err
	}
	switch sc.exp {
	case "th":
		o := []otlptracehttp.Option{otlptracehttp.WithEndpoint(ep),
			otlptracehttp.WithRetry(otlptracehttp.RetryConfig{Enabled: true, InitialInterval: iv, MaxInterval: mv, MaxElapsedTime: me})}
		if !c14tIsTLS(sc.path) {
			o = append(o, otlptracehttp.WithInsecure())
		}
		if strings.HasPrefix(sc.path, "tls") {
			o = append(o, otlptracehttp.WithTLSClientConfig(tlsCfg))
		}
		if strings.HasSuffix(sc.path, "proxy") {
			o = append(o, otlptracehttp.WithProxy(noProxy))
		}
		if sc.path == "gz" {
			o = append(o, otlptracehttp.WithCompression(otlptracehttp.GzipCompression))
		}
		if sc.opt != "-" {
			o = append(o, otlptracehttp.WithTimeout(c14tDur(sc.opt)))
		}
		e, err := otlptracehttp.New(ctx, o...)
		if err != nil {
			return nil, cleanup, err
		}
		return &c14tExp{func(c context.Context) error { return e.ExportSpans(c, spans) }, e.Shutdown}, cleanup, nil
	case "mh":
		o := []otlpmetrichttp.Option{otlpmetrichttp.WithEndpoint(ep),
			otlpmetrichttp.WithRetry(otlpmetrichttp.RetryConfig{Enabled: true, InitialInterval: iv, MaxInterval: mv, MaxElapsedTime: me})}
		if !c14tIsTLS(sc.path) {
			o = append(o, otlpmetrichttp.WithInsecure())
		}
		if strings.HasPrefix(sc.path, "tls") {
			o = append(o, otlpmetrichttp.WithTLSClientConfig(tlsCfg))
		}
		if strings.HasSuffix(sc.path, "proxy") {
			o = append(o, otlpmetrichttp.WithProxy(noProxy))
		}
		if sc.path == "gz" {
			o = append(o, otlpmetrichttp.WithCompression(otlpmetrichttp.GzipCompression))
		}
		if sc.opt != "-" {
			o = append(o, otlpmetrichttp.WithTimeout(c14tDur(sc.opt)))
		}
		e, err := otlpmetrichttp.New(ctx, o...)
		if err != nil {
			return nil, cleanup, err
		}
		return &c14tExp{func(c context.Context) error { return e.Export(c, rm) }, e.Shutdown}, cleanup, nil
	case "lh":
		o := []otlploghttp.Option{otlploghttp.WithEndpoint(ep),
			otlploghttp.WithRetry(otlploghttp.RetryConfig{Enabled: true, InitialInterval: iv, MaxInterval: mv, MaxElapsedTime: me})}
		if !c14tIsTLS(sc.path) {
			o = append(o, otlploghttp.WithInsecure())
		}
		if strings.HasPrefix(sc.path, "tls") {
			o = append(o, otlploghttp.WithTLSClientConfig(tlsCfg))
		}
		if strings.HasSuffix(sc.path, "proxy") {
			o = append(o, otlploghttp.WithProxy(noProxy))
		}
		if sc.path == "gz" {
			o = append(o, otlploghttp.WithCompression(otlploghttp.GzipCompression))
		}
		if sc.opt != "-" {
			o = append(o, otlploghttp.WithTimeout(c14tDur(sc.opt)))
		}
		e, err := otlploghttp.New(ctx, o...)
		if err != nil {
			return nil, cleanup, err
		}
		return &c14tExp{func(c context.Context) error { return e.Export(c, recs) }, e.Shutdown}, cleanup, nil
	case "tg":
		o := []otlptracegrpc.Option{otlptracegrpc.WithEndpoint(ep),
			otlptracegrpc.WithRetry(otlptracegrpc.RetryConfig{Enabled: true, InitialInterval: iv, MaxInterval: mv, MaxElapsedTime: me})}
		switch sc.path {
		case "tls":
			o = append(o, otlptracegrpc.WithTLSCredentials(credentials.NewTLS(tlsCfg)))
		case "envcert":
		case "conn":
			conn, err := grpcConn()
			if err != nil {
				return nil, cleanup, err
			}
			o = append(o, otlptracegrpc.WithGRPCConn(conn))
		default:
			o = append(o, otlptracegrpc.WithInsecure())
		}
		switch sc.path {
		case "dial":
			o = append(o, otlptracegrpc.WithDialOption(grpc.WithUserAgent("verif-c14-tmo"), grpc.WithDisableServiceConfig()))
		case "svc":
			o = append(o, otlptracegrpc.WithServiceConfig(`{"loadBalancingConfig":[{"pick_first":{}}]}`), otlptracegrpc.WithReconnectionPeriod(50*time.Millisecond))
		case "gz":
			o = append(o, otlptracegrpc.WithCompressor("gzip"))
		}
		if sc.opt != "-" {
			o = append(o, otlptracegrpc.WithTimeout(c14tDur(sc.opt)))
		}
		e, err := otlptracegrpc.New(ctx, o...)
		if err != nil {
			return nil, cleanup, err
		}
		return &c14tExp{func(c context.Context) error { return e.ExportSpans(c, spans) }, e.Shutdown}, cleanup, nil
	case "mg":
		o := []otlpmetricgrpc.Option{otlpmetricgrpc.WithEndpoint(ep),
			otlpmetricgrpc.WithRetry(otlpmetricgrpc.RetryConfig{Enabled: true, InitialInterval: iv, MaxInterval: mv, MaxElapsedTime: me})}
		switch sc.path {
		case "tls":
			o = append(o, otlpmetricgrpc.WithTLSCredentials(credentials.NewTLS(tlsCfg)))
		case "envcert":
		case "conn":
			conn, err := grpcConn()
			if err != nil {
				return nil, cleanup, err
			}
			o = append(o, otlpmetricgrpc.WithGRPCConn(conn))
		default:
			o = append(o, otlpmetricgrpc.WithInsecure())
		}
		switch sc.path {
		case "dial":
			o = append(o, otlpmetricgrpc.WithDialOption(grpc.WithUserAgent("verif-c14-tmo"), grpc.WithDisableServiceConfig()))
		case "svc":
			o = append(o, otlpmetricgrpc.WithServiceConfig(`{"loadBalancingConfig":[{"pick_first":{}}]}`), otlpmetricgrpc.WithReconnectionPeriod(50*time.Millisecond))
		case "gz":
			o = append(o, otlpmetricgrpc.WithCompressor("gzip"))
		}
		if sc.opt != "-" {
			o = append(o, otlpmetricgrpc.WithTimeout(c14tDur(sc.opt)))
		}
		e, err := otlpmetricgrpc.New(ctx, o...)
		if err != nil {
			return nil, cleanup, err
		}
		return &c14tExp{func(c context.Context) error { return e.Export(c, rm) }, e.Shutdown}, cleanup, nil
	case "lg":
		o := []otlploggrpc.Option{otlploggrpc.WithEndpoint(ep),
			otlploggrpc.WithRetry(otlploggrpc.RetryConfig{Enabled: true, InitialInterval: iv, MaxInterval: mv, MaxElapsedTime: me})}
		switch sc.path {
		case "tls":
			o = append(o, otlploggrpc.WithTLSCredentials(credentials.NewTLS(tlsCfg)))
		case "envcert":
		case "conn":
			conn, err := grpcConn()
			if err != nil {
				return nil, cleanup, err
			}
			o = append(o, otlploggrpc.WithGRPCConn(conn))
		default:
			o = append(o, otlploggrpc.WithInsecure())
		}
		switch sc.path {
		case "dial":
			o = append(o, otlploggrpc.WithDialOption(grpc.WithUserAgent("verif-c14-tmo"), grpc.WithDisableServiceConfig()))
		case "svc":
			o = append(o, otlploggrpc.WithServiceConfig(`{"loadBalancingConfig":[{"pick_first":{}}]}`), otlploggrpc.WithReconnectionPeriod(50*time.Millisecond))
		case "gz":
			o = append(o, otlploggrpc.WithCompressor("gzip"))
		}
		if sc.opt != "-" {
			o = append(o, otlploggrpc.WithTimeout(c14tDur(sc.opt)))
		}
		e, err := otlploggrpc.New(ctx, o...)
		if err != nil {
			return nil, cleanup, err
		}
		return &c14tExp{func(c context.Context) error { return e.Export(c, recs) }, e.Shutdown}, cleanup, nil
	}
	return nil, cleanup, fmt.Errorf("unknown exporter %s", sc.exp)
}

func c14tClass(err error) string {
	switch {
	case err == nil:
		return "ok"
	case strings.Contains(err.Error(), "max retry time elapsed"):
		return "elapsed"
	case strings.Contains(err.Error(), "max retry time would elapse"):
		return "would"
	case errors.Is(err, context.DeadlineExceeded) || strings.Contains(err.Error(), "context deadline exceeded") ||
		status.Code(err) == codes.DeadlineExceeded:
		return "deadline"
	}
	return "err"
}

func c14tBand(d time.Duration) string {
	switch {
	case d < c14tTa:
		return "lt"
	case d <= c14tTa+c14tS:
		return "A"
	case d < c14tTb:
		return "mid"
	case d <= c14tTb+c14tS:
		return "B"
	}
	return "gt"
}

func (sc *c14tScen) bound(t time.Duration) time.Duration {
	switch {
	case sc.exp[1] == 'g':
		return t + c14tS2
	case sc.k < 0:
		return time.Duration(sc.m)*time.Millisecond + t + 30*time.Millisecond + c14tS2
	}
	return time.Duration(sc.k)*(t+30*time.Millisecond) + c14tS2
}

// c14tStart starts the scenario's collector and returns its endpoint.
func c14tStart(sc *c14tScen, pki *c14tPKI) (coll *c14tColl, ep string, stop func(), err error) {
	coll = &c14tColl{slow: sc.k, release: make(chan struct{})}
	if sc.exp[1] == 'g' {
		lis, e := net.Listen("tcp", "127.0.0.1:0")
		if e != nil {
			return nil, "", nil, e
		}
		var so []grpc.ServerOption
		if c14tIsTLS(sc.path) {
			so = append(so, grpc.Creds(credentials.NewServerTLSFromCert(&pki.cert)))
		}
		srv := grpc.NewServer(so...)
		coltracepb.RegisterTraceServiceServer(srv, c14tTrace{c: coll})
		colmetricpb.RegisterMetricsServiceServer(srv, c14tMetric{c: coll})
		collogpb.RegisterLogsServiceServer(srv, c14tLog{c: coll})
		go func() { _ = srv.Serve(lis) }()
		return coll, lis.Addr().String(), func() { close(coll.release); srv.Stop() }, nil
	}
	h := http.HandlerFunc(func(w http.ResponseWriter, r *http.Request) {
		_, _ = io.Copy(io.Discard, r.Body) // only then does the server notice a client that goes away
		if coll.serve(r.Context()) {
			w.WriteHeader(http.StatusOK)
		}
	})
	srv := httptest.NewUnstartedServer(h)
	if c14tIsTLS(sc.path) {
		srv.TLS = &tls.Config{Certificates: []tls.Certificate{pki.cert}}
		srv.StartTLS()
		ep = strings.TrimPrefix(srv.URL, "https://")
	} else {
		srv.Start()
		ep = strings.TrimPrefix(srv.URL, "http://")
	}
	return coll, ep, func() { close(coll.release); srv.CloseClientConnections(); srv.Close() }, nil
}

// c14tOnce: one execution of the scenario against a fresh collector and a fresh exporter.
func c14tOnce(sc *c14tScen, pki *c14tPKI, buildMu *sync.Mutex) (string, error) {
	coll, ep, stop, err := c14tStart(sc, pki)
	if err != nil {
		return "", err
	}
	defer stop()
	buildMu.Lock()
	ex, cleanup, err := c14tBuild(sc, ep, pki)
	buildMu.Unlock()
	defer cleanup()
	if err != nil {
		return "", err
	}
	ctx, release := context.WithCancel(context.Background())
	defer release()
	done := make(chan error, 1)
	t0 := time.Now()
	go func() { done <- ex.export(ctx) }()
	res := ""
	var total time.Duration
	select {
	case e := <-done:
		total = time.Since(t0)
		res = c14tClass(e)
	case <-time.After(c14tGuard):
		res = "stuck"
		total = c14tGuard
		release()
		select {
		case <-done:
		case <-time.After(20 * time.Second):
			panic("verif: export still blocked 20 s after the caller's context was cancelled")
		}
	}
	// the collector may notice the abandoned first request a little after the export has returned
	var ab time.Time
	for w0 := time.Now(); time.Since(w0) < time.Second; time.Sleep(time.Millisecond) {
		coll.mu.Lock()
		ab = coll.abandon1
		coll.mu.Unlock()
		if !ab.IsZero() || res == "stuck" {
			break
		}
	}
	coll.mu.Lock()
	n := coll.arrived
	coll.mu.Unlock()
	f := "-"
	if !ab.IsZero() && res != "stuck" {
		f = c14tBand(ab.Sub(t0))
	}
	e := "gt"
	switch {
	case res == "stuck":
	case total <= sc.bound(c14tTa):
		e = "A"
	case total <= sc.bound(c14tTb):
		e = "B"
	}
	sctx, c2 := context.WithTimeout(context.Background(), 2*time.Second)
	_ = ex.shutdown(sctx)
	c2()
	return fmt.Sprintf("%s n%d f%s e%s", res, n, f, e), nil
}

func c14tRun(sc *c14tScen, pki *c14tPKI, buildMu *sync.Mutex) {
	obs := ""
	for try := 0; try < 3; try++ {
		o, err := c14tOnce(sc, pki, buildMu)
		if err != nil {
			obs = "err:build n0 f- egt"
			break
		}
		obs = o
		if !strings.HasPrefix(o, "stuck") { // `stuck` must reproduce
			break
		}
	}
	sc.line = sc.input() + " => " + obs
}

var c14tHTTPPaths = []string{"def", "proxy", "tls", "tlsproxy", "envcert", "gz"}
var c14tGRPCPaths = []string{"def", "tls", "dial", "conn", "svc", "envcert", "gz"}

// source combinations (option, signal-specific variable, generic variable) with at least one usable source
var c14tSrc = [][3]string{{"a", "-", "-"}, {"-", "a", "b"}, {"-", "-", "a"}, {"a", "b", "b"}, {"-", "x", "a"}, {"b", "a", "a"}, {"-", "b", "a"}}

func c14tPaths(exp string) []string {
	if exp[1] == 'g' {
		return c14tGRPCPaths
	}
	return c14tHTTPPaths
}

func c14tScens(r *vRand, n int) []*c14tScen {
	var scens []*c14tScen
	add := func(gen, exp, path string, src [3]string, m, k int) {
		if exp[1] == 'g' { // the timeout spans the whole export: one shape
			m, k = 0, -1
		}
		scens = append(scens, &c14tScen{gen: gen, exp: exp, path: path, opt: src[0], envs: src[1], envg: src[2], m: m, k: k})
	}
	exps := []string{"th", "mh", "lh", "tg", "mg", "lg"}
	for _, exp := range exps {
		// every construction path, timeout by option: slow-then-OK and always-slow
		for _, p := range c14tPaths(exp) {
			add("tab", exp, p, c14tSrc[0], 0, 1)
			if exp[1] == 'h' {
				add("tab", exp, p, c14tSrc[0], 400, -1)
			}
		}
		// every source combination on the plain path and on one path with a customised transport / connection
		alt := map[byte]string{'h': "tls", 'g': "conn"}[exp[1]]
		for i, src := range c14tSrc[1:] {
			add("src", exp, "def", src, 0, 1)
			p := alt
			if exp[1] == 'h' && i%2 == 1 {
				p = "proxy"
			}
			add("src", exp, p, src, 0, 1)
		}
	}
	for i := 0; i < n; i++ {
		exp := vPick(r, exps)
		src := vPick(r, c14tSrc[:5])
		if r.Intn(6) == 0 {
			src = vPick(r, c14tSrc)
		}
		m, k := 0, 1+r.Intn(2)
		if r.Intn(3) == 0 {
			m, k = 400, -1
		}
		add("rnd", exp, vPick(r, c14tPaths(exp)), src, m, k)
	}
	return scens
}

func TestVerifC14Tmo(t *testing.T) {
	out := vOpen(t)
	defer out.Close()
	pki, err := c14tNewPKI(t.TempDir())
	if err != nil {
		t.Fatal(err)
	}
	var scens []*c14tScen
	if rp := vReplayLines(); rp != nil {
		for _, f := range rp {
			if len(f) >= 9 && f[0] == "tmo" && len(f[2]) == 2 {
				m, _ := strconv.Atoi(f[7])
				k := -1
				if f[8] != "inf" {
					k, _ = strconv.Atoi(f[8])
				}
				scens = append(scens, &c14tScen{gen: f[1], exp: f[2], path: f[3], opt: f[4], envs: f[5], envg: f[6], m: m, k: k})
			}
		}
	} else {
		scens = c14tScens(&vRand{s: vSeed()}, vN(24))
	}
	var buildMu sync.Mutex
	sem := make(chan struct{}, 32)
	var wg sync.WaitGroup
	for _, sc := range scens {
		wg.Add(1)
		sem <- struct{}{}
		go func() {
			defer wg.Done()
			defer func() { <-sem }()
			c14tRun(sc, pki, &buildMu)
		}()
	}
	wg.Wait()
	for _, sc := range scens {
		out.Line("%s", sc.line)
	}
}
