// End-to-end legs of C13 / C14 / C20: generators and the three test entry points (one line kind each, so that each
// property's driver judges its part with its own model and Spec).
package otlpe2e

import (
	"crypto/ecdsa"
	"crypto/elliptic"
	"crypto/rand"
	"crypto/tls"
	"crypto/x509"
	"crypto/x509/pkix"
	"encoding/pem"
	"fmt"
	"math/big"
	"net"
	"os"
	"path/filepath"
	"strings"
	"testing"
	"time"
)

// e2eMakeCA: a self-signed certificate for 127.0.0.1 (server certificate and trust anchor at once); the PEM file is
// what OTEL_EXPORTER_OTLP_CERTIFICATE points at in the `tls 1` scenarios.
func e2eMakeCA() (*tls.Config, string, string, error) {
	key, err := ecdsa.GenerateKey(elliptic.P256(), rand.Reader)
	if err != nil {
		return nil, "", "", err
	}
	tmpl := &x509.Certificate{
		SerialNumber: big.NewInt(1), Subject: pkix.Name{CommonName: "verif e2e collector"},
		NotBefore: time.Now().Add(-time.Hour), NotAfter: time.Now().Add(24 * time.Hour),
		KeyUsage: x509.KeyUsageDigitalSignature | x509.KeyUsageCertSign, ExtKeyUsage: []x509.ExtKeyUsage{x509.ExtKeyUsageServerAuth},
		BasicConstraintsValid: true, IsCA: true, IPAddresses: []net.IP{net.ParseIP("127.0.0.1")}, DNSNames: []string{"localhost"},
	}
	der, err := x509.CreateCertificate(rand.Reader, tmpl, tmpl, &key.PublicKey, key)
	if err != nil {
		return nil, "", "", err
	}
	dir, err := os.MkdirTemp("", "verif-e2e-")
	if err != nil {
		return nil, "", "", err
	}
	caFile := filepath.Join(dir, "ca.pem")
	if err := os.WriteFile(caFile, pem.EncodeToMemory(&pem.Block{Type: "CERTIFICATE", Bytes: der}), 0o600); err != nil {
		return nil, "", "", err
	}
	cfg := &tls.Config{Certificates: []tls.Certificate{{Certificate: [][]byte{der}, PrivateKey: key}}, NextProtos: []string{"h2", "http/1.1"}}
	return cfg, caFile, dir, nil
}

// ---------------------------------------------------------------- generators

var e2eExps = []string{"th", "tg", "mh", "mg", "lh", "lg"}

func e2eSigPath(exp string) string {
	switch exp[0] {
	case 't':
		return "/v1/traces"
	case 'm':
		return "/v1/metrics"
	}
	return "/v1/logs"
}

// collector placeholders for the transport of exp, shuffled
func e2eCols(r *vRand, exp string) []string {
	base := 1
	if exp[1] == 'g' {
		base = 4
	}
	ks := []int{base, base + 1, base + 2}
	for j := 2; j > 0; j-- {
		k := r.Intn(j + 1)
		ks[j], ks[k] = ks[k], ks[j]
	}
	out := make([]string, 3)
	for i, k := range ks {
		out[i] = e2ePlaceholder(k)
	}
	return out
}

// header values that survive HTTP and gRPC transport unchanged: token keys in lower case, distinct under case
// folding, values without leading/trailing blanks or control bytes
var e2eHdEnv = []string{"-", "a=1", "k=v,z=9", "k=v, bad", "novalue", "a=b%20c,d=e", "a=1,a=2", "k=v,", "", "a=1,b=x%3Dy", "k==v", "=v", "k=%zz", " a=1 , q=w "}
var e2eHdOpt = [][]c20Item{nil, nil, {{kind: 'H', m: map[string]string{}}}, {{kind: 'H', m: map[string]string{"a": "1"}}},
	{{kind: 'H', m: map[string]string{"k": "v", "z": "9"}}, {kind: 'H', m: map[string]string{"q": "w", "b": "c"}}},
	{{kind: 'H', m: map[string]string{"x-opt": "o p"}}}}
var e2eCoEnv = []string{"-", "-", "gzip", "none", "GZIP", "snappy", "", " gzip ", "deflate"}

// timeouts: `big` never fire; `small` (40 ms) only together with a stalled first answer
var e2eToEnvBig = []string{"-", "-", "7000", "60000", "-3", "abc", "", "0", " 7000 ", "9223372036855", "1.5", "+9000"}
var e2eToOptBig = [][]c20Item{nil, nil, {{kind: 'T', n: 7000000000}}, {{kind: 'T', n: 60000000000}}, {{kind: 'T', n: -1000000}}, {{kind: 'T', n: 1}, {kind: 'T', n: 8000000000}}}

func e2eComp(exp string, gz bool) c20Item {
	if exp == "lg" {
		return c20Item{kind: 'W', s: e2eCompressor(gz)}
	}
	if gz {
		return c20Item{kind: 'C', n: 1}
	}
	return c20Item{kind: 'C', n: 0}
}

// e2eEndpointSources: option items + specific + generic variable, all pointing at (different) collectors in clear
// text. At least one source is a valid one; invalid/odd values only where a valid source of lower precedence exists.
func e2eEndpointSources(r *vRand, exp string, rich bool) (items []c20Item, epS, epG string) {
	cols := e2eCols(r, exp)
	isHTTP := exp[1] == 'h'
	epS, epG = "-", "-"
	envURL := func(host string, specific bool) string {
		if !isHTTP {
			if rich && r.Intn(25) == 0 {
				// a URL path in a gRPC endpoint: the trace/metric exporters dial host/path (nothing is delivered, the
				// call fails at once), the log exporter dials the host
				return "http://" + host + "/base"
			}
			return vPick(r, []string{"http://" + host, "http://" + host, "http://" + host + "/"})
		}
		forms := []string{"http://" + host, "http://" + host + "/", "http://" + host + "/base", "http://" + host + "/custom/",
			"http://" + host + "/a%20b/", "http://" + host + e2eSigPath(exp)}
		if rich {
			forms = append(forms, "http://"+host+"//x/./y/../z", "http://"+host+"/p?q=1#f", "HTTP://"+host+"/Up")
		}
		return vPick(r, forms)
	}
	mask := 1 + r.Intn(7) // bit 0 option, bit 1 specific, bit 2 generic
	if mask&4 != 0 {
		epG = envURL(cols[2], false)
	}
	if mask&2 != 0 {
		epS = envURL(cols[1], true)
		if rich && mask&4 != 0 && r.Intn(6) == 0 {
			// an unusable signal-specific value above a valid generic one
			epS = vPick(r, []string{"%zz", "http://[::1", "", "   ", " http://" + cols[1] + "/sp "})
		}
	}
	if mask&1 != 0 {
		E := c20Item{kind: 'E', s: cols[0]}
		I := c20Item{kind: 'I'}
		U := c20Item{kind: 'U', s: "http://" + cols[0]}
		Ub := c20Item{kind: 'U', s: "http://" + cols[0] + "/optbase/"}
		forms := [][]c20Item{{E, I}, {I, E}, {U}, {E, I, U}, {U, E}}
		if isHTTP {
			P := c20Item{kind: 'P', s: vPick(r, []string{"/opt/path/", "rel//p/../q ", "", "/v2/x"})}
			forms = append(forms, []c20Item{Ub}, []c20Item{P, U}, []c20Item{U, P}, []c20Item{E, I, P}, []c20Item{Ub, E})
		} else {
			forms = append(forms, []c20Item{Ub})
		}
		if rich && mask != 1 {
			// an unparsable URL option is ignored; only a path option above environment endpoints
			forms = append(forms, []c20Item{{kind: 'U', s: "http://[::1"}})
			if isHTTP {
				forms = append(forms, []c20Item{{kind: 'P', s: "/only/path"}})
			}
		}
		items = append(items, vPick(r, forms)...)
	}
	return items, epS, epG
}

func e2eShuffleGroups(r *vRand, groups [][]c20Item) []c20Item {
	// the order of unrelated options must not matter; the order inside a group is kept
	for j := len(groups) - 1; j > 0; j-- {
		k := r.Intn(j + 1)
		groups[j], groups[k] = groups[k], groups[j]
	}
	var out []c20Item
	for _, g := range groups {
		out = append(out, g...)
	}
	return out
}

func e2eEnv(epS, epG, insS, insG, hdS, hdG, coS, coG, toS, toG string) []string {
	return []string{c20EnvTok(epS), c20EnvTok(epG), c20EnvTok(insS), c20EnvTok(insG), c20EnvTok(hdS), c20EnvTok(hdG),
		c20EnvTok(coS), c20EnvTok(coG), c20EnvTok(toS), c20EnvTok(toG)}
}

func e2eSmallBatch(r *vRand, exp string) (string, uint64) {
	seed := r.U64() >> 1
	switch exp[0] {
	case 't':
		return "onespan", seed
	case 'm':
		return "kinds", seed
	}
	return "onerec", seed
}

// e2eGenConfig: scenario for the configuration leg: retry disabled, one answer.
func e2eGenConfig(r *vRand) *e2eScenario {
	exp := vPick(r, e2eExps)
	s := &e2eScenario{gen: "cfg", exp: exp, msel: "0"}
	s.bgen, s.bseed = e2eSmallBatch(r, exp)
	ep, epS, epG := e2eEndpointSources(r, exp, true)
	groups := [][]c20Item{}
	if len(ep) > 0 {
		groups = append(groups, ep)
	}
	pick := func(vals []string) string {
		if r.Intn(5) < 2 {
			return "-"
		}
		return vPick(r, vals)
	}
	if h := vPick(r, e2eHdOpt); h != nil {
		groups = append(groups, h)
	}
	switch r.Intn(5) {
	case 0:
		groups = append(groups, []c20Item{e2eComp(exp, true)})
	case 1:
		groups = append(groups, []c20Item{e2eComp(exp, false)})
	case 2:
		if r.Intn(3) == 0 {
			groups = append(groups, []c20Item{e2eComp(exp, true), e2eComp(exp, false)})
		} else if exp == "lg" && r.Intn(2) == 0 {
			groups = append(groups, []c20Item{{kind: 'W', s: vPick(r, []string{"bogus", ""})}})
		}
	}
	toS, toG := pick(e2eToEnvBig), pick(e2eToEnvBig)
	toOpt := vPick(r, e2eToOptBig)
	insS, insG := "-", "-"
	switch c := r.Intn(20); {
	case c < 3:
		// stalled first answer; 40 ms candidates among the timeout sources
		s.gen, s.stall = "stall", 150
		switch r.Intn(4) {
		case 0:
			toOpt = []c20Item{{kind: 'T', n: 40000000}}
		case 1:
			toS = "40"
		case 2:
			toG = "40"
		default:
			toS, toG = vPick(r, []string{"40", "7000", "abc"}), vPick(r, []string{"40", "60000"})
		}
	case c < 7:
		// transport security decided by schemes / insecure variables / a bare host option
		s.gen = "sec"
		cols := e2eCols(r, exp)
		switch r.Intn(6) {
		case 0:
			epS = "https://" + cols[1]
		case 1:
			epG = "https://" + cols[2]
		case 2:
			groups = append(groups, []c20Item{{kind: 'E', s: cols[0]}})
		case 3:
			groups = append(groups, []c20Item{{kind: 'U', s: "https://" + cols[0] + "/sec"}})
		case 4:
			insS = vPick(r, []string{"true", "false", "TRUE", "bogus", ""})
		default:
			insG = vPick(r, []string{"true", "false", "bogus"})
		}
		s.tls = r.Intn(2) == 0
	default:
		if r.Intn(4) == 0 {
			insS = vPick(r, []string{"-", "true"})
			insG = vPick(r, []string{"-", "true", "TRUE"})
		}
	}
	if toOpt != nil {
		groups = append(groups, toOpt)
	}
	s.items = e2eShuffleGroups(r, groups)
	s.env = e2eEnv(epS, epG, insS, insG, pick(e2eHdEnv), pick(e2eHdEnv), pick(e2eCoEnv), pick(e2eCoEnv), toS, toG)
	s.script = []string{e2eOKResp(exp)}
	if r.Intn(10) == 0 {
		if s.isHTTP() {
			s.script = []string{vPick(r, []string{"400;-;0;e", "503;-;0;e", "200;-;0;p1:2:" + vHex("partial")})}
		} else {
			s.script = []string{vPick(r, []string{"3;-;-", "14;-;-", "0;-;2:" + vHex("partial")})}
		}
	}
	return s
}

// plain-text, well-behaved configuration with some variety (who provides the endpoint, gzip, headers)
func e2eGenPlainConfig(r *vRand, s *e2eScenario) {
	ep, epS, epG := e2eEndpointSources(r, s.exp, false)
	groups := [][]c20Item{}
	if len(ep) > 0 {
		groups = append(groups, ep)
	}
	coS, coG := "-", "-"
	switch r.Intn(6) {
	case 0, 1:
		groups = append(groups, []c20Item{e2eComp(s.exp, true)})
	case 2:
		coS = "gzip"
	case 3:
		coG = "gzip"
	}
	hdS, hdG := "-", "-"
	switch r.Intn(5) {
	case 0:
		groups = append(groups, []c20Item{{kind: 'H', m: map[string]string{"k": "v", "z": "9"}}})
	case 1:
		hdS = "a=1,b=x%3Dy"
	case 2:
		hdG = "k=v"
	}
	s.items = e2eShuffleGroups(r, groups)
	s.env = e2eEnv(epS, epG, "-", "-", hdS, hdG, coS, coG, "-", "-")
}

var e2eHdrs14 = []string{"-", "-", vHex("0"), vHex("00"), vHex("abc"), vHex("Wed, 21 Oct 2015 07:28:00 GMT"), vHex("-2"), vHex("1.5"), vHex("+0"), vHex("0x10")}

func e2eRandHTTP(r *vRand, retryBias bool) string {
	st := 0
	switch r.Intn(10) {
	case 0, 1, 2, 3:
		st = vPick(r, []int{429, 502, 503, 504})
	case 4:
		st = vPick(r, []int{200, 201, 202, 299})
	case 5:
		st = vPick(r, []int{400, 401, 404, 408, 413, 428, 430, 500, 501, 505, 599})
	default:
		if retryBias {
			st = vPick(r, []int{429, 502, 503, 504})
		} else {
			st = 200
		}
	}
	hdr := vPick(r, e2eHdrs14)
	body := "e"
	switch r.Intn(8) {
	case 0:
		body = fmt.Sprintf("p%d:%d:%s", vB(r.Intn(5) != 0), vPick(r, []int64{0, 0, 1, 7, -1}), vHex(vPick(r, []string{"", "", "quota", "x"})))
	case 1:
		body = fmt.Sprintf("n%d", r.Intn(2))
	case 2:
		body = fmt.Sprintf("g%d", r.Intn(2))
	}
	return fmt.Sprintf("%d;%s;0;%s", st, hdr, body)
}

var e2eDetails14 = []string{"-", "r0", "r1", "r2000000", "z", "n", "n.r1500000", "r1000000.n", "n.n", "r-4", "r3000000.r1"}

func e2eRandGRPC(r *vRand, retryBias bool) string {
	code := 0
	switch r.Intn(10) {
	case 0, 1, 2, 3:
		code = vPick(r, []int{1, 4, 8, 8, 10, 11, 14, 15})
	case 4:
		code = 0
	case 5:
		code = vPick(r, []int{2, 3, 5, 6, 7, 9, 12, 13, 16})
	default:
		if retryBias {
			code = vPick(r, []int{14, 8, 4})
		}
	}
	det := "-"
	if code != 0 && r.Intn(2) == 0 {
		det = vPick(r, e2eDetails14)
	}
	part := "-"
	if code == 0 && r.Intn(2) == 0 {
		part = fmt.Sprintf("%d:%s", vPick(r, []int64{0, 0, 2, -1}), vHex(vPick(r, []string{"", "", "quota"})))
	}
	return fmt.Sprintf("%d;%s;%s", code, det, part)
}

// e2eGenRetry: scenario for the retry leg: long scripts, benign configuration.
func e2eGenRetry(r *vRand) *e2eScenario {
	exp := vPick(r, e2eExps)
	s := &e2eScenario{gen: "rty", exp: exp}
	s.bgen, s.bseed = e2eSmallBatch(r, exp)
	e2eGenPlainConfig(r, s)
	k := r.Intn(5)
	slow := 0
	for j := 0; j < k; j++ {
		var t string
		if s.isHTTP() {
			t = e2eRandHTTP(r, true)
		} else {
			t = e2eRandGRPC(r, true)
			if strings.Contains(t, "000") { // ms-scale RetryInfo: at most two real waits per case
				if slow++; slow > 2 {
					t = strings.Split(t, ";")[0] + ";r1;-"
				}
			}
		}
		s.script = append(s.script, t)
	}
	if s.isHTTP() {
		s.script = append(s.script, vPick(r, []string{"200;-;0;e", "200;-;0;e", "400;-;0;e", "200;-;0;p1:2:" + vHex("partial"), "202;-;0;n1", "500;-;0;e"}))
	} else {
		s.script = append(s.script, vPick(r, []string{"0;-;-", "0;-;-", "3;-;-", "0;-;2:" + vHex("partial"), "8;-;-", "2;-;-"}))
	}
	s.en = r.Intn(8) != 0
	s.msel = vPick(r, []string{"0", "H", "H", "T"})
	return s
}

var e2eSpanGens = []string{"onespan", "mix", "mix", "groups"}
var e2eLogGens = []string{"onerec", "mix", "mix", "groups", "sev"}
var e2eMetricGens = []string{"kinds", "kinds", "mix", "temporal"}

// e2eGenPayload: scenario for the encoding leg: varied batches, a short script that always ends in a delivery.
func e2eGenPayload(r *vRand, i int) *e2eScenario {
	exp := vPick(r, e2eExps)
	s := &e2eScenario{gen: "pay", exp: exp, en: true, msel: "H"}
	for try := 0; ; try++ {
		s.bseed = r.U64() >> 1
		switch exp[0] {
		case 't':
			s.bgen = vPick(r, e2eSpanGens)
			if i%40 == 7 {
				s.bgen = vPick(r, []string{"reskey", "wit-f16", "wit-f32"})
			}
		case 'm':
			s.bgen = vPick(r, e2eMetricGens)
			if i%40 == 7 {
				s.bgen = "wit-f17"
			}
		default:
			s.bgen = vPick(r, e2eLogGens)
			if i%40 == 7 {
				s.bgen = vPick(r, []string{"reskey", "wit-f32", "wit-f33", "wit-f18"})
			}
		}
		if !e2eMakeBatch(exp[0], s.bgen, s.bseed).empty || try > 20 {
			break
		}
	}
	e2eGenPlainConfig(r, s)
	for j, k := 0, r.Intn(3); j < k; j++ {
		if s.isHTTP() {
			s.script = append(s.script, vPick(r, []string{"503;-;0;e", "429;" + vHex("0") + ";0;e", "502;-;0;n1", "504;-;0;e"}))
		} else {
			s.script = append(s.script, vPick(r, []string{"14;-;-", "8;r1000000;-", "4;-;-", "10;r0;-"}))
		}
	}
	s.script = append(s.script, e2eOKResp(exp))
	return s
}

var e2eIlvExps = []string{"lh", "lh", "lh", "mh", "mh", "th", "th", "lg", "mg", "tg"}

// e2eGenIlv: role A scenario of an interleaved pair (role B is derived by e2eWorld.partner): options only, gzip
// (always on HTTP), A's batch the larger one, A's script: one or two retryable answers, then success.
func e2eGenIlv(r *vRand) *e2eScenario {
	exp := vPick(r, e2eIlvExps)
	s := &e2eScenario{gen: "ilv", exp: exp, role: 'A', en: true, msel: vPick(r, []string{"0", "H"})}
	big, small := e2eSpanGens, []string{"onespan"}
	switch exp[0] {
	case 'm':
		big, small = e2eMetricGens, []string{"kinds"}
	case 'l':
		big, small = e2eLogGens, []string{"onerec", "sev"}
	}
	for try := 0; ; try++ {
		s.bgen, s.bseed = vPick(r, big), r.U64()>>1
		s.pgen, s.pseed = vPick(r, small), r.U64()>>1
		if r.Intn(3) == 0 {
			s.bgen = s.pgen // similar sizes
		}
		if try > 20 || (!e2eMakeBatch(exp[0], s.bgen, s.bseed).empty && !e2eMakeBatch(exp[0], s.pgen, s.pseed).empty) {
			break
		}
	}
	cols := e2eCols(r, exp)
	s.items = []c20Item{{kind: 'E', s: cols[0]}, {kind: 'I'}}
	if exp[1] == 'h' || r.Intn(2) == 0 {
		s.items = append(s.items, e2eComp(exp, true))
	}
	if r.Intn(3) == 0 {
		s.items = append(s.items, c20Item{kind: 'H', m: map[string]string{"tenant": "a"}})
	}
	s.env = e2eEnv("-", "-", "-", "-", "-", "-", "-", "-", "-", "-")
	s.script = e2eRetryThenOK(exp)
	if r.Intn(3) == 0 {
		s.script = append([]string{s.script[0]}, s.script...)
	}
	return s
}

// fixed scenarios: the known findings and the hints, end to end
func e2eWitnesses(mode int) []*e2eScenario {
	var out []*e2eScenario
	mk := func(gen, exp string, items []c20Item, env []string, en bool, msel string, script ...string) *e2eScenario {
		s := &e2eScenario{gen: gen, exp: exp, items: items, env: env, en: en, msel: msel, script: script}
		s.bgen, s.bseed = e2eSmallBatch(&vRand{s: 7}, exp)
		return s
	}
	noenv := func(epS, epG string) []string { return e2eEnv(epS, epG, "-", "-", "-", "-", "-", "-", "-", "-") }
	switch mode {
	case 14:
		for i, exp := range []string{"th", "mh", "lh"} {
			// F19: Retry-After: 1 (second) is waited for as 1 ns
			out = append(out, mk("f19", exp, nil, noenv("-", "http://"+e2ePlaceholder(1+i)), true, "H", "503;"+vHex("1")+";0;e", "200;-;0;e"))
		}
		for i, exp := range []string{"tg", "mg", "lg"} {
			out = append(out, mk("hint", exp, nil, noenv("http://"+e2ePlaceholder(4+i), "-"), true, "H", "14;r3000000;-", "8;n.r2000000;-", "0;-;-"))
		}
	case 20:
		for _, exp := range []string{"th", "mh"} {
			// F20: a signal-specific endpoint path that is not in cleanPath normal form is rewritten
			out = append(out, mk("f20", exp, nil, noenv("http://"+e2ePlaceholder(2)+"/custom/", "http://"+e2ePlaceholder(3)+"/g"), false, "0", "200;-;0;e"))
		}
		out = append(out, mk("f20", "lh", nil, noenv("http://"+e2ePlaceholder(2)+"/custom/", "-"), false, "0", "200;-;0;e"))
		for _, exp := range e2eExps {
			p := 1
			if exp[1] == 'g' {
				p = 4
			}
			// every source at once, each naming another collector
			it := []c20Item{{kind: 'H', m: map[string]string{"o": "1"}}, e2eComp(exp, true), {kind: 'T', n: 7000000000}}
			env := e2eEnv("http://"+e2ePlaceholder(p+1), "http://"+e2ePlaceholder(p+2), "-", "-", "s=1", "g=1", "none", "none", "60000", "50000")
			out = append(out, mk("all", exp, it, env, false, "0", e2eOKResp(exp)))
			env2 := e2eEnv("-", "http://"+e2ePlaceholder(p+2), "-", "-", "-", "g=1", "-", "gzip", "-", "50000")
			out = append(out, mk("gen", exp, nil, env2, false, "0", e2eOKResp(exp)))
			// TLS with the harness certificate: https endpoint from the generic variable
			env3 := e2eEnv("-", "https://"+e2ePlaceholder(p+2), "-", "-", "-", "g=1", "-", "gzip", "-", "-")
			// the same without the certificate variable: the exporter must speak TLS (and fail the handshake), not
			// fall back to clear text
			out = append(out, mk("tls0", exp, nil, env3, false, "0", e2eOKResp(exp)))
			// a bare host option: transport security is on by default
			out = append(out, mk("tls0", exp, []c20Item{{kind: 'E', s: e2ePlaceholder(p)}}, noenv("-", "-"), false, "0", e2eOKResp(exp)))
			// with the certificate variable: delivered over TLS by all six exporters (otlploggrpc since the F39 repair,
			// /repo b14f3c7; the reverted fix is mutants/C20/revert-F39-loggrpc-tls-env.diff)
			s := mk("tls", exp, nil, env3, false, "0", e2eOKResp(exp))
			s.tls = true
			out = append(out, s)
		}
	}
	return out
}

// ---------------------------------------------------------------- entry points

func e2eMain(t *testing.T, mode int) {
	out := vOpen(t)
	defer out.Close()
	w, err := e2eNewWorld()
	if err != nil {
		t.Fatal(err)
	}
	defer w.close()
	kind := fmt.Sprintf("e2e%d", mode)
	emit := func(s *e2eScenario) {
		res, ok := w.run(s)
		// a stall case whose 40 ms timeout candidate fired before the request reached any collector (connection set-up
		// on a loaded machine, -race) shows nothing: it is re-executed, at most three times
		for try := 0; ok && s.stall > 0 && res.built && len(res.hit) == 0 && try < 3; try++ {
			res, ok = w.run(s)
		}
		if !ok {
			return
		}
		switch mode {
		case 13:
			out.Line("%s # %s => %s", s.prefix(kind), res.batch.canon, res.obs13(s))
		case 14:
			out.Line("%s => %s", s.prefix(kind), res.obs14(s))
		default:
			out.Line("%s => %s", s.prefix(kind), res.obs20(s))
		}
	}
	line := func(s *e2eScenario, res *e2eResult) {
		switch mode {
		case 13:
			out.Line("%s # %s => %s", s.prefix(kind), res.batch.canon, res.obs13(s))
		case 14:
			out.Line("%s => %s", s.prefix(kind), res.obs14(s))
		}
	}
	// interleaved pair; only[0] = role whose line is wanted (0 = both)
	emitIlv := func(s *e2eScenario, only byte) {
		if mode == 20 {
			return
		}
		if e2eIsSame(s.gen) {
			// C13 only: two exports interleaved on ONE exporter (c13_sameexp_test.go)
			if mode != 13 {
				return
			}
			p := w.partnerSame(s)
			a, b := s, p
			if s.role == 'B' {
				a, b = p, s
			}
			for try := 0; try < 3; try++ {
				ra, rb, ok := w.runIlvSame(a, b)
				if !ok {
					continue // the intended schedule was not achieved: run it again
				}
				if !ra.built || !rb.built {
					return
				}
				if only != 'B' {
					line(a, ra)
				}
				if only != 'A' {
					line(b, rb)
				}
				return
			}
			return
		}
		p := w.partner(s)
		if p == nil {
			return
		}
		a, b := s, p
		if s.role == 'B' {
			a, b = p, s
		}
		ra, rb, ok := w.runIlv(a, b)
		if !ok || !ra.built || !rb.built {
			return
		}
		if only != 'B' {
			line(a, ra)
		}
		if only != 'A' {
			line(b, rb)
		}
	}
	// C20 two-exporter scenario (e2e_two_test.go): roles C and D; p = nil: the partner is regenerated from s.pseed;
	// only = role whose line is wanted (0 = both)
	emitTwo := func(s, p *e2eScenario, only byte) {
		if mode != 20 {
			return
		}
		if p == nil {
			p = e2eTwoPartner(s)
		}
		c, d := s, p
		if s.role == 'D' {
			c, d = p, s
		}
		rc, rd, ok := w.runTwo(c, d)
		if !ok {
			return
		}
		if only != 'D' {
			out.Line("%s => %s", c.prefix(kind), rc.obs20(c))
		}
		if only != 'C' {
			out.Line("%s => %s", d.prefix(kind), rd.obs20(d))
		}
	}
	if rp := vReplayLines(); rp != nil {
		for _, f := range rp {
			if f[0] != kind {
				continue
			}
			if s, ok := e2eParseScenario(f); ok {
				if e2eIsTwoRole(s.role) {
					emitTwo(s, nil, s.role)
				} else if s.role != 0 {
					emitIlv(s, s.role)
				} else {
					emit(s)
				}
			}
		}
		return
	}
	r := &vRand{s: vSeed() ^ uint64(mode)*0x51ed270b}
	n := vN(300)
	for _, s := range e2eWitnesses(mode) {
		emit(s)
	}
	if mode == 20 {
		// two exporters of one kind, constructed one after the other before the first is used: the fixed C20-9 shapes,
		// then random pairs for all six exporters
		for _, pr := range e2eTwoWitnesses() {
			emitTwo(pr[0], pr[1], 0)
		}
		rt := &vRand{s: vSeed() ^ 0x7e02}
		for i, k := 0, 60+n/6; i < k; i++ {
			c, d := e2eGenTwo(rt, e2eExps[i%len(e2eExps)])
			emitTwo(c, d, 0)
		}
	}
	if mode != 20 {
		// interleaved exporters: a fixed share at the start of the run (GOMAXPROCS(1), GC off while they run)
		ri := &vRand{s: vSeed() ^ 0x11f7}
		for i, k := 0, 30+n/25; i < k; i++ {
			emitIlv(e2eGenIlv(ri), 0)
		}
	}
	if mode == 13 {
		// two exports interleaved on the SAME exporter instance, all six exporters, with/without gzip
		rs := &vRand{s: vSeed() ^ 0x5a3e}
		for i, k := 0, 36+n/80; i < k; i++ {
			emitIlv(e2eGenIlvSame(rs, i), 0)
		}
	}
	for i := 0; i < n; i++ {
		switch mode {
		case 13:
			emit(e2eGenPayload(r, i))
		case 14:
			emit(e2eGenRetry(r))
		default:
			emit(e2eGenConfig(r))
		}
	}
}

func TestVerifE2E13(t *testing.T) { e2eMain(t, 13) }
func TestVerifE2E14(t *testing.T) { e2eMain(t, 14) }
func TestVerifE2E20(t *testing.T) { e2eMain(t, 20) }
