package otlpe2e

// C14 only — self-contained (uses nothing of the shared e2e machinery but the trace writer of the common file).
//
// "gives up with an error once … the exporter [is] shut down, never blocks beyond that", end to end through the
// PUBLIC API: each of the six exporters is built by its New() with the client timeout configured by option or by
// environment variable ({default, 30 s, 0 = none}), exports one batch to an in-process collector that answers
// Unavailable / 503 (so the export sits in a 1 h retry back-off, MaxElapsedTime 0) or never answers (stall), and is
// then shut down with a 100 ms deadline. Observation 2 s later, by OUTCOME only: has Shutdown returned (nil / context
// error), has the pending export returned (error class)? A blocked call is the observation `stuck`; the caller's
// context is cancelled afterwards so the test always terminates.
//
//   shuth|shutg <gen e2e|e2e-env> <trace|metric|log>,t<d|p|z> <backoff|stall> => S<nil|ctx|other|stuck> E<…> n<attempts>
//
// (same line as the white-box `shut` scenario of the client legs; judged by Drv.shutLine.)

import (
	"context"
	"errors"
	"fmt"
	"io"
	"net"
	"net/http"
	"net/http/httptest"
	"os"
	"strings"
	"sync"
	"sync/atomic"
	"testing"
	"time"

	"google.golang.org/grpc"
	"google.golang.org/grpc/codes"
	"google.golang.org/grpc/status"

	"go.opentelemetry.io/otel/exporters/otlp/otlplog/otlploggrpc"
	"go.opentelemetry.io/otel/exporters/otlp/otlplog/otlploghttp"
	"go.opentelemetry.io/otel/exporters/otlp/otlpmetric/otlpmetricgrpc"
	"go.opentelemetry.io/otel/exporters/otlp/otlpmetric/otlpmetrichttp"
	"go.opentelemetry.io/otel/exporters/otlp/otlptrace/otlptracegrpc"
	"go.opentelemetry.io/otel/exporters/otlp/otlptrace/otlptracehttp"
	sdklog "go.opentelemetry.io/otel/sdk/log"
	"go.opentelemetry.io/otel/sdk/metric/metricdata"
	sdktrace "go.opentelemetry.io/otel/sdk/trace"
	"go.opentelemetry.io/otel/sdk/trace/tracetest"
	"go.opentelemetry.io/otel/trace"
	collogpb "go.opentelemetry.io/proto/otlp/collector/logs/v1"
	colmetricpb "go.opentelemetry.io/proto/otlp/collector/metrics/v1"
	coltracepb "go.opentelemetry.io/proto/otlp/collector/trace/v1"
)

// c14sColl: a collector that answers every export Unavailable/503, or never (stall), and counts arrivals/answers.
type c14sColl struct {
	stall    bool
	arrived  atomic.Int64
	answered atomic.Int64
}

func (c *c14sColl) serve(ctx context.Context) error {
	c.arrived.Add(1)
	if c.stall {
		<-ctx.Done()
		return status.FromContextError(ctx.Err()).Err()
	}
	c.answered.Add(1)
	return status.Error(codes.Unavailable, "verif: collector is restarting")
}

type c14sTrace struct {
	coltracepb.UnimplementedTraceServiceServer
	c *c14sColl
}

func (s c14sTrace) Export(ctx context.Context, _ *coltracepb.ExportTraceServiceRequest) (*coltracepb.ExportTraceServiceResponse, error) {
	return nil, s.c.serve(ctx)
}

type c14sMetric struct {
	colmetricpb.UnimplementedMetricsServiceServer
	c *c14sColl
}

func (s c14sMetric) Export(ctx context.Context, _ *colmetricpb.ExportMetricsServiceRequest) (*colmetricpb.ExportMetricsServiceResponse, error) {
	return nil, s.c.serve(ctx)
}

type c14sLog struct {
	collogpb.UnimplementedLogsServiceServer
	c *c14sColl
}

func (s c14sLog) Export(ctx context.Context, _ *collogpb.ExportLogsServiceRequest) (*collogpb.ExportLogsServiceResponse, error) {
	return nil, s.c.serve(ctx)
}

type c14sExp struct {
	export   func(context.Context) error
	shutdown func(context.Context) error
}

func c14sClass(err error) string {
	switch {
	case err == nil:
		return "nil"
	case errors.Is(err, context.Canceled) || errors.Is(err, context.DeadlineExceeded) ||
		strings.Contains(err.Error(), "context canceled") || strings.Contains(err.Error(), "context deadline exceeded") ||
		status.Code(err) == codes.Canceled || status.Code(err) == codes.DeadlineExceeded:
		return "ctx"
	}
	return "other"
}

type c14sScen struct {
	sig, proto string // trace|metric|log, h|g
	to         string // d|p|z
	env        bool   // timeout through OTEL_EXPORTER_OTLP_<SIGNAL>_TIMEOUT instead of the option
	pend       string
	line       string
}

// c14sBuild builds the exporter (sequentially: it may set an environment variable) against endpoint ep.
func c14sBuild(sc *c14sScen, ep string) (*c14sExp, error) {
	ctx := context.Background()
	toDur := map[string]time.Duration{"p": 30 * time.Second, "z": 0}
	envName := map[string]string{"trace": "OTEL_EXPORTER_OTLP_TRACES_TIMEOUT", "metric": "OTEL_EXPORTER_OTLP_METRICS_TIMEOUT", "log": "OTEL_EXPORTER_OTLP_LOGS_TIMEOUT"}[sc.sig]
	useOpt := sc.to != "d" && !sc.env
	if sc.to != "d" && sc.env {
		os.Setenv(envName, fmt.Sprint(toDur[sc.to].Milliseconds()))
		defer os.Unsetenv(envName)
	}
	hour := time.Hour
	spans := []sdktrace.ReadOnlySpan{tracetest.SpanStub{Name: "verif-c14-shut",
		SpanContext: trace.NewSpanContext(trace.SpanContextConfig{TraceID: trace.TraceID{1}, SpanID: trace.SpanID{2}, TraceFlags: trace.FlagsSampled}),
		StartTime:   time.Unix(1, 0), EndTime: time.Unix(2, 0)}.Snapshot()}
	rm := &metricdata.ResourceMetrics{}
	recs := make([]sdklog.Record, 1)
	recs[0].SetSeverityText("verif-c14-shut")
	switch sc.sig + sc.proto {
	case "traceg":
		o := []otlptracegrpc.Option{otlptracegrpc.WithInsecure(), otlptracegrpc.WithEndpoint(ep),
			otlptracegrpc.WithRetry(otlptracegrpc.RetryConfig{Enabled: true, InitialInterval: hour, MaxInterval: hour})}
		if useOpt {
			o = append(o, otlptracegrpc.WithTimeout(toDur[sc.to]))
		}
		e, err := otlptracegrpc.New(ctx, o...)
		if err != nil {
			return nil, err
		}
		return &c14sExp{func(c context.Context) error { return e.ExportSpans(c, spans) }, e.Shutdown}, nil
	case "traceh":
		o := []otlptracehttp.Option{otlptracehttp.WithInsecure(), otlptracehttp.WithEndpoint(ep),
			otlptracehttp.WithRetry(otlptracehttp.RetryConfig{Enabled: true, InitialInterval: hour, MaxInterval: hour})}
		if useOpt {
			o = append(o, otlptracehttp.WithTimeout(toDur[sc.to]))
		}
		e, err := otlptracehttp.New(ctx, o...)
		if err != nil {
			return nil, err
		}
		return &c14sExp{func(c context.Context) error { return e.ExportSpans(c, spans) }, e.Shutdown}, nil
	case "metricg":
		o := []otlpmetricgrpc.Option{otlpmetricgrpc.WithInsecure(), otlpmetricgrpc.WithEndpoint(ep),
			otlpmetricgrpc.WithRetry(otlpmetricgrpc.RetryConfig{Enabled: true, InitialInterval: hour, MaxInterval: hour})}
		if useOpt {
			o = append(o, otlpmetricgrpc.WithTimeout(toDur[sc.to]))
		}
		e, err := otlpmetricgrpc.New(ctx, o...)
		if err != nil {
			return nil, err
		}
		return &c14sExp{func(c context.Context) error { return e.Export(c, rm) }, e.Shutdown}, nil
	case "metrich":
		o := []otlpmetrichttp.Option{otlpmetrichttp.WithInsecure(), otlpmetrichttp.WithEndpoint(ep),
			otlpmetrichttp.WithRetry(otlpmetrichttp.RetryConfig{Enabled: true, InitialInterval: hour, MaxInterval: hour})}
		if useOpt {
			o = append(o, otlpmetrichttp.WithTimeout(toDur[sc.to]))
		}
		e, err := otlpmetrichttp.New(ctx, o...)
		if err != nil {
			return nil, err
		}
		return &c14sExp{func(c context.Context) error { return e.Export(c, rm) }, e.Shutdown}, nil
	case "logg":
		o := []otlploggrpc.Option{otlploggrpc.WithInsecure(), otlploggrpc.WithEndpoint(ep),
			otlploggrpc.WithRetry(otlploggrpc.RetryConfig{Enabled: true, InitialInterval: hour, MaxInterval: hour})}
		if useOpt {
			o = append(o, otlploggrpc.WithTimeout(toDur[sc.to]))
		}
		e, err := otlploggrpc.New(ctx, o...)
		if err != nil {
			return nil, err
		}
		return &c14sExp{func(c context.Context) error { return e.Export(c, recs) }, e.Shutdown}, nil
	case "logh":
		o := []otlploghttp.Option{otlploghttp.WithInsecure(), otlploghttp.WithEndpoint(ep),
			otlploghttp.WithRetry(otlploghttp.RetryConfig{Enabled: true, InitialInterval: hour, MaxInterval: hour})}
		if useOpt {
			o = append(o, otlploghttp.WithTimeout(toDur[sc.to]))
		}
		e, err := otlploghttp.New(ctx, o...)
		if err != nil {
			return nil, err
		}
		return &c14sExp{func(c context.Context) error { return e.Export(c, recs) }, e.Shutdown}, nil
	}
	return nil, fmt.Errorf("unknown exporter %s%s", sc.sig, sc.proto)
}

func c14sRun(sc *c14sScen, ex *c14sExp, coll *c14sColl) {
	ctx, release := context.WithCancel(context.Background())
	defer release()
	expDone := make(chan error, 1)
	go func() { expDone <- ex.export(ctx) }()
	for t0 := time.Now(); time.Since(t0) < 10*time.Second; time.Sleep(500 * time.Microsecond) {
		if coll.arrived.Load() >= 1 && (coll.stall || coll.answered.Load() >= 1) {
			break
		}
	}
	time.Sleep(20 * time.Millisecond) // the answer has to travel back and the export to enter its back-off
	sctx, c2 := context.WithTimeout(context.Background(), 100*time.Millisecond)
	defer c2()
	shDone := make(chan error, 1)
	go func() { shDone <- ex.shutdown(sctx) }()
	sres, eres := "stuck", "stuck"
	final := time.After(2 * time.Second)
	shRet, exRet := false, false
obs:
	for !(shRet && exRet) {
		select {
		case e := <-shDone:
			shRet, sres = true, c14sClass(e)
		case e := <-expDone:
			exRet, eres = true, c14sClass(e)
		case <-final:
			break obs
		}
	}
	n := coll.arrived.Load()
	release()
	for _, w := range []struct {
		ret bool
		ch  chan error
	}{{shRet, shDone}, {exRet, expDone}} {
		if !w.ret {
			select {
			case <-w.ch:
			case <-time.After(20 * time.Second):
				panic("verif: export/shutdown still blocked 20 s after the caller's context was cancelled")
			}
		}
	}
	gen := "e2e"
	if sc.env {
		gen = "e2e-env"
	}
	sc.line = fmt.Sprintf("shut%s %s %s,t%s %s => S%s E%s n%d", sc.proto, gen, sc.sig, sc.to, sc.pend, sres, eres, n)
}

func TestVerifC14Shut(t *testing.T) {
	out := vOpen(t)
	defer out.Close()
	var scens []*c14sScen
	if rp := vReplayLines(); rp != nil {
		for _, f := range rp {
			if len(f) >= 4 && (f[0] == "shuth" || f[0] == "shutg") {
				p := strings.Split(f[2], ",")
				to := "d"
				if len(p) > 1 && len(p[1]) == 2 {
					to = p[1][1:]
				}
				scens = append(scens, &c14sScen{sig: p[0], proto: f[0][4:], to: to, env: f[1] == "e2e-env", pend: f[3]})
			}
		}
	} else {
		for _, sig := range []string{"trace", "metric", "log"} {
			for _, proto := range []string{"h", "g"} {
				for _, to := range []string{"d", "p", "z"} {
					scens = append(scens, &c14sScen{sig: sig, proto: proto, to: to, pend: "backoff"})
				}
				scens = append(scens, &c14sScen{sig: sig, proto: proto, to: "z", env: true, pend: "backoff"})
				scens = append(scens, &c14sScen{sig: sig, proto: proto, to: "z", pend: "stall"})
				scens = append(scens, &c14sScen{sig: sig, proto: proto, to: "d", pend: "stall"})
			}
		}
	}
	var wg sync.WaitGroup
	var cleanup []func()
	for _, sc := range scens {
		coll := &c14sColl{stall: sc.pend == "stall"}
		var ep string
		if sc.proto == "g" {
			lis, err := net.Listen("tcp", "127.0.0.1:0")
			if err != nil {
				t.Fatal(err)
			}
			srv := grpc.NewServer()
			coltracepb.RegisterTraceServiceServer(srv, c14sTrace{c: coll})
			colmetricpb.RegisterMetricsServiceServer(srv, c14sMetric{c: coll})
			collogpb.RegisterLogsServiceServer(srv, c14sLog{c: coll})
			go func() { _ = srv.Serve(lis) }()
			cleanup = append(cleanup, srv.Stop)
			ep = lis.Addr().String()
		} else {
			srv := httptest.NewServer(http.HandlerFunc(func(w http.ResponseWriter, r *http.Request) {
				_, _ = io.Copy(io.Discard, r.Body) // only then does the server notice a client that goes away
				if err := coll.serve(r.Context()); status.Code(err) == codes.Unavailable {
					w.WriteHeader(http.StatusServiceUnavailable)
				}
			}))
			cleanup = append(cleanup, func() { srv.CloseClientConnections(); srv.Close() })
			ep = strings.TrimPrefix(srv.URL, "http://")
		}
		ex, err := c14sBuild(sc, ep)
		if err != nil {
			t.Fatal(err)
		}
		wg.Add(1)
		go func() { defer wg.Done(); c14sRun(sc, ex, coll) }()
	}
	wg.Wait()
	for _, f := range cleanup {
		f()
	}
	for _, sc := range scens {
		out.Line("%s", sc.line)
	}
}
