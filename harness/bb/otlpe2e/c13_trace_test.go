// COPIED (generators and canonical printers only) from harness/wb/exporters/otlp/otlptrace/internal/tracetransform/zz_verif_c13_trace_test.go
// by the e2e builder; keep in sync with the C13 white-box harness: the C13 driver parses these canonical forms.
// C13 — trace leg: random batches of ReadOnlySpans (tracetest.SpanStub snapshots) -> tracetransform.Spans ->
// proto.Marshal -> proto.Unmarshal -> canonical dump of the decoded TracesData; the line also carries the batch
// in canonical form (read back through the ReadOnlySpan interface) for the Lean model.
//
// line: spans <gen> <caseSeed> <batch> => <dump>
//
//	batch = ( item… ) ; item = - (nil ReadOnlySpan) |
//	  ( xname sc parent kind start end (attrs) (events) (links) statusCode xstatusDesc dAttrs dEvents dLinks childCount res scope )
//	sc = ( xtraceid xspanid flags xtracestate remote ) ; event = ( xname time (attrs) dropped ) ; link = ( sc (attrs) dropped )
//	res = - | ( (attrs) xschemaURL ) ; scope = ( xname xversion xschemaURL (attrs) )
//	dump = ( ResourceSpans… ) each message as printed by c13DumpMsg, the ResourceSpans sorted
package otlpe2e

import (
	"time"

	"go.opentelemetry.io/otel/attribute"
	"go.opentelemetry.io/otel/codes"
	"go.opentelemetry.io/otel/sdk/instrumentation"
	"go.opentelemetry.io/otel/sdk/resource"
	tracesdk "go.opentelemetry.io/otel/sdk/trace"
	"go.opentelemetry.io/otel/sdk/trace/tracetest"
	"go.opentelemetry.io/otel/trace"
)

var c13TraceStates = []string{"", "", "", "", "", "", "a=1", "k1=v1,k2=v2", "vendor@sys=val:x"}

func c13GenSC(r *vRand, zeroOK bool, tsProb int) trace.SpanContext {
	if zeroOK && r.Intn(3) == 0 {
		return trace.SpanContext{}
	}
	var tid trace.TraceID
	var sid trace.SpanID
	switch r.Intn(5) {
	case 0: // all-zero ids (invalid)
	case 1:
		tid[15] = 1
		sid[7] = 1
	default:
		for i := range tid {
			tid[i] = byte(r.U64())
		}
		for i := range sid {
			sid[i] = byte(r.U64())
		}
	}
	if r.Intn(8) == 0 {
		sid = trace.SpanID{} // valid trace id, zero span id
	}
	tsStr := ""
	if r.Intn(tsProb) == 0 {
		tsStr = c13TraceStates[6+r.Intn(3)]
	}
	ts, _ := trace.ParseTraceState(tsStr)
	return trace.NewSpanContext(trace.SpanContextConfig{
		TraceID: tid, SpanID: sid, TraceFlags: trace.TraceFlags(vPick(r, []int{0, 1, 1, 2, 255})),
		TraceState: ts, Remote: r.Intn(3) == 0,
	})
}

func c13GenScope(r *vRand) instrumentation.Scope {
	switch r.Intn(6) {
	case 0:
		return instrumentation.Scope{}
	case 1:
		return instrumentation.Scope{Name: vPick(r, []string{"lib", "lib2", "š"})}
	case 2:
		return instrumentation.Scope{Name: "lib", Version: vPick(r, []string{"v1", "v2", ""})}
	case 3:
		return instrumentation.Scope{SchemaURL: "https://s/1"} // empty name, non-zero scope
	default:
		s := instrumentation.Scope{Name: vValidStr(r, 3), Version: vValidStr(r, 2), SchemaURL: vPick(r, []string{"", "https://s/1", "u"})}
		if kvs := c13SetKVs(r, 3, false); len(kvs) > 0 {
			s.Attributes = attribute.NewSet(kvs...)
		}
		return s
	}
}

func c13GenResources(r *vRand, n int, conflict bool) []*resource.Resource {
	out := make([]*resource.Resource, 0, n+1)
	for i := 0; i < n; i++ {
		switch r.Intn(7) {
		case 0:
			out = append(out, nil)
		case 1:
			out = append(out, resource.Empty())
		case 2:
			out = append(out, resource.NewSchemaless(c13SetKVs(r, 3, false)...))
		default:
			kvs := c13SetKVs(r, 3, false)
			out = append(out, resource.NewWithAttributes(vPick(r, []string{"", "https://r/1", "https://r/2"}), kvs...))
			if conflict && r.Intn(2) == 0 {
				// same attribute set, other schema URL: another resource (grouping key = attributes + schema URL since 089ce94)
				out = append(out, resource.NewWithAttributes("https://r/other", kvs...))
			}
		}
	}
	if len(out) == 0 {
		out = append(out, nil)
	}
	return out
}

func c13GenEvents(r *vRand) []tracesdk.Event {
	n := r.Intn(4)
	if n == 0 {
		return nil
	}
	out := make([]tracesdk.Event, n)
	for i := range out {
		out[i] = tracesdk.Event{Name: vValidStr(r, 3), Time: time.Unix(0, c13TimeNanos(r)), Attributes: c13KVs(r, 3), DroppedAttributeCount: int(c13Int(r))}
	}
	return out
}

func c13GenLinks(r *vRand, tsProb int) []tracesdk.Link {
	n := r.Intn(4)
	if n == 0 {
		return nil
	}
	out := make([]tracesdk.Link, n)
	for i := range out {
		out[i] = tracesdk.Link{SpanContext: c13GenSC(r, false, tsProb), Attributes: c13KVs(r, 3), DroppedAttributeCount: int(c13Int(r))}
	}
	return out
}

func c13GenSpan(r *vRand, res *resource.Resource, sc instrumentation.Scope, linkTS int) tracetest.SpanStub {
	return tracetest.SpanStub{
		Name:              vValidStr(r, 4),
		SpanContext:       c13GenSC(r, false, 3),
		Parent:            c13GenSC(r, true, 3),
		SpanKind:          trace.SpanKind(r.Intn(9) - 2),
		StartTime:         time.Unix(0, c13TimeNanos(r)),
		EndTime:           time.Unix(0, c13TimeNanos(r)),
		Attributes:        c13KVs(r, 4),
		Events:            c13GenEvents(r),
		Links:             c13GenLinks(r, linkTS),
		Status:            tracesdk.Status{Code: codes.Code(vPick(r, []uint32{0, 1, 2, 3, 4294967295})), Description: vValidStr(r, 3)},
		DroppedAttributes: int(c13Int(r)),
		DroppedEvents:     int(c13Int(r)),
		DroppedLinks:      int(c13Int(r)),
		ChildSpanCount:    int(c13Int(r)),
		Resource:          res,
		// both fields: Snapshot() falls back to InstrumentationLibrary when the scope's three strings are empty
		InstrumentationScope:   sc,
		InstrumentationLibrary: sc,
	}
}

// c13GenSpanBatch builds one batch from (generator tag, case seed).
func c13GenSpanBatch(tag string, cs uint64) []tracesdk.ReadOnlySpan {
	r := &vRand{s: cs}
	switch tag {
	case "wit-f16":
		// former F16 witness (repaired in fe0bf20): one span, one link whose span context carries a tracestate
		ts, _ := trace.ParseTraceState("a=1")
		l := trace.NewSpanContext(trace.SpanContextConfig{TraceID: trace.TraceID{1}, SpanID: trace.SpanID{2}, TraceState: ts})
		s := tracetest.SpanStub{Name: "s", SpanContext: trace.NewSpanContext(trace.SpanContextConfig{TraceID: trace.TraceID{1}, SpanID: trace.SpanID{3}}),
			Links: []tracesdk.Link{{SpanContext: l}}}
		return []tracesdk.ReadOnlySpan{s.Snapshot()}
	case "fixed":
		// one span whose encoded size does not depend on the seed (fixed-length name and ids, fixed64 times)
		var tid trace.TraceID
		var sid trace.SpanID
		for i := range tid {
			tid[i] = 1 + byte(r.U64()%255)
		}
		for i := range sid {
			sid[i] = 1 + byte(r.U64()%255)
		}
		st := tracetest.SpanStub{Name: "fixed-" + c13Hex16(r.U64()), SpanContext: trace.NewSpanContext(trace.SpanContextConfig{TraceID: tid, SpanID: sid}),
			SpanKind: trace.SpanKindClient, StartTime: time.Unix(1700000000, int64(r.Intn(1000000000))), EndTime: time.Unix(1700000001, int64(r.Intn(1000000000))),
			Attributes: []attribute.KeyValue{attribute.String("k", c13Hex16(r.U64()))}, Resource: resource.NewSchemaless(attribute.String("service.name", "fixed"))}
		return []tracesdk.ReadOnlySpan{st.Snapshot()}
	case "wit-f32":
		// former F32 witness (repaired in 089ce94): same resource attributes, schema URLs "a" and "b"
		mk := func(schema string, id byte) tracesdk.ReadOnlySpan {
			return tracetest.SpanStub{Name: "s", SpanContext: trace.NewSpanContext(trace.SpanContextConfig{TraceID: trace.TraceID{1}, SpanID: trace.SpanID{id}}),
				Resource: resource.NewWithAttributes(schema, attribute.String("r", "1"))}.Snapshot()
		}
		return []tracesdk.ReadOnlySpan{mk("a", 3), mk("b", 4)}
	case "empty":
		if r.Bool() {
			return nil
		}
		return []tracesdk.ReadOnlySpan{}
	case "onespan":
		res := c13GenResources(r, 1, false)
		return []tracesdk.ReadOnlySpan{c13GenSpan(r, res[0], c13GenScope(r), 3).Snapshot()}
	}
	// "mix", "groups", "reskey": pools of resources and scopes, spans drawing from them
	nRes, nSc, nSp := r.Intn(5), r.Intn(5), r.Intn(7)
	if tag == "groups" {
		nSp = 4 + r.Intn(9)
	}
	ress := c13GenResources(r, nRes, tag == "reskey")
	scs := make([]instrumentation.Scope, 0, nSc+1)
	for i := 0; i < nSc; i++ {
		scs = append(scs, c13GenScope(r))
	}
	if len(scs) == 0 {
		scs = append(scs, instrumentation.Scope{})
	}
	linkTS := 4
	if tag == "groups" {
		linkTS = 4
	}
	out := make([]tracesdk.ReadOnlySpan, 0, nSp)
	for i := 0; i < nSp; i++ {
		if r.Intn(12) == 0 {
			out = append(out, nil)
			continue
		}
		st := c13GenSpan(r, ress[r.Intn(len(ress))], scs[r.Intn(len(scs))], linkTS)
		if tag == "groups" {
			// small spans: the point is the grouping
			st.Attributes, st.Events, st.Links = nil, nil, nil
		}
		out = append(out, st.Snapshot())
	}
	return out
}

func c13PrintSC(w *c13W, sc trace.SpanContext) {
	w.open()
	tid, sid := sc.TraceID(), sc.SpanID()
	w.bytes(tid[:])
	w.bytes(sid[:])
	w.u64(uint64(sc.TraceFlags()))
	w.str(sc.TraceState().String())
	w.boolean(sc.IsRemote())
	w.close()
}

func c13PrintSpan(w *c13W, s tracesdk.ReadOnlySpan) {
	if s == nil {
		w.tok("-")
		return
	}
	w.open()
	w.str(s.Name())
	c13PrintSC(w, s.SpanContext())
	c13PrintSC(w, s.Parent())
	w.i64(int64(s.SpanKind()))
	w.i64(s.StartTime().UnixNano())
	w.i64(s.EndTime().UnixNano())
	c13PrintKVs(w, s.Attributes())
	w.open()
	for _, e := range s.Events() {
		w.open()
		w.str(e.Name)
		w.i64(e.Time.UnixNano())
		c13PrintKVs(w, e.Attributes)
		w.i64(int64(e.DroppedAttributeCount))
		w.close()
	}
	w.close()
	w.open()
	for _, l := range s.Links() {
		w.open()
		c13PrintSC(w, l.SpanContext)
		c13PrintKVs(w, l.Attributes)
		w.i64(int64(l.DroppedAttributeCount))
		w.close()
	}
	w.close()
	w.u64(uint64(s.Status().Code))
	w.str(s.Status().Description)
	w.i64(int64(s.DroppedAttributes()))
	w.i64(int64(s.DroppedEvents()))
	w.i64(int64(s.DroppedLinks()))
	w.i64(int64(s.ChildSpanCount()))
	if res := s.Resource(); res == nil {
		w.tok("-")
	} else {
		w.open()
		c13PrintIter(w, res.Iter())
		w.str(res.SchemaURL())
		w.close()
	}
	sc := s.InstrumentationScope()
	w.open()
	w.str(sc.Name)
	w.str(sc.Version)
	w.str(sc.SchemaURL)
	c13PrintIter(w, sc.Attributes.Iter())
	w.close()
	w.close()
}
