// C20 end-to-end leg: "two exporters" scenarios (property C20: each exporter takes each setting from ITS OWN sources).
//
// Two exporters of the same kind live in one process. Role C is constructed first — unstarted where the API allows it
// (otlptracegrpc.NewUnstarted / otlptracehttp.NewUnstarted; the other exporters have no unstarted form: they are
// constructed and not used) — from its own options and its own environment; then the environment is replaced by role
// D's and D is constructed with a DIFFERENT random configuration (different endpoint, headers, compression, timeout,
// transport security and — gRPC — a different dial-option layout: reconnection period and/or service config, chosen
// by the batch seed); then the environment is cleared altogether, C is started and used, then D. One `e2e20` line per
// role, in the grammar of the single-exporter lines: the batch token is <bgen>:<bseed>~two:<pseed>~<C|D> where pseed
// regenerates the PARTNER's whole scenario (e2eGenTwoSide), so each line replays alone. The Lean driver judges each
// line by the resolution of that exporter's own sources only (in the functional model the configuration of another
// exporter cannot matter: `config_independent_of_other_exporters`); package-level shared state is what this leg is for.
package otlpe2e

import (
	"context"
	"errors"
	"os"
	"time"

	"go.opentelemetry.io/otel/exporters/otlp/otlplog/otlploggrpc"
	"go.opentelemetry.io/otel/exporters/otlp/otlplog/otlploghttp"
	"go.opentelemetry.io/otel/exporters/otlp/otlpmetric/otlpmetricgrpc"
	"go.opentelemetry.io/otel/exporters/otlp/otlpmetric/otlpmetrichttp"
	"go.opentelemetry.io/otel/exporters/otlp/otlptrace/otlptracegrpc"
	"go.opentelemetry.io/otel/exporters/otlp/otlptrace/otlptracehttp"
)

func e2eIsTwoRole(role byte) bool { return role == 'C' || role == 'D' }

// e2eGenTwoSide: one side of a two-exporter scenario for exporter kind exp: a configuration-leg scenario (all source
// kinds, transport security variety) without a stalled answer.
func e2eGenTwoSide(r *vRand, exp string, role byte) *e2eScenario {
	for try := 0; ; try++ {
		s := e2eGenConfig(r)
		if (s.exp == exp && s.stall == 0) || try > 400 {
			s.exp = exp
			s.gen, s.role, s.pgen = "two", role, "two"
			return s
		}
	}
}

// e2eGenTwo: both roles; the two generator seeds are the cross references.
func e2eGenTwo(r *vRand, exp string) (*e2eScenario, *e2eScenario) {
	sc, sd := r.U64()>>1|8, r.U64()>>1|8 // 1..4 are the fixed scenarios of e2eTwoFixed
	c := e2eGenTwoSide(&vRand{s: sc}, exp, 'C')
	d := e2eGenTwoSide(&vRand{s: sd}, exp, 'D')
	c.pseed, d.pseed = sd, sc
	return c, d
}

// e2eTwoPartner regenerates the partner's scenario of a replayed line.
func e2eTwoPartner(s *e2eScenario) *e2eScenario {
	role := byte('D')
	if s.role == 'D' {
		role = 'C'
	}
	if s.pseed >= 1 && s.pseed <= 4 {
		return e2eTwoFixed(s.exp, s.pseed)
	}
	return e2eGenTwoSide(&vRand{s: s.pseed}, s.exp, role)
}

type e2eTwoExporter struct {
	e2eExporter
	start func(context.Context) error // nil: the exporter was started by its constructor
}

// e2eBuildTwo: like e2eBuild, but unstarted where possible and with the gRPC-only options that change the layout of the
// dial-option list without touching a modelled setting (extras: bit 0 reconnection period, bit 1 service config).
func e2eBuildTwo(w *e2eWorld, exp string, items []c20Item, rc e2eRetry, extras uint64) (*e2eTwoExporter, error) {
	ctx := context.Background()
	switch exp {
	case "th":
		mk := e2eMk[otlptracehttp.Option]{E: otlptracehttp.WithEndpoint, U: otlptracehttp.WithEndpointURL, P: otlptracehttp.WithURLPath,
			I: otlptracehttp.WithInsecure, H: otlptracehttp.WithHeaders, T: otlptracehttp.WithTimeout,
			C: func(gz bool) otlptracehttp.Option {
				if gz {
					return otlptracehttp.WithCompression(otlptracehttp.GzipCompression)
				}
				return otlptracehttp.WithCompression(otlptracehttp.NoCompression)
			},
			R: func(r e2eRetry) otlptracehttp.Option {
				return otlptracehttp.WithRetry(otlptracehttp.RetryConfig{Enabled: r.en, InitialInterval: r.ini, MaxInterval: r.max, MaxElapsedTime: r.maxEla})
			}}
		opts, err := e2eOpts(w, mk, items, rc)
		if err != nil {
			return nil, err
		}
		e := otlptracehttp.NewUnstarted(opts...)
		return &e2eTwoExporter{e2eExporter: e2eExporter{export: func(c context.Context, b *e2eBatch) error { return e.ExportSpans(c, b.spans) }, shutdown: e.Shutdown}, start: e.Start}, nil
	case "tg":
		mk := e2eMk[otlptracegrpc.Option]{E: otlptracegrpc.WithEndpoint, U: otlptracegrpc.WithEndpointURL,
			I: otlptracegrpc.WithInsecure, H: otlptracegrpc.WithHeaders, T: otlptracegrpc.WithTimeout,
			C: func(gz bool) otlptracegrpc.Option { return otlptracegrpc.WithCompressor(e2eCompressor(gz)) },
			R: func(r e2eRetry) otlptracegrpc.Option {
				return otlptracegrpc.WithRetry(otlptracegrpc.RetryConfig{Enabled: r.en, InitialInterval: r.ini, MaxInterval: r.max, MaxElapsedTime: r.maxEla})
			}}
		opts, err := e2eOpts(w, mk, items, rc)
		if err != nil {
			return nil, err
		}
		if extras&1 != 0 {
			opts = append(opts, otlptracegrpc.WithReconnectionPeriod(time.Second))
		}
		if extras&2 != 0 {
			opts = append(opts, otlptracegrpc.WithServiceConfig(`{}`))
		}
		e := otlptracegrpc.NewUnstarted(opts...)
		return &e2eTwoExporter{e2eExporter: e2eExporter{export: func(c context.Context, b *e2eBatch) error { return e.ExportSpans(c, b.spans) }, shutdown: e.Shutdown}, start: e.Start}, nil
	case "mh":
		mk := e2eMk[otlpmetrichttp.Option]{E: otlpmetrichttp.WithEndpoint, U: otlpmetrichttp.WithEndpointURL, P: otlpmetrichttp.WithURLPath,
			I: otlpmetrichttp.WithInsecure, H: otlpmetrichttp.WithHeaders, T: otlpmetrichttp.WithTimeout,
			C: func(gz bool) otlpmetrichttp.Option {
				if gz {
					return otlpmetrichttp.WithCompression(otlpmetrichttp.GzipCompression)
				}
				return otlpmetrichttp.WithCompression(otlpmetrichttp.NoCompression)
			},
			R: func(r e2eRetry) otlpmetrichttp.Option {
				return otlpmetrichttp.WithRetry(otlpmetrichttp.RetryConfig{Enabled: r.en, InitialInterval: r.ini, MaxInterval: r.max, MaxElapsedTime: r.maxEla})
			}}
		opts, err := e2eOpts(w, mk, items, rc)
		if err != nil {
			return nil, err
		}
		e, err := otlpmetrichttp.New(ctx, opts...)
		if err != nil {
			return nil, err
		}
		return &e2eTwoExporter{e2eExporter: e2eExporter{export: func(c context.Context, b *e2eBatch) error { return e.Export(c, b.rm) }, shutdown: e.Shutdown}}, nil
	case "mg":
		mk := e2eMk[otlpmetricgrpc.Option]{E: otlpmetricgrpc.WithEndpoint, U: otlpmetricgrpc.WithEndpointURL,
			I: otlpmetricgrpc.WithInsecure, H: otlpmetricgrpc.WithHeaders, T: otlpmetricgrpc.WithTimeout,
			C: func(gz bool) otlpmetricgrpc.Option { return otlpmetricgrpc.WithCompressor(e2eCompressor(gz)) },
			R: func(r e2eRetry) otlpmetricgrpc.Option {
				return otlpmetricgrpc.WithRetry(otlpmetricgrpc.RetryConfig{Enabled: r.en, InitialInterval: r.ini, MaxInterval: r.max, MaxElapsedTime: r.maxEla})
			}}
		opts, err := e2eOpts(w, mk, items, rc)
		if err != nil {
			return nil, err
		}
		if extras&1 != 0 {
			opts = append(opts, otlpmetricgrpc.WithReconnectionPeriod(time.Second))
		}
		if extras&2 != 0 {
			opts = append(opts, otlpmetricgrpc.WithServiceConfig(`{}`))
		}
		e, err := otlpmetricgrpc.New(ctx, opts...)
		if err != nil {
			return nil, err
		}
		return &e2eTwoExporter{e2eExporter: e2eExporter{export: func(c context.Context, b *e2eBatch) error { return e.Export(c, b.rm) }, shutdown: e.Shutdown}}, nil
	case "lh":
		mk := e2eMk[otlploghttp.Option]{E: otlploghttp.WithEndpoint, U: otlploghttp.WithEndpointURL, P: otlploghttp.WithURLPath,
			I: otlploghttp.WithInsecure, H: otlploghttp.WithHeaders, T: otlploghttp.WithTimeout,
			C: func(gz bool) otlploghttp.Option {
				if gz {
					return otlploghttp.WithCompression(otlploghttp.GzipCompression)
				}
				return otlploghttp.WithCompression(otlploghttp.NoCompression)
			},
			R: func(r e2eRetry) otlploghttp.Option {
				return otlploghttp.WithRetry(otlploghttp.RetryConfig{Enabled: r.en, InitialInterval: r.ini, MaxInterval: r.max, MaxElapsedTime: r.maxEla})
			}}
		opts, err := e2eOpts(w, mk, items, rc)
		if err != nil {
			return nil, err
		}
		e, err := otlploghttp.New(ctx, opts...)
		if err != nil {
			return nil, err
		}
		return &e2eTwoExporter{e2eExporter: e2eExporter{export: func(c context.Context, b *e2eBatch) error { return e.Export(c, b.recs) }, shutdown: e.Shutdown}}, nil
	case "lg":
		mk := e2eMk[otlploggrpc.Option]{E: otlploggrpc.WithEndpoint, U: otlploggrpc.WithEndpointURL,
			I: otlploggrpc.WithInsecure, H: otlploggrpc.WithHeaders, T: otlploggrpc.WithTimeout,
			W: otlploggrpc.WithCompressor,
			R: func(r e2eRetry) otlploggrpc.Option {
				return otlploggrpc.WithRetry(otlploggrpc.RetryConfig{Enabled: r.en, InitialInterval: r.ini, MaxInterval: r.max, MaxElapsedTime: r.maxEla})
			}}
		opts, err := e2eOpts(w, mk, items, rc)
		if err != nil {
			return nil, err
		}
		if extras&1 != 0 {
			opts = append(opts, otlploggrpc.WithReconnectionPeriod(time.Second))
		}
		if extras&2 != 0 {
			opts = append(opts, otlploggrpc.WithServiceConfig(`{}`))
		}
		e, err := otlploggrpc.New(ctx, opts...)
		if err != nil {
			return nil, err
		}
		return &e2eTwoExporter{e2eExporter: e2eExporter{export: func(c context.Context, b *e2eBatch) error { return e.Export(c, b.recs) }, shutdown: e.Shutdown}}, nil
	}
	return nil, errors.New("unknown exporter " + exp)
}

type e2eTwoSide struct {
	s   *e2eScenario
	res *e2eResult
	exp *e2eTwoExporter
}

func (w *e2eWorld) prepTwo(s *e2eScenario) (*e2eTwoSide, bool) {
	sd := &e2eTwoSide{s: s, res: &e2eResult{}}
	sig := s.exp[0]
	for _, t := range s.script {
		if s.isHTTP() {
			it, ok := e2eParseHTTP(t, sig)
			if !ok {
				return nil, false
			}
			sd.res.httpScr = append(sd.res.httpScr, it)
		} else {
			it, ok := e2eParseGRPC(t)
			if !ok {
				return nil, false
			}
			sd.res.grpcScr = append(sd.res.grpcScr, it)
		}
	}
	sd.res.batch = e2eMakeBatch(sig, s.bgen, s.bseed)
	return sd, true
}

// construct one side from ITS environment (set only while its constructor runs) and its options
func (sd *e2eTwoSide) build(w *e2eWorld) bool {
	s := sd.s
	e2eClearOtelEnv()
	defer e2eClearOtelEnv()
	for i, k := range e2eEnvKeys(s.exp) {
		if s.env[i] != "-" {
			if err := os.Setenv(k, w.subst(vUnhex(s.env[i]))); err != nil {
				return false
			}
		}
	}
	if s.tls {
		os.Setenv("OTEL_EXPORTER_OTLP_CERTIFICATE", w.caFile)
	}
	rc := e2eRetry{en: s.en, ini: 1, max: 1}
	switch s.msel {
	case "H":
		rc.maxEla = time.Hour
	case "T":
		rc.maxEla = 1
	}
	func() {
		defer func() {
			if r := recover(); r != nil {
				sd.res.buildErr = "panic"
			}
		}()
		var err error
		if sd.exp, err = e2eBuildTwo(w, s.exp, s.items, rc, s.bseed&3); err != nil {
			sd.res.buildErr = "err"
		}
	}()
	sd.res.built = sd.exp != nil
	return true
}

// start (if unstarted) and use one side, then collect what the collectors saw
func (sd *e2eTwoSide) use(w *e2eWorld, ctx context.Context, cancel context.CancelFunc) {
	res := sd.res
	for _, c := range w.cols {
		c.reset(sd.s.exp[0], res.httpScr, res.grpcScr, 0, cancel)
	}
	e2eTakeHandled()
	res.t0 = time.Now()
	if sd.exp.start != nil {
		if err := sd.exp.start(ctx); err != nil {
			res.exportErr = err
		}
	}
	if res.exportErr == nil {
		res.exportErr = sd.exp.export(ctx, res.batch)
	}
	res.tEnd = time.Now()
	res.handled = e2eTakeHandled()
	for i := 0; i < 50000; i++ {
		busy := false
		for _, c := range w.cols {
			busy = busy || !c.idle()
		}
		if !busy {
			break
		}
		time.Sleep(100 * time.Microsecond)
	}
	for _, c := range w.cols {
		c.mu.Lock()
		if len(c.attempts) > 0 || c.tlsHellos > 0 {
			res.hit = append(res.hit, c)
		}
		c.mu.Unlock()
	}
	if len(res.hit) == 1 {
		c := res.hit[0]
		res.col = c
		c.mu.Lock()
		res.attempts = append([]*e2eAttempt{}, c.attempts...)
		res.tlsHellos, res.exhausted = c.tlsHellos, c.exhausted
		c.mu.Unlock()
	}
}

// runTwo: construct C, construct D, then use C, then D.
func (w *e2eWorld) runTwo(c, d *e2eScenario) (*e2eResult, *e2eResult, bool) {
	sc, ok := w.prepTwo(c)
	if !ok {
		return nil, nil, false
	}
	sd, ok := w.prepTwo(d)
	if !ok {
		return nil, nil, false
	}
	ctx, cancel := context.WithCancel(context.Background())
	defer cancel()
	watchdog := time.AfterFunc(30*time.Second, cancel)
	defer watchdog.Stop()
	for _, col := range w.cols {
		col.reset(c.exp[0], nil, nil, 0, cancel)
	}
	if !sc.build(w) || !sd.build(w) {
		return nil, nil, false
	}
	for _, side := range []*e2eTwoSide{sc, sd} {
		if side.res.built {
			side.use(w, ctx, cancel)
		}
	}
	for _, side := range []*e2eTwoSide{sc, sd} {
		if side.res.built {
			sctx, scancel := context.WithTimeout(context.Background(), 5*time.Second)
			ts := time.Now()
			side.res.shutdownErr = side.exp.shutdown(sctx)
			side.res.shutdownDur = time.Since(ts)
			scancel()
		}
	}
	return sc.res, sd.res, true
}

// e2eTwoFixed: the C20-9 shape as fixed scenarios, addressed by small partner "seeds" (1..4) so that their lines replay
// alone: 3 (role C: gzip by option) pairs with 1 (role D: insecure + reconnection period, other collector, a header);
// 4 (role C: endpoint, header, gzip, timeout from the environment) pairs with 2 (role D: options only, service config,
// environment says `none`).
func e2eTwoFixed(exp string, k uint64) *e2eScenario {
	p := 1
	if exp[1] == 'g' {
		p = 4
	}
	noenv := e2eEnv("-", "-", "-", "-", "-", "-", "-", "-", "-", "-")
	mk := func(role byte, bseed, pseed uint64, items []c20Item, env []string) *e2eScenario {
		s := &e2eScenario{gen: "two", exp: exp, role: role, pgen: "two", pseed: pseed, items: items, env: env, msel: "0", script: []string{e2eOKResp(exp)}}
		s.bgen, _ = e2eSmallBatch(&vRand{s: 7}, exp)
		s.bseed = bseed // bseed&3 = gRPC layout extras: 1 reconnection period, 2 service config
		return s
	}
	switch k {
	case 1:
		return mk('D', 5, 3, []c20Item{{kind: 'E', s: e2ePlaceholder(p + 1)}, {kind: 'I'}, {kind: 'H', m: map[string]string{"d": "1"}}}, noenv)
	case 2:
		return mk('D', 6, 4, []c20Item{{kind: 'E', s: e2ePlaceholder(p)}, {kind: 'I'}, {kind: 'T', n: 9000000000}},
			e2eEnv("-", "-", "-", "-", "-", "-", "none", "-", "-", "-"))
	case 3:
		return mk('C', 4, 1, []c20Item{{kind: 'E', s: e2ePlaceholder(p)}, {kind: 'I'}, e2eComp(exp, true)}, noenv)
	case 4:
		return mk('C', 8, 2, nil, e2eEnv("http://"+e2ePlaceholder(p+2), "-", "-", "-", "c=1", "-", "gzip", "-", "7000", "-"))
	}
	return nil
}

func e2eTwoWitnesses() [][2]*e2eScenario {
	var out [][2]*e2eScenario
	for _, exp := range e2eExps {
		out = append(out, [2]*e2eScenario{e2eTwoFixed(exp, 3), e2eTwoFixed(exp, 1)}, [2]*e2eScenario{e2eTwoFixed(exp, 4), e2eTwoFixed(exp, 2)})
	}
	return out
}
