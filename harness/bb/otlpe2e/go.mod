module verif/otlpe2e

go 1.23.0

require (
	go.opentelemetry.io/otel v1.35.0
	go.opentelemetry.io/otel/exporters/otlp/otlplog/otlploggrpc v0.11.0
	go.opentelemetry.io/otel/exporters/otlp/otlplog/otlploghttp v0.11.0
	go.opentelemetry.io/otel/exporters/otlp/otlpmetric/otlpmetricgrpc v1.35.0
	go.opentelemetry.io/otel/exporters/otlp/otlpmetric/otlpmetrichttp v1.35.0
	go.opentelemetry.io/otel/exporters/otlp/otlptrace v1.35.0
	go.opentelemetry.io/otel/exporters/otlp/otlptrace/otlptracegrpc v1.35.0
	go.opentelemetry.io/otel/exporters/otlp/otlptrace/otlptracehttp v1.35.0
	go.opentelemetry.io/otel/log v0.11.0
	go.opentelemetry.io/otel/sdk v1.35.0
	go.opentelemetry.io/otel/sdk/log v0.11.0
	go.opentelemetry.io/otel/sdk/log/logtest v0.0.0-00000000000000-000000000000
	go.opentelemetry.io/otel/sdk/metric v1.35.0
	go.opentelemetry.io/otel/trace v1.35.0
	go.opentelemetry.io/proto/otlp v1.5.0
	google.golang.org/genproto/googleapis/rpc v0.0.0-20250414145226-207652e42e2e
	google.golang.org/grpc v1.71.1
	google.golang.org/protobuf v1.36.6
)

require (
	github.com/cenkalti/backoff/v5 v5.0.2 // indirect
	github.com/go-logr/logr v1.4.2 // indirect
	github.com/go-logr/stdr v1.2.2 // indirect
	github.com/google/uuid v1.6.0 // indirect
	github.com/grpc-ecosystem/grpc-gateway/v2 v2.26.1 // indirect
	go.opentelemetry.io/auto/sdk v1.1.0 // indirect
	go.opentelemetry.io/otel/metric v1.35.0 // indirect
	golang.org/x/net v0.39.0 // indirect
	golang.org/x/sys v0.32.0 // indirect
	golang.org/x/text v0.24.0 // indirect
	google.golang.org/genproto/googleapis/api v0.0.0-20250414145226-207652e42e2e // indirect
)

replace go.opentelemetry.io/otel => /repo

replace go.opentelemetry.io/otel/log => /repo/log

replace go.opentelemetry.io/otel/metric => /repo/metric

replace go.opentelemetry.io/otel/trace => /repo/trace

replace go.opentelemetry.io/otel/sdk => /repo/sdk

replace go.opentelemetry.io/otel/sdk/log => /repo/sdk/log

replace go.opentelemetry.io/otel/sdk/log/logtest => /repo/sdk/log/logtest

replace go.opentelemetry.io/otel/sdk/metric => /repo/sdk/metric

replace go.opentelemetry.io/otel/exporters/otlp/otlptrace => /repo/exporters/otlp/otlptrace

replace go.opentelemetry.io/otel/exporters/otlp/otlptrace/otlptracehttp => /repo/exporters/otlp/otlptrace/otlptracehttp

replace go.opentelemetry.io/otel/exporters/otlp/otlptrace/otlptracegrpc => /repo/exporters/otlp/otlptrace/otlptracegrpc

replace go.opentelemetry.io/otel/exporters/otlp/otlpmetric/otlpmetrichttp => /repo/exporters/otlp/otlpmetric/otlpmetrichttp

replace go.opentelemetry.io/otel/exporters/otlp/otlpmetric/otlpmetricgrpc => /repo/exporters/otlp/otlpmetric/otlpmetricgrpc

replace go.opentelemetry.io/otel/exporters/otlp/otlplog/otlploghttp => /repo/exporters/otlp/otlplog/otlploghttp

replace go.opentelemetry.io/otel/exporters/otlp/otlplog/otlploggrpc => /repo/exporters/otlp/otlplog/otlploggrpc
