// Shared helpers of the /verif correspondence harnesses. This file is injected (go test -overlay)
// next to each property's harness file; the package clause is rewritten by the runner.
package otlpe2e

import (
	"bufio"
	"encoding/hex"
	"fmt"
	"os"
	"strconv"
	"strings"
	"testing"
)

// vRand is a splitmix64 generator: every random choice of a harness derives from VERIF_SEED.
type vRand struct{ s uint64 }

func (r *vRand) U64() uint64 {
	r.s += 0x9e3779b97f4a7c15
	z := r.s
	z = (z ^ (z >> 30)) * 0xbf58476d1ce4e5b9
	z = (z ^ (z >> 27)) * 0x94d049bb133111eb
	return z ^ (z >> 31)
}
func (r *vRand) Intn(n int) int {
	if n <= 0 {
		return 0
	}
	return int(r.U64() % uint64(n))
}
func (r *vRand) Bool() bool { return r.U64()&1 == 1 }

// Pick returns one of xs.
func vPick[T any](r *vRand, xs []T) T { return xs[r.Intn(len(xs))] }

func vSeed() uint64 {
	s, err := strconv.ParseUint(os.Getenv("VERIF_SEED"), 10, 64)
	if err != nil {
		return 1
	}
	return s
}

func vN(def int) int {
	n, err := strconv.Atoi(os.Getenv("VERIF_N"))
	if err != nil || n <= 0 {
		return def
	}
	return n
}

func vHex(s string) string { return "x" + hex.EncodeToString([]byte(s)) }
func vHexB(b []byte) string { return "x" + hex.EncodeToString(b) }
func vUnhex(s string) string {
	b, err := hex.DecodeString(strings.TrimPrefix(s, "x"))
	if err != nil {
		panic("bad hex in replay: " + s)
	}
	return string(b)
}

// vOut is the trace writer; one line per case; `#END` sentinel on Close.
type vOut struct {
	f *os.File
	w *bufio.Writer
	n int
}

func vOpen(t testing.TB) *vOut {
	p := os.Getenv("VERIF_OUT")
	if p == "" {
		t.Skip("VERIF_OUT not set: not running under /verif/bin/check")
	}
	f, err := os.Create(p)
	if err != nil {
		t.Fatal(err)
	}
	return &vOut{f: f, w: bufio.NewWriterSize(f, 1<<20)}
}
func (o *vOut) Line(format string, a ...any) {
	fmt.Fprintf(o.w, format, a...)
	o.w.WriteByte('\n')
	o.n++
}
func (o *vOut) Flush() { o.w.Flush() }
func (o *vOut) Close() {
	fmt.Fprintf(o.w, "#END %d\n", o.n)
	o.w.Flush()
	o.f.Close()
}

// vReplayLines returns the input parts (text before " => ") of the lines of VERIF_REPLAY, or nil.
func vReplayLines() [][]string {
	p := os.Getenv("VERIF_REPLAY")
	if p == "" {
		return nil
	}
	b, err := os.ReadFile(p)
	if err != nil {
		panic(err)
	}
	out := [][]string{}
	for _, l := range strings.Split(string(b), "\n") {
		l = strings.TrimSpace(l)
		if l == "" || strings.HasPrefix(l, "#") {
			continue
		}
		if i := strings.Index(l, " => "); i >= 0 {
			l = l[:i]
		} else {
			l = strings.TrimSuffix(l, " =>")
		}
		out = append(out, strings.Fields(l))
	}
	return out
}

// vAlphabet: strings built around the branch points of the byte/rune handling code (DESIGN §3.3).
var vPieces = []string{
	"a", "b", "z", "0", "9", " ", "\t", "%", ",", ";", "=", "-", "_", "@",
	"š",     // 2-byte rune whose low byte is 'a' (0x61)
	"é",     // 2-byte
	"�",     // a VALID U+FFFD (3 bytes)
	"€",     // 3-byte
	"\U0001F600", // 4-byte (non-BMP)
	"\x80", "\xbf", "\xc5", "\xe2\x82", "\xf0\x9f\x98", "\xff", "\xc0\x80", "\xed\xa0\x80",
}

func vStr(r *vRand, maxPieces int) string {
	n := r.Intn(maxPieces + 1)
	var sb strings.Builder
	for i := 0; i < n; i++ {
		switch r.Intn(10) {
		case 0:
			sb.WriteByte(byte(r.Intn(256)))
		default:
			sb.WriteString(vPieces[r.Intn(len(vPieces))])
		}
	}
	return sb.String()
}

// vValidStr builds valid UTF-8 only.
var vValidPieces = []string{"a", "b", "z", "0", " ", "%", ",", ";", "=", "š", "é", "�", "€", "\U0001F600"}

func vValidStr(r *vRand, maxPieces int) string {
	n := r.Intn(maxPieces + 1)
	var sb strings.Builder
	for i := 0; i < n; i++ {
		sb.WriteString(vValidPieces[r.Intn(len(vValidPieces))])
	}
	return sb.String()
}

// os_exhaustive reports whether the thorough tier's exhaustive small-scope enumeration is requested.
func os_exhaustive() bool { return os.Getenv("VERIF_TIER") == "thorough" }
