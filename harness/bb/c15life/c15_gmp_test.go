// C15 harness, leg `tick`: a periodic reader whose TIMER-TICK collection is in flight in the run goroutine (parked inside an
// external Producer) while MeterProvider.Shutdown / PeriodicReader.Shutdown is called — also with an already-done context.
//
//	gmp <gen> <ctx> <via> => <exportsAfterShutdown> <exporterShutdowns> <returnedWhileParked> <result>
//
// ctx: b background, c cancelled, x expired; via: mp (provider Shutdown) / rd (reader Shutdown). Schedule: the first tick's
// collection parks inside Producer.Produce; Shutdown(ctx) is called; 150 ms later (has it returned while the collection
// was in flight?) the producer is released; the call is awaited; observed: Export calls the exporter saw AFTER its
// Shutdown, its Shutdown count, whether Shutdown returned before the run loop had finished, and the result class.
package c15life

import (
	"context"
	"errors"
	"sync"
	"sync/atomic"
	"testing"
	"time"

	sdkmetric "go.opentelemetry.io/otel/sdk/metric"
	"go.opentelemetry.io/otel/sdk/metric/metricdata"
)

type gmpExp struct {
	mu        sync.Mutex
	exports   int
	shutdowns int
	afterShut int
}

func (e *gmpExp) Temporality(sdkmetric.InstrumentKind) metricdata.Temporality {
	return metricdata.CumulativeTemporality
}
func (e *gmpExp) Aggregation(k sdkmetric.InstrumentKind) sdkmetric.Aggregation {
	return sdkmetric.DefaultAggregationSelector(k)
}
func (e *gmpExp) Export(context.Context, *metricdata.ResourceMetrics) error {
	e.mu.Lock()
	defer e.mu.Unlock()
	e.exports++
	if e.shutdowns > 0 {
		e.afterShut++
	}
	return nil
}
func (e *gmpExp) ForceFlush(context.Context) error { return nil }
func (e *gmpExp) Shutdown(context.Context) error {
	e.mu.Lock()
	defer e.mu.Unlock()
	e.shutdowns++
	return nil
}

// gmpProducer parks its FIRST Produce call (the tick's collection) until released; it ignores the context, as an
// external producer that is busy may.
type gmpProducer struct {
	first atomic.Bool
	in    chan struct{}
	rel   chan struct{}
}

func (p *gmpProducer) Produce(context.Context) ([]metricdata.ScopeMetrics, error) {
	if p.first.CompareAndSwap(false, true) {
		close(p.in)
		<-p.rel
	}
	return nil, nil
}

func gmpRun(ctxKind, via string) string {
	exp := &gmpExp{}
	prod := &gmpProducer{in: make(chan struct{}), rel: make(chan struct{})}
	rd := sdkmetric.NewPeriodicReader(exp, sdkmetric.WithInterval(5*time.Millisecond), sdkmetric.WithProducer(prod))
	mp := sdkmetric.NewMeterProvider(sdkmetric.WithReader(rd))
	select {
	case <-prod.in:
	case <-time.After(10 * time.Second):
		close(prod.rel)
		_ = mp.Shutdown(context.Background())
		return "- - - notick"
	}
	ctx, cancel := context.Background(), context.CancelFunc(func() {})
	switch ctxKind {
	case "c":
		ctx, cancel = context.WithCancel(ctx)
		cancel()
	case "x":
		ctx, cancel = context.WithDeadline(ctx, time.Now().Add(-time.Second))
	}
	defer cancel()
	done := make(chan error, 1)
	go func() {
		if via == "mp" {
			done <- mp.Shutdown(ctx)
		} else {
			done <- rd.Shutdown(ctx)
		}
	}()
	early := 0
	var err error
	returned := false
	select {
	case err = <-done:
		early, returned = 1, true
	case <-time.After(150 * time.Millisecond):
	}
	close(prod.rel)
	if !returned {
		select {
		case err = <-done:
		case <-time.After(5 * time.Second):
			return "- - - hang"
		}
	}
	// what the released collection still does arrives within moments (nothing, on a tree that waited for the loop)
	time.Sleep(30 * time.Millisecond)
	if via == "rd" {
		_ = mp.Shutdown(context.Background())
	}
	res := "ok"
	switch {
	case err == nil:
	case errors.Is(err, context.Canceled):
		res = "err:c"
	case errors.Is(err, context.DeadlineExceeded):
		res = "err:d"
	default:
		res = "err:o"
	}
	exp.mu.Lock()
	defer exp.mu.Unlock()
	return vItoa(exp.afterShut) + " " + vItoa(exp.shutdowns) + " " + vItoa(early) + " " + res
}

func vItoa(n int) string {
	if n == 0 {
		return "0"
	}
	s := ""
	for n > 0 {
		s = string(rune('0'+n%10)) + s
		n /= 10
	}
	return s
}

func TestVerifC15Tick(t *testing.T) {
	out := vOpen(t)
	defer out.Close()
	type cs struct{ ctx, via string }
	var cases []cs
	if rl := vReplayLines(); rl != nil {
		for _, toks := range rl {
			if len(toks) >= 4 && toks[0] == "gmp" {
				cases = append(cases, cs{toks[2], toks[3]})
			}
		}
	} else {
		for _, c := range []string{"c", "x", "b"} {
			for _, v := range []string{"mp", "rd"} {
				cases = append(cases, cs{c, v})
			}
		}
	}
	res := make([]string, len(cases))
	var wg sync.WaitGroup
	for i, c := range cases {
		wg.Add(1)
		go func(i int, c cs) { defer wg.Done(); res[i] = gmpRun(c.ctx, c.via) }(i, c)
	}
	wg.Wait()
	for i, c := range cases {
		out.Line("gmp tick %s %s => %s", c.ctx, c.via, res[i])
	}
}
