// C15 correspondence harness (black-box, public API of sdk/trace, sdk/log, sdk/metric).
//
// Parent test: generates (or replays) scripts, runs them in CHILD PROCESSES (this test binary re-executed with
// C15_CHILD_IN/C15_CHILD_OUT) in batches; a batch whose child crashed or timed out is re-run script by script, a
// crash/timeout of a single script is the observation `panic` / `hang` appended to the observations made so far.
//
// Line kinds (one self-contained script per line):
//
//		tp <gen> <kinds> <opt> | reg:i unr:i sd:c ff:c tr:k st:k:j en:j sp:k psd:i … => <obs> …
//		etp <gen> <kinds> | <tp ops> … => <obs> …      callback RESULTS as a script dimension: pools with `re` processors — a
//		               recording user processor whose Shutdown and ForceFlush return a non-nil error (after counting) —, `sre` / `bre`
//		               (simple / batch processor around a recording exporter whose ExportSpans and Shutdown return an error); the result
//		               class of a call that returns such an error is `err:o`; replayed on Err.stepE (lean/Otel/C15/Err.lean)
//		elp <gen> <kinds> | <lp ops> … => <obs> …      the same for the logger provider: `re` = recording log processor whose OnEmit /
//		               ForceFlush / Shutdown return an error, `sre` / `bre` = simple / batch log processor around a recording
//		               exporter whose Export / ForceFlush / Shutdown return an error; replayed on LErr.stepE (ErrLP.lean)
//		emp <gen> <kinds> | <mp ops> … => <obs> …      the same for the meter provider: periodic readers around a recording exporter
//		               with PER-CALLBACK error kinds: `pe` Export errs, `pf` ForceFlush errs, `ps` Shutdown errs, `pa` all three;
//		               live contexts only; replayed on MErr.stepE (ErrMP.lean)
//		gtp <gen> <kinds> | <tp ops> endg:j:k <tp ops> rel … => <obs> …     forced schedule: `endg:j:k` Ends span slot j in a
//		               goroutine whose delivery parks inside OnEnd of recording processor k (obs `parked…`; `-…` if the End
//		               ran through), the following ops run while that End is mid-delivery, `rel` releases it and waits for
//		               the End to return (a panic inside End is recovered and observed as `panic`)
//		ptp <gen> <kinds> | <tp ops> ffpark:p|ffpark:i <tp ops> rel … => <obs> …   forced schedule at the verifPoint hooks of sdk/trace
//		               (leg `park`, built with -tags verif): `ffpark:p` calls TracerProvider.ForceFlush(background), `ffpark:i`
//		               pool[i].ForceFlush(background), in a goroutine that parks at `bsp.ForceFlush.checked` of the first batch
//		               processor it reaches that is not stopped — i.e. BETWEEN that processor's stopped check and the enqueue of
//		               its flush marker (obs `parked…`; the plain result if no processor parked it); the following ops run while
//		               it is parked (Shutdown / Unregister / direct processor Shutdown complete meanwhile, further End calls, a
//		               second ForceFlush), `rel` releases it and waits for the ForceFlush to return (obs = its result + deltas;
//		               a ForceFlush that never returns is caught by the per-script watchdog: `hang`)
//		lp <gen> <kinds> | lg:k em:k ff:c sd:c … => <obs> …
//		mp <gen> <kinds> | mt:k ad:k co:i ff:c sd:c … => <obs> …
//		ctp|clp|cmp <gen> <kinds> | <prefix ops> ! <ops run by concurrent callers> ! <suffix ops>
//		               => <prefix obs> ! <results of the callers> ! <one obs: deltas over the concurrent phase> ! <suffix obs>
//
//	  rtp|rlp|rmp <gen> <kinds with hooks> | <ops> => <obs> …                 RE-ENTRANT user callbacks: a component `k@c=act[@c=act…]`
//	                 runs `act` from inside its callback `c` — callbacks: a OnStart, e OnEnd/OnEmit, f ForceFlush, s Shutdown,
//	                 x Export (exporters of sr/br/p); actions: sp start+end a span / em emit a record / ad Add(1) with a tracer /
//	                 logger / counter obtained right after the provider was built, ff provider.ForceFlush(background). Hooks run
//	                 only at depth 0 (a hook's own telemetry does not trigger hooks). Every call must return: the child's
//	                 watchdog turns a script that does not finish within 3 s (6 s when confirming) into the observation `hang`.
//
// kinds: comma list; trace/log: r sr sn br bn (recording processor, simple/batch around a recording / nil exporter);
//
//	       a nil-exporter batch processor may carry constructor options after `+`: b WithBlocking (spans only),
//	       q queue size 2 / export batch size 1, t 1 ms batch timeout / export interval, u export buffer size 1 (logs only)
//	       — e.g. `bn+bq`; the options do not change what is observable (nothing), only which code path could crash;
//
//		metric: m p (manual reader, periodic reader around a recording exporter); `-` = none
//
// contexts c: b background, f live with a far deadline, c already cancelled, e 1 ms timeout that has expired
// every script (not the concurrent variant) ends with one more observation, the SETTLE: `settle[;deltas]` — after the last op
//
//	the harness waits until every goroutine the calls started has finished (trace provider: until the exporter of every
//	stock processor that was taken out of service has been shut down — a wait for a condition with a 3 s limit that is
//	only hit on failure, marked `settle!`; log/metric: until the counters have been quiet for 3 ms) and reports what
//	arrived since the last op
//
// obs: <res>[;<i>.<field><delta>…]…   res: - ok err:<flags c d s o> sdk noop v<total> panic hang
//
//	fields: a OnStart, e OnEnd/OnEmit, f ForceFlush, s Shutdown, n items exported (metric: Export calls);
//	for stock processors the counters are those of their recording exporter.
package c15life

import (
	"context"
	"errors"
	"fmt"
	"os"
	"os/exec"
	"strconv"
	"strings"
	"sync"
	"sync/atomic"
	"testing"
	"time"

	"go.opentelemetry.io/otel"
	otellog "go.opentelemetry.io/otel/log"
	lognoop "go.opentelemetry.io/otel/log/noop"
	"go.opentelemetry.io/otel/metric"
	metricnoop "go.opentelemetry.io/otel/metric/noop"
	sdklog "go.opentelemetry.io/otel/sdk/log"
	sdkmetric "go.opentelemetry.io/otel/sdk/metric"
	"go.opentelemetry.io/otel/sdk/metric/metricdata"
	sdktrace "go.opentelemetry.io/otel/sdk/trace"
	"go.opentelemetry.io/otel/trace"
	tracenoop "go.opentelemetry.io/otel/trace/noop"
)

// ---------------------------------------------------------------- recording components

type cnt struct{ a, e, f, s, n atomic.Int64 }

func (c *cnt) snap() [5]int64 {
	return [5]int64{c.a.Load(), c.e.Load(), c.f.Load(), c.s.Load(), c.n.Load()}
}

// gateCtl parks ONE OnEnd call of the armed recording processor until released.
type gateCtl struct {
	armed   atomic.Int32 // pool index + 1 of the processor whose next OnEnd parks; 0 = none
	parked  chan struct{}
	release chan struct{}
}

// parkCtl parks ONE goroutine at a named verifPoint hook of sdk/trace (one-shot arming; build tag verif only: without the
// tag the hooks are compiled out, setVerifHook is nil and `ffpark` never parks).
type parkCtl struct {
	name    string       // written before armed.Store(1)
	armed   atomic.Int32 // 1 = the next call of hook `name` parks
	parked  chan struct{}
	release chan struct{}
}

// setVerifHook installs fn as sdktrace.VerifPointFn (c15_park_test.go, build tag verif); nil otherwise.
var setVerifHook func(fn func(name string))

// curPark is the parkCtl of the script being executed (the hook variable of sdk/trace is global and set once).
var curPark atomic.Pointer[parkCtl]
var verifHookOnce sync.Once

func verifHook(name string) {
	pc := curPark.Load()
	if pc == nil || pc.armed.Load() != 1 || pc.name != name {
		return
	}
	if pc.armed.CompareAndSwap(1, 0) {
		pc.parked <- struct{}{}
		<-pc.release
	}
}

// hookCtl: re-entrant user callbacks. A component with hooks runs the action named for a callback from inside that
// callback — only at depth 0, so that the telemetry a hook produces does not trigger hooks again.
type hookCtl struct {
	depth atomic.Int32
	do    func(action string)
}

type hooks struct {
	m  map[byte]string
	hk *hookCtl
}

func (h hooks) fire(cb byte) {
	if h.hk == nil || h.m == nil {
		return
	}
	if act, ok := h.m[cb]; ok && h.hk.depth.CompareAndSwap(0, 1) {
		h.hk.do(act)
		h.hk.depth.Store(0)
	}
}

// parseHooks splits `sr@s=sp@x=ff` into the kind and its hooks.
func parseHooks(kk string, hk *hookCtl) (string, hooks) {
	parts := strings.Split(kk, "@")
	h := hooks{hk: hk}
	for _, p := range parts[1:] {
		if len(p) >= 3 && p[1] == '=' {
			if h.m == nil {
				h.m = map[byte]string{}
			}
			h.m[p[0]] = p[2:]
		}
	}
	return parts[0], h
}

type recSpanProc struct {
	c    *cnt
	idx  int
	g    *gateCtl
	h    hooks
	fail bool // kind `re`: Shutdown and ForceFlush report an error
}

var errBoom = errors.New("boom")

func (p recSpanProc) result() error {
	if p.fail {
		return errBoom
	}
	return nil
}

func (p recSpanProc) OnStart(context.Context, sdktrace.ReadWriteSpan) { p.c.a.Add(1); p.h.fire('a') }
func (p recSpanProc) OnEnd(sdktrace.ReadOnlySpan) {
	p.c.e.Add(1)
	if p.g != nil && p.g.armed.CompareAndSwap(int32(p.idx+1), 0) {
		p.g.parked <- struct{}{}
		<-p.g.release
	}
	p.h.fire('e')
}
func (p recSpanProc) ForceFlush(context.Context) error { p.c.f.Add(1); p.h.fire('f'); return p.result() }
func (p recSpanProc) Shutdown(context.Context) error   { p.c.s.Add(1); p.h.fire('s'); return p.result() }

type recSpanExp struct {
	c    *cnt
	h    hooks
	fail bool // kinds `sre` / `bre`: ExportSpans and Shutdown report an error (after counting)
}

func (x recSpanExp) result() error {
	if x.fail {
		return errBoom
	}
	return nil
}

func (x recSpanExp) ExportSpans(_ context.Context, s []sdktrace.ReadOnlySpan) error {
	x.c.n.Add(int64(len(s)))
	x.h.fire('x')
	return x.result()
}
func (x recSpanExp) Shutdown(context.Context) error { x.c.s.Add(1); x.h.fire('s'); return x.result() }

type recLogProc struct {
	c    *cnt
	h    hooks
	fail bool // kind `re`: OnEmit, ForceFlush and Shutdown report an error (after counting)
}

func boomIf(fail bool) error {
	if fail {
		return errBoom
	}
	return nil
}

func (p recLogProc) OnEmit(context.Context, *sdklog.Record) error {
	p.c.e.Add(1)
	p.h.fire('e')
	return boomIf(p.fail)
}
func (p recLogProc) ForceFlush(context.Context) error {
	p.c.f.Add(1)
	p.h.fire('f')
	return boomIf(p.fail)
}
func (p recLogProc) Shutdown(context.Context) error { p.c.s.Add(1); p.h.fire('s'); return boomIf(p.fail) }

type recLogExp struct {
	c    *cnt
	h    hooks
	fail bool // kinds `sre` / `bre`: Export, ForceFlush and Shutdown report an error (after counting)
}

func (x recLogExp) Export(_ context.Context, r []sdklog.Record) error {
	x.c.n.Add(int64(len(r)))
	x.h.fire('x')
	return boomIf(x.fail)
}
func (x recLogExp) ForceFlush(context.Context) error {
	x.c.f.Add(1)
	x.h.fire('f')
	return boomIf(x.fail)
}
func (x recLogExp) Shutdown(context.Context) error { x.c.s.Add(1); x.h.fire('s'); return boomIf(x.fail) }

type recMetricExp struct {
	c                   *cnt
	h                   hooks
	failX, failF, failS bool // kinds `pe` / `pf` / `ps` / `pa`: Export / ForceFlush / Shutdown report an error (after counting)
}

func (x recMetricExp) Temporality(sdkmetric.InstrumentKind) metricdata.Temporality {
	return metricdata.CumulativeTemporality
}
func (x recMetricExp) Aggregation(k sdkmetric.InstrumentKind) sdkmetric.Aggregation {
	return sdkmetric.DefaultAggregationSelector(k)
}
func (x recMetricExp) Export(context.Context, *metricdata.ResourceMetrics) error {
	x.c.n.Add(1)
	x.h.fire('x')
	return boomIf(x.failX)
}
func (x recMetricExp) ForceFlush(context.Context) error {
	x.c.f.Add(1)
	x.h.fire('f')
	return boomIf(x.failF)
}
func (x recMetricExp) Shutdown(context.Context) error { x.c.s.Add(1); x.h.fire('s'); return boomIf(x.failS) }

// ---------------------------------------------------------------- helpers

func mkCtx(c string) (context.Context, context.CancelFunc) {
	switch c {
	case "f":
		return context.WithTimeout(context.Background(), time.Hour)
	case "c":
		ctx, cancel := context.WithCancel(context.Background())
		cancel()
		return ctx, cancel
	case "e":
		ctx, cancel := context.WithTimeout(context.Background(), time.Millisecond)
		<-ctx.Done()
		return ctx, cancel
	}
	return context.Background(), func() {}
}

func resOf(err error) string {
	if err == nil {
		return "ok"
	}
	f := ""
	if errors.Is(err, context.Canceled) {
		f += "c"
	}
	if errors.Is(err, context.DeadlineExceeded) {
		f += "d"
	}
	if errors.Is(err, sdkmetric.ErrReaderShutdown) {
		f += "s"
	}
	if f == "" {
		f = "o"
	}
	return "err:" + f
}

type world struct {
	cs   []*cnt
	prev [][5]int64
}

func newWorld(n int) *world {
	w := &world{}
	for i := 0; i < n; i++ {
		w.cs = append(w.cs, &cnt{})
		w.prev = append(w.prev, [5]int64{})
	}
	return w
}

// quiesce waits until no counter has moved for 3 ms (asynchronous export goroutines of the batch log processor /
// periodic reader after a call that returned early on a done context).
func (w *world) quiesce() {
	if os.Getenv("C15_NO_QUIESCE") == "1" {
		return // self-test of the late-arrival model (Lag.lean): let exports arrive whenever they do
	}
	last := w.all()
	stable := time.Now()
	deadline := time.Now().Add(300 * time.Millisecond)
	for time.Now().Before(deadline) {
		time.Sleep(500 * time.Microsecond)
		cur := w.all()
		if cur != last {
			last, stable = cur, time.Now()
		} else if time.Since(stable) > 3*time.Millisecond {
			return
		}
	}
}
func (w *world) all() string {
	var sb strings.Builder
	for _, c := range w.cs {
		fmt.Fprint(&sb, c.snap())
	}
	return sb.String()
}

// obs renders the result plus the counter deltas since the previous observation.
func (w *world) obs(res string) string {
	var sb strings.Builder
	sb.WriteString(res)
	for i, c := range w.cs {
		cur := c.snap()
		if cur != w.prev[i] {
			fmt.Fprintf(&sb, ";%d", i)
			for j, name := range []string{"a", "e", "f", "s", "n"} {
				if d := cur[j] - w.prev[i][j]; d != 0 {
					fmt.Fprintf(&sb, ".%s%d", name, d)
				}
			}
			w.prev[i] = cur
		}
	}
	return sb.String()
}

func splitKinds(s string) []string {
	if s == "-" || s == "" {
		return nil
	}
	return strings.Split(s, ",")
}

func atoi(s string) int { n, _ := strconv.Atoi(s); return n }

// runner executes the ops of one script; emit receives one observation token per op.
type runner interface {
	op(tok string) string // returns the result token
	track(tok string)     // bookkeeping for the settle wait (also for ops executed through constructor options)
	settle() bool         // wait until everything the calls started has finished; true = timed out
	close()
}

// settleTimeouts counts settle waits that hit their limit in this process: after two of them the limit is cut to 30 ms
// (the tree is broken, the verdict is certain, do not spend 3 s on every further script).
var settleTimeouts int

func settleLimit() time.Duration {
	if settleTimeouts >= 2 {
		return 30 * time.Millisecond
	}
	return 3 * time.Second
}

// ---------------------------------------------------------------- trace provider

type tpRun struct {
	w       *world
	tp      *sdktrace.TracerProvider
	pool    []sdktrace.SpanProcessor
	kinds   []string
	tracers map[int]trace.Tracer
	spans   map[int]trace.Span
	gate    *gateCtl
	fly     chan string // result channel of the parked End, nil if none
	park    *parkCtl
	pfly    chan string // result channel of the ForceFlush parked at a verifPoint hook, nil if none
	// bookkeeping for the settle wait only (never used for judging): registrations, provider shut down, processors whose
	// exporter has to be shut down eventually
	regs []int
	shut bool
	must []bool
	// re-entrant callbacks
	hk         *hookCtl
	hookTracer trace.Tracer
}

func newTP(kinds []string, optN int, ops []string) (*tpRun, int) {
	r := &tpRun{w: newWorld(len(kinds)), kinds: kinds, tracers: map[int]trace.Tracer{}, spans: map[int]trace.Span{},
		regs: make([]int, len(kinds)), must: make([]bool, len(kinds)),
		gate: &gateCtl{parked: make(chan struct{}), release: make(chan struct{})}}
	r.park = &parkCtl{parked: make(chan struct{}), release: make(chan struct{})}
	curPark.Store(r.park)
	if setVerifHook != nil {
		verifHookOnce.Do(func() { setVerifHook(verifHook) })
	}
	far := sdktrace.WithBatchTimeout(time.Hour)
	r.hk = &hookCtl{do: func(act string) {
		switch act {
		case "sp":
			_, s := r.hookTracer.Start(context.Background(), "h")
			s.End()
		case "ff":
			r.tp.ForceFlush(context.Background())
		}
	}}
	r.kinds = make([]string, len(kinds))
	for i, kk := range kinds {
		var p sdktrace.SpanProcessor
		kk, h := parseHooks(kk, r.hk)
		k, kopts, _ := strings.Cut(kk, "+")
		r.kinds[i] = k
		switch k {
		case "sr":
			p = sdktrace.NewSimpleSpanProcessor(recSpanExp{c: r.w.cs[i], h: h})
		case "sre":
			p = sdktrace.NewSimpleSpanProcessor(recSpanExp{c: r.w.cs[i], h: h, fail: true})
		case "bre":
			p = sdktrace.NewBatchSpanProcessor(recSpanExp{c: r.w.cs[i], h: h, fail: true}, far)
		case "sn":
			p = sdktrace.NewSimpleSpanProcessor(nil)
		case "br":
			p = sdktrace.NewBatchSpanProcessor(recSpanExp{c: r.w.cs[i], h: h}, far)
		case "bn":
			bo := []sdktrace.BatchSpanProcessorOption{far}
			if strings.Contains(kopts, "t") {
				bo = []sdktrace.BatchSpanProcessorOption{sdktrace.WithBatchTimeout(time.Millisecond)}
			}
			if strings.Contains(kopts, "b") {
				bo = append(bo, sdktrace.WithBlocking())
			}
			if strings.Contains(kopts, "q") {
				bo = append(bo, sdktrace.WithMaxQueueSize(2), sdktrace.WithMaxExportBatchSize(1))
			}
			p = sdktrace.NewBatchSpanProcessor(nil, bo...)
		case "re":
			p = &recSpanProc{c: r.w.cs[i], idx: i, g: r.gate, h: h, fail: true}
		default:
			p = &recSpanProc{c: r.w.cs[i], idx: i, g: r.gate, h: h}
		}
		r.pool = append(r.pool, p)
	}
	// opt=1: the leading run of reg ops is passed as WithSpanProcessor options to the constructor
	var opts []sdktrace.TracerProviderOption
	used := 0
	if optN == 1 {
		for _, o := range ops {
			if !strings.HasPrefix(o, "reg:") {
				break
			}
			i := atoi(o[4:])
			if i >= len(r.pool) {
				break
			}
			opts = append(opts, sdktrace.WithSpanProcessor(r.pool[i]))
			used++
		}
	}
	r.tp = sdktrace.NewTracerProvider(opts...)
	r.hookTracer = r.tp.Tracer("hook") // obtained before any op: stays an SDK tracer after Shutdown
	return r, used
}

func (r *tpRun) op(tok string) string {
	p := strings.Split(tok, ":")
	arg := func(i int) int {
		if i < len(p) {
			return atoi(p[i])
		}
		return 0
	}
	switch p[0] {
	case "reg":
		if arg(1) < len(r.pool) {
			r.tp.RegisterSpanProcessor(r.pool[arg(1)])
		}
		return "-"
	case "unr":
		if arg(1) < len(r.pool) {
			r.tp.UnregisterSpanProcessor(r.pool[arg(1)])
		}
		return "-"
	case "sd":
		ctx, cancel := mkCtx(p[1])
		defer cancel()
		err := r.tp.Shutdown(ctx)
		if ctx.Err() != nil {
			// the stock processors finish their shutdown in goroutines that may outlive the call
			r.w.quiesce()
		}
		return resOf(err)
	case "ff":
		ctx, cancel := mkCtx(p[1])
		defer cancel()
		return resOf(r.tp.ForceFlush(ctx))
	case "tr":
		t := r.tp.Tracer("t" + p[1])
		r.tracers[arg(1)] = t
		if _, ok := t.(tracenoop.Tracer); ok {
			return "noop"
		}
		return "sdk"
	case "st":
		if t, ok := r.tracers[arg(1)]; ok {
			_, s := t.Start(context.Background(), "s")
			r.spans[arg(2)] = s
		}
		return "-"
	case "en":
		if s, ok := r.spans[arg(1)]; ok {
			s.End()
		}
		return "-"
	case "sp":
		if t, ok := r.tracers[arg(1)]; ok {
			_, s := t.Start(context.Background(), "s")
			s.End()
		}
		return "-"
	case "endg":
		s, ok := r.spans[arg(1)]
		if !ok {
			return "-"
		}
		if r.fly != nil { // one gate at a time: an ordinary End
			s.End()
			return "-"
		}
		k := arg(2)
		if k < len(r.kinds) && r.kinds[k] == "r" {
			r.gate.armed.Store(int32(k + 1))
		}
		done := make(chan string, 1)
		go func() {
			defer func() {
				if x := recover(); x != nil {
					done <- "panic"
					return
				}
				done <- "-"
			}()
			s.End()
		}()
		select {
		case <-r.gate.parked:
			r.fly = done
			return "parked"
		case msg := <-done:
			r.gate.armed.Store(0)
			return msg
		}
	case "ffpark":
		var call func() error
		if p[1] == "p" {
			call = func() error { return r.tp.ForceFlush(context.Background()) }
		} else if arg(1) < len(r.pool) {
			sp := r.pool[arg(1)]
			call = func() error { return sp.ForceFlush(context.Background()) }
		} else {
			return "ok"
		}
		if r.pfly != nil { // one parked call at a time: an ordinary ForceFlush
			return resOf(call())
		}
		r.park.name = "bsp.ForceFlush.checked"
		r.park.armed.Store(1)
		done := make(chan string, 1)
		go func() { done <- resOf(call()) }()
		select {
		case <-r.park.parked:
			r.pfly = done
			return "parked"
		case msg := <-done:
			r.park.armed.Store(0)
			return msg
		}
	case "rel":
		if r.pfly != nil {
			r.park.release <- struct{}{}
			msg := <-r.pfly // a ForceFlush that never returns: the script's watchdog fires (observation `hang`)
			r.pfly = nil
			return msg
		}
		if r.fly == nil {
			return "-"
		}
		r.gate.release <- struct{}{}
		msg := <-r.fly
		r.fly = nil
		return msg
	case "psd":
		if arg(1) < len(r.pool) {
			return resOf(r.pool[arg(1)].Shutdown(context.Background()))
		}
		return "ok"
	}
	return "?"
}

func (r *tpRun) track(tok string) {
	p := strings.Split(tok, ":")
	i := 0
	if len(p) > 1 {
		i = atoi(p[1])
	}
	switch p[0] {
	case "reg":
		if !r.shut && i < len(r.regs) {
			r.regs[i]++
		}
	case "unr":
		if !r.shut && i < len(r.regs) && r.regs[i] > 0 {
			r.regs[i]--
			r.must[i] = true
		}
	case "sd":
		if !r.shut {
			r.shut = true
			for j := range r.regs {
				if r.regs[j] > 0 {
					r.must[j] = true
					r.regs[j] = 0
				}
			}
		}
	case "psd":
		if i < len(r.must) {
			r.must[i] = true
		}
	}
}

// settle waits until the exporter of every stock processor that was taken out of service has been shut down (the batch
// processor's drain runs before that in the same goroutine, so its exports are in then).
func (r *tpRun) settle() bool {
	done := func() bool {
		for i, k := range r.kinds {
			if r.must[i] && (k == "sr" || k == "br" || k == "sre" || k == "bre") && r.w.cs[i].s.Load() < 1 {
				return false
			}
		}
		return true
	}
	deadline := time.Now().Add(settleLimit())
	for !done() {
		if time.Now().After(deadline) {
			settleTimeouts++
			return true
		}
		time.Sleep(200 * time.Microsecond)
	}
	return false
}

func (r *tpRun) close() {
	if r.pfly != nil {
		r.park.release <- struct{}{}
		select {
		case <-r.pfly:
		case <-time.After(200 * time.Millisecond):
		}
		r.pfly = nil
	}
	r.park.armed.Store(0)
	if r.fly != nil {
		r.gate.release <- struct{}{}
		<-r.fly
		r.fly = nil
	}
	r.tp.Shutdown(context.Background())
	for _, p := range r.pool {
		p.Shutdown(context.Background())
	}
}

// ---------------------------------------------------------------- logger provider

type lpRun struct {
	w          *world
	lp         *sdklog.LoggerProvider
	loggers    map[int]otellog.Logger
	fuzzy      bool
	raced      bool // a ForceFlush / Shutdown with a done context has been made
	hk         *hookCtl
	hookLogger otellog.Logger
}

func (r *lpRun) track(tok string) {
	if strings.HasSuffix(tok, ":c") || strings.HasSuffix(tok, ":e") {
		r.raced = true
	}
}

// settle: whatever a raced call left in the export buffer may still arrive (or never, if it was cut off): wait for quiet.
func (r *lpRun) settle() bool {
	if r.fuzzy && r.raced {
		r.w.quiesce()
	}
	return false
}

func newLP(kinds []string) *lpRun {
	r := &lpRun{w: newWorld(len(kinds)), loggers: map[int]otellog.Logger{}}
	var opts []sdklog.LoggerProviderOption
	far := sdklog.WithExportInterval(time.Hour)
	r.hk = &hookCtl{do: func(act string) {
		switch act {
		case "em":
			var rec otellog.Record
			rec.SetBody(otellog.StringValue("h"))
			r.hookLogger.Emit(context.Background(), rec)
		case "ff":
			r.lp.ForceFlush(context.Background())
		}
	}}
	for i, kk := range kinds {
		var p sdklog.Processor
		kk, h := parseHooks(kk, r.hk)
		k, kopts, _ := strings.Cut(kk, "+")
		switch k {
		case "sr":
			p = sdklog.NewSimpleProcessor(recLogExp{c: r.w.cs[i], h: h})
		case "sre":
			p = sdklog.NewSimpleProcessor(recLogExp{c: r.w.cs[i], h: h, fail: true})
		case "bre":
			p = sdklog.NewBatchProcessor(recLogExp{c: r.w.cs[i], h: h, fail: true}, far)
			r.fuzzy = true
		case "re":
			p = recLogProc{c: r.w.cs[i], h: h, fail: true}
		case "sn":
			p = sdklog.NewSimpleProcessor(nil)
		case "br":
			p = sdklog.NewBatchProcessor(recLogExp{c: r.w.cs[i], h: h}, far)
			r.fuzzy = true
		case "bn":
			bo := []sdklog.BatchProcessorOption{far}
			if strings.Contains(kopts, "t") {
				bo = []sdklog.BatchProcessorOption{sdklog.WithExportInterval(time.Millisecond)}
			}
			if strings.Contains(kopts, "q") {
				bo = append(bo, sdklog.WithMaxQueueSize(2), sdklog.WithExportMaxBatchSize(1))
			}
			if strings.Contains(kopts, "u") {
				bo = append(bo, sdklog.WithExportBufferSize(1))
			}
			p = sdklog.NewBatchProcessor(nil, bo...)
			r.fuzzy = true
		default:
			p = recLogProc{c: r.w.cs[i], h: h}
		}
		opts = append(opts, sdklog.WithProcessor(p))
	}
	r.lp = sdklog.NewLoggerProvider(opts...)
	r.hookLogger = r.lp.Logger("hook")
	return r
}

func (r *lpRun) op(tok string) string {
	p := strings.Split(tok, ":")
	k := 0
	if len(p) > 1 {
		k = atoi(p[1])
	}
	switch p[0] {
	case "lg":
		l := r.lp.Logger("l" + p[1])
		r.loggers[k] = l
		if _, ok := l.(lognoop.Logger); ok {
			return "noop"
		}
		return "sdk"
	case "em":
		if l, ok := r.loggers[k]; ok {
			var rec otellog.Record
			rec.SetBody(otellog.StringValue("x"))
			l.Emit(context.Background(), rec)
		}
		return "-"
	case "ff", "sd":
		ctx, cancel := mkCtx(p[1])
		defer cancel()
		var err error
		if p[0] == "ff" {
			err = r.lp.ForceFlush(ctx)
		} else {
			err = r.lp.Shutdown(ctx)
		}
		if r.fuzzy && ctx.Err() != nil {
			r.w.quiesce()
		}
		return resOf(err)
	}
	return "?"
}

func (r *lpRun) close() { r.lp.Shutdown(context.Background()) }

// ---------------------------------------------------------------- meter provider

type mpRun struct {
	w           *world
	mp          *sdkmetric.MeterProvider
	readers     []sdkmetric.Reader
	meters      map[int]metric.Meter
	fuzzy       bool
	raced       bool
	hk          *hookCtl
	hookCounter metric.Int64Counter
}

func (r *mpRun) track(tok string) {
	if strings.HasSuffix(tok, ":c") || strings.HasSuffix(tok, ":e") {
		r.raced = true
	}
}

func (r *mpRun) settle() bool {
	if r.fuzzy && r.raced {
		r.w.quiesce()
	}
	return false
}

func newMP(kinds []string) *mpRun {
	r := &mpRun{w: newWorld(len(kinds)), meters: map[int]metric.Meter{}}
	var opts []sdkmetric.Option
	r.hk = &hookCtl{do: func(act string) {
		switch act {
		case "ad":
			r.hookCounter.Add(context.Background(), 1)
		case "ff":
			r.mp.ForceFlush(context.Background())
		}
	}}
	for i, kk := range kinds {
		var rd sdkmetric.Reader
		k, h := parseHooks(kk, r.hk)
		if k == "p" || k == "pe" || k == "pf" || k == "ps" || k == "pa" {
			ex := recMetricExp{c: r.w.cs[i], h: h, failX: k == "pe" || k == "pa", failF: k == "pf" || k == "pa",
				failS: k == "ps" || k == "pa"}
			rd = sdkmetric.NewPeriodicReader(ex, sdkmetric.WithInterval(time.Hour))
			r.fuzzy = true
		} else {
			rd = sdkmetric.NewManualReader()
		}
		r.readers = append(r.readers, rd)
		opts = append(opts, sdkmetric.WithReader(rd))
	}
	r.mp = sdkmetric.NewMeterProvider(opts...)
	r.hookCounter, _ = r.mp.Meter("hook").Int64Counter("h")
	return r
}

func (r *mpRun) op(tok string) string {
	p := strings.Split(tok, ":")
	k := 0
	if len(p) > 1 {
		k = atoi(p[1])
	}
	switch p[0] {
	case "mt":
		m := r.mp.Meter("m" + p[1])
		r.meters[k] = m
		if _, ok := m.(metricnoop.Meter); ok {
			return "noop"
		}
		return "sdk"
	case "ad":
		if m, ok := r.meters[k]; ok {
			c, err := m.Int64Counter("c")
			if err != nil {
				return "err:o"
			}
			c.Add(context.Background(), 1)
		}
		return "-"
	case "co":
		if k >= len(r.readers) {
			return "-"
		}
		var rm metricdata.ResourceMetrics
		if err := r.readers[k].Collect(context.Background(), &rm); err != nil {
			return resOf(err)
		}
		var tot int64
		for _, sm := range rm.ScopeMetrics {
			for _, m := range sm.Metrics {
				if s, ok := m.Data.(metricdata.Sum[int64]); ok {
					for _, dp := range s.DataPoints {
						tot += dp.Value
					}
				}
			}
		}
		return "v" + strconv.FormatInt(tot, 10)
	case "ff", "sd":
		ctx, cancel := mkCtx(p[1])
		defer cancel()
		var err error
		if p[0] == "ff" {
			err = r.mp.ForceFlush(ctx)
		} else {
			err = r.mp.Shutdown(ctx)
		}
		if r.fuzzy && ctx.Err() != nil {
			r.w.quiesce()
		}
		return resOf(err)
	}
	return "?"
}

func (r *mpRun) close() { r.mp.Shutdown(context.Background()) }

// ---------------------------------------------------------------- script execution (child side)

// runScript executes the input tokens of one line; emit is called with every observation token as soon as it
// exists (so that a crash leaves the observations made so far behind).
func runScript(toks []string, emit func(string)) {
	kind := toks[0]
	bar := 0
	for i, t := range toks {
		if t == "|" {
			bar = i
			break
		}
	}
	if bar < 3 {
		emit("?")
		return
	}
	kinds := splitKinds(toks[2])
	ops := toks[bar+1:]
	var r runner
	var w *world
	skip := 0
	base := strings.TrimPrefix(strings.TrimPrefix(strings.TrimPrefix(kind, "c"), "g"), "r")
	if kind == "ptp" || kind == "etp" {
		base = "tp"
	}
	if kind == "elp" {
		base = "lp"
	}
	if kind == "emp" {
		base = "mp"
	}
	switch base {
	case "tp":
		optN := 0
		if bar > 3 {
			optN = atoi(toks[3])
		}
		if kind != "tp" {
			optN = 0
		}
		t, used := newTP(kinds, optN, ops)
		r, w, skip = t, t.w, used
	case "lp":
		l := newLP(kinds)
		r, w = l, l.w
	case "mp":
		m := newMP(kinds)
		r, w = m, m.w
	default:
		emit("?")
		return
	}
	defer r.close()
	if !strings.HasPrefix(kind, "c") {
		for i, o := range ops {
			r.track(o)
			if i < skip {
				emit(w.obs("-")) // registered through the constructor option
				continue
			}
			emit(w.obs(r.op(o)))
		}
		if r.settle() {
			emit(w.obs("settle!"))
		} else {
			emit(w.obs("settle"))
		}
		return
	}
	// concurrent variant: prefix ! callers ! suffix
	var parts [3][]string
	pi := 0
	for _, o := range ops {
		if o == "!" {
			pi++
			continue
		}
		if pi < 3 {
			parts[pi] = append(parts[pi], o)
		}
	}
	for _, o := range parts[0] {
		emit(w.obs(r.op(o)))
	}
	emit("!")
	res := make([]string, len(parts[1]))
	var wg sync.WaitGroup
	gate := make(chan struct{})
	for i, o := range parts[1] {
		wg.Add(1)
		go func(i int, o string) {
			defer wg.Done()
			<-gate
			res[i] = r.op(o)
		}(i, o)
	}
	close(gate)
	wg.Wait()
	for _, x := range res {
		emit(x)
	}
	emit("!")
	emit(w.obs("-"))
	emit("!")
	for _, o := range parts[2] {
		emit(w.obs(r.op(o)))
	}
}

// TestVerifC15Child is the child-process entry: it is a no-op unless C15_CHILD_IN is set.
func TestVerifC15Child(t *testing.T) {
	in := os.Getenv("C15_CHILD_IN")
	if in == "" {
		t.Skip("child entry")
	}
	otel.SetErrorHandler(otel.ErrorHandlerFunc(func(error) {}))
	b, err := os.ReadFile(in)
	if err != nil {
		t.Fatal(err)
	}
	f, err := os.Create(os.Getenv("C15_CHILD_OUT"))
	if err != nil {
		t.Fatal(err)
	}
	defer f.Close()
	single := os.Getenv("C15_CHILD_SINGLE") == "1"
	for _, l := range strings.Split(string(b), "\n") {
		if strings.TrimSpace(l) == "" {
			continue
		}
		var sb strings.Builder
		emit := func(s string) {
			if single {
				f.WriteString(s + " ")
			} else {
				sb.WriteString(s + " ")
			}
		}
		// watchdog: every call of a script must return ("blocks forever" is an observation, not a stuck harness)
		wd := 3 * time.Second
		if ms := atoi(os.Getenv("C15_WATCHDOG_MS")); ms > 0 {
			wd = time.Duration(ms) * time.Millisecond
		}
		fin := make(chan struct{})
		go func() {
			defer close(fin)
			runScript(strings.Fields(l), emit)
		}()
		select {
		case <-fin:
		case <-time.After(wd):
			// a deadlocked goroutine cannot be recovered: leave what was observed behind and end the process
			f.WriteString("\n#hang\n")
			f.Close()
			os.Exit(3)
		}
		if single {
			// give goroutines the script started (exporter shutdown goroutines) the time to crash the process
			time.Sleep(40 * time.Millisecond)
		}
		f.WriteString(sb.String() + "\n")
	}
	time.Sleep(20 * time.Millisecond)
	f.WriteString("#done\n")
}

// ---------------------------------------------------------------- parent side

var childSeq int

// runChild runs the given input lines in one child process; returns the observation strings (one per completed
// line), whether the child completed, and whether it timed out.
func runChild(t *testing.T, lines []string, single bool, timeout time.Duration) (obs []string, done, timedOut bool) {
	childSeq++
	dir := t.TempDir()
	in := fmt.Sprintf("%s/in%d", dir, childSeq)
	out := fmt.Sprintf("%s/out%d", dir, childSeq)
	os.WriteFile(in, []byte(strings.Join(lines, "\n")+"\n"), 0o644)
	ctx, cancel := context.WithTimeout(context.Background(), timeout)
	defer cancel()
	cmd := exec.CommandContext(ctx, os.Args[0], "-test.run", "^TestVerifC15Child$", "-test.count=1")
	cmd.Env = append(os.Environ(), "C15_CHILD_IN="+in, "C15_CHILD_OUT="+out, "GOMEMLIMIT=1GiB")
	if single {
		cmd.Env = append(cmd.Env, "C15_CHILD_SINGLE=1")
	}
	cmd.Run()
	timedOut = ctx.Err() != nil
	b, _ := os.ReadFile(out)
	s := string(b)
	if i := strings.Index(s, "\n#hang"); i >= 0 { // the child's own watchdog fired
		timedOut = true
		s = s[:i]
	}
	done = strings.Contains(s, "#done")
	for _, l := range strings.Split(s, "\n") {
		if l == "#done" {
			break
		}
		obs = append(obs, strings.TrimSpace(l))
	}
	if n := len(obs); n > 0 && obs[n-1] == "" {
		obs = obs[:n-1] // text after the last newline
	}
	return
}

// runOne: one script alone; a crash or (confirmed) timeout becomes the final observation token.
func runOne(t *testing.T, line string) string {
	obs, done, to := runChild(t, []string{line}, true, 6*time.Second)
	if done {
		return obs[0]
	}
	if to { // confirm a hang with a doubled timeout (the machine may be busy)
		os.Setenv("C15_WATCHDOG_MS", "6000")
		obs, done, to = runChild(t, []string{line}, true, 12*time.Second)
		os.Unsetenv("C15_WATCHDOG_MS")
		if done {
			return obs[0]
		}
	}
	partial := ""
	if len(obs) > 0 {
		partial = obs[0] + " "
	}
	// an unfinished concurrent script keeps its `!` structure so that the driver can still parse it
	if to {
		return partial + "hang"
	}
	return partial + "panic"
}

func emitAll(t *testing.T, out *vOut, lines []string) {
	const B = 60
	crashes := 0
	for i := 0; i < len(lines); i += B {
		if crashes >= 20 {
			// the tree crashes/hangs all over: the violation is certain, do not spend minutes re-running every batch
			return
		}
		j := i + B
		if j > len(lines) {
			j = len(lines)
		}
		batch := lines[i:j]
		obs, done, _ := runChild(t, batch, false, 60*time.Second)
		if done && len(obs) >= len(batch) {
			for k, l := range batch {
				if strings.Contains(obs[k], "settle!") {
					crashes++
				}
				out.Line("%s => %s", l, obs[k])
			}
			continue
		}
		// crash or hang somewhere in the batch: the culprit may be an earlier script's goroutine → all alone
		for _, l := range batch {
			if crashes >= 20 {
				return // see above: do not confirm every single script of a batch on a tree that hangs all over
			}
			o := runOne(t, l)
			if strings.HasSuffix(o, "panic") || strings.Contains(o, "settle!") {
				crashes++
			} else if strings.HasSuffix(o, "hang") {
				crashes += 4 // a confirmed hang costs 9 s
			}
			out.Line("%s => %s", l, o)
		}
	}
}

// ---------------------------------------------------------------- generators

var ctxW = []string{"b", "b", "b", "b", "f", "f", "c", "c", "c", "e"}

func genKinds(r *vRand, all []string, min, max int) []string {
	n := min + r.Intn(max-min+1)
	ks := make([]string, n)
	for i := range ks {
		ks[i] = vPick(r, all)
	}
	return ks
}

func kindStr(ks []string) string {
	if len(ks) == 0 {
		return "-"
	}
	return strings.Join(ks, ",")
}

var spanKinds = []string{"r", "r", "sr", "sn", "br", "bn"}

// nil-exporter batch processors with every option combination that changes the code path
var spanNilOpts = []string{"", "+b", "+q", "+t", "+bq", "+bt", "+qt", "+bqt"}
var logNilOpts = []string{"", "+q", "+t", "+u", "+qt", "+qu", "+tu", "+qtu"}

// withNilOpts decorates every `bn` of ks with a random option combination (half of the time none).
func withNilOpts(r *vRand, ks []string, opts []string) []string {
	for i, k := range ks {
		if k == "bn" && r.Bool() {
			ks[i] = "bn" + vPick(r, opts)
		}
	}
	return ks
}

// genNil: processors built around a nil exporter (all option combinations), telemetry ended/emitted on them, then
// ForceFlush and Shutdown — a crash of a worker goroutine kills the child process and is observed as `panic`.
func genNil(r *vRand) string {
	if r.Intn(3) > 0 {
		n := 1 + r.Intn(3)
		ks := make([]string, n)
		for i := range ks {
			switch r.Intn(5) {
			case 0:
				ks[i] = "sn"
			case 1:
				ks[i] = "r"
			default:
				ks[i] = "bn" + vPick(r, spanNilOpts)
			}
		}
		ops := []string{"tr:0"}
		for i := range ks {
			ops = append(ops, fmt.Sprintf("reg:%d", i))
		}
		for k := 1 + r.Intn(6); k > 0; k-- {
			ops = append(ops, "sp:0")
		}
		if r.Bool() {
			ops = append(ops, "ff:"+vPick(r, ctxW), "sp:0")
		}
		if r.Intn(4) == 0 {
			ops = append(ops, fmt.Sprintf("unr:%d", r.Intn(n)), "sp:0")
		}
		ops = append(ops, "sd:"+vPick(r, ctxW), "sp:0", "ff:b")
		return fmt.Sprintf("tp nil %s %d | %s", kindStr(ks), r.Intn(2), strings.Join(ops, " "))
	}
	n := 1 + r.Intn(3)
	ks := make([]string, n)
	for i := range ks {
		switch r.Intn(5) {
		case 0:
			ks[i] = "sn"
		case 1:
			ks[i] = "r"
		default:
			ks[i] = "bn" + vPick(r, logNilOpts)
		}
	}
	ops := []string{"lg:0"}
	for k := 1 + r.Intn(8); k > 0; k-- {
		ops = append(ops, "em:0")
	}
	if r.Bool() {
		ops = append(ops, "ff:"+vPick(r, ctxW), "em:0", "em:0")
	}
	ops = append(ops, "sd:"+vPick(r, ctxW), "em:0", "ff:b")
	return fmt.Sprintf("lp nil %s | %s", kindStr(ks), strings.Join(ops, " "))
}

func genTP(r *vRand) string {
	ks := withNilOpts(r, genKinds(r, spanKinds, 1, 5), spanNilOpts)
	n := len(ks)
	nops := 1 + r.Intn(30)
	gen := "rnd"
	var ops []string
	if r.Intn(3) > 0 {
		ops = append(ops, "tr:0")
	}
	lateSd := r.Intn(3) == 0 // keep Shutdown for the second half so that long membership histories occur
	for len(ops) < nops {
		x := r.Intn(100)
		i := r.Intn(n + 1) // n = an index that may be out of the registered set more often
		if i == n {
			i = r.Intn(n)
		}
		switch {
		case x < 22:
			ops = append(ops, fmt.Sprintf("reg:%d", i))
		case x < 34:
			ops = append(ops, fmt.Sprintf("unr:%d", i))
		case x < 40:
			if lateSd && len(ops) < nops/2 {
				continue
			}
			ops = append(ops, "sd:"+vPick(r, ctxW))
		case x < 48:
			ops = append(ops, "ff:"+vPick(r, ctxW))
		case x < 58:
			ops = append(ops, fmt.Sprintf("tr:%d", r.Intn(3)))
		case x < 78:
			ops = append(ops, fmt.Sprintf("sp:%d", r.Intn(3)))
		case x < 86:
			ops = append(ops, fmt.Sprintf("st:%d:%d", r.Intn(3), r.Intn(3)))
		case x < 95:
			ops = append(ops, fmt.Sprintf("en:%d", r.Intn(3)))
		default:
			if ks[i] != "r" {
				ops = append(ops, fmt.Sprintf("psd:%d", i))
			}
		}
	}
	return fmt.Sprintf("tp %s %s %d | %s", gen, kindStr(ks), r.Intn(2), strings.Join(ops, " "))
}

// genF26: former finding F26 (repaired by f6b676c) — Shutdown with a done context while processors are registered.
func genF26(r *vRand) string {
	ks := withNilOpts(r, genKinds(r, spanKinds, 1, 3), spanNilOpts)
	ops := []string{"tr:0"}
	for i := range ks {
		if i == 0 || r.Bool() {
			ops = append(ops, fmt.Sprintf("reg:%d", i))
		}
	}
	ops = append(ops, "sp:0", "sd:"+vPick(r, []string{"c", "e"}), "sp:0", "sd:b", "sp:0", "ff:b", "tr:1", "sp:1")
	return fmt.Sprintf("tp sdc %s 0 | %s", kindStr(ks), strings.Join(ops, " "))
}

func genLP(r *vRand) string {
	ks := withNilOpts(r, genKinds(r, spanKinds, 0, 4), logNilOpts)
	nops := 1 + r.Intn(30)
	var ops []string
	if r.Intn(3) > 0 {
		ops = append(ops, "lg:0")
	}
	for len(ops) < nops {
		x := r.Intn(100)
		switch {
		case x < 15:
			ops = append(ops, fmt.Sprintf("lg:%d", r.Intn(3)))
		case x < 65:
			ops = append(ops, fmt.Sprintf("em:%d", r.Intn(3)))
		case x < 85:
			ops = append(ops, "ff:"+vPick(r, ctxW))
		default:
			if len(ops) < nops/2 && r.Bool() {
				continue
			}
			ops = append(ops, "sd:"+vPick(r, ctxW))
		}
	}
	return fmt.Sprintf("lp rnd %s | %s", kindStr(ks), strings.Join(ops, " "))
}

func genMP(r *vRand) string {
	ks := genKinds(r, []string{"m", "p"}, 0, 3)
	nops := 1 + r.Intn(30)
	var ops []string
	if r.Intn(3) > 0 {
		ops = append(ops, "mt:0")
	}
	for len(ops) < nops {
		x := r.Intn(100)
		switch {
		case x < 15:
			ops = append(ops, fmt.Sprintf("mt:%d", r.Intn(3)))
		case x < 50:
			ops = append(ops, fmt.Sprintf("ad:%d", r.Intn(3)))
		case x < 68:
			if len(ks) > 0 {
				ops = append(ops, fmt.Sprintf("co:%d", r.Intn(len(ks))))
			}
		case x < 86:
			ops = append(ops, "ff:"+vPick(r, ctxW))
		default:
			if len(ops) < nops/2 && r.Bool() {
				continue
			}
			ops = append(ops, "sd:"+vPick(r, ctxW))
		}
	}
	return fmt.Sprintf("mp rnd %s | %s", kindStr(ks), strings.Join(ops, " "))
}

// genErr: callback results as a script dimension (line kind etp) — pools with erring user processors `re`. Half of the
// scripts are random trace scripts, half are built around the unregistration of an erring processor: it must leave the
// list although its Shutdown reported an error (seeded C15-12), later spans must not reach it.
var errKinds = []string{"r", "re", "re", "sr", "sre", "sre", "sn", "br", "bre", "bn"}

func genErr(r *vRand) string {
	ks := genKinds(r, errKinds, 1, 5)
	n := len(ks)
	ks[r.Intn(n)] = vPick(r, []string{"re", "re", "sre"})
	stock := false
	for _, k := range ks {
		if k == "sr" || k == "br" || k == "sre" || k == "bre" {
			stock = true
		}
	}
	// a Shutdown with a done context on a stock processor around a recording exporter finishes asynchronously (Lag.lean):
	// kept out of these scripts, the error dimension is orthogonal to it
	sdCtx := func() string {
		if stock {
			return vPick(r, []string{"b", "b", "f"})
		}
		return vPick(r, ctxW)
	}
	var ops []string
	if r.Bool() {
		ops = append(ops, "tr:0")
		var regd []int
		for i := 0; i < n; i++ {
			if ks[i] == "re" || ks[i] == "sre" || r.Intn(4) > 0 {
				regd = append(regd, i)
			}
		}
		if r.Intn(4) == 0 {
			regd = append(regd, regd[r.Intn(len(regd))]) // duplicate registration
		}
		for i := len(regd) - 1; i > 0; i-- {
			j := r.Intn(i + 1)
			regd[i], regd[j] = regd[j], regd[i]
		}
		for _, i := range regd {
			ops = append(ops, fmt.Sprintf("reg:%d", i))
		}
		ops = append(ops, "sp:0")
		for k := 1 + r.Intn(4); k > 0; k-- {
			x := r.Intn(100)
			i := regd[r.Intn(len(regd))]
			switch {
			case x < 45:
				ops = append(ops, fmt.Sprintf("unr:%d", i), "sp:0")
			case x < 60:
				ops = append(ops, "ff:"+vPick(r, ctxW))
			case x < 70:
				ops = append(ops, fmt.Sprintf("reg:%d", i), "sp:0")
			case x < 80:
				ops = append(ops, fmt.Sprintf("psd:%d", i))
			case x < 90:
				ops = append(ops, "st:0:1", fmt.Sprintf("unr:%d", i), "en:1")
			default:
				ops = append(ops, "sd:"+sdCtx(), "sp:0")
			}
		}
		ops = append(ops, "ff:b", "sd:"+sdCtx(), "sp:0", "ff:b", "sd:b")
		return fmt.Sprintf("etp unr %s | %s", kindStr(ks), strings.Join(ops, " "))
	}
	nops := 1 + r.Intn(25)
	if r.Intn(3) > 0 {
		ops = append(ops, "tr:0")
	}
	for len(ops) < nops {
		x := r.Intn(100)
		i := r.Intn(n)
		switch {
		case x < 24:
			ops = append(ops, fmt.Sprintf("reg:%d", i))
		case x < 38:
			ops = append(ops, fmt.Sprintf("unr:%d", i))
		case x < 44:
			ops = append(ops, "sd:"+sdCtx())
		case x < 54:
			ops = append(ops, "ff:"+vPick(r, ctxW))
		case x < 62:
			ops = append(ops, fmt.Sprintf("tr:%d", r.Intn(3)))
		case x < 80:
			ops = append(ops, fmt.Sprintf("sp:%d", r.Intn(3)))
		case x < 87:
			ops = append(ops, fmt.Sprintf("st:%d:%d", r.Intn(3), r.Intn(3)))
		case x < 94:
			ops = append(ops, fmt.Sprintf("en:%d", r.Intn(3)))
		default:
			ops = append(ops, fmt.Sprintf("psd:%d", i))
		}
	}
	return fmt.Sprintf("etp rnd %s | %s", kindStr(ks), strings.Join(ops, " "))
}

// genErrLP: callback results as a script dimension for the logger provider (line kind elp). Contexts are live whenever the
// pool has a batch processor around a recording exporter (a done context makes its export asynchronous: Lag.lean).
var errLogKinds = []string{"r", "re", "re", "sr", "sre", "sre", "sn", "br", "bre", "bre", "bn"}

func genErrLP(r *vRand) string {
	ks := genKinds(r, errLogKinds, 1, 4)
	ks[r.Intn(len(ks))] = vPick(r, []string{"re", "sre", "bre"})
	batch := false
	for _, k := range ks {
		if k == "br" || k == "bre" {
			batch = true
		}
	}
	ctx := func() string {
		if batch {
			return vPick(r, []string{"b", "b", "f"})
		}
		return vPick(r, ctxW)
	}
	nops := 2 + r.Intn(20)
	ops := []string{"lg:0"}
	sdDone := false
	for len(ops) < nops {
		x := r.Intn(100)
		switch {
		case x < 10:
			ops = append(ops, fmt.Sprintf("lg:%d", r.Intn(3)))
		case x < 60:
			ops = append(ops, fmt.Sprintf("em:%d", r.Intn(2)))
		case x < 85:
			ops = append(ops, "ff:"+ctx())
		default:
			if len(ops) < nops/2 && r.Bool() {
				continue
			}
			ops = append(ops, "sd:"+ctx())
			sdDone = true
		}
	}
	if !sdDone {
		ops = append(ops, "sd:"+ctx())
	}
	ops = append(ops, "em:0", "ff:b", "sd:b")
	return fmt.Sprintf("elp rnd %s | %s", kindStr(ks), strings.Join(ops, " "))
}

// genErrMP: callback results as a script dimension for the meter provider (line kind emp): periodic readers whose exporter
// errs in one callback or in all; live contexts only (a done context races inside PeriodicReader.ForceFlush).
var errMetricKinds = []string{"m", "p", "pe", "pe", "pf", "ps", "pa"}

func genErrMP(r *vRand) string {
	ks := genKinds(r, errMetricKinds, 1, 4)
	ks[r.Intn(len(ks))] = vPick(r, []string{"pe", "pf", "ps", "pa"})
	live := []string{"b", "b", "f"}
	nops := 2 + r.Intn(18)
	ops := []string{"mt:0"}
	sdDone := false
	for len(ops) < nops {
		x := r.Intn(100)
		switch {
		case x < 10:
			ops = append(ops, fmt.Sprintf("mt:%d", r.Intn(3)))
		case x < 45:
			ops = append(ops, fmt.Sprintf("ad:%d", r.Intn(2)))
		case x < 60:
			ops = append(ops, fmt.Sprintf("co:%d", r.Intn(len(ks))))
		case x < 85:
			ops = append(ops, "ff:"+vPick(r, live))
		default:
			if len(ops) < nops/2 && r.Bool() {
				continue
			}
			ops = append(ops, "sd:"+vPick(r, live))
			sdDone = true
		}
	}
	if !sdDone {
		ops = append(ops, "sd:"+vPick(r, live))
	}
	ops = append(ops, "ad:0", "ff:b", fmt.Sprintf("co:%d", r.Intn(len(ks))), "sd:b")
	return fmt.Sprintf("emp rnd %s | %s", kindStr(ks), strings.Join(ops, " "))
}

// genGate: forced schedule — an End parked inside a recording processor while the membership changes.
func genGate(r *vRand) string {
	n := 2 + r.Intn(4)
	ks := make([]string, n)
	for i := range ks {
		ks[i] = "r"
	}
	ops := []string{"tr:0"}
	order := make([]int, 0, n+1)
	for i := 0; i < n; i++ {
		if r.Intn(6) > 0 {
			order = append(order, i)
		}
	}
	if len(order) < 2 {
		order = []int{0, 1}
	}
	if r.Intn(5) == 0 { // a duplicate registration
		order = append(order, order[r.Intn(len(order))])
	}
	for i := len(order) - 1; i > 0; i-- { // shuffle
		j := r.Intn(i + 1)
		order[i], order[j] = order[j], order[i]
	}
	for _, i := range order {
		ops = append(ops, fmt.Sprintf("reg:%d", i))
	}
	ops = append(ops, "st:0:0")
	if r.Bool() {
		ops = append(ops, "sp:0")
	}
	gatePos := r.Intn(len(order))
	gate := order[gatePos]
	if r.Intn(12) == 0 {
		gate = r.Intn(n) // possibly not registered: the End runs through
	}
	ops = append(ops, fmt.Sprintf("endg:0:%d", gate))
	for k := 1 + r.Intn(4); k > 0; k-- {
		x := r.Intn(100)
		switch {
		case x < 45: // unregister, mostly one registered before the gate
			i := order[r.Intn(len(order))]
			if gatePos > 0 && r.Intn(3) > 0 {
				i = order[r.Intn(gatePos)]
			}
			ops = append(ops, fmt.Sprintf("unr:%d", i))
		case x < 60:
			ops = append(ops, fmt.Sprintf("reg:%d", r.Intn(n)))
		case x < 68:
			ops = append(ops, "sd:b")
		case x < 76:
			ops = append(ops, "ff:b")
		case x < 86:
			ops = append(ops, "sp:0")
		case x < 92:
			ops = append(ops, "st:0:1", "en:1")
		case x < 96:
			ops = append(ops, "en:0") // the span is already ended: no-op
		default:
			ops = append(ops, "tr:1", "sp:1")
		}
	}
	ops = append(ops, "rel", "sp:0", "sd:b", "sp:0")
	return fmt.Sprintf("gtp gate %s | %s", kindStr(ks), strings.Join(ops, " "))
}

// genReent: RE-ENTRANT user callbacks. Only combinations that return on the unchanged tree are generated; excluded
// (remarks R1–R6 in lean/Otel/C15/Reent.lean): ending a span / emitting from inside a SIMPLE processor's Export (the processor's
// mutex is held), ForceFlush from inside a BATCH processor's / periodic reader's Export (waits for the very goroutine that
// runs the Export), and Register / Unregister / Shutdown / Tracer from inside a Shutdown callback (provider mutex).
func genReent(r *vRand) string {
	live := []string{"b", "b", "b", "f"}
	hook := func(cbs []string, p int) string {
		out := ""
		used := map[byte]bool{}
		for r.Intn(100) < p {
			h := vPick(r, cbs)
			if used[h[0]] {
				break
			}
			used[h[0]] = true
			out += "@" + h
			p /= 2
		}
		return out
	}
	switch r.Intn(5) {
	case 0, 1, 2:
		rHooks := []string{"a=sp", "a=ff", "e=sp", "e=ff", "f=sp", "f=ff", "s=sp", "s=ff"}
		srHooks := []string{"x=ff", "s=sp", "s=sp", "s=ff"}
		brHooks := []string{"x=sp", "s=sp", "s=ff"}
		n := 1 + r.Intn(4)
		ks := make([]string, n)
		for i := range ks {
			switch r.Intn(8) {
			case 0, 1, 2:
				ks[i] = "r" + hook(rHooks, 70)
			case 3, 4:
				ks[i] = "sr" + hook(srHooks, 80)
			case 5:
				ks[i] = "br" + hook(brHooks, 80)
			case 6:
				ks[i] = vPick(r, []string{"sn", "bn"})
			default:
				ks[i] = "r"
			}
		}
		ops := []string{"tr:0"}
		nops := 3 + r.Intn(18)
		for len(ops) < nops {
			x := r.Intn(100)
			i := r.Intn(n)
			switch {
			case x < 25:
				ops = append(ops, fmt.Sprintf("reg:%d", i))
			case x < 35:
				ops = append(ops, fmt.Sprintf("unr:%d", i))
			case x < 42:
				if len(ops) > nops/2 {
					ops = append(ops, "sd:"+vPick(r, live))
				}
			case x < 55:
				ops = append(ops, "ff:"+vPick(r, live))
			case x < 60:
				ops = append(ops, fmt.Sprintf("tr:%d", r.Intn(2)))
			case x < 85:
				ops = append(ops, fmt.Sprintf("sp:%d", r.Intn(2)))
			case x < 90:
				ops = append(ops, fmt.Sprintf("st:%d:%d", r.Intn(2), r.Intn(2)))
			case x < 95:
				ops = append(ops, fmt.Sprintf("en:%d", r.Intn(2)))
			default:
				if !strings.HasPrefix(ks[i], "r") {
					ops = append(ops, fmt.Sprintf("psd:%d", i))
				}
			}
		}
		ops = append(ops, "sd:b", "sp:0", "ff:b")
		return fmt.Sprintf("rtp reent %s | %s", kindStr(ks), strings.Join(ops, " "))
	case 3:
		rHooks := []string{"e=em", "e=ff", "f=em", "f=ff", "s=em", "s=ff"}
		srHooks := []string{"x=ff", "f=em", "f=ff", "s=em", "s=ff"}
		brHooks := []string{"x=em", "f=em", "f=ff", "s=em", "s=ff"}
		n := 1 + r.Intn(3)
		ks := make([]string, n)
		for i := range ks {
			switch r.Intn(6) {
			case 0, 1:
				ks[i] = "r" + hook(rHooks, 70)
			case 2, 3:
				ks[i] = "sr" + hook(srHooks, 80)
			case 4:
				ks[i] = "br" + hook(brHooks, 80)
			default:
				ks[i] = vPick(r, []string{"sn", "bn", "r"})
			}
		}
		ops := []string{"lg:0"}
		for k := 2 + r.Intn(12); k > 0; k-- {
			x := r.Intn(100)
			switch {
			case x < 55:
				ops = append(ops, fmt.Sprintf("em:%d", r.Intn(2)))
			case x < 65:
				ops = append(ops, fmt.Sprintf("lg:%d", r.Intn(2)))
			case x < 90:
				ops = append(ops, "ff:"+vPick(r, live))
			default:
				ops = append(ops, "sd:"+vPick(r, live))
			}
		}
		ops = append(ops, "sd:b", "em:0", "ff:b")
		return fmt.Sprintf("rlp reent %s | %s", kindStr(ks), strings.Join(ops, " "))
	default:
		pHooks := []string{"x=ad", "f=ad", "f=ff", "s=ad", "s=ff"}
		n := 1 + r.Intn(3)
		ks := make([]string, n)
		for i := range ks {
			if r.Intn(3) > 0 {
				ks[i] = "p" + hook(pHooks, 80)
			} else {
				ks[i] = "m"
			}
		}
		ops := []string{"mt:0"}
		for k := 2 + r.Intn(12); k > 0; k-- {
			x := r.Intn(100)
			switch {
			case x < 45:
				ops = append(ops, fmt.Sprintf("ad:%d", r.Intn(2)))
			case x < 55:
				ops = append(ops, fmt.Sprintf("mt:%d", r.Intn(2)))
			case x < 65:
				ops = append(ops, fmt.Sprintf("co:%d", r.Intn(n)))
			case x < 90:
				ops = append(ops, "ff:"+vPick(r, live))
			default:
				ops = append(ops, "sd:"+vPick(r, live))
			}
		}
		ops = append(ops, "sd:b", "ad:0", "ff:b")
		return fmt.Sprintf("rmp reent %s | %s", kindStr(ks), strings.Join(ops, " "))
	}
}

// genConc: every pool component registered at most once in the prefix; 2..8 concurrent callers.
func genConc(r *vRand) string {
	switch r.Intn(3) {
	case 0:
		ks := genKinds(r, spanKinds, 1, 5)
		pre := []string{"tr:0"}
		var regd []int
		for i := range ks {
			if r.Intn(4) > 0 {
				pre = append(pre, fmt.Sprintf("reg:%d", i))
				regd = append(regd, i)
			}
		}
		for k := r.Intn(4); k > 0; k-- {
			pre = append(pre, "sp:0")
		}
		var mid []string
		for k := 2 + r.Intn(7); k > 0; k-- {
			x := r.Intn(10)
			switch {
			case x < 4:
				mid = append(mid, "sd:b")
			case x < 7:
				mid = append(mid, fmt.Sprintf("unr:%d", r.Intn(len(ks))))
			case x < 9:
				mid = append(mid, "ff:b")
			default:
				mid = append(mid, "sp:0")
			}
		}
		return fmt.Sprintf("ctp conc %s | %s ! %s ! sd:b sp:0 tr:1 sp:1 ff:b sd:b", kindStr(ks), strings.Join(pre, " "), strings.Join(mid, " "))
	case 1:
		ks := genKinds(r, spanKinds, 1, 4)
		pre := []string{"lg:0"}
		for k := r.Intn(4); k > 0; k-- {
			pre = append(pre, "em:0")
		}
		var mid []string
		for k := 2 + r.Intn(7); k > 0; k-- {
			mid = append(mid, vPick(r, []string{"sd:b", "sd:b", "ff:b", "em:0"}))
		}
		return fmt.Sprintf("clp conc %s | %s ! %s ! sd:b em:0 lg:1 em:1 ff:b sd:b", kindStr(ks), strings.Join(pre, " "), strings.Join(mid, " "))
	default:
		ks := genKinds(r, []string{"m", "p"}, 1, 3)
		pre := []string{"mt:0"}
		for k := r.Intn(4); k > 0; k-- {
			pre = append(pre, "ad:0")
		}
		var mid []string
		for k := 2 + r.Intn(7); k > 0; k-- {
			mid = append(mid, vPick(r, []string{"sd:b", "sd:b", "ff:b", "ad:0"}))
		}
		return fmt.Sprintf("cmp conc %s | %s ! %s ! sd:b ad:0 mt:1 ad:1 co:0 ff:b sd:b", kindStr(ks), strings.Join(pre, " "), strings.Join(mid, " "))
	}
}

// exhaustive small scope (thorough tier): every trace-provider script of up to 3 ops over a fixed pool after a
// fixed preamble.
func genSmall() []string {
	alpha := []string{"reg:0", "reg:1", "unr:0", "unr:1", "sd:b", "sd:c", "ff:b", "ff:c", "tr:1", "sp:0", "sp:1", "psd:1"}
	var out []string
	var rec func(pre []string, d int)
	rec = func(pre []string, d int) {
		if len(pre) > 0 {
			out = append(out, "tp small r,sr 0 | tr:0 reg:0 "+strings.Join(pre, " ")+" sp:0")
		}
		if d == 0 {
			return
		}
		for _, a := range alpha {
			rec(append(append([]string{}, pre...), a), d-1)
		}
	}
	rec(nil, 3)
	return out
}

func TestVerifC15Life(t *testing.T) {
	out := vOpen(t)
	defer out.Close()
	if rl := vReplayLines(); rl != nil {
		var lines []string
		for _, toks := range rl {
			lines = append(lines, strings.Join(toks, " "))
		}
		emitAll(t, out, lines)
		return
	}
	r := &vRand{s: vSeed()}
	n := vN(600)
	var lines []string
	for i := 0; i < n; i++ {
		switch {
		case i%50 == 7:
			lines = append(lines, genF26(r))
		case i%25 == 3 || i%25 == 16:
			lines = append(lines, genErr(r))
		case i%25 == 9 || i%25 == 21:
			lines = append(lines, genErrLP(r))
		case i%25 == 6 || i%25 == 18:
			lines = append(lines, genErrMP(r))
		case i%25 == 13:
			lines = append(lines, genNil(r))
		case i%20 == 19:
			lines = append(lines, genReent(r))
		case i%10 < 4:
			lines = append(lines, genTP(r))
		case i%10 < 6:
			lines = append(lines, genLP(r))
		case i%10 < 8:
			lines = append(lines, genMP(r))
		case i%10 == 8:
			lines = append(lines, genGate(r))
		default:
			lines = append(lines, genConc(r))
		}
	}
	if os_exhaustive() {
		lines = append(lines, genSmall()...)
	}
	emitAll(t, out, lines)
}
