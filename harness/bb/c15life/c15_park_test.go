//go:build verif

// C15 harness, leg `park` (build tag verif): forced schedules that park a ForceFlush at the verifPoint hook
// `bsp.ForceFlush.checked` of the batch span processor — after its `stopped` check, before its flush marker is enqueued —
// while Shutdown / Unregister / direct processor Shutdown / End / a second ForceFlush run to completion, then release it.
// Line kind `ptp` (see the header of c15_test.go); executed in child processes like every other script (watchdog: a
// ForceFlush that never returns is the observation `hang`).
//
// The queue keeps its default size (2048) and the scripts end a handful of spans: the queue is never full, so the
// precondition of known finding F42 (a producer blocked on the FULL queue of an exited worker) cannot hold here — a hang in
// a `ptp` script is a plain failure of the clause 'no call blocks forever'.
package c15life

import (
	"fmt"
	"strings"
	"testing"

	sdktrace "go.opentelemetry.io/otel/sdk/trace"
)

func init() {
	setVerifHook = func(fn func(name string)) { sdktrace.VerifPointFn = fn }
}

var parkKinds = []string{"br", "br", "br", "r", "r", "sr", "bn"}

// genPark: 1-4 processors, at least one batch processor around a recording exporter; some spans ended; a ForceFlush parked
// past the stopped check of a batch processor; 1-3 ops while it is parked; release; a suffix that shows the final state.
func genPark(r *vRand) string {
	n := 1 + r.Intn(4)
	ks := make([]string, n)
	for i := range ks {
		ks[i] = vPick(r, parkKinds)
	}
	ks[r.Intn(n)] = "br"
	ops := []string{"tr:0"}
	var regd []int
	for i := 0; i < n; i++ {
		if r.Intn(8) > 0 {
			regd = append(regd, i)
		}
	}
	if len(regd) == 0 {
		regd = []int{0}
	}
	for i := len(regd) - 1; i > 0; i-- { // registration order decides which batch processor parks the provider-level call
		j := r.Intn(i + 1)
		regd[i], regd[j] = regd[j], regd[i]
	}
	for _, i := range regd {
		ops = append(ops, fmt.Sprintf("reg:%d", i))
	}
	for k := r.Intn(4); k > 0; k-- {
		ops = append(ops, "sp:0")
	}
	if r.Intn(6) == 0 { // a processor stopped behind the provider's back before the ForceFlush starts: it does not park
		ops = append(ops, fmt.Sprintf("psd:%d", r.Intn(n)))
	}
	target := "p"
	if r.Intn(3) == 0 {
		target = fmt.Sprint(r.Intn(n)) // directly on a processor (possibly not a batch processor / never registered)
	}
	ops = append(ops, "ffpark:"+target)
	for k := 1 + r.Intn(3); k > 0; k-- {
		x := r.Intn(100)
		switch {
		case x < 30:
			ops = append(ops, "sd:b")
		case x < 45:
			ops = append(ops, fmt.Sprintf("unr:%d", regd[r.Intn(len(regd))]))
		case x < 60:
			ops = append(ops, fmt.Sprintf("psd:%d", r.Intn(n)))
		case x < 75:
			ops = append(ops, "sp:0")
		case x < 85:
			ops = append(ops, "ff:b") // a second ForceFlush runs through (the hook is one-shot)
		case x < 90:
			ops = append(ops, "sd:f")
		case x < 95:
			ops = append(ops, fmt.Sprintf("reg:%d", r.Intn(n)))
		default:
			ops = append(ops, "tr:1", "sp:1")
		}
	}
	ops = append(ops, "rel", "sp:0", "ff:b")
	if r.Bool() {
		ops = append(ops, "ffpark:"+target, "rel") // a second round, mostly after a Shutdown: must not park any more
	}
	ops = append(ops, "sd:b", "sp:0", "ff:b")
	return fmt.Sprintf("ptp park %s | %s", kindStr(ks), strings.Join(ops, " "))
}

func TestVerifC15Park(t *testing.T) {
	out := vOpen(t)
	defer out.Close()
	if rl := vReplayLines(); rl != nil {
		var lines []string
		for _, toks := range rl {
			lines = append(lines, strings.Join(toks, " "))
		}
		emitAll(t, out, lines)
		return
	}
	r := &vRand{s: vSeed()}
	n := vN(300)
	var lines []string
	for i := 0; i < n; i++ {
		lines = append(lines, genPark(r))
	}
	emitAll(t, out, lines)
}
