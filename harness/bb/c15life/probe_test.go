package c15life
import (
 "testing"
 "context"
 sdktrace "go.opentelemetry.io/otel/sdk/trace"
 sdklog "go.opentelemetry.io/otel/sdk/log"
 sdkmetric "go.opentelemetry.io/otel/sdk/metric"
)
func TestProbe(t *testing.T) {
  tp := sdktrace.NewTracerProvider(); tp.Shutdown(context.Background())
  lp := sdklog.NewLoggerProvider(); lp.Shutdown(context.Background())
  mp := sdkmetric.NewMeterProvider(); mp.Shutdown(context.Background())
}
