#!/usr/bin/env python3
"""Generates the six per-module white-box harness files of property C20 from otlp_template.go.txt
(the six OTLP exporters are separate Go modules with near-identical configuration packages).
Run: python3 /verif/harness/bb/c20gen/gen.py   (writes under /verif/harness/wb/exporters/otlp/…)."""
import os
HERE = os.path.dirname(os.path.abspath(__file__))
ROOT = os.path.dirname(os.path.dirname(os.path.dirname(HERE)))
TPL = open(os.path.join(HERE, "otlp_template.go.txt")).read()

TM_ADAPTER = '''func c20Build(items []c20Item) string {
	var opts []GenericOption
	for _, it := range items {
		switch it.kind {
		case 'E':
			opts = append(opts, WithEndpoint(it.s))
		case 'U':
			opts = append(opts, WithEndpointURL(it.s))
		case 'P':
			opts = append(opts, WithURLPath(it.s))
		case 'I':
			opts = append(opts, WithInsecure())
		case 'S':
			opts = append(opts, WithSecure())
		case 'H':
			opts = append(opts, WithHeaders(it.m))
		case 'C':
			opts = append(opts, WithCompression(Compression(it.n)))
		case 'T':
			opts = append(opts, WithTimeout(time.Duration(it.n)))
		default:
			panic("harness: option kind not supported by this exporter: " + string(it.kind))
		}
	}
	var cfg Config
	if c20IsHTTP {
		ho := make([]HTTPOption, len(opts))
		for i, o := range opts {
			ho[i] = o
		}
		cfg = NewHTTPConfig(ho...)
	} else {
		gopts := make([]GRPCOption, len(opts))
		for i, o := range opts {
			gopts[i] = o
		}
		cfg = NewGRPCConfig(gopts...)
	}
	s := cfg.@FIELD@
	return c20Render(s.Endpoint, s.URLPath, s.Insecure, s.Headers, s.Compression == GzipCompression, s.Timeout)
}

func c20Clean(out *vOut, gen, p, d string) {
	out.Line("cl %s %s %s => %s", gen, vHex(p), vHex(d), vHex(cleanPath(p, d)))
}
'''

LH_ADAPTER = '''func c20Build(items []c20Item) string {
	var opts []Option
	for _, it := range items {
		switch it.kind {
		case 'E':
			opts = append(opts, WithEndpoint(it.s))
		case 'U':
			opts = append(opts, WithEndpointURL(it.s))
		case 'P':
			opts = append(opts, WithURLPath(it.s))
		case 'I':
			opts = append(opts, WithInsecure())
		case 'H':
			opts = append(opts, WithHeaders(it.m))
		case 'C':
			opts = append(opts, WithCompression(Compression(it.n)))
		case 'T':
			opts = append(opts, WithTimeout(time.Duration(it.n)))
		default:
			panic("harness: option kind not supported by this exporter: " + string(it.kind))
		}
	}
	c := newConfig(opts)
	return c20Render(c.endpoint.Value, c.path.Value, c.insecure.Value, c.headers.Value, c.compression.Value == GzipCompression, c.timeout.Value)
}

func c20Clean(out *vOut, gen, p, d string) {}
'''

LG_ADAPTER = '''func c20Build(items []c20Item) string {
	var opts []Option
	for _, it := range items {
		switch it.kind {
		case 'E':
			opts = append(opts, WithEndpoint(it.s))
		case 'U':
			opts = append(opts, WithEndpointURL(it.s))
		case 'I':
			opts = append(opts, WithInsecure())
		case 'H':
			opts = append(opts, WithHeaders(it.m))
		case 'W':
			opts = append(opts, WithCompressor(it.s))
		case 'T':
			opts = append(opts, WithTimeout(time.Duration(it.n)))
		default:
			panic("harness: option kind not supported by this exporter: " + string(it.kind))
		}
	}
	c := newConfig(opts)
	return c20Render(c.endpoint.Value, "", c.insecure.Value, c.headers.Value, c.compression.Value == GzipCompression, c.timeout.Value)
}

func c20Clean(out *vOut, gen, p, d string) {}
'''

TARGETS = [
    # exp, module dir, pkg dir (relative to module), package, signal, sig path, adapter, cfg field
    ("th", "exporters/otlp/otlptrace/otlptracehttp", "internal/otlpconfig", "otlpconfig", "TRACES", "/v1/traces", TM_ADAPTER, "Traces"),
    ("tg", "exporters/otlp/otlptrace/otlptracegrpc", "internal/otlpconfig", "otlpconfig", "TRACES", "/v1/traces", TM_ADAPTER, "Traces"),
    ("mh", "exporters/otlp/otlpmetric/otlpmetrichttp", "internal/oconf", "oconf", "METRICS", "/v1/metrics", TM_ADAPTER, "Metrics"),
    ("mg", "exporters/otlp/otlpmetric/otlpmetricgrpc", "internal/oconf", "oconf", "METRICS", "/v1/metrics", TM_ADAPTER, "Metrics"),
    ("lh", "exporters/otlp/otlplog/otlploghttp", "", "otlploghttp", "LOGS", "/v1/logs", LH_ADAPTER, ""),
    ("lg", "exporters/otlp/otlplog/otlploggrpc", "", "otlploggrpc", "LOGS", "/v1/logs", LG_ADAPTER, ""),
]

for exp, mod, pkg, pkgname, signal, sig, adapter, field in TARGETS:
    src = TPL.replace("@ADAPTER@", adapter.replace("@FIELD@", field))
    src = (src.replace("@PKG@", pkgname).replace("@EXPU@", exp.capitalize()).replace("@EXP@", exp)
           .replace("@SIGNAL@", signal).replace("@SIGL@", sig.split("/")[-1]).replace("@SIG@", sig)
           .replace("@ISHTTP@", "true" if exp[1] == "h" else "false")
           .replace("@ISLOG@", "true" if exp[0] == "l" else "false"))
    d = os.path.join(ROOT, "harness/wb", mod, pkg)
    os.makedirs(d, exist_ok=True)
    p = os.path.join(d, f"zz_verif_c20_otlp{exp}_test.go")
    open(p, "w").write(src)
    print(p)
