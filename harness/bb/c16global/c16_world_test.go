// C16 — global providers forward to the installed SDK without loss or deadlock.
//
// This file is the CHILD side: one process executes exactly one scenario script (the global state of
// go.opentelemetry.io/otel is built on sync.Once and cannot be reset), prints one `C16OBS …` line and exits.
// A watchdog turns a scenario that does not complete into the observation `hang`.
//
// Script = groups separated by `|`:
//
//	M k            meter handle k := otel.Meter("m<k>")
//	K i k kind     instrument i := meter k . <constructor kind 0..13> ("i<i>")
//	A i v          measurement v on synchronous instrument i (Add / Record)
//	R c k i1,i2    callback c registered on meter k for observable instruments i1,i2 (observes c+1, attribute cb=c)
//	RB c k i1,i2   the same, naming an observable instrument of ANOTHER meter (accepted by the placeholder meter, rejected by
//	               the SDK when the registration is forwarded: one error for the global error handler → status err:handled)
//	U c            registration c . Unregister()
//	T t            tracer handle t := otel.Tracer("t<t>")
//	S t id [^j]    span "s<id>" started (and ended) on tracer t — from a fresh context, or under the context that
//	               the Start of span j returned (a pre-install placeholder span or a real SDK span, any tracer)
//	TS t j         tracer handle t := (span j).TracerProvider().Tracer("t<t>")
//	P id           Inject through the TextMapPropagator obtained before anything was installed
//	P id           … observed as a bit mask: 1 = traceparent written (TraceContext served it), 2 = baggage written (Baggage)
//	PG id          the same Inject through otel.GetTextMapPropagator() obtained at call time
//	IM IT IP       otel.SetMeterProvider(sdk) / SetTracerProvider(sdk) / SetTextMapPropagator(TraceContext)
//	IP2            otel.SetTextMapPropagator(Baggage) — a second, different propagator (the placeholder obtained before
//	               keeps forwarding to whichever was set FIRST; the global getter returns the one set last)
//	XM XT XP       self-set (save/restore helper): otel.SetMeterProvider(otel.GetMeterProvider()) / …TracerProvider… /
//	               …TextMapPropagator… — a documented no-op while the placeholder is the global value
//	GM lvl         SetMeterProvider with a delegate whose Meter() (lvl>=1) and whose meters' constructors and
//	               RegisterCallback (lvl 2) block on a gate when called by the installing goroutine; returns at the
//	               first gate (or when the installation finished)
//	GT             the same for SetTracerProvider (gate in Tracer())
//	N              release the installer from its gate, wait for the next gate or the end of the installation
//	F              release gates until the installation has finished, join every pending operation
//	Y n            yield n times
//	OC c           OVERLAPPING collections of the delegate's two readers: reader 0 starts a
//	               collection cycle; the first invocation of callback c parks inside the user function, before it
//	               observes; reader 1 then runs a complete cycle (every live callback, c included); reader 0 is
//	               released and finishes. Observed: what each reader's Observers received in its own cycle.
//	CC n           the two readers run n cycles each, concurrently and free-running
//	W 1            (first group only) install the recording MeterProvider with one Go type per instrument kind
//	               (c16_rec_test.go) instead of sdk/metric + ManualReader
//	[ … ; … ]      parallel block: the op lists separated by `;` run in goroutines released together; `]` joins
//
// While a gated installer is parked, every operation is started in its own goroutine; one that does not return
// (it waits for a lock held by the installer) stays pending and is joined by F.
package c16global

import (
	"context"
	"fmt"
	"os"
	"runtime"
	"sort"
	"strconv"
	"strings"
	"sync"
	"sync/atomic"
	"testing"
	"time"

	"go.opentelemetry.io/otel"
	"go.opentelemetry.io/otel/attribute"
	"go.opentelemetry.io/otel/baggage"
	"go.opentelemetry.io/otel/metric"
	membedded "go.opentelemetry.io/otel/metric/embedded"
	"go.opentelemetry.io/otel/propagation"
	sdkmetric "go.opentelemetry.io/otel/sdk/metric"
	"go.opentelemetry.io/otel/sdk/metric/metricdata"
	sdktrace "go.opentelemetry.io/otel/sdk/trace"
	"go.opentelemetry.io/otel/sdk/trace/tracetest"
	"go.opentelemetry.io/otel/trace"
	tembedded "go.opentelemetry.io/otel/trace/embedded"
)

type instH struct {
	kind, meter int
	obj         any
}

type cbH struct {
	meter int
	insts []int
	reg   metric.Registration
	count atomic.Int64
	park  atomic.Pointer[parkReq] // armed by OC: the next invocation parks before it observes
}

type parkReq struct{ in, rel chan struct{} }

type world struct {
	mu      sync.Mutex
	meters  map[int]metric.Meter
	insts   map[int]*instH
	cbs     map[int]*cbH
	tracers map[int]trace.Tracer
	spanCtx map[int]context.Context // context returned by the Start of span id
	spanObj map[int]trace.Span
	props   map[int]int
	prop0   propagation.TextMapPropagator

	useRec  bool   // script starts with `W 1`
	rec     *recMP // delegate with a distinct type per instrument kind
	mp      *sdkmetric.MeterProvider
	reader  *sdkmetric.ManualReader
	reader2 *sdkmetric.ManualReader // second reader of the SDK provider: collects only in OC / CC
	tp      *sdktrace.TracerProvider
	exp     *tracetest.InMemoryExporter

	apiErr  atomic.Value // string
	handled atomic.Int64
	ocs     []string // results of the OC / CC operations, in script order

	// gated installer
	gateCh    chan string
	relCh     chan struct{}
	instDone  chan struct{}
	instGoid  atomic.Int64
	active    bool // a gated installer has been started and has not finished
	atGate    bool
	cur       string // name of the current gate
	curMeter  int    // meter whose lock the installer holds at the current gate (-1 none)
	gatedKind string // "M" or "T"
	gates     []string
	pending   []chan struct{}
	pendIdx   []int
	opIdx     int
}

func newWorld() *world {
	w := &world{
		meters: map[int]metric.Meter{}, insts: map[int]*instH{}, cbs: map[int]*cbH{},
		tracers: map[int]trace.Tracer{}, props: map[int]int{},
		spanCtx: map[int]context.Context{}, spanObj: map[int]trace.Span{},
		gateCh: make(chan string), relCh: make(chan struct{}), curMeter: -1,
	}
	w.prop0 = otel.GetTextMapPropagator()
	otel.SetErrorHandler(otel.ErrorHandlerFunc(func(error) { w.handled.Add(1) }))
	w.reader = sdkmetric.NewManualReader()
	w.reader2 = sdkmetric.NewManualReader()
	w.mp = sdkmetric.NewMeterProvider(sdkmetric.WithReader(w.reader), sdkmetric.WithReader(w.reader2))
	w.rec = newRecMP()
	w.exp = tracetest.NewInMemoryExporter()
	w.tp = sdktrace.NewTracerProvider(sdktrace.WithSyncer(w.exp))
	return w
}

// delegateMP is the MeterProvider this scenario installs.
func (w *world) delegateMP() metric.MeterProvider {
	if w.useRec {
		return w.rec
	}
	return w.mp
}

func goid() int64 {
	var buf [64]byte
	n := runtime.Stack(buf[:], false)
	f := strings.Fields(string(buf[:n]))
	if len(f) < 2 {
		return -1
	}
	id, _ := strconv.ParseInt(f[1], 10, 64)
	return id
}

func (w *world) fail(format string, a ...any) {
	w.apiErr.CompareAndSwap(nil, fmt.Sprintf(format, a...))
}

// gate parks the installing goroutine (and only it).
func (w *world) gate(name string) {
	if goid() != w.instGoid.Load() {
		return
	}
	w.gateCh <- name
	<-w.relCh
}

// ---- gated delegates

type gateMP struct {
	membedded.MeterProvider
	w   *world
	lvl int
}

func (g *gateMP) Meter(name string, opts ...metric.MeterOption) metric.Meter {
	g.w.gate(name)
	real := g.w.delegateMP().Meter(name, opts...)
	if g.lvl < 2 {
		return real
	}
	return &gateMeter{Meter: real, w: g.w}
}

// gateMeter forwards everything to the SDK meter; constructors and RegisterCallback are gate points.
type gateMeter struct {
	metric.Meter
	w *world
}

func (g *gateMeter) Int64Counter(n string, o ...metric.Int64CounterOption) (metric.Int64Counter, error) {
	g.w.gate(n)
	return g.Meter.Int64Counter(n, o...)
}
func (g *gateMeter) Int64UpDownCounter(n string, o ...metric.Int64UpDownCounterOption) (metric.Int64UpDownCounter, error) {
	g.w.gate(n)
	return g.Meter.Int64UpDownCounter(n, o...)
}
func (g *gateMeter) Int64Histogram(n string, o ...metric.Int64HistogramOption) (metric.Int64Histogram, error) {
	g.w.gate(n)
	return g.Meter.Int64Histogram(n, o...)
}
func (g *gateMeter) Int64Gauge(n string, o ...metric.Int64GaugeOption) (metric.Int64Gauge, error) {
	g.w.gate(n)
	return g.Meter.Int64Gauge(n, o...)
}
func (g *gateMeter) Float64Counter(n string, o ...metric.Float64CounterOption) (metric.Float64Counter, error) {
	g.w.gate(n)
	return g.Meter.Float64Counter(n, o...)
}
func (g *gateMeter) Float64UpDownCounter(n string, o ...metric.Float64UpDownCounterOption) (metric.Float64UpDownCounter, error) {
	g.w.gate(n)
	return g.Meter.Float64UpDownCounter(n, o...)
}
func (g *gateMeter) Float64Histogram(n string, o ...metric.Float64HistogramOption) (metric.Float64Histogram, error) {
	g.w.gate(n)
	return g.Meter.Float64Histogram(n, o...)
}
func (g *gateMeter) Float64Gauge(n string, o ...metric.Float64GaugeOption) (metric.Float64Gauge, error) {
	g.w.gate(n)
	return g.Meter.Float64Gauge(n, o...)
}
func (g *gateMeter) Int64ObservableCounter(n string, o ...metric.Int64ObservableCounterOption) (metric.Int64ObservableCounter, error) {
	g.w.gate(n)
	return g.Meter.Int64ObservableCounter(n, o...)
}
func (g *gateMeter) Int64ObservableUpDownCounter(n string, o ...metric.Int64ObservableUpDownCounterOption) (metric.Int64ObservableUpDownCounter, error) {
	g.w.gate(n)
	return g.Meter.Int64ObservableUpDownCounter(n, o...)
}
func (g *gateMeter) Int64ObservableGauge(n string, o ...metric.Int64ObservableGaugeOption) (metric.Int64ObservableGauge, error) {
	g.w.gate(n)
	return g.Meter.Int64ObservableGauge(n, o...)
}
func (g *gateMeter) Float64ObservableCounter(n string, o ...metric.Float64ObservableCounterOption) (metric.Float64ObservableCounter, error) {
	g.w.gate(n)
	return g.Meter.Float64ObservableCounter(n, o...)
}
func (g *gateMeter) Float64ObservableUpDownCounter(n string, o ...metric.Float64ObservableUpDownCounterOption) (metric.Float64ObservableUpDownCounter, error) {
	g.w.gate(n)
	return g.Meter.Float64ObservableUpDownCounter(n, o...)
}
func (g *gateMeter) Float64ObservableGauge(n string, o ...metric.Float64ObservableGaugeOption) (metric.Float64ObservableGauge, error) {
	g.w.gate(n)
	return g.Meter.Float64ObservableGauge(n, o...)
}
func (g *gateMeter) RegisterCallback(f metric.Callback, insts ...metric.Observable) (metric.Registration, error) {
	g.w.gate("r")
	return g.Meter.RegisterCallback(f, insts...)
}

type gateTP struct {
	tembedded.TracerProvider
	w *world
}

func (g *gateTP) Tracer(name string, opts ...trace.TracerOption) trace.Tracer {
	g.w.gate(name)
	return g.w.tp.Tracer(name, opts...)
}

// ---- operations

func atoi(s string) int {
	n, err := strconv.Atoi(s)
	if err != nil {
		panic("bad number in script: " + s)
	}
	return n
}

func (w *world) meter(k int) metric.Meter {
	w.mu.Lock()
	m := w.meters[k]
	w.mu.Unlock()
	if m == nil {
		m = otel.Meter("m" + strconv.Itoa(k))
		w.mu.Lock()
		if w.meters[k] == nil {
			w.meters[k] = m
		}
		m = w.meters[k]
		w.mu.Unlock()
	}
	return m
}

func create(m metric.Meter, kind int, name string) (any, error) {
	switch kind {
	case 0:
		return m.Int64Counter(name)
	case 1:
		return m.Int64UpDownCounter(name)
	case 2:
		return m.Int64Histogram(name)
	case 3:
		return m.Int64Gauge(name)
	case 4:
		return m.Float64Counter(name)
	case 5:
		return m.Float64UpDownCounter(name)
	case 6:
		return m.Float64Histogram(name)
	case 7:
		return m.Float64Gauge(name)
	case 8:
		return m.Int64ObservableCounter(name)
	case 9:
		return m.Int64ObservableUpDownCounter(name)
	case 10:
		return m.Int64ObservableGauge(name)
	case 11:
		return m.Float64ObservableCounter(name)
	case 12:
		return m.Float64ObservableUpDownCounter(name)
	case 13:
		return m.Float64ObservableGauge(name)
	}
	panic("bad kind")
}

func measure(h *instH, v int) {
	ctx := context.Background()
	switch h.kind {
	case 0:
		h.obj.(metric.Int64Counter).Add(ctx, int64(v))
	case 1:
		h.obj.(metric.Int64UpDownCounter).Add(ctx, int64(v))
	case 2:
		h.obj.(metric.Int64Histogram).Record(ctx, int64(v))
	case 3:
		h.obj.(metric.Int64Gauge).Record(ctx, int64(v))
	case 4:
		h.obj.(metric.Float64Counter).Add(ctx, float64(v))
	case 5:
		h.obj.(metric.Float64UpDownCounter).Add(ctx, float64(v))
	case 6:
		h.obj.(metric.Float64Histogram).Record(ctx, float64(v))
	case 7:
		h.obj.(metric.Float64Gauge).Record(ctx, float64(v))
	default:
		panic("A on an observable instrument")
	}
}

func (w *world) exec(op []string) {
	switch op[0] {
	case "M":
		w.meter(atoi(op[1]))
	case "K":
		i, k, kind := atoi(op[1]), atoi(op[2]), atoi(op[3])
		obj, err := create(w.meter(k), kind, "i"+op[1])
		if err != nil || obj == nil {
			w.fail("K%d:%v", i, err)
			return
		}
		w.mu.Lock()
		w.insts[i] = &instH{kind: kind, meter: k, obj: obj}
		w.mu.Unlock()
	case "A":
		w.mu.Lock()
		h := w.insts[atoi(op[1])]
		w.mu.Unlock()
		if h == nil {
			w.fail("A:no-inst-%s", op[1])
			return
		}
		measure(h, atoi(op[2]))
	case "R", "RB":
		c, k := atoi(op[1]), atoi(op[2])
		h := &cbH{meter: k}
		var objs []*instH
		var obs []metric.Observable
		w.mu.Lock()
		for _, s := range strings.Split(op[3], ",") {
			ih := w.insts[atoi(s)]
			if ih == nil {
				w.mu.Unlock()
				w.fail("R:no-inst-%s", s)
				return
			}
			h.insts = append(h.insts, atoi(s))
			objs = append(objs, ih)
			obs = append(obs, ih.obj.(metric.Observable))
		}
		w.mu.Unlock()
		attr := metric.WithAttributes(attribute.Int("cb", c))
		f := func(_ context.Context, o metric.Observer) error {
			h.count.Add(1)
			if p := h.park.Swap(nil); p != nil {
				close(p.in) // this invocation (reader 0's cycle) is now inside the user function …
				<-p.rel     // … and stays there while reader 1 collects
			}
			for _, ih := range objs {
				if ih.kind <= 10 {
					o.ObserveInt64(ih.obj.(metric.Int64Observable), int64(c+1), attr)
				} else {
					o.ObserveFloat64(ih.obj.(metric.Float64Observable), float64(c+1), attr)
				}
			}
			return nil
		}
		reg, err := w.meter(k).RegisterCallback(f, obs...)
		if err != nil || reg == nil {
			w.fail("R%d:%v", c, err)
			return
		}
		h.reg = reg
		w.mu.Lock()
		w.cbs[c] = h
		w.mu.Unlock()
	case "U":
		w.mu.Lock()
		h := w.cbs[atoi(op[1])]
		w.mu.Unlock()
		if h == nil {
			w.fail("U:no-cb-%s", op[1])
			return
		}
		if err := h.reg.Unregister(); err != nil {
			w.fail("U%s:%v", op[1], err)
		}
	case "T":
		t := atoi(op[1])
		tr := otel.Tracer("t" + op[1])
		w.mu.Lock()
		if w.tracers[t] == nil {
			w.tracers[t] = tr
		}
		w.mu.Unlock()
	case "S":
		w.mu.Lock()
		tr := w.tracers[atoi(op[1])]
		w.mu.Unlock()
		if tr == nil {
			w.fail("S:no-tracer-%s", op[1])
			return
		}
		ctx := context.Background()
		if len(op) > 3 {
			w.mu.Lock()
			pctx := w.spanCtx[atoi(strings.TrimPrefix(op[3], "^"))]
			w.mu.Unlock()
			if pctx == nil {
				w.fail("S:no-parent-%s", op[3])
				return
			}
			ctx = pctx
		}
		ctx2, sp := tr.Start(ctx, "s"+op[2])
		sp.End()
		w.mu.Lock()
		w.spanCtx[atoi(op[2])] = ctx2
		w.spanObj[atoi(op[2])] = sp
		w.mu.Unlock()
	case "TS":
		t := atoi(op[1])
		w.mu.Lock()
		sp := w.spanObj[atoi(op[2])]
		w.mu.Unlock()
		if sp == nil {
			w.fail("TS:no-span-%s", op[2])
			return
		}
		tr := sp.TracerProvider().Tracer("t" + op[1])
		w.mu.Lock()
		if w.tracers[t] == nil {
			w.tracers[t] = tr
		}
		w.mu.Unlock()
	case "P", "PG":
		sc := trace.NewSpanContext(trace.SpanContextConfig{
			TraceID: trace.TraceID{1}, SpanID: trace.SpanID{2}, TraceFlags: trace.FlagsSampled, Remote: true})
		ctx := trace.ContextWithRemoteSpanContext(context.Background(), sc)
		if mem, err := baggage.NewMember("k", "v"); err == nil {
			if bg, err := baggage.New(mem); err == nil {
				ctx = baggage.ContextWithBaggage(ctx, bg)
			}
		}
		car := propagation.MapCarrier{}
		if op[0] == "P" {
			w.prop0.Inject(ctx, car)
		} else {
			otel.GetTextMapPropagator().Inject(ctx, car)
		}
		v := 0
		if car.Get("traceparent") != "" {
			v |= 1
		}
		if car.Get("baggage") != "" {
			v |= 2
		}
		w.mu.Lock()
		w.props[atoi(op[1])] = v
		w.mu.Unlock()
	case "OC":
		if w.active && len(w.pendIdx) > 0 {
			// an operation that was waiting for one of the installer's locks may still be on its way: what the SDK holds
			// at this moment is not determined by the script
			w.ocs = append(w.ocs, "skip")
			return
		}
		w.mu.Lock()
		h := w.cbs[atoi(op[1])]
		w.mu.Unlock()
		p := &parkReq{in: make(chan struct{}), rel: make(chan struct{})}
		if h != nil {
			h.park.Store(p)
		}
		aDone := make(chan func() string, 1)
		go func() { aDone <- w.cycle(0) }()
		var obsA func() string
		parked := false
		select {
		case <-p.in:
			parked = true
		case obsA = <-aDone: // callback c is not live: reader 0's cycle ran through
		}
		obsB := w.cycle(1)
		if parked {
			close(p.rel)
			obsA = <-aDone
		}
		if h != nil {
			h.park.Store(nil)
		}
		w.ocs = append(w.ocs, "A="+obsA()+"/B="+obsB()+"~0")
	case "CC":
		if w.active && len(w.pendIdx) > 0 {
			w.ocs = append(w.ocs, "skip")
			return
		}
		n := atoi(op[1])
		var first [2]string
		var differ atomic.Int64
		var wg sync.WaitGroup
		for rd := 0; rd < 2; rd++ {
			wg.Add(1)
			go func(rd int) {
				defer wg.Done()
				for k := 0; k < n; k++ {
					s := w.cycle(rd)()
					if k == 0 {
						first[rd] = s
					} else if s != first[rd] {
						differ.Add(1)
					}
				}
			}(rd)
		}
		wg.Wait()
		w.ocs = append(w.ocs, "A="+first[0]+"/B="+first[1]+"~"+strconv.FormatInt(differ.Load(), 10))
	case "W":
		// handled by run() before anything else
	case "IM":
		otel.SetMeterProvider(w.delegateMP())
	case "IT":
		otel.SetTracerProvider(w.tp)
	case "IP":
		otel.SetTextMapPropagator(propagation.TraceContext{})
	case "IP2":
		otel.SetTextMapPropagator(propagation.Baggage{})
	case "XM":
		otel.SetMeterProvider(otel.GetMeterProvider())
	case "XT":
		otel.SetTracerProvider(otel.GetTracerProvider())
	case "XP":
		otel.SetTextMapPropagator(otel.GetTextMapPropagator())
	case "Y":
		for i := atoi(op[1]); i > 0; i-- {
			runtime.Gosched()
		}
	default:
		panic("unknown op " + op[0])
	}
}

// cycle runs one collection cycle of reader rd (0 / 1) of the installed delegate — the recording delegate's or the
// SDK's (two ManualReaders, one pipeline and one Observer per reader) — and returns a function that renders what
// that reader received in this cycle; it is called once every overlapping cycle has finished.
func (w *world) cycle(rd int) func() string {
	if w.useRec {
		obs := w.rec.collectObs(rd)
		return func() string { return renderPoints(obs) }
	}
	reader := w.reader
	if rd == 1 {
		reader = w.reader2
	}
	var rm metricdata.ResourceMetrics
	if err := reader.Collect(context.Background(), &rm); err != nil {
		w.fail("collect%d:%v", rd, err)
	}
	var pts []recPoint
	add := func(name string, set attribute.Set, v int) {
		pts = append(pts, recPoint{inst: name, cb: cbOf(set), v: v})
	}
	w.mu.Lock()
	for _, sm := range rm.ScopeMetrics {
		for _, m := range sm.Metrics {
			id, err := strconv.Atoi(strings.TrimPrefix(m.Name, "i"))
			if err != nil || w.insts[id] == nil || w.insts[id].kind < 8 {
				continue
			}
			switch d := m.Data.(type) {
			case metricdata.Sum[int64]:
				for _, dp := range d.DataPoints {
					add(m.Name, dp.Attributes, int(dp.Value))
				}
			case metricdata.Sum[float64]:
				for _, dp := range d.DataPoints {
					add(m.Name, dp.Attributes, int(dp.Value))
				}
			case metricdata.Gauge[int64]:
				for _, dp := range d.DataPoints {
					add(m.Name, dp.Attributes, int(dp.Value))
				}
			case metricdata.Gauge[float64]:
				for _, dp := range d.DataPoints {
					add(m.Name, dp.Attributes, int(dp.Value))
				}
			}
		}
	}
	w.mu.Unlock()
	s := renderPts(pts)
	return func() string { return s }
}

// predictBlock: will this operation wait for a lock the parked installer holds? Only used to choose how long the
// harness waits before it declares the operation pending; a wrong guess costs time, never correctness.
func (w *world) predictBlock(op []string) bool {
	if w.gatedKind == "T" {
		return op[0] == "T" || op[0] == "TS" || op[0] == "IT"
	}
	switch op[0] {
	case "M", "IM":
		return true
	case "K":
		return atoi(op[2]) == w.curMeter
	case "R", "RB":
		return atoi(op[2]) == w.curMeter
	case "U":
		w.mu.Lock()
		h := w.cbs[atoi(op[1])]
		w.mu.Unlock()
		return h != nil && h.meter == w.curMeter
	}
	return false
}

func (w *world) waitGate() {
	select {
	case g := <-w.gateCh:
		w.atGate = true
		w.cur = g
		w.gates = append(w.gates, g)
		if strings.HasPrefix(g, "m") {
			w.curMeter = atoi(g[1:])
		}
	case <-w.instDone:
		w.atGate = false
		w.active = false
		w.cur = ""
		w.curMeter = -1
		w.joinPending()
	}
}

func (w *world) release() {
	if w.atGate {
		w.atGate = false
		w.relCh <- struct{}{}
		w.waitGate()
	}
}

func (w *world) joinPending() {
	for _, d := range w.pending {
		<-d
	}
	w.pending = nil
}

func (w *world) startGated(kind string, lvl int) {
	w.instDone = make(chan struct{})
	w.active = true
	w.gatedKind = kind
	started := make(chan struct{})
	go func() {
		w.instGoid.Store(goid())
		close(started)
		if kind == "M" {
			otel.SetMeterProvider(&gateMP{w: w, lvl: lvl})
		} else {
			otel.SetTracerProvider(&gateTP{w: w})
		}
		w.instGoid.Store(0)
		close(w.instDone)
	}()
	<-started
	w.waitGate()
}

// step executes one top-level group of the script on the scheduling goroutine.
func (w *world) step(op []string) {
	w.opIdx++
	switch op[0] {
	case "GM":
		w.startGated("M", atoi(op[1]))
	case "GT":
		w.startGated("T", 1)
	case "N":
		w.release()
	case "F":
		for w.atGate {
			w.release()
		}
		w.joinPending()
	default:
		if !w.active {
			w.exec(op)
			return
		}
		done := make(chan struct{})
		go func() { defer close(done); w.exec(op) }()
		wait := 2 * time.Second
		if w.predictBlock(op) {
			wait = 40 * time.Millisecond
		}
		select {
		case <-done:
		case <-time.After(wait):
			w.pending = append(w.pending, done)
			w.pendIdx = append(w.pendIdx, w.opIdx)
		}
	}
}

func (w *world) parallel(threads [][][]string) {
	var wg sync.WaitGroup
	start := make(chan struct{})
	for _, th := range threads {
		wg.Add(1)
		go func(ops [][]string) {
			defer wg.Done()
			<-start
			for _, op := range ops {
				w.exec(op)
			}
		}(th)
	}
	close(start)
	wg.Wait()
}

func parseScript(s string) [][]string {
	var out [][]string
	for _, g := range strings.Split(s, "|") {
		f := strings.Fields(g)
		if len(f) > 0 {
			out = append(out, f)
		}
	}
	return out
}

func (w *world) run(script string) {
	ops := parseScript(script)
	if len(ops) > 0 && ops[0][0] == "W" {
		w.useRec = len(ops[0]) > 1 && ops[0][1] == "1"
		ops = ops[1:]
	}
	for i := 0; i < len(ops); i++ {
		if ops[i][0] == "[" {
			var threads [][][]string
			cur := [][]string{}
			i++
			for ; i < len(ops) && ops[i][0] != "]"; i++ {
				if ops[i][0] == ";" {
					threads = append(threads, cur)
					cur = [][]string{}
				} else {
					cur = append(cur, ops[i])
				}
			}
			threads = append(threads, cur)
			w.parallel(threads)
			continue
		}
		w.step(ops[i])
	}
	w.step([]string{"F"})
}

// ---- observation

func num(f float64) string { return strconv.FormatInt(int64(f), 10) }

func cbOf(set attribute.Set) int {
	v, ok := set.Value("cb")
	if !ok {
		return -1
	}
	return int(v.AsInt64())
}

func (w *world) observe() string {
	ctx := context.Background()
	var rm metricdata.ResourceMetrics
	for i := 0; i < 2; i++ {
		rm = metricdata.ResourceMetrics{}
		if err := w.reader.Collect(ctx, &rm); err != nil {
			w.fail("collect:%v", err)
		}
	}
	data := map[string]string{}
	if w.useRec {
		w.rec.collect()
		data = w.rec.collect()
		rm = metricdata.ResourceMetrics{}
	}
	type pt struct{ c, v int }
	ptsOf := func(ps []pt) string {
		sort.Slice(ps, func(a, b int) bool { return ps[a].c < ps[b].c || ps[a].c == ps[b].c && ps[a].v < ps[b].v })
		var ss []string
		for _, p := range ps {
			if p.c < 0 {
				ss = append(ss, strconv.Itoa(p.v))
			} else {
				ss = append(ss, fmt.Sprintf("%d:%d", p.c, p.v))
			}
		}
		return strings.Join(ss, ";")
	}
	for _, sm := range rm.ScopeMetrics {
		for _, m := range sm.Metrics {
			var s string
			switch d := m.Data.(type) {
			case metricdata.Sum[int64]:
				var ps []pt
				for _, dp := range d.DataPoints {
					ps = append(ps, pt{cbOf(dp.Attributes), int(dp.Value)})
				}
				s = ptsOf(ps)
			case metricdata.Sum[float64]:
				var ps []pt
				for _, dp := range d.DataPoints {
					ps = append(ps, pt{cbOf(dp.Attributes), int(dp.Value)})
				}
				s = ptsOf(ps)
			case metricdata.Gauge[int64]:
				var ps []pt
				for _, dp := range d.DataPoints {
					ps = append(ps, pt{cbOf(dp.Attributes), int(dp.Value)})
				}
				s = ptsOf(ps)
			case metricdata.Gauge[float64]:
				var ps []pt
				for _, dp := range d.DataPoints {
					ps = append(ps, pt{cbOf(dp.Attributes), int(dp.Value)})
				}
				s = ptsOf(ps)
			case metricdata.Histogram[int64]:
				var ss []string
				for _, dp := range d.DataPoints {
					ss = append(ss, fmt.Sprintf("%d:%d", dp.Count, dp.Sum))
				}
				s = strings.Join(ss, ";")
			case metricdata.Histogram[float64]:
				var ss []string
				for _, dp := range d.DataPoints {
					ss = append(ss, fmt.Sprintf("%d:%s", dp.Count, num(dp.Sum)))
				}
				s = strings.Join(ss, ";")
			default:
				s = "?"
			}
			if prev, dup := data[m.Name]; dup {
				s = prev + "+" + s // the same stream reported twice: visible to the oracle
			}
			data[m.Name] = s
		}
	}
	join := func(ss []string) string {
		if len(ss) == 0 {
			return "-"
		}
		return strings.Join(ss, ",")
	}
	var ids []int
	for i := range w.insts {
		ids = append(ids, i)
	}
	sort.Ints(ids)
	var syncs, obss []string
	for _, i := range ids {
		v := data["i"+strconv.Itoa(i)]
		if v == "" {
			v = "-"
		}
		if w.insts[i].kind < 8 {
			syncs = append(syncs, fmt.Sprintf("i%d=%s", i, v))
		} else {
			obss = append(obss, fmt.Sprintf("i%d=%s", i, v))
		}
	}
	ids = ids[:0]
	for c := range w.cbs {
		ids = append(ids, c)
	}
	sort.Ints(ids)
	var cbs []string
	for _, c := range ids {
		cbs = append(cbs, fmt.Sprintf("c%d=%d", c, w.cbs[c].count.Load()))
	}
	// exported spans with the parent the SDK recorded (parent's span context if valid, mapped back to our ids)
	exported := w.exp.GetSpans()
	idOf := map[trace.SpanID]int{}
	for _, s := range exported {
		idOf[s.SpanContext.SpanID()] = atoi(strings.TrimPrefix(s.Name, "s"))
	}
	type sp struct {
		id  int
		par string
	}
	var spans []sp
	for _, s := range exported {
		e := sp{id: atoi(strings.TrimPrefix(s.Name, "s"))}
		if s.Parent.IsValid() {
			if p, ok := idOf[s.Parent.SpanID()]; ok {
				e.par = "^" + strconv.Itoa(p)
			} else {
				e.par = "^?"
			}
		}
		spans = append(spans, e)
	}
	sort.Slice(spans, func(a, b int) bool { return spans[a].id < spans[b].id })
	var sps []string
	for _, s := range spans {
		sps = append(sps, strconv.Itoa(s.id)+s.par)
	}
	ids = ids[:0]
	for p := range w.props {
		ids = append(ids, p)
	}
	sort.Ints(ids)
	var ps []string
	for _, p := range ids {
		ps = append(ps, fmt.Sprintf("p%d=%d", p, w.props[p]))
	}
	status := "ok"
	if e := w.apiErr.Load(); e != nil {
		status = "err:" + strings.Map(func(r rune) rune {
			if r == ' ' || r == '\n' || r == '\t' {
				return '_'
			}
			return r
		}, e.(string))
		if len(status) > 80 {
			status = status[:80]
		}
	} else if w.handled.Load() > 0 {
		status = "err:handled"
	}
	var pend []string
	for _, p := range w.pendIdx {
		pend = append(pend, strconv.Itoa(p))
	}
	return strings.Join([]string{status, join(w.gates), join(syncs), join(obss), join(cbs), join(sps), join(ps), "pend=" + join(pend), "oc=" + join(w.ocs)}, " ")
}

// TestVerifC16Child runs one scenario (script in C16_SCRIPT) and prints its observation.
func TestVerifC16Child(t *testing.T) {
	script := os.Getenv("C16_SCRIPT")
	if script == "" {
		t.Skip("not a child")
	}
	ms, _ := strconv.Atoi(os.Getenv("C16_WATCHDOG_MS"))
	if ms <= 0 {
		ms = 5000
	}
	time.AfterFunc(time.Duration(ms)*time.Millisecond, func() {
		buf := make([]byte, 1<<16)
		n := runtime.Stack(buf, true)
		fmt.Fprintf(os.Stderr, "C16 watchdog: scenario did not complete\n%s\n", buf[:n])
		fmt.Println("\nC16OBS hang")
		os.Exit(0)
	})
	w := newWorld()
	w.run(script)
	fmt.Println("\nC16OBS " + w.observe())
	_ = w.mp.Shutdown(context.Background())
	_ = w.tp.Shutdown(context.Background())
}
