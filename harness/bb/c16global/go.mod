module verif/c16global

go 1.23.0

require (
	go.opentelemetry.io/otel v1.35.0
	go.opentelemetry.io/otel/metric v1.35.0
	go.opentelemetry.io/otel/sdk v1.35.0
	go.opentelemetry.io/otel/sdk/metric v1.35.0
	go.opentelemetry.io/otel/trace v1.35.0
)

replace go.opentelemetry.io/otel => /repo

replace go.opentelemetry.io/otel/metric => /repo/metric

replace go.opentelemetry.io/otel/trace => /repo/trace

replace go.opentelemetry.io/otel/sdk => /repo/sdk

replace go.opentelemetry.io/otel/sdk/metric => /repo/sdk/metric
