module verif/c16global

go 1.23.0

require (
	go.opentelemetry.io/otel v1.35.0
	go.opentelemetry.io/otel/metric v1.35.0
	go.opentelemetry.io/otel/sdk v1.35.0
	go.opentelemetry.io/otel/sdk/metric v1.35.0
	go.opentelemetry.io/otel/trace v1.35.0
)

require (
	github.com/go-logr/logr v1.4.2 // indirect
	github.com/go-logr/stdr v1.2.2 // indirect
	github.com/google/uuid v1.6.0 // indirect
	go.opentelemetry.io/auto/sdk v1.1.0 // indirect
	golang.org/x/sys v0.32.0 // indirect
)

replace go.opentelemetry.io/otel => /repo

replace go.opentelemetry.io/otel/metric => /repo/metric

replace go.opentelemetry.io/otel/trace => /repo/trace

replace go.opentelemetry.io/otel/sdk => /repo/sdk

replace go.opentelemetry.io/otel/sdk/metric => /repo/sdk/metric
