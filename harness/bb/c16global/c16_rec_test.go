// C16 — a second recording delegate: an API-conformant MeterProvider in which EVERY instrument kind is a type of
// its own (8 synchronous + 6 observable kinds; each embeds only the matching metric/embedded type and implements
// only its own interface, the way metric/noop is built). go.opentelemetry.io/otel/sdk/metric implements the four
// synchronous int64 kinds (and the four float64 kinds) with ONE type, which hides any place of internal/global that
// treats the delegate of one kind as if it were of another kind. Scenarios whose script starts with `W 1` install
// this provider instead of the SDK; it records what it receives per instrument and produces the same observation.
package c16global

import (
	"context"
	"errors"
	"sort"
	"strconv"
	"strings"
	"sync"

	"go.opentelemetry.io/otel/metric"
	membedded "go.opentelemetry.io/otel/metric/embedded"
)

type recCell struct {
	mu    sync.Mutex
	kind  int
	owner *recMeter
	count int
	sum   int
	last  int
	name  string
}

func (c *recCell) rec(v int) {
	c.mu.Lock()
	c.count++
	c.sum += v
	c.last = v
	c.mu.Unlock()
}

// recObs is implemented by the six observable types only.
type recObs interface{ obsCell() *recCell }

// ---- one type per kind

type recI64Counter struct {
	membedded.Int64Counter
	c *recCell
}

func (r *recI64Counter) Add(_ context.Context, v int64, _ ...metric.AddOption) { r.c.rec(int(v)) }

type recI64UpDown struct {
	membedded.Int64UpDownCounter
	c *recCell
}

func (r *recI64UpDown) Add(_ context.Context, v int64, _ ...metric.AddOption) { r.c.rec(int(v)) }

type recI64Hist struct {
	membedded.Int64Histogram
	c *recCell
}

func (r *recI64Hist) Record(_ context.Context, v int64, _ ...metric.RecordOption) { r.c.rec(int(v)) }

type recI64Gauge struct {
	membedded.Int64Gauge
	c *recCell
}

func (r *recI64Gauge) Record(_ context.Context, v int64, _ ...metric.RecordOption) { r.c.rec(int(v)) }

type recF64Counter struct {
	membedded.Float64Counter
	c *recCell
}

func (r *recF64Counter) Add(_ context.Context, v float64, _ ...metric.AddOption) { r.c.rec(int(v)) }

type recF64UpDown struct {
	membedded.Float64UpDownCounter
	c *recCell
}

func (r *recF64UpDown) Add(_ context.Context, v float64, _ ...metric.AddOption) { r.c.rec(int(v)) }

type recF64Hist struct {
	membedded.Float64Histogram
	c *recCell
}

func (r *recF64Hist) Record(_ context.Context, v float64, _ ...metric.RecordOption) { r.c.rec(int(v)) }

type recF64Gauge struct {
	membedded.Float64Gauge
	c *recCell
}

func (r *recF64Gauge) Record(_ context.Context, v float64, _ ...metric.RecordOption) { r.c.rec(int(v)) }

type recI64ObsCounter struct {
	membedded.Int64ObservableCounter
	metric.Int64Observable
	c *recCell
}

func (r *recI64ObsCounter) obsCell() *recCell { return r.c }

type recI64ObsUpDown struct {
	membedded.Int64ObservableUpDownCounter
	metric.Int64Observable
	c *recCell
}

func (r *recI64ObsUpDown) obsCell() *recCell { return r.c }

type recI64ObsGauge struct {
	membedded.Int64ObservableGauge
	metric.Int64Observable
	c *recCell
}

func (r *recI64ObsGauge) obsCell() *recCell { return r.c }

type recF64ObsCounter struct {
	membedded.Float64ObservableCounter
	metric.Float64Observable
	c *recCell
}

func (r *recF64ObsCounter) obsCell() *recCell { return r.c }

type recF64ObsUpDown struct {
	membedded.Float64ObservableUpDownCounter
	metric.Float64Observable
	c *recCell
}

func (r *recF64ObsUpDown) obsCell() *recCell { return r.c }

type recF64ObsGauge struct {
	membedded.Float64ObservableGauge
	metric.Float64Observable
	c *recCell
}

func (r *recF64ObsGauge) obsCell() *recCell { return r.c }

// ---- meter, registration, observer, provider

type recEntry struct {
	obj  any
	cell *recCell
}

type recReg struct {
	membedded.Registration
	m    *recMeter
	f    metric.Callback
	dead bool
}

func (r *recReg) Unregister() error {
	r.m.mu.Lock()
	r.dead = true
	r.m.mu.Unlock()
	return nil
}

type recMeter struct {
	membedded.Meter
	name  string
	mu    sync.Mutex
	insts map[string]*recEntry // name/kind → instrument (lookup-or-create, like an SDK)
	regs  []*recReg
}

func (m *recMeter) get(name string, kind int, mk func(*recCell) any) any {
	m.mu.Lock()
	defer m.mu.Unlock()
	key := name + "/" + strconv.Itoa(kind)
	if e, ok := m.insts[key]; ok {
		return e.obj
	}
	c := &recCell{kind: kind, owner: m, name: name}
	e := &recEntry{obj: mk(c), cell: c}
	m.insts[key] = e
	return e.obj
}

func (m *recMeter) Int64Counter(n string, _ ...metric.Int64CounterOption) (metric.Int64Counter, error) {
	return m.get(n, 0, func(c *recCell) any { return &recI64Counter{c: c} }).(metric.Int64Counter), nil
}
func (m *recMeter) Int64UpDownCounter(n string, _ ...metric.Int64UpDownCounterOption) (metric.Int64UpDownCounter, error) {
	return m.get(n, 1, func(c *recCell) any { return &recI64UpDown{c: c} }).(metric.Int64UpDownCounter), nil
}
func (m *recMeter) Int64Histogram(n string, _ ...metric.Int64HistogramOption) (metric.Int64Histogram, error) {
	return m.get(n, 2, func(c *recCell) any { return &recI64Hist{c: c} }).(metric.Int64Histogram), nil
}
func (m *recMeter) Int64Gauge(n string, _ ...metric.Int64GaugeOption) (metric.Int64Gauge, error) {
	return m.get(n, 3, func(c *recCell) any { return &recI64Gauge{c: c} }).(metric.Int64Gauge), nil
}
func (m *recMeter) Float64Counter(n string, _ ...metric.Float64CounterOption) (metric.Float64Counter, error) {
	return m.get(n, 4, func(c *recCell) any { return &recF64Counter{c: c} }).(metric.Float64Counter), nil
}
func (m *recMeter) Float64UpDownCounter(n string, _ ...metric.Float64UpDownCounterOption) (metric.Float64UpDownCounter, error) {
	return m.get(n, 5, func(c *recCell) any { return &recF64UpDown{c: c} }).(metric.Float64UpDownCounter), nil
}
func (m *recMeter) Float64Histogram(n string, _ ...metric.Float64HistogramOption) (metric.Float64Histogram, error) {
	return m.get(n, 6, func(c *recCell) any { return &recF64Hist{c: c} }).(metric.Float64Histogram), nil
}
func (m *recMeter) Float64Gauge(n string, _ ...metric.Float64GaugeOption) (metric.Float64Gauge, error) {
	return m.get(n, 7, func(c *recCell) any { return &recF64Gauge{c: c} }).(metric.Float64Gauge), nil
}
func (m *recMeter) Int64ObservableCounter(n string, _ ...metric.Int64ObservableCounterOption) (metric.Int64ObservableCounter, error) {
	return m.get(n, 8, func(c *recCell) any { return &recI64ObsCounter{c: c} }).(metric.Int64ObservableCounter), nil
}
func (m *recMeter) Int64ObservableUpDownCounter(n string, _ ...metric.Int64ObservableUpDownCounterOption) (metric.Int64ObservableUpDownCounter, error) {
	return m.get(n, 9, func(c *recCell) any { return &recI64ObsUpDown{c: c} }).(metric.Int64ObservableUpDownCounter), nil
}
func (m *recMeter) Int64ObservableGauge(n string, _ ...metric.Int64ObservableGaugeOption) (metric.Int64ObservableGauge, error) {
	return m.get(n, 10, func(c *recCell) any { return &recI64ObsGauge{c: c} }).(metric.Int64ObservableGauge), nil
}
func (m *recMeter) Float64ObservableCounter(n string, _ ...metric.Float64ObservableCounterOption) (metric.Float64ObservableCounter, error) {
	return m.get(n, 11, func(c *recCell) any { return &recF64ObsCounter{c: c} }).(metric.Float64ObservableCounter), nil
}
func (m *recMeter) Float64ObservableUpDownCounter(n string, _ ...metric.Float64ObservableUpDownCounterOption) (metric.Float64ObservableUpDownCounter, error) {
	return m.get(n, 12, func(c *recCell) any { return &recF64ObsUpDown{c: c} }).(metric.Float64ObservableUpDownCounter), nil
}
func (m *recMeter) Float64ObservableGauge(n string, _ ...metric.Float64ObservableGaugeOption) (metric.Float64ObservableGauge, error) {
	return m.get(n, 13, func(c *recCell) any { return &recF64ObsGauge{c: c} }).(metric.Float64ObservableGauge), nil
}

func (m *recMeter) RegisterCallback(f metric.Callback, insts ...metric.Observable) (metric.Registration, error) {
	// like sdk/metric: an observable of another implementation (or nil) rejects the registration as a whole; an
	// observable of another meter is skipped with an error — the callback is still registered for the valid ones and
	// a live Registration is returned TOGETHER with the error; nothing valid: nothing registered
	var err error
	valid := 0
	for _, in := range insts {
		o, ok := in.(recObs)
		if !ok {
			return nil, errors.New("invalid observable: from different implementation")
		}
		if o.obsCell().owner != m {
			err = errors.Join(err, errors.New("invalid registration: observable from another meter"))
			continue
		}
		valid++
	}
	if valid == 0 && err != nil {
		return nil, err
	}
	r := &recReg{m: m, f: f}
	m.mu.Lock()
	m.regs = append(m.regs, r)
	m.mu.Unlock()
	return r, err
}

// recPoint is one observation an Observer received.
type recPoint struct {
	inst  string
	cb, v int
}

// recObserver is the Observer of ONE collection cycle of ONE reader for one meter: what a callback observes through
// it belongs to that collection and to no other.
type recObserver struct {
	membedded.Observer
	m      *recMeter
	reader int
	mu     sync.Mutex
	pts    []recPoint
}

func (o *recObserver) observe(in any, v int, opts []metric.ObserveOption) {
	ro, ok := in.(recObs)
	if !ok || ro.obsCell().owner != o.m {
		return // what an SDK does with a foreign instrument: the observation is lost (and visible as such)
	}
	set := metric.NewObserveConfig(opts).Attributes()
	o.mu.Lock()
	o.pts = append(o.pts, recPoint{inst: ro.obsCell().name, cb: cbOf(set), v: v})
	o.mu.Unlock()
}

func (o *recObserver) points() []recPoint {
	o.mu.Lock()
	defer o.mu.Unlock()
	return append([]recPoint(nil), o.pts...)
}
func (o *recObserver) ObserveInt64(in metric.Int64Observable, v int64, opts ...metric.ObserveOption) {
	o.observe(in, int(v), opts)
}
func (o *recObserver) ObserveFloat64(in metric.Float64Observable, v float64, opts ...metric.ObserveOption) {
	o.observe(in, int(v), opts)
}

type recMP struct {
	membedded.MeterProvider
	mu     sync.Mutex
	meters map[string]*recMeter
}

func newRecMP() *recMP { return &recMP{meters: map[string]*recMeter{}} }

func (p *recMP) Meter(name string, _ ...metric.MeterOption) metric.Meter {
	p.mu.Lock()
	defer p.mu.Unlock()
	m := p.meters[name]
	if m == nil {
		m = &recMeter{name: name, insts: map[string]*recEntry{}}
		p.meters[name] = m
	}
	return m
}

// collectObs is one collection cycle of reader `reader`: every live callback of every meter is invoked once with
// the Observer of this cycle (one per meter, as an SDK pipeline does). Several readers may collect at the same time.
// The observers are returned; their points are read when every overlapping cycle has finished.
func (p *recMP) collectObs(reader int) []*recObserver {
	p.mu.Lock()
	var ms []*recMeter
	for _, m := range p.meters {
		ms = append(ms, m)
	}
	p.mu.Unlock()
	var out []*recObserver
	for _, m := range ms {
		m.mu.Lock()
		var regs []*recReg
		for _, r := range m.regs {
			if !r.dead {
				regs = append(regs, r)
			}
		}
		m.mu.Unlock()
		o := &recObserver{m: m, reader: reader}
		out = append(out, o)
		for _, r := range regs {
			_ = r.f(context.Background(), o)
		}
	}
	return out
}

// renderPoints: the observations of one collection cycle, sorted: `<inst>.<cb>.<v>;…` or `-`.
func renderPoints(obs []*recObserver) string {
	var pts []recPoint
	for _, o := range obs {
		pts = append(pts, o.points()...)
	}
	return renderPts(pts)
}

func renderPts(pts []recPoint) string {
	sort.Slice(pts, func(a, b int) bool {
		x, y := pts[a], pts[b]
		if len(x.inst) != len(y.inst) {
			return len(x.inst) < len(y.inst)
		}
		if x.inst != y.inst {
			return x.inst < y.inst
		}
		if x.cb != y.cb {
			return x.cb < y.cb
		}
		return x.v < y.v
	})
	if len(pts) == 0 {
		return "-"
	}
	var ss []string
	for _, q := range pts {
		ss = append(ss, q.inst+"."+strconv.Itoa(q.cb)+"."+strconv.Itoa(q.v))
	}
	return strings.Join(ss, ";")
}

// collect runs every live callback once (one collection cycle of reader 0) and returns instrument name → rendered
// data, in the format the SDK-backed observation uses.
func (p *recMP) collect() map[string]string {
	observed := map[string]map[int]int{} // observable instrument → callback id → value of this cycle
	for _, o := range p.collectObs(0) {
		for _, q := range o.points() {
			if observed[q.inst] == nil {
				observed[q.inst] = map[int]int{}
			}
			observed[q.inst][q.cb] = q.v
		}
	}
	p.mu.Lock()
	var ms []*recMeter
	for _, m := range p.meters {
		ms = append(ms, m)
	}
	p.mu.Unlock()
	data := map[string]string{}
	for _, m := range ms {
		m.mu.Lock()
		entries := map[string]*recEntry{}
		for k, e := range m.insts {
			entries[k] = e
		}
		m.mu.Unlock()
		for k, e := range entries {
			name := k[:strings.LastIndex(k, "/")]
			c := e.cell
			c.mu.Lock()
			var s string
			switch {
			case c.kind >= 8:
				var cs []int
				for cb := range observed[name] {
					cs = append(cs, cb)
				}
				sort.Ints(cs)
				var ss []string
				for _, cb := range cs {
					ss = append(ss, strconv.Itoa(cb)+":"+strconv.Itoa(observed[name][cb]))
				}
				s = strings.Join(ss, ";")
			case c.count == 0:
				s = ""
			case c.kind == 2 || c.kind == 6:
				s = strconv.Itoa(c.count) + ":" + strconv.Itoa(c.sum)
			case c.kind == 3 || c.kind == 7:
				s = strconv.Itoa(c.last)
			default:
				s = strconv.Itoa(c.sum)
			}
			c.mu.Unlock()
			if s == "" {
				continue
			}
			if prev, dup := data[name]; dup {
				s = prev + "+" + s
			}
			data[name] = s
		}
	}
	return data
}
