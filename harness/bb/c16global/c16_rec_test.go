// C16 — a second recording delegate: an API-conformant MeterProvider in which EVERY instrument kind is a type of
// its own (8 synchronous + 6 observable kinds; each embeds only the matching metric/embedded type and implements
// only its own interface, the way metric/noop is built). go.opentelemetry.io/otel/sdk/metric implements the four
// synchronous int64 kinds (and the four float64 kinds) with ONE type, which hides any place of internal/global that
// treats the delegate of one kind as if it were of another kind. Scenarios whose script starts with `W 1` install
// this provider instead of the SDK; it records what it receives per instrument and produces the same observation.
package c16global

import (
	"context"
	"errors"
	"sort"
	"strconv"
	"strings"
	"sync"

	"go.opentelemetry.io/otel/metric"
	membedded "go.opentelemetry.io/otel/metric/embedded"
)

type recCell struct {
	mu     sync.Mutex
	kind   int
	owner  *recMeter
	count  int
	sum    int
	last   int
	points map[int]int // observable kinds: callback id → value observed in the current collect
}

func (c *recCell) rec(v int) {
	c.mu.Lock()
	c.count++
	c.sum += v
	c.last = v
	c.mu.Unlock()
}

// recObs is implemented by the six observable types only.
type recObs interface{ obsCell() *recCell }

// ---- one type per kind

type recI64Counter struct {
	membedded.Int64Counter
	c *recCell
}

func (r *recI64Counter) Add(_ context.Context, v int64, _ ...metric.AddOption) { r.c.rec(int(v)) }

type recI64UpDown struct {
	membedded.Int64UpDownCounter
	c *recCell
}

func (r *recI64UpDown) Add(_ context.Context, v int64, _ ...metric.AddOption) { r.c.rec(int(v)) }

type recI64Hist struct {
	membedded.Int64Histogram
	c *recCell
}

func (r *recI64Hist) Record(_ context.Context, v int64, _ ...metric.RecordOption) { r.c.rec(int(v)) }

type recI64Gauge struct {
	membedded.Int64Gauge
	c *recCell
}

func (r *recI64Gauge) Record(_ context.Context, v int64, _ ...metric.RecordOption) { r.c.rec(int(v)) }

type recF64Counter struct {
	membedded.Float64Counter
	c *recCell
}

func (r *recF64Counter) Add(_ context.Context, v float64, _ ...metric.AddOption) { r.c.rec(int(v)) }

type recF64UpDown struct {
	membedded.Float64UpDownCounter
	c *recCell
}

func (r *recF64UpDown) Add(_ context.Context, v float64, _ ...metric.AddOption) { r.c.rec(int(v)) }

type recF64Hist struct {
	membedded.Float64Histogram
	c *recCell
}

func (r *recF64Hist) Record(_ context.Context, v float64, _ ...metric.RecordOption) { r.c.rec(int(v)) }

type recF64Gauge struct {
	membedded.Float64Gauge
	c *recCell
}

func (r *recF64Gauge) Record(_ context.Context, v float64, _ ...metric.RecordOption) { r.c.rec(int(v)) }

type recI64ObsCounter struct {
	membedded.Int64ObservableCounter
	metric.Int64Observable
	c *recCell
}

func (r *recI64ObsCounter) obsCell() *recCell { return r.c }

type recI64ObsUpDown struct {
	membedded.Int64ObservableUpDownCounter
	metric.Int64Observable
	c *recCell
}

func (r *recI64ObsUpDown) obsCell() *recCell { return r.c }

type recI64ObsGauge struct {
	membedded.Int64ObservableGauge
	metric.Int64Observable
	c *recCell
}

func (r *recI64ObsGauge) obsCell() *recCell { return r.c }

type recF64ObsCounter struct {
	membedded.Float64ObservableCounter
	metric.Float64Observable
	c *recCell
}

func (r *recF64ObsCounter) obsCell() *recCell { return r.c }

type recF64ObsUpDown struct {
	membedded.Float64ObservableUpDownCounter
	metric.Float64Observable
	c *recCell
}

func (r *recF64ObsUpDown) obsCell() *recCell { return r.c }

type recF64ObsGauge struct {
	membedded.Float64ObservableGauge
	metric.Float64Observable
	c *recCell
}

func (r *recF64ObsGauge) obsCell() *recCell { return r.c }

// ---- meter, registration, observer, provider

type recEntry struct {
	obj  any
	cell *recCell
}

type recReg struct {
	membedded.Registration
	m    *recMeter
	f    metric.Callback
	dead bool
}

func (r *recReg) Unregister() error {
	r.m.mu.Lock()
	r.dead = true
	r.m.mu.Unlock()
	return nil
}

type recMeter struct {
	membedded.Meter
	name  string
	mu    sync.Mutex
	insts map[string]*recEntry // name/kind → instrument (lookup-or-create, like an SDK)
	regs  []*recReg
}

func (m *recMeter) get(name string, kind int, mk func(*recCell) any) any {
	m.mu.Lock()
	defer m.mu.Unlock()
	key := name + "/" + strconv.Itoa(kind)
	if e, ok := m.insts[key]; ok {
		return e.obj
	}
	c := &recCell{kind: kind, owner: m, points: map[int]int{}}
	e := &recEntry{obj: mk(c), cell: c}
	m.insts[key] = e
	return e.obj
}

func (m *recMeter) Int64Counter(n string, _ ...metric.Int64CounterOption) (metric.Int64Counter, error) {
	return m.get(n, 0, func(c *recCell) any { return &recI64Counter{c: c} }).(metric.Int64Counter), nil
}
func (m *recMeter) Int64UpDownCounter(n string, _ ...metric.Int64UpDownCounterOption) (metric.Int64UpDownCounter, error) {
	return m.get(n, 1, func(c *recCell) any { return &recI64UpDown{c: c} }).(metric.Int64UpDownCounter), nil
}
func (m *recMeter) Int64Histogram(n string, _ ...metric.Int64HistogramOption) (metric.Int64Histogram, error) {
	return m.get(n, 2, func(c *recCell) any { return &recI64Hist{c: c} }).(metric.Int64Histogram), nil
}
func (m *recMeter) Int64Gauge(n string, _ ...metric.Int64GaugeOption) (metric.Int64Gauge, error) {
	return m.get(n, 3, func(c *recCell) any { return &recI64Gauge{c: c} }).(metric.Int64Gauge), nil
}
func (m *recMeter) Float64Counter(n string, _ ...metric.Float64CounterOption) (metric.Float64Counter, error) {
	return m.get(n, 4, func(c *recCell) any { return &recF64Counter{c: c} }).(metric.Float64Counter), nil
}
func (m *recMeter) Float64UpDownCounter(n string, _ ...metric.Float64UpDownCounterOption) (metric.Float64UpDownCounter, error) {
	return m.get(n, 5, func(c *recCell) any { return &recF64UpDown{c: c} }).(metric.Float64UpDownCounter), nil
}
func (m *recMeter) Float64Histogram(n string, _ ...metric.Float64HistogramOption) (metric.Float64Histogram, error) {
	return m.get(n, 6, func(c *recCell) any { return &recF64Hist{c: c} }).(metric.Float64Histogram), nil
}
func (m *recMeter) Float64Gauge(n string, _ ...metric.Float64GaugeOption) (metric.Float64Gauge, error) {
	return m.get(n, 7, func(c *recCell) any { return &recF64Gauge{c: c} }).(metric.Float64Gauge), nil
}
func (m *recMeter) Int64ObservableCounter(n string, _ ...metric.Int64ObservableCounterOption) (metric.Int64ObservableCounter, error) {
	return m.get(n, 8, func(c *recCell) any { return &recI64ObsCounter{c: c} }).(metric.Int64ObservableCounter), nil
}
func (m *recMeter) Int64ObservableUpDownCounter(n string, _ ...metric.Int64ObservableUpDownCounterOption) (metric.Int64ObservableUpDownCounter, error) {
	return m.get(n, 9, func(c *recCell) any { return &recI64ObsUpDown{c: c} }).(metric.Int64ObservableUpDownCounter), nil
}
func (m *recMeter) Int64ObservableGauge(n string, _ ...metric.Int64ObservableGaugeOption) (metric.Int64ObservableGauge, error) {
	return m.get(n, 10, func(c *recCell) any { return &recI64ObsGauge{c: c} }).(metric.Int64ObservableGauge), nil
}
func (m *recMeter) Float64ObservableCounter(n string, _ ...metric.Float64ObservableCounterOption) (metric.Float64ObservableCounter, error) {
	return m.get(n, 11, func(c *recCell) any { return &recF64ObsCounter{c: c} }).(metric.Float64ObservableCounter), nil
}
func (m *recMeter) Float64ObservableUpDownCounter(n string, _ ...metric.Float64ObservableUpDownCounterOption) (metric.Float64ObservableUpDownCounter, error) {
	return m.get(n, 12, func(c *recCell) any { return &recF64ObsUpDown{c: c} }).(metric.Float64ObservableUpDownCounter), nil
}
func (m *recMeter) Float64ObservableGauge(n string, _ ...metric.Float64ObservableGaugeOption) (metric.Float64ObservableGauge, error) {
	return m.get(n, 13, func(c *recCell) any { return &recF64ObsGauge{c: c} }).(metric.Float64ObservableGauge), nil
}

func (m *recMeter) RegisterCallback(f metric.Callback, insts ...metric.Observable) (metric.Registration, error) {
	for _, in := range insts {
		o, ok := in.(recObs)
		if !ok || o.obsCell().owner != m {
			return nil, errors.New("invalid observable: from different implementation")
		}
	}
	r := &recReg{m: m, f: f}
	m.mu.Lock()
	m.regs = append(m.regs, r)
	m.mu.Unlock()
	return r, nil
}

type recObserver struct {
	membedded.Observer
	m *recMeter
}

func (o *recObserver) observe(in any, v int, opts []metric.ObserveOption) {
	ro, ok := in.(recObs)
	if !ok || ro.obsCell().owner != o.m {
		return // what an SDK does with a foreign instrument: the observation is lost (and visible as such)
	}
	set := metric.NewObserveConfig(opts).Attributes()
	c := ro.obsCell()
	c.mu.Lock()
	c.points[cbOf(set)] = v
	c.mu.Unlock()
}
func (o *recObserver) ObserveInt64(in metric.Int64Observable, v int64, opts ...metric.ObserveOption) {
	o.observe(in, int(v), opts)
}
func (o *recObserver) ObserveFloat64(in metric.Float64Observable, v float64, opts ...metric.ObserveOption) {
	o.observe(in, int(v), opts)
}

type recMP struct {
	membedded.MeterProvider
	mu     sync.Mutex
	meters map[string]*recMeter
}

func newRecMP() *recMP { return &recMP{meters: map[string]*recMeter{}} }

func (p *recMP) Meter(name string, _ ...metric.MeterOption) metric.Meter {
	p.mu.Lock()
	defer p.mu.Unlock()
	m := p.meters[name]
	if m == nil {
		m = &recMeter{name: name, insts: map[string]*recEntry{}}
		p.meters[name] = m
	}
	return m
}

// collect runs every live callback once (one collection cycle) and returns instrument name → rendered data,
// in the format the SDK-backed observation uses.
func (p *recMP) collect() map[string]string {
	p.mu.Lock()
	var ms []*recMeter
	for _, m := range p.meters {
		ms = append(ms, m)
	}
	p.mu.Unlock()
	data := map[string]string{}
	for _, m := range ms {
		m.mu.Lock()
		var regs []*recReg
		for _, r := range m.regs {
			if !r.dead {
				regs = append(regs, r)
			}
		}
		entries := map[string]*recEntry{}
		for k, e := range m.insts {
			entries[k] = e
			if e.cell.kind >= 8 {
				e.cell.mu.Lock()
				e.cell.points = map[int]int{}
				e.cell.mu.Unlock()
			}
		}
		m.mu.Unlock()
		for _, r := range regs {
			_ = r.f(context.Background(), &recObserver{m: m})
		}
		for k, e := range entries {
			name := k[:strings.LastIndex(k, "/")]
			c := e.cell
			c.mu.Lock()
			var s string
			switch {
			case c.kind >= 8:
				var cs []int
				for cb := range c.points {
					cs = append(cs, cb)
				}
				sort.Ints(cs)
				var ss []string
				for _, cb := range cs {
					ss = append(ss, strconv.Itoa(cb)+":"+strconv.Itoa(c.points[cb]))
				}
				s = strings.Join(ss, ";")
			case c.count == 0:
				s = ""
			case c.kind == 2 || c.kind == 6:
				s = strconv.Itoa(c.count) + ":" + strconv.Itoa(c.sum)
			case c.kind == 3 || c.kind == 7:
				s = strconv.Itoa(c.last)
			default:
				s = strconv.Itoa(c.sum)
			}
			c.mu.Unlock()
			if s == "" {
				continue
			}
			if prev, dup := data[name]; dup {
				s = prev + "+" + s
			}
			data[name] = s
		}
	}
	return data
}
