// C16 — PARENT side: generates scenario scripts (or takes them from VERIF_REPLAY), runs each one in a child
// process (the test binary itself, TestVerifC16Child) on all cores, and writes one trace line per scenario:
//
//	<kind> <gen> <script…> => <status> <gates> <sync> <observable> <callbacks> <spans> <inject> pend=<…> oc=<…>
//
// oc = results of the OC / CC operations (overlapping collections of the recording delegate's two readers), one per
// operation: `A=<points of reader 0's cycle>/B=<points of reader 1's cycle>~<cycles that differed from the first>`,
// points = `<instrument>.<callback>.<value>` sorted, `;`-separated.
//
// kind `forced`: controlled schedule (gated installer, operations issued at the gates) — replayed step by step on
// the Lean LTS; kind `stress`: free-running goroutines — judged by the Spec oracle only.
package c16global

import (
	"bytes"
	"context"
	"fmt"
	"os"
	"os/exec"
	"runtime"
	"strconv"
	"strings"
	"sync"
	"testing"
	"time"
)

type scen struct {
	kind, gen, script string
	obs               string
}

func runChild(script string, watchdogMs int) (obs string, raceReport string) {
	ctx, cancel := context.WithTimeout(context.Background(), time.Duration(watchdogMs+6000)*time.Millisecond)
	defer cancel()
	cmd := exec.CommandContext(ctx, os.Args[0], "-test.run=^TestVerifC16Child$", "-test.count=1", "-test.timeout=60s")
	cmd.Env = append(os.Environ(), "C16_SCRIPT="+script, "C16_WATCHDOG_MS="+strconv.Itoa(watchdogMs), "VERIF_OUT=", "VERIF_REPLAY=")
	var so, se bytes.Buffer
	cmd.Stdout = &so
	cmd.Stderr = &se
	_ = cmd.Run()
	all := so.String() + "\n" + se.String()
	if i := strings.Index(all, "WARNING: DATA RACE"); i >= 0 {
		end := i + 2500
		if end > len(all) {
			end = len(all)
		}
		raceReport = all[i:end]
	}
	for _, l := range strings.Split(so.String(), "\n") {
		if strings.HasPrefix(l, "C16OBS ") {
			obs = strings.TrimPrefix(l, "C16OBS ")
		}
	}
	if raceReport != "" {
		return "race - - - - - - pend=- oc=-", raceReport
	}
	if obs != "" {
		if obs == "hang" {
			obs = "hang - - - - - - pend=- oc=-"
		}
		return obs, ""
	}
	if ctx.Err() != nil {
		return "hang - - - - - - pend=- oc=-", ""
	}
	class := "exit"
	if i := strings.Index(all, "panic: "); i >= 0 {
		rest := all[i+7:]
		if j := strings.IndexAny(rest, "\n"); j >= 0 {
			rest = rest[:j]
		}
		class = strings.Map(func(r rune) rune {
			if r == ' ' || r == '\t' {
				return '_'
			}
			return r
		}, rest)
		if len(class) > 60 {
			class = class[:60]
		}
	} else if strings.Contains(all, "fatal error: all goroutines are asleep") {
		return "hang - - - - - - pend=- oc=-", ""
	}
	return "panic:" + class + " - - - - - - pend=- oc=-", ""
}

func TestVerifC16Global(t *testing.T) {
	if os.Getenv("C16_SCRIPT") != "" {
		t.Skip("child process")
	}
	out := vOpen(t)
	defer out.Close()
	var scens []*scen
	if rl := vReplayLines(); rl != nil {
		for _, toks := range rl {
			if len(toks) < 3 {
				continue
			}
			scens = append(scens, &scen{kind: toks[0], gen: toks[1], script: strings.Join(toks[2:], " ")})
		}
	} else {
		r := &vRand{s: vSeed()*0x9e3779b9 + 16}
		n := vN(300)
		for i := 0; i < n; i++ {
			scens = append(scens, generate(r, i))
		}
	}
	workers := runtime.NumCPU()
	if workers > 16 {
		workers = 16
	}
	var wg sync.WaitGroup
	var mu sync.Mutex
	var races []string
	ch := make(chan *scen)
	for k := 0; k < workers; k++ {
		wg.Add(1)
		go func() {
			defer wg.Done()
			for s := range ch {
				obs, race := runChild(s.script, 5000)
				s.obs = obs
				if race != "" {
					mu.Lock()
					races = append(races, race)
					mu.Unlock()
				}
			}
		}()
	}
	for _, s := range scens {
		ch <- s
	}
	close(ch)
	wg.Wait()
	// a hang verdict is only issued after the scenario has been re-run alone with a doubled timeout
	// (the machine may be busy with other checks). Once one hang is confirmed that way the verdict of the run is
	// settled, and the other hung scenarios keep their observation without being re-run one by one.
	confirmed := false
	for _, s := range scens {
		if confirmed || !strings.HasPrefix(s.obs, "hang") {
			continue
		}
		obs, _ := runChild(s.script, 10000)
		if strings.HasPrefix(obs, "hang") {
			confirmed = true
		} else {
			s.obs = obs
		}
	}
	for _, s := range scens {
		out.Line("%s %s %s => %s", s.kind, s.gen, s.script, s.obs)
	}
	for i, r := range races {
		if i < 2 {
			fmt.Println(r) // bin/check looks for the race detector's banner in the go output
		}
	}
}

// ------------------------------------------------------------------ generators

type gInst struct{ id, meter, kind int }
type gCb struct{ id, meter int }
type gSpan struct{ id, tracer int }

type gen struct {
	r                  *vRand
	ops                []string
	nM                 int
	meters             []int // handles that exist
	insts              []gInst
	cbs                []gCb
	trs                []int
	spans              []gSpan // spans whose context can be used as a parent
	nI, nC, nT, nS, nP int
	// entities created by operations that may still be pending (usable after the join only)
	lateMeters []int
	lateInsts  []gInst
	lateCbs    []gCb
	lateTrs    []int
	late       bool
	useRec     bool // the script installs the recording delegate (`W 1`): OC / CC are available
}

func (g *gen) emit(format string, a ...any) { g.ops = append(g.ops, fmt.Sprintf(format, a...)) }

func (g *gen) promote() {
	g.meters = append(g.meters, g.lateMeters...)
	g.insts = append(g.insts, g.lateInsts...)
	g.cbs = append(g.cbs, g.lateCbs...)
	g.trs = append(g.trs, g.lateTrs...)
	g.lateMeters, g.lateInsts, g.lateCbs, g.lateTrs = nil, nil, nil, nil
}

func (g *gen) newMeter() {
	k := g.nM
	g.nM++
	g.emit("M %d", k)
	if g.late {
		g.lateMeters = append(g.lateMeters, k)
	} else {
		g.meters = append(g.meters, k)
	}
}

func (g *gen) newInst(kindBias int) {
	if len(g.meters) == 0 {
		return
	}
	m := vPick(g.r, g.meters)
	kind := g.r.Intn(14)
	if kindBias == 1 {
		kind = 8 + g.r.Intn(6)
	} else if kindBias == 2 {
		kind = g.r.Intn(8)
	}
	i := g.nI
	g.nI++
	g.emit("K %d %d %d", i, m, kind)
	if g.late {
		g.lateInsts = append(g.lateInsts, gInst{i, m, kind})
	} else {
		g.insts = append(g.insts, gInst{i, m, kind})
	}
}

func (g *gen) add() {
	var c []gInst
	for _, i := range g.insts {
		if i.kind < 8 {
			c = append(c, i)
		}
	}
	if len(c) == 0 {
		return
	}
	g.emit("A %d %d", vPick(g.r, c).id, 1+g.r.Intn(9))
}

func (g *gen) reg() { g.regOn(-1) }

// regBad: a callback on meter k that names an observable instrument of ANOTHER meter. The placeholder meter accepts
// it silently; the SDK rejects it when the registration is forwarded during the installation (error path of
// registration.setDelegate: reported to the global error handler, the remaining registrations are still forwarded).
// Returns the meter, or -1.
func (g *gen) regBad() int {
	var obs []gInst
	for _, i := range g.insts {
		if i.kind >= 8 {
			obs = append(obs, i)
		}
	}
	if len(obs) == 0 || len(g.meters) < 2 {
		return -1
	}
	foreign := vPick(g.r, obs)
	var ks []int
	for _, m := range g.meters {
		if m != foreign.meter {
			ks = append(ks, m)
		}
	}
	if len(ks) == 0 {
		return -1
	}
	k := vPick(g.r, ks)
	// only foreign observables: the SDK registers nothing; with own observables as well (every other time, if the meter
	// has one) the SDK registers the callback for those and returns a live Registration TOGETHER with an error (former
	// finding F50) — unless the foreign instrument's meter has not been delegated yet (Go map order): rejected as a whole
	sel := []string{strconv.Itoa(foreign.id)}
	if g.r.Intn(2) == 0 {
		for _, i := range obs {
			if i.meter == k && (len(sel) == 1 || g.r.Intn(2) == 0) {
				sel = append(sel, strconv.Itoa(i.id))
			}
		}
	}
	for _, i := range obs {
		if i.meter == foreign.meter && i.id != foreign.id && g.r.Intn(3) == 0 {
			sel = append(sel, strconv.Itoa(i.id))
		}
	}
	c := g.nC
	g.nC++
	g.emit("RB %d %d %s", c, k, strings.Join(sel, ","))
	g.cbs = append(g.cbs, gCb{c, k})
	return k
}

// regOn registers a callback on meter pref if it has an observable instrument, else on a random meter that has one.
func (g *gen) regOn(pref int) {
	byMeter := map[int][]int{}
	var ms []int
	for _, i := range g.insts {
		if i.kind >= 8 {
			if len(byMeter[i.meter]) == 0 {
				ms = append(ms, i.meter)
			}
			byMeter[i.meter] = append(byMeter[i.meter], i.id)
		}
	}
	if len(ms) == 0 {
		return
	}
	m := vPick(g.r, ms)
	if len(byMeter[pref]) > 0 {
		m = pref
	}
	var sel []string
	for _, i := range byMeter[m] {
		if g.r.Intn(2) == 0 || len(byMeter[m]) == 1 {
			sel = append(sel, strconv.Itoa(i))
		}
	}
	if len(sel) == 0 {
		sel = []string{strconv.Itoa(byMeter[m][0])}
	}
	c := g.nC
	g.nC++
	g.emit("R %d %d %s", c, m, strings.Join(sel, ","))
	if g.late {
		g.lateCbs = append(g.lateCbs, gCb{c, m})
	} else {
		g.cbs = append(g.cbs, gCb{c, m})
	}
}

func (g *gen) unreg() {
	if len(g.cbs) == 0 {
		return
	}
	g.emit("U %d", vPick(g.r, g.cbs).id)
}

func (g *gen) newTracer() {
	t := g.nT
	g.nT++
	g.emit("T %d", t)
	if g.late {
		g.lateTrs = append(g.lateTrs, t)
	} else {
		g.trs = append(g.trs, t)
	}
}

// spanOn emits a span on tracer t: from a fresh context, or (parent >= 0) under the context of an earlier span.
func (g *gen) spanOn(t, parent int) int {
	id := g.nS
	g.nS++
	if parent >= 0 {
		g.emit("S %d %d ^%d", t, id, parent)
	} else {
		g.emit("S %d %d", t, id)
	}
	g.spans = append(g.spans, gSpan{id, t})
	return id
}

func (g *gen) span() {
	if len(g.trs) == 0 {
		return
	}
	t := vPick(g.r, g.trs)
	parent := -1
	if len(g.spans) > 0 && g.r.Intn(2) == 0 {
		// prefer a parent started by the same tracer object, else any span
		var same []gSpan
		for _, s := range g.spans {
			if s.tracer == t {
				same = append(same, s)
			}
		}
		if len(same) > 0 && g.r.Intn(3) > 0 {
			parent = vPick(g.r, same).id
		} else {
			parent = vPick(g.r, g.spans).id
		}
	}
	g.spanOn(t, parent)
}

// tracerFromSpan: a tracer obtained through span.TracerProvider() (the placeholder provider for a pre-install span).
func (g *gen) tracerFromSpan() {
	if len(g.spans) == 0 || g.late || g.nT >= 5 {
		return
	}
	t := g.nT
	g.nT++
	g.emit("TS %d %d", t, vPick(g.r, g.spans).id)
	g.trs = append(g.trs, t)
}

// selfSet emits a save/restore-style self-set of one of the three global values.
func (g *gen) selfSet() {
	g.emit(vPick(g.r, []string{"XT", "XM", "XT", "XM", "XP"}))
}

func (g *gen) inject() {
	if g.r.Intn(3) == 0 {
		g.emit("PG %d", g.nP) // through the global value of the moment
	} else {
		g.emit("P %d", g.nP) // through the placeholder obtained before anything was set
	}
	g.nP++
}

// anyOp emits one random basic operation (weights tuned towards the interesting ones).
func (g *gen) anyOp() {
	switch x := g.r.Intn(20); {
	case x < 6:
		g.add()
	case x < 9:
		g.newInst(0)
	case x < 11:
		g.reg()
	case x < 14:
		g.unreg()
	case x < 15:
		if g.nM < 4 {
			g.newMeter()
		} else if len(g.meters) > 0 {
			g.emit("M %d", vPick(g.r, g.meters))
		}
	case x < 17:
		g.span()
	case x < 18:
		if g.r.Intn(3) == 0 {
			g.tracerFromSpan()
		} else if g.nT < 3 {
			g.newTracer()
		}
	case x < 19:
		if g.r.Intn(3) == 0 {
			g.selfSet()
		} else {
			g.inject()
		}
	default:
		g.newInst(1)
	}
}

func (g *gen) prePhase() {
	for k := 1 + g.r.Intn(3); k > 0; k-- {
		g.newMeter()
	}
	for k := 1 + g.r.Intn(5); k > 0; k-- {
		g.newInst(0)
	}
	if g.r.Intn(4) > 0 {
		g.newInst(1)
	}
	for k := g.r.Intn(3); k > 0; k-- {
		g.newTracer()
	}
	for k := g.r.Intn(4); k > 0; k-- {
		g.reg()
	}
	// a registration the SDK will reject, with further (good) registrations on the same meter behind it
	if g.r.Intn(5) == 0 {
		if k := g.regBad(); k >= 0 {
			if g.r.Intn(4) > 0 {
				g.newInst(1)
			}
			for j := g.r.Intn(3); j > 0; j-- {
				g.regOn(k)
			}
		}
	}
	// placeholder spans whose contexts outlive the installation (long-running workers, base contexts)
	for _, t := range g.trs {
		if g.r.Intn(3) > 0 {
			id := g.spanOn(t, -1)
			if g.r.Intn(3) == 0 {
				g.spanOn(t, id)
			}
		}
	}
	for k := g.r.Intn(6); k > 0; k-- {
		g.anyOp()
	}
	// a save/restore helper ran before any SDK existed (self-set, then the real installation follows)
	if g.r.Intn(3) == 0 {
		for k := 1 + g.r.Intn(2); k > 0; k-- {
			g.selfSet()
		}
	}
}

func (g *gen) postPhase() {
	// every synchronous instrument gets at least one measurement after the installation returned
	for _, i := range g.insts {
		if i.kind < 8 && g.r.Intn(5) > 0 {
			g.emit("A %d %d", i.id, 1+g.r.Intn(9))
		}
	}
	for _, t := range g.trs {
		if g.r.Intn(4) == 0 {
			continue
		}
		// child of the oldest span of this tracer (a pre-install placeholder when there is one), then a grandchild
		parent := -1
		for _, s := range g.spans {
			if s.tracer == t {
				parent = s.id
				break
			}
		}
		if parent >= 0 && g.r.Intn(4) > 0 {
			c := g.spanOn(t, parent)
			if g.r.Intn(3) > 0 {
				g.spanOn(t, c)
			}
		} else {
			g.spanOn(t, -1)
		}
	}
	for k := g.r.Intn(8); k > 0; k-- {
		g.anyOp()
	}
	// the delegate's two readers collect at overlapping times: inside a callback registered through the global API
	// (mostly before the installation), forced with a gate; then once more after an Unregister; free-running cycles
	if len(g.cbs) > 0 && g.r.Intn(4) > 0 {
		g.emit("OC %d", vPick(g.r, g.cbs).id)
		if g.r.Intn(3) == 0 {
			g.unreg()
			g.emit("OC %d", vPick(g.r, g.cbs).id)
		}
		if g.r.Intn(4) == 0 {
			g.emit("CC %d", 5+g.r.Intn(20))
		}
	}
	g.inject()
}

func generate(r *vRand, idx int) *scen {
	g := &gen{r: r}
	if r.Intn(10) < 6 {
		return g.forced()
	}
	return g.stress()
}

func (g *gen) forced() *scen {
	r := g.r
	tag := "gm1"
	if r.Intn(2) == 0 {
		g.emit("W 1") // delegate with one Go type per instrument kind
		g.useRec = true
	}
	g.prePhase()
	otherPlain := func() {
		// the providers that are not gated in this scenario are installed plainly at a random moment, or never
		if r.Intn(3) > 0 {
			if r.Intn(4) == 0 {
				g.emit("IP2") // another propagator is set first …
			}
			g.emit("IP")
			if r.Intn(5) == 0 {
				g.emit("IP2") // … or later: stored, but the placeholder does not re-delegate
				g.inject()
			}
		}
	}
	if r.Intn(2) == 0 {
		otherPlain()
	}
	gatedTracer := r.Intn(10) < 2
	expGates := 0
	if gatedTracer {
		tag = "gt"
		if r.Intn(2) == 0 {
			g.emit("IM")
		}
		g.emit("GT")
		expGates = len(g.trs)
	} else {
		if r.Intn(3) == 0 {
			g.emit("IT")
		}
		lvl := 1 + r.Intn(2)
		if r.Intn(12) == 0 {
			g.emit("IM")
			tag = "plain"
			lvl = 0
		} else {
			g.emit("GM %d", lvl)
			tag = "gm" + strconv.Itoa(lvl)
		}
		expGates = len(g.meters)
		if lvl == 2 {
			expGates += len(g.insts) + len(g.cbs)
		}
		if lvl == 0 {
			expGates = 0
		}
	}
	g.late = true
	for k := 0; k < expGates+1; k++ {
		for j := r.Intn(4); j > 0; j-- {
			switch x := r.Intn(12); {
			case x < 3:
				g.unreg()
			case x < 5:
				g.newInst(0)
			case x < 6:
				if gatedTracer {
					g.emit("IT")
				} else if tag != "plain" {
					g.emit("IM")
				}
			case x < 7:
				// a meter (tracer) first looked up while the installation is parked
				if gatedTracer && g.nT < 4 {
					g.newTracer()
				} else if !gatedTracer && g.nM < 5 {
					g.newMeter()
				}
			case x < 8 && !gatedTracer && len(g.cbs) > 0:
				// the delegate's readers collect while the installation is parked: the callbacks the SDK already
				// holds are invoked (their instruments have delegates by then), the others are not
				g.emit("OC %d", vPick(g.r, g.cbs).id)
			default:
				g.anyOp()
			}
		}
		if expGates > 0 {
			g.emit("N")
		}
	}
	g.emit("F")
	g.late = false
	lateMeters := append([]int(nil), g.lateMeters...)
	g.promote()
	// every meter first looked up during the installation gets an instrument (measured by postPhase)
	for _, m := range lateMeters {
		kind := r.Intn(8)
		g.emit("K %d %d %d", g.nI, m, kind)
		g.insts = append(g.insts, gInst{g.nI, m, kind})
		g.nI++
	}
	if gatedTracer && r.Intn(2) == 0 {
		g.emit("IM")
	} else if !gatedTracer && r.Intn(2) == 0 {
		g.emit("IT")
	}
	if r.Intn(2) == 0 {
		otherPlain()
	}
	g.postPhase()
	return &scen{kind: "forced", gen: tag, script: strings.Join(g.ops, " | ")}
}

func (g *gen) stress() *scen {
	r := g.r
	if r.Intn(2) == 0 {
		g.emit("W 1")
		g.useRec = true
	}
	g.prePhase()
	nth := 2 + r.Intn(3)
	installer := r.Intn(nth)
	second := -1
	if r.Intn(3) == 0 {
		second = r.Intn(nth)
	}
	g.emit("[")
	base := *g
	var created gen // union of what the threads created (visible after the join)
	for th := 0; th < nth; th++ {
		if th > 0 {
			g.emit(";")
		}
		// each thread sees the entities of the pre-phase plus its own creations
		g.meters = append([]int(nil), base.meters...)
		g.insts = append([]gInst(nil), base.insts...)
		g.cbs = append([]gCb(nil), base.cbs...)
		g.trs = append([]int(nil), base.trs...)
		g.spans = append([]gSpan(nil), base.spans...)
		nops := 2 + r.Intn(7)
		at := r.Intn(nops)
		for j := 0; j < nops; j++ {
			if r.Intn(3) == 0 {
				g.emit("Y %d", r.Intn(4))
			}
			if j == at && (th == installer || th == second) {
				g.emit("IM")
				if r.Intn(2) == 0 {
					g.emit("IT")
				}
				if r.Intn(3) == 0 {
					g.emit("IP")
				}
				continue
			}
			switch x := r.Intn(10); {
			case x < 2:
				g.unreg()
			case x < 3 && th != installer:
				g.emit("IT")
			default:
				g.anyOp()
			}
		}
		created.meters = append(created.meters, g.meters[len(base.meters):]...)
		created.insts = append(created.insts, g.insts[len(base.insts):]...)
		created.cbs = append(created.cbs, g.cbs[len(base.cbs):]...)
		created.trs = append(created.trs, g.trs[len(base.trs):]...)
		created.spans = append(created.spans, g.spans[len(base.spans):]...)
	}
	g.emit("]")
	g.meters = append(append([]int(nil), base.meters...), created.meters...)
	g.insts = append(append([]gInst(nil), base.insts...), created.insts...)
	g.cbs = append(append([]gCb(nil), base.cbs...), created.cbs...)
	g.trs = append(append([]int(nil), base.trs...), created.trs...)
	g.spans = append(append([]gSpan(nil), base.spans...), created.spans...)
	if r.Intn(2) == 0 {
		g.emit("IT")
	}
	if r.Intn(2) == 0 {
		g.emit("IP")
		if r.Intn(4) == 0 {
			g.emit("IP2")
			g.inject()
		}
	} else if r.Intn(6) == 0 {
		g.emit("IP2")
	}
	g.postPhase()
	return &scen{kind: "stress", gen: "t" + strconv.Itoa(nth), script: strings.Join(g.ops, " | ")}
}
