package propagation

import (
	"context"
	"encoding/hex"
	"fmt"
	"net/http"
	"sort"
	"strconv"
	"strings"
	"testing"

	"go.opentelemetry.io/otel/baggage"
	"go.opentelemetry.io/otel/trace"
)

// TestVerifC03Prop: correspondence lines for propagation/trace_context.go (public API only).
//
//	extract <gen> <xtraceparent> <xtracestate> => R | R0
//	    R  = none | <xtid> <xsid> <flags> <remote> <xtsString> <x re-injected traceparent> <x re-injected tracestate|->
//	    R0 = none | <xtid> <xsid> <flags>          (same traceparent, tracestate header absent)
//	roundtrip <gen> <xtid> <xsid> <flags> <remote> <members> =>
//	    builderr | <x injected traceparent|-> <x injected tracestate|-> | none|<xtid> <xsid> <flags> <remote> <xtsString>
//
//	carrier <gen> m|h | set <xk> <xv> | get <xk> | add <xk> <xv> | raw <xk> <xv,..|-> | keys ... => - | v:<xv> | k:<xk,..|-> ...
//	composite <gen> m|h <order> <xtid> <xsid> <flags> <remote 0|1|n> <members> <presets> <tags>
//	    (order: T = TraceContext{}, P<i> = probe propagator i, B = Baggage{} with the baggage k=v in the context)
//	    => builderr | <carrier dump> | none|<xtid> <xsid> <flags> <remote> <xtsString> | <tag reads> | <fields>
//
// `none` = Extract returned the very context it was given. See lean/Otel/C03/Main.lean and MainDeep.lean.
func TestVerifC03Prop(t *testing.T) {
	out := vOpen(t)
	defer out.Close()
	c := &c03prop{out: out}
	c.local = trace.NewSpanContext(trace.SpanContextConfig{TraceID: trace.TraceID{0xaa, 1}, SpanID: trace.SpanID{0xbb, 2}})
	c.ctx0 = trace.ContextWithSpanContext(context.Background(), c.local)
	if rp := vReplayLines(); rp != nil {
		for _, f := range rp {
			switch f[0] {
			case "extract":
				c.extract(f[1], vUnhex(f[2]), vUnhex(f[3]))
			case "roundtrip":
				fl, _ := strconv.Atoi(f[4])
				c.roundtrip(f[1], vUnhex(f[2]), vUnhex(f[3]), byte(fl), f[5] == "1", c03ParseMembers(f[6]))
			case "carrier":
				c.carrierRun(f[1], f[2], c03Groups(f[3:]))
			case "composite":
				fl, _ := strconv.Atoi(f[6])
				c.compositeRun(f[1], f[2], f[3], vUnhex(f[4]), vUnhex(f[5]), byte(fl), f[7], c03ParseMembers(f[8]), c03ParseMembers(f[9]), c03ParseMembers(f[10]))
			}
		}
		return
	}
	r := &vRand{s: vSeed()}
	n := vN(20000)
	if os_exhaustive() {
		c.exhaustive(r)
	}
	for i := 0; i < n; i++ {
		switch r.Intn(21) {
		case 20:
			c.limitsGen(r)
		case 16, 17:
			c.compositeGen(r)
		case 18, 19:
			c.carrierGen(r)
		case 0, 1, 2:
			c.roundtripGen(r)
		case 3, 4:
			c.extract("valid", c03TP(r, 0, byte(r.Intn(3)), ""), c03Header(r, c03N(r), r.Intn(3) == 0))
		case 5, 6, 7:
			// single byte mutation of a valid traceparent
			h := []byte(c03TP(r, 0, byte(r.Intn(2)), ""))
			h[r.Intn(len(h))] = c03TPBad(r)
			c.extract("mut1", string(h), c03Header(r, r.Intn(3), false))
		case 8, 9:
			// version / flag matrix with and without a tail
			ver := byte(r.Intn(256))
			if r.Intn(3) == 0 {
				ver = vPick(r, []byte{0, 1, 0xfe, 0xff})
			}
			fl := byte(r.Intn(256))
			if r.Bool() {
				fl = byte(r.Intn(5))
			}
			tail := vPick(r, []string{"", "", "-", "-x", "-00", "x", "00", "--", "-what-the-future-holds"})
			c.extract("verflag", c03TP(r, ver, fl, tail), c03Header(r, r.Intn(3), false))
		case 10:
			// insert or delete one byte, or truncate
			h := c03TP(r, 0, 1, "")
			i := r.Intn(len(h) + 1)
			switch r.Intn(3) {
			case 0:
				h = h[:i] + string([]byte{c03TPBad(r)}) + h[i:]
			case 1:
				if i < len(h) {
					h = h[:i] + h[i+1:]
				}
			default:
				h = h[:i]
			}
			c.extract("indel", h, c03Header(r, r.Intn(3), false))
		case 11:
			// zero ids
			h := []byte(c03TP(r, byte(r.Intn(2)), 1, ""))
			if r.Bool() {
				copy(h[3:35], strings.Repeat("0", 32))
			} else {
				copy(h[36:52], strings.Repeat("0", 16))
			}
			c.extract("zeroid", string(h), c03Header(r, r.Intn(3), false))
		case 12:
			c.extract("rnd", vStr(r, 12), vStr(r, 8))
		case 13:
			// a rune spliced over a field, keeping the byte length
			h := []byte(c03TP(r, byte(r.Intn(2)), 1, ""))
			i := r.Intn(len(h) - 3)
			copy(h[i:], vPick(r, []string{"š", "é", "€", "\xc5A", "\xffB", "\xe2\x82F"}))
			c.extract("rune", string(h), "")
		default:
			// good traceparent, bad or odd tracestate
			ts := c03Header(r, c03N(r), true)
			if r.Intn(4) == 0 {
				ts = vStr(r, 8)
			}
			c.extract("badts", c03TP(r, byte(r.Intn(2)), byte(r.Intn(2)), ""), ts)
		}
	}
}

type c03prop struct {
	out   *vOut
	local trace.SpanContext
	ctx0  context.Context
}

func c03b(b bool) int {
	if b {
		return 1
	}
	return 0
}

// doExtract returns the extracted span context or nil when Extract returned the context it was given.
func (c *c03prop) doExtract(tp, ts string, setTP, setTS bool) *trace.SpanContext {
	car := MapCarrier{}
	if setTP {
		car.Set("traceparent", tp)
	}
	if setTS {
		car.Set("tracestate", ts)
	}
	ctx1 := TraceContext{}.Extract(c.ctx0, car)
	if ctx1 == c.ctx0 {
		return nil
	}
	sc := trace.SpanContextFromContext(ctx1)
	return &sc
}

func (c *c03prop) extract(gen, tp, ts string) {
	var res string
	func() {
		defer func() {
			if e := recover(); e != nil {
				res = "panic"
			}
		}()
		var r1, r0 string
		sc := c.doExtract(tp, ts, tp != "" || len(ts)%2 == 0, ts != "" || len(tp)%2 == 0)
		if sc == nil {
			r1 = "none"
		} else {
			tid, sid := sc.TraceID(), sc.SpanID()
			car := MapCarrier{}
			TraceContext{}.Inject(trace.ContextWithSpanContext(context.Background(), *sc), car)
			itp, its := "-", "-"
			if v, ok := car["traceparent"]; ok {
				itp = vHex(v)
			}
			if v, ok := car["tracestate"]; ok {
				its = vHex(v)
			}
			r1 = fmt.Sprintf("%s %s %d %d %s %s %s", vHexB(tid[:]), vHexB(sid[:]), byte(sc.TraceFlags()), c03b(sc.IsRemote()),
				vHex(sc.TraceState().String()), itp, its)
		}
		sc0 := c.doExtract(tp, "", true, false)
		if sc0 == nil {
			r0 = "none"
		} else {
			tid, sid := sc0.TraceID(), sc0.SpanID()
			r0 = fmt.Sprintf("%s %s %d", vHexB(tid[:]), vHexB(sid[:]), byte(sc0.TraceFlags()))
		}
		res = r1 + " | " + r0
	}()
	c.out.Line("extract %s %s %s => %s", gen, vHex(tp), vHex(ts), res)
}

type c03kv struct{ k, v string }

func c03ParseMembers(s string) []c03kv {
	if s == "-" {
		return nil
	}
	var ms []c03kv
	for _, p := range strings.Split(s, ",") {
		kv := strings.Split(p, ":")
		ms = append(ms, c03kv{vUnhex(kv[0]), vUnhex(kv[1])})
	}
	return ms
}

func (c *c03prop) roundtrip(gen, tid, sid string, flags byte, remote bool, ms []c03kv) {
	mem := "-"
	if len(ms) > 0 {
		var ps []string
		for _, m := range ms {
			ps = append(ps, vHex(m.k)+":"+vHex(m.v))
		}
		mem = strings.Join(ps, ",")
	}
	var res string
	func() {
		defer func() {
			if e := recover(); e != nil {
				res = "panic"
			}
		}()
		ts := trace.TraceState{}
		for i := len(ms) - 1; i >= 0; i-- {
			var err error
			ts, err = ts.Insert(ms[i].k, ms[i].v)
			if err != nil {
				res = "builderr"
				return
			}
		}
		var cfg trace.SpanContextConfig
		copy(cfg.TraceID[:], tid)
		copy(cfg.SpanID[:], sid)
		cfg.TraceFlags = trace.TraceFlags(flags)
		cfg.TraceState = ts
		cfg.Remote = remote
		sc := trace.NewSpanContext(cfg)
		car := MapCarrier{}
		TraceContext{}.Inject(trace.ContextWithSpanContext(context.Background(), sc), car)
		itp, its := "-", "-"
		if v, ok := car["traceparent"]; ok {
			itp = vHex(v)
		}
		if v, ok := car["tracestate"]; ok {
			its = vHex(v)
		}
		ctx1 := TraceContext{}.Extract(c.ctx0, car)
		r := "none"
		if ctx1 != c.ctx0 {
			e := trace.SpanContextFromContext(ctx1)
			etid, esid := e.TraceID(), e.SpanID()
			r = fmt.Sprintf("%s %s %d %d %s", vHexB(etid[:]), vHexB(esid[:]), byte(e.TraceFlags()), c03b(e.IsRemote()), vHex(e.TraceState().String()))
		}
		res = itp + " " + its + " | " + r
	}()
	tb, sb := make([]byte, 16), make([]byte, 8)
	copy(tb, tid)
	copy(sb, sid)
	c.out.Line("roundtrip %s %s %s %d %d %s => %s", gen, vHexB(tb), vHexB(sb), flags, c03b(remote), mem, res)
}

func c03ID(r *vRand, n int) string {
	b := make([]byte, n)
	switch r.Intn(12) {
	case 0: // all zero: invalid
	case 1: // a single non-zero byte
		b[r.Intn(n)] = byte(1 + r.Intn(255))
	case 2:
		for i := range b {
			b[i] = 0xff
		}
	default:
		for i := range b {
			b[i] = byte(r.Intn(256))
		}
	}
	return string(b)
}

func (c *c03prop) roundtripGen(r *vRand) {
	n := vPick(r, []int{0, 0, 1, 2, 3, 5, 31, 32, 33})
	var ms []c03kv
	for i := 0; i < n; i++ {
		k := c03Key(r, false)
		if n > 3 {
			k = "k" + strconv.Itoa(i) + k
			if len(k) > 200 {
				k = k[:200]
			}
		}
		ms = append(ms, c03kv{k, c03Val(r, false)})
	}
	gen := "valid"
	if n > 0 && r.Intn(10) == 0 {
		gen = "dupkey"
		ms[r.Intn(n)].k = ms[r.Intn(n)].k
	} else if n > 0 && r.Intn(12) == 0 {
		gen = "badmember"
		if r.Bool() {
			ms[r.Intn(n)].k = c03Key(r, true)
		} else {
			ms[r.Intn(n)].v = c03Val(r, true)
		}
	}
	fl := byte(r.Intn(4))
	if r.Intn(4) == 0 {
		fl = byte(r.Intn(256))
	}
	c.roundtrip(gen, c03ID(r, 16), c03ID(r, 8), fl, r.Bool(), ms)
}

// c03TP: a traceparent with the given version and flags (ids random, non-zero), plus a tail.
func c03TP(r *vRand, ver, flags byte, tail string) string {
	tid, sid := make([]byte, 16), make([]byte, 8)
	for i := range tid {
		tid[i] = byte(r.Intn(256))
	}
	for i := range sid {
		sid[i] = byte(r.Intn(256))
	}
	tid[r.Intn(16)] |= 1
	sid[r.Intn(8)] |= 1
	return hex.EncodeToString([]byte{ver}) + "-" + hex.EncodeToString(tid) + "-" + hex.EncodeToString(sid) + "-" +
		hex.EncodeToString([]byte{flags}) + tail
}

func c03TPBad(r *vRand) byte {
	switch r.Intn(6) {
	case 0:
		return "ABCDEF"[r.Intn(6)]
	case 1:
		return "0123456789abcdef"[r.Intn(16)]
	case 2:
		return byte(r.Intn(256))
	default:
		return vPick(r, []string{"g", "G", "-", " ", "\t", "\x00", "/", ":", "@", "`", "\x80", "\xc5", "\xa1", "\xff", "_", "f", "0"})[0]
	}
}

// exhaustive small scope (thorough tier): the whole version x flags matrix (with and without a tail), every
// position x a bad-byte alphabet, every string of length <= 3 over a 14-byte alphabet appended to / spliced
// into a valid header.
func (c *c03prop) exhaustive(r *vRand) {
	base := c03TP(r, 0, 1, "")
	for v := 0; v < 256; v++ {
		for f := 0; f < 256; f++ {
			h := hex.EncodeToString([]byte{byte(v)}) + base[2:53] + hex.EncodeToString([]byte{byte(f)})
			c.extract("exh-vf", h, "")
			if f < 4 || v < 2 || v > 253 {
				c.extract("exh-vf", h+"-", "")
				c.extract("exh-vf", h+"-x", "")
				c.extract("exh-vf", h+"x", "")
			}
		}
	}
	bad := []byte{'A', 'F', 'G', 'g', '-', ' ', 0, '0', 'f', 0x80, 0xc5, 0xa1, 0xff, '/'}
	for i := 0; i < len(base); i++ {
		for _, b := range bad {
			h := []byte(base)
			h[i] = b
			c.extract("exh-pos", string(h), "a=1")
		}
	}
	var rec func(p []byte, d int)
	rec = func(p []byte, d int) {
		s := string(p)
		c.extract("exh-app", base+s, "")
		c.extract("exh-app", "01"+base[2:]+s, "")
		c.extract("exh-spl", base[:35]+s+base[35+len(s):], "")
		c.extract("exh-spl", s+base[len(s):], "")
		c.extract("exh-ts", base, "a=1"+s)
		if d == 3 {
			return
		}
		for _, b := range bad {
			rec(append(append([]byte{}, p...), b), d+1)
		}
	}
	rec(nil, 0)
}

// ---- generators (copy of the ones of the trace leg; each package gets its own) ----

var c03Bad = []string{"A", "Z", "@", " ", "\t", "=", ",", ".", ":", "\x7f", "\x1f", "\x00", "\x80", "\xc5", "\xa1", "\xff", "\xe1", "~", "!"}

func c03BadByte(r *vRand) byte {
	if r.Intn(4) == 0 {
		return byte(r.Intn(256))
	}
	return vPick(r, c03Bad)[0]
}

const c03keychars = "abcxyz0189_-*/"

func c03KeyPart(r *vRand, first string, rest int) string {
	b := make([]byte, 0, rest+1)
	b = append(b, first[r.Intn(len(first))])
	for i := 0; i < rest; i++ {
		b = append(b, c03keychars[r.Intn(len(c03keychars))])
	}
	return string(b)
}

func c03Key(r *vRand, mutate bool) string {
	var k string
	long := r.Intn(16) == 0
	if r.Intn(3) > 0 {
		n := r.Intn(6)
		if long {
			n = vPick(r, []int{254, 255, 256})
			if !mutate && n == 256 {
				n = 255
			}
		}
		k = c03KeyPart(r, "abkz", n)
	} else {
		tn, sn := r.Intn(4), r.Intn(4)
		if long {
			tn = vPick(r, []int{239, 240, 241})
			sn = vPick(r, []int{12, 13, 14})
			if !mutate {
				tn, sn = 240, 13
			}
		}
		k = c03KeyPart(r, "ab09", tn) + "@" + c03KeyPart(r, "abz", sn)
	}
	if mutate && r.Bool() {
		b := []byte(k)
		switch r.Intn(6) {
		case 0:
			i := r.Intn(len(b))
			k = string(b[:i]) + vPick(r, []string{"š", "é", "İ", "ĭ", "€"}) + string(b[i:])
		case 1:
			b[0] = vPick(r, []string{"0", "_", "-", "A", "@", " "})[0]
			k = string(b)
		case 2:
			k = k + "@" + c03KeyPart(r, "ab", r.Intn(3))
		case 3:
			k = vPick(r, []string{"", "@", "a@", "@a", " a", "a "})
		default:
			b[r.Intn(len(b))] = c03BadByte(r)
			k = string(b)
		}
	}
	return k
}

func c03Val(r *vRand, mutate bool) string {
	n := 1 + r.Intn(6)
	if r.Intn(25) == 0 {
		n = vPick(r, []int{255, 256, 257})
		if !mutate && n == 257 {
			n = 256
		}
	}
	b := make([]byte, n)
	for i := range b {
		for {
			b[i] = byte(0x20 + r.Intn(0x5f))
			if b[i] != ',' && b[i] != '=' {
				break
			}
		}
		if r.Intn(3) > 0 {
			b[i] = "az09 ~!"[r.Intn(7)]
		}
	}
	if b[n-1] == ' ' {
		b[n-1] = '~'
	}
	if mutate && r.Bool() {
		switch r.Intn(5) {
		case 0:
			b[n-1] = ' '
		case 1:
			b[r.Intn(n)] = vPick(r, []string{",", "=", "\t", "\x7f", "\x1f", "\x80", "\xc5"})[0]
		case 2:
			return ""
		case 3:
			b = append(b, "š"...)
		default:
			b[r.Intn(n)] = c03BadByte(r)
		}
	}
	return string(b)
}

func c03Header(r *vRand, n int, noise bool) string {
	// noise modes: 0 = clean, 1 = exactly one noisy member, 2 = every member noisy with probability 1/6
	mode, one := 0, -1
	if noise {
		mode = r.Intn(3)
		if mode == 1 && n > 0 {
			one = r.Intn(n)
		}
	}
	var ms []string
	for i := 0; i < n; i++ {
		noisy := (mode == 1 && i == one) || (mode == 2 && r.Intn(6) == 0)
		k := c03Key(r, noisy && r.Intn(4) == 0)
		if n > 6 || r.Bool() {
			k = "k" + strconv.Itoa(i) + k // keep keys distinct in long lists
			if len(k) > 256 {
				k = k[:256]
			}
		}
		m := k + "=" + c03Val(r, noisy && r.Intn(4) == 0)
		if noisy {
			switch r.Intn(8) {
			case 0:
				m = " " + m
			case 1:
				m = m + vPick(r, []string{" ", "\t", " \t "})
			case 2:
				m = ""
			case 3:
				m = vPick(r, []string{" ", "\t", "a", "=", "=1", "a="})
			case 4:
				if i > 0 {
					m = ms[r.Intn(len(ms))] // duplicate member
				}
			case 5:
				m = strings.Replace(m, "=", vPick(r, []string{" =", "= ", "==", ""}), 1)
			}
		}
		ms = append(ms, m)
	}
	return strings.Join(ms, ",")
}

// c03N: a member count, concentrated around the 32-member bound
func c03N(r *vRand) int {
	if r.Intn(3) == 0 {
		return vPick(r, []int{30, 31, 32, 33, 34})
	}
	return r.Intn(8)
}

// ---- carriers and the composite propagator ----

func c03Groups(toks []string) [][]string {
	var ops [][]string
	var cur []string
	for _, tok := range toks {
		if tok == "|" {
			if cur != nil {
				ops = append(ops, cur)
			}
			cur = []string{}
			continue
		}
		cur = append(cur, tok)
	}
	if cur != nil {
		ops = append(ops, cur)
	}
	return ops
}

func c03HexList(xs []string) string {
	if len(xs) == 0 {
		return "-"
	}
	hs := make([]string, len(xs))
	for i, x := range xs {
		hs[i] = vHex(x)
	}
	sort.Strings(hs)
	return strings.Join(hs, ",")
}

func (c *c03prop) carrierRun(gen, kind string, ops [][]string) {
	var res []string
	func() {
		defer func() {
			if e := recover(); e != nil {
				res = append(res, "panic")
			}
		}()
		var car TextMapCarrier
		hdr := http.Header{}
		mp := MapCarrier{}
		if kind == "h" {
			car = HeaderCarrier(hdr)
		} else {
			car = mp
		}
		for _, op := range ops {
			switch op[0] {
			case "set":
				car.Set(vUnhex(op[1]), vUnhex(op[2]))
				res = append(res, "-")
			case "get":
				res = append(res, "v:"+vHex(car.Get(vUnhex(op[1]))))
			case "add":
				hdr.Add(vUnhex(op[1]), vUnhex(op[2]))
				res = append(res, "-")
			case "raw":
				var vs []string
				if op[2] != "-" {
					for _, x := range strings.Split(op[2], ",") {
						vs = append(vs, vUnhex(x))
					}
				}
				hdr[vUnhex(op[1])] = vs
				res = append(res, "-")
			case "keys":
				res = append(res, "k:"+c03HexList(car.Keys()))
			}
		}
	}()
	var in strings.Builder
	for _, op := range ops {
		in.WriteString(" | " + strings.Join(op, " "))
	}
	c.out.Line("carrier %s %s%s => %s", gen, kind, in.String(), strings.Join(res, " | "))
}

var c03CarKeys = []string{"traceparent", "tracestate", "Traceparent", "TraceParent", "TRACESTATE", "tracE-state", "trace-parent",
	"x-tag", "X-Tag", "x-Tag-a", "baggage", "a", "A", "", "a b", "Trace State", "tr\xc3\xa9", "a_b", "x-a-B", "-a", "a-", "a--b", "z~1", "k:v"}

func c03CarKey(r *vRand) string {
	if r.Intn(6) == 0 {
		return vStr(r, 4)
	}
	return vPick(r, c03CarKeys)
}

func (c *c03prop) carrierGen(r *vRand) {
	kind := vPick(r, []string{"m", "h", "h"})
	n := 1 + r.Intn(12)
	var ops [][]string
	for i := 0; i < n; i++ {
		k := vHex(c03CarKey(r))
		v := vHex(vPick(r, []string{"", "1", "v2", "a=b,c", "00-x"}))
		switch x := r.Intn(10); {
		case x < 4:
			ops = append(ops, []string{"set", k, v})
		case x < 7:
			ops = append(ops, []string{"get", k})
		case x == 7:
			ops = append(ops, []string{"keys"})
		case x == 8 && kind == "h":
			ops = append(ops, []string{"add", k, v})
		case x == 9 && kind == "h":
			vs := vPick(r, []string{"-", v, v + "," + vHex("second")})
			ops = append(ops, []string{"raw", k, vs})
		default:
			ops = append(ops, []string{"get", k})
		}
	}
	c.carrierRun("ops", kind, ops)
}

// c03Tag is the probe propagator: Inject sets one key, Extract records what Get of that key returns.
type c03Tag struct {
	i        int
	key, val string
}

type c03TagKey int

func (p c03Tag) Inject(_ context.Context, car TextMapCarrier) { car.Set(p.key, p.val) }
func (p c03Tag) Extract(ctx context.Context, car TextMapCarrier) context.Context {
	reads, _ := ctx.Value(c03TagKey(0)).([]string)
	reads = append(append([]string{}, reads...), car.Get(p.key))
	return context.WithValue(ctx, c03TagKey(0), reads)
}
func (p c03Tag) Fields() []string { return []string{p.key} }

func c03KVs(ms []c03kv) string {
	if len(ms) == 0 {
		return "-"
	}
	var ps []string
	for _, m := range ms {
		ps = append(ps, vHex(m.k)+":"+vHex(m.v))
	}
	return strings.Join(ps, ",")
}

func (c *c03prop) compositeRun(gen, kind, order, tid, sid string, flags byte, rem string, ms, presets, tags []c03kv) {
	var res string
	func() {
		defer func() {
			if e := recover(); e != nil {
				res = "panic"
			}
		}()
		ts := trace.TraceState{}
		for i := len(ms) - 1; i >= 0; i-- {
			var err error
			ts, err = ts.Insert(ms[i].k, ms[i].v)
			if err != nil {
				res = "builderr"
				return
			}
		}
		var ps []TextMapPropagator
		if order != "-" {
			for _, w := range strings.Split(order, ",") {
				if w == "T" {
					ps = append(ps, TraceContext{})
				} else if w == "B" {
					ps = append(ps, Baggage{})
				} else {
					i, _ := strconv.Atoi(w[1:])
					t := c03kv{}
					if i < len(tags) {
						t = tags[i]
					}
					ps = append(ps, c03Tag{i: i, key: t.k, val: t.v})
				}
			}
		}
		comp := NewCompositeTextMapPropagator(ps...)
		var car TextMapCarrier
		hdr := http.Header{}
		mp := MapCarrier{}
		if kind == "h" {
			car = HeaderCarrier(hdr)
		} else {
			car = mp
		}
		for _, p := range presets {
			car.Set(p.k, p.v)
		}
		ctx := context.Background()
		if bag, err := baggage.Parse("k=v"); err == nil {
			ctx = baggage.ContextWithBaggage(ctx, bag)
		}
		if rem != "n" {
			var cfg trace.SpanContextConfig
			copy(cfg.TraceID[:], tid)
			copy(cfg.SpanID[:], sid)
			cfg.TraceFlags = trace.TraceFlags(flags)
			cfg.TraceState = ts
			cfg.Remote = rem == "1"
			ctx = trace.ContextWithSpanContext(ctx, trace.NewSpanContext(cfg))
		}
		comp.Inject(ctx, car)
		var dump []string
		if kind == "h" {
			for k, vs := range hdr {
				v := ""
				if len(vs) > 0 {
					v = vs[0]
				}
				dump = append(dump, vHex(k)+":"+vHex(v))
			}
		} else {
			for k, v := range mp {
				dump = append(dump, vHex(k)+":"+vHex(v))
			}
		}
		sort.Strings(dump)
		ds := "-"
		if len(dump) > 0 {
			ds = strings.Join(dump, ",")
		}
		// the keys the carrier lists are the keys of the dump
		keys := car.Keys()
		if len(keys) != len(dump) {
			ds += "!keys"
		}
		ctx1 := comp.Extract(c.ctx0, car)
		ex := "none"
		if e := trace.SpanContextFromContext(ctx1); !e.Equal(c.local) {
			etid, esid := e.TraceID(), e.SpanID()
			ex = fmt.Sprintf("%s %s %d %d %s", vHexB(etid[:]), vHexB(esid[:]), byte(e.TraceFlags()), c03b(e.IsRemote()), vHex(e.TraceState().String()))
		}
		reads, _ := ctx1.Value(c03TagKey(0)).([]string)
		rs := "-"
		if len(reads) > 0 {
			hs := make([]string, len(reads))
			for i, x := range reads {
				hs[i] = vHex(x)
			}
			rs = strings.Join(hs, ",")
		}
		res = ds + " | " + ex + " | " + rs + " | " + c03HexList(comp.Fields())
	}()
	tb, sb := make([]byte, 16), make([]byte, 8)
	copy(tb, tid)
	copy(sb, sid)
	c.out.Line("composite %s %s %s %s %s %d %s %s %s %s => %s", gen, kind, order, vHexB(tb), vHexB(sb), flags, rem, c03KVs(ms), c03KVs(presets), c03KVs(tags), res)
}

func (c *c03prop) compositeGen(r *vRand) {
	kind := vPick(r, []string{"m", "h"})
	ntags := r.Intn(4)
	var tags []c03kv
	for i := 0; i < ntags; i++ {
		k := vPick(r, []string{"x-tag", "x-tag2", "baggage", "b3", "X-Other"})
		if r.Intn(5) == 0 {
			k = c03CarKey(r) // may clash with traceparent / tracestate (exactly, or after canonicalisation)
		}
		tags = append(tags, c03kv{k, vPick(r, []string{"1", "v", "a=b", ""})})
	}
	// order: a shuffle of T and the tags, sometimes without T or with T twice
	var ord []string
	for i := range tags {
		ord = append(ord, "P"+strconv.Itoa(i))
	}
	switch r.Intn(8) {
	case 0:
	case 1:
		ord = append(ord, "T", "T")
	default:
		ord = append(ord, "T")
	}
	if r.Intn(3) == 0 {
		ord = append(ord, "B") // the real propagation.Baggage{}; the context carries the baggage k=v
	}
	for i := len(ord) - 1; i > 0; i-- {
		j := r.Intn(i + 1)
		ord[i], ord[j] = ord[j], ord[i]
	}
	order := "-"
	if len(ord) > 0 {
		order = strings.Join(ord, ",")
	}
	var presets []c03kv
	if r.Intn(3) == 0 {
		for i, n := 0, 1+r.Intn(2); i < n; i++ {
			k := vPick(r, []string{"tracestate", "traceparent", "Tracestate", "TRACEPARENT", "x-old", "x-tag"})
			v := vPick(r, []string{"old=1", "00-0af7651916cd43dd8448eb211c80319c-b7ad6b7169203331-01", "zz", ""})
			presets = append(presets, c03kv{k, v})
		}
	}
	n := vPick(r, []int{0, 0, 1, 2, 3, 32})
	var ms []c03kv
	for i := 0; i < n; i++ {
		ms = append(ms, c03kv{"k" + strconv.Itoa(i) + c03Key(r, false)[:1], c03Val(r, false)})
	}
	rem := vPick(r, []string{"0", "1", "0", "1", "n"})
	fl := byte(r.Intn(4))
	c.compositeRun("gen", kind, order, c03ID(r, 16), c03ID(r, 8), fl, rem, ms, presets, tags)
}

// ---- span contexts whose tracestate is at the grammar limits (max key AND max value in one member, 32 members) ----

func (c *c03prop) limitsGen(r *vRand) {
	fill := func(first string, n int) string { return c03KeyPart(r, first, n-1) }
	var k string
	switch r.Intn(3) {
	case 0:
		k = fill("abz", 256)
	case 1:
		k = fill("a09", 241) + "@" + fill("abz", 14)
	default:
		k = fill("a09", 1+r.Intn(241)) + "@" + fill("abz", 1+r.Intn(14))
	}
	v := make([]byte, vPick(r, []int{256, 256, 255, 257}))
	for i := range v {
		v[i] = "az09 ~!;:"[r.Intn(9)]
	}
	if v[len(v)-1] == ' ' {
		v[len(v)-1] = '~'
	}
	ms := []c03kv{{k, string(v)}}
	for i, n := 0, vPick(r, []int{0, 1, 31, 32}); i < n; i++ {
		ms = append(ms, c03kv{"k" + strconv.Itoa(i), c03Val(r, false)})
	}
	if r.Bool() {
		ms[0], ms[len(ms)-1] = ms[len(ms)-1], ms[0]
	}
	if r.Bool() {
		c.roundtrip("lim", c03ID(r, 16), c03ID(r, 8), byte(r.Intn(4)), r.Bool(), ms)
	} else {
		var ps []string
		for _, m := range ms {
			ps = append(ps, m.k+"="+m.v)
		}
		c.extract("lim", c03TP(r, 0, byte(r.Intn(2)), ""), strings.Join(ps, ","))
	}
}
