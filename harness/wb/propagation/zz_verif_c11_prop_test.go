package propagation

// C11 correspondence harness, propagator leg: Inject into a MapCarrier, Extract from it.
//   injext <gen> <mlist> => <x header | - (header not set)> <bag found in the extracted context>   | err (New failed)
// Member/property specs and the observed-bag syntax are those of harness/wb/baggage/zz_verif_c11_core_test.go.

import (
	"context"
	"sort"
	"strconv"
	"strings"
	"testing"

	"go.opentelemetry.io/otel/baggage"
)

type vC11PProp struct {
	kind     byte
	key, val string
}
type vC11PMem struct {
	ctor     string
	key, val string
	props    []vC11PProp
}

func (m vC11PMem) build() baggage.Member {
	props := make([]baggage.Property, len(m.props))
	for i, p := range m.props {
		switch p.kind {
		case 'k':
			props[i], _ = baggage.NewKeyProperty(p.key)
		case 'r':
			props[i], _ = baggage.NewKeyValuePropertyRaw(p.key, p.val)
		case 'e':
			props[i], _ = baggage.NewKeyValueProperty(p.key, p.val)
		}
	}
	var mm baggage.Member
	switch m.ctor {
	case "raw":
		mm, _ = baggage.NewMemberRaw(m.key, m.val, props...)
	case "enc":
		mm, _ = baggage.NewMember(m.key, m.val, props...)
	}
	return mm
}

func (m vC11PMem) spec() string {
	if m.ctor == "zero" {
		return "zero/x/x/-"
	}
	ps := "-"
	if len(m.props) > 0 {
		s := make([]string, len(m.props))
		for i, p := range m.props {
			switch p.kind {
			case 'k':
				s[i] = "k." + vHex(p.key)
			case 'r', 'e':
				s[i] = string(p.kind) + "." + vHex(p.key) + "." + vHex(p.val)
			default:
				s[i] = "z"
			}
		}
		ps = strings.Join(s, "+")
	}
	return m.ctor + "/" + vHex(m.key) + "/" + vHex(m.val) + "/" + ps
}

func vC11PSpec(ms []vC11PMem) string {
	if len(ms) == 0 {
		return "-"
	}
	s := make([]string, len(ms))
	for i, m := range ms {
		s[i] = m.spec()
	}
	return strings.Join(s, ",")
}

func vC11PParse(s string) []vC11PMem {
	if s == "-" {
		return nil
	}
	var out []vC11PMem
	for _, t := range strings.Split(s, ",") {
		f := strings.Split(t, "/")
		if len(f) != 4 {
			panic("bad member spec: " + t)
		}
		m := vC11PMem{ctor: f[0], key: vUnhex(f[1]), val: vUnhex(f[2])}
		if f[3] != "-" {
			for _, ps := range strings.Split(f[3], "+") {
				g := strings.Split(ps, ".")
				p := vC11PProp{kind: g[0][0]}
				if len(g) > 1 {
					p.key = vUnhex(g[1])
				}
				if len(g) > 2 {
					p.val = vUnhex(g[2])
				}
				m.props = append(m.props, p)
			}
		}
		out = append(out, m)
	}
	return out
}

func vC11PBag(b baggage.Baggage) string {
	ms := b.Members()
	if len(ms) == 0 {
		return "-"
	}
	sort.Slice(ms, func(i, j int) bool { return ms[i].Key() < ms[j].Key() })
	s := make([]string, len(ms))
	for i, m := range ms {
		ps := "-"
		if props := m.Properties(); len(props) > 0 {
			q := make([]string, len(props))
			for j, p := range props {
				v, has := p.Value()
				h := "0"
				if has {
					h = "1"
				}
				q[j] = vHex(p.Key()) + "." + h + "." + vHex(v)
			}
			ps = strings.Join(q, "+")
		}
		s[i] = vHex(m.Key()) + "/" + vHex(m.Value()) + "/" + ps
	}
	return strings.Join(s, ",")
}

func vC11PEmit(out *vOut, gen string, ms []vC11PMem) {
	members := make([]baggage.Member, len(ms))
	for i, m := range ms {
		members[i] = m.build()
	}
	b, err := baggage.New(members...)
	if err != nil {
		out.Line("injext %s %s => err -", gen, vC11PSpec(ms))
		return
	}
	prop := Baggage{}
	carrier := MapCarrier{}
	// the sending side keeps its value in a context of its own
	prop.Inject(baggage.ContextWithBaggage(context.Background(), b), carrier)
	hdr := "-"
	if h, ok := carrier["baggage"]; ok {
		hdr = vHex(h)
	}
	got := baggage.FromContext(prop.Extract(context.Background(), carrier))
	out.Line("injext %s %s => %s %s", gen, vC11PSpec(ms), hdr, vC11PBag(got))
}

var vC11PKeys = []string{"a", "b", "c", "k", "key", "k1", "x-y", "%", "!#$&'*+-.^_`|~"}
var vC11PBadKeys = []string{"", " ", "a b", "k,", "\u00e9", "a\xff", "k="}
var vC11PVals = []string{"a", "b", "0", " ", "%", ",", ";", "=", "\"", "\\", "\t", "\n", "+", "\u0161", "\u00e9", "\ufffd", "\u20ac", "\U0001F600", "\u00a0", "\u0085", "%41"}

func vC11PMemGen(r *vRand) vC11PMem {
	m := vC11PMem{ctor: "raw", key: vPick(r, vC11PKeys)}
	switch r.Intn(20) {
	case 0:
		m.key = vPick(r, vC11PBadKeys)
	case 1:
		return vC11PMem{ctor: "zero"}
	case 2:
		m.key += strconv.Itoa(r.Intn(30))
	}
	n := r.Intn(7)
	var sb strings.Builder
	for i := 0; i < n; i++ {
		sb.WriteString(vPick(r, vC11PVals))
	}
	m.val = sb.String()
	if r.Intn(25) == 0 {
		m.val = vStr(r, 4)
	}
	if r.Intn(2) == 0 {
		np := 1 + r.Intn(3)
		for i := 0; i < np; i++ {
			p := vC11PProp{kind: 'k', key: vPick(r, []string{"p", "q", "prop1", "%", "p"})}
			switch r.Intn(4) {
			case 1:
				p.kind = 'r'
			case 2:
				p.kind = 'r'
				p.val = vValidStr(r, 4)
			case 3:
				if r.Intn(5) == 0 {
					p.key = vPick(r, vC11PBadKeys)
				}
			}
			m.props = append(m.props, p)
		}
	}
	return m
}

func TestVerifC11Prop(t *testing.T) {
	out := vOpen(t)
	defer out.Close()
	if rp := vReplayLines(); rp != nil {
		for _, f := range rp {
			if f[0] == "injext" {
				vC11PEmit(out, f[1], vC11PParse(f[2]))
			}
		}
		return
	}
	r := &vRand{s: vSeed()}
	n := vN(5000)
	// F10 through the propagator, reproduced on every run
	for l := 4096; l <= 4098; l++ {
		vC11PEmit(out, "f10", []vC11PMem{{ctor: "raw", key: "k", val: strings.Repeat("a", l-2)}})
	}
	for i := 0; i < n; i++ {
		switch x := r.Intn(200); {
		case x == 0: // around 180 members
			c := 178 + r.Intn(4)
			var ms []vC11PMem
			for j := 0; j < c; j++ {
				ms = append(ms, vC11PMem{ctor: "raw", key: "k" + strconv.Itoa(j), val: strconv.Itoa(j % 5)})
			}
			vC11PEmit(out, "count", ms)
		case x == 1: // one member around 4096 bytes
			l := 4094 + r.Intn(6)
			vC11PEmit(out, "member4096", []vC11PMem{{ctor: "raw", key: "k", val: strings.Repeat("a", l-2)}, {ctor: "raw", key: "x", val: "1"}})
		case x == 2: // total around 8192 bytes
			tl := 8189 + r.Intn(7)
			vC11PEmit(out, "total8192", []vC11PMem{
				{ctor: "raw", key: "a", val: strings.Repeat("a", 3000)},
				{ctor: "raw", key: "b", val: strings.Repeat("b", 3000)},
				{ctor: "raw", key: "c", val: strings.Repeat("c", tl-6008)},
			})
		default:
			c := r.Intn(6)
			ms := make([]vC11PMem, c)
			for j := range ms {
				ms[j] = vC11PMemGen(r)
			}
			vC11PEmit(out, "rnd", ms)
		}
	}
}
