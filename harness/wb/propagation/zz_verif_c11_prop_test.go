package propagation

// C11 correspondence harness, propagator leg: Inject into a MapCarrier, Extract from it.
//   injext <gen> <mlist> => <x header | - (header not set)> <bag found in the extracted context>   | err (New failed)
//   ctx <gen> | <op>... => <observation per op>... | <bag found in every context at the end (context #0 = Background)>...
//       every op derives a NEW context #n from context #<recv>:
//       w:<recv>:<mlist>  ContextWithBaggage(ctx, New(mlist))  (a failing New gives the zero Baggage{})   obs: bag in the new context
//       o:<recv>          ContextWithoutBaggage(ctx)                                                     obs: bag in the new context
//       x:<recv>:<xhdr|-> Baggage{}.Extract(ctx, MapCarrier{"baggage": hdr}) (- = carrier without the key) obs: bag in the new context
//       i:<recv>          Baggage{}.Inject(ctx, fresh MapCarrier); new context = ctx                     obs: <x header> | - (not set)
//   conc <gen> <mlist> => <value and its context copy unchanged 0|1> <bag>
//       one Baggage value (and its copy in a context) is used by 4 goroutines at once: SetMember of an existing and of a new key,
//       DeleteMember, Members() with the returned slice overwritten, String(), Len(), Member(k), Inject, Extract onto the context;
//       afterwards the value and the context copy must dump as at creation (under -race in the thorough tier: no data race).
// Member/property specs and the observed-bag syntax are those of harness/wb/baggage/zz_verif_c11_core_test.go.

import (
	"context"
	"fmt"
	"sort"
	"strconv"
	"strings"
	"sync"
	"testing"

	"go.opentelemetry.io/otel/baggage"
)

type vC11PProp struct {
	kind     byte
	key, val string
}
type vC11PMem struct {
	ctor     string
	key, val string
	props    []vC11PProp
}

func (m vC11PMem) build() baggage.Member {
	props := make([]baggage.Property, len(m.props))
	for i, p := range m.props {
		switch p.kind {
		case 'k':
			props[i], _ = baggage.NewKeyProperty(p.key)
		case 'r':
			props[i], _ = baggage.NewKeyValuePropertyRaw(p.key, p.val)
		case 'e':
			props[i], _ = baggage.NewKeyValueProperty(p.key, p.val)
		}
	}
	var mm baggage.Member
	switch m.ctor {
	case "raw":
		mm, _ = baggage.NewMemberRaw(m.key, m.val, props...)
	case "enc":
		mm, _ = baggage.NewMember(m.key, m.val, props...)
	}
	return mm
}

func (m vC11PMem) spec() string {
	if m.ctor == "zero" {
		return "zero/x/x/-"
	}
	ps := "-"
	if len(m.props) > 0 {
		s := make([]string, len(m.props))
		for i, p := range m.props {
			switch p.kind {
			case 'k':
				s[i] = "k." + vHex(p.key)
			case 'r', 'e':
				s[i] = string(p.kind) + "." + vHex(p.key) + "." + vHex(p.val)
			default:
				s[i] = "z"
			}
		}
		ps = strings.Join(s, "+")
	}
	return m.ctor + "/" + vHex(m.key) + "/" + vHex(m.val) + "/" + ps
}

func vC11PSpec(ms []vC11PMem) string {
	if len(ms) == 0 {
		return "-"
	}
	s := make([]string, len(ms))
	for i, m := range ms {
		s[i] = m.spec()
	}
	return strings.Join(s, ",")
}

func vC11PParse(s string) []vC11PMem {
	if s == "-" {
		return nil
	}
	var out []vC11PMem
	for _, t := range strings.Split(s, ",") {
		f := strings.Split(t, "/")
		if len(f) != 4 {
			panic("bad member spec: " + t)
		}
		m := vC11PMem{ctor: f[0], key: vUnhex(f[1]), val: vUnhex(f[2])}
		if f[3] != "-" {
			for _, ps := range strings.Split(f[3], "+") {
				g := strings.Split(ps, ".")
				p := vC11PProp{kind: g[0][0]}
				if len(g) > 1 {
					p.key = vUnhex(g[1])
				}
				if len(g) > 2 {
					p.val = vUnhex(g[2])
				}
				m.props = append(m.props, p)
			}
		}
		out = append(out, m)
	}
	return out
}

func vC11PBag(b baggage.Baggage) string {
	ms := b.Members()
	if len(ms) == 0 {
		return "-"
	}
	sort.Slice(ms, func(i, j int) bool { return ms[i].Key() < ms[j].Key() })
	s := make([]string, len(ms))
	for i, m := range ms {
		ps := "-"
		if props := m.Properties(); len(props) > 0 {
			q := make([]string, len(props))
			for j, p := range props {
				v, has := p.Value()
				h := "0"
				if has {
					h = "1"
				}
				q[j] = vHex(p.Key()) + "." + h + "." + vHex(v)
			}
			ps = strings.Join(q, "+")
		}
		s[i] = vHex(m.Key()) + "/" + vHex(m.Value()) + "/" + ps
	}
	return strings.Join(s, ",")
}

func vC11PEmit(out *vOut, gen string, ms []vC11PMem) {
	members := make([]baggage.Member, len(ms))
	for i, m := range ms {
		members[i] = m.build()
	}
	b, err := baggage.New(members...)
	if err != nil {
		out.Line("injext %s %s => err -", gen, vC11PSpec(ms))
		return
	}
	prop := Baggage{}
	carrier := MapCarrier{}
	// the sending side keeps its value in a context of its own
	prop.Inject(baggage.ContextWithBaggage(context.Background(), b), carrier)
	hdr := "-"
	if h, ok := carrier["baggage"]; ok {
		hdr = vHex(h)
	}
	got := baggage.FromContext(prop.Extract(context.Background(), carrier))
	out.Line("injext %s %s => %s %s", gen, vC11PSpec(ms), hdr, vC11PBag(got))
}

func vC11PConc(out *vOut, gen string, ms []vC11PMem) {
	members := make([]baggage.Member, len(ms))
	for i, m := range ms {
		members[i] = m.build()
	}
	b, err := baggage.New(members...)
	if err != nil {
		out.Line("conc %s %s => err -", gen, vC11PSpec(ms))
		return
	}
	dump := func(x baggage.Baggage) string {
		return vC11PBag(x) + "|" + strconv.Itoa(x.Len()) + "|" + strconv.Itoa(len(x.String()))
	}
	rec := dump(b)
	ctx := baggage.ContextWithBaggage(context.Background(), b)
	keys := []string{"zz-new"}
	for _, m := range b.Members() {
		keys = append(keys, m.Key())
	}
	sort.Strings(keys)
	repl, _ := baggage.NewMemberRaw(keys[len(keys)-1], "replaced")
	fresh, _ := baggage.NewMemberRaw("zz-fresh", "v")
	prop := Baggage{}
	var wg sync.WaitGroup
	for g := 0; g < 4; g++ {
		wg.Add(1)
		go func(g int) {
			defer wg.Done()
			for i := 0; i < 25; i++ {
				switch g {
				case 0:
					nb, _ := b.SetMember(repl)
					_, _ = nb.SetMember(fresh)
					_ = b.DeleteMember(keys[i%len(keys)])
				case 1:
					got := b.Members()
					for j := range got {
						got[j] = fresh
					}
					_ = b.String()
					_ = b.Len()
					for _, p := range b.Member(keys[i%len(keys)]).Properties() {
						_ = p.String()
					}
				case 2:
					fb := baggage.FromContext(ctx)
					nb, _ := fb.SetMember(fresh)
					_ = baggage.ContextWithBaggage(ctx, nb)
					_ = fb.DeleteMember(keys[0])
				default:
					carrier := MapCarrier{}
					prop.Inject(ctx, carrier)
					_ = baggage.FromContext(prop.Extract(ctx, carrier)).Len()
					_ = baggage.FromContext(prop.Extract(ctx, MapCarrier{"baggage": "zz-other=1"})).String()
				}
			}
		}(g)
	}
	wg.Wait()
	bit := "1"
	if dump(b) != rec || dump(baggage.FromContext(ctx)) != rec {
		bit = "0"
	}
	out.Line("conc %s %s => %s %s", gen, vC11PSpec(ms), bit, vC11PBag(b))
}

func vC11PCtx(out *vOut, gen string, ops []string) {
	prop := Baggage{}
	ctxs := []context.Context{context.Background()}
	var obs []string
	for _, op := range ops {
		f := strings.SplitN(op, ":", 3)
		recv, _ := strconv.Atoi(f[1])
		if recv >= len(ctxs) {
			recv = 0
		}
		parent := ctxs[recv]
		var nc context.Context
		o := ""
		switch f[0] {
		case "w":
			ms := vC11PParse(f[2])
			members := make([]baggage.Member, len(ms))
			for i, m := range ms {
				members[i] = m.build()
			}
			b, _ := baggage.New(members...)
			nc = baggage.ContextWithBaggage(parent, b)
		case "o":
			nc = baggage.ContextWithoutBaggage(parent)
		case "x":
			carrier := MapCarrier{}
			if f[2] != "-" {
				carrier["baggage"] = vUnhex(f[2])
			}
			nc = prop.Extract(parent, carrier)
		default: // "i"
			carrier := MapCarrier{}
			prop.Inject(parent, carrier)
			nc = parent
			o = "-"
			if h, ok := carrier["baggage"]; ok {
				o = vHex(h)
			}
		}
		if o == "" {
			o = vC11PBag(baggage.FromContext(nc))
		}
		ctxs = append(ctxs, nc)
		obs = append(obs, o)
	}
	final := make([]string, len(ctxs))
	for i, c := range ctxs {
		final[i] = vC11PBag(baggage.FromContext(c))
	}
	out.Line("ctx %s | %s => %s | %s", gen, strings.Join(ops, " "), strings.Join(obs, " "), strings.Join(final, " "))
}

var vC11PHdrs = []string{"", "k=v", "a=1,b=2", "k=%2C;p=1", " k = v ; p ", "k", "k=v,", "=", ",", "k=%zz", "k=\xff", "a=1,a=2;q", "\u00e9=1", "k=v;p=%FF"}

func vC11PCtxOps(r *vRand) []string {
	n := 1 + r.Intn(8)
	ops := make([]string, n)
	for i := range ops {
		recv := strconv.Itoa(r.Intn(i + 1))
		if r.Intn(3) > 0 {
			recv = strconv.Itoa(i)
		}
		switch x := r.Intn(20); {
		case x < 6:
			c := r.Intn(4)
			ms := make([]vC11PMem, c)
			for j := range ms {
				ms[j] = vC11PMemGen(r)
			}
			ops[i] = "w:" + recv + ":" + vC11PSpec(ms)
		case x < 8:
			ops[i] = "o:" + recv
		case x < 10:
			ops[i] = "x:" + recv + ":-"
		case x < 16:
			h := vPick(r, vC11PHdrs)
			if r.Intn(4) == 0 {
				h = "k" + strconv.Itoa(r.Intn(9)) + "=" + strings.Repeat("%FF", r.Intn(4)) + vPick(r, []string{"", ";p", ";p=1", ",", ";=", ",x=y"})
			}
			ops[i] = "x:" + recv + ":" + vHex(h)
		default:
			ops[i] = "i:" + recv
		}
	}
	return ops
}

var vC11PKeys = []string{"a", "b", "c", "k", "key", "k1", "x-y", "%", "!#$&'*+-.^_`|~"}
var vC11PBadKeys = []string{"", " ", "a b", "k,", "\u00e9", "a\xff", "k="}
var vC11PVals = []string{"a", "b", "0", " ", "%", ",", ";", "=", "\"", "\\", "\t", "\n", "+", "\u0161", "\u00e9", "\ufffd", "\u20ac", "\U0001F600", "\u00a0", "\u0085", "%41"}

func vC11PMemGen(r *vRand) vC11PMem {
	m := vC11PMem{ctor: "raw", key: vPick(r, vC11PKeys)}
	switch r.Intn(20) {
	case 0:
		m.key = vPick(r, vC11PBadKeys)
	case 1:
		return vC11PMem{ctor: "zero"}
	case 2:
		m.key += strconv.Itoa(r.Intn(30))
	}
	n := r.Intn(7)
	var sb strings.Builder
	for i := 0; i < n; i++ {
		sb.WriteString(vPick(r, vC11PVals))
	}
	m.val = sb.String()
	if r.Intn(25) == 0 {
		m.val = vStr(r, 4)
	}
	if r.Intn(2) == 0 {
		np := 1 + r.Intn(3)
		for i := 0; i < np; i++ {
			p := vC11PProp{kind: 'k', key: vPick(r, []string{"p", "q", "prop1", "%", "p"})}
			switch r.Intn(4) {
			case 1:
				p.kind = 'r'
			case 2:
				p.kind = 'r'
				p.val = vValidStr(r, 4)
			case 3:
				if r.Intn(5) == 0 {
					p.key = vPick(r, vC11PBadKeys)
				}
			}
			m.props = append(m.props, p)
		}
	}
	return m
}

func TestVerifC11Prop(t *testing.T) {
	out := vOpen(t)
	defer out.Close()
	if rp := vReplayLines(); rp != nil {
		for _, f := range rp {
			if f[0] == "injext" {
				vC11PEmit(out, f[1], vC11PParse(f[2]))
			}
			if f[0] == "ctx" {
				vC11PCtx(out, f[1], f[3:])
			}
			if f[0] == "conc" {
				vC11PConc(out, f[1], vC11PParse(f[2]))
			}
		}
		return
	}
	r := &vRand{s: vSeed()}
	n := vN(5000)
	// F10 through the propagator, reproduced on every run
	for l := 4096; l <= 4098; l++ {
		vC11PEmit(out, "f10", []vC11PMem{{ctor: "raw", key: "k", val: strings.Repeat("a", l-2)}})
	}
	if os_exhaustive() {
		// every context script of length <= 4 over a small op alphabet, each op applied to the newest context,
		// and the same with the last op applied to the root context
		alpha := []string{"w:%d:raw/x6b/x31/-", "w:%d:-", "w:%d:raw/xc3a9/x31/-", "o:%d", "x:%d:x6b3d76", "x:%d:x6b", "x:%d:x", "x:%d:-", "i:%d"}
		var rec func(ops []string)
		rec = func(ops []string) {
			if len(ops) > 0 {
				vC11PCtx(out, "exh", ops)
			}
			if len(ops) == 4 {
				return
			}
			for _, a := range alpha {
				rec(append(append([]string{}, ops...), fmt.Sprintf(a, len(ops))))
				if len(ops) >= 2 {
					vC11PCtx(out, "exh0", append(append([]string{}, ops...), fmt.Sprintf(a, 0)))
				}
			}
		}
		rec(nil)
	}
	for i := 0; i < n; i++ {
		switch x := r.Intn(200); {
		case x >= 140:
			vC11PCtx(out, "rnd", vC11PCtxOps(r))
		case x >= 136:
			c := 1 + r.Intn(5)
			ms := make([]vC11PMem, c)
			for j := range ms {
				ms[j] = vC11PMemGen(r)
			}
			vC11PConc(out, "rnd", ms)
		case x == 0: // around 180 members
			c := 178 + r.Intn(4)
			var ms []vC11PMem
			for j := 0; j < c; j++ {
				ms = append(ms, vC11PMem{ctor: "raw", key: "k" + strconv.Itoa(j), val: strconv.Itoa(j % 5)})
			}
			vC11PEmit(out, "count", ms)
		case x == 1: // one member around 4096 bytes
			l := 4094 + r.Intn(6)
			vC11PEmit(out, "member4096", []vC11PMem{{ctor: "raw", key: "k", val: strings.Repeat("a", l-2)}, {ctor: "raw", key: "x", val: "1"}})
		case x == 2: // total around 8192 bytes
			tl := 8189 + r.Intn(7)
			vC11PEmit(out, "total8192", []vC11PMem{
				{ctor: "raw", key: "a", val: strings.Repeat("a", 3000)},
				{ctor: "raw", key: "b", val: strings.Repeat("b", 3000)},
				{ctor: "raw", key: "c", val: strings.Repeat("c", tl-6008)},
			})
		default:
			c := r.Intn(6)
			ms := make([]vC11PMem, c)
			for j := range ms {
				ms[j] = vC11PMemGen(r)
			}
			vC11PEmit(out, "rnd", ms)
		}
	}
}
