package baggage

// C11 correspondence harness (white-box, injected with go test -overlay; /repo is not modified).
//
// Wire grammar (one self-contained case per line, see /verif/lean/Otel/C11/Main.lean):
//   member spec   <raw|enc|zero>/<xkey>/<xval>/<props>     props: - | <p>+<p>...
//   property spec k.<xkey> | r.<xkey>.<xval> | e.<xkey>.<xval> | z      (z = zero Property{})
//   member list   - | <mspec>,<mspec>...
//   observed bag  - | <xkey>/<xval>/<oprops>,...   (sorted by key)   oprops: - | <xkey>.<0|1>.<xval>+...
//   result        ok:<bag> | err:<class>
// A failing constructor returns the zero value, which is passed on (as a caller ignoring errors would).
//
//   charset tab <n>              => <validateKeyChar> <validateValueChar> <shouldEscape|->
//   unesc <gen> <xs>             => ok:<x>|err                (url.PathUnescape)
//   trim <gen> <xs>              => <x>                       (strings.TrimSpace)
//   esc <gen> <xs>               => <x valueEscape(s)> ok:<x>|err   (and PathUnescape of it)
//   member <gen> <mspec>         => ok:<member>:<x String()> | err
//   new <gen> <mlist>            => result
//   string <gen> <mlist>         => <x header> | err
//   parse <gen> <xheader>        => result  <result of Parse(result.String()) | ->
//   lastwins <gen> <xa> <xb>     => result(a) result(b) result(a,b)
//   roundtrip <gen> <mlist>      => result(New) <result of Parse(String()) | ->
//   setdel <gen> <mlist> | <op>... => <bag at creation>... | <bag at the end>...     op: s:<recv>:<mspec> | d:<recv>:<xkey>
//   prop <gen> <pspec>           => <ok|err> <x Key()> <Value() ok 0|1> <x Value()> <x String()> <parsePropertyInternal(String()): ok:<oprop> | err | - (String() empty)>
//   pparse <gen> <xs>            => ok:<oprop> | err          (parsePropertyInternal on an arbitrary string)
//   lookup <gen> <mlist> | <xkey>... => result(New) <Len()> <len(Members())> | (<Member(key): member obs or - for the zero Member> <result of New(Member(key))>)...
//   alias <gen> <ptable> | <step>... => (<all earlier values unchanged 0|1> <dump of the value the step created | ->)...
//         ptable: - | <pspec>+<pspec>...  : ONE shared []Property table (len == cap); a second shared table of 8 Members starts zeroed.
//         step: nm:<r|e>:<xkey>:<xval>:<lo>:<hi>  member value #j = NewMemberRaw/NewMember(key, val, ptable[lo:hi]...)   dump ok:<member obs>|err
//               op:<i>:<pspec>                    ptable[i] = property (overwrite after earlier calls returned)
//               ap:<lo>:<hi>:<pspec>              append(ptable[lo:hi], property): writes the spare capacity
//               tm:<i>:<j>                        mtable[i] = member value #j
//               am:<lo>:<hi>:<j>                  append(mtable[lo:hi], member value #j)
//               nb:<lo>:<hi>                      baggage value #b = New(mtable[lo:hi]...)                      dump result
//               sm:<b>:<j> / dm:<b>:<xkey>        baggage value = bags[b].SetMember(member #j) / DeleteMember      dump bag
//               mm:<b> / mp:<j> / mq:<b>:<xkey>   overwrite+append the slice returned by Members() / Properties() / Member(key).Properties()
//         after EVERY step every member value (Key, Value, Properties, String) and every baggage value (Members, Member(k), String,
//         Len, and its copy in a context) created so far is re-read and compared with what was recorded when it was created.

import (
	"context"
	"errors"
	"net/url"
	"sort"
	"strconv"
	"strings"
	"testing"
)

type vC11Prop struct {
	kind     byte // 'k' 'r' 'e' 'z'
	key, val string
}

type vC11Mem struct {
	ctor     string // raw enc zero
	key, val string
	props    []vC11Prop
}

func (p vC11Prop) build() Property {
	var q Property
	switch p.kind {
	case 'k':
		q, _ = NewKeyProperty(p.key)
	case 'r':
		q, _ = NewKeyValuePropertyRaw(p.key, p.val)
	case 'e':
		q, _ = NewKeyValueProperty(p.key, p.val)
	}
	return q
}

func (p vC11Prop) spec() string {
	switch p.kind {
	case 'k':
		return "k." + vHex(p.key)
	case 'r', 'e':
		return string(p.kind) + "." + vHex(p.key) + "." + vHex(p.val)
	}
	return "z"
}

func (m vC11Mem) build() (Member, error) {
	props := make([]Property, len(m.props))
	for i, p := range m.props {
		props[i] = p.build()
	}
	switch m.ctor {
	case "raw":
		return NewMemberRaw(m.key, m.val, props...)
	case "enc":
		return NewMember(m.key, m.val, props...)
	}
	return Member{}, errInvalidMember
}

func (m vC11Mem) spec() string {
	ps := "-"
	if len(m.props) > 0 {
		s := make([]string, len(m.props))
		for i, p := range m.props {
			s[i] = p.spec()
		}
		ps = strings.Join(s, "+")
	}
	if m.ctor == "zero" {
		return "zero/x/x/-"
	}
	return m.ctor + "/" + vHex(m.key) + "/" + vHex(m.val) + "/" + ps
}

func vC11MemsSpec(ms []vC11Mem) string {
	if len(ms) == 0 {
		return "-"
	}
	s := make([]string, len(ms))
	for i, m := range ms {
		s[i] = m.spec()
	}
	return strings.Join(s, ",")
}

func vC11ParseMem(s string) vC11Mem {
	f := strings.Split(s, "/")
	if len(f) != 4 {
		panic("bad member spec: " + s)
	}
	m := vC11Mem{ctor: f[0], key: vUnhex(f[1]), val: vUnhex(f[2])}
	if f[3] != "-" {
		for _, ps := range strings.Split(f[3], "+") {
			g := strings.Split(ps, ".")
			p := vC11Prop{kind: g[0][0]}
			if len(g) > 1 {
				p.key = vUnhex(g[1])
			}
			if len(g) > 2 {
				p.val = vUnhex(g[2])
			}
			m.props = append(m.props, p)
		}
	}
	return m
}

func vC11ParseMems(s string) []vC11Mem {
	if s == "-" {
		return nil
	}
	var out []vC11Mem
	for _, t := range strings.Split(s, ",") {
		out = append(out, vC11ParseMem(t))
	}
	return out
}

func vC11Build(ms []vC11Mem) []Member {
	out := make([]Member, len(ms))
	for i, m := range ms {
		out[i], _ = m.build()
	}
	return out
}

func vC11MemberObs(m Member) string {
	ps := "-"
	if props := m.Properties(); len(props) > 0 {
		s := make([]string, len(props))
		for i, p := range props {
			v, has := p.Value()
			h := "0"
			if has {
				h = "1"
			}
			s[i] = vHex(p.Key()) + "." + h + "." + vHex(v)
		}
		ps = strings.Join(s, "+")
	}
	return vHex(m.Key()) + "/" + vHex(m.Value()) + "/" + ps
}

func vC11Bag(b Baggage) string {
	ms := b.Members()
	if len(ms) == 0 {
		return "-"
	}
	sort.Slice(ms, func(i, j int) bool { return ms[i].Key() < ms[j].Key() })
	s := make([]string, len(ms))
	for i, m := range ms {
		s[i] = vC11MemberObs(m)
	}
	return strings.Join(s, ",")
}

func vC11Err(err error) string {
	switch {
	case errors.Is(err, errVC11Panic):
		return "err:panic"
	case errors.Is(err, errBaggageBytes):
		return "err:bytes"
	case errors.Is(err, errMemberBytes):
		return "err:member-bytes"
	case errors.Is(err, errMemberNumber):
		return "err:count"
	case errors.Is(err, errInvalidProperty):
		return "err:property"
	case errors.Is(err, errInvalidKey):
		return "err:key"
	case errors.Is(err, errInvalidValue):
		return "err:value"
	case errors.Is(err, errInvalidMember):
		return "err:member"
	}
	return "err:other"
}

func vC11Res(b Baggage, err error) string {
	if err != nil {
		return vC11Err(err)
	}
	return "ok:" + vC11Bag(b)
}

// ---------------------------------------------------------------- emitters

type vC11Em struct{ out *vOut }

func (e vC11Em) charset(n int) {
	b2 := func(b bool) string {
		if b {
			return "1"
		}
		return "0"
	}
	esc := "-"
	if n < 256 {
		esc = b2(shouldEscape(byte(n)))
	}
	e.out.Line("charset tab %d => %s %s %s", n, b2(validateKeyChar(int32(n))), b2(validateValueChar(int32(n))), esc)
}

func vC11Unesc(s string) string {
	u, err := url.PathUnescape(s)
	if err != nil {
		return "err"
	}
	return "ok:" + vHex(u)
}

func (e vC11Em) unesc(gen, s string) { e.out.Line("unesc %s %s => %s", gen, vHex(s), vC11Unesc(s)) }
func (e vC11Em) trim(gen, s string) {
	e.out.Line("trim %s %s => %s", gen, vHex(s), vHex(strings.TrimSpace(s)))
}
func (e vC11Em) esc(gen, s string) {
	x := valueEscape(s)
	e.out.Line("esc %s %s => %s %s", gen, vHex(s), vHex(x), vC11Unesc(x))
}
func (e vC11Em) member(gen string, m vC11Mem) {
	mm, err := m.build()
	if err != nil {
		e.out.Line("member %s %s => err", gen, m.spec())
		return
	}
	e.out.Line("member %s %s => ok:%s:%s", gen, m.spec(), vC11MemberObs(mm), vHex(mm.String()))
}
func (e vC11Em) new(gen string, ms []vC11Mem) {
	b, err := New(vC11Build(ms)...)
	e.out.Line("new %s %s => %s", gen, vC11MemsSpec(ms), vC11Res(b, err))
}
func (e vC11Em) str(gen string, ms []vC11Mem) {
	b, err := New(vC11Build(ms)...)
	if err != nil {
		e.out.Line("string %s %s => err", gen, vC11MemsSpec(ms))
		return
	}
	e.out.Line("string %s %s => %s", gen, vC11MemsSpec(ms), vHex(b.String()))
}

// vC11SafeParse: "never panics" is part of the property, so a panic is an observation (err:panic),
// not a harness crash.
var errVC11Panic = errors.New("panic")

func vC11SafeParse(h string) (b Baggage, err error) {
	defer func() {
		if r := recover(); r != nil {
			b, err = Baggage{}, errVC11Panic
		}
	}()
	return Parse(h)
}

func (e vC11Em) parse(gen, h string) {
	b, err := vC11SafeParse(h)
	re := "-"
	if err == nil {
		b2, err2 := vC11SafeParse(b.String())
		re = vC11Res(b2, err2)
	}
	e.out.Line("parse %s %s => %s %s", gen, vHex(h), vC11Res(b, err), re)
}
func (e vC11Em) lastwins(gen, a, b string) {
	ra, ea := vC11SafeParse(a)
	rb, eb := vC11SafeParse(b)
	rab, eab := vC11SafeParse(a + "," + b)
	e.out.Line("lastwins %s %s %s => %s %s %s", gen, vHex(a), vHex(b), vC11Res(ra, ea), vC11Res(rb, eb), vC11Res(rab, eab))
}
func (e vC11Em) roundtrip(gen string, ms []vC11Mem) {
	b, err := New(vC11Build(ms)...)
	re := "-"
	if err == nil {
		b2, err2 := vC11SafeParse(b.String())
		re = vC11Res(b2, err2)
	}
	e.out.Line("roundtrip %s %s => %s %s", gen, vC11MemsSpec(ms), vC11Res(b, err), re)
}

// setdel: every value ever produced is kept (also inside a context) and dumped twice: when it is
// created and after all edits.
func (e vC11Em) setdel(gen string, ms []vC11Mem, ops []string) {
	b, err := New(vC11Build(ms)...)
	in := "setdel " + gen + " " + vC11MemsSpec(ms) + " |"
	for _, op := range ops {
		in += " " + op
	}
	if err != nil {
		e.out.Line("%s => err", in)
		return
	}
	vals := []Baggage{b}
	ctxs := []context.Context{ContextWithBaggage(context.Background(), b)}
	created := []string{vC11Bag(b)}
	for _, op := range ops {
		f := strings.SplitN(op, ":", 3)
		recv, _ := strconv.Atoi(f[1])
		if recv >= len(vals) {
			recv = 0
		}
		var nb Baggage
		if f[0] == "s" {
			m, _ := vC11ParseMem(f[2]).build()
			nb, _ = vals[recv].SetMember(m)
		} else {
			nb = vals[recv].DeleteMember(vUnhex(f[2]))
		}
		vals = append(vals, nb)
		ctxs = append(ctxs, ContextWithBaggage(ctxs[recv], nb))
		created = append(created, vC11Bag(nb))
	}
	final := make([]string, len(vals))
	for i := range vals {
		final[i] = vC11Bag(FromContext(ctxs[i]))
		if d := vC11Bag(vals[i]); d != final[i] {
			final[i] = "x00/x/-" // the copy in the context and the value differ: cannot happen for a value type
		}
	}
	e.out.Line("%s => %s | %s", in, strings.Join(created, " "), strings.Join(final, " "))
}

func vC11PropObs(p Property) string {
	v, has := p.Value()
	h := "0"
	if has {
		h = "1"
	}
	return vHex(p.Key()) + "." + h + "." + vHex(v)
}

// prop: the property API end to end: constructor, Key(), Value(), String(), and the parser on String()
func (e vC11Em) prop(gen string, ps vC11Prop) {
	var p Property
	var err error
	switch ps.kind {
	case 'k':
		p, err = NewKeyProperty(ps.key)
	case 'r':
		p, err = NewKeyValuePropertyRaw(ps.key, ps.val)
	default:
		ps.kind = 'e'
		p, err = NewKeyValueProperty(ps.key, ps.val)
	}
	st := "ok"
	if err != nil {
		st = "err"
	}
	v, has := p.Value()
	h := "0"
	if has {
		h = "1"
	}
	str := p.String()
	re := "-"
	if str != "" {
		if q, ok := parsePropertyInternal(str); ok {
			re = "ok:" + vC11PropObs(q)
		} else {
			re = "err"
		}
	}
	e.out.Line("prop %s %s => %s %s %s %s %s %s", gen, ps.spec(), st, vHex(p.Key()), h, vHex(v), vHex(str), re)
}

func (e vC11Em) pparse(gen, s string) {
	o := "err"
	if q, ok := parsePropertyInternal(s); ok {
		o = "ok:" + vC11PropObs(q)
	}
	e.out.Line("pparse %s %s => %s", gen, vHex(s), o)
}

// property strings around the grammar: OWS (space, tab) and what is NOT OWS for the property scanner (unicode spaces, CR/LF/VT/FF)
// around key, "=" and value; several "="; empty keys; leftovers after the value
var vC11PWs = []string{"", "", " ", "\t", "  ", " \t", "\u00a0", "\u2003", "\n", "\r", "\v", "\f", "\u0085"}
var vC11PVal = []string{"", "v", "1", "a=b", "=", "==", "%41", "%2C%3b", "%", "%4", "%zz", "%FF", "%e2%82%ac", "a b", "a,b", "a;b", "\"q\"", "\\", "\u00e9", "x%20y", "~!#$&'()*+-./:<>?@[]^_`{|}"}

func vC11PropStr(r *vRand) string {
	ws := func() string {
		if r.Intn(3) == 0 {
			return vPick(r, vC11PWs)
		}
		return vPick(r, vC11PWs[:6])
	}
	key := vC11Key(r, vC11PropKeys, vC11BadKeys)
	s := ws() + key + ws()
	switch r.Intn(6) {
	case 0: // key only
	case 1:
		s += "=" + ws()
	default:
		s += "=" + ws() + vPick(r, vC11PVal) + ws()
	}
	switch r.Intn(12) {
	case 0:
		s = vC11Mutate(r, s)
	case 1:
		s += vPick(r, []string{"x", "=", ";", " y", "\t=", ","})
	case 2:
		s = "=" + s
	}
	return s
}

// lookup: Member(key) / Members() / Len() on the same value, and the looked-up member handed back to New
func (e vC11Em) lookup(gen string, ms []vC11Mem, keys []string) {
	b, err := New(vC11Build(ms)...)
	in := "lookup " + gen + " " + vC11MemsSpec(ms) + " |"
	for _, k := range keys {
		in += " " + vHex(k)
	}
	obs := vC11Res(b, err) + " " + strconv.Itoa(b.Len()) + " " + strconv.Itoa(len(b.Members())) + " |"
	for _, k := range keys {
		m := b.Member(k)
		// exported API only: the zero Member has no key, no value and no properties (no valid member has an empty key)
		mo := "-"
		if m.Key() != "" || m.Value() != "" || len(m.Properties()) != 0 {
			mo = vC11MemberObs(m)
		}
		b2, err2 := New(m)
		obs += " " + mo + " " + vC11Res(b2, err2)
	}
	e.out.Line("%s => %s", in, obs)
}

// ---------------------------------------------------------------- alias scripts

func vC11PropOfSpec(ps string) vC11Prop {
	g := strings.Split(ps, ".")
	p := vC11Prop{kind: g[0][0]}
	if len(g) > 1 {
		p.key = vUnhex(g[1])
	}
	if len(g) > 2 {
		p.val = vUnhex(g[2])
	}
	return p
}

// what the alias scripts overwrite returned slices with (built through the exported constructors)
var vC11ZZProp, _ = NewKeyValuePropertyRaw("zz", "zz")
var vC11ZZMember, _ = NewMemberRaw("zz", "zz", vC11ZZProp)

func vC11MemDump(m Member) string {
	return vC11MemberObs(m) + ":" + vHex(m.String())
}

func vC11BagDump(b Baggage) string {
	s := vC11Bag(b) + "|" + strconv.Itoa(b.Len())
	pieces := strings.Split(b.String(), ",")
	sort.Strings(pieces)
	s += "|" + vHex(strings.Join(pieces, ","))
	ms := b.Members()
	sort.Slice(ms, func(i, j int) bool { return ms[i].Key() < ms[j].Key() })
	for _, m := range ms {
		s += "|" + vC11MemDump(b.Member(m.Key()))
	}
	return s
}

func vC11Clamp(lo, hi, n int) (int, int) {
	if lo > n {
		lo = n
	}
	if hi > n {
		hi = n
	}
	if hi < lo {
		hi = lo
	}
	return lo, hi
}

func (e vC11Em) alias(gen, ptable string, steps []string) {
	var pt []Property
	if ptable != "-" {
		for _, ps := range strings.Split(ptable, "+") {
			pt = append(pt, vC11PropOfSpec(ps).build())
		}
	}
	pt = pt[:len(pt):len(pt)]
	mt := make([]Member, 8)
	var mems []Member
	var memRec []string
	var bags []Baggage
	var bagRec []string
	var ctxs []context.Context
	unchanged := func() string {
		for i, m := range mems {
			if vC11MemDump(m) != memRec[i] {
				return "0"
			}
		}
		for i, b := range bags {
			if vC11BagDump(b) != bagRec[i] || vC11BagDump(FromContext(ctxs[i])) != bagRec[i] {
				return "0"
			}
		}
		return "1"
	}
	addBag := func(b Baggage) {
		bags = append(bags, b)
		bagRec = append(bagRec, vC11BagDump(b))
		parent := context.Background()
		if len(ctxs) > 0 {
			parent = ctxs[len(ctxs)-1]
		}
		ctxs = append(ctxs, ContextWithBaggage(parent, b))
	}
	atoi := func(s string) int { n, _ := strconv.Atoi(s); return n }
	var obs []string
	for _, st := range steps {
		f := strings.Split(st, ":")
		dump := "-"
		switch f[0] {
		case "nm":
			lo, hi := vC11Clamp(atoi(f[4]), atoi(f[5]), len(pt))
			var m Member
			var err error
			if f[1] == "e" {
				m, err = NewMember(vUnhex(f[2]), vUnhex(f[3]), pt[lo:hi]...)
			} else {
				m, err = NewMemberRaw(vUnhex(f[2]), vUnhex(f[3]), pt[lo:hi]...)
			}
			mems = append(mems, m)
			memRec = append(memRec, vC11MemDump(m))
			if err != nil {
				dump = "err"
			} else {
				dump = "ok:" + vC11MemberObs(m)
			}
		case "op":
			if i := atoi(f[1]); i < len(pt) {
				pt[i] = vC11PropOfSpec(f[2]).build()
			}
		case "ap":
			lo, hi := vC11Clamp(atoi(f[1]), atoi(f[2]), len(pt))
			_ = append(pt[lo:hi], vC11PropOfSpec(f[3]).build())
		case "tm":
			if i, j := atoi(f[1]), atoi(f[2]); i < len(mt) && j < len(mems) {
				mt[i] = mems[j]
			}
		case "am":
			lo, hi := vC11Clamp(atoi(f[1]), atoi(f[2]), len(mt))
			if j := atoi(f[3]); j < len(mems) {
				_ = append(mt[lo:hi], mems[j])
			}
		case "nb":
			lo, hi := vC11Clamp(atoi(f[1]), atoi(f[2]), len(mt))
			b, err := New(mt[lo:hi]...)
			addBag(b)
			dump = vC11Res(b, err)
		case "sm":
			if bi, j := atoi(f[1]), atoi(f[2]); bi < len(bags) && j < len(mems) {
				b, _ := bags[bi].SetMember(mems[j])
				addBag(b)
				dump = "ok:" + vC11Bag(b)
			}
		case "dm":
			if bi := atoi(f[1]); bi < len(bags) {
				b := bags[bi].DeleteMember(vUnhex(f[2]))
				addBag(b)
				dump = "ok:" + vC11Bag(b)
			}
		case "mm":
			if bi := atoi(f[1]); bi < len(bags) {
				ms := bags[bi].Members()
				for i := range ms {
					ms[i] = vC11ZZMember
				}
				ms = append(ms, vC11ZZMember)
				_ = ms
			}
		case "mp":
			if j := atoi(f[1]); j < len(mems) {
				ps := mems[j].Properties()
				for i := range ps {
					ps[i] = vC11ZZProp
				}
				ps = append(ps, vC11ZZProp)
				_ = ps
			}
		case "mq":
			if bi := atoi(f[1]); bi < len(bags) {
				ps := bags[bi].Member(vUnhex(f[2])).Properties()
				for i := range ps {
					ps[i] = vC11ZZProp
				}
				ps = append(ps, vC11ZZProp)
				_ = ps
			}
		}
		obs = append(obs, unchanged(), dump)
	}
	in := "alias " + gen + " " + ptable + " |"
	for _, st := range steps {
		in += " " + st
	}
	e.out.Line("%s => %s", in, strings.Join(obs, " "))
}

func vC11AliasGen(r *vRand) (string, []string) {
	np := 1 + r.Intn(5)
	good := func() vC11Prop {
		p := vC11Prop{kind: 'k', key: vPick(r, vC11PropKeys)}
		switch r.Intn(4) {
		case 1:
			p.kind = 'r'
			p.val = vPick(r, vC11ValPieces)
		case 2:
			p.kind = 'r'
		case 3:
			if r.Intn(6) == 0 {
				p = vC11PropGen(r)
			}
		}
		return p
	}
	ps := make([]string, np)
	for i := range ps {
		ps[i] = good().spec()
	}
	var steps []string
	nm, nb := 0, 0
	itoa := strconv.Itoa
	addNM := func() {
		c := "r"
		v := ""
		for i := r.Intn(3); i > 0; i-- {
			v += vPick(r, vC11ValPieces)
		}
		if r.Intn(6) == 0 {
			c = "e"
			v = valueEscape(v)
		}
		lo := r.Intn(np + 1)
		hi := lo + r.Intn(np+1-lo)
		if r.Intn(3) == 0 {
			lo = 0
		}
		k := vPick(r, vC11Keys)
		if r.Intn(8) == 0 {
			k = vPick(r, vC11BadKeys)
		}
		steps = append(steps, "nm:"+c+":"+vHex(k)+":"+vHex(v)+":"+itoa(lo)+":"+itoa(hi))
		nm++
	}
	addNM()
	steps = append(steps, "tm:0:0")
	pop := 1 // populated prefix of the member table
	for r.Intn(3) > 0 && pop < 4 {
		addNM()
		steps = append(steps, "tm:"+itoa(pop)+":"+itoa(nm-1))
		pop++
	}
	n := 4 + r.Intn(10)
	for i := 0; i < n; i++ {
		switch x := r.Intn(24); {
		case x < 4:
			addNM()
		case x < 7:
			steps = append(steps, "op:"+itoa(r.Intn(np))+":"+good().spec())
		case x < 9:
			lo := r.Intn(np + 1)
			hi := lo + r.Intn(np+1-lo)
			steps = append(steps, "ap:"+itoa(lo)+":"+itoa(hi)+":"+good().spec())
		case x < 12:
			steps = append(steps, "tm:"+itoa(r.Intn(4))+":"+itoa(r.Intn(nm)))
		case x < 13:
			lo := r.Intn(4)
			steps = append(steps, "am:"+itoa(lo)+":"+itoa(lo+r.Intn(3))+":"+itoa(r.Intn(nm)))
		case x < 16:
			lo := 0
			if r.Intn(3) == 0 {
				lo = r.Intn(pop)
			}
			hi := lo + 1 + r.Intn(pop-lo)
			switch r.Intn(10) {
			case 0:
				hi = 8
			case 1:
				hi = lo
			}
			steps = append(steps, "nb:"+itoa(lo)+":"+itoa(hi))
			nb++
		case x < 18 && nb > 0:
			steps = append(steps, "sm:"+itoa(r.Intn(nb))+":"+itoa(r.Intn(nm)))
			nb++
		case x < 19 && nb > 0:
			steps = append(steps, "dm:"+itoa(r.Intn(nb))+":"+vHex(vPick(r, vC11Keys)))
			nb++
		case x < 20 && nb > 0:
			steps = append(steps, "mm:"+itoa(r.Intn(nb)))
		case x < 22:
			steps = append(steps, "mp:"+itoa(r.Intn(nm)))
		case nb > 0:
			steps = append(steps, "mq:"+itoa(r.Intn(nb))+":"+vHex(vPick(r, vC11Keys)))
		default:
			steps = append(steps, "tm:"+itoa(r.Intn(4))+":"+itoa(r.Intn(nm)))
		}
	}
	return strings.Join(ps, "+"), steps
}

// ---------------------------------------------------------------- generators

var vC11Keys = []string{"a", "b", "c", "k", "key", "k1", "k2", "x-y", "a.b", "%", "!#$&'*+-.^_`|~", "Z9"}
var vC11BadKeys = []string{"", " ", "a b", "k,", "k;", "k=", "\u00e9", "\u043a\u043b", "a\xff", "\x80", "k\u00a0", "(", "\"", "a\tb", "\U0001F600"}
var vC11PropKeys = []string{"p", "q", "prop1", "x-y", "%", "p"}

const vC11Token = "abcxyzABZ019!#$%&'*+-.^_`|~"

func vC11Key(r *vRand, pool, bad []string) string {
	switch x := r.Intn(20); {
	case x < 15:
		return vPick(r, pool)
	case x < 18:
		n := 1 + r.Intn(8)
		var sb strings.Builder
		for i := 0; i < n; i++ {
			sb.WriteByte(vC11Token[r.Intn(len(vC11Token))])
		}
		return sb.String()
	default:
		return vPick(r, bad)
	}
}

var vC11ValPieces = []string{"a", "b", "z", "0", " ", "%", ",", ";", "=", "\"", "\\", "\t", "\n", "+", "/", "\u0161", "\u00e9", "\ufffd", "\u20ac", "\U0001F600", "\u00a0", "\u0085", "%41", "%2C", "%e2%82%ac"}

func vC11Val(r *vRand) string {
	switch x := r.Intn(20); {
	case x < 2:
		return ""
	case x < 13:
		n := r.Intn(7)
		var sb strings.Builder
		for i := 0; i < n; i++ {
			sb.WriteString(vPick(r, vC11ValPieces))
		}
		return sb.String()
	case x < 15:
		return vValidStr(r, 6)
	case x < 17:
		return vStr(r, 5) // may be invalid UTF-8: the constructor must reject it
	case x < 19:
		return vPick(r, []string{"v", "value", "1", "true", "a=b", "x y"})
	default:
		return strings.Repeat(vPick(r, []string{"a", " ", "\u00e9", "%"}), 1+r.Intn(300))
	}
}

// percent-encoded text for the `enc` constructors: mostly correct, sometimes broken
func vC11Enc(r *vRand) string {
	s := valueEscape(vC11Val(r))
	switch r.Intn(8) {
	case 0:
		return vC11Mutate(r, s)
	case 1:
		return s + vPick(r, []string{"%", "%4", "%zz", "%4g", " ", ",", "%ff", "%C5", "\u00e9"})
	case 2:
		return strings.ToLower(s)
	}
	return s
}

func vC11PropGen(r *vRand) vC11Prop {
	k := vC11Key(r, vC11PropKeys, vC11BadKeys)
	switch x := r.Intn(20); {
	case x < 7:
		return vC11Prop{kind: 'k', key: k}
	case x < 9:
		return vC11Prop{kind: 'r', key: k, val: ""}
	case x < 15:
		return vC11Prop{kind: 'r', key: k, val: vC11Val(r)}
	case x < 19:
		return vC11Prop{kind: 'e', key: k, val: vC11Enc(r)}
	}
	return vC11Prop{kind: 'z'}
}

func vC11MemGen(r *vRand) vC11Mem {
	m := vC11Mem{ctor: "raw", key: vC11Key(r, vC11Keys, vC11BadKeys)}
	switch x := r.Intn(40); {
	case x == 0:
		return vC11Mem{ctor: "zero"}
	case x < 8:
		m.ctor = "enc"
		m.val = vC11Enc(r)
	default:
		m.val = vC11Val(r)
	}
	if r.Intn(2) == 0 {
		n := 1 + r.Intn(3)
		for i := 0; i < n; i++ {
			m.props = append(m.props, vC11PropGen(r))
		}
	}
	return m
}

// members that are (almost always) accepted and have token keys: the round-trip population
func vC11GoodMem(r *vRand) vC11Mem {
	m := vC11Mem{ctor: "raw", key: vPick(r, vC11Keys)}
	if r.Intn(4) == 0 {
		m.key += strconv.Itoa(r.Intn(50))
	}
	n := r.Intn(7)
	var sb strings.Builder
	for i := 0; i < n; i++ {
		sb.WriteString(vPick(r, vC11ValPieces))
	}
	m.val = sb.String()
	np := 0
	if r.Intn(2) == 0 {
		np = 1 + r.Intn(3)
	}
	for i := 0; i < np; i++ {
		p := vC11Prop{kind: 'k', key: vPick(r, vC11PropKeys)}
		switch r.Intn(3) {
		case 1:
			p.kind = 'r'
		case 2:
			p.kind = 'r'
			p.val = vValidStr(r, 4)
		}
		m.props = append(m.props, p)
	}
	return m
}

func vC11Mems(r *vRand, gen func(*vRand) vC11Mem, max int) []vC11Mem {
	n := r.Intn(max + 1)
	ms := make([]vC11Mem, n)
	for i := range ms {
		ms[i] = gen(r)
	}
	return ms
}

// sizes straddling 180 members / 4096 bytes per member / 8192 bytes in total
// vC11EscFill builds a value whose percent-escaped length is exactly n (n >= 0) out of multi-byte runes, bytes that
// need escaping and plain letters, in random proportion (the constructor's size checks must count escaped BYTES).
func vC11EscFill(r *vRand, n int) string {
	var sb strings.Builder
	pieces := []struct {
		s string
		e int
	}{{"\u00e9", 6}, {"\u20ac", 9}, {"\U0001F600", 12}, {" ", 3}, {"%", 3}, {"\u4e2d", 9}, {"a", 1}, {"b", 1}}
	for n > 0 {
		p := pieces[r.Intn(len(pieces))]
		if p.e > n {
			p = pieces[6]
		}
		sb.WriteString(p.s)
		n -= p.e
	}
	return sb.String()
}

func vC11BigMems(r *vRand) (string, []vC11Mem) {
	switch r.Intn(6) {
	case 4: // total 8186..8198 escaped bytes, three members of non-ASCII / escape-needing values, each below 4096
		t := 8186 + r.Intn(13)
		return "total8192esc", []vC11Mem{
			{ctor: "raw", key: "a", val: vC11EscFill(r, 2998)},
			{ctor: "raw", key: "b", val: vC11EscFill(r, 2998)},
			{ctor: "raw", key: "c", val: vC11EscFill(r, t-6008)},
		}
	case 5: // the same with part of the bytes in property values
		t := 8186 + r.Intn(13)
		return "total8192escp", []vC11Mem{
			{ctor: "raw", key: "a", val: vC11EscFill(r, 1500), props: []vC11Prop{{kind: 'r', key: "p", val: vC11EscFill(r, 1494)}}},
			{ctor: "raw", key: "b", val: vC11EscFill(r, 2998)},
			{ctor: "raw", key: "c", val: vC11EscFill(r, t-6008)},
		}
	case 0: // member count 178..183, sometimes with duplicates on top
		n := 178 + r.Intn(6)
		var ms []vC11Mem
		for i := 0; i < n; i++ {
			ms = append(ms, vC11Mem{ctor: "raw", key: "k" + strconv.Itoa(i), val: strconv.Itoa(i % 7)})
		}
		for i := r.Intn(4); i > 0; i-- {
			ms = append(ms, vC11Mem{ctor: "raw", key: "k" + strconv.Itoa(r.Intn(n)), val: "dup"})
		}
		return "count", ms
	case 1: // one member whose serialisation is 4094..4099 bytes (F10 above 4096)
		l := 4094 + r.Intn(6)
		ms := []vC11Mem{{ctor: "raw", key: "k", val: strings.Repeat("a", l-2)}}
		if r.Bool() {
			ms = append(ms, vC11GoodMem(r))
		}
		return "member4096", ms
	case 2: // same with escaped bytes and a property
		l := 4090 + r.Intn(10)
		v := strings.Repeat(" ", (l-6)/3) + strings.Repeat("a", (l-6)%3)
		return "member4096esc", []vC11Mem{{ctor: "raw", key: "k", val: v, props: []vC11Prop{{kind: 'r', key: "p", val: "1"}}}}
	default: // total 8189..8195 bytes with three members below the member limit
		t := 8189 + r.Intn(7)
		return "total8192", []vC11Mem{
			{ctor: "raw", key: "a", val: strings.Repeat("a", 3000)},
			{ctor: "raw", key: "b", val: strings.Repeat("b", 3000)},
			{ctor: "raw", key: "c", val: strings.Repeat("c", t-6008)},
		}
	}
}

var vC11MutBytes = []string{",", ";", "=", " ", "\t", "%", "4", "f", "G", "\"", "\\", "\xff", "\xc2\xa0", "\xc2\x85", "\n", "\u00e9", "(", "\x00", "\x7f", "a"}

func vC11Mutate(r *vRand, s string) string {
	n := 1 + r.Intn(2)
	for i := 0; i < n; i++ {
		pos := r.Intn(len(s) + 1)
		x := vPick(r, vC11MutBytes)
		switch r.Intn(3) {
		case 0: // insert
			s = s[:pos] + x + s[pos:]
		case 1: // replace
			if pos < len(s) {
				s = s[:pos] + x + s[pos+1:]
			}
		default: // delete
			if pos < len(s) {
				s = s[:pos] + s[pos+1:]
			}
		}
	}
	return s
}

func vC11Header(r *vRand) string {
	b, err := New(vC11Build(vC11Mems(r, vC11GoodMem, 5))...)
	if err != nil {
		return "a=1"
	}
	return b.String()
}

var vC11OWS = []string{" ", "\t", "  ", " \t ", "\u00a0", "\u0085", "\n", "\r", "\u2003", "\u3000", "\v", "\f"}

func vC11AddOWS(r *vRand, h string) string {
	var sb strings.Builder
	for i := 0; i < len(h); i++ {
		c := h[i]
		if (c == ',' || c == ';' || c == '=') && r.Intn(2) == 0 {
			if r.Bool() {
				sb.WriteString(vPick(r, vC11OWS))
			}
			sb.WriteByte(c)
			if r.Bool() {
				sb.WriteString(vPick(r, vC11OWS))
			}
			continue
		}
		sb.WriteByte(c)
	}
	s := sb.String()
	if r.Intn(3) == 0 {
		s = vPick(r, vC11OWS) + s
	}
	if r.Intn(3) == 0 {
		s += vPick(r, vC11OWS)
	}
	return s
}

var vC11RndPieces = []string{"k", "a", "b", "=", "=", ",", ";", " ", "\t", "%", "%41", "%ff", "%FF", "%zz", "%4", "\xff", "\u00e9", "\u00a0", "v", "1", "p", "\"", "\\", "%2C", "%e2%82", "%C5%A1", "+", "/"}

func vC11RndHeader(r *vRand) string {
	n := r.Intn(12)
	var sb strings.Builder
	for i := 0; i < n; i++ {
		if r.Intn(12) == 0 {
			sb.WriteByte(byte(r.Intn(256)))
		} else {
			sb.WriteString(vPick(r, vC11RndPieces))
		}
	}
	return sb.String()
}

func vC11BigHeader(r *vRand) (string, string) {
	switch r.Intn(6) {
	case 0: // distinct/duplicate member counts around 180
		n := 178 + r.Intn(6)
		var parts []string
		for i := 0; i < n; i++ {
			parts = append(parts, "k"+strconv.Itoa(i)+"="+strconv.Itoa(i%7))
		}
		for i := r.Intn(6); i > 0; i-- {
			parts = append(parts, "k"+strconv.Itoa(r.Intn(n))+"=dup")
		}
		return "count", strings.Join(parts, ",")
	case 1: // member length 4094..4099
		l := 4094 + r.Intn(6)
		h := "k=" + strings.Repeat("a", l-2)
		if r.Bool() {
			h = "x=1," + h
		}
		return "member4096", h
	case 2: // member length around 4096 with properties and OWS counted in
		l := 4094 + r.Intn(6)
		h := " k = v ; p=" + strings.Repeat("b", l-11)
		return "member4096p", h
	case 3: // total 8189..8195
		t := 8189 + r.Intn(7)
		return "total8192", "a=" + strings.Repeat("a", 3000) + ",b=" + strings.Repeat("b", 3000) + ",c=" + strings.Repeat("c", t-6008)
	case 4: // F30: invalid bytes behind %XX triple in size when re-serialised; member limit (2+9n > 4096 from n=455)
		n := 453 + r.Intn(5)
		return "f30member", "k=" + strings.Repeat("%FF", n)
	default: // F30: total limit
		m := 7 + r.Intn(6)
		return "f30total", "a=" + strings.Repeat("%FF", 450) + ",b=" + strings.Repeat("%ff", 450) + ",c=" + strings.Repeat("%80", m)
	}
}

// two headers whose concatenation straddles the member-count limit after de-duplication / the total size limit
func vC11BigPair(r *vRand) (string, string, string) {
	if r.Bool() {
		n1 := 90 + r.Intn(20)
		overlap := r.Intn(30)
		union := 178 + r.Intn(6)
		n2 := union - n1 + overlap
		var pa, pb []string
		for i := 0; i < n1; i++ {
			pa = append(pa, "k"+strconv.Itoa(i)+"=a")
		}
		for i := n1 - overlap; i < n1-overlap+n2; i++ {
			pb = append(pb, "k"+strconv.Itoa(i)+"=b")
		}
		return "count", strings.Join(pa, ","), strings.Join(pb, ",")
	}
	t := 8189 + r.Intn(7)
	la := 4000 + r.Intn(96)
	return "total8192", "a=" + strings.Repeat("a", la-2), "b=" + strings.Repeat("b", t-la-1-2)
}

func vC11TrimStr(r *vRand) string {
	if r.Intn(5) == 0 { // ASCII only: the fast path on both sides
		pieces := []string{" ", "\t", "\n", "\r", "a", "k=v", "x y", "\v", "\f", "~"}
		n := r.Intn(6)
		var sb strings.Builder
		for i := 0; i < n; i++ {
			sb.WriteString(vPick(r, pieces))
		}
		return sb.String()
	}
	pieces := []string{" ", "\t", "\n", "\v", "\f", "\r", "\u0085", "\u00a0", "\u1680", "\u2000", "\u200a", "\u200b", "\u2028", "\u2029", "\u202f", "\u205f", "\u3000", "\ufeff", "a", "k", "\u00e9", "\xc2", "\x85", "\xa0", "\xe2\x80", "\x80", "\xe3\x80\x80\x80", "\xff", "\U0001F600", "\xf0\x9f\x98"}
	n := r.Intn(7)
	var sb strings.Builder
	for i := 0; i < n; i++ {
		if r.Intn(15) == 0 {
			sb.WriteByte(byte(r.Intn(256)))
		} else {
			sb.WriteString(vPick(r, pieces))
		}
	}
	return sb.String()
}

func vC11Ops(r *vRand) []string {
	n := r.Intn(7)
	ops := make([]string, n)
	for i := range ops {
		recv := r.Intn(i + 1)
		if r.Intn(3) == 0 {
			ops[i] = "d:" + strconv.Itoa(recv) + ":" + vHex(vC11Key(r, vC11Keys, vC11BadKeys))
		} else {
			var m vC11Mem
			if r.Intn(4) == 0 {
				m = vC11MemGen(r)
			} else {
				m = vC11GoodMem(r)
			}
			ops[i] = "s:" + strconv.Itoa(recv) + ":" + m.spec()
		}
	}
	return ops
}

// ---------------------------------------------------------------- the test

func TestVerifC11Core(t *testing.T) {
	out := vOpen(t)
	defer out.Close()
	e := vC11Em{out}

	if rp := vReplayLines(); rp != nil {
		for _, f := range rp {
			switch f[0] {
			case "charset":
				n, _ := strconv.Atoi(f[2])
				e.charset(n)
			case "unesc":
				e.unesc(f[1], vUnhex(f[2]))
			case "trim":
				e.trim(f[1], vUnhex(f[2]))
			case "esc":
				e.esc(f[1], vUnhex(f[2]))
			case "member":
				e.member(f[1], vC11ParseMem(f[2]))
			case "new":
				e.new(f[1], vC11ParseMems(f[2]))
			case "string":
				e.str(f[1], vC11ParseMems(f[2]))
			case "parse":
				e.parse(f[1], vUnhex(f[2]))
			case "lastwins":
				e.lastwins(f[1], vUnhex(f[2]), vUnhex(f[3]))
			case "roundtrip":
				e.roundtrip(f[1], vC11ParseMems(f[2]))
			case "setdel":
				e.setdel(f[1], vC11ParseMems(f[2]), f[4:])
			case "prop":
				e.prop(f[1], vC11PropOfSpec(f[2]))
			case "pparse":
				e.pparse(f[1], vUnhex(f[2]))
			case "lookup":
				keys := []string{}
				for _, k := range f[4:] {
					keys = append(keys, vUnhex(k))
				}
				e.lookup(f[1], vC11ParseMems(f[2]), keys)
			case "alias":
				e.alias(f[1], f[2], f[4:])
			}
		}
		return
	}

	r := &vRand{s: vSeed()}
	n := vN(20000)

	// the two tables and shouldEscape, all bytes, and a few runes above Latin-1, on every run
	for i := 0; i < 256; i++ {
		e.charset(i)
	}
	for _, i := range []int{0x100, 0x161, 0x2003, 0xFFFD, 0x1F600, 0x10FFFF} {
		e.charset(i)
	}
	// every single byte through escape/unescape
	for i := 0; i < 256; i++ {
		e.esc("byte", string([]byte{byte(i)}))
	}
	// known findings, reproduced on every run (a few cases each)
	for l := 4096; l <= 4098; l++ {
		e.roundtrip("f10", []vC11Mem{{ctor: "raw", key: "k", val: strings.Repeat("a", l-2)}})
	}
	for c := 454; c <= 456; c++ {
		e.parse("f30", "k="+strings.Repeat("%FF", c))
	}

	if os_exhaustive() {
		// all headers of length <= 4 over a 12-byte alphabet
		alpha := []byte{'k', 'a', '=', ',', ';', ' ', '%', '4', '1', 'f', 0xff, 0xc2}
		var rec func(prefix []byte, depth int)
		rec = func(prefix []byte, depth int) {
			e.parse("exh", string(prefix))
			if depth == 4 {
				return
			}
			for _, b := range alpha {
				rec(append(append([]byte{}, prefix...), b), depth+1)
			}
		}
		rec(nil, 0)
		// all property strings of length <= 5 over a 10-byte alphabet
		palpha := []byte{' ', '\t', 'p', '=', '%', '4', '1', ';', 0xc2, 0xa0}
		var rec3 func(prefix []byte, depth int)
		rec3 = func(prefix []byte, depth int) {
			e.pparse("exh", string(prefix))
			if depth == 5 {
				return
			}
			for _, b := range palpha {
				rec3(append(append([]byte{}, prefix...), b), depth+1)
			}
		}
		rec3(nil, 0)
		// all strings of length <= 3 over the trim alphabet
		talpha := []byte{' ', '\n', 'a', 0xc2, 0x85, 0xa0, 0xe2, 0x80, 0xe3, 0xff}
		var rec2 func(prefix []byte, depth int)
		rec2 = func(prefix []byte, depth int) {
			e.trim("exh", string(prefix))
			if depth == 4 {
				return
			}
			for _, b := range talpha {
				rec2(append(append([]byte{}, prefix...), b), depth+1)
			}
		}
		rec2(nil, 0)
	}

	for i := 0; i < n; i++ {
		switch x := r.Intn(100); {
		case x < 3:
			s := vC11Enc(r)
			if r.Intn(3) == 0 {
				s = vC11RndHeader(r)
			}
			e.unesc("enc", s)
		case x < 8:
			e.trim("rnd", vC11TrimStr(r))
		case x < 11:
			if r.Bool() {
				e.esc("val", vC11Val(r))
			} else {
				e.esc("bytes", vStr(r, 6))
			}
		case x < 17:
			e.member("rnd", vC11MemGen(r))
		case x < 23:
			if r.Intn(10) == 0 {
				g, ms := vC11BigMems(r)
				e.new(g, ms)
			} else {
				e.new("rnd", vC11Mems(r, vC11MemGen, 4))
			}
		case x < 27:
			if r.Intn(12) == 0 {
				g, ms := vC11BigMems(r)
				e.str(g, ms)
			} else if r.Bool() {
				e.str("good", vC11Mems(r, vC11GoodMem, 5))
			} else {
				e.str("rnd", vC11Mems(r, vC11MemGen, 4))
			}
		case x < 47:
			switch y := r.Intn(40); {
			case y < 3:
				g, ms := vC11BigMems(r)
				e.roundtrip(g, ms)
			case y < 30:
				e.roundtrip("good", vC11Mems(r, vC11GoodMem, 6))
			default:
				e.roundtrip("rnd", vC11Mems(r, vC11MemGen, 4))
			}
		case x < 55:
			if r.Intn(25) == 0 {
				g, a, b := vC11BigPair(r)
				e.lastwins(g, a, b)
				continue
			}
			a, b := vC11Header(r), vC11Header(r)
			switch r.Intn(6) {
			case 0:
				a = vC11Mutate(r, a)
			case 1:
				b = vC11AddOWS(r, b)
			case 2:
				b = vC11RndHeader(r)
			}
			e.lastwins("ser", a, b)
		case x < 63:
			if r.Intn(40) == 0 {
				// edits on a baggage at the member limit: SetMember/DeleteMember do not re-check the limits
				c := 179 + r.Intn(2)
				var ms []vC11Mem
				for j := 0; j < c; j++ {
					ms = append(ms, vC11Mem{ctor: "raw", key: "k" + strconv.Itoa(j), val: strconv.Itoa(j % 7)})
				}
				ops := []string{"s:0:" + vC11Mem{ctor: "raw", key: "new1", val: "v"}.spec(), "s:1:" + vC11Mem{ctor: "raw", key: "new2", val: "v"}.spec(),
					"s:2:" + vC11Mem{ctor: "raw", key: "k" + strconv.Itoa(r.Intn(c)), val: "changed"}.spec(), "d:" + strconv.Itoa(r.Intn(4)) + ":" + vHex("k"+strconv.Itoa(r.Intn(c)))}
				e.setdel("limit", ms, ops)
				continue
			}
			e.setdel("rnd", vC11Mems(r, vC11GoodMem, 4), vC11Ops(r))
		case x < 66:
			ms := vC11Mems(r, vC11GoodMem, 5)
			if r.Intn(5) == 0 {
				ms = vC11Mems(r, vC11MemGen, 4)
			}
			if r.Intn(40) == 0 {
				_, ms = vC11BigMems(r)
			}
			nk := 1 + r.Intn(4)
			keys := make([]string, nk)
			for j := range keys {
				if len(ms) > 0 && r.Intn(3) > 0 {
					keys[j] = ms[r.Intn(len(ms))].key
				} else {
					keys[j] = vC11Key(r, vC11Keys, vC11BadKeys)
				}
			}
			e.lookup("rnd", ms, keys)
		case x < 72:
			pt, steps := vC11AliasGen(r)
			e.alias("rnd", pt, steps)
		case x < 74:
			e.prop("rnd", vC11PropGen(r))
		case x < 78:
			e.pparse("rnd", vC11PropStr(r))
		default:
			switch y := r.Intn(40); {
			case y < 2:
				g, h := vC11BigHeader(r)
				e.parse(g, h)
			case y < 8:
				e.parse("ser", vC11Header(r))
			case y < 18:
				e.parse("mut", vC11Mutate(r, vC11Header(r)))
			case y < 26:
				e.parse("ows", vC11AddOWS(r, vC11Header(r)))
			case y < 29:
				e.parse("empty", vC11Header(r)+vPick(r, []string{",", ";", ";;", ",,", ", ", "; ", ";;p", ";p;", ";=", ";p=;", ";p= ;q"}))
			case y < 31:
				h := vC11Header(r)
				e.parse("emptyprop", strings.Replace(h, ";", vPick(r, []string{";;", "; ;", ";\t;"}), 1))
			case y < 35:
				// list-members with grammar-edge properties: OWS / non-OWS whitespace around ; and =, several =, empty keys, trailing ;
				h := vPick(r, vC11PWs) + vPick(r, vC11Keys) + vPick(r, vC11PWs) + "=" + vPick(r, vC11PWs) + vPick(r, vC11PVal) + vPick(r, vC11PWs)
				for j := r.Intn(4); j > 0; j-- {
					h += ";" + vC11PropStr(r)
				}
				if r.Intn(4) == 0 {
					h += ";"
				}
				if r.Intn(4) == 0 {
					h += "," + vC11Header(r)
				}
				e.parse("props", h)
			default:
				e.parse("rnd", vC11RndHeader(r))
			}
		}
	}
}
