package baggage

// C11 correspondence harness (white-box, injected with go test -overlay; /repo is not modified).
//
// Wire grammar (one self-contained case per line, see /verif/lean/Otel/C11/Main.lean):
//   member spec   <raw|enc|zero>/<xkey>/<xval>/<props>     props: - | <p>+<p>...
//   property spec k.<xkey> | r.<xkey>.<xval> | e.<xkey>.<xval> | z      (z = zero Property{})
//   member list   - | <mspec>,<mspec>...
//   observed bag  - | <xkey>/<xval>/<oprops>,...   (sorted by key)   oprops: - | <xkey>.<0|1>.<xval>+...
//   result        ok:<bag> | err:<class>
// A failing constructor returns the zero value, which is passed on (as a caller ignoring errors would).
//
//   charset tab <n>              => <validateKeyChar> <validateValueChar> <shouldEscape|->
//   unesc <gen> <xs>             => ok:<x>|err                (url.PathUnescape)
//   trim <gen> <xs>              => <x>                       (strings.TrimSpace)
//   esc <gen> <xs>               => <x valueEscape(s)> ok:<x>|err   (and PathUnescape of it)
//   member <gen> <mspec>         => ok:<member>:<x String()> | err
//   new <gen> <mlist>            => result
//   string <gen> <mlist>         => <x header> | err
//   parse <gen> <xheader>        => result  <result of Parse(result.String()) | ->
//   lastwins <gen> <xa> <xb>     => result(a) result(b) result(a,b)
//   roundtrip <gen> <mlist>      => result(New) <result of Parse(String()) | ->
//   setdel <gen> <mlist> | <op>... => <bag at creation>... | <bag at the end>...     op: s:<recv>:<mspec> | d:<recv>:<xkey>

import (
	"context"
	"errors"
	"net/url"
	"sort"
	"strconv"
	"strings"
	"testing"
)

type vC11Prop struct {
	kind     byte // 'k' 'r' 'e' 'z'
	key, val string
}

type vC11Mem struct {
	ctor     string // raw enc zero
	key, val string
	props    []vC11Prop
}

func (p vC11Prop) build() Property {
	var q Property
	switch p.kind {
	case 'k':
		q, _ = NewKeyProperty(p.key)
	case 'r':
		q, _ = NewKeyValuePropertyRaw(p.key, p.val)
	case 'e':
		q, _ = NewKeyValueProperty(p.key, p.val)
	}
	return q
}

func (p vC11Prop) spec() string {
	switch p.kind {
	case 'k':
		return "k." + vHex(p.key)
	case 'r', 'e':
		return string(p.kind) + "." + vHex(p.key) + "." + vHex(p.val)
	}
	return "z"
}

func (m vC11Mem) build() (Member, error) {
	props := make([]Property, len(m.props))
	for i, p := range m.props {
		props[i] = p.build()
	}
	switch m.ctor {
	case "raw":
		return NewMemberRaw(m.key, m.val, props...)
	case "enc":
		return NewMember(m.key, m.val, props...)
	}
	return Member{}, errInvalidMember
}

func (m vC11Mem) spec() string {
	ps := "-"
	if len(m.props) > 0 {
		s := make([]string, len(m.props))
		for i, p := range m.props {
			s[i] = p.spec()
		}
		ps = strings.Join(s, "+")
	}
	if m.ctor == "zero" {
		return "zero/x/x/-"
	}
	return m.ctor + "/" + vHex(m.key) + "/" + vHex(m.val) + "/" + ps
}

func vC11MemsSpec(ms []vC11Mem) string {
	if len(ms) == 0 {
		return "-"
	}
	s := make([]string, len(ms))
	for i, m := range ms {
		s[i] = m.spec()
	}
	return strings.Join(s, ",")
}

func vC11ParseMem(s string) vC11Mem {
	f := strings.Split(s, "/")
	if len(f) != 4 {
		panic("bad member spec: " + s)
	}
	m := vC11Mem{ctor: f[0], key: vUnhex(f[1]), val: vUnhex(f[2])}
	if f[3] != "-" {
		for _, ps := range strings.Split(f[3], "+") {
			g := strings.Split(ps, ".")
			p := vC11Prop{kind: g[0][0]}
			if len(g) > 1 {
				p.key = vUnhex(g[1])
			}
			if len(g) > 2 {
				p.val = vUnhex(g[2])
			}
			m.props = append(m.props, p)
		}
	}
	return m
}

func vC11ParseMems(s string) []vC11Mem {
	if s == "-" {
		return nil
	}
	var out []vC11Mem
	for _, t := range strings.Split(s, ",") {
		out = append(out, vC11ParseMem(t))
	}
	return out
}

func vC11Build(ms []vC11Mem) []Member {
	out := make([]Member, len(ms))
	for i, m := range ms {
		out[i], _ = m.build()
	}
	return out
}

func vC11MemberObs(m Member) string {
	ps := "-"
	if props := m.Properties(); len(props) > 0 {
		s := make([]string, len(props))
		for i, p := range props {
			v, has := p.Value()
			h := "0"
			if has {
				h = "1"
			}
			s[i] = vHex(p.Key()) + "." + h + "." + vHex(v)
		}
		ps = strings.Join(s, "+")
	}
	return vHex(m.Key()) + "/" + vHex(m.Value()) + "/" + ps
}

func vC11Bag(b Baggage) string {
	ms := b.Members()
	if len(ms) == 0 {
		return "-"
	}
	sort.Slice(ms, func(i, j int) bool { return ms[i].Key() < ms[j].Key() })
	s := make([]string, len(ms))
	for i, m := range ms {
		s[i] = vC11MemberObs(m)
	}
	return strings.Join(s, ",")
}

func vC11Err(err error) string {
	switch {
	case errors.Is(err, errVC11Panic):
		return "err:panic"
	case errors.Is(err, errBaggageBytes):
		return "err:bytes"
	case errors.Is(err, errMemberBytes):
		return "err:member-bytes"
	case errors.Is(err, errMemberNumber):
		return "err:count"
	case errors.Is(err, errInvalidProperty):
		return "err:property"
	case errors.Is(err, errInvalidKey):
		return "err:key"
	case errors.Is(err, errInvalidValue):
		return "err:value"
	case errors.Is(err, errInvalidMember):
		return "err:member"
	}
	return "err:other"
}

func vC11Res(b Baggage, err error) string {
	if err != nil {
		return vC11Err(err)
	}
	return "ok:" + vC11Bag(b)
}

// ---------------------------------------------------------------- emitters

type vC11Em struct{ out *vOut }

func (e vC11Em) charset(n int) {
	b2 := func(b bool) string {
		if b {
			return "1"
		}
		return "0"
	}
	esc := "-"
	if n < 256 {
		esc = b2(shouldEscape(byte(n)))
	}
	e.out.Line("charset tab %d => %s %s %s", n, b2(validateKeyChar(int32(n))), b2(validateValueChar(int32(n))), esc)
}

func vC11Unesc(s string) string {
	u, err := url.PathUnescape(s)
	if err != nil {
		return "err"
	}
	return "ok:" + vHex(u)
}

func (e vC11Em) unesc(gen, s string) { e.out.Line("unesc %s %s => %s", gen, vHex(s), vC11Unesc(s)) }
func (e vC11Em) trim(gen, s string) {
	e.out.Line("trim %s %s => %s", gen, vHex(s), vHex(strings.TrimSpace(s)))
}
func (e vC11Em) esc(gen, s string) {
	x := valueEscape(s)
	e.out.Line("esc %s %s => %s %s", gen, vHex(s), vHex(x), vC11Unesc(x))
}
func (e vC11Em) member(gen string, m vC11Mem) {
	mm, err := m.build()
	if err != nil {
		e.out.Line("member %s %s => err", gen, m.spec())
		return
	}
	e.out.Line("member %s %s => ok:%s:%s", gen, m.spec(), vC11MemberObs(mm), vHex(mm.String()))
}
func (e vC11Em) new(gen string, ms []vC11Mem) {
	b, err := New(vC11Build(ms)...)
	e.out.Line("new %s %s => %s", gen, vC11MemsSpec(ms), vC11Res(b, err))
}
func (e vC11Em) str(gen string, ms []vC11Mem) {
	b, err := New(vC11Build(ms)...)
	if err != nil {
		e.out.Line("string %s %s => err", gen, vC11MemsSpec(ms))
		return
	}
	e.out.Line("string %s %s => %s", gen, vC11MemsSpec(ms), vHex(b.String()))
}

// vC11SafeParse: "never panics" is part of the property, so a panic is an observation (err:panic),
// not a harness crash.
var errVC11Panic = errors.New("panic")

func vC11SafeParse(h string) (b Baggage, err error) {
	defer func() {
		if r := recover(); r != nil {
			b, err = Baggage{}, errVC11Panic
		}
	}()
	return Parse(h)
}

func (e vC11Em) parse(gen, h string) {
	b, err := vC11SafeParse(h)
	re := "-"
	if err == nil {
		b2, err2 := vC11SafeParse(b.String())
		re = vC11Res(b2, err2)
	}
	e.out.Line("parse %s %s => %s %s", gen, vHex(h), vC11Res(b, err), re)
}
func (e vC11Em) lastwins(gen, a, b string) {
	ra, ea := vC11SafeParse(a)
	rb, eb := vC11SafeParse(b)
	rab, eab := vC11SafeParse(a + "," + b)
	e.out.Line("lastwins %s %s %s => %s %s %s", gen, vHex(a), vHex(b), vC11Res(ra, ea), vC11Res(rb, eb), vC11Res(rab, eab))
}
func (e vC11Em) roundtrip(gen string, ms []vC11Mem) {
	b, err := New(vC11Build(ms)...)
	re := "-"
	if err == nil {
		b2, err2 := vC11SafeParse(b.String())
		re = vC11Res(b2, err2)
	}
	e.out.Line("roundtrip %s %s => %s %s", gen, vC11MemsSpec(ms), vC11Res(b, err), re)
}

// setdel: every value ever produced is kept (also inside a context) and dumped twice: when it is
// created and after all edits.
func (e vC11Em) setdel(gen string, ms []vC11Mem, ops []string) {
	b, err := New(vC11Build(ms)...)
	in := "setdel " + gen + " " + vC11MemsSpec(ms) + " |"
	for _, op := range ops {
		in += " " + op
	}
	if err != nil {
		e.out.Line("%s => err", in)
		return
	}
	vals := []Baggage{b}
	ctxs := []context.Context{ContextWithBaggage(context.Background(), b)}
	created := []string{vC11Bag(b)}
	for _, op := range ops {
		f := strings.SplitN(op, ":", 3)
		recv, _ := strconv.Atoi(f[1])
		if recv >= len(vals) {
			recv = 0
		}
		var nb Baggage
		if f[0] == "s" {
			m, _ := vC11ParseMem(f[2]).build()
			nb, _ = vals[recv].SetMember(m)
		} else {
			nb = vals[recv].DeleteMember(vUnhex(f[2]))
		}
		vals = append(vals, nb)
		ctxs = append(ctxs, ContextWithBaggage(ctxs[recv], nb))
		created = append(created, vC11Bag(nb))
	}
	final := make([]string, len(vals))
	for i := range vals {
		final[i] = vC11Bag(FromContext(ctxs[i]))
		if d := vC11Bag(vals[i]); d != final[i] {
			final[i] = "x00/x/-" // the copy in the context and the value differ: cannot happen for a value type
		}
	}
	e.out.Line("%s => %s | %s", in, strings.Join(created, " "), strings.Join(final, " "))
}

// ---------------------------------------------------------------- generators

var vC11Keys = []string{"a", "b", "c", "k", "key", "k1", "k2", "x-y", "a.b", "%", "!#$&'*+-.^_`|~", "Z9"}
var vC11BadKeys = []string{"", " ", "a b", "k,", "k;", "k=", "\u00e9", "\u043a\u043b", "a\xff", "\x80", "k\u00a0", "(", "\"", "a\tb", "\U0001F600"}
var vC11PropKeys = []string{"p", "q", "prop1", "x-y", "%", "p"}

const vC11Token = "abcxyzABZ019!#$%&'*+-.^_`|~"

func vC11Key(r *vRand, pool, bad []string) string {
	switch x := r.Intn(20); {
	case x < 15:
		return vPick(r, pool)
	case x < 18:
		n := 1 + r.Intn(8)
		var sb strings.Builder
		for i := 0; i < n; i++ {
			sb.WriteByte(vC11Token[r.Intn(len(vC11Token))])
		}
		return sb.String()
	default:
		return vPick(r, bad)
	}
}

var vC11ValPieces = []string{"a", "b", "z", "0", " ", "%", ",", ";", "=", "\"", "\\", "\t", "\n", "+", "/", "\u0161", "\u00e9", "\ufffd", "\u20ac", "\U0001F600", "\u00a0", "\u0085", "%41", "%2C", "%e2%82%ac"}

func vC11Val(r *vRand) string {
	switch x := r.Intn(20); {
	case x < 2:
		return ""
	case x < 13:
		n := r.Intn(7)
		var sb strings.Builder
		for i := 0; i < n; i++ {
			sb.WriteString(vPick(r, vC11ValPieces))
		}
		return sb.String()
	case x < 15:
		return vValidStr(r, 6)
	case x < 17:
		return vStr(r, 5) // may be invalid UTF-8: the constructor must reject it
	case x < 19:
		return vPick(r, []string{"v", "value", "1", "true", "a=b", "x y"})
	default:
		return strings.Repeat(vPick(r, []string{"a", " ", "\u00e9", "%"}), 1+r.Intn(300))
	}
}

// percent-encoded text for the `enc` constructors: mostly correct, sometimes broken
func vC11Enc(r *vRand) string {
	s := valueEscape(vC11Val(r))
	switch r.Intn(8) {
	case 0:
		return vC11Mutate(r, s)
	case 1:
		return s + vPick(r, []string{"%", "%4", "%zz", "%4g", " ", ",", "%ff", "%C5", "\u00e9"})
	case 2:
		return strings.ToLower(s)
	}
	return s
}

func vC11PropGen(r *vRand) vC11Prop {
	k := vC11Key(r, vC11PropKeys, vC11BadKeys)
	switch x := r.Intn(20); {
	case x < 7:
		return vC11Prop{kind: 'k', key: k}
	case x < 9:
		return vC11Prop{kind: 'r', key: k, val: ""}
	case x < 15:
		return vC11Prop{kind: 'r', key: k, val: vC11Val(r)}
	case x < 19:
		return vC11Prop{kind: 'e', key: k, val: vC11Enc(r)}
	}
	return vC11Prop{kind: 'z'}
}

func vC11MemGen(r *vRand) vC11Mem {
	m := vC11Mem{ctor: "raw", key: vC11Key(r, vC11Keys, vC11BadKeys)}
	switch x := r.Intn(40); {
	case x == 0:
		return vC11Mem{ctor: "zero"}
	case x < 8:
		m.ctor = "enc"
		m.val = vC11Enc(r)
	default:
		m.val = vC11Val(r)
	}
	if r.Intn(2) == 0 {
		n := 1 + r.Intn(3)
		for i := 0; i < n; i++ {
			m.props = append(m.props, vC11PropGen(r))
		}
	}
	return m
}

// members that are (almost always) accepted and have token keys: the round-trip population
func vC11GoodMem(r *vRand) vC11Mem {
	m := vC11Mem{ctor: "raw", key: vPick(r, vC11Keys)}
	if r.Intn(4) == 0 {
		m.key += strconv.Itoa(r.Intn(50))
	}
	n := r.Intn(7)
	var sb strings.Builder
	for i := 0; i < n; i++ {
		sb.WriteString(vPick(r, vC11ValPieces))
	}
	m.val = sb.String()
	np := 0
	if r.Intn(2) == 0 {
		np = 1 + r.Intn(3)
	}
	for i := 0; i < np; i++ {
		p := vC11Prop{kind: 'k', key: vPick(r, vC11PropKeys)}
		switch r.Intn(3) {
		case 1:
			p.kind = 'r'
		case 2:
			p.kind = 'r'
			p.val = vValidStr(r, 4)
		}
		m.props = append(m.props, p)
	}
	return m
}

func vC11Mems(r *vRand, gen func(*vRand) vC11Mem, max int) []vC11Mem {
	n := r.Intn(max + 1)
	ms := make([]vC11Mem, n)
	for i := range ms {
		ms[i] = gen(r)
	}
	return ms
}

// sizes straddling 180 members / 4096 bytes per member / 8192 bytes in total
// vC11EscFill builds a value whose percent-escaped length is exactly n (n >= 0) out of multi-byte runes, bytes that
// need escaping and plain letters, in random proportion (the constructor's size checks must count escaped BYTES).
func vC11EscFill(r *vRand, n int) string {
	var sb strings.Builder
	pieces := []struct {
		s string
		e int
	}{{"\u00e9", 6}, {"\u20ac", 9}, {"\U0001F600", 12}, {" ", 3}, {"%", 3}, {"\u4e2d", 9}, {"a", 1}, {"b", 1}}
	for n > 0 {
		p := pieces[r.Intn(len(pieces))]
		if p.e > n {
			p = pieces[6]
		}
		sb.WriteString(p.s)
		n -= p.e
	}
	return sb.String()
}

func vC11BigMems(r *vRand) (string, []vC11Mem) {
	switch r.Intn(6) {
	case 4: // total 8186..8198 escaped bytes, three members of non-ASCII / escape-needing values, each below 4096
		t := 8186 + r.Intn(13)
		return "total8192esc", []vC11Mem{
			{ctor: "raw", key: "a", val: vC11EscFill(r, 2998)},
			{ctor: "raw", key: "b", val: vC11EscFill(r, 2998)},
			{ctor: "raw", key: "c", val: vC11EscFill(r, t-6008)},
		}
	case 5: // the same with part of the bytes in property values
		t := 8186 + r.Intn(13)
		return "total8192escp", []vC11Mem{
			{ctor: "raw", key: "a", val: vC11EscFill(r, 1500), props: []vC11Prop{{kind: 'r', key: "p", val: vC11EscFill(r, 1494)}}},
			{ctor: "raw", key: "b", val: vC11EscFill(r, 2998)},
			{ctor: "raw", key: "c", val: vC11EscFill(r, t-6008)},
		}
	case 0: // member count 178..183, sometimes with duplicates on top
		n := 178 + r.Intn(6)
		var ms []vC11Mem
		for i := 0; i < n; i++ {
			ms = append(ms, vC11Mem{ctor: "raw", key: "k" + strconv.Itoa(i), val: strconv.Itoa(i % 7)})
		}
		for i := r.Intn(4); i > 0; i-- {
			ms = append(ms, vC11Mem{ctor: "raw", key: "k" + strconv.Itoa(r.Intn(n)), val: "dup"})
		}
		return "count", ms
	case 1: // one member whose serialisation is 4094..4099 bytes (F10 above 4096)
		l := 4094 + r.Intn(6)
		ms := []vC11Mem{{ctor: "raw", key: "k", val: strings.Repeat("a", l-2)}}
		if r.Bool() {
			ms = append(ms, vC11GoodMem(r))
		}
		return "member4096", ms
	case 2: // same with escaped bytes and a property
		l := 4090 + r.Intn(10)
		v := strings.Repeat(" ", (l-6)/3) + strings.Repeat("a", (l-6)%3)
		return "member4096esc", []vC11Mem{{ctor: "raw", key: "k", val: v, props: []vC11Prop{{kind: 'r', key: "p", val: "1"}}}}
	default: // total 8189..8195 bytes with three members below the member limit
		t := 8189 + r.Intn(7)
		return "total8192", []vC11Mem{
			{ctor: "raw", key: "a", val: strings.Repeat("a", 3000)},
			{ctor: "raw", key: "b", val: strings.Repeat("b", 3000)},
			{ctor: "raw", key: "c", val: strings.Repeat("c", t-6008)},
		}
	}
}

var vC11MutBytes = []string{",", ";", "=", " ", "\t", "%", "4", "f", "G", "\"", "\\", "\xff", "\xc2\xa0", "\xc2\x85", "\n", "\u00e9", "(", "\x00", "\x7f", "a"}

func vC11Mutate(r *vRand, s string) string {
	n := 1 + r.Intn(2)
	for i := 0; i < n; i++ {
		pos := r.Intn(len(s) + 1)
		x := vPick(r, vC11MutBytes)
		switch r.Intn(3) {
		case 0: // insert
			s = s[:pos] + x + s[pos:]
		case 1: // replace
			if pos < len(s) {
				s = s[:pos] + x + s[pos+1:]
			}
		default: // delete
			if pos < len(s) {
				s = s[:pos] + s[pos+1:]
			}
		}
	}
	return s
}

func vC11Header(r *vRand) string {
	b, err := New(vC11Build(vC11Mems(r, vC11GoodMem, 5))...)
	if err != nil {
		return "a=1"
	}
	return b.String()
}

var vC11OWS = []string{" ", "\t", "  ", " \t ", "\u00a0", "\u0085", "\n", "\r", "\u2003", "\u3000", "\v", "\f"}

func vC11AddOWS(r *vRand, h string) string {
	var sb strings.Builder
	for i := 0; i < len(h); i++ {
		c := h[i]
		if (c == ',' || c == ';' || c == '=') && r.Intn(2) == 0 {
			if r.Bool() {
				sb.WriteString(vPick(r, vC11OWS))
			}
			sb.WriteByte(c)
			if r.Bool() {
				sb.WriteString(vPick(r, vC11OWS))
			}
			continue
		}
		sb.WriteByte(c)
	}
	s := sb.String()
	if r.Intn(3) == 0 {
		s = vPick(r, vC11OWS) + s
	}
	if r.Intn(3) == 0 {
		s += vPick(r, vC11OWS)
	}
	return s
}

var vC11RndPieces = []string{"k", "a", "b", "=", "=", ",", ";", " ", "\t", "%", "%41", "%ff", "%FF", "%zz", "%4", "\xff", "\u00e9", "\u00a0", "v", "1", "p", "\"", "\\", "%2C", "%e2%82", "%C5%A1", "+", "/"}

func vC11RndHeader(r *vRand) string {
	n := r.Intn(12)
	var sb strings.Builder
	for i := 0; i < n; i++ {
		if r.Intn(12) == 0 {
			sb.WriteByte(byte(r.Intn(256)))
		} else {
			sb.WriteString(vPick(r, vC11RndPieces))
		}
	}
	return sb.String()
}

func vC11BigHeader(r *vRand) (string, string) {
	switch r.Intn(6) {
	case 0: // distinct/duplicate member counts around 180
		n := 178 + r.Intn(6)
		var parts []string
		for i := 0; i < n; i++ {
			parts = append(parts, "k"+strconv.Itoa(i)+"="+strconv.Itoa(i%7))
		}
		for i := r.Intn(6); i > 0; i-- {
			parts = append(parts, "k"+strconv.Itoa(r.Intn(n))+"=dup")
		}
		return "count", strings.Join(parts, ",")
	case 1: // member length 4094..4099
		l := 4094 + r.Intn(6)
		h := "k=" + strings.Repeat("a", l-2)
		if r.Bool() {
			h = "x=1," + h
		}
		return "member4096", h
	case 2: // member length around 4096 with properties and OWS counted in
		l := 4094 + r.Intn(6)
		h := " k = v ; p=" + strings.Repeat("b", l-11)
		return "member4096p", h
	case 3: // total 8189..8195
		t := 8189 + r.Intn(7)
		return "total8192", "a=" + strings.Repeat("a", 3000) + ",b=" + strings.Repeat("b", 3000) + ",c=" + strings.Repeat("c", t-6008)
	case 4: // F30: invalid bytes behind %XX triple in size when re-serialised; member limit (2+9n > 4096 from n=455)
		n := 453 + r.Intn(5)
		return "f30member", "k=" + strings.Repeat("%FF", n)
	default: // F30: total limit
		m := 7 + r.Intn(6)
		return "f30total", "a=" + strings.Repeat("%FF", 450) + ",b=" + strings.Repeat("%ff", 450) + ",c=" + strings.Repeat("%80", m)
	}
}

func vC11TrimStr(r *vRand) string {
	pieces := []string{" ", "\t", "\n", "\v", "\f", "\r", "\u0085", "\u00a0", "\u1680", "\u2000", "\u200a", "\u200b", "\u2028", "\u2029", "\u202f", "\u205f", "\u3000", "\ufeff", "a", "k", "\u00e9", "\xc2", "\x85", "\xa0", "\xe2\x80", "\x80", "\xe3\x80\x80\x80", "\xff", "\U0001F600", "\xf0\x9f\x98"}
	n := r.Intn(7)
	var sb strings.Builder
	for i := 0; i < n; i++ {
		if r.Intn(15) == 0 {
			sb.WriteByte(byte(r.Intn(256)))
		} else {
			sb.WriteString(vPick(r, pieces))
		}
	}
	return sb.String()
}

func vC11Ops(r *vRand) []string {
	n := r.Intn(7)
	ops := make([]string, n)
	for i := range ops {
		recv := r.Intn(i + 1)
		if r.Intn(3) == 0 {
			ops[i] = "d:" + strconv.Itoa(recv) + ":" + vHex(vC11Key(r, vC11Keys, vC11BadKeys))
		} else {
			var m vC11Mem
			if r.Intn(4) == 0 {
				m = vC11MemGen(r)
			} else {
				m = vC11GoodMem(r)
			}
			ops[i] = "s:" + strconv.Itoa(recv) + ":" + m.spec()
		}
	}
	return ops
}

// ---------------------------------------------------------------- the test

func TestVerifC11Core(t *testing.T) {
	out := vOpen(t)
	defer out.Close()
	e := vC11Em{out}

	if rp := vReplayLines(); rp != nil {
		for _, f := range rp {
			switch f[0] {
			case "charset":
				n, _ := strconv.Atoi(f[2])
				e.charset(n)
			case "unesc":
				e.unesc(f[1], vUnhex(f[2]))
			case "trim":
				e.trim(f[1], vUnhex(f[2]))
			case "esc":
				e.esc(f[1], vUnhex(f[2]))
			case "member":
				e.member(f[1], vC11ParseMem(f[2]))
			case "new":
				e.new(f[1], vC11ParseMems(f[2]))
			case "string":
				e.str(f[1], vC11ParseMems(f[2]))
			case "parse":
				e.parse(f[1], vUnhex(f[2]))
			case "lastwins":
				e.lastwins(f[1], vUnhex(f[2]), vUnhex(f[3]))
			case "roundtrip":
				e.roundtrip(f[1], vC11ParseMems(f[2]))
			case "setdel":
				e.setdel(f[1], vC11ParseMems(f[2]), f[4:])
			}
		}
		return
	}

	r := &vRand{s: vSeed()}
	n := vN(20000)

	// the two tables and shouldEscape, all bytes, and a few runes above Latin-1, on every run
	for i := 0; i < 256; i++ {
		e.charset(i)
	}
	for _, i := range []int{0x100, 0x161, 0x2003, 0xFFFD, 0x1F600, 0x10FFFF} {
		e.charset(i)
	}
	// every single byte through escape/unescape
	for i := 0; i < 256; i++ {
		e.esc("byte", string([]byte{byte(i)}))
	}
	// known findings, reproduced on every run (a few cases each)
	for l := 4096; l <= 4098; l++ {
		e.roundtrip("f10", []vC11Mem{{ctor: "raw", key: "k", val: strings.Repeat("a", l-2)}})
	}
	for c := 454; c <= 456; c++ {
		e.parse("f30", "k="+strings.Repeat("%FF", c))
	}

	if os_exhaustive() {
		// all headers of length <= 4 over a 12-byte alphabet
		alpha := []byte{'k', 'a', '=', ',', ';', ' ', '%', '4', '1', 'f', 0xff, 0xc2}
		var rec func(prefix []byte, depth int)
		rec = func(prefix []byte, depth int) {
			e.parse("exh", string(prefix))
			if depth == 4 {
				return
			}
			for _, b := range alpha {
				rec(append(append([]byte{}, prefix...), b), depth+1)
			}
		}
		rec(nil, 0)
		// all strings of length <= 3 over the trim alphabet
		talpha := []byte{' ', '\n', 'a', 0xc2, 0x85, 0xa0, 0xe2, 0x80, 0xe3, 0xff}
		var rec2 func(prefix []byte, depth int)
		rec2 = func(prefix []byte, depth int) {
			e.trim("exh", string(prefix))
			if depth == 4 {
				return
			}
			for _, b := range talpha {
				rec2(append(append([]byte{}, prefix...), b), depth+1)
			}
		}
		rec2(nil, 0)
	}

	for i := 0; i < n; i++ {
		switch x := r.Intn(100); {
		case x < 3:
			s := vC11Enc(r)
			if r.Intn(3) == 0 {
				s = vC11RndHeader(r)
			}
			e.unesc("enc", s)
		case x < 8:
			e.trim("rnd", vC11TrimStr(r))
		case x < 11:
			if r.Bool() {
				e.esc("val", vC11Val(r))
			} else {
				e.esc("bytes", vStr(r, 6))
			}
		case x < 17:
			e.member("rnd", vC11MemGen(r))
		case x < 23:
			if r.Intn(25) == 0 {
				g, ms := vC11BigMems(r)
				e.new(g, ms)
			} else {
				e.new("rnd", vC11Mems(r, vC11MemGen, 4))
			}
		case x < 27:
			if r.Bool() {
				e.str("good", vC11Mems(r, vC11GoodMem, 5))
			} else {
				e.str("rnd", vC11Mems(r, vC11MemGen, 4))
			}
		case x < 47:
			switch y := r.Intn(40); {
			case y == 0:
				g, ms := vC11BigMems(r)
				e.roundtrip(g, ms)
			case y < 30:
				e.roundtrip("good", vC11Mems(r, vC11GoodMem, 6))
			default:
				e.roundtrip("rnd", vC11Mems(r, vC11MemGen, 4))
			}
		case x < 55:
			a, b := vC11Header(r), vC11Header(r)
			switch r.Intn(6) {
			case 0:
				a = vC11Mutate(r, a)
			case 1:
				b = vC11AddOWS(r, b)
			case 2:
				b = vC11RndHeader(r)
			}
			e.lastwins("ser", a, b)
		case x < 63:
			e.setdel("rnd", vC11Mems(r, vC11GoodMem, 4), vC11Ops(r))
		default:
			switch y := r.Intn(40); {
			case y == 0:
				g, h := vC11BigHeader(r)
				e.parse(g, h)
			case y < 8:
				e.parse("ser", vC11Header(r))
			case y < 18:
				e.parse("mut", vC11Mutate(r, vC11Header(r)))
			case y < 26:
				e.parse("ows", vC11AddOWS(r, vC11Header(r)))
			case y < 29:
				e.parse("empty", vC11Header(r)+vPick(r, []string{",", ";", ";;", ",,", ", ", "; ", ";;p", ";p;", ";=", ";p=;", ";p= ;q"}))
			case y < 31:
				h := vC11Header(r)
				e.parse("emptyprop", strings.Replace(h, ";", vPick(r, []string{";;", "; ;", ";\t;"}), 1))
			default:
				e.parse("rnd", vC11RndHeader(r))
			}
		}
	}
}
