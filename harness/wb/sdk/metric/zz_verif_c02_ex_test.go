package metric

import (
	"context"
	"encoding/binary"
	"fmt"
	"sort"
	"strconv"
	"strings"
	"sync"
	"testing"
	"time"

	"go.opentelemetry.io/otel/attribute"
	"go.opentelemetry.io/otel/metric"
	"go.opentelemetry.io/otel/sdk/metric/exemplar"
	"go.opentelemetry.io/otel/sdk/metric/metricdata"
	"go.opentelemetry.io/otel/trace"
)

// TestVerifC02Ex: the exemplar reservoir hand-off of the sum aggregator (model Otel/C02/Exemplar.lean). Public API only.
//   ex <gen> <d|c> <ic|iu|fc|fu> <on|off|tb|df> <K|F<k>> <reuse 0|1> | add a v s | col … => <record> …
// One ManualReader (delta or cumulative), one counter / up-down counter (int64 / float64: values are k/256, printed as
// k), exemplar filter always-on / always-off / trace-based / not configured (df = the default, trace-based), reservoir
// K = the harness' own (keeps every offer, hands all over at Collect and starts again; installed through
// Stream.ExemplarReservoirProviderSelector) or F<k> = exemplar.FixedSizeReservoirProvider(k) (the generator never lets
// more than k offers pass between two collections of one attribute set, so no random replacement happens).
// add a v s: Add(v) with attribute set a under a context carrying a span context whose trace id encodes the index of the
// op (1-based) and which is sampled iff s = 1. col: Collect — into ONE ResourceMetrics reused for the whole history
// (reuse = 1: the exemplar slices of the previous collection are recycled by collectExemplars) or a fresh one.
// record = points sorted by attribute set, "<a>=<value>/<exemplars>" joined by ","; exemplars = "<value>@<op index>" joined
// by "." in reservoir order, "-" = none; a collection without points = "-".
type c02KeepAll struct {
	mu sync.Mutex
	ex []exemplar.Exemplar
}

func (r *c02KeepAll) Offer(ctx context.Context, t time.Time, v exemplar.Value, dropped []attribute.KeyValue) {
	e := exemplar.Exemplar{FilteredAttributes: dropped, Time: t, Value: v}
	if sc := trace.SpanContextFromContext(ctx); sc.HasTraceID() {
		tid, sid := sc.TraceID(), sc.SpanID()
		e.TraceID, e.SpanID = tid[:], sid[:]
	}
	r.mu.Lock()
	r.ex = append(r.ex, e)
	r.mu.Unlock()
}

func (r *c02KeepAll) Collect(dest *[]exemplar.Exemplar) {
	r.mu.Lock()
	*dest = append((*dest)[:0], r.ex...)
	r.ex = nil
	r.mu.Unlock()
}

func c02ExTag(tid []byte) int {
	if len(tid) != 16 {
		return 0
	}
	return int(binary.BigEndian.Uint64(tid[8:]))
}

func c02ExPoints[N int64 | float64](d metricdata.Aggregation) ([]c02Pt, bool) {
	x, ok := d.(metricdata.Sum[N])
	if !ok {
		return nil, false
	}
	num := func(v N) string {
		switch y := any(v).(type) {
		case int64:
			return strconv.FormatInt(y, 10)
		case float64:
			return c02Scaled(y)
		}
		return "?"
	}
	var pts []c02Pt
	for _, p := range x.DataPoints {
		var es []string
		for _, e := range p.Exemplars {
			es = append(es, num(e.Value)+"@"+strconv.Itoa(c02ExTag(e.TraceID)))
		}
		exs := "-"
		if len(es) > 0 {
			exs = strings.Join(es, ".")
		}
		pts = append(pts, c02Pt{c02SetID(p.Attributes), num(p.Value) + "/" + exs})
	}
	return pts, true
}

func TestVerifC02Ex(t *testing.T) {
	out := vOpen(t)
	defer out.Close()
	ctx := context.Background()

	run := func(gen, tp, inst, filt, res, reuse string, ops [][]string) {
		temp := metricdata.CumulativeTemporality
		if tp == "d" {
			temp = metricdata.DeltaTemporality
		}
		rd := NewManualReader(WithTemporalitySelector(func(InstrumentKind) metricdata.Temporality { return temp }))
		var prov exemplar.ReservoirProvider
		if res == "K" {
			prov = func(attribute.Set) exemplar.Reservoir { return &c02KeepAll{} }
		} else {
			k, _ := strconv.Atoi(strings.TrimPrefix(res, "F"))
			prov = exemplar.FixedSizeReservoirProvider(k)
		}
		opts := []Option{WithReader(rd), WithView(NewView(Instrument{Name: "*"}, Stream{
			ExemplarReservoirProviderSelector: func(Aggregation) exemplar.ReservoirProvider { return prov },
		}))}
		switch filt {
		case "on":
			opts = append(opts, WithExemplarFilter(exemplar.AlwaysOnFilter))
		case "off":
			opts = append(opts, WithExemplarFilter(exemplar.AlwaysOffFilter))
		case "tb":
			opts = append(opts, WithExemplarFilter(exemplar.TraceBasedFilter))
		}
		mp := NewMeterProvider(opts...)
		defer mp.Shutdown(ctx)
		m := mp.Meter("c02ex")
		var add func(c context.Context, a int, v int64)
		switch inst {
		case "ic":
			c, _ := m.Int64Counter("s")
			add = func(cx context.Context, a int, v int64) { c.Add(cx, v, metric.WithAttributeSet(c02Set(a))) }
		case "iu":
			c, _ := m.Int64UpDownCounter("s")
			add = func(cx context.Context, a int, v int64) { c.Add(cx, v, metric.WithAttributeSet(c02Set(a))) }
		case "fc":
			c, _ := m.Float64Counter("s")
			add = func(cx context.Context, a int, v int64) { c.Add(cx, float64(v)/256, metric.WithAttributeSet(c02Set(a))) }
		default:
			c, _ := m.Float64UpDownCounter("s")
			add = func(cx context.Context, a int, v int64) { c.Add(cx, float64(v)/256, metric.WithAttributeSet(c02Set(a))) }
		}
		var shared metricdata.ResourceMetrics
		var recs []string
		for i, op := range ops {
			switch op[0] {
			case "add":
				a, _ := strconv.Atoi(op[1])
				v, _ := strconv.ParseInt(op[2], 10, 64)
				var tid trace.TraceID
				binary.BigEndian.PutUint64(tid[8:], uint64(i+1))
				var flags trace.TraceFlags
				if op[3] == "1" {
					flags = trace.FlagsSampled
				}
				sc := trace.NewSpanContext(trace.SpanContextConfig{TraceID: tid, SpanID: trace.SpanID{1}, TraceFlags: flags})
				add(trace.ContextWithSpanContext(ctx, sc), a, v)
			case "col":
				rm := &shared
				if reuse != "1" {
					rm = &metricdata.ResourceMetrics{}
				}
				if err := rd.Collect(ctx, rm); err != nil {
					recs = append(recs, "err")
					continue
				}
				var pts []c02Pt
				for _, sm := range rm.ScopeMetrics {
					for _, mt := range sm.Metrics {
						p, ok := c02ExPoints[int64](mt.Data)
						if !ok {
							p, ok = c02ExPoints[float64](mt.Data)
						}
						if !ok {
							pts = append(pts, c02Pt{999999, "?"})
						}
						pts = append(pts, p...)
					}
				}
				sort.SliceStable(pts, func(x, y int) bool { return pts[x].a < pts[y].a })
				var ps []string
				for _, p := range pts {
					ps = append(ps, fmt.Sprintf("%d=%s", p.a, p.v))
				}
				if len(ps) == 0 {
					recs = append(recs, "-")
				} else {
					recs = append(recs, strings.Join(ps, ","))
				}
			}
		}
		var sb strings.Builder
		for _, op := range ops {
			sb.WriteString(" | " + strings.Join(op, " "))
		}
		out.Line("ex %s %s %s %s %s %s%s => %s", gen, tp, inst, filt, res, reuse, sb.String(), strings.Join(recs, " "))
	}

	if rp := vReplayLines(); rp != nil {
		for _, f := range rp {
			if f[0] != "ex" || len(f) < 7 {
				continue
			}
			var ops [][]string
			var cu []string
			for _, tk := range f[7:] {
				if tk == "|" {
					if cu != nil {
						ops = append(ops, cu)
					}
					cu = nil
					continue
				}
				cu = append(cu, tk)
			}
			if cu != nil {
				ops = append(ops, cu)
			}
			run(f[1], f[2], f[3], f[4], f[5], f[6], ops)
		}
		return
	}

	r := &vRand{s: vSeed()}
	n := vN(800)
	for i := 0; i < n; i++ {
		tp := vPick(r, []string{"d", "c"})
		inst := vPick(r, []string{"ic", "iu", "fc", "fu"})
		filt := vPick(r, []string{"on", "on", "tb", "tb", "df", "off"})
		res := "K"
		k := 1 << 30
		if r.Intn(3) == 0 {
			k = 1 + r.Intn(4)
			res = "F" + strconv.Itoa(k)
		}
		reuse := vPick(r, []string{"1", "1", "0"})
		nattr := 1 + r.Intn(3)
		nops := 4 + r.Intn(40)
		passed := map[int]int{} // offers let through per attribute set since the last collection
		var ops [][]string
		for j := 0; j < nops; j++ {
			if r.Intn(4) == 0 {
				ops = append(ops, []string{"col"})
				passed = map[int]int{}
				continue
			}
			a := 1 + r.Intn(nattr)
			v := int64(r.Intn(200))
			if inst[1] == 'u' {
				v -= 60
			}
			if inst[0] == 'f' {
				v = v*64 + int64(r.Intn(3))*32
			}
			s := "0"
			if r.Intn(3) != 0 {
				s = "1"
			}
			pass := filt == "on" || ((filt == "tb" || filt == "df") && s == "1")
			if pass && passed[a] >= k {
				// the fixed-size reservoir is full: keep this measurement out of the reservoir
				if filt == "on" {
					continue
				}
				s, pass = "0", false
			}
			if pass {
				passed[a]++
			}
			ops = append(ops, []string{"add", strconv.Itoa(a), strconv.FormatInt(v, 10), s})
		}
		ops = append(ops, []string{"col"}, []string{"col"})
		run("rnd", tp, inst, filt, res, reuse, ops)
	}
}
