package metric

// C08 correspondence harness: twin ManualReaders (delta / cumulative) on one MeterProvider, all instrument kinds,
// default and view-selected aggregations, callbacks replaying the history's observations. Public API only.
//   twin <gen> <insts> <slots> | rec j a v | obs j a v | reg k | unreg k | cberr | cancelat j | col … => <record> …
// ovl: for each reader two collections OVERLAP: the first is parked in its first callback while the second is started
// (on this tree the second blocks on the pipeline lock until the first is done): records as two consecutive cycles, the
// second replaying the same observations. insts tokens may carry "@m" (meter m of the provider: scope "c08" differing
// only in version / schema URL / attributes) and "#k" (created with the NAME of instrument k of another meter).
// cancelat j: the contexts of the next cycle's two collections are cancelled WHILE instrument j is being aggregated
// (a hook exemplar reservoir installed through the instrument's view — public API — cancels from its Collect).
// by <pos> <kinds> (first op): the provider has a third reader at position pos whose AggregationSelector drops the
// instrument kinds in <kinds> (c u h g C U G) or — "!<kinds>" — answers an aggregation isAggregatorCompatible rejects
// (LastValue for the sum / histogram kinds, Sum for gauges); it is collected in every cycle, its data are discarded.
// cberr: every callback that runs in the next cycle returns an error AFTER making its observations (the SDK joins such
// errors and returns them together with the collected data; header "<cycle>:<D|C>:e" = Collect returned an error).
// gen tags ending in "+fresh" collect into a fresh ResourceMetrics each time; all others reuse ONE ResourceMetrics
// per reader across all collections (what PeriodicReader's pool and most ManualReader users do).
// insts: comma list of <i|f><kind><agg><cb>[n]; kind c,u,h,g (sync) C,U,G (observable); agg - s l e x d; cb 0|1;
// optional 5th char n = the view's explicit / exponential histogram aggregation has NoMinMax.
// histogram and exponential-histogram streams carry a 5th field: per point "<min>~<max>" or "-" (Min/Max absent).
// exponential-histogram streams carry a 6th field: per point "<scale>@<neg offset>@<neg counts>@<pos offset>@<pos counts>"
// (counts dot-separated, possibly empty): the full bucket vectors, judged by Spec.expoBucketsTwin after rescaling.
// slots: comma list of digit strings (instrument indexes of one RegisterCallback), "-" = none.
// record: "<cycle>:<D|C>;<stream>;…", stream = "<j>:<type>:<start>.<time>.<p>.<f>.<le>.<uni>:<points>".
// Time stamps are never printed: start/time are classified by the window (creation `c`, collection `w<k>` of the
// same reader) they fall in; p = start equals the time of this stream's report in the previous cycle; f = start
// equals the start of this stream's most recent earlier report; le = start <= time; uni = all points agree.

import (
	"context"
	"errors"
	"fmt"
	"math"
	"sort"
	"strconv"
	"strings"
	"sync"
	"testing"
	"time"

	"github.com/go-logr/logr"
	"go.opentelemetry.io/otel"
	"go.opentelemetry.io/otel/attribute"
	"go.opentelemetry.io/otel/metric"
	"go.opentelemetry.io/otel/sdk/metric/exemplar"
	"go.opentelemetry.io/otel/sdk/metric/metricdata"
)

// c08Hook is an exemplar reservoir whose Collect runs a one-shot hook: the SDK calls it while it computes the
// aggregation of the stream it belongs to, i.e. in the middle of pipeline.produce's aggregation loop.
type c08Hook struct {
	mu   sync.Mutex
	hook func()
}

func (h *c08Hook) set(f func()) {
	h.mu.Lock()
	h.hook = f
	h.mu.Unlock()
}
func (h *c08Hook) Offer(context.Context, time.Time, exemplar.Value, []attribute.KeyValue) {}
func (h *c08Hook) Collect(dest *[]exemplar.Exemplar) {
	*dest = (*dest)[:0]
	h.mu.Lock()
	f := h.hook
	h.hook = nil
	h.mu.Unlock()
	if f != nil {
		f()
	}
}

type c08Inst struct {
	float bool
	kind  byte
	sel   byte
	cb    bool
	nomm  bool
	meter int // 0: Meter("c08"); 1: + version; 2: + schema URL; 3: + scope attributes
	name  int // index of the instrument whose name ("i<k>") this one uses
}

// per-collection state handed to the callbacks through the context given to Collect
type c08Gate struct{ parked, release chan struct{} }
type c08Cycle struct {
	obs   []c08Obs
	fail  bool
	mu    sync.Mutex
	gate  *c08Gate  // the FIRST callback invocation of the collection parks here
	first time.Time // when the first callback invocation of the collection started
}
type c08CycleKey struct{}

// enter is called at the start of every callback invocation.
func c08Enter(ctx context.Context) *c08Cycle {
	cy, _ := ctx.Value(c08CycleKey{}).(*c08Cycle)
	if cy == nil {
		return &c08Cycle{}
	}
	cy.mu.Lock()
	var g *c08Gate
	if cy.first.IsZero() {
		cy.first = time.Now()
		g, cy.gate = cy.gate, nil
	}
	cy.mu.Unlock()
	if g != nil {
		close(g.parked)
		<-g.release
	}
	return cy
}

type c08Result struct {
	rm     *metricdata.ResourceMetrics
	err    error
	lo, hi time.Time
}

type c08Obs struct {
	j, a int
	v    int64
}

func c08Set(id int) attribute.Set {
	if id == 1 {
		return *attribute.EmptySet()
	}
	return attribute.NewSet(attribute.Int("k", id))
}
func c08SetID(s attribute.Set) int {
	if s.Len() == 0 {
		return 1
	}
	if v, ok := s.Value("k"); ok && s.Len() == 1 {
		return int(v.AsInt64())
	}
	if v, ok := s.Value("otel.metric.overflow"); ok && v.AsBool() {
		return 0
	}
	return 999999
}
func c08F(f float64) string {
	k := f * 256
	if k != math.Trunc(k) || math.Abs(k) > 1<<62 {
		return "inexact"
	}
	return strconv.FormatInt(int64(k), 10)
}
func c08Num[N int64 | float64](v N) string {
	switch x := any(v).(type) {
	case int64:
		return strconv.FormatInt(x, 10)
	case float64:
		return c08F(x)
	}
	return "?"
}

type c08Pt struct {
	a           int
	s           string
	start, time time.Time
	mm          string // histograms: "<min>~<max>", "-" when both are absent, "?" when only one is
	xb          string // exponential histograms: "<scale>@<neg offset>@<neg counts>@<pos offset>@<pos counts>"
}

func c08MM[N int64 | float64](mn, mx metricdata.Extrema[N]) string {
	a, okA := mn.Value()
	b, okB := mx.Value()
	switch {
	case okA && okB:
		return c08Num(a) + "~" + c08Num(b)
	case !okA && !okB:
		return "-"
	}
	return "?"
}

func c08Temp(t metricdata.Temporality) string {
	if t == metricdata.DeltaTemporality {
		return "d"
	}
	return "c"
}
func c08U(xs []uint64) string {
	var p []string
	for _, x := range xs {
		p = append(p, strconv.FormatUint(x, 10))
	}
	return strings.Join(p, ".")
}
func c08Tot(xs []uint64) uint64 {
	var t uint64
	for _, x := range xs {
		t += x
	}
	return t
}

func c08Points[N int64 | float64](d metricdata.Aggregation) (string, []c08Pt, bool) {
	var pts []c08Pt
	switch x := d.(type) {
	case metricdata.Sum[N]:
		for _, p := range x.DataPoints {
			pts = append(pts, c08Pt{c08SetID(p.Attributes), c08Num(p.Value), p.StartTime, p.Time, "", ""})
		}
		return "S" + c08Temp(x.Temporality) + map[bool]string{true: "m", false: "n"}[x.IsMonotonic], pts, true
	case metricdata.Gauge[N]:
		for _, p := range x.DataPoints {
			pts = append(pts, c08Pt{c08SetID(p.Attributes), c08Num(p.Value), p.StartTime, p.Time, "", ""})
		}
		return "G", pts, true
	case metricdata.Histogram[N]:
		for _, p := range x.DataPoints {
			pts = append(pts, c08Pt{c08SetID(p.Attributes), fmt.Sprintf("%d/%s/%s", p.Count, c08Num(p.Sum), c08U(p.BucketCounts)), p.StartTime, p.Time, c08MM(p.Min, p.Max), ""})
		}
		return "H" + c08Temp(x.Temporality), pts, true
	case metricdata.ExponentialHistogram[N]:
		for _, p := range x.DataPoints {
			pts = append(pts, c08Pt{c08SetID(p.Attributes), fmt.Sprintf("%d/%s/%d.%d.%d", p.Count, c08Num(p.Sum),
				c08Tot(p.NegativeBucket.Counts), p.ZeroCount, c08Tot(p.PositiveBucket.Counts)), p.StartTime, p.Time, c08MM(p.Min, p.Max),
				fmt.Sprintf("%d@%d@%s@%d@%s", p.Scale, p.NegativeBucket.Offset, c08U(p.NegativeBucket.Counts), p.PositiveBucket.Offset, c08U(p.PositiveBucket.Counts))})
		}
		return "X" + c08Temp(x.Temporality), pts, true
	}
	return "", nil, false
}

type c08Win struct{ lo, hi time.Time }

func (w c08Win) has(t time.Time) bool { return !t.Before(w.lo) && !t.After(w.hi) }

type c08Prev struct {
	cycle       int
	start, time time.Time
}

type c08Reader struct {
	rm   metricdata.ResourceMetrics // reused across collections unless the history asks for fresh ones
	r    *ManualReader
	tag  string
	wins []c08Win
	prev map[int]c08Prev
}

func TestVerifC08Twin(t *testing.T) {
	out := vOpen(t)
	defer out.Close()
	otel.SetLogger(logr.Discard())
	otel.SetErrorHandler(otel.ErrorHandlerFunc(func(error) {}))
	ctx := context.Background()

	run := func(gen string, insts []c08Inst, slots [][]int, istr, sstr string, ops [][]string) {
		t0 := time.Now()
		dsel := func(InstrumentKind) metricdata.Temporality { return metricdata.DeltaTemporality }
		csel := func(InstrumentKind) metricdata.Temporality { return metricdata.CumulativeTemporality }
		rd := &c08Reader{r: NewManualReader(WithTemporalitySelector(dsel)), tag: "D", prev: map[int]c08Prev{}}
		rc := &c08Reader{r: NewManualReader(WithTemporalitySelector(csel)), tag: "C", prev: map[int]c08Prev{}}
		var views []View
		// hook reservoirs only in histories that cancel a collection (all other histories keep the default reservoirs
		// and, for default aggregations, no view at all)
		withHooks := false
		for _, op := range ops {
			withHooks = withHooks || op[0] == "cancelat"
		}
		hooks := make([]*c08Hook, len(insts))
		for j, ic := range insts {
			if ic.name != j {
				continue // uses another instrument's name: that name's view (and hook) applies
			}
			var agg Aggregation
			switch ic.sel {
			case 's':
				agg = AggregationSum{}
			case 'l':
				agg = AggregationLastValue{}
			case 'e':
				agg = AggregationExplicitBucketHistogram{Boundaries: []float64{0, 10, 100}, NoMinMax: ic.nomm}
			case 'x':
				agg = AggregationBase2ExponentialHistogram{MaxSize: 160, MaxScale: 20, NoMinMax: ic.nomm}
			case 'd':
				agg = AggregationDrop{}
			}
			st := Stream{Aggregation: agg}
			if withHooks {
				h := &c08Hook{}
				hooks[j] = h
				st.ExemplarReservoirProviderSelector = func(Aggregation) exemplar.ReservoirProvider {
					return func(attribute.Set) exemplar.Reservoir { return h }
				}
			}
			if agg != nil || withHooks {
				views = append(views, NewView(Instrument{Name: fmt.Sprintf("i%d", j)}, st))
			}
		}
		for j, ic := range insts {
			if ic.name != j && ic.name < len(hooks) {
				hooks[j] = hooks[ic.name]
			}
		}
		// `by <pos> <kinds>`: a third ("bystander") reader at position pos among the provider's readers whose
		// AggregationSelector answers AggregationDrop for the instrument kinds in <kinds>; it is collected in every cycle
		// and its data are discarded. What its selector drops must not change what the twin readers report.
		var rb *ManualReader
		ropts := []Option{WithReader(rd.r), WithReader(rc.r)}
		for _, op := range ops {
			if op[0] == "by" && len(op) == 3 && rb == nil {
				dropped := map[InstrumentKind]bool{}
				reject := strings.HasPrefix(op[2], "!") // "!<kinds>": an aggregation isAggregatorCompatible rejects instead of Drop
				for _, ch := range op[2] {
					switch ch {
					case 'c':
						dropped[InstrumentKindCounter] = true
					case 'u':
						dropped[InstrumentKindUpDownCounter] = true
					case 'h':
						dropped[InstrumentKindHistogram] = true
					case 'g':
						dropped[InstrumentKindGauge] = true
					case 'C':
						dropped[InstrumentKindObservableCounter] = true
					case 'U':
						dropped[InstrumentKindObservableUpDownCounter] = true
					case 'G':
						dropped[InstrumentKindObservableGauge] = true
					}
				}
				rb = NewManualReader(WithAggregationSelector(func(k InstrumentKind) Aggregation {
					if dropped[k] && reject {
						if k == InstrumentKindGauge || k == InstrumentKindObservableGauge {
							return AggregationSum{}
						}
						return AggregationLastValue{}
					}
					if dropped[k] {
						return AggregationDrop{}
					}
					return DefaultAggregationSelector(k)
				}))
				pos, _ := strconv.Atoi(op[1])
				if pos < 0 || pos > 2 {
					pos = 2
				}
				ropts = append(ropts[:pos], append([]Option{WithReader(rb)}, ropts[pos:]...)...)
			}
		}
		mp := NewMeterProvider(append(ropts, WithView(views...))...)
		defer mp.Shutdown(ctx)
		// all meters share the scope NAME; they differ only in version / schema URL / scope attributes
		meters := []metric.Meter{
			mp.Meter("c08"),
			mp.Meter("c08", metric.WithInstrumentationVersion("v1")),
			mp.Meter("c08", metric.WithSchemaURL("https://verif.example/schema/2")),
			mp.Meter("c08", metric.WithInstrumentationAttributes(attribute.String("meter", "3"))),
		}
		byScopeName := map[[2]int]int{}
		for j, ic := range insts {
			if _, ok := byScopeName[[2]int{ic.meter, ic.name}]; !ok {
				byScopeName[[2]int{ic.meter, ic.name}] = j
			}
		}
		var cur []c08Obs
		cancelAt := -1
		failNext := false
		cbErr := func(cy *c08Cycle) error {
			if cy.fail {
				return errors.New("c08: scripted callback error")
			}
			return nil
		}
		fresh := strings.HasSuffix(gen, "+fresh")
		recs := make([]func(a int, v int64), len(insts))
		iobs := make([]metric.Int64Observable, len(insts))
		fobs := make([]metric.Float64Observable, len(insts))
		for j, ic := range insts {
			j := j
			name := fmt.Sprintf("i%d", ic.name)
			m := meters[ic.meter%len(meters)]
			icb := func(cctx context.Context, o metric.Int64Observer) error {
				cy := c08Enter(cctx)
				for _, ob := range cy.obs {
					if ob.j == j {
						o.Observe(ob.v, metric.WithAttributeSet(c08Set(ob.a)))
					}
				}
				return cbErr(cy)
			}
			fcb := func(cctx context.Context, o metric.Float64Observer) error {
				cy := c08Enter(cctx)
				for _, ob := range cy.obs {
					if ob.j == j {
						o.Observe(float64(ob.v)/256, metric.WithAttributeSet(c08Set(ob.a)))
					}
				}
				return cbErr(cy)
			}
			var iopt []metric.Int64Callback
			var fopt []metric.Float64Callback
			if ic.cb {
				iopt, fopt = []metric.Int64Callback{icb}, []metric.Float64Callback{fcb}
			}
			switch {
			case ic.kind == 'c' && !ic.float:
				c, _ := m.Int64Counter(name)
				recs[j] = func(a int, v int64) { c.Add(ctx, v, metric.WithAttributeSet(c08Set(a))) }
			case ic.kind == 'c':
				c, _ := m.Float64Counter(name)
				recs[j] = func(a int, v int64) { c.Add(ctx, float64(v)/256, metric.WithAttributeSet(c08Set(a))) }
			case ic.kind == 'u' && !ic.float:
				c, _ := m.Int64UpDownCounter(name)
				recs[j] = func(a int, v int64) { c.Add(ctx, v, metric.WithAttributeSet(c08Set(a))) }
			case ic.kind == 'u':
				c, _ := m.Float64UpDownCounter(name)
				recs[j] = func(a int, v int64) { c.Add(ctx, float64(v)/256, metric.WithAttributeSet(c08Set(a))) }
			case ic.kind == 'h' && !ic.float:
				c, _ := m.Int64Histogram(name)
				recs[j] = func(a int, v int64) { c.Record(ctx, v, metric.WithAttributeSet(c08Set(a))) }
			case ic.kind == 'h':
				c, _ := m.Float64Histogram(name)
				recs[j] = func(a int, v int64) { c.Record(ctx, float64(v)/256, metric.WithAttributeSet(c08Set(a))) }
			case ic.kind == 'g' && !ic.float:
				c, _ := m.Int64Gauge(name)
				recs[j] = func(a int, v int64) { c.Record(ctx, v, metric.WithAttributeSet(c08Set(a))) }
			case ic.kind == 'g':
				c, _ := m.Float64Gauge(name)
				recs[j] = func(a int, v int64) { c.Record(ctx, float64(v)/256, metric.WithAttributeSet(c08Set(a))) }
			case ic.kind == 'C' && !ic.float:
				var o []metric.Int64ObservableCounterOption
				for _, f := range iopt {
					o = append(o, metric.WithInt64Callback(f))
				}
				iobs[j], _ = m.Int64ObservableCounter(name, o...)
			case ic.kind == 'C':
				var o []metric.Float64ObservableCounterOption
				for _, f := range fopt {
					o = append(o, metric.WithFloat64Callback(f))
				}
				fobs[j], _ = m.Float64ObservableCounter(name, o...)
			case ic.kind == 'U' && !ic.float:
				var o []metric.Int64ObservableUpDownCounterOption
				for _, f := range iopt {
					o = append(o, metric.WithInt64Callback(f))
				}
				iobs[j], _ = m.Int64ObservableUpDownCounter(name, o...)
			case ic.kind == 'U':
				var o []metric.Float64ObservableUpDownCounterOption
				for _, f := range fopt {
					o = append(o, metric.WithFloat64Callback(f))
				}
				fobs[j], _ = m.Float64ObservableUpDownCounter(name, o...)
			case ic.kind == 'G' && !ic.float:
				var o []metric.Int64ObservableGaugeOption
				for _, f := range iopt {
					o = append(o, metric.WithInt64Callback(f))
				}
				iobs[j], _ = m.Int64ObservableGauge(name, o...)
			case ic.kind == 'G':
				var o []metric.Float64ObservableGaugeOption
				for _, f := range fopt {
					o = append(o, metric.WithFloat64Callback(f))
				}
				fobs[j], _ = m.Float64ObservableGauge(name, o...)
			}
		}
		// a slot callback tries to observe EVERY observable instrument; only those it was registered for count
		slotCb := func(cctx context.Context, o metric.Observer) error {
			cy := c08Enter(cctx)
			for _, ob := range cy.obs {
				if ob.j >= len(insts) {
					continue
				}
				if iobs[ob.j] != nil {
					o.ObserveInt64(iobs[ob.j], ob.v, metric.WithAttributeSet(c08Set(ob.a)))
				} else if fobs[ob.j] != nil {
					o.ObserveFloat64(fobs[ob.j], float64(ob.v)/256, metric.WithAttributeSet(c08Set(ob.a)))
				}
			}
			return cbErr(cy)
		}
		regs := make([][][]metric.Registration, len(slots))
		t1 := time.Now()
		creation := c08Win{t0, t1}
		var records []string
		cycle := 0
		// doCollect performs one Collect of rd into rm with the per-collection state cy in the context.
		doCollect := func(rd *c08Reader, cy *c08Cycle, rm *metricdata.ResourceMetrics, cancelAt int) c08Result {
			cctx := context.WithValue(ctx, c08CycleKey{}, cy)
			var cancel func()
			if withHooks && cancelAt >= 0 && cancelAt < len(hooks) && hooks[cancelAt] != nil {
				// cancelled from inside the aggregation of instrument cancelAt (if this reader has a point for it)
				cctx, cancel = context.WithCancel(cctx)
				hooks[cancelAt].set(cancel)
			}
			lo := time.Now()
			err := rd.r.Collect(cctx, rm)
			hi := time.Now()
			if cancel != nil {
				hooks[cancelAt].set(nil)
				cancel()
			}
			return c08Result{rm, err, lo, hi}
		}
		nextRM := func(rd *c08Reader) *metricdata.ResourceMetrics {
			if fresh {
				rd.rm = metricdata.ResourceMetrics{}
			}
			return &rd.rm
		}
		// emit renders the result of the collection of rd that counts as cycle `cycle` (in cycle order per reader).
		emit := func(rd *c08Reader, cycle int, res c08Result) string {
			rm, err := res.rm, res.err
			rd.wins = append(rd.wins, c08Win{res.lo, res.hi})
			class := func(t time.Time) string {
				if creation.has(t) {
					return "c"
				}
				for k, w := range rd.wins {
					if w.has(t) {
						return "w" + strconv.Itoa(k)
					}
				}
				return "x"
			}
			type numbered struct {
				j int
				s string
			}
			var streams []numbered
			hdr := fmt.Sprintf("%d:%s", cycle, rd.tag)
			if err != nil {
				// the data returned alongside the error is kept
				hdr += ":e"
			}
			for _, sm := range rm.ScopeMetrics {
				meter := 0
				switch {
				case sm.Scope.Version != "":
					meter = 1
				case sm.Scope.SchemaURL != "":
					meter = 2
				case sm.Scope.Attributes.Len() > 0:
					meter = 3
				}
				for _, mt := range sm.Metrics {
					nm, _ := strconv.Atoi(strings.TrimPrefix(mt.Name, "i"))
					j, known := byScopeName[[2]int{meter, nm}]
					if !known {
						j = 900 + nm
					}
					ty, pts, ok := c08Points[int64](mt.Data)
					if !ok {
						ty, pts, ok = c08Points[float64](mt.Data)
					}
					if !ok || len(pts) == 0 {
						streams = append(streams, numbered{j, fmt.Sprintf("%d:?", j)})
						continue
					}
					sort.SliceStable(pts, func(a, b int) bool { return pts[a].a < pts[b].a })
					uni := "1"
					var ps, mms, xbs []string
					for _, p := range pts {
						if !p.start.Equal(pts[0].start) || !p.time.Equal(pts[0].time) {
							uni = "0"
						}
						ps = append(ps, fmt.Sprintf("%d=%s", p.a, p.s))
						mms = append(mms, p.mm)
						xbs = append(xbs, p.xb)
					}
					mmField := ""
					if ty[0] == 'H' || ty[0] == 'X' {
						mmField = ":" + strings.Join(mms, ",")
					}
					if ty[0] == 'X' {
						// full bucket vectors of every exponential-histogram point (6th field)
						mmField += ":" + strings.Join(xbs, ",")
					}
					st, tm := pts[0].start, pts[0].time
					p, f := "-", "-"
					if pv, ok := rd.prev[j]; ok {
						f = map[bool]string{true: "1", false: "0"}[st.Equal(pv.start)]
						if pv.cycle == cycle-1 {
							p = map[bool]string{true: "1", false: "0"}[st.Equal(pv.time)]
						}
					}
					le := map[bool]string{true: "1", false: "0"}[!st.After(tm)]
					rd.prev[j] = c08Prev{cycle, st, tm}
					streams = append(streams, numbered{j, fmt.Sprintf("%d:%s:%s.%s.%s.%s.%s.%s:%s%s", j, ty, class(st), class(tm), p, f, le, uni, strings.Join(ps, ","), mmField)})
				}
			}
			sort.SliceStable(streams, func(a, b int) bool { return streams[a].j < streams[b].j })
			parts := []string{hdr}
			for _, st := range streams {
				parts = append(parts, st.s)
			}
			return strings.Join(parts, ";")
		}
		// overlap performs two collections of ONE reader that overlap in time: A is parked in its first callback, B is
		// started meanwhile. On this tree B blocks on the pipeline lock until A is done, whatever the machine load; if B
		// finished while A was still parked the collections of one reader are not serialised (the records then show it).
		overlap := func(rd *c08Reader) (c08Result, c08Result) {
			g := &c08Gate{make(chan struct{}), make(chan struct{})}
			cyA := &c08Cycle{obs: cur, fail: failNext, gate: g}
			cyB := &c08Cycle{obs: cur}
			rmA, rmB := nextRM(rd), &metricdata.ResourceMetrics{}
			doneA, doneB := make(chan c08Result, 1), make(chan c08Result, 1)
			ca := cancelAt
			go func() { doneA <- doCollect(rd, cyA, rmA, ca) }()
			var resA, resB c08Result
			select {
			case <-g.parked:
				go func() { doneB <- doCollect(rd, cyB, rmB, -1) }()
				gotB := false
				select {
				case resB = <-doneB:
					gotB = true
				case <-time.After(2 * time.Millisecond):
				}
				close(g.release)
				resA = <-doneA
				if !gotB {
					resB = <-doneB
				}
				// the two wall-clock windows overlap; B's callbacks start after A released the lock and before B
				// aggregates: split the windows there
				cyB.mu.Lock()
				mid := cyB.first
				cyB.mu.Unlock()
				if !mid.IsZero() && !gotB {
					resA.hi, resB.lo = mid, mid
				}
			case resA = <-doneA:
				// no callback exists in this pipeline: nothing to park in, the two collections are sequential
				resB = doCollect(rd, cyB, rmB, -1)
			}
			return resA, resB
		}
		atoi := func(x string) int { n, _ := strconv.Atoi(x); return n }
		for _, op := range ops {
			switch op[0] {
			case "rec":
				v, _ := strconv.ParseInt(op[3], 10, 64)
				if j := atoi(op[1]); j < len(insts) && recs[j] != nil {
					recs[j](atoi(op[2]), v)
				}
			case "obs":
				v, _ := strconv.ParseInt(op[3], 10, 64)
				cur = append(cur, c08Obs{atoi(op[1]), atoi(op[2]), v})
			case "reg":
				if k := atoi(op[1]); k < len(slots) {
					var os []metric.Observable
					for _, j := range slots[k] {
						if j < len(insts) && iobs[j] != nil {
							os = append(os, iobs[j])
						} else if j < len(insts) && fobs[j] != nil {
							os = append(os, fobs[j])
						}
					}
					// one registration per meter (RegisterCallback only accepts the meter's own instruments)
					var group []metric.Registration
					for mi, mtr := range meters {
						var mine []metric.Observable
						for _, j := range slots[k] {
							if j < len(insts) && insts[j].meter%len(meters) == mi {
								if iobs[j] != nil {
									mine = append(mine, iobs[j])
								} else if fobs[j] != nil {
									mine = append(mine, fobs[j])
								}
							}
						}
						if len(mine) == 0 {
							continue
						}
						if reg, err := mtr.RegisterCallback(slotCb, mine...); err == nil && reg != nil {
							group = append(group, reg)
						}
					}
					_ = os
					regs[k] = append(regs[k], group)
				}
			case "unreg":
				if k := atoi(op[1]); k < len(slots) && len(regs[k]) > 0 {
					for _, reg := range regs[k][len(regs[k])-1] {
						_ = reg.Unregister()
					}
					regs[k] = regs[k][:len(regs[k])-1]
				}
			case "cberr":
				failNext = true
			case "cancelat":
				cancelAt = atoi(op[1])
			case "col":
				for _, rdr := range []*c08Reader{rd, rc} {
					res := doCollect(rdr, &c08Cycle{obs: cur, fail: failNext}, nextRM(rdr), cancelAt)
					records = append(records, emit(rdr, cycle, res))
				}
				if rb != nil {
					var brm metricdata.ResourceMetrics
					_ = rb.Collect(context.WithValue(ctx, c08CycleKey{}, &c08Cycle{obs: cur}), &brm)
				}
				cur = nil
				failNext = false
				cancelAt = -1
				cycle++
			case "ovl":
				dA, dB := overlap(rd)
				cA, cB := overlap(rc)
				records = append(records, emit(rd, cycle, dA), emit(rc, cycle, cA), emit(rd, cycle+1, dB), emit(rc, cycle+1, cB))
				cur = nil
				failNext = false
				cancelAt = -1
				cycle += 2
			}
		}
		var sb strings.Builder
		for _, op := range ops {
			sb.WriteString(" | " + strings.Join(op, " "))
		}
		out.Line("twin %s %s %s%s => %s", gen, istr, sstr, sb.String(), strings.Join(records, " "))
	}

	parse := func(istr, sstr string) ([]c08Inst, [][]int) {
		var insts []c08Inst
		for _, s := range strings.Split(istr, ",") {
			ic := c08Inst{float: s[0] == 'f', kind: s[1], sel: s[2], cb: s[3] == '1', nomm: len(s) > 4 && s[4] == 'n', name: len(insts)}
			if k := strings.Index(s, "#"); k > 0 {
				ic.name, _ = strconv.Atoi(s[k+1:])
				s = s[:k]
			}
			if k := strings.Index(s, "@"); k > 0 {
				ic.meter, _ = strconv.Atoi(s[k+1:])
			}
			insts = append(insts, ic)
		}
		var slots [][]int
		if sstr != "-" {
			for _, s := range strings.Split(sstr, ",") {
				var sl []int
				for _, ch := range s {
					if ch >= '0' && ch <= '9' {
						sl = append(sl, int(ch-'0'))
					}
				}
				slots = append(slots, sl)
			}
		}
		return insts, slots
	}

	if rp := vReplayLines(); rp != nil {
		for _, f := range rp {
			if f[0] != "twin" || len(f) < 4 {
				continue
			}
			var ops [][]string
			var cu []string
			for _, tk := range f[4:] {
				if tk == "|" {
					if cu != nil {
						ops = append(ops, cu)
					}
					cu = nil
					continue
				}
				cu = append(cu, tk)
			}
			if cu != nil {
				ops = append(ops, cu)
			}
			insts, slots := parse(f[2], f[3])
			run(f[1], insts, slots, f[2], f[3], ops)
		}
		return
	}

	r := &vRand{s: vSeed()}
	n := vN(1500)
	compat := map[byte]string{'c': "-sexd", 'u': "-sexd", 'h': "-sexd", 'g': "-lexd", 'C': "-sexd", 'U': "-sexd", 'G': "-lexd"}
	genCase := func(gen string, ni, nops int) {
		var is []string
		var async []int
		signmix := strings.HasPrefix(gen, "signmix")
		cberrGen := strings.HasPrefix(gen, "cberr")
		cancelGen := strings.HasPrefix(gen, "cancel") // collections cancelled in the middle of the aggregation loop
		metersGen := strings.HasPrefix(gen, "meters") // several meters whose scopes differ only in version / schema URL / attributes
		ovlGen := strings.HasPrefix(gen, "ovl")       // overlapping collections of the same reader
		for j := 0; j < ni; j++ {
			kind := "cuhgCUGCUG"[r.Intn(10)]
			sels := compat[kind]
			sel := sels[0]
			if r.Intn(2) == 0 {
				sel = sels[r.Intn(len(sels))]
			}
			if r.Intn(25) == 0 {
				sel = "-slexd"[r.Intn(6)] // possibly incompatible
			}
			if signmix {
				// mostly exponential (and some explicit) histograms, on every kind of instrument
				kind = "hhcugCG"[r.Intn(7)]
				sel = "xxxe"[r.Intn(4)]
			}
			if (cberrGen || ovlGen) && j == 0 {
				kind = "CUG"[r.Intn(3)] // at least one observable instrument
				sel = compat[kind][r.Intn(4)]
			}
			if metersGen && r.Intn(4) != 0 {
				kind = "CUG"[r.Intn(3)]
				sel = compat[kind][r.Intn(len(compat[kind]))]
			}
			cb := "0"
			if kind >= 'A' && kind <= 'Z' {
				async = append(async, j)
				if r.Intn(3) == 0 || (cberrGen && j == 0 && r.Bool()) || (ovlGen && j == 0) {
					cb = "1"
				}
			}
			nomm := ""
			if (sel == 'e' || sel == 'x') && r.Intn(3) == 0 {
				nomm = "n" // NoMinMax: Min/Max must be absent, also in recycled destination points
			}
			is = append(is, string([]byte{"if"[r.Intn(2)], kind, sel})+cb+nomm)
		}
		meterOf := map[int]int{}
		if metersGen {
			// the same instrument (name, kind, number type, aggregation) created again by other meters of the provider
			base := len(is)
			for j := 0; j < base && len(is) < 9; j++ {
				start := r.Intn(3)
				for c := 0; c < 2 && len(is) < 9; c++ {
					if r.Intn(2) == 0 {
						continue
					}
					tok := is[j]
					cb := tok[3:4]
					if tok[1] >= 'A' && tok[1] <= 'Z' {
						cb = "01"[r.Intn(2):][:1]
						async = append(async, len(is))
					}
					mt := 1 + (start+c)%3 // every copy in a different meter
					meterOf[len(is)] = mt
					is = append(is, tok[:3]+cb+tok[4:]+"@"+strconv.Itoa(mt)+"#"+strconv.Itoa(j))
				}
			}
			ni = len(is)
		}
		var ss []string
		ns := r.Intn(4)
		if metersGen {
			ns = 1 + r.Intn(4)
		}
		for k := 0; k < ns && len(async) > 0; k++ {
			// a RegisterCallback registration belongs to ONE meter: instruments of the meter of a random one
			mt := meterOf[async[r.Intn(len(async))]]
			s := ""
			var same []int
			for _, j := range async {
				if meterOf[j] == mt {
					same = append(same, j)
					if r.Intn(2) == 0 {
						s += strconv.Itoa(j)
					}
				}
			}
			if s == "" {
				s = strconv.Itoa(same[r.Intn(len(same))])
			}
			ss = append(ss, s)
		}
		sstr := "-"
		if len(ss) > 0 {
			sstr = strings.Join(ss, ",")
		}
		istr := strings.Join(is, ",")
		insts, slots := parse(istr, sstr)
		nattr := 1 + r.Intn(4)
		if signmix {
			nattr = 1 + r.Intn(2)
		}
		// sign mode of the current cycle: 0 mixed, 1 negative only, 2 zero only, 3 positive only
		mode := 0
		newMode := func() {
			if signmix {
				mode = r.Intn(4)
			} else if r.Intn(4) == 0 {
				mode = r.Intn(4)
			}
		}
		newMode()
		val := func(float bool) string {
			var v int64
			switch r.Intn(5) {
			case 0:
				v = int64(r.Intn(12)) - 1
			case 1:
				v = int64(r.Intn(1300)) - 20
			default:
				v = int64(r.Intn(120)) - 5
			}
			switch mode {
			case 1:
				v = -1 - int64(r.Intn(300))
			case 2:
				v = 0
			case 3:
				v = 1 + int64(r.Intn(1300))
			}
			if float {
				v = v*64 + int64(r.Intn(3))*32
			}
			return strconv.FormatInt(v, 10)
		}
		var ops [][]string
		// start with some registrations so that observations usually reach something
		for k := range slots {
			if r.Intn(3) != 0 {
				ops = append(ops, []string{"reg", strconv.Itoa(k)})
			}
		}
		for k := 0; k < nops; k++ {
			x := r.Intn(100)
			j := r.Intn(ni)
			a := strconv.Itoa(1 + r.Intn(nattr))
			if y := r.Intn(100); y < 3 || (cberrGen && y < 12) {
				ops = append(ops, []string{"cberr"})
				continue
			} else if ovlGen && y >= 93 {
				ops = append(ops, []string{"ovl"})
				newMode()
				continue
			} else if cancelGen && y >= 90 {
				ops = append(ops, []string{"cancelat", strconv.Itoa(r.Intn(ni))}, []string{"col"})
				newMode()
				continue
			}
			switch {
			case x < 30:
				ops = append(ops, []string{"rec", strconv.Itoa(j), a, val(insts[j].float)})
			case x < 65:
				if len(async) > 0 && r.Intn(8) != 0 {
					j = async[r.Intn(len(async))]
				}
				ops = append(ops, []string{"obs", strconv.Itoa(j), a, val(insts[j].float)})
			case x < 85:
				ops = append(ops, []string{"col"})
				newMode()
			case x < 93 && len(slots) > 0:
				ops = append(ops, []string{"reg", strconv.Itoa(r.Intn(len(slots)))})
			case len(slots) > 0:
				ops = append(ops, []string{"unreg", strconv.Itoa(r.Intn(len(slots)))})
			default:
				ops = append(ops, []string{"col"})
			}
		}
		ops = append(ops, []string{"col"})
		if r.Intn(6) == 0 {
			// a bystander reader dropping 1-3 instrument kinds (mostly observable ones), before / between / after the twins
			kinds := ""
			for c := 1 + r.Intn(3); c > 0; c-- {
				kinds += string("CUGCUGcuhg"[r.Intn(10)])
			}
			if r.Bool() {
				// the bystander REJECTS these kinds (incompatible aggregation: the instrument constructors join the error
				// and go on with the remaining readers) instead of dropping them
				kinds = "!" + kinds
			}
			ops = append([][]string{{"by", strconv.Itoa(r.Intn(3)), kinds}}, ops...)
		}
		run(gen, insts, slots, istr, sstr, ops)
	}
	for i := 0; i < n; i++ {
		gen := "rnd"
		switch r.Intn(10) {
		case 0, 1:
			gen = "signmix" // sign mix of the histogram inputs changes from cycle to cycle
		case 2:
			gen = "cberr" // failing callbacks
		case 3, 4:
			gen = "cancel" // contexts cancelled while an instrument is aggregated
		case 5:
			gen = "meters" // several meters, same scope name, same instruments
		case 6:
			gen = "ovl" // overlapping collections of the same reader
		}
		if r.Intn(5) == 0 {
			gen += "+fresh"
		}
		if strings.HasPrefix(gen, "signmix") {
			genCase(gen, 1+r.Intn(3), 15+r.Intn(50))
		} else if strings.HasPrefix(gen, "cancel") {
			genCase(gen, 2+r.Intn(5), 10+r.Intn(71))
		} else {
			genCase(gen, 1+r.Intn(6), 10+r.Intn(71))
		}
	}
	if os_exhaustive() {
		for i := 0; i < n/4; i++ {
			genCase("long", 2+r.Intn(5), 150+r.Intn(150))
		}
	}
}
