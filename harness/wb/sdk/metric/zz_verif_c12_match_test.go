package metric

// C12 correspondence harness, leg "match": the name criterion of NewView for arbitrary criterion strings and
// instrument names (the View function is public API and accepts any Instrument).
//   vmatch <gen> <criterion runes|-> <name runes|-> <mask name runes|-> => <0|1> <stream name runes|->
// runes: decimal code points joined by _ ; "-" = empty string.
// Generators: exh = ALL criteria and names up to a length over a small alphabet that contains both wildcards, runes
// that are special for regexps (. \ + [ $ ^ | ( ), a newline and a non-ASCII rune; rnd = random longer strings, names
// derived from the criterion by instantiating its wildcards (so that matches are frequent) and then perturbed.

import (
	"testing"

	"github.com/go-logr/logr"
	"go.opentelemetry.io/otel"
)

func TestVerifC12Match(t *testing.T) {
	out := vOpen(t)
	defer out.Close()
	otel.SetLogger(logr.Discard())
	otel.SetErrorHandler(otel.ErrorHandlerFunc(func(error) {}))

	run := func(gen, crit, name, mask string) {
		v := NewView(Instrument{Name: crit}, Stream{Name: mask})
		st, ok := v(Instrument{Name: name, Kind: InstrumentKindCounter})
		if ok {
			out.Line("vmatch %s %s %s %s => 1 %s", gen, c12RuneText(crit), c12RuneText(name), c12RuneText(mask), c12RuneText(st.Name))
		} else {
			out.Line("vmatch %s %s %s %s => 0 -", gen, c12RuneText(crit), c12RuneText(name), c12RuneText(mask))
		}
	}
	if rp := vReplayLines(); rp != nil {
		for _, f := range rp {
			if f[0] != "vmatch" || len(f) < 5 {
				continue
			}
			run(f[1], c12Runes(f[2]), c12Runes(f[3]), c12Runes(f[4]))
		}
		return
	}
	r := &vRand{s: vSeed()}
	n := vN(2000)

	// exhaustive small scope
	critAlpha := []rune{'a', '*', '?', '.', '\\'}
	nameAlpha := []rune{'a', 'b', '.', '\\', '\n'}
	maxLen := 3
	if os_exhaustive() {
		maxLen = 4
	}
	var enum func(alpha []rune, k int, cur []rune, f func(string))
	enum = func(alpha []rune, k int, cur []rune, f func(string)) {
		f(string(cur))
		if k == 0 {
			return
		}
		for _, c := range alpha {
			enum(alpha, k-1, append(cur, c), f)
		}
	}
	var crits, names []string
	enum(critAlpha, maxLen, nil, func(s string) { crits = append(crits, s) })
	enum(nameAlpha, maxLen, nil, func(s string) { names = append(names, s) })
	for _, c := range crits {
		for _, nm := range names {
			run("exh", c, nm, "")
		}
	}

	// random
	pool := []rune{'i', '0', '1', 'a', 'Z', '*', '*', '?', '?', '.', '\\', '+', '[', ']', '(', ')', '|', '^', '$', '{', '}',
		'-', '_', '/', ' ', '\n', '\t', 'é', '世', 0x1F600}
	lit := []rune{'i', '0', '1', 'a', 'Z', '.', '\\', '+', '[', '$', '^', '|', '(', '\n', 'é', '世', 'x', '*', '?'}
	for i := 0; i < n; i++ {
		var crit []rune
		for k, l := 0, r.Intn(7); k < l; k++ {
			crit = append(crit, pool[r.Intn(len(pool))])
		}
		var name []rune
		switch r.Intn(4) {
		case 0: // unrelated
			for k, l := 0, r.Intn(6); k < l; k++ {
				name = append(name, lit[r.Intn(len(lit))])
			}
		default: // an instance of the criterion …
			for _, c := range crit {
				switch c {
				case '?':
					name = append(name, lit[r.Intn(len(lit))])
				case '*':
					for k, l := 0, r.Intn(4); k < l; k++ {
						name = append(name, lit[r.Intn(len(lit))])
					}
				default:
					name = append(name, c)
				}
			}
			if len(name) > 0 { // … sometimes perturbed
				switch r.Intn(6) {
				case 0:
					name = name[:len(name)-1]
				case 1:
					name = append(name, lit[r.Intn(len(lit))])
				case 2:
					name[r.Intn(len(name))] = lit[r.Intn(len(lit))]
				case 3:
					name = append([]rune{lit[r.Intn(len(lit))]}, name...)
				}
			}
		}
		mask := ""
		if r.Intn(5) == 0 {
			mask = []string{"r0", "R1", "*"}[r.Intn(3)]
		}
		run("rnd", string(crit), string(name), mask)
	}
}
