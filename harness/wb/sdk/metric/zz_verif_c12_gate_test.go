package metric

// C12 forced-interleaving leg: ties the model's assumption "the limiter decision and the insertion of the new
// attribute set are ONE atomic step" (valueMap.measure, lastValue.measure, histValues.measure, expoHistogram.measure)
// to the code.  Every view of a scenario carries an ExemplarReservoirProviderSelector whose provider — user code the
// SDK calls on the FIRST measurement of a new attribute set, at exactly the point between the limiter decision and
// the insertion — can park on a gate.
//   hist gate <limit> <tps> <inst> <views> | m j set x | p j set x | r j set x | c r … => <r>@<metric>;…
// (same line format as the views leg; the driver reads p and r as measurements, in this order)
//   p = measure from goroutine A with the gate armed: if the measurement creates a new set, A parks inside the
//       provider; r (must follow p) = while A is parked, goroutine B makes its measurement; the harness waits a short
//       bounded time for B, then releases A and waits for both.
// On a tree where the provider runs under the stream lock, B blocks until A has inserted its set, so the outcome is
// the sequential one (p, then r) — the model's.  If the limiter decision is taken outside the insertion's critical
// section, B slips in between and both new sets may keep their identity: more than L sets, judged by the unchanged
// oracle on the final collections.  Nothing about blocking/timing is printed: no false alarm either way.
// Uses c12ParseSet, c12Metric, c12ParseViews, c12View (zz_verif_c12_views_test.go).

import (
	"context"
	"fmt"
	"os"
	"sort"
	"strconv"
	"strings"
	"sync"
	"testing"
	"time"

	"github.com/go-logr/logr"
	"go.opentelemetry.io/otel"
	"go.opentelemetry.io/otel/attribute"
	"go.opentelemetry.io/otel/metric"
	"go.opentelemetry.io/otel/sdk/metric/exemplar"
	"go.opentelemetry.io/otel/sdk/metric/metricdata"
)

type c12Gate struct {
	mu      sync.Mutex
	armed   bool
	parked  chan struct{}
	release chan struct{}
}

func (g *c12Gate) arm() (parked, release chan struct{}) {
	g.mu.Lock()
	defer g.mu.Unlock()
	g.armed = true
	g.parked = make(chan struct{})
	g.release = make(chan struct{})
	return g.parked, g.release
}

func (g *c12Gate) disarm() {
	g.mu.Lock()
	g.armed = false
	g.mu.Unlock()
}

func (g *c12Gate) provider(_ Aggregation) exemplar.ReservoirProvider {
	inner := exemplar.FixedSizeReservoirProvider(1)
	return func(a attribute.Set) exemplar.Reservoir {
		g.mu.Lock()
		if g.armed {
			g.armed = false // one shot: only the first provider call of the armed measurement parks
			p, r := g.parked, g.release
			g.mu.Unlock()
			close(p)
			<-r
		} else {
			g.mu.Unlock()
		}
		return inner(a)
	}
}

func TestVerifC12Gate(t *testing.T) {
	out := vOpen(t)
	defer out.Close()
	otel.SetLogger(logr.Discard())
	otel.SetErrorHandler(otel.ErrorHandlerFunc(func(error) {}))
	const envKey = "OTEL_GO_X_CARDINALITY_LIMIT"
	t.Setenv(envKey, "")
	ctx := context.Background()
	wait := 12 * time.Millisecond

	run := func(gen, lim, tps, istr, vstr string, ops [][]string) {
		if lim == "-" {
			os.Unsetenv(envKey)
		} else {
			os.Setenv(envKey, lim)
		}
		gate := &c12Gate{}
		var readers []*ManualReader
		var opts []Option
		for _, ch := range tps {
			tp := metricdata.CumulativeTemporality
			if ch == 'd' {
				tp = metricdata.DeltaTemporality
			}
			tpc := tp
			r := NewManualReader(WithTemporalitySelector(func(InstrumentKind) metricdata.Temporality { return tpc }))
			readers = append(readers, r)
			opts = append(opts, WithReader(r))
		}
		var views []View
		for _, v := range c12ParseViews(vstr) {
			inner := v.build()
			views = append(views, func(i Instrument) (Stream, bool) {
				s, ok := inner(i)
				if ok {
					s.ExemplarReservoirProviderSelector = gate.provider
				}
				return s, ok
			})
		}
		opts = append(opts, WithView(views...))
		mp := NewMeterProvider(opts...)
		defer mp.Shutdown(ctx)
		m := mp.Meter("c12")
		insts := strings.Split(istr, ",")
		recs := make([]func(a attribute.Set, v int64), len(insts))
		for j, ic := range insts {
			name := fmt.Sprintf("i%d", j)
			float, kind := ic[0] == 'f', ic[1]
			switch {
			case kind == 'c' && !float:
				c, _ := m.Int64Counter(name)
				recs[j] = func(a attribute.Set, v int64) { c.Add(ctx, v, metric.WithAttributeSet(a)) }
			case kind == 'c':
				c, _ := m.Float64Counter(name)
				recs[j] = func(a attribute.Set, v int64) { c.Add(ctx, float64(v)/256, metric.WithAttributeSet(a)) }
			case kind == 'u' && !float:
				c, _ := m.Int64UpDownCounter(name)
				recs[j] = func(a attribute.Set, v int64) { c.Add(ctx, v, metric.WithAttributeSet(a)) }
			case kind == 'u':
				c, _ := m.Float64UpDownCounter(name)
				recs[j] = func(a attribute.Set, v int64) { c.Add(ctx, float64(v)/256, metric.WithAttributeSet(a)) }
			case kind == 'h' && !float:
				c, _ := m.Int64Histogram(name)
				recs[j] = func(a attribute.Set, v int64) { c.Record(ctx, v, metric.WithAttributeSet(a)) }
			case kind == 'h':
				c, _ := m.Float64Histogram(name)
				recs[j] = func(a attribute.Set, v int64) { c.Record(ctx, float64(v)/256, metric.WithAttributeSet(a)) }
			case kind == 'g' && !float:
				c, _ := m.Int64Gauge(name)
				recs[j] = func(a attribute.Set, v int64) { c.Record(ctx, v, metric.WithAttributeSet(a)) }
			case kind == 'g':
				c, _ := m.Float64Gauge(name)
				recs[j] = func(a attribute.Set, v int64) { c.Record(ctx, float64(v)/256, metric.WithAttributeSet(a)) }
			}
		}
		atoi := func(x string) int { n, _ := strconv.Atoi(x); return n }
		measure := func(op []string) func() {
			v, _ := strconv.ParseInt(op[3], 10, 64)
			j := atoi(op[1])
			set := c12ParseSet(op[2])
			return func() {
				if j < len(insts) && recs[j] != nil {
					recs[j](set, v)
				}
			}
		}
		var records []string
		hang := false
		for k := 0; k < len(ops) && !hang; k++ {
			op := ops[k]
			switch op[0] {
			case "m", "r": // an r without a preceding p is a plain measurement
				measure(op)()
			case "p":
				parked, release := gate.arm()
				aDone := make(chan struct{})
				fa := measure(op)
				go func() { fa(); close(aDone) }()
				isParked := false
				select {
				case <-parked:
					isParked = true
				case <-aDone:
				}
				gate.disarm()
				var bDone chan struct{}
				if k+1 < len(ops) && ops[k+1][0] == "r" {
					k++
					fb := measure(ops[k])
					if isParked {
						bDone = make(chan struct{})
						go func() { fb(); close(bDone) }()
						select {
						case <-bDone:
						case <-time.After(wait):
						}
					} else {
						fb()
					}
				}
				if isParked {
					close(release)
					for _, ch := range []chan struct{}{aDone, bDone} {
						if ch == nil {
							continue
						}
						select {
						case <-ch:
						case <-time.After(300 * time.Second):
							hang = true
						}
					}
				}
			case "c":
				r := atoi(op[1])
				if r >= len(readers) {
					continue
				}
				var rm metricdata.ResourceMetrics
				err := readers[r].Collect(ctx, &rm)
				var ms []string
				if err != nil {
					ms = append(ms, "err")
				}
				for _, sm := range rm.ScopeMetrics {
					for _, mt := range sm.Metrics {
						ty, pts, ok := c12Metric[int64](mt.Data, "i")
						if !ok {
							ty, pts, ok = c12Metric[float64](mt.Data, "f")
						}
						if !ok {
							ms = append(ms, mt.Name+"~?~")
							continue
						}
						sort.Strings(pts)
						ms = append(ms, mt.Name+"~"+ty+"~"+strings.Join(pts, "+"))
					}
				}
				records = append(records, fmt.Sprintf("%d@%s", r, strings.Join(ms, ";")))
			}
		}
		if hang {
			records = append(records, "hang")
		}
		var sb strings.Builder
		for _, op := range ops {
			sb.WriteString(" | " + strings.Join(op, " "))
		}
		out.Line("hist %s %s %s %s %s%s => %s", gen, lim, tps, istr, vstr, sb.String(), strings.Join(records, " "))
	}

	splitOps := func(toks []string) [][]string {
		var ops [][]string
		var cu []string
		for _, tk := range toks {
			if tk == "|" {
				if cu != nil {
					ops = append(ops, cu)
				}
				cu = nil
				continue
			}
			cu = append(cu, tk)
		}
		if cu != nil {
			ops = append(ops, cu)
		}
		return ops
	}

	if rp := vReplayLines(); rp != nil {
		for _, f := range rp {
			if f[0] != "hist" || len(f) < 6 {
				continue
			}
			run(f[1], f[2], f[3], f[4], f[5], splitOps(f[6:]))
		}
		return
	}

	r := &vRand{s: vSeed()}
	n := vN(300)
	for i := 0; i < n; i++ {
		L := []int{1, 2, 2, 3, 3, 5}[r.Intn(6)]
		lim := strconv.Itoa(L)
		if r.Intn(25) == 0 {
			lim, L = "-", 0
		}
		tps := string([]byte{"dc"[r.Intn(2)], "dc"[r.Intn(2)]})
		kind := "cuhg"[r.Intn(4)]
		inst := string([]byte{"if"[r.Intn(2)], kind})
		// aggregation: every aggregate function kind a synchronous instrument can get
		aggs := "-ebs"
		if kind == 'g' {
			aggs = "-ebl-"
		}
		agg := string(aggs[r.Intn(len(aggs))])
		filter := "-"
		if r.Intn(4) == 0 {
			filter = []string{"a12", "a1", "d3", "d9"}[r.Intn(4)]
		}
		vs := []string{"n0/-/-/" + filter + "/" + agg}
		if r.Intn(4) == 0 { // fan-out: a second, renamed stream with its own aggregate function
			vs = append(vs, "n0/-/r0/-/"+string(aggs[r.Intn(len(aggs))]))
		}
		// distinct sets over key a (and b), so that filters a1/a12 keep them distinct
		set := func(k int) string { return fmt.Sprintf("1:%d", 2+k) }
		val := func() string {
			v := int64(1 + r.Intn(50))
			if inst[0] == 'f' {
				v *= 64
			}
			return strconv.FormatInt(v, 10)
		}
		var ops [][]string
		next := 0
		rounds := 1 + r.Intn(2)
		for rd := 0; rd < rounds; rd++ {
			// sequential prefix: leave exactly one own-identity slot (len = L-2) most of the time
			pre := L - 2
			switch r.Intn(5) {
			case 0:
				pre = L - 1
			case 1:
				pre = r.Intn(L + 1)
			}
			if pre < 0 {
				pre = 0
			}
			first := next
			for k := 0; k < pre; k++ {
				ops = append(ops, []string{"m", "0", set(next), val()})
				next++
			}
			x, y := set(next), set(next+1)
			next += 2
			switch r.Intn(8) {
			case 0: // the parked measurement is for a known set: no provider call, nothing parks
				if pre > 0 {
					x = set(first)
				}
			case 1: // the racing measurement is for a known set
				if pre > 0 {
					y = set(first)
				}
			case 2: // both for the same new set
				y = x
			case 3: // the user-supplied overflow set races
				y = "9:1"
			}
			ops = append(ops, []string{"p", "0", x, val()}, []string{"r", "0", y, val()})
			post := 1 + r.Intn(3)
			for k := 0; k < post; k++ {
				ops = append(ops, []string{"m", "0", set(next), val()})
				next++
			}
			if r.Intn(3) == 0 { // re-measure the two raced sets: they must land where they landed before
				ops = append(ops, []string{"m", "0", x, val()}, []string{"m", "0", y, val()})
			}
			ops = append(ops, []string{"c", "0"}, []string{"c", "1"})
		}
		run("gate", lim, tps, inst, strings.Join(vs, ","), ops)
	}
}
