package metric

// C12 correspondence harness: cardinality limit (OTEL_GO_X_CARDINALITY_LIMIT), attribute filters, renaming /
// re-aggregating / dropping / wildcard views, two ManualReaders with their own temporality, all instrument kinds.
// Public API only.
//   hist <gen> <limit> <tps> <insts> <views> | m j set x | o j set x | k | c r … => <r>@<metric>;<metric> …
// limit: "-" (unset), x<hex> (these bytes, possibly none) or the text of the environment variable;
// tps: one of d|c per reader, optionally followed by + (every reader collects into its OWN ResourceMetrics value that
//   is reused for all its collections) or * (ALL readers collect into ONE reused ResourceMetrics value), and by R
//   (observable instruments are created WITHOUT callback options — also when creation returns an error — and their
//   callbacks are registered with Meter.RegisterCallback);
// insts: comma list <i|f|I|F><kind>[:<scope><name><desc><unit>], kind c,u,h,g (sync) C,U,G (observable); I / F = int64 /
//   float64 instrument that is created LATER, by the operation "n j"; without the suffix
//   instrument j is named "i<j>" and created by meter 0 ("c12"); with it (four digits) it is named "i<name>", has
//   description "d<desc>" / unit "u<unit>" (0 = none) and is created by meter <scope>: 0 = c12, 1 = lib1/v1/s1,
//   2 = lib1/v2/s1, 3 = lib2/v1/s2 (name/version/schema URL), 4 / 5 = lib1/v1/s1 with scope attributes {k=1} / {k=2};
// views: "-" or comma list pat/kind/rename/filter/agg[/crit]: pat - | n<j> | s ("*") | q ("i?") | g<runes> (any
//   criterion string, decimal code points joined by _); kind - | kind char;
//   crit - | letters D U N V S each followed by one digit: description, unit, scope name (1 c12, 2 lib1, 3 lib2),
//   scope version (1 v1, 2 v2), scope schema URL (1 s1, 2 s2);
//   rename - | r<k> | R<k>; filter - | a<key digits> (allow list) | d<key digits> (deny list);
//   agg - | D default | x drop | s sum | l last value | e explicit [0,10,100] | b base-2 exponential |
//   E explicit with non-monotonic boundaries [10,0] | B base-2 exponential with MaxSize 0 (both fail Aggregation.err():
//   NewView logs and applies the view WITHOUT an aggregation).  s / l may be incompatible with a matched synchronous
//   instrument's kind (last value on a counter, sum on a gauge): instrument creation then returns (instrument, error)
//   and the instrument is used anyway.
// set: "e" (empty) or k:v.k:v sorted by key id; key ids 1..4 = "a".."d", 9 = "otel.metric.overflow";
//   value code 0/1 = Bool false/true, n+2 = Int64 n.
// ops: m = synchronous measurement, o = observation replayed by the instrument's callback at every collection
//   until k clears the observations, c r = Collect on reader r, n j = create the late instrument j now.
// Argument slices are never trusted to the SDK: every second measurement passes its attributes as a slice with spare
// capacity (WithAttributes) that is overwritten right after the call; filter key lists and histogram boundaries of
// views are overwritten after NewAllowKeysFilter / NewDenyKeysFilter / NewView returned.
// metric: <name>[#<scope>]~<type>~<set>=<val>+… ; scopes sorted by id, metrics of a scope in reported order, points
//   sorted by the canonical set text.
// float64 instruments are driven with x/256 and print value*256.

import (
	"context"
	"fmt"
	"math"
	"os"
	"regexp"
	"sort"
	"strconv"
	"strings"
	"testing"

	"github.com/go-logr/logr"
	"go.opentelemetry.io/otel"
	"go.opentelemetry.io/otel/attribute"
	"go.opentelemetry.io/otel/metric"
	"go.opentelemetry.io/otel/sdk/metric/metricdata"
)

var c12Keys = map[int]string{1: "a", 2: "b", 3: "c", 4: "d", 9: "otel.metric.overflow"}

func c12ParseSet(s string) attribute.Set {
	if s == "e" {
		return *attribute.EmptySet()
	}
	var kvs []attribute.KeyValue
	for _, p := range strings.Split(s, ".") {
		kv := strings.Split(p, ":")
		k, _ := strconv.Atoi(kv[0])
		v, _ := strconv.Atoi(kv[1])
		name, ok := c12Keys[k]
		if !ok {
			name = fmt.Sprintf("zz%d", k)
		}
		switch v {
		case 0:
			kvs = append(kvs, attribute.Bool(name, false))
		case 1:
			kvs = append(kvs, attribute.Bool(name, true))
		default:
			kvs = append(kvs, attribute.Int64(name, int64(v-2)))
		}
	}
	return attribute.NewSet(kvs...)
}

func c12SetText(s attribute.Set) string {
	if s.Len() == 0 {
		return "e"
	}
	var ps []string
	it := s.Iter()
	for it.Next() {
		kv := it.Attribute()
		k := 77
		for id, name := range c12Keys {
			if name == string(kv.Key) {
				k = id
			}
		}
		v := 999
		switch kv.Value.Type() {
		case attribute.BOOL:
			if kv.Value.AsBool() {
				v = 1
			} else {
				v = 0
			}
		case attribute.INT64:
			if n := kv.Value.AsInt64(); n >= 0 && n < 900 {
				v = int(n) + 2
			}
		}
		ps = append(ps, fmt.Sprintf("%d:%d", k, v))
	}
	return strings.Join(ps, ".")
}

func c12Num[N int64 | float64](v N) string {
	switch x := any(v).(type) {
	case int64:
		return strconv.FormatInt(x, 10)
	case float64:
		k := x * 256
		if k != math.Trunc(k) || math.Abs(k) > 1<<62 {
			return "inexact"
		}
		return strconv.FormatInt(int64(k), 10)
	}
	return "?"
}

func c12U(xs []uint64) string {
	var p []string
	for _, x := range xs {
		p = append(p, strconv.FormatUint(x, 10))
	}
	return strings.Join(p, ".")
}

func c12Tot(xs []uint64) uint64 {
	var t uint64
	for _, x := range xs {
		t += x
	}
	return t
}

func c12Temp(t metricdata.Temporality) string {
	if t == metricdata.DeltaTemporality {
		return "d"
	}
	return "c"
}

func c12Metric[N int64 | float64](d metricdata.Aggregation, n string) (string, []string, bool) {
	var pts []string
	switch x := d.(type) {
	case metricdata.Sum[N]:
		for _, p := range x.DataPoints {
			pts = append(pts, c12SetText(p.Attributes)+"="+c12Num(p.Value))
		}
		return "S" + c12Temp(x.Temporality) + map[bool]string{true: "m", false: "n"}[x.IsMonotonic] + n, pts, true
	case metricdata.Gauge[N]:
		for _, p := range x.DataPoints {
			pts = append(pts, c12SetText(p.Attributes)+"="+c12Num(p.Value))
		}
		return "G" + n, pts, true
	case metricdata.Histogram[N]:
		for _, p := range x.DataPoints {
			pts = append(pts, fmt.Sprintf("%s=%d/%s/%s", c12SetText(p.Attributes), p.Count, c12Num(p.Sum), c12U(p.BucketCounts)))
		}
		return "H" + c12Temp(x.Temporality) + n, pts, true
	case metricdata.ExponentialHistogram[N]:
		for _, p := range x.DataPoints {
			pts = append(pts, fmt.Sprintf("%s=%d/%s/%d.%d.%d", c12SetText(p.Attributes), p.Count, c12Num(p.Sum),
				c12Tot(p.NegativeBucket.Counts), p.ZeroCount, c12Tot(p.PositiveBucket.Counts)))
		}
		return "X" + c12Temp(x.Temporality) + n, pts, true
	}
	return "", nil, false
}

type c12View struct{ pat, kind, rename, filter, agg, crit string }

var c12ScopeAttrs = [][3]int{{1, 0, 0}, {2, 1, 1}, {2, 2, 1}, {3, 1, 2}, {2, 1, 1}, {2, 1, 1}}
var c12ScopeKV = []int{0, 0, 0, 0, 1, 2} // instrumentation-scope attribute k (0 = no attributes)

// c12Runes: "105_42" -> "i*"
func c12Runes(s string) string {
	if s == "-" || s == "" {
		return ""
	}
	var rs []rune
	for _, p := range strings.Split(s, "_") {
		n, _ := strconv.Atoi(p)
		rs = append(rs, rune(n))
	}
	return string(rs)
}

func c12RuneText(s string) string {
	if s == "" {
		return "-"
	}
	var ps []string
	for _, r := range s {
		ps = append(ps, strconv.Itoa(int(r)))
	}
	return strings.Join(ps, "_")
}

// c12Scribble overwrites a slice and its spare capacity
func c12Scribble[T any](xs []T, v T) {
	xs = xs[:cap(xs)]
	for i := range xs {
		xs[i] = v
	}
}

// c12SpareKVs copies the set into a slice with spare capacity
func c12SpareKVs(set attribute.Set) []attribute.KeyValue {
	kvs := make([]attribute.KeyValue, 0, set.Len()+3)
	return append(kvs, set.ToSlice()...)
}
var c12ScopeNames = []string{"", "c12", "lib1", "lib2"}
var c12Versions = []string{"", "v1", "v2"}
var c12Schemas = []string{"", "s1", "s2"}

func c12Tag(prefix string, id int) string {
	if id == 0 {
		return ""
	}
	return prefix + strconv.Itoa(id)
}

func c12Opts[T any](du []metric.InstrumentOption) []T {
	out := make([]T, 0, len(du))
	for _, o := range du {
		out = append(out, any(o).(T))
	}
	return out
}

type c12InstSpec struct {
	float                   bool
	kind                    byte
	scope, name, desc, unit int
}

func c12ParseInst(tok string, j int) c12InstSpec {
	is := c12InstSpec{float: tok[0] == 'f' || tok[0] == 'F', kind: tok[1], name: j}
	if len(tok) >= 7 && tok[2] == ':' {
		is.scope, is.name, is.desc, is.unit = int(tok[3]-'0'), int(tok[4]-'0'), int(tok[5]-'0'), int(tok[6]-'0')
	}
	return is
}

func c12Crit(crit string) map[byte]int {
	m := map[byte]int{}
	if crit == "-" || crit == "" {
		return m
	}
	for i := 0; i+1 < len(crit); i += 2 {
		m[crit[i]] = int(crit[i+1] - '0')
	}
	return m
}

func c12KindOf(c byte) InstrumentKind {
	switch c {
	case 'c':
		return InstrumentKindCounter
	case 'u':
		return InstrumentKindUpDownCounter
	case 'h':
		return InstrumentKindHistogram
	case 'g':
		return InstrumentKindGauge
	case 'C':
		return InstrumentKindObservableCounter
	case 'U':
		return InstrumentKindObservableUpDownCounter
	case 'G':
		return InstrumentKindObservableGauge
	}
	return 0
}

func c12ParseViews(s string) []c12View {
	var vs []c12View
	if s == "-" {
		return vs
	}
	for _, p := range strings.Split(s, ",") {
		f := strings.Split(p, "/")
		if len(f) == 5 {
			f = append(f, "-")
		}
		if len(f) != 6 {
			continue
		}
		vs = append(vs, c12View{f[0], f[1], f[2], f[3], f[4], f[5]})
	}
	return vs
}

// does the view's criteria match instrument j of kind k (generator side only: used to keep aggregations compatible)
func (v c12View) matches(is c12InstSpec) bool {
	j, k := is.name, is.kind
	cr := c12Crit(v.crit)
	if v.pat == "-" && v.kind == "-" && len(cr) == 0 {
		return false
	}
	sa := c12ScopeAttrs[is.scope]
	for c, want := range cr {
		have := map[byte]int{'D': is.desc, 'U': is.unit, 'N': sa[0], 'V': sa[1], 'S': sa[2]}[c]
		if want != 0 && want != have {
			return false
		}
	}
	if (v.pat == "s" || v.pat == "q") && v.rename != "-" {
		return false
	}
	if v.pat[0] == 'n' && v.pat != "n"+strconv.Itoa(j) {
		return false
	}
	if v.pat[0] == 'g' { // generator side only (keeps aggregations compatible)
		g := c12Runes(v.pat[1:])
		if strings.ContainsAny(g, "*?") {
			if v.rename != "-" {
				return false
			}
			q := strings.ReplaceAll(strings.ReplaceAll(regexp.QuoteMeta(g), `\?`, "."), `\*`, ".*")
			if ok, _ := regexp.MatchString("^"+q+"$", "i"+strconv.Itoa(j)); !ok {
				return false
			}
		} else if g != "i"+strconv.Itoa(j) {
			return false
		}
	}
	if v.kind != "-" && v.kind[0] != k {
		return false
	}
	return true
}

func (v c12View) build() View {
	var crit Instrument
	switch {
	case v.pat == "s":
		crit.Name = "*"
	case v.pat == "q":
		crit.Name = "i?"
	case v.pat[0] == 'n':
		crit.Name = "i" + v.pat[1:]
	case v.pat[0] == 'g':
		crit.Name = c12Runes(v.pat[1:])
	}
	if v.kind != "-" {
		crit.Kind = c12KindOf(v.kind[0])
	}
	cr := c12Crit(v.crit)
	crit.Description = c12Tag("d", cr['D'])
	crit.Unit = c12Tag("u", cr['U'])
	crit.Scope.Name = c12ScopeNames[cr['N']]
	crit.Scope.Version = c12Versions[cr['V']]
	crit.Scope.SchemaURL = c12Schemas[cr['S']]
	var mask Stream
	if v.rename != "-" {
		mask.Name = v.rename
	}
	if v.filter != "-" {
		keys := make([]attribute.Key, 0, len(v.filter)+2)
		for _, ch := range v.filter[1:] {
			keys = append(keys, attribute.Key(c12Keys[int(ch-'0')]))
		}
		if v.filter[0] == 'a' {
			mask.AttributeFilter = attribute.NewAllowKeysFilter(keys...)
		} else {
			mask.AttributeFilter = attribute.NewDenyKeysFilter(keys...)
		}
		c12Scribble(keys, attribute.Key("a")) // the caller reuses its slice
	}
	var bounds []float64
	switch v.agg {
	case "D":
		mask.Aggregation = AggregationDefault{}
	case "x":
		mask.Aggregation = AggregationDrop{}
	case "s":
		mask.Aggregation = AggregationSum{}
	case "l":
		mask.Aggregation = AggregationLastValue{}
	case "e":
		bounds = append(make([]float64, 0, 8), 0, 10, 100)
		mask.Aggregation = AggregationExplicitBucketHistogram{Boundaries: bounds}
	case "b":
		mask.Aggregation = AggregationBase2ExponentialHistogram{MaxSize: 160, MaxScale: 20}
	case "E":
		mask.Aggregation = AggregationExplicitBucketHistogram{Boundaries: []float64{10, 0}}
	case "B":
		mask.Aggregation = AggregationBase2ExponentialHistogram{MaxSize: 0, MaxScale: 20}
	}
	view := NewView(crit, mask)
	c12Scribble(bounds, 7) // the caller reuses its slice
	return view
}

type c12Obs struct {
	j   int
	set attribute.Set
	v   int64
}

func TestVerifC12Views(t *testing.T) {
	out := vOpen(t)
	defer out.Close()
	otel.SetLogger(logr.Discard())
	otel.SetErrorHandler(otel.ErrorHandlerFunc(func(error) {}))
	const envKey = "OTEL_GO_X_CARDINALITY_LIMIT"
	t.Setenv(envKey, "") // registers the restore; the value is set per history below
	ctx := context.Background()

	run := func(gen, lim, tps, istr, vstr string, ops [][]string) {
		if lim == "-" {
			os.Unsetenv(envKey)
		} else if lim[0] == 'x' {
			os.Setenv(envKey, vUnhex(lim))
		} else {
			os.Setenv(envKey, lim)
		}
		tpsTok := tps
		reuse := byte(0)
		regMode := false // observable callbacks through Meter.RegisterCallback instead of creation options
		for n := len(tps); n > 0 && strings.IndexByte("+*R", tps[n-1]) >= 0; n = len(tps) {
			if tps[n-1] == 'R' {
				regMode = true
			} else {
				reuse = tps[n-1]
			}
			tps = tps[:n-1]
		}
		var readers []*ManualReader
		var opts []Option
		for _, ch := range tps {
			tp := metricdata.CumulativeTemporality
			if ch == 'd' {
				tp = metricdata.DeltaTemporality
			}
			tpc := tp
			r := NewManualReader(WithTemporalitySelector(func(InstrumentKind) metricdata.Temporality { return tpc }))
			readers = append(readers, r)
			opts = append(opts, WithReader(r))
		}
		var views []View
		for _, v := range c12ParseViews(vstr) {
			views = append(views, v.build())
		}
		opts = append(opts, WithView(views...))
		mp := NewMeterProvider(opts...)
		defer mp.Shutdown(ctx)
		meters := map[int]metric.Meter{}
		scopeID := map[string]int{}
		for sc, sa := range c12ScopeAttrs {
			mo := []metric.MeterOption{metric.WithInstrumentationVersion(c12Versions[sa[1]]), metric.WithSchemaURL(c12Schemas[sa[2]])}
			kvTxt := ""
			if kv := c12ScopeKV[sc]; kv != 0 {
				mo = append(mo, metric.WithInstrumentationAttributes(attribute.Int("k", kv)))
				kvTxt = strconv.Itoa(kv)
			}
			meters[sc] = mp.Meter(c12ScopeNames[sa[0]], mo...)
			scopeID[c12ScopeNames[sa[0]]+"|"+c12Versions[sa[1]]+"|"+c12Schemas[sa[2]]+"|"+kvTxt] = sc
		}
		rms := make([]metricdata.ResourceMetrics, len(readers)+1)
		var cur []c12Obs
		insts := strings.Split(istr, ",")
		recs := make([]func(a metric.MeasurementOption, v int64), len(insts))
		async := make([]bool, len(insts))
		nObs := 0
		obsOpt := func(set attribute.Set) (metric.MeasurementOption, func()) {
			nObs++
			if nObs%2 == 0 {
				return metric.WithAttributeSet(set), func() {}
			}
			kvs := c12SpareKVs(set)
			return metric.WithAttributes(kvs...), func() { c12Scribble(kvs, attribute.String("scribbled", "x")) }
		}
		create := func(j int) {
			ic := insts[j]
			spec := c12ParseInst(ic, j)
			name := fmt.Sprintf("i%d", spec.name)
			float, kind := spec.float, spec.kind
			m := meters[spec.scope]
			du := []metric.InstrumentOption{}
			if spec.desc != 0 {
				du = append(du, metric.WithDescription(c12Tag("d", spec.desc)))
			}
			if spec.unit != 0 {
				du = append(du, metric.WithUnit(c12Tag("u", spec.unit)))
			}
			icb := metric.WithInt64Callback(func(_ context.Context, o metric.Int64Observer) error {
				for _, ob := range cur {
					if ob.j == j {
						opt, after := obsOpt(ob.set)
						o.Observe(ob.v, opt)
						after()
					}
				}
				return nil
			})
			fcb := metric.WithFloat64Callback(func(_ context.Context, o metric.Float64Observer) error {
				for _, ob := range cur {
					if ob.j == j {
						opt, after := obsOpt(ob.set)
						o.Observe(float64(ob.v)/256, opt)
						after()
					}
				}
				return nil
			})
			regI := func(inst metric.Int64Observable, _ error) {
				async[j] = true
				_, _ = m.RegisterCallback(func(_ context.Context, o metric.Observer) error {
					for _, ob := range cur {
						if ob.j == j {
							opt, after := obsOpt(ob.set)
							o.ObserveInt64(inst, ob.v, opt.(metric.ObserveOption))
							after()
						}
					}
					return nil
				}, inst)
			}
			regF := func(inst metric.Float64Observable, _ error) {
				async[j] = true
				_, _ = m.RegisterCallback(func(_ context.Context, o metric.Observer) error {
					for _, ob := range cur {
						if ob.j == j {
							opt, after := obsOpt(ob.set)
							o.ObserveFloat64(inst, float64(ob.v)/256, opt.(metric.ObserveOption))
							after()
						}
					}
					return nil
				}, inst)
			}
			switch {
			case regMode && kind == 'C' && !float:
				regI(m.Int64ObservableCounter(name, c12Opts[metric.Int64ObservableCounterOption](du)...))
			case regMode && kind == 'C':
				regF(m.Float64ObservableCounter(name, c12Opts[metric.Float64ObservableCounterOption](du)...))
			case regMode && kind == 'U' && !float:
				regI(m.Int64ObservableUpDownCounter(name, c12Opts[metric.Int64ObservableUpDownCounterOption](du)...))
			case regMode && kind == 'U':
				regF(m.Float64ObservableUpDownCounter(name, c12Opts[metric.Float64ObservableUpDownCounterOption](du)...))
			case regMode && kind == 'G' && !float:
				regI(m.Int64ObservableGauge(name, c12Opts[metric.Int64ObservableGaugeOption](du)...))
			case regMode && kind == 'G':
				regF(m.Float64ObservableGauge(name, c12Opts[metric.Float64ObservableGaugeOption](du)...))
			case kind == 'c' && !float:
				c, _ := m.Int64Counter(name, c12Opts[metric.Int64CounterOption](du)...)
				recs[j] = func(a metric.MeasurementOption, v int64) { c.Add(ctx, v, a) }
			case kind == 'c':
				c, _ := m.Float64Counter(name, c12Opts[metric.Float64CounterOption](du)...)
				recs[j] = func(a metric.MeasurementOption, v int64) { c.Add(ctx, float64(v)/256, a) }
			case kind == 'u' && !float:
				c, _ := m.Int64UpDownCounter(name, c12Opts[metric.Int64UpDownCounterOption](du)...)
				recs[j] = func(a metric.MeasurementOption, v int64) { c.Add(ctx, v, a) }
			case kind == 'u':
				c, _ := m.Float64UpDownCounter(name, c12Opts[metric.Float64UpDownCounterOption](du)...)
				recs[j] = func(a metric.MeasurementOption, v int64) { c.Add(ctx, float64(v)/256, a) }
			case kind == 'h' && !float:
				c, _ := m.Int64Histogram(name, c12Opts[metric.Int64HistogramOption](du)...)
				recs[j] = func(a metric.MeasurementOption, v int64) { c.Record(ctx, v, a) }
			case kind == 'h':
				c, _ := m.Float64Histogram(name, c12Opts[metric.Float64HistogramOption](du)...)
				recs[j] = func(a metric.MeasurementOption, v int64) { c.Record(ctx, float64(v)/256, a) }
			case kind == 'g' && !float:
				c, _ := m.Int64Gauge(name, c12Opts[metric.Int64GaugeOption](du)...)
				recs[j] = func(a metric.MeasurementOption, v int64) { c.Record(ctx, v, a) }
			case kind == 'g':
				c, _ := m.Float64Gauge(name, c12Opts[metric.Float64GaugeOption](du)...)
				recs[j] = func(a metric.MeasurementOption, v int64) { c.Record(ctx, float64(v)/256, a) }
			case kind == 'C' && !float:
				async[j] = true
				_, _ = m.Int64ObservableCounter(name, append(c12Opts[metric.Int64ObservableCounterOption](du), icb)...)
			case kind == 'C':
				async[j] = true
				_, _ = m.Float64ObservableCounter(name, append(c12Opts[metric.Float64ObservableCounterOption](du), fcb)...)
			case kind == 'U' && !float:
				async[j] = true
				_, _ = m.Int64ObservableUpDownCounter(name, append(c12Opts[metric.Int64ObservableUpDownCounterOption](du), icb)...)
			case kind == 'U':
				async[j] = true
				_, _ = m.Float64ObservableUpDownCounter(name, append(c12Opts[metric.Float64ObservableUpDownCounterOption](du), fcb)...)
			case kind == 'G' && !float:
				async[j] = true
				_, _ = m.Int64ObservableGauge(name, append(c12Opts[metric.Int64ObservableGaugeOption](du), icb)...)
			case kind == 'G':
				async[j] = true
				_, _ = m.Float64ObservableGauge(name, append(c12Opts[metric.Float64ObservableGaugeOption](du), fcb)...)
			}
		}
		created := make([]bool, len(insts))
		for j, ic := range insts {
			if ic[0] == 'I' || ic[0] == 'F' {
				continue
			}
			create(j)
			created[j] = true
		}
		var records []string
		atoi := func(x string) int { n, _ := strconv.Atoi(x); return n }
		for _, op := range ops {
			switch op[0] {
			case "m", "p", "r": // p / r (forced-interleaving leg) are plain measurements when run sequentially
				v, _ := strconv.ParseInt(op[3], 10, 64)
				if j := atoi(op[1]); j < len(insts) && recs[j] != nil {
					opt, after := obsOpt(c12ParseSet(op[2]))
					recs[j](opt, v)
					after()
				}
			case "n":
				if j := atoi(op[1]); j < len(insts) && !created[j] {
					create(j)
					created[j] = true
				}
			case "o":
				v, _ := strconv.ParseInt(op[3], 10, 64)
				if j := atoi(op[1]); j < len(insts) && async[j] {
					cur = append(cur, c12Obs{j, c12ParseSet(op[2]), v})
				}
			case "k":
				cur = nil
			case "c":
				r := atoi(op[1])
				if r >= len(readers) {
					continue
				}
				var fresh metricdata.ResourceMetrics
				rmp := &fresh
				switch reuse {
				case '+':
					rmp = &rms[r]
				case '*':
					rmp = &rms[len(readers)]
				}
				err := readers[r].Collect(ctx, rmp)
				rm := *rmp
				var ms []string
				if err != nil {
					ms = append(ms, "err")
				}
				sid := func(sm metricdata.ScopeMetrics) int {
					kvTxt := ""
					if v, ok := sm.Scope.Attributes.Value("k"); ok {
						kvTxt = strconv.FormatInt(v.AsInt64(), 10)
					}
					if id, ok := scopeID[sm.Scope.Name+"|"+sm.Scope.Version+"|"+sm.Scope.SchemaURL+"|"+kvTxt]; ok {
						return id
					}
					return 9
				}
				sms := append([]metricdata.ScopeMetrics(nil), rm.ScopeMetrics...)
				sort.SliceStable(sms, func(a, b int) bool { return sid(sms[a]) < sid(sms[b]) })
				for _, sm := range sms {
					suffix := ""
					if id := sid(sm); id != 0 {
						suffix = "#" + strconv.Itoa(id)
					}
					for _, mt := range sm.Metrics {
						ty, pts, ok := c12Metric[int64](mt.Data, "i")
						if !ok {
							ty, pts, ok = c12Metric[float64](mt.Data, "f")
						}
						if !ok {
							ms = append(ms, mt.Name+suffix+"~?~")
							continue
						}
						sort.Strings(pts)
						ms = append(ms, mt.Name+suffix+"~"+ty+"~"+strings.Join(pts, "+"))
					}
				}
				records = append(records, fmt.Sprintf("%d@%s", r, strings.Join(ms, ";")))
			}
		}
		var sb strings.Builder
		for _, op := range ops {
			sb.WriteString(" | " + strings.Join(op, " "))
		}
		out.Line("hist %s %s %s %s %s%s => %s", gen, lim, tpsTok, istr, vstr, sb.String(), strings.Join(records, " "))
	}

	splitOps := func(toks []string) [][]string {
		var ops [][]string
		var cu []string
		for _, tk := range toks {
			if tk == "|" {
				if cu != nil {
					ops = append(ops, cu)
				}
				cu = nil
				continue
			}
			cu = append(cu, tk)
		}
		if cu != nil {
			ops = append(ops, cu)
		}
		return ops
	}

	if rp := vReplayLines(); rp != nil {
		for _, f := range rp {
			if f[0] != "hist" || len(f) < 6 {
				continue
			}
			run(f[1], f[2], f[3], f[4], f[5], splitOps(f[6:]))
		}
		return
	}

	r := &vRand{s: vSeed()}
	n := vN(2000)
	limits := []string{"-", "0", "1", "2", "3", "5", "2", "3", "5", "1"}
	setText := func(keys []int, vals []int) string {
		if len(keys) == 0 {
			return "e"
		}
		var ps []string
		for i := range keys {
			ps = append(ps, fmt.Sprintf("%d:%d", keys[i], vals[i]))
		}
		return strings.Join(ps, ".")
	}
	genSet := func() string {
		switch r.Intn(40) {
		case 0:
			return "e"
		case 1, 2:
			return "9:1" // the overflow set itself, supplied by the user
		case 3:
			return "9:0"
		case 4:
			return "9:3"
		case 5:
			return fmt.Sprintf("1:%d.9:1", 2+r.Intn(3))
		}
		var keys, vals []int
		for k := 1; k <= 4; k++ {
			if r.Intn(2) == 0 {
				keys = append(keys, k)
				if r.Intn(12) == 0 {
					vals = append(vals, r.Intn(2))
				} else {
					vals = append(vals, 2+r.Intn(4))
				}
			}
		}
		return setText(keys, vals)
	}
	genCase := func(gen string) {
		lim := limits[r.Intn(len(limits))]
		if r.Intn(40) == 0 {
			lim = []string{"-1", "abc", "4", "40"}[r.Intn(4)]
		}
		if r.Intn(25) == 0 { // the flag parser: signs, leading zeros, blanks, underscores, prefixes, range, other digits
			lim = []string{"+2", "+3", "02", "003", vHex(" 2"), vHex("2 "), "1_0", "0x2", "2.0", "2e0", "+", "--2", "+-2",
				"9223372036854775807", "9223372036854775808", "-9223372036854775808", "00000000000000000002",
				vHex(""), vHex("\t3"), vHex("\xef\xbc\x92"), "0", "-0", "+0", "+1", "01"}[r.Intn(25)]
		}
		L := 0
		if lim[0] == 'x' {
			L, _ = strconv.Atoi(vUnhex(lim))
		} else if lim != "-" {
			L, _ = strconv.Atoi(lim)
		}
		if L > 1000 || L < 0 {
			L = 0
		}
		tps := string([]byte{"dc"[r.Intn(2)], "dc"[r.Intn(2)]})
		switch r.Intn(4) { // recycled destination
		case 0:
			tps += "+"
		case 1:
			tps += "*"
		}
		if r.Intn(3) == 0 {
			tps += "R"
		}
		ni := 1 + r.Intn(4)
		var is []string
		for j := 0; j < ni; j++ {
			is = append(is, string([]byte{"if"[r.Intn(2)], "cuhgCUGcuh"[r.Intn(10)]}))
		}
		var vs []string
		lateFrom := -1
		if gen == "ident" {
			// a base instrument and 2-4 siblings that differ from it in exactly ONE identity component each (meter:
			// scope name / version / attributes only; instrument: kind, number type, unit, description; rarely none =
			// an identical duplicate, served from the meter's instrument cache); the tail of the list is created late
			type id struct {
				float                         bool
				kind                          byte
				scope, name, desc, unit, late int
			}
			base := id{float: r.Intn(2) == 0, kind: "cuhgCUG"[r.Intn(7)], scope: []int{1, 1, 4, 2, 0}[r.Intn(5)], name: r.Intn(2),
				desc: r.Intn(3), unit: r.Intn(3)}
			ids := []id{base}
			ni = 3 + r.Intn(3)
			for len(ids) < ni {
				x := base
				switch r.Intn(9) {
				case 0: // scope attributes only
					x.scope = map[int]int{1: 4, 4: 5, 5: 1, 2: 1, 0: 1, 3: 1}[base.scope]
				case 1: // scope version only (lib1/v1 <-> lib1/v2), or another attributed twin
					x.scope = map[int]int{1: 2, 2: 1, 4: 2, 5: 4, 0: 3, 3: 0}[base.scope]
				case 2:
					x.scope = []int{0, 1, 2, 3, 4, 5}[r.Intn(6)]
				case 3:
					x.kind = "cuhgCUG"[r.Intn(7)]
				case 4:
					x.float = !x.float
				case 5:
					x.unit = (x.unit + 1 + r.Intn(2)) % 3
				case 6:
					x.desc = (x.desc + 1 + r.Intn(2)) % 3
				case 7:
					x.name = 1 - x.name
				case 8: // identical duplicate
				}
				ids = append(ids, x)
			}
			is = nil
			for _, x := range ids {
				n := "i"
				if x.float {
					n = "f"
				}
				is = append(is, fmt.Sprintf("%s%c:%d%d%d%d", n, x.kind, x.scope, x.name, x.desc, x.unit))
			}
			if r.Intn(3) != 0 {
				lateFrom = 1 + r.Intn(ni)
				for j := lateFrom; j < ni; j++ {
					is[j] = strings.ToUpper(is[j][:1]) + is[j][1:]
				}
			}
		}
		if gen == "scopes" { // 2-3 meters with overlapping instrument names; descriptions and units vary
			if ni < 2 {
				ni = 2 + r.Intn(3)
				is = nil
				for j := 0; j < ni; j++ {
					is = append(is, string([]byte{"if"[r.Intn(2)], "cuhgCUGcuh"[r.Intn(10)]}))
				}
			}
			scopes := [][]int{{1, 3}, {1, 2}, {0, 1, 3}, {1, 2, 3}, {2, 3}}[r.Intn(5)]
			used := map[[2]int]bool{}
			for j := 0; j < ni; j++ {
				sc, nm := scopes[r.Intn(len(scopes))], r.Intn(2)
				for tries := 0; used[[2]int{sc, nm}] && tries < 20; tries++ {
					sc, nm = scopes[r.Intn(len(scopes))], r.Intn(3)
				}
				if used[[2]int{sc, nm}] { // names stay unique within a meter
					nm = 3 + j
				}
				used[[2]int{sc, nm}] = true
				d, u := 0, 0
				if r.Intn(3) == 0 {
					d = 1 + r.Intn(2)
				}
				if r.Intn(3) == 0 {
					u = 1 + r.Intn(2)
				}
				is[j] = fmt.Sprintf("%s:%d%d%d%d", is[j][:2], sc, nm, d, u)
			}
		}
		if gen == "shared" { // two instruments of one type renamed to the same (case-normalised) stream
			if ni < 2 {
				ni = 2
				is = append(is, is[0])
			}
			is[1] = is[0]
			f := []string{"-", "a1", "a12", "d2"}[r.Intn(4)]
			vs = append(vs, "n0/-/r0/"+f+"/-", "n1/-/"+[]string{"r0", "R0"}[r.Intn(2)]+"/-/-")
		}
		if gen == "mixed" {
			// one instrument (synchronous or observable) matched by a view that cannot be honoured for its kind AND by valid
			// views (renaming / filtering / re-aggregating), in either order, exact and wildcard criteria
			is[0] = string([]byte{"if"[r.Intn(2)], "cuhgCUGCUG"[r.Intn(10)]})
			bad := "l"
			if is[0][1] == 'g' || is[0][1] == 'G' {
				bad = "s"
			}
			pat := func() string { return []string{"n0", "s", "q", "g105_42", "-/" + is[0][1:2]}[r.Intn(5)] }
			mk := func(agg string, rename bool) string {
				p := pat()
				kind := "-"
				if strings.HasPrefix(p, "-/") {
					p, kind = "-", p[2:]
				}
				rn := "-"
				if rename && (p == "n0" || p == "-") {
					rn = []string{"r0", "r1", "R0"}[r.Intn(3)]
				}
				f := []string{"-", "-", "a1", "a12", "d2"}[r.Intn(5)]
				return strings.Join([]string{p, kind, rn, f, agg}, "/")
			}
			good := []string{mk("-", true), mk([]string{"e", "b", "D", "E"}[r.Intn(4)], true)}[:1+r.Intn(2)]
			all := append([]string{mk(bad, r.Intn(2) == 0)}, good...)
			if r.Intn(2) == 0 {
				all[0], all[len(all)-1] = all[len(all)-1], all[0]
			}
			vs = append(vs, all...)
		}
		// views
		nv := 0
		if r.Intn(4) != 0 {
			nv = 1 + r.Intn(4)
		}
		for k := 0; k < nv; k++ {
			v := c12View{"-", "-", "-", "-", "-", "-"}
			if (gen == "scopes" || gen == "ident") && r.Intn(4) != 0 { // criteria taken from an existing instrument, sometimes off by one
				sp := c12ParseInst(is[r.Intn(ni)], 0)
				sa := c12ScopeAttrs[sp.scope]
				cr := ""
				if r.Intn(2) == 0 {
					cr += "N" + strconv.Itoa(sa[0])
				}
				if r.Intn(4) == 0 && sa[1] != 0 {
					cr += "V" + strconv.Itoa(sa[1])
				}
				if r.Intn(5) == 0 && sa[2] != 0 {
					cr += "S" + strconv.Itoa(sa[2])
				}
				if r.Intn(5) == 0 {
					cr += "D" + strconv.Itoa(1+r.Intn(2))
				}
				if r.Intn(5) == 0 {
					cr += "U" + strconv.Itoa(1+r.Intn(2))
				}
				if r.Intn(12) == 0 {
					cr = []string{"N2", "N3", "V2", "S2", "N1"}[r.Intn(5)]
				}
				if cr != "" {
					v.crit = cr
				}
			}
			switch x := r.Intn(10); {
			case x < 5:
				v.pat = "n" + strconv.Itoa(c12ParseInst(is[r.Intn(ni)], r.Intn(ni)).name)
			case x < 7:
				v.pat = "s"
			case x < 8:
				v.pat = "q"
			case x < 9: // any criterion string: wildcards in every position, runes that are special for regexps
				nm := strconv.Itoa(c12ParseInst(is[r.Intn(ni)], r.Intn(ni)).name)
				g := []string{"i*", "*" + nm, "?" + nm, "??", "?*", "*?", "i" + nm + "*", "*i*", "i**", "i.", "i[0-9]", "I?", "i+",
					".*", "i" + nm + "?", "*" + nm + "*", "i\\?", "i|*", "(i?)", "^i?", "i?$", "***", "?", "i" + nm, "i?*?"}[r.Intn(25)]
				v.pat = "g" + c12RuneText(g)
			}
			if r.Intn(4) == 0 {
				v.kind = string(is[r.Intn(ni)][1])
				if r.Intn(8) == 0 {
					v.kind = string("cuhgCUG"[r.Intn(7)])
				}
			}
			if r.Intn(20) != 0 && (v.pat == "s" || v.pat == "q" || (v.pat[0] == 'g' && strings.ContainsAny(c12Runes(v.pat[1:]), "*?"))) {
				// wildcard + rename is rejected by NewView: generate it only rarely
			} else if r.Intn(5) < 2 {
				v.rename = []string{"r0", "r1", "R0", "R1"}[r.Intn(4)]
			}
			if r.Intn(20) < 11 {
				f := []byte{"aaad"[r.Intn(4)]}
				for _, k := range []byte("12349") {
					if r.Intn(5) < 2 {
						f = append(f, k)
					}
				}
				v.filter = string(f)
			}
			if r.Intn(2) == 0 {
				v.agg = string("DxxslebbeDEBsl"[r.Intn(14)])
				// an aggregation that is incompatible with a matched instrument's kind is kept (one time in two): the
				// instrument (synchronous or observable) is created with an error and used anyway
				keep := gen == "mixed" || r.Intn(2) == 0
				for j := 0; j < ni; j++ {
					if !v.matches(c12ParseInst(is[j], j)) {
						continue
					}
					gauge := is[j][1] == 'g' || is[j][1] == 'G'
					if ((v.agg == "s" && gauge) || (v.agg == "l" && !gauge)) && !keep {
						v.agg = "e"
					}
				}
			}
			if v.crit == "-" {
				vs = append(vs, strings.Join([]string{v.pat, v.kind, v.rename, v.filter, v.agg}, "/"))
			} else {
				vs = append(vs, strings.Join([]string{v.pat, v.kind, v.rename, v.filter, v.agg, v.crit}, "/"))
			}
		}
		vstr := "-"
		if len(vs) > 0 {
			vstr = strings.Join(vs, ",")
		}
		// pool of distinct attribute sets
		want := 1 + r.Intn(8)
		switch r.Intn(6) {
		case 0:
			want = 1 + r.Intn(40)
		case 1:
			if L > 0 {
				want = L + r.Intn(3)
			}
		}
		seen := map[string]bool{}
		var pool []string
		for tries := 0; len(pool) < want && tries < 400; tries++ {
			s := genSet()
			if !seen[s] {
				seen[s] = true
				pool = append(pool, s)
			}
		}
		if gen == "ovf-first" {
			pool = append([]string{"9:1"}, pool...)
			if seen["9:1"] {
				for i := 1; i < len(pool); i++ {
					if pool[i] == "9:1" {
						pool = append(pool[:i], pool[i+1:]...)
						break
					}
				}
			}
		}
		val := func(float bool) string {
			var v int64
			switch r.Intn(5) {
			case 0:
				v = int64(r.Intn(12)) - 1
			case 1:
				v = int64(r.Intn(1300)) - 20
			default:
				v = int64(r.Intn(120)) - 5
			}
			if float {
				v = v*64 + int64(r.Intn(3))*32
			}
			return strconv.FormatInt(v, 10)
		}
		var ops [][]string
		if lateFrom < 0 || lateFrom > ni {
			lateFrom = ni
		}
		nextLate := lateFrom
		createSome := func(all bool) {
			for nextLate < ni && (all || r.Intn(2) == 0) {
				ops = append(ops, []string{"n", strconv.Itoa(nextLate)})
				nextLate++
			}
		}
		emit := func(j int, set string) {
			if j >= nextLate { // not created yet: use a created one instead
				j = r.Intn(nextLate)
			}
			kind := "m"
			if is[j][1] >= 'A' && is[j][1] <= 'Z' {
				kind = "o"
			}
			ops = append(ops, []string{kind, strconv.Itoa(j), set, val(is[j][0] == 'f' || is[j][0] == 'F')})
		}
		phases := 1 + r.Intn(4)
		if lateFrom < ni && phases < 2 {
			phases = 2
		}
		for ph := 0; ph < phases; ph++ {
			if ph > 0 {
				createSome(ph == phases-1)
			}
			// how many sets of the pool this phase touches: around the L-1 boundary, or anything
			cnt := 1 + r.Intn(len(pool))
			if L > 0 && r.Intn(2) == 0 {
				cnt = L - 2 + r.Intn(5)
			}
			if cnt < 1 {
				cnt = 1
			}
			if cnt > len(pool) {
				cnt = len(pool)
			}
			order := make([]int, len(pool))
			for i := range order {
				order[i] = i
			}
			switch r.Intn(4) {
			case 0: // reverse: sets that overflowed before come first now (re-admission after a delta reset)
				for i, j := 0, len(order)-1; i < j; i, j = i+1, j-1 {
					order[i], order[j] = order[j], order[i]
				}
			case 1: // shuffle
				for i := len(order) - 1; i > 0; i-- {
					k := r.Intn(i + 1)
					order[i], order[k] = order[k], order[i]
				}
			}
			order = order[:cnt]
			j := r.Intn(ni)
			for _, si := range order {
				if r.Intn(4) == 0 {
					j = r.Intn(ni)
				}
				emit(j, pool[si])
				if r.Intn(3) == 0 { // repeat an earlier set of this phase: must keep its identity
					emit(j, pool[order[r.Intn(cnt)]])
				}
				if r.Intn(25) == 0 {
					ops = append(ops, []string{"c", strconv.Itoa(r.Intn(2))})
				}
			}
			switch r.Intn(5) {
			case 0:
				ops = append(ops, []string{"c", "0"})
			case 1:
				ops = append(ops, []string{"c", "1"})
			case 2:
				ops = append(ops, []string{"c", "1"}, []string{"c", "0"})
			default:
				ops = append(ops, []string{"c", "0"}, []string{"c", "1"})
			}
			if r.Intn(3) != 0 {
				ops = append(ops, []string{"k"})
			}
		}
		createSome(true)
		ops = append(ops, []string{"c", "0"}, []string{"c", "1"})
		run(gen, lim, tps, strings.Join(is, ","), vstr, ops)
	}
	for i := 0; i < n; i++ {
		if i%8 == 7 {
			genCase("ovf-first")
		} else if i%16 == 3 {
			genCase("shared")
		} else if i%16 == 2 {
			genCase("mixed")
		} else if i%8 == 1 {
			genCase("ident")
		} else if i%8 == 5 {
			genCase("scopes")
		} else {
			genCase("rnd")
		}
	}
	if os_exhaustive() {
		// all arrival orders of <= 4 distinct sets (with repetition, length <= 5) for L <= 4, counter, both temporalities
		pool := []string{"1:2", "1:3", "9:1", "e"}
		for L := 1; L <= 4; L++ {
			for length := 1; length <= 5; length++ {
				total := 1
				for i := 0; i < length; i++ {
					total *= len(pool)
				}
				for code := 0; code < total; code++ {
					var ops [][]string
					c := code
					for i := 0; i < length; i++ {
						ops = append(ops, []string{"m", "0", pool[c%len(pool)], strconv.Itoa(1 << uint(i))})
						c /= len(pool)
						if i == 2 {
							ops = append(ops, []string{"c", "0"}, []string{"c", "1"})
						}
					}
					ops = append(ops, []string{"c", "0"}, []string{"c", "1"})
					run("exh", strconv.Itoa(L), "dc", "ic", "-", ops)
				}
			}
		}
	}
}
