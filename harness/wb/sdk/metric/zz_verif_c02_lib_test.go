package metric

// Shared part of the C02 correspondence harness (DESIGN §5 C02): a MeterProvider with manual and periodic
// readers driven through the public API; the only unexported hook used is `newTicker` (deterministic ticks).

import (
	"context"
	"fmt"
	"math"
	"sort"
	"strconv"
	"strings"
	"sync"
	"sync/atomic"
	"testing"
	"time"

	"go.opentelemetry.io/otel"
	"go.opentelemetry.io/otel/attribute"
	"go.opentelemetry.io/otel/metric"
	"go.opentelemetry.io/otel/sdk/metric/exemplar"
	"go.opentelemetry.io/otel/sdk/metric/metricdata"
)

type c02ReaderCfg struct {
	periodic bool
	tc, tu   metricdata.Temporality // temporality for counters / up-down counters
	// what the reader's AggregationSelector answers for the sum kinds: '-' default, 'u'/'c'/'b' = LastValue (rejected
	// with an error at instrument creation) for up-down counters / counters / both, 'D' = Drop for up-down counters
	rej byte
}
// name = index of the instrument whose NAME this one is created with (itself unless the token carries "#k"):
// same name + same kind and number type = the SDK returns the cached instrument (one shared stream, owned by the
// first); same name + different kind or number type = the duplicate-registration case (own stream, equal names).
type c02InstCfg struct {
	float, updown bool
	name          int
}

// owner returns the first instrument with the same name, kind and number type as instrument j.
func (c c02Cfg) owner(j int) int {
	for k := 0; k < j; k++ {
		if c.insts[k].name == c.insts[j].name && c.insts[k].float == c.insts[j].float && c.insts[k].updown == c.insts[j].updown {
			return k
		}
	}
	return j
}

// streamIndex maps a reported metric (name "i<n>", number type, monotonic) to the instrument that owns the stream.
func (c c02Cfg) streamIndex(name string, float, mono bool) string {
	n, err := strconv.Atoi(strings.TrimPrefix(name, "i"))
	if err != nil {
		return "?"
	}
	for k, ic := range c.insts {
		if ic.name == n && ic.float == float && ic.updown == !mono {
			return strconv.Itoa(k)
		}
	}
	return "?"
}
type c02Cfg struct {
	readers []c02ReaderCfg
	insts   []c02InstCfg
	cb      bool // an observable gauge with a callback is registered (it never observes anything)
	to      bool // the periodic readers get a short timeout (tickx / flushx)
	producers bool // periodic readers get a gate-able external Producer (forced overlap scripts)
	hooks   bool // every instrument gets a view installing a hook exemplar reservoir (collectx / tickx / flushx)
	exOn    bool // exemplar filter always-on: the default reservoirs are offered every measurement (values must not change)
}

// aggregation answers the reader's AggregationSelector.
func (r c02ReaderCfg) aggregation(k InstrumentKind) Aggregation {
	ud, ct := k == InstrumentKindUpDownCounter, k == InstrumentKindCounter
	switch {
	case r.rej == 'u' && ud, r.rej == 'c' && ct, r.rej == 'b' && (ud || ct):
		return AggregationLastValue{}
	case r.rej == 'D' && ud:
		return AggregationDrop{}
	}
	return DefaultAggregationSelector(k)
}

func c02T(t metricdata.Temporality) string {
	if t == metricdata.DeltaTemporality {
		return "d"
	}
	return "c"
}
func c02PT(b byte) metricdata.Temporality {
	if b == 'd' {
		return metricdata.DeltaTemporality
	}
	return metricdata.CumulativeTemporality
}

// "mdd,pdc ic,fu"
func (c c02Cfg) String() string {
	var rs, is []string
	for _, r := range c.readers {
		k := "m"
		if r.periodic {
			k = "p"
		}
		x := k + c02T(r.tc) + c02T(r.tu)
		if r.rej != 0 && r.rej != '-' {
			x += string(r.rej)
		}
		rs = append(rs, x)
	}
	for _, i := range c.insts {
		n, k := "i", "c"
		if i.float {
			n = "f"
		}
		if i.updown {
			k = "u"
		}
		x := n + k
		if i.name != len(is) {
			x += "#" + strconv.Itoa(i.name)
		}
		is = append(is, x)
	}
	fl := ""
	if c.cb {
		fl += "+cb"
	}
	if c.to {
		fl += "+to"
	}
	return strings.Join(rs, ",") + " " + strings.Join(is, ",") + fl
}

func c02ParseCfg(rs, is string) c02Cfg {
	var c c02Cfg
	for _, r := range strings.Split(rs, ",") {
		rc := c02ReaderCfg{periodic: r[0] == 'p', tc: c02PT(r[1]), tu: c02PT(r[2]), rej: '-'}
		if len(r) > 3 {
			rc.rej = r[3]
		}
		c.readers = append(c.readers, rc)
	}
	parts := strings.Split(is, "+")
	is = parts[0]
	for _, f := range parts[1:] {
		c.cb = c.cb || f == "cb"
		c.to = c.to || f == "to"
	}
	for _, i := range strings.Split(is, ",") {
		ic := c02InstCfg{float: i[0] == 'f', updown: i[1] == 'u', name: len(c.insts)}
		if k := strings.Index(i, "#"); k > 0 {
			ic.name, _ = strconv.Atoi(i[k+1:])
		}
		c.insts = append(c.insts, ic)
	}
	return c
}

// attribute-set ids: 0 = the overflow set, 1 = the empty set, n>=2 = {k=n}
func c02Set(id int) attribute.Set {
	switch id {
	case 0:
		return attribute.NewSet(attribute.Bool("otel.metric.overflow", true))
	case 1:
		return *attribute.EmptySet()
	}
	return attribute.NewSet(attribute.Int("k", id))
}
func c02SetID(s attribute.Set) int {
	if s.Len() == 0 {
		return 1
	}
	if s.Len() == 1 {
		if v, ok := s.Value("k"); ok && v.Type() == attribute.INT64 {
			return int(v.AsInt64())
		}
		if v, ok := s.Value("otel.metric.overflow"); ok && v.Type() == attribute.BOOL && v.AsBool() {
			return 0
		}
	}
	return 999999
}

type c02Pt struct {
	a int
	v string
}

func c02Scaled(f float64) string {
	k := f * 256
	if k != math.Trunc(k) || math.Abs(k) > 1<<62 {
		return "inexact"
	}
	return strconv.FormatInt(int64(k), 10)
}

// c02Format renders one collection: "<stamp>:<reader>:<ok|err>;<inst><d|c><m|n>:<a>=<v>,…;…"
// (streams sorted by instrument index, points by attribute id; float values printed ×256).
func c02Format(cfg c02Cfg, stamp, ridx int, err error, rm *metricdata.ResourceMetrics) string {
	st := "ok"
	if err != nil {
		st = "err"
	}
	var streams []string
	if rm != nil {
		for _, sm := range rm.ScopeMetrics {
			for _, m := range sm.Metrics {
				var pts []c02Pt
				var flags string
				idx := "?"
				switch d := m.Data.(type) {
				case metricdata.Sum[int64]:
					idx = cfg.streamIndex(m.Name, false, d.IsMonotonic)
					flags = c02T(d.Temporality) + map[bool]string{true: "m", false: "n"}[d.IsMonotonic]
					for _, p := range d.DataPoints {
						pts = append(pts, c02Pt{c02SetID(p.Attributes), strconv.FormatInt(p.Value, 10)})
					}
				case metricdata.Sum[float64]:
					idx = cfg.streamIndex(m.Name, true, d.IsMonotonic)
					flags = c02T(d.Temporality) + map[bool]string{true: "m", false: "n"}[d.IsMonotonic]
					for _, p := range d.DataPoints {
						pts = append(pts, c02Pt{c02SetID(p.Attributes), c02Scaled(p.Value)})
					}
				default:
					flags = "??"
				}
				sort.SliceStable(pts, func(i, j int) bool { return pts[i].a < pts[j].a })
				var ps []string
				for _, p := range pts {
					ps = append(ps, fmt.Sprintf("%d=%s", p.a, p.v))
				}
				streams = append(streams, idx+flags+":"+strings.Join(ps, ","))
			}
		}
	}
	sort.Strings(streams)
	return strings.Join(append([]string{fmt.Sprintf("%d:%d:%s", stamp, ridx, st)}, streams...), ";")
}

// c02Exporter records every payload it is given (it always accepts).
// c02Gate parks a callee until the harness releases it.
type c02Gate struct{ parked, release chan struct{} }

func c02NewGate() *c02Gate { return &c02Gate{make(chan struct{}), make(chan struct{})} }

// c02Producer is an external Producer (WithProducer) that produces nothing; the reader runs it between collecting from
// the SDK and exporting, so a gate here parks an interval export / ForceFlush that HAS collected but NOT yet exported.
type c02Producer struct {
	mu   sync.Mutex
	gate *c02Gate
}

func (p *c02Producer) set(g *c02Gate) {
	p.mu.Lock()
	p.gate = g
	p.mu.Unlock()
}
func (p *c02Producer) Produce(context.Context) ([]metricdata.ScopeMetrics, error) {
	p.mu.Lock()
	g := p.gate
	p.gate = nil
	p.mu.Unlock()
	if g != nil {
		close(g.parked)
		<-g.release
	}
	return nil, nil
}

type c02Exporter struct {
	gate *c02Gate // guarded by sys.mu
	sys  *c02Sys
	ridx int
	cfg  c02ReaderCfg
	sig  chan struct{}
	// ghost counters of the reader LTS (Otel/C02/ReaderLts.lean): Export calls started / returned, the largest number
	// seen in flight at once, and the calls started after the harness saw Shutdown return
	begun, ended, inflight, maxIn, late atomic.Int32
	shutRet                             atomic.Bool
}

func (e *c02Exporter) Temporality(k InstrumentKind) metricdata.Temporality {
	if k == InstrumentKindUpDownCounter {
		return e.cfg.tu
	}
	return e.cfg.tc
}
func (e *c02Exporter) Aggregation(k InstrumentKind) Aggregation { return e.cfg.aggregation(k) }
func (e *c02Exporter) Export(ctx context.Context, rm *metricdata.ResourceMetrics) error {
	e.begun.Add(1)
	if e.shutRet.Load() {
		e.late.Add(1)
	}
	n := e.inflight.Add(1)
	for {
		m := e.maxIn.Load()
		if n <= m || e.maxIn.CompareAndSwap(m, n) {
			break
		}
	}
	defer func() {
		e.inflight.Add(-1)
		e.ended.Add(1)
	}()
	// a gated export (forced scripts): a slow exporter that honours its context — the payload is accepted only if the
	// harness releases it before the context ends
	e.sys.mu.Lock()
	g := e.gate
	e.gate = nil
	e.sys.mu.Unlock()
	if g != nil {
		close(g.parked)
		select {
		case <-ctx.Done():
			return ctx.Err()
		case <-g.release:
		}
	}
	// rm is pooled by the reader: everything is extracted before returning
	e.sys.mu.Lock()
	if e.sys.stamp >= 0 {
		e.sys.recs = append(e.sys.recs, c02Format(e.sys.cfg, e.sys.stampFor(e.ridx), e.ridx, nil, rm))
	}
	e.sys.mu.Unlock()
	select {
	case e.sig <- struct{}{}:
	default:
	}
	return nil
}
func (e *c02Exporter) ForceFlush(context.Context) error { return nil }
func (e *c02Exporter) Shutdown(context.Context) error   { return nil }

// c02Hook is an exemplar reservoir whose Collect runs a one-shot hook: the SDK calls it while it computes the
// aggregation of the stream, i.e. in the middle of pipeline.produce (public API: Stream.ExemplarReservoirProviderSelector).
type c02Hook struct {
	mu   sync.Mutex
	hook func()
}

func (h *c02Hook) set(f func()) {
	h.mu.Lock()
	h.hook = f
	h.mu.Unlock()
}
func (h *c02Hook) Offer(context.Context, time.Time, exemplar.Value, []attribute.KeyValue) {}
func (h *c02Hook) Collect(dest *[]exemplar.Exemplar) {
	*dest = (*dest)[:0]
	h.mu.Lock()
	f := h.hook
	h.hook = nil
	h.mu.Unlock()
	if f != nil {
		f()
	}
}

// c02ErrSig receives every error given to otel.Handle (the periodic run loop reports failed interval exports there).
var c02ErrSig = make(chan struct{}, 1024)

func c02InstallErrHandler(t *testing.T) {
	otel.SetErrorHandler(otel.ErrorHandlerFunc(func(error) {
		select {
		case c02ErrSig <- struct{}{}:
		default:
		}
	}))
}

const c02ShortTimeout = 40 * time.Millisecond

type c02Sys struct {
	hooks   []*c02Hook
	cbHook  c02Hook
	cfg     c02Cfg
	mp      *MeterProvider
	readers []Reader
	exps    []*c02Exporter
	ticks   []chan time.Time
	down    []bool
	adders  []func(a int, v int64)
	mu      sync.Mutex
	stamp   int         // current op index (seq leg); <0: discard
	stamps  map[int]int // per-reader stamp override (conc leg: collector id)
	seqStamps []int     // forced scripts: stamps handed out in export order (guarded by mu)
	prods   []*c02Producer // per reader (nil unless cfg.producers and the reader is periodic)
	recs    []string
}

func (s *c02Sys) stampFor(r int) int {
	if len(s.seqStamps) > 0 {
		// forced scripts: the exports of one script are stamped in the order in which they reach the exporter
		v := s.seqStamps[0]
		if len(s.seqStamps) > 1 {
			s.seqStamps = s.seqStamps[1:]
		}
		return v
	}
	if v, ok := s.stamps[r]; ok {
		return v
	}
	return s.stamp
}

var c02TickCh = make(chan chan time.Time, 64)

func c02InstallTicker(t *testing.T) {
	orig := newTicker
	newTicker = func(time.Duration) *time.Ticker {
		tk := time.NewTicker(time.Hour)
		ch := make(chan time.Time)
		tk.C = ch
		c02TickCh <- ch
		return tk
	}
	t.Cleanup(func() { newTicker = orig })
}

func c02New(cfg c02Cfg) *c02Sys {
	s := &c02Sys{cfg: cfg, stamps: map[int]int{}}
	var opts []Option
	for i, rc := range cfg.readers {
		rc := rc
		if rc.periodic {
			e := &c02Exporter{sys: s, ridx: i, cfg: rc, sig: make(chan struct{}, 1024)}
			to := 30 * time.Second
			if cfg.to {
				to = c02ShortTimeout
			}
			popts := []PeriodicReaderOption{WithInterval(time.Hour), WithTimeout(to)}
			var prod *c02Producer
			if cfg.producers {
				prod = &c02Producer{}
				popts = append(popts, WithProducer(prod))
			}
			r := NewPeriodicReader(e, popts...)
			s.prods = append(s.prods, prod)
			s.ticks = append(s.ticks, <-c02TickCh)
			s.exps = append(s.exps, e)
			s.readers = append(s.readers, r)
			opts = append(opts, WithReader(r))
		} else {
			r := NewManualReader(WithTemporalitySelector(func(k InstrumentKind) metricdata.Temporality {
				if k == InstrumentKindUpDownCounter {
					return rc.tu
				}
				return rc.tc
			}), WithAggregationSelector(rc.aggregation))
			s.prods = append(s.prods, nil)
			s.ticks = append(s.ticks, nil)
			s.exps = append(s.exps, nil)
			s.readers = append(s.readers, r)
			opts = append(opts, WithReader(r))
		}
		s.down = append(s.down, false)
	}
	if cfg.hooks {
		for j, ic := range cfg.insts {
			if ic.name != j {
				// created with another instrument's name: that name's view (and hook) applies
				s.hooks = append(s.hooks, s.hooks[ic.name])
				continue
			}
			h := &c02Hook{}
			s.hooks = append(s.hooks, h)
			opts = append(opts, WithView(NewView(Instrument{Name: fmt.Sprintf("i%d", j)}, Stream{
				ExemplarReservoirProviderSelector: func(Aggregation) exemplar.ReservoirProvider {
					return func(attribute.Set) exemplar.Reservoir { return h }
				},
			})))
		}
	}
	if cfg.exOn {
		opts = append(opts, WithExemplarFilter(exemplar.AlwaysOnFilter))
	}
	s.mp = NewMeterProvider(opts...)
	m := s.mp.Meter("c02")
	ctx := context.Background()
	defer func() {
		if cfg.cb {
			// created last: the indexes of the sum instruments in the pipelines do not change
			_, _ = m.Int64ObservableGauge("zcb", metric.WithInt64Callback(func(context.Context, metric.Int64Observer) error {
				s.cbHook.Collect(new([]exemplar.Exemplar))
				return nil
			}))
		}
	}()
	for _, ic := range cfg.insts {
		name := fmt.Sprintf("i%d", ic.name)
		switch {
		case !ic.float && !ic.updown:
			c, _ := m.Int64Counter(name)
			s.adders = append(s.adders, func(a int, v int64) { c.Add(ctx, v, metric.WithAttributeSet(c02Set(a))) })
		case !ic.float && ic.updown:
			c, _ := m.Int64UpDownCounter(name)
			s.adders = append(s.adders, func(a int, v int64) { c.Add(ctx, v, metric.WithAttributeSet(c02Set(a))) })
		case ic.float && !ic.updown:
			c, _ := m.Float64Counter(name)
			s.adders = append(s.adders, func(a int, v int64) { c.Add(ctx, float64(v)/256, metric.WithAttributeSet(c02Set(a))) })
		default:
			c, _ := m.Float64UpDownCounter(name)
			s.adders = append(s.adders, func(a int, v int64) { c.Add(ctx, float64(v)/256, metric.WithAttributeSet(c02Set(a))) })
		}
	}
	return s
}

// collect calls Reader.Collect and records the result under the given stamp.
func (s *c02Sys) collect(stamp, r int) { s.collectCtx(context.Background(), stamp, r) }

func (s *c02Sys) collectCtx(ctx context.Context, stamp, r int) {
	var rm metricdata.ResourceMetrics
	err := s.readers[r].Collect(ctx, &rm)
	rec := c02Format(s.cfg, stamp, r, err, &rm)
	s.mu.Lock()
	s.recs = append(s.recs, rec)
	s.mu.Unlock()
}

// tick makes the run loop of periodic reader r perform one interval export; false = the loop did not react.
func (s *c02Sys) tick(r int) bool { return s.tickStatus(r) == "ok" }

// tickStatus: "ok" = a payload reached the exporter, "err" = the loop reported an error instead (otel.Handle),
// "hang" = neither within 20 s.
func (s *c02Sys) tickStatus(r int) string {
	for {
		select {
		case <-c02ErrSig:
			continue
		default:
		}
		break
	}
	select {
	case s.ticks[r] <- time.Now():
	case <-time.After(20 * time.Second):
		return "hang"
	}
	select {
	case <-s.exps[r].sig:
		return "ok"
	case <-c02ErrSig:
		return "err"
	case <-time.After(20 * time.Second):
		return "hang"
	}
}

func (s *c02Sys) drainSignals() {
	for _, e := range s.exps {
		if e == nil {
			continue
		}
		for {
			select {
			case <-e.sig:
				continue
			default:
			}
			break
		}
	}
}

// close stops every goroutine; whatever is exported now is discarded.
func (s *c02Sys) close() {
	s.mu.Lock()
	s.stamp = -1
	s.stamps = map[int]int{}
	s.mu.Unlock()
	_ = s.mp.Shutdown(context.Background())
	for _, r := range s.readers {
		_ = r.Shutdown(context.Background())
	}
}
