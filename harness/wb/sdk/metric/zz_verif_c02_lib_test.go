package metric

// Shared part of the C02 correspondence harness (DESIGN §5 C02): a MeterProvider with manual and periodic
// readers driven through the public API; the only unexported hook used is `newTicker` (deterministic ticks).

import (
	"context"
	"fmt"
	"math"
	"sort"
	"strconv"
	"strings"
	"sync"
	"testing"
	"time"

	"go.opentelemetry.io/otel/attribute"
	"go.opentelemetry.io/otel/metric"
	"go.opentelemetry.io/otel/sdk/metric/metricdata"
)

type c02ReaderCfg struct {
	periodic bool
	tc, tu   metricdata.Temporality // temporality for counters / up-down counters
}
type c02InstCfg struct{ float, updown bool }
type c02Cfg struct {
	readers []c02ReaderCfg
	insts   []c02InstCfg
}

func c02T(t metricdata.Temporality) string {
	if t == metricdata.DeltaTemporality {
		return "d"
	}
	return "c"
}
func c02PT(b byte) metricdata.Temporality {
	if b == 'd' {
		return metricdata.DeltaTemporality
	}
	return metricdata.CumulativeTemporality
}

// "mdd,pdc ic,fu"
func (c c02Cfg) String() string {
	var rs, is []string
	for _, r := range c.readers {
		k := "m"
		if r.periodic {
			k = "p"
		}
		rs = append(rs, k+c02T(r.tc)+c02T(r.tu))
	}
	for _, i := range c.insts {
		n, k := "i", "c"
		if i.float {
			n = "f"
		}
		if i.updown {
			k = "u"
		}
		is = append(is, n+k)
	}
	return strings.Join(rs, ",") + " " + strings.Join(is, ",")
}

func c02ParseCfg(rs, is string) c02Cfg {
	var c c02Cfg
	for _, r := range strings.Split(rs, ",") {
		c.readers = append(c.readers, c02ReaderCfg{periodic: r[0] == 'p', tc: c02PT(r[1]), tu: c02PT(r[2])})
	}
	for _, i := range strings.Split(is, ",") {
		c.insts = append(c.insts, c02InstCfg{float: i[0] == 'f', updown: i[1] == 'u'})
	}
	return c
}

// attribute-set ids: 0 = the overflow set, 1 = the empty set, n>=2 = {k=n}
func c02Set(id int) attribute.Set {
	switch id {
	case 0:
		return attribute.NewSet(attribute.Bool("otel.metric.overflow", true))
	case 1:
		return *attribute.EmptySet()
	}
	return attribute.NewSet(attribute.Int("k", id))
}
func c02SetID(s attribute.Set) int {
	if s.Len() == 0 {
		return 1
	}
	if s.Len() == 1 {
		if v, ok := s.Value("k"); ok && v.Type() == attribute.INT64 {
			return int(v.AsInt64())
		}
		if v, ok := s.Value("otel.metric.overflow"); ok && v.Type() == attribute.BOOL && v.AsBool() {
			return 0
		}
	}
	return 999999
}

type c02Pt struct {
	a int
	v string
}

func c02Scaled(f float64) string {
	k := f * 256
	if k != math.Trunc(k) || math.Abs(k) > 1<<62 {
		return "inexact"
	}
	return strconv.FormatInt(int64(k), 10)
}

// c02Format renders one collection: "<stamp>:<reader>:<ok|err>;<inst><d|c><m|n>:<a>=<v>,…;…"
// (streams sorted by instrument index, points by attribute id; float values printed ×256).
func c02Format(stamp, ridx int, err error, rm *metricdata.ResourceMetrics) string {
	st := "ok"
	if err != nil {
		st = "err"
	}
	var streams []string
	if rm != nil {
		for _, sm := range rm.ScopeMetrics {
			for _, m := range sm.Metrics {
				var pts []c02Pt
				var flags string
				switch d := m.Data.(type) {
				case metricdata.Sum[int64]:
					flags = c02T(d.Temporality) + map[bool]string{true: "m", false: "n"}[d.IsMonotonic]
					for _, p := range d.DataPoints {
						pts = append(pts, c02Pt{c02SetID(p.Attributes), strconv.FormatInt(p.Value, 10)})
					}
				case metricdata.Sum[float64]:
					flags = c02T(d.Temporality) + map[bool]string{true: "m", false: "n"}[d.IsMonotonic]
					for _, p := range d.DataPoints {
						pts = append(pts, c02Pt{c02SetID(p.Attributes), c02Scaled(p.Value)})
					}
				default:
					flags = "??"
				}
				sort.SliceStable(pts, func(i, j int) bool { return pts[i].a < pts[j].a })
				var ps []string
				for _, p := range pts {
					ps = append(ps, fmt.Sprintf("%d=%s", p.a, p.v))
				}
				streams = append(streams, strings.TrimPrefix(m.Name, "i")+flags+":"+strings.Join(ps, ","))
			}
		}
	}
	sort.Strings(streams)
	return strings.Join(append([]string{fmt.Sprintf("%d:%d:%s", stamp, ridx, st)}, streams...), ";")
}

// c02Exporter records every payload it is given (it always accepts).
type c02Exporter struct {
	sys  *c02Sys
	ridx int
	cfg  c02ReaderCfg
	sig  chan struct{}
}

func (e *c02Exporter) Temporality(k InstrumentKind) metricdata.Temporality {
	if k == InstrumentKindUpDownCounter {
		return e.cfg.tu
	}
	return e.cfg.tc
}
func (e *c02Exporter) Aggregation(k InstrumentKind) Aggregation { return DefaultAggregationSelector(k) }
func (e *c02Exporter) Export(_ context.Context, rm *metricdata.ResourceMetrics) error {
	// rm is pooled by the reader: everything is extracted before returning
	e.sys.mu.Lock()
	if e.sys.stamp >= 0 {
		e.sys.recs = append(e.sys.recs, c02Format(e.sys.stampFor(e.ridx), e.ridx, nil, rm))
	}
	e.sys.mu.Unlock()
	select {
	case e.sig <- struct{}{}:
	default:
	}
	return nil
}
func (e *c02Exporter) ForceFlush(context.Context) error { return nil }
func (e *c02Exporter) Shutdown(context.Context) error   { return nil }

type c02Sys struct {
	cfg     c02Cfg
	mp      *MeterProvider
	readers []Reader
	exps    []*c02Exporter
	ticks   []chan time.Time
	down    []bool
	adders  []func(a int, v int64)
	mu      sync.Mutex
	stamp   int         // current op index (seq leg); <0: discard
	stamps  map[int]int // per-reader stamp override (conc leg: collector id)
	recs    []string
}

func (s *c02Sys) stampFor(r int) int {
	if v, ok := s.stamps[r]; ok {
		return v
	}
	return s.stamp
}

var c02TickCh = make(chan chan time.Time, 64)

func c02InstallTicker(t *testing.T) {
	orig := newTicker
	newTicker = func(time.Duration) *time.Ticker {
		tk := time.NewTicker(time.Hour)
		ch := make(chan time.Time)
		tk.C = ch
		c02TickCh <- ch
		return tk
	}
	t.Cleanup(func() { newTicker = orig })
}

func c02New(cfg c02Cfg) *c02Sys {
	s := &c02Sys{cfg: cfg, stamps: map[int]int{}}
	var opts []Option
	for i, rc := range cfg.readers {
		rc := rc
		if rc.periodic {
			e := &c02Exporter{sys: s, ridx: i, cfg: rc, sig: make(chan struct{}, 1024)}
			r := NewPeriodicReader(e, WithInterval(time.Hour), WithTimeout(30*time.Second))
			s.ticks = append(s.ticks, <-c02TickCh)
			s.exps = append(s.exps, e)
			s.readers = append(s.readers, r)
			opts = append(opts, WithReader(r))
		} else {
			r := NewManualReader(WithTemporalitySelector(func(k InstrumentKind) metricdata.Temporality {
				if k == InstrumentKindUpDownCounter {
					return rc.tu
				}
				return rc.tc
			}))
			s.ticks = append(s.ticks, nil)
			s.exps = append(s.exps, nil)
			s.readers = append(s.readers, r)
			opts = append(opts, WithReader(r))
		}
		s.down = append(s.down, false)
	}
	s.mp = NewMeterProvider(opts...)
	m := s.mp.Meter("c02")
	ctx := context.Background()
	for j, ic := range cfg.insts {
		name := fmt.Sprintf("i%d", j)
		switch {
		case !ic.float && !ic.updown:
			c, _ := m.Int64Counter(name)
			s.adders = append(s.adders, func(a int, v int64) { c.Add(ctx, v, metric.WithAttributeSet(c02Set(a))) })
		case !ic.float && ic.updown:
			c, _ := m.Int64UpDownCounter(name)
			s.adders = append(s.adders, func(a int, v int64) { c.Add(ctx, v, metric.WithAttributeSet(c02Set(a))) })
		case ic.float && !ic.updown:
			c, _ := m.Float64Counter(name)
			s.adders = append(s.adders, func(a int, v int64) { c.Add(ctx, float64(v)/256, metric.WithAttributeSet(c02Set(a))) })
		default:
			c, _ := m.Float64UpDownCounter(name)
			s.adders = append(s.adders, func(a int, v int64) { c.Add(ctx, float64(v)/256, metric.WithAttributeSet(c02Set(a))) })
		}
	}
	return s
}

// collect calls Reader.Collect and records the result under the given stamp.
func (s *c02Sys) collect(stamp, r int) {
	var rm metricdata.ResourceMetrics
	err := s.readers[r].Collect(context.Background(), &rm)
	rec := c02Format(stamp, r, err, &rm)
	s.mu.Lock()
	s.recs = append(s.recs, rec)
	s.mu.Unlock()
}

// tick makes the run loop of periodic reader r perform one interval export; false = the loop did not react.
func (s *c02Sys) tick(r int) bool {
	select {
	case s.ticks[r] <- time.Now():
	case <-time.After(20 * time.Second):
		return false
	}
	select {
	case <-s.exps[r].sig:
	case <-time.After(20 * time.Second):
		return false
	}
	return true
}

func (s *c02Sys) drainSignals() {
	for _, e := range s.exps {
		if e == nil {
			continue
		}
		for {
			select {
			case <-e.sig:
				continue
			default:
			}
			break
		}
	}
}

// close stops every goroutine; whatever is exported now is discarded.
func (s *c02Sys) close() {
	s.mu.Lock()
	s.stamp = -1
	s.stamps = map[int]int{}
	s.mu.Unlock()
	_ = s.mp.Shutdown(context.Background())
	for _, r := range s.readers {
		_ = r.Shutdown(context.Background())
	}
}
