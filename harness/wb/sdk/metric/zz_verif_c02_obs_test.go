package metric

import (
	"context"
	"fmt"
	"sort"
	"strconv"
	"strings"
	"sync"
	"testing"
	"time"

	"go.opentelemetry.io/otel/metric"
	"go.opentelemetry.io/otel/sdk/metric/metricdata"
)

// TestVerifC02Obs: observable counters / up-down counters / gauges whose callbacks are supplied AT CREATION, read by
// several ManualReaders; forced schedules in which the collections of two readers OVERLAP (public API only: the
// callback is user code, so the harness parks it on a gate — no sleeps).
//   obs <gen> <readers> <insts> | set j a v | unset j a | col r | ovl r1 r2 j … => <record> …
// readers: m<d|c><d|c>[r|D] (temporality for observable counters / observable up-down counters; r = the reader's
// AggregationSelector answers an aggregation isAggregatorCompatible rejects for every observable kind, D = AggregationDrop:
// the reader has no stream of any observable instrument, all other readers are served as usual); insts: <i|f><C|U|G>,
// a trailing "+reg" = the instruments are created WITHOUT callbacks and one Meter.RegisterCallback callback observes all of
// them in index order (through metric.Observer).
// set/unset edit what instrument j's callback observes; col r = one collection of reader r;
// ovl r1 r2 j = reader r1's collection starts (goroutine), its callback of instrument j is parked BEFORE it observes,
// reader r2 performs a whole collection, then r1 is released: records of r2 first, then r1.
// record = "<op>:<reader>:<ok|err>;<j><d|c|g><m|n|g>:<attr>=<value>,…" (gauge streams are tagged gg).
func TestVerifC02Obs(t *testing.T) {
	out := vOpen(t)
	defer out.Close()
	ctx := context.Background()

	type gate struct{ parked, release chan struct{} }

	format := func(stamp, r int, err error, rm *metricdata.ResourceMetrics) string {
		st := "ok"
		if err != nil {
			st = "err"
		}
		var streams []string
		for _, sm := range rm.ScopeMetrics {
			for _, m := range sm.Metrics {
				var pts []c02Pt
				flags := "??"
				switch d := m.Data.(type) {
				case metricdata.Sum[int64]:
					flags = c02T(d.Temporality) + map[bool]string{true: "m", false: "n"}[d.IsMonotonic]
					for _, p := range d.DataPoints {
						pts = append(pts, c02Pt{c02SetID(p.Attributes), strconv.FormatInt(p.Value, 10)})
					}
				case metricdata.Sum[float64]:
					flags = c02T(d.Temporality) + map[bool]string{true: "m", false: "n"}[d.IsMonotonic]
					for _, p := range d.DataPoints {
						pts = append(pts, c02Pt{c02SetID(p.Attributes), c02Scaled(p.Value)})
					}
				case metricdata.Gauge[int64]:
					flags = "gg"
					for _, p := range d.DataPoints {
						pts = append(pts, c02Pt{c02SetID(p.Attributes), strconv.FormatInt(p.Value, 10)})
					}
				case metricdata.Gauge[float64]:
					flags = "gg"
					for _, p := range d.DataPoints {
						pts = append(pts, c02Pt{c02SetID(p.Attributes), c02Scaled(p.Value)})
					}
				}
				sort.SliceStable(pts, func(i, j int) bool { return pts[i].a < pts[j].a })
				var ps []string
				for _, p := range pts {
					ps = append(ps, fmt.Sprintf("%d=%s", p.a, p.v))
				}
				streams = append(streams, strings.TrimPrefix(m.Name, "o")+flags+":"+strings.Join(ps, ","))
			}
		}
		sort.Strings(streams)
		return strings.Join(append([]string{fmt.Sprintf("%d:%d:%s", stamp, r, st)}, streams...), ";")
	}

	run := func(gen, rstr, istr string, ops [][]string) {
		var readers []*ManualReader
		var opts []Option
		for _, rc := range strings.Split(rstr, ",") {
			tc, tu := c02PT(rc[1]), c02PT(rc[2])
			mode := byte('-')
			if len(rc) == 4 {
				mode = rc[3] // r: the selector answers an incompatible aggregation for the observable kinds; D: it drops them
			}
			r := NewManualReader(WithTemporalitySelector(func(k InstrumentKind) metricdata.Temporality {
				switch k {
				case InstrumentKindObservableCounter:
					return tc
				case InstrumentKindObservableUpDownCounter:
					return tu
				}
				return metricdata.CumulativeTemporality
			}), WithAggregationSelector(func(k InstrumentKind) Aggregation {
				obs := k == InstrumentKindObservableCounter || k == InstrumentKindObservableUpDownCounter || k == InstrumentKindObservableGauge
				switch {
				case obs && mode == 'D':
					return AggregationDrop{}
				case obs && mode == 'r' && k == InstrumentKindObservableGauge:
					return AggregationSum{} // rejected by isAggregatorCompatible
				case obs && mode == 'r':
					return AggregationLastValue{} // rejected by isAggregatorCompatible
				}
				return DefaultAggregationSelector(k)
			}))
			readers = append(readers, r)
			opts = append(opts, WithReader(r))
		}
		mp := NewMeterProvider(opts...)
		defer mp.Shutdown(ctx)
		m := mp.Meter("c02obs")
		regMode := strings.HasSuffix(istr, "+reg") // no creation-time callbacks: ONE RegisterCallback callback for all instruments
		icodes := strings.Split(strings.TrimSuffix(istr, "+reg"), ",")
		n := len(icodes)
		iobs := make([]metric.Int64Observable, n)
		fobs := make([]metric.Float64Observable, n)
		var mu sync.Mutex
		tables := make([]map[int]int64, n)
		gates := make([]*gate, n)
		// the user callback: park if asked to (one shot), then observe the current table in attribute order
		enter := func(j int) [][2]int64 {
			mu.Lock()
			g := gates[j]
			gates[j] = nil
			mu.Unlock()
			if g != nil {
				close(g.parked)
				<-g.release
			}
			mu.Lock()
			defer mu.Unlock()
			var kv [][2]int64
			for a, v := range tables[j] {
				kv = append(kv, [2]int64{int64(a), v})
			}
			sort.Slice(kv, func(x, y int) bool { return kv[x][0] < kv[y][0] })
			return kv
		}
		for j, ic := range icodes {
			j := j
			tables[j] = map[int]int64{}
			name := fmt.Sprintf("o%d", j)
			icb := metric.WithInt64Callback(func(_ context.Context, o metric.Int64Observer) error {
				for _, kv := range enter(j) {
					o.Observe(kv[1], metric.WithAttributeSet(c02Set(int(kv[0]))))
				}
				return nil
			})
			fcb := metric.WithFloat64Callback(func(_ context.Context, o metric.Float64Observer) error {
				for _, kv := range enter(j) {
					o.Observe(float64(kv[1])/256, metric.WithAttributeSet(c02Set(int(kv[0]))))
				}
				return nil
			})
			switch {
			case regMode && ic == "iC":
				iobs[j], _ = m.Int64ObservableCounter(name)
			case regMode && ic == "iU":
				iobs[j], _ = m.Int64ObservableUpDownCounter(name)
			case regMode && ic == "iG":
				iobs[j], _ = m.Int64ObservableGauge(name)
			case regMode && ic == "fC":
				fobs[j], _ = m.Float64ObservableCounter(name)
			case regMode && ic == "fU":
				fobs[j], _ = m.Float64ObservableUpDownCounter(name)
			case regMode:
				fobs[j], _ = m.Float64ObservableGauge(name)
			case ic == "iC":
				_, _ = m.Int64ObservableCounter(name, icb)
			case ic == "iU":
				_, _ = m.Int64ObservableUpDownCounter(name, icb)
			case ic == "iG":
				_, _ = m.Int64ObservableGauge(name, icb)
			case ic == "fC":
				_, _ = m.Float64ObservableCounter(name, fcb)
			case ic == "fU":
				_, _ = m.Float64ObservableUpDownCounter(name, fcb)
			default:
				_, _ = m.Float64ObservableGauge(name, fcb)
			}
		}
		if regMode {
			var all []metric.Observable
			for j := 0; j < n; j++ {
				if iobs[j] != nil {
					all = append(all, iobs[j])
				} else if fobs[j] != nil {
					all = append(all, fobs[j])
				}
			}
			_, _ = m.RegisterCallback(func(_ context.Context, o metric.Observer) error {
				for j := 0; j < n; j++ {
					for _, kv := range enter(j) {
						if iobs[j] != nil {
							o.ObserveInt64(iobs[j], kv[1], metric.WithAttributeSet(c02Set(int(kv[0]))))
						} else if fobs[j] != nil {
							o.ObserveFloat64(fobs[j], float64(kv[1])/256, metric.WithAttributeSet(c02Set(int(kv[0]))))
						}
					}
				}
				return nil
			}, all...)
		}
		var recs []string
		collect := func(i, r int) string {
			var rm metricdata.ResourceMetrics
			err := readers[r].Collect(ctx, &rm)
			return format(i, r, err, &rm)
		}
		atoi := func(x string) int { v, _ := strconv.Atoi(x); return v }
		for i, op := range ops {
			switch op[0] {
			case "set":
				if j := atoi(op[1]); j < n {
					v, _ := strconv.ParseInt(op[3], 10, 64)
					mu.Lock()
					tables[j][atoi(op[2])] = v
					mu.Unlock()
				}
			case "unset":
				if j := atoi(op[1]); j < n {
					mu.Lock()
					delete(tables[j], atoi(op[2]))
					mu.Unlock()
				}
			case "col":
				if r := atoi(op[1]); r < len(readers) {
					recs = append(recs, collect(i, r))
				}
			case "ovl":
				r1, r2, j := atoi(op[1]), atoi(op[2]), atoi(op[3])
				if r1 >= len(readers) || r2 >= len(readers) {
					continue
				}
				if r1 == r2 || j >= n {
					recs = append(recs, collect(i, r1))
					continue
				}
				g := &gate{make(chan struct{}), make(chan struct{})}
				mu.Lock()
				gates[j] = g
				mu.Unlock()
				done := make(chan string, 1)
				go func() { done <- collect(i, r1) }()
				select {
				case <-g.parked:
				case rec1 := <-done:
					// reader r1 has no callback of instrument j (its selector rejects / drops the observable kinds): its
					// collection ran to the end without parking; reader r2's collection, then the records in the usual order
					mu.Lock()
					gates[j] = nil
					mu.Unlock()
					recs = append(recs, collect(i, r2), rec1)
					continue
				case <-time.After(20 * time.Second):
					recs = append(recs, fmt.Sprintf("%d:%d:hang", i, r1))
					close(g.release)
					<-done
					continue
				}
				recs = append(recs, collect(i, r2)) // reader r2's whole collection while r1 is parked in its callback
				close(g.release)
				recs = append(recs, <-done)
			}
		}
		var sb strings.Builder
		for _, op := range ops {
			sb.WriteString(" | " + strings.Join(op, " "))
		}
		out.Line("obs %s %s %s%s => %s", gen, rstr, istr, sb.String(), strings.Join(recs, " "))
	}

	if rp := vReplayLines(); rp != nil {
		for _, f := range rp {
			if f[0] != "obs" || len(f) < 4 {
				continue
			}
			var ops [][]string
			var cur []string
			for _, tk := range f[4:] {
				if tk == "|" {
					if cur != nil {
						ops = append(ops, cur)
					}
					cur = nil
					continue
				}
				cur = append(cur, tk)
			}
			if cur != nil {
				ops = append(ops, cur)
			}
			run(f[1], f[2], f[3], ops)
		}
		return
	}

	r := &vRand{s: vSeed()}
	nCases := vN(1500)
	temps := []string{"d", "c"}
	for c := 0; c < nCases; c++ {
		nr := 2 + r.Intn(3)
		var rs, is []string
		for k := 0; k < nr; k++ {
			rs = append(rs, "m"+vPick(r, temps)+vPick(r, temps))
		}
		if c%2 == 0 { // always a delta and a cumulative reader side by side
			rs[0], rs[1] = "mdd", "mcc"
		}
		gen := "rnd"
		if c%3 == 1 {
			// a reader whose AggregationSelector rejects (r) or drops (D) every observable kind, before / between / after
			// the normal readers: every other reader must see every observation
			gen = "rej"
			x := "m" + vPick(r, temps) + vPick(r, temps) + vPick(r, []string{"r", "r", "D"})
			at := r.Intn(len(rs) + 1)
			if c%6 == 1 {
				at = 0
			}
			rs = append(rs[:at], append([]string{x}, rs[at:]...)...)
			nr = len(rs)
		}
		ni := 1 + r.Intn(3)
		for k := 0; k < ni; k++ {
			is = append(is, vPick(r, []string{"iC", "iU", "iG", "fC", "fU", "fG"}))
		}
		nattr := 1 + r.Intn(3)
		nops := 6 + r.Intn(35)
		var ops [][]string
		for k := 0; k < nops; k++ {
			x := r.Intn(100)
			j := strconv.Itoa(r.Intn(ni))
			a := strconv.Itoa(1 + r.Intn(nattr))
			switch {
			case x < 40:
				ops = append(ops, []string{"set", j, a, strconv.FormatInt(int64(r.Intn(2000))-200, 10)})
			case x < 48:
				ops = append(ops, []string{"unset", j, a})
			case x < 70:
				ops = append(ops, []string{"col", strconv.Itoa(r.Intn(nr))})
			default:
				r1 := r.Intn(nr)
				r2 := (r1 + 1 + r.Intn(nr-1)) % nr
				ops = append(ops, []string{"ovl", strconv.Itoa(r1), strconv.Itoa(r2), j})
			}
		}
		for k := 0; k < nr; k++ {
			ops = append(ops, []string{"col", strconv.Itoa(k)})
		}
		istr := strings.Join(is, ",")
		if c%4 == 2 || c%12 == 1 {
			istr += "+reg"
			gen += "+reg"
		}
		run(gen, strings.Join(rs, ","), istr, ops)
	}
}
