package metric

import (
	"context"
	"fmt"
	"strconv"
	"strings"
	"testing"
)

// TestVerifC02Seq: sequential histories against MeterProvider + manual/periodic readers.
//   seq <gen> <readers> <insts> | add j a v | col r | tick r | flush | shut | rshut r … => <record> <record> …
// record = "<op index>:<reader>:<ok|err>;<inst><d|c><m|n>:<attr>=<value>,…;…" for every collection that happened.
func TestVerifC02Seq(t *testing.T) {
	out := vOpen(t)
	defer out.Close()
	c02InstallTicker(t)

	run := func(gen string, cfg c02Cfg, ops [][]string) {
		s := c02New(cfg)
		defer s.close()
		ctx := context.Background()
		atoi := func(x string) int { n, _ := strconv.Atoi(x); return n }
		for i, op := range ops {
			s.mu.Lock()
			s.stamp = i
			s.mu.Unlock()
			switch op[0] {
			case "add":
				v, _ := strconv.ParseInt(op[3], 10, 64)
				if j := atoi(op[1]); j < len(s.adders) {
					s.adders[j](atoi(op[2]), v)
				}
			case "col":
				if r := atoi(op[1]); r < len(s.readers) {
					s.collect(i, r)
				}
			case "tick":
				if r := atoi(op[1]); r < len(s.readers) && s.ticks[r] != nil && !s.down[r] {
					if !s.tick(r) {
						s.mu.Lock()
						s.recs = append(s.recs, fmt.Sprintf("%d:%d:hang", i, r))
						s.mu.Unlock()
					}
				}
			case "flush":
				_ = s.mp.ForceFlush(ctx)
			case "shut":
				_ = s.mp.Shutdown(ctx)
				for r := range s.down {
					s.down[r] = true
				}
			case "rshut":
				if r := atoi(op[1]); r < len(s.readers) {
					_ = s.readers[r].Shutdown(ctx)
					s.down[r] = true
				}
			}
			s.drainSignals()
		}
		var sb strings.Builder
		for _, op := range ops {
			sb.WriteString(" | " + strings.Join(op, " "))
		}
		s.mu.Lock()
		recs := strings.Join(s.recs, " ")
		s.stamp = -1
		s.mu.Unlock()
		out.Line("seq %s %s%s => %s", gen, cfg.String(), sb.String(), recs)
	}

	if rp := vReplayLines(); rp != nil {
		for _, f := range rp {
			if f[0] != "seq" || len(f) < 4 {
				continue
			}
			var ops [][]string
			var cur []string
			for _, tk := range f[4:] {
				if tk == "|" {
					if cur != nil {
						ops = append(ops, cur)
					}
					cur = nil
					continue
				}
				cur = append(cur, tk)
			}
			if cur != nil {
				ops = append(ops, cur)
			}
			run(f[1], c02ParseCfg(f[2], f[3]), ops)
		}
		return
	}

	r := &vRand{s: vSeed()}
	n := vN(2000)

	if os_exhaustive() {
		// all histories of length <= 5 over 8 symbols: 2 instruments x 2 attribute sets, 2 manual readers, a periodic one
		cfg := c02ParseCfg("mdd,mcc,pdc", "ic,iu")
		alpha := [][]string{{"add", "0", "1", "1"}, {"add", "0", "2", "2"}, {"add", "1", "1", "-4"}, {"add", "1", "2", "8"},
			{"col", "0"}, {"col", "1"}, {"tick", "2"}, {"shut"}}
		var rec func(prefix [][]string, depth int)
		rec = func(prefix [][]string, depth int) {
			if len(prefix) > 0 {
				run("exh", cfg, prefix)
			}
			if depth == 5 {
				return
			}
			for _, a := range alpha {
				rec(append(append([][]string{}, prefix...), a), depth+1)
			}
		}
		rec(nil, 0)
	}

	temps := []string{"d", "c"}
	for i := 0; i < n; i++ {
		gen := "rnd"
		var rs, is []string
		nr := 1 + r.Intn(3)
		for k := 0; k < nr; k++ {
			rs = append(rs, "m"+vPick(r, temps)+vPick(r, temps))
		}
		if r.Intn(4) != 0 {
			p := "p" + vPick(r, temps) + vPick(r, temps)
			at := r.Intn(len(rs) + 1)
			rs = append(rs[:at], append([]string{p}, rs[at:]...)...)
		}
		ni := 1 + r.Intn(4)
		for k := 0; k < ni; k++ {
			is = append(is, vPick(r, []string{"ic", "iu", "fc", "fu"}))
		}
		cfg := c02ParseCfg(strings.Join(rs, ","), strings.Join(is, ","))
		nops := 5 + r.Intn(56)
		nattr := 1 + r.Intn(5)
		late := r.Intn(8) == 0 // shutdown-heavy history
		if late {
			gen = "shut"
		}
		var ops [][]string
		for k := 0; k < nops; k++ {
			x := r.Intn(100)
			rd := strconv.Itoa(r.Intn(len(cfg.readers)))
			switch {
			case x < 55:
				j := r.Intn(len(cfg.insts))
				var v int64
				switch r.Intn(6) {
				case 0:
					v = 0
				case 1:
					v = int64(r.Intn(1 << 20))
				default:
					v = int64(r.Intn(100))
				}
				if cfg.insts[j].updown && r.Bool() || r.Intn(40) == 0 {
					v = -v
				}
				ops = append(ops, []string{"add", strconv.Itoa(j), strconv.Itoa(1 + r.Intn(nattr)), strconv.FormatInt(v, 10)})
			case x < 75:
				ops = append(ops, []string{"col", rd})
			case x < 87:
				ops = append(ops, []string{"tick", rd})
			case x < 94:
				ops = append(ops, []string{"flush"})
			case x < 96 || (late && x < 98):
				ops = append(ops, []string{"shut"})
			case x < 98 || late:
				ops = append(ops, []string{"rshut", rd})
			default:
				ops = append(ops, []string{"col", rd})
			}
		}
		run(gen, cfg, ops)
	}
}
