package metric

import (
	"context"
	"fmt"
	"strconv"
	"strings"
	"testing"
	"time"
)

// TestVerifC02Seq: sequential histories against MeterProvider + manual/periodic readers.
//   seq <gen> <readers> <insts>[+cb][+to] | add j a v | col r | tick r | flush | shut | rshut r
//        | collectx r k | collectc r | collectb r | tickx r k | flushx k … => <record> <record> …
// readers: <m|p><d|c><d|c>[<u|c|b|D>] (4th char: the reader's AggregationSelector rejects / drops a sum kind).
// collectx r k: Collect whose context is cancelled (by a hook exemplar reservoir) while instrument k is aggregated;
// collectc r: Collect with an already-cancelled context; collectb r: Collect whose context is cancelled by the
// observable callback (+cb); tickx r k / flushx k: interval export / ForceFlush of a short-timeout periodic reader (+to)
// whose timeout elapses while instrument k is aggregated.
// record = "<op index>:<reader>:<ok|err>;<inst><d|c><m|n>:<attr>=<value>,…;…" for every collection that happened.
func TestVerifC02Seq(t *testing.T) {
	out := vOpen(t)
	defer out.Close()
	c02InstallTicker(t)
	c02InstallErrHandler(t)

	run := func(gen string, cfg c02Cfg, ops [][]string) {
		for _, op := range ops {
			if op[0] == "collectx" || op[0] == "tickx" || op[0] == "flushx" {
				cfg.hooks = true
			}
			if op[0] == "ovltf" || op[0] == "ovlff" || op[0] == "ovlts" {
				cfg.producers = true
			}
		}
		s := c02New(cfg)
		defer s.close()
		// callers wait long enough: only the reader's own timeout (+to) can fire
		ctx, cancelAll := context.WithTimeout(context.Background(), 60*time.Second)
		defer cancelAll()
		status := func(i, r int, st string) {
			s.mu.Lock()
			s.recs = append(s.recs, fmt.Sprintf("%d:%d:%s", i, r, st))
			s.mu.Unlock()
		}
		setHook := func(k int, f func()) func() {
			if k < len(s.hooks) {
				s.hooks[k].set(f)
				return func() { s.hooks[k].set(nil) }
			}
			return func() {}
		}
		atoi := func(x string) int { n, _ := strconv.Atoi(x); return n }
		// overlapped performs `first` (an interval export or a ForceFlush that parks in reader r's external Producer:
		// collected, not yet exported), then Add(j, a, v), then ForceFlush while the first is still parked. ForceFlush is
		// served by the run loop, so on this tree it waits for the first export whatever the load; if it completes while
		// the first is still parked it did not go through the run loop (the records then show the inversion).
		overlapped := func(i, r int, first func(), j, a int, v int64, second func()) {
			g := c02NewGate()
			s.prods[r].set(g)
			s.mu.Lock()
			s.seqStamps = []int{i, i + 2}
			s.mu.Unlock()
			firstDone, secondDone := make(chan struct{}), make(chan struct{})
			go func() { first(); close(firstDone) }()
			select {
			case <-g.parked:
			case <-firstDone: // nothing to park in (should not happen: the reader is alive and has the producer)
			case <-time.After(20 * time.Second):
				status(i, r, "hang")
			}
			if j < len(s.adders) {
				s.adders[j](a, v)
			}
			go func() { second(); close(secondDone) }()
			select {
			case <-secondDone:
			case <-time.After(2 * time.Millisecond):
			}
			close(g.release)
			<-firstDone
			<-secondDone
			s.prods[r].set(nil)
			s.mu.Lock()
			s.seqStamps = nil
			s.mu.Unlock()
		}
		i := -1
		for _, op := range ops {
			i++ // index in the EXPANDED history (ovltf / ovlff / ovlts count as three operations: first, add, flush / shutdown)
			s.mu.Lock()
			s.stamp = i
			s.mu.Unlock()
			switch op[0] {
			case "ovlms":
				// ManualReader r: a Collect that has loaded the registered producer and is parked in an observable callback
				// (inside pipeline.produce, BEFORE the aggregation); Add; Reader.Shutdown — it returns nil at once, it does not
				// wait for the collection in flight (ManualLts.lean: load c, shutdown, produce c); released, the Collect
				// completes and carries the Add: the history add, col r, rshut r.
				r, j, a := atoi(op[1]), atoi(op[2]), atoi(op[3])
				v, _ := strconv.ParseInt(op[4], 10, 64)
				if r < len(s.readers) && s.ticks[r] == nil && !s.down[r] && cfg.cb {
					g := c02NewGate()
					s.cbHook.set(func() { close(g.parked); <-g.release })
					done := make(chan struct{})
					go func() { s.collect(i+1, r); close(done) }()
					parked := false
					select {
					case <-g.parked:
						parked = true
					case <-done:
					case <-time.After(20 * time.Second):
						status(i+1, r, "hang")
					}
					if j < len(s.adders) {
						s.adders[j](a, v)
					}
					if parked {
						if err := s.readers[r].Shutdown(ctx); err != nil {
							status(i+2, r, "shutdown-err")
						}
						close(g.release)
					}
					<-done
					s.cbHook.set(nil)
					if !parked {
						_ = s.readers[r].Shutdown(ctx)
					}
					s.down[r] = true
				} else {
					if j < len(s.adders) {
						s.adders[j](a, v)
					}
					if r < len(s.readers) {
						s.collect(i+1, r)
						_ = s.readers[r].Shutdown(ctx)
						s.down[r] = true
					}
				}
				i += 2
			case "ovlts":
				// Shutdown of periodic reader r started while its interval export is parked between collecting and exporting
				// (fine-grained reader LTS: Shutdown waits for the run loop, `<-r.done`, before its final collect): on this
				// tree the interval export is delivered first, then the final one — the history tick r, add, rshut r.
				r, j, a := atoi(op[1]), atoi(op[2]), atoi(op[3])
				v, _ := strconv.ParseInt(op[4], 10, 64)
				if r < len(s.readers) && s.ticks[r] != nil && !s.down[r] && s.prods[r] != nil {
					overlapped(i, r, func() {
						if st := s.tickStatus(r); st != "ok" {
							status(i, r, st)
						}
					}, j, a, v, func() { _ = s.readers[r].Shutdown(ctx) })
					s.down[r] = true
				} else {
					if r < len(s.readers) && s.ticks[r] != nil && !s.down[r] {
						if st := s.tickStatus(r); st != "ok" {
							status(i, r, st)
						}
					}
					if j < len(s.adders) {
						s.adders[j](a, v)
					}
					s.mu.Lock()
					s.stamp = i + 2
					s.mu.Unlock()
					if r < len(s.readers) {
						_ = s.readers[r].Shutdown(ctx)
						s.down[r] = true
					}
				}
				i += 2
			case "ovltf", "ovlff":
				r, j, a := atoi(op[1]), atoi(op[2]), atoi(op[3])
				v, _ := strconv.ParseInt(op[4], 10, 64)
				alive := r < len(s.readers) && s.ticks[r] != nil && !s.down[r] && s.prods[r] != nil
				switch {
				case alive && op[0] == "ovltf":
					overlapped(i, r, func() {
						if st := s.tickStatus(r); st != "ok" {
							status(i, r, st)
						}
					}, j, a, v, func() { _ = s.mp.ForceFlush(ctx) })
				case alive:
					overlapped(i, r, func() { _ = s.mp.ForceFlush(ctx) }, j, a, v, func() { _ = s.mp.ForceFlush(ctx) })
				default:
					// not applicable: the same operations one after the other
					if op[0] == "ovltf" {
						if r < len(s.readers) && s.ticks[r] != nil && !s.down[r] {
							if st := s.tickStatus(r); st != "ok" {
								status(i, r, st)
							}
						}
					} else {
						_ = s.mp.ForceFlush(ctx)
					}
					if j < len(s.adders) {
						s.adders[j](a, v)
					}
					s.mu.Lock()
					s.stamp = i + 2
					s.mu.Unlock()
					_ = s.mp.ForceFlush(ctx)
				}
				i += 2
			case "shutslow":
				// Shutdown with the caller's OWN generous deadline (ctx: 60 s) against an exporter that is slower than the
				// reader's timeout (+to: 40 ms): the caller's deadline has priority, so the final payload is exported. The
				// gated exporter gives up only when ITS context ends; the pause below makes it "slow", it does not decide
				// the verdict on this tree (the context it gets lives for 60 s).
				var g *c02Gate
				for r := range s.readers {
					if s.exps[r] != nil && !s.down[r] && cfg.to && g == nil {
						g = c02NewGate()
						s.mu.Lock()
						s.exps[r].gate = g
						s.mu.Unlock()
					}
				}
				done := make(chan struct{})
				go func() { _ = s.mp.Shutdown(ctx); close(done) }()
				if g != nil {
					select {
					case <-g.parked:
						select {
						case <-done: // the exporter's context ended before the release
						case <-time.After(2*c02ShortTimeout + 20*time.Millisecond):
						}
						close(g.release)
					case <-done:
					}
				}
				<-done
				for r := range s.down {
					s.down[r] = true
				}
			case "add":
				v, _ := strconv.ParseInt(op[3], 10, 64)
				if j := atoi(op[1]); j < len(s.adders) {
					s.adders[j](atoi(op[2]), v)
				}
			case "col":
				if r := atoi(op[1]); r < len(s.readers) {
					s.collect(i, r)
				}
			case "collectx":
				if r := atoi(op[1]); r < len(s.readers) {
					cctx, cancel := context.WithCancel(context.Background())
					clear := setHook(atoi(op[2]), cancel)
					s.collectCtx(cctx, i, r)
					clear()
					cancel()
				}
			case "collectc":
				if r := atoi(op[1]); r < len(s.readers) {
					cctx, cancel := context.WithCancel(context.Background())
					cancel()
					s.collectCtx(cctx, i, r)
				}
			case "collectb":
				if r := atoi(op[1]); r < len(s.readers) {
					cctx, cancel := context.WithCancel(context.Background())
					s.cbHook.set(cancel)
					s.collectCtx(cctx, i, r)
					s.cbHook.set(nil)
					cancel()
				}
			case "tick", "tickx":
				if r := atoi(op[1]); r < len(s.readers) && s.ticks[r] != nil && !s.down[r] {
					clear := func() {}
					if op[0] == "tickx" && cfg.to {
						clear = setHook(atoi(op[2]), func() { time.Sleep(2*c02ShortTimeout + 10*time.Millisecond) })
					}
					if st := s.tickStatus(r); st != "ok" {
						status(i, r, st)
					}
					clear()
				}
			case "flushx":
				clear := func() {}
				if cfg.to {
					clear = setHook(atoi(op[1]), func() { time.Sleep(2*c02ShortTimeout + 10*time.Millisecond) })
				}
				_ = s.mp.ForceFlush(ctx)
				clear()
			case "flush":
				_ = s.mp.ForceFlush(ctx)
			case "shut":
				_ = s.mp.Shutdown(ctx)
				for r := range s.down {
					s.down[r] = true
				}
			case "rshut":
				if r := atoi(op[1]); r < len(s.readers) {
					_ = s.readers[r].Shutdown(ctx)
					s.down[r] = true
				}
			}
			s.drainSignals()
		}
		var sb strings.Builder
		for _, op := range ops {
			sb.WriteString(" | " + strings.Join(op, " "))
		}
		s.mu.Lock()
		recs := strings.Join(s.recs, " ")
		s.stamp = -1
		s.mu.Unlock()
		out.Line("seq %s %s%s => %s", gen, cfg.String(), sb.String(), recs)
	}

	if rp := vReplayLines(); rp != nil {
		for _, f := range rp {
			if f[0] != "seq" || len(f) < 4 {
				continue
			}
			var ops [][]string
			var cur []string
			for _, tk := range f[4:] {
				if tk == "|" {
					if cur != nil {
						ops = append(ops, cur)
					}
					cur = nil
					continue
				}
				cur = append(cur, tk)
			}
			if cur != nil {
				ops = append(ops, cur)
			}
			run(f[1], c02ParseCfg(f[2], f[3]), ops)
		}
		return
	}

	r := &vRand{s: vSeed()}
	n := vN(2000)

	if os_exhaustive() {
		// all histories of length <= 5 over 8 symbols: 2 instruments x 2 attribute sets, 2 manual readers, a periodic one
		cfg := c02ParseCfg("mdd,mcc,pdc", "ic,iu")
		alpha := [][]string{{"add", "0", "1", "1"}, {"add", "0", "2", "2"}, {"add", "1", "1", "-4"}, {"add", "1", "2", "8"},
			{"col", "0"}, {"col", "1"}, {"tick", "2"}, {"shut"}}
		var rec func(prefix [][]string, depth int)
		rec = func(prefix [][]string, depth int) {
			if len(prefix) > 0 {
				run("exh", cfg, prefix)
			}
			if depth == 5 {
				return
			}
			for _, a := range alpha {
				rec(append(append([][]string{}, prefix...), a), depth+1)
			}
		}
		rec(nil, 0)
	}

	if os_exhaustive() {
		// all histories of length <= 4 over 8 symbols with a rejecting reader registered FIRST, cancelled collections
		// and an observable callback
		cfg := c02ParseCfg("mddu,mdd,pdc", "ic,iu+cb")
		alpha := [][]string{{"add", "0", "1", "1"}, {"add", "1", "1", "-4"}, {"col", "1"}, {"collectx", "1", "0"},
			{"collectc", "1"}, {"tick", "2"}, {"collectx", "2", "0"}, {"col", "0"}}
		tail := [][]string{{"col", "0"}, {"col", "1"}, {"col", "2"}}
		var rec func(prefix [][]string, depth int)
		rec = func(prefix [][]string, depth int) {
			if len(prefix) > 0 {
				run("exh2", cfg, append(append([][]string{}, prefix...), tail...))
			}
			if depth == 4 {
				return
			}
			for _, a := range alpha {
				rec(append(append([][]string{}, prefix...), a), depth+1)
			}
		}
		rec(nil, 0)
	}

	// forced scripts: a FIXED number in every run, whatever the seed (seeded C02-3 / C02-7 / C02-8)
	{
		nForced, nSlow := 40, 10
		if os_exhaustive() {
			nForced, nSlow = 200, 30
		}
		if n < 200 {
			nForced, nSlow = n/5, n/20
		}
		kinds := []string{"ic", "fc", "iu", "fu"}
		for c := 0; c < nForced; c++ {
			// a periodic reader (mostly cumulative: an inverted export order then shows as a decreasing total) among 0-2 manual ones
			rs := []string{vPick(r, []string{"pcc", "pcc", "pcc", "pcd", "pdc", "pdd"})}
			for k := r.Intn(3); k > 0; k-- {
				m := "m" + vPick(r, []string{"d", "c"}) + vPick(r, []string{"d", "c"})
				if r.Bool() {
					rs = append(rs, m)
				} else {
					rs = append([]string{m}, rs...)
				}
			}
			pr := 0
			for k, x := range rs {
				if x[0] == 'p' {
					pr = k
				}
			}
			var is []string
			for k := 1 + r.Intn(3); k > 0; k-- {
				is = append(is, vPick(r, kinds))
			}
			cfg := c02ParseCfg(strings.Join(rs, ","), strings.Join(is, ","))
			add := func() []string {
				return []string{"add", strconv.Itoa(r.Intn(len(is))), strconv.Itoa(1 + r.Intn(2)), strconv.Itoa(1 + r.Intn(200))}
			}
			var ops [][]string
			for k := 2 + r.Intn(4); k > 0; k-- {
				ops = append(ops, add())
			}
			for k := 2 + r.Intn(4); k > 0; k-- {
				a := add()
				ops = append(ops, []string{vPick(r, []string{"ovltf", "ovlff"}), strconv.Itoa(pr), a[1], a[2], a[3]})
				switch r.Intn(4) {
				case 0:
					ops = append(ops, add())
				case 1:
					ops = append(ops, []string{"tick", strconv.Itoa(pr)})
				case 2:
					ops = append(ops, []string{"col", strconv.Itoa(r.Intn(len(rs)))})
				}
			}
			if c%3 == 1 {
				// Shutdown of a ManualReader while one of its collections is in flight (parked in an observable callback)
				for k, x := range rs {
					if x[0] == 'm' {
						a := add()
						cfg.cb = true
						ops = append(ops, []string{"ovlms", strconv.Itoa(k), a[1], a[2], a[3]})
						break
					}
				}
			}
			if c%3 == 0 {
				// Shutdown of the periodic reader overlapping its own interval export
				a := add()
				ops = append(ops, []string{"ovlts", strconv.Itoa(pr), a[1], a[2], a[3]})
			}
			for k := range rs {
				ops = append(ops, []string{"col", strconv.Itoa(k)})
			}
			run("forced", cfg, ops)
		}
		for c := 0; c < nSlow; c++ {
			rs := []string{vPick(r, []string{"pdd", "pcc", "pdc"})}
			if r.Bool() {
				rs = append(rs, "m"+vPick(r, []string{"d", "c"})+vPick(r, []string{"d", "c"}))
			}
			var is []string
			for k := 1 + r.Intn(2); k > 0; k-- {
				is = append(is, vPick(r, kinds))
			}
			cfg := c02ParseCfg(strings.Join(rs, ","), strings.Join(is, ",")+"+to")
			var ops [][]string
			for k := 2 + r.Intn(4); k > 0; k-- {
				ops = append(ops, []string{"add", strconv.Itoa(r.Intn(len(is))), strconv.Itoa(1 + r.Intn(2)), strconv.Itoa(1 + r.Intn(200))})
				if r.Intn(3) == 0 {
					ops = append(ops, []string{"tick", "0"})
				}
			}
			ops = append(ops, []string{"shutslow"})
			for k := range rs {
				ops = append(ops, []string{"col", strconv.Itoa(k)})
			}
			run("shutslow", cfg, ops)
		}
	}

	temps := []string{"d", "c"}
	rejs := []string{"u", "c", "b", "D"}
	for i := 0; i < n; i++ {
		gen := "rnd"
		var rs, is []string
		nr := 1 + r.Intn(3)
		for k := 0; k < nr; k++ {
			rs = append(rs, "m"+vPick(r, temps)+vPick(r, temps))
		}
		hasP := r.Intn(4) != 0
		if hasP {
			p := "p" + vPick(r, temps) + vPick(r, temps)
			at := r.Intn(len(rs) + 1)
			rs = append(rs[:at], append([]string{p}, rs[at:]...)...)
		}
		// rejecting / dropping readers before, between and after the normal ones
		if r.Intn(3) == 0 {
			gen = "rej"
			for k := range rs {
				if r.Intn(3) == 0 {
					rs[k] += vPick(r, rejs)
				}
			}
			if r.Bool() {
				x := "m" + vPick(r, temps) + vPick(r, temps) + vPick(r, rejs)
				at := r.Intn(len(rs) + 1)
				if r.Intn(3) == 0 {
					at = 0
				}
				rs = append(rs[:at], append([]string{x}, rs[at:]...)...)
			}
		}
		ni := 1 + r.Intn(4)
		for k := 0; k < ni; k++ {
			is = append(is, vPick(r, []string{"ic", "iu", "fc", "fu"}))
		}
		// duplicate registration: instruments created with the NAME of an earlier one (same meter) — with another kind
		// or number type (own stream, equal names) or identically (the cached instrument: one shared stream)
		if r.Intn(4) == 0 {
			gen = "dup"
			for k := 1; k < ni; k++ {
				if r.Intn(2) == 0 {
					root := r.Intn(k)
					if !strings.Contains(is[root], "#") {
						is[k] += "#" + strconv.Itoa(root)
					}
				}
			}
		}
		flags := ""
		withCb := r.Intn(4) == 0
		withTo := !withCb && hasP && r.Intn(50*max(1, n/5000)) == 0 // ~50 short-timeout histories per run (each costs ~0.1-0.3 s)
		if withCb {
			flags += "+cb"
		}
		if withTo {
			flags += "+to"
			gen = "timeout"
		}
		cfg := c02ParseCfg(strings.Join(rs, ","), strings.Join(is, ",")+flags)
		nops := 5 + r.Intn(56)
		nattr := 1 + r.Intn(5)
		late := !withTo && r.Intn(8) == 0 // shutdown-heavy history
		if late {
			gen = "shut"
		}
		var ops [][]string
		nx := 0
		for k := 0; k < nops; k++ {
			x := r.Intn(100)
			rd := strconv.Itoa(r.Intn(len(cfg.readers)))
			ki := strconv.Itoa(r.Intn(len(cfg.insts)))
			switch {
			case x < 52:
				j := r.Intn(len(cfg.insts))
				var v int64
				switch r.Intn(6) {
				case 0:
					v = 0
				case 1:
					v = int64(r.Intn(1 << 20))
				default:
					v = int64(r.Intn(100))
				}
				if cfg.insts[j].updown && r.Bool() || r.Intn(40) == 0 {
					v = -v
				}
				ops = append(ops, []string{"add", strconv.Itoa(j), strconv.Itoa(1 + r.Intn(nattr)), strconv.FormatInt(v, 10)})
			case x < 66:
				ops = append(ops, []string{"col", rd})
			case x < 73:
				ops = append(ops, []string{"collectx", rd, ki})
			case x < 76:
				ops = append(ops, []string{"collectc", rd})
			case x < 78:
				ops = append(ops, []string{"collectb", rd})
			case x < 88:
				if withTo && nx < 3 && r.Intn(3) == 0 {
					nx++
					if r.Bool() {
						ops = append(ops, []string{"tickx", rd, ki})
					} else {
						ops = append(ops, []string{"flushx", ki})
					}
				} else {
					ops = append(ops, []string{"tick", rd})
				}
			case x < 95:
				ops = append(ops, []string{"flush"})
			case late && x < 98:
				ops = append(ops, []string{"shut"})
			case late:
				ops = append(ops, []string{"rshut", rd})
			default:
				ops = append(ops, []string{"col", rd})
			}
		}
		// every history ends with one undisturbed collection per reader, so that nothing stays hidden as "pending"
		for k := range cfg.readers {
			ops = append(ops, []string{"col", strconv.Itoa(k)})
		}
		run(gen, cfg, ops)
	}
}
