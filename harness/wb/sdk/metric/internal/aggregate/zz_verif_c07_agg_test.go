package aggregate

import (
	"context"
	"fmt"
	"math"
	"math/big"
	"strconv"
	"strings"
	"testing"

	"go.opentelemetry.io/otel/attribute"
	"go.opentelemetry.io/otel/sdk/metric/metricdata"
)

// TestVerifC07Agg: correspondence lines for the explicit-bucket and the base-2 exponential histogram.
//
//	hist <gen> <f|i> <shift> <bounds,> | <values,> => <P|N> <sorted bounds,> <counts,> <count> <sum> <min> <max>
//	  every number is an integer on the common dyadic scale 2^-shift (float value = k * 2^-shift), so that all
//	  float arithmetic of the implementation is exact.
//	expo <gen> <maxSize> <maxScale> | <f bits>... => <P|N> <scale> <posOff> <pos,> <negOff> <neg,> <zero> <count>
//	  <min bits> <max bits> <sum bits> | <one token per value>
//	  token: n (NaN/Inf ignored) | z (zero) | sb:ib:sa:ia:r  = scale before, getBin at sb, scale after, getBin at
//	  sa (the indices the implementation itself computes), r=1 iff the count moved.
//	coll <gen> <d|c> <maxSize> <maxScale> <limit> <noMinMax 0|1> <noSum 0|1> | <op>... => <C <n> <point>*n>... | <token per m op>
//	  one aggregator (delta or cumulative) with several attribute sets, collected several times into ONE re-used
//	  metricdata.Aggregation (as pipeline.produce does). op: <attr>:f<bits> (measure) | c (collect) | n (a new
//	  aggregator with the same configuration takes over the destination). point (in destination slot order):
//	  <attr> <scale> <posOff> <pos,> <negOff> <neg,> <zero> <count> <min bits|-> <max bits|-> <sum bits>;
//	  attr 0 = the overflow attribute set of the cardinality limiter. After a collection has been logged, every
//	  slice of every collected point is overwritten with garbage up to its capacity (a consumer may do what it
//	  likes with collected data): later collections must not change.
//	hcoll <gen> <f|i> <d|c> <limit> <bounds,> <noMinMax><noSum> | <op>... => <C <n> <point>*n>...
//	  the same for the explicit-bucket histogram (integer values and boundaries). op: <attr>:<value> | c |
//	  n:<noMinMax><noSum> (a new aggregator with other flags takes over the destination).
//	  point: <attr> <bounds,> <counts,> <count> <sum> <min|-> <max|->
func TestVerifC07Agg(t *testing.T) {
	out := vOpen(t)
	defer out.Close()
	if rp := vReplayLines(); rp != nil {
		for _, f := range rp {
			c07Replay(out, f)
		}
		return
	}
	r := &vRand{s: vSeed()}
	n := vN(3000)
	if os_exhaustive() {
		c07Exhaustive(out)
	}
	for i := 0; i < n; i++ {
		switch r.Intn(20) {
		case 0, 1, 2:
			if r.Intn(8) == 0 {
				c07GenHistI64(out, r)
			} else {
				c07GenHist(out, r)
			}
		case 3, 4, 5, 6:
			c07GenColl(out, r)
		case 7, 8:
			c07GenHColl(out, r)
		default:
			c07GenExpo(out, r)
		}
	}
}

func c07Replay(out *vOut, f []string) {
	defer func() {
		if e := recover(); e != nil {
			out.Line("%s => panic", strings.Join(f, " "))
		}
	}()
	switch f[0] {
	case "expo":
		ms, _ := strconv.Atoi(f[2])
		sc, _ := strconv.Atoi(f[3])
		bits := []uint64{}
		for _, s := range f[5:] {
			b, err := strconv.ParseUint(strings.TrimPrefix(s, "f"), 16, 64)
			if err != nil {
				panic(err)
			}
			bits = append(bits, b)
		}
		c07RunExpo(out, f[1], int32(ms), int32(sc), bits)
	case "coll":
		c07ReplayColl(out, f)
	case "hcoll":
		c07ReplayHColl(out, f)
	case "hist":
		shift, _ := strconv.Atoi(f[3])
		var vals []int64
		if len(f) > 6 {
			vals = c07ParseCsv(f[6])
		}
		c07RunHist(out, f[1], f[2], shift, c07ParseCsv(f[4]), vals)
	}
}

func c07ParseCsv(s string) []int64 {
	if s == "-" || s == "" {
		return nil
	}
	var r []int64
	for _, p := range strings.Split(s, ",") {
		v, err := strconv.ParseInt(p, 10, 64)
		if err != nil {
			panic(err)
		}
		r = append(r, v)
	}
	return r
}

func c07Csv[T int64 | uint64](xs []T) string {
	if len(xs) == 0 {
		return "-"
	}
	var sb strings.Builder
	for i, x := range xs {
		if i > 0 {
			sb.WriteByte(',')
		}
		fmt.Fprintf(&sb, "%d", x)
	}
	return sb.String()
}

// ---------------------------------------------------------------- explicit buckets

// c07Int renders a float that must be an exact integer (after scaling); anything else is printed as bits so
// that the driver reports the line as unparsed.
func c07Int(x float64) string {
	if x != math.Trunc(x) || math.Abs(x) > 1<<62 {
		return fmt.Sprintf("f%016x", math.Float64bits(x))
	}
	return strconv.FormatFloat(x, 'f', 0, 64)
}

func c07RunHist(out *vOut, gen, kind string, shift int, bounds, vals []int64) {
	fb := make([]float64, len(bounds))
	for i, b := range bounds {
		fb[i] = math.Ldexp(float64(b), -shift)
	}
	in := fmt.Sprintf("hist %s %s %d %s | %s", gen, kind, shift, c07Csv(bounds), c07Csv(vals))
	ctx := context.Background()
	var dest metricdata.Aggregation
	if kind == "i" {
		h := newHistogram[int64](fb, false, false, 0, dropReservoir[int64])
		for _, v := range vals {
			h.measure(ctx, v>>uint(shift), attribute.NewSet(), nil)
		}
		var n int
		if len(vals)%2 == 0 {
			n = h.cumulative(&dest)
		} else {
			n = h.delta(&dest)
		}
		if n == 0 {
			sb := make([]string, len(h.bounds))
			for i, b := range h.bounds {
				sb[i] = c07Int(math.Ldexp(b, shift))
			}
			out.Line("%s => N %s - 0 0 0 0", in, c07Join(sb))
			return
		}
		dp := dest.(metricdata.Histogram[int64]).DataPoints[0]
		sb := make([]string, len(dp.Bounds))
		for i, b := range dp.Bounds {
			sb[i] = c07Int(math.Ldexp(b, shift))
		}
		mn, _ := dp.Min.Value()
		mx, _ := dp.Max.Value()
		out.Line("%s => P %s %s %d %d %d %d", in, c07Join(sb), c07Csv(dp.BucketCounts), dp.Count,
			dp.Sum<<uint(shift), mn<<uint(shift), mx<<uint(shift))
		return
	}
	h := newHistogram[float64](fb, false, false, 0, dropReservoir[float64])
	for _, v := range vals {
		h.measure(ctx, math.Ldexp(float64(v), -shift), attribute.NewSet(), nil)
	}
	var n int
	if len(vals)%2 == 0 {
		n = h.cumulative(&dest)
	} else {
		n = h.delta(&dest)
	}
	if n == 0 {
		sb := make([]string, len(h.bounds))
		for i, b := range h.bounds {
			sb[i] = c07Int(math.Ldexp(b, shift))
		}
		out.Line("%s => N %s - 0 0 0 0", in, c07Join(sb))
		return
	}
	dp := dest.(metricdata.Histogram[float64]).DataPoints[0]
	sb := make([]string, len(dp.Bounds))
	for i, b := range dp.Bounds {
		sb[i] = c07Int(math.Ldexp(b, shift))
	}
	mn, _ := dp.Min.Value()
	mx, _ := dp.Max.Value()
	out.Line("%s => P %s %s %d %s %s %s", in, c07Join(sb), c07Csv(dp.BucketCounts), dp.Count,
		c07Int(math.Ldexp(dp.Sum, shift)), c07Int(math.Ldexp(mn, shift)), c07Int(math.Ldexp(mx, shift)))
}

func c07Join(s []string) string {
	if len(s) == 0 {
		return "-"
	}
	return strings.Join(s, ",")
}

func c07GenHist(out *vOut, r *vRand) {
	shift := vPick(r, []int{0, 0, 1, 3, 10})
	kind := "f"
	if r.Intn(3) == 0 {
		kind = "i"
	}
	nb := vPick(r, []int{0, 1, 2, 3, 5, 8, 12})
	span := int64(vPick(r, []int{4, 20, 1000, 1 << 30}))
	bounds := make([]int64, 0, nb)
	gen := "sorted"
	cur := -span/2 + int64(r.Intn(int(span)))
	for i := 0; i < nb; i++ {
		bounds = append(bounds, cur)
		cur += 1 + int64(r.Intn(int(span)))
	}
	switch r.Intn(8) {
	case 0: // unsorted input: newHistValues sorts its copy
		gen = "unsorted"
		for i := range bounds {
			j := r.Intn(i + 1)
			bounds[i], bounds[j] = bounds[j], bounds[i]
		}
	case 1: // duplicates (not accepted by the public validation, but newHistValues takes them)
		if nb > 1 {
			gen = "dup"
			bounds[r.Intn(nb)] = bounds[r.Intn(nb)]
		}
	}
	nv := vPick(r, []int{0, 1, 2, 3, 8, 30, 60})
	vals := make([]int64, 0, nv)
	for i := 0; i < nv; i++ {
		var v int64
		switch {
		case nb > 0 && r.Intn(2) == 0: // on / next to a boundary
			v = bounds[r.Intn(nb)] + int64(r.Intn(3)) - 1
		case kind == "i" && shift == 0 && nv <= 8 && r.Intn(3) == 0:
			// int64 values that are not binary64 numbers (the sum is an int64, the bucket search rounds); far
			// from every boundary, and few enough for the exact sum to stay an int64
			v = vPick(r, []int64{1<<53 + 1, 1<<53 - 1, -(1<<53 + 3), 1<<59 + 1, -(1<<58 + 5), 1<<56 + 127, 3<<55 + 1})
		case r.Intn(8) == 0:
			v = vPick(r, []int64{0, 1, -1, 1 << 40, -(1 << 40)})
		default:
			v = -2*span + int64(r.Intn(int(4*span+1)))*int64(1+r.Intn(nb+1))
		}
		if kind == "i" { // the int64 instrument can only measure whole numbers
			v = (v >> uint(shift)) << uint(shift)
		}
		vals = append(vals, v)
	}
	c07RunHist(out, gen, kind, shift, bounds, vals)
}

// ---------------------------------------------------------------- exponential

func c07RunExpo(out *vOut, gen string, maxSize, maxScale int32, bits []uint64) {
	h := newExponentialHistogram[float64](maxSize, maxScale, false, false, 0, dropReservoir[float64])
	scratch := newExpoHistogramDataPoint[float64](attribute.NewSet(), int(maxSize), maxScale, false, false)
	ctx := context.Background()
	attrs := attribute.NewSet()
	state := func() (int32, uint64) {
		for _, p := range h.values {
			return p.scale, p.count
		}
		return maxScale, 0
	}
	toks := make([]string, len(bits))
	var in strings.Builder
	fmt.Fprintf(&in, "expo %s %d %d |", gen, maxSize, maxScale)
	for k, b := range bits {
		fmt.Fprintf(&in, " f%016x", b)
		v := math.Float64frombits(b)
		sb, cb := state()
		h.measure(ctx, v, attrs, nil)
		sa, ca := state()
		switch {
		case math.IsNaN(v) || math.IsInf(v, 0):
			if ca != cb || sa != sb {
				toks[k] = "x" // a non-finite value had an effect: not parseable on purpose
			} else {
				toks[k] = "n"
			}
		case v == 0:
			toks[k] = "z"
		default:
			a := math.Abs(v)
			scratch.scale = sb
			ib := scratch.getBin(a)
			scratch.scale = sa
			ia := scratch.getBin(a)
			rec := 0
			if ca > cb {
				rec = 1
			}
			toks[k] = fmt.Sprintf("%d:%d:%d:%d:%d", sb, ib, sa, ia, rec)
		}
	}
	var dest metricdata.Aggregation
	var n int
	if len(bits)%2 == 0 {
		n = h.cumulative(&dest)
	} else {
		n = h.delta(&dest)
	}
	if n == 0 {
		out.Line("%s => N %d 0 - 0 - 0 0 f%016x f%016x f%016x | %s", in.String(), maxScale,
			math.Float64bits(math.MaxFloat64), math.Float64bits(-math.MaxFloat64), 0, strings.Join(toks, " "))
		return
	}
	dp := dest.(metricdata.ExponentialHistogram[float64]).DataPoints[0]
	mn, _ := dp.Min.Value()
	mx, _ := dp.Max.Value()
	out.Line("%s => P %d %d %s %d %s %d %d f%016x f%016x f%016x | %s", in.String(), dp.Scale,
		dp.PositiveBucket.Offset, c07Csv(dp.PositiveBucket.Counts), dp.NegativeBucket.Offset, c07Csv(dp.NegativeBucket.Counts),
		dp.ZeroCount, dp.Count, math.Float64bits(mn), math.Float64bits(mx), math.Float64bits(dp.Sum),
		strings.Join(toks, " "))
}

const c07Prec = 320

// c07Roots[k] = 2^(2^-k), 320-bit
var c07Roots []*big.Float

func c07Init() {
	if c07Roots != nil {
		return
	}
	x := new(big.Float).SetPrec(c07Prec).SetInt64(2)
	c07Roots = append(c07Roots, x)
	for k := 1; k <= 20; k++ {
		x = new(big.Float).SetPrec(c07Prec).Sqrt(x)
		c07Roots = append(c07Roots, x)
	}
}

// c07Boundary returns the float64 nearest to base^i = 2^(i/2^s) (s >= 0), 0 if out of range.
func c07Boundary(i int64, s int) float64 {
	c07Init()
	n := int64(1) << uint(s)
	q := i >> uint(s)
	rem := i - q*n
	res := new(big.Float).SetPrec(c07Prec).SetInt64(1)
	for k := 1; k <= s; k++ {
		if rem&(int64(1)<<uint(s-k)) != 0 {
			res.Mul(res, c07Roots[k])
		}
	}
	if q > 1022 || q < -1070 {
		return 0
	}
	res.SetMantExp(res, int(q))
	f, _ := res.Float64()
	return f
}

// c07Ulp moves the (positive, finite, non-zero) float by d ulps, staying positive and finite.
func c07Ulp(f float64, d int) uint64 {
	b := int64(math.Float64bits(f)) + int64(d)
	if b < 1 {
		b = 1
	}
	if b > 0x7fefffffffffffff {
		b = 0x7fefffffffffffff
	}
	return uint64(b)
}

var c07Special = []uint64{
	0x0000000000000000, 0x8000000000000000, // +0 -0
	0x0000000000000001, 0x0000000000000002, 0x0000000000000003, 0x000fffffffffffff, // subnormals
	0x0010000000000000, 0x0010000000000001, 0x000ffffffffffffe, // smallest normal and neighbours
	0x7fefffffffffffff, 0x7feffffffffffffe, 0x7fe0000000000000, // max, max-1ulp, 2^1023
	0x3ff0000000000000, 0x3ff0000000000001, 0x3fefffffffffffff, 0x4000000000000000, 0x3fe0000000000000,
	0x7ff0000000000000, 0xfff0000000000000, 0x7ff8000000000001, 0xfff8000000000000, // +Inf -Inf NaN NaN
	0x3ff5342b569d4f82, // F14 witness at scale 5 (impl 12, exact 13)
	0x4008000000000000, 0x3ff8000000000000,
}

func c07Sign(r *vRand, b uint64, pNeg int) uint64 {
	if pNeg > 0 && r.Intn(pNeg) == 0 {
		return b | 1<<63
	}
	return b
}

func c07Scale(r *vRand) int32 {
	switch r.Intn(6) {
	case 0:
		return 20
	case 1:
		return int32(vPick(r, []int{0, 0, 1, -1, -10, -9, 5}))
	case 2:
		return int32(15 + r.Intn(6))
	default:
		return int32(r.Intn(31) - 10)
	}
}

func c07Size(r *vRand) int32 {
	return int32(vPick(r, []int{1, 1, 2, 2, 3, 4, 5, 8, 16, 20, 160}))
}

func c07GenExpo(out *vOut, r *vRand) {
	var bits []uint64
	var gen string
	maxSize, maxScale := c07Size(r), c07Scale(r)
	nv := vPick(r, []int{0, 1, 2, 3, 4, 6, 10, 16, 24, 40})
	switch r.Intn(11) {
	case 0, 1, 2: // neighbours of bucket boundaries base^i at a positive scale
		gen = "bnd"
		s := 1 + r.Intn(14)
		if r.Intn(4) == 0 {
			s = 15 + r.Intn(6)
		}
		maxScale = int32(s)
		n := int64(1) << uint(s)
		var c int64
		switch r.Intn(4) {
		case 0:
			c = int64(r.Intn(int(4*n))) - 2*n
		case 1:
			c = (int64(r.Intn(2000)) - 1000) * n
		default:
			c = (int64(r.Intn(600)) - 300) * n / 8
		}
		w := int64(vPick(r, []int{1, 2, 4, 32, 200}))
		even := r.Intn(3) == 0 // boundaries that stay boundaries after downscaling
		for i := 0; i < nv+2; i++ {
			idx := c + int64(r.Intn(int(2*w+1))) - w
			if even {
				idx &^= int64(1)<<uint(1+r.Intn(3)) - 1
			}
			f := c07Boundary(idx, s)
			if f == 0 {
				continue
			}
			bits = append(bits, c07Sign(r, c07Ulp(f, r.Intn(5)-2), 6))
		}
	case 10: // a full window, then a neighbour of a boundary that is also a boundary one scale down
		gen = "incoh"
		s := 1 + r.Intn(14)
		maxScale = int32(s)
		maxSize = int32(1 + r.Intn(2))
		n := int64(1) << uint(s)
		idx := (int64(r.Intn(int(40*n))) - 20*n) &^ 1
		side := int64(1)
		if r.Bool() {
			side = -2
		}
		lo, hi := c07Boundary(idx+side, s), c07Boundary(idx+side+1, s)
		if f := c07Boundary(idx, s); lo != 0 && hi != 0 && f != 0 {
			bits = append(bits, math.Float64bits((lo+hi)/2))
			for i := 0; i <= nv%3; i++ {
				bits = append(bits, c07Ulp(f, r.Intn(5)-2))
			}
		}
	case 3, 4: // powers of two and their IEEE neighbours
		gen = "pow2"
		e0 := r.Intn(2098) - 1074
		w := vPick(r, []int{1, 2, 8, 40, 400, 2100})
		for i := 0; i < nv; i++ {
			e := e0 + r.Intn(w) - w/2
			if e < -1074 {
				e = -1074
			}
			if e > 1023 {
				e = 1023
			}
			bits = append(bits, c07Sign(r, c07Ulp(math.Ldexp(1, e), r.Intn(5)-2), 5))
		}
	case 5: // special values
		gen = "special"
		for i := 0; i < nv; i++ {
			bits = append(bits, vPick(r, c07Special))
		}
	case 6: // dense cluster growing to the left / right
		gen = "dense"
		x := math.Ldexp(1+float64(r.Intn(1000))/1000, r.Intn(60)-30)
		ratio := 1 + math.Ldexp(float64(1+r.Intn(64)), -vPick(r, []int{3, 6, 10, 16}))
		if r.Bool() {
			ratio = 1 / ratio
		}
		for i := 0; i < nv; i++ {
			bits = append(bits, c07Sign(r, math.Float64bits(x), 8))
			if r.Intn(4) != 0 {
				x *= ratio
			}
		}
	case 7: // huge dynamic range with tiny maxSize: multi-step downscale and the underflow branch
		gen = "range"
		maxSize = int32(vPick(r, []int{1, 1, 2, 2, 3}))
		for i := 0; i < nv; i++ {
			e := r.Intn(2098) - 1074
			if r.Intn(3) == 0 {
				e = vPick(r, []int{-1074, -1073, -1030, -1025, -1024, -1023, -1022, -1, 0, 1, 2, 1022, 1023})
			}
			bits = append(bits, c07Sign(r, c07Ulp(math.Ldexp(1, e), r.Intn(3)-1), 4))
		}
	default: // everything mixed, including arbitrary bit patterns
		gen = "mixed"
		for i := 0; i < nv; i++ {
			switch r.Intn(6) {
			case 0:
				bits = append(bits, r.U64())
			case 1:
				bits = append(bits, vPick(r, c07Special))
			case 2:
				bits = append(bits, c07Sign(r, math.Float64bits(float64(r.Intn(1000))), 4))
			case 3:
				bits = append(bits, c07Sign(r, c07Ulp(math.Ldexp(1, r.Intn(40)-20), r.Intn(5)-2), 4))
			default:
				bits = append(bits, c07Sign(r, math.Float64bits(math.Ldexp(1+float64(r.Intn(1<<20))/(1<<20), r.Intn(24)-12)), 4))
			}
		}
	}
	c07RunExpo(out, gen, maxSize, maxScale, bits)
}

// c07Exhaustive: all sequences of length <= 3 over a 16-value pool (length 4 over the first 8) for
// maxSize 1..4 and maxScale in {-10,-9,-8,0,1,20}.
func c07Exhaustive(out *vOut) {
	pool := []uint64{
		0x3ff0000000000000, 0x4000000000000000, 0x3fe0000000000000, 0x3ff0000000000001, 0x3fefffffffffffff,
		0xbff0000000000000, 0x0000000000000000, 0x7fefffffffffffff,
		0x4008000000000000, 0xc000000000000000, 0x0000000000000001, 0x0010000000000000,
		0x3ff5342b569d4f82, 0x6540000000000000, 0x1a70000000000000, 0x7ff0000000000000,
	}
	for _, ms := range []int32{1, 2, 3, 4} {
		for _, sc := range []int32{-10, -9, -8, 0, 1, 20} {
			var rec func(seq []uint64, depth int)
			rec = func(seq []uint64, depth int) {
				c07RunExpo(out, "exh", ms, sc, seq)
				if depth == 4 {
					return
				}
				p := pool
				if depth == 3 {
					for _, b := range seq {
						ok := false
						for _, q := range pool[:8] {
							ok = ok || q == b
						}
						if !ok {
							return
						}
					}
					p = pool[:8]
				}
				for _, b := range p {
					rec(append(append([]uint64{}, seq...), b), depth+1)
				}
			}
			rec(nil, 0)
		}
	}
}

// ---------------------------------------------------------------- collection into a re-used destination

type c07Op struct {
	kind byte // 'm' measure, 'c' collect, 'n' new aggregator
	attr int
	bits uint64
}

func c07B(b bool) int {
	if b {
		return 1
	}
	return 0
}

func c07ReplayColl(out *vOut, f []string) {
	ms, _ := strconv.Atoi(f[3])
	sc, _ := strconv.Atoi(f[4])
	lim, _ := strconv.Atoi(f[5])
	var ops []c07Op
	for _, t := range f[9:] {
		switch t {
		case "c":
			ops = append(ops, c07Op{kind: 'c'})
		case "n":
			ops = append(ops, c07Op{kind: 'n'})
		default:
			i := strings.Index(t, ":f")
			if i < 0 {
				panic("bad coll op " + t)
			}
			a, err := strconv.Atoi(t[:i])
			if err != nil {
				panic(err)
			}
			b, err := strconv.ParseUint(t[i+2:], 16, 64)
			if err != nil {
				panic(err)
			}
			ops = append(ops, c07Op{kind: 'm', attr: a, bits: b})
		}
	}
	c07RunColl(out, f[1], f[2] == "d", int32(ms), int32(sc), lim, f[6] == "1", f[7] == "1", ops)
}

func c07RunColl(out *vOut, gen string, delta bool, maxSize, maxScale int32, limit int, noMinMax, noSum bool, ops []c07Op) {
	newAgg := func() *expoHistogram[float64] {
		return newExponentialHistogram[float64](maxSize, maxScale, noMinMax, noSum, limit, dropReservoir[float64])
	}
	h := newAgg()
	scratch := newExpoHistogramDataPoint[float64](attribute.NewSet(), int(maxSize), maxScale, false, false)
	ctx := context.Background()
	var dest metricdata.Aggregation // the ONE destination of every collection of this case
	var in, obs strings.Builder
	var toks []string
	t := "c"
	if delta {
		t = "d"
	}
	fmt.Fprintf(&in, "coll %s %s %d %d %d %d %d |", gen, t, maxSize, maxScale, limit, c07B(noMinMax), c07B(noSum))
	for _, op := range ops {
		switch op.kind {
		case 'n':
			in.WriteString(" n")
			h = newAgg()
		case 'c':
			in.WriteString(" c")
			var n int
			if delta {
				n = h.delta(&dest)
			} else {
				n = h.cumulative(&dest)
			}
			dps := dest.(metricdata.ExponentialHistogram[float64]).DataPoints
			if n != len(dps) {
				fmt.Fprintf(&obs, " C!%d", n)
			}
			fmt.Fprintf(&obs, " C %d", len(dps))
			for _, dp := range dps {
				id := int64(-1)
				if dp.Attributes.Equals(&overflowSet) {
					id = 0
				} else if v, ok := dp.Attributes.Value("k"); ok {
					id = v.AsInt64()
				}
				mn, mx := "-", "-"
				if v, ok := dp.Min.Value(); ok {
					mn = fmt.Sprintf("f%016x", math.Float64bits(v))
				}
				if v, ok := dp.Max.Value(); ok {
					mx = fmt.Sprintf("f%016x", math.Float64bits(v))
				}
				fmt.Fprintf(&obs, " %d %d %d %s %d %s %d %d %s %s f%016x", id, dp.Scale,
					dp.PositiveBucket.Offset, c07Csv(dp.PositiveBucket.Counts),
					dp.NegativeBucket.Offset, c07Csv(dp.NegativeBucket.Counts),
					dp.ZeroCount, dp.Count, mn, mx, math.Float64bits(dp.Sum))
			}
			for i := range dps { // the consumer scribbles over everything it was handed
				for _, c := range [][]uint64{dps[i].PositiveBucket.Counts, dps[i].NegativeBucket.Counts} {
					c = c[:cap(c)]
					for k := range c {
						c[k] = 0xdead0000 + uint64(k)
					}
				}
				dps[i].PositiveBucket.Offset, dps[i].NegativeBucket.Offset = 12345, -12345
				dps[i].Sum, dps[i].Count, dps[i].ZeroCount, dps[i].Scale = 1e300, 777, 777, 77
				dps[i].Min, dps[i].Max = metricdata.NewExtrema(-1e300), metricdata.NewExtrema(1e300)
			}
		case 'm':
			fmt.Fprintf(&in, " %d:f%016x", op.attr, op.bits)
			set := attribute.NewSet(attribute.Int("k", op.attr))
			v := math.Float64frombits(op.bits)
			eff := h.limit.Attributes(set, h.values)
			state := func() (int32, uint64) {
				if p, ok := h.values[eff.Equivalent()]; ok {
					return p.scale, p.count
				}
				return maxScale, 0
			}
			np := len(h.values)
			sb, cb := state()
			h.measure(ctx, v, set, nil)
			sa, ca := state()
			switch {
			case math.IsNaN(v) || math.IsInf(v, 0):
				if ca != cb || sa != sb || len(h.values) != np {
					toks = append(toks, "x")
				} else {
					toks = append(toks, "n")
				}
			case v == 0:
				toks = append(toks, "z")
			default:
				a := math.Abs(v)
				scratch.scale = sb
				ib := scratch.getBin(a)
				scratch.scale = sa
				ia := scratch.getBin(a)
				rec := 0
				if ca > cb {
					rec = 1
				}
				toks = append(toks, fmt.Sprintf("%d:%d:%d:%d:%d", sb, ib, sa, ia, rec))
			}
		}
	}
	out.Line("%s =>%s | %s", in.String(), obs.String(), strings.Join(toks, " "))
}

// c07CollVal: a finite value with the given sign class (0 zero, 1 positive, 2 negative) on the exponent range w.
func c07CollVal(r *vRand, cls int, e0, w int) uint64 {
	if cls == 0 {
		return uint64(r.Intn(2)) << 63
	}
	var b uint64
	switch r.Intn(8) {
	case 0:
		b = vPick(r, c07Special[2:17]) &^ (1 << 63)
	case 1:
		b = c07Ulp(math.Ldexp(1, e0+r.Intn(w)), r.Intn(3)-1)
	default:
		b = math.Float64bits(math.Ldexp(1+float64(r.Intn(8))/8, e0+r.Intn(w)))
	}
	if cls == 2 {
		b |= 1 << 63
	}
	return b
}

// c07GenColl: 2-6 collection cycles over 1-4 attribute sets; in every cycle each attribute set gets a sign
// profile (nothing / zeros / positive / negative / both / everything), so that a point with an empty side lands
// in a destination slot that held a non-empty side before (same attribute set in the previous cycle, another
// attribute set because of the map's iteration order, a longer point list re-sliced, another aggregator).
func c07GenColl(out *vOut, r *vRand) {
	delta := r.Intn(3) != 0
	maxSize := c07Size(r)
	maxScale := int32(vPick(r, []int{20, 20, 10, 5, 3, 0, 0, -3, -10}))
	if r.Intn(4) == 0 {
		maxScale = c07Scale(r)
	}
	limit := 0
	if r.Intn(4) == 0 {
		limit = 1 + r.Intn(4)
	}
	noMinMax, noSum := r.Intn(4) == 0, r.Intn(4) == 0
	nattr := 1 + r.Intn(4)
	e0 := r.Intn(40) - 20
	w := vPick(r, []int{1, 2, 4, 12, 60, 600})
	gen := "cyc"
	var ops []c07Op
	cycles := 2 + r.Intn(5)
	for c := 0; c < cycles; c++ {
		var ms []c07Op
		for a := 1; a <= nattr; a++ {
			prof := r.Intn(7)
			nv := 1 + r.Intn(4)
			for k := 0; k < nv; k++ {
				var cls int
				switch prof {
				case 0:
					continue // nothing for this attribute set in this cycle
				case 1:
					cls = 0
				case 2:
					cls = 1
				case 3:
					cls = 2
				case 4:
					cls = 1 + r.Intn(2)
				default:
					cls = r.Intn(3)
				}
				b := c07CollVal(r, cls, e0, w)
				if r.Intn(40) == 0 {
					b = vPick(r, c07Special[17:21]) // Inf / NaN
				}
				ms = append(ms, c07Op{kind: 'm', attr: a, bits: b})
			}
		}
		for i := range ms { // interleave the attribute sets
			j := r.Intn(i + 1)
			ms[i], ms[j] = ms[j], ms[i]
		}
		ops = append(ops, ms...)
		ops = append(ops, c07Op{kind: 'c'})
		switch r.Intn(8) {
		case 0: // collect twice
			ops = append(ops, c07Op{kind: 'c'})
			gen = "cyc2"
		case 1: // another aggregator takes over the destination
			ops = append(ops, c07Op{kind: 'n'})
			gen = "cycn"
		}
	}
	c07RunColl(out, gen, delta, maxSize, maxScale, limit, noMinMax, noSum, ops)
}

// ---------------------------------------------------------------- explicit buckets: collection into a re-used destination

type c07HOp struct {
	kind     byte // 'm', 'c', 'n'
	attr     int
	val      int64
	nmm, nsm bool
}

func c07ReplayHColl(out *vOut, f []string) {
	lim, _ := strconv.Atoi(f[4])
	var ops []c07HOp
	for _, t := range f[8:] {
		switch {
		case t == "c":
			ops = append(ops, c07HOp{kind: 'c'})
		case strings.HasPrefix(t, "n:"):
			ops = append(ops, c07HOp{kind: 'n', nmm: t[2] == '1', nsm: t[3] == '1'})
		default:
			i := strings.Index(t, ":")
			a, err := strconv.Atoi(t[:i])
			if err != nil {
				panic(err)
			}
			v, err := strconv.ParseInt(t[i+1:], 10, 64)
			if err != nil {
				panic(err)
			}
			ops = append(ops, c07HOp{kind: 'm', attr: a, val: v})
		}
	}
	if f[2] == "i" {
		c07RunHColl[int64](out, f[1], "i", f[3] == "d", lim, c07ParseCsv(f[5]), f[6][0] == '1', f[6][1] == '1', ops)
	} else {
		c07RunHColl[float64](out, f[1], "f", f[3] == "d", lim, c07ParseCsv(f[5]), f[6][0] == '1', f[6][1] == '1', ops)
	}
}

func c07RunHColl[N int64 | float64](out *vOut, gen, num string, delta bool, limit int, bounds []int64, noMinMax, noSum bool, ops []c07HOp) {
	fb := make([]float64, len(bounds))
	for i, b := range bounds {
		fb[i] = float64(b)
	}
	h := newHistogram[N](fb, noMinMax, noSum, limit, dropReservoir[N])
	ctx := context.Background()
	var dest metricdata.Aggregation
	var in, obs strings.Builder
	t := "c"
	if delta {
		t = "d"
	}
	fmt.Fprintf(&in, "hcoll %s %s %s %d %s %d%d |", gen, num, t, limit, c07Csv(bounds), c07B(noMinMax), c07B(noSum))
	for _, op := range ops {
		switch op.kind {
		case 'n':
			fmt.Fprintf(&in, " n:%d%d", c07B(op.nmm), c07B(op.nsm))
			h = newHistogram[N](fb, op.nmm, op.nsm, limit, dropReservoir[N])
		case 'm':
			fmt.Fprintf(&in, " %d:%d", op.attr, op.val)
			h.measure(ctx, N(op.val), attribute.NewSet(attribute.Int("k", op.attr)), nil)
		case 'c':
			in.WriteString(" c")
			var n int
			if delta {
				n = h.delta(&dest)
			} else {
				n = h.cumulative(&dest)
			}
			dps := dest.(metricdata.Histogram[N]).DataPoints
			if n != len(dps) {
				fmt.Fprintf(&obs, " C!%d", n)
			}
			fmt.Fprintf(&obs, " C %d", len(dps))
			for _, dp := range dps {
				id := int64(-1)
				if dp.Attributes.Equals(&overflowSet) {
					id = 0
				} else if v, ok := dp.Attributes.Value("k"); ok {
					id = v.AsInt64()
				}
				sb := make([]string, len(dp.Bounds))
				for i, b := range dp.Bounds {
					sb[i] = c07Int(b)
				}
				mn, mx := "-", "-"
				if v, ok := dp.Min.Value(); ok {
					mn = c07Int(float64(v))
				}
				if v, ok := dp.Max.Value(); ok {
					mx = c07Int(float64(v))
				}
				fmt.Fprintf(&obs, " %d %s %s %d %s %s %s", id, c07Join(sb), c07Csv(dp.BucketCounts), dp.Count,
					c07Int(float64(dp.Sum)), mn, mx)
			}
			for i := range dps { // the consumer scribbles over everything it was handed
				b := dps[i].Bounds[:cap(dps[i].Bounds)]
				for k := range b {
					b[k] = -4242 - float64(k)
				}
				c := dps[i].BucketCounts[:cap(dps[i].BucketCounts)]
				for k := range c {
					c[k] = 0xdead0000 + uint64(k)
				}
				dps[i].Sum, dps[i].Count = 424242, 777
				dps[i].Min, dps[i].Max = metricdata.NewExtrema(N(-4242)), metricdata.NewExtrema(N(4242))
			}
		}
	}
	out.Line("%s =>%s", in.String(), obs.String())
}

func c07GenHColl(out *vOut, r *vRand) {
	delta := r.Intn(3) != 0
	nb := vPick(r, []int{0, 1, 2, 3, 5, 8})
	bounds := make([]int64, 0, nb)
	cur := int64(r.Intn(40) - 20)
	for i := 0; i < nb; i++ {
		bounds = append(bounds, cur)
		cur += 1 + int64(r.Intn(10))
	}
	if r.Intn(6) == 0 {
		for i := range bounds {
			j := r.Intn(i + 1)
			bounds[i], bounds[j] = bounds[j], bounds[i]
		}
	}
	limit := 0
	if r.Intn(4) == 0 {
		limit = 1 + r.Intn(4)
	}
	nattr := 1 + r.Intn(4)
	gen := "cyc"
	var ops []c07HOp
	cycles := 2 + r.Intn(4)
	for c := 0; c < cycles; c++ {
		var ms []c07HOp
		for a := 1; a <= nattr; a++ {
			if r.Intn(4) == 0 {
				continue
			}
			nv := 1 + r.Intn(4)
			for k := 0; k < nv; k++ {
				v := int64(r.Intn(80) - 40)
				if nb > 0 && r.Intn(2) == 0 {
					v = bounds[r.Intn(nb)] + int64(r.Intn(3)) - 1
				}
				ms = append(ms, c07HOp{kind: 'm', attr: a, val: v})
			}
		}
		for i := range ms {
			j := r.Intn(i + 1)
			ms[i], ms[j] = ms[j], ms[i]
		}
		ops = append(ops, ms...)
		ops = append(ops, c07HOp{kind: 'c'})
		switch r.Intn(6) {
		case 0:
			ops = append(ops, c07HOp{kind: 'c'})
			gen = "cyc2"
		case 1, 2: // another aggregator with other flags takes over the destination (F40 class)
			ops = append(ops, c07HOp{kind: 'n', nmm: r.Bool(), nsm: r.Bool()})
			gen = "cycn"
		}
	}
	num := vPick(r, []string{"f", "f", "i"})
	if num == "i" {
		c07RunHColl[int64](out, gen, "i", delta, limit, bounds, r.Intn(3) == 0, r.Intn(3) == 0, ops)
	} else {
		c07RunHColl[float64](out, gen, "f", delta, limit, bounds, r.Intn(3) == 0, r.Intn(3) == 0, ops)
	}
}

// c07GenHistI64: int64 instrument, boundaries that are binary64 numbers of magnitude >= 2^53 and int64 values
// next to them that are not (known finding F49: the bucket is found for float64(value)); at most 6 values of
// magnitude < 2^59, so that the exact sum is an int64.
func c07GenHistI64(out *vOut, r *vRand) {
	nb := 1 + r.Intn(3)
	var bounds []int64
	for i := 0; i < nb; i++ {
		e := 53 + r.Intn(6)
		ulp := int64(1) << uint(e-52)
		b := int64(1)<<uint(e) + int64(r.Intn(4))*ulp
		if r.Intn(4) == 0 {
			b = -b
		}
		bounds = append(bounds, b)
	}
	if r.Intn(3) == 0 {
		bounds = append(bounds, int64(r.Intn(100)))
	}
	nv := 1 + r.Intn(6)
	vals := make([]int64, 0, nv)
	for i := 0; i < nv; i++ {
		b := bounds[r.Intn(len(bounds))]
		switch r.Intn(6) {
		case 0:
			vals = append(vals, int64(r.Intn(50)-25))
		case 1:
			vals = append(vals, b)
		default:
			vals = append(vals, b+int64(r.Intn(9)-4))
		}
	}
	c07RunHist(out, "i64bnd", "i", 0, bounds, vals)
}
