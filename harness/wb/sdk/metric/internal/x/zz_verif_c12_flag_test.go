package x

// C12 correspondence harness, leg "flag": x.CardinalityLimit.Lookup() for arbitrary values of
// OTEL_GO_X_CARDINALITY_LIMIT.
//   flag <gen> <- | x<hex of the value>> => <value> <0|1 enabled>

import (
	"os"
	"strconv"
	"testing"
)

func TestVerifC12Flag(t *testing.T) {
	out := vOpen(t)
	defer out.Close()
	key := CardinalityLimit.Key()
	t.Setenv(key, "")
	run := func(gen, tok string) {
		if tok == "-" {
			os.Unsetenv(key)
		} else if err := os.Setenv(key, vUnhex(tok)); err != nil {
			return // not a value the environment can hold (NUL)
		}
		n, ok := CardinalityLimit.Lookup()
		en := CardinalityLimit.Enabled()
		b := 0
		if ok {
			b = 1
		}
		if en != ok {
			b = 9
		}
		out.Line("flag %s %s => %d %d", gen, tok, n, b)
	}
	if rp := vReplayLines(); rp != nil {
		for _, f := range rp {
			if f[0] != "flag" || len(f) < 3 {
				continue
			}
			run(f[1], f[2])
		}
		return
	}
	r := &vRand{s: vSeed()}
	n := vN(2000)
	run("fix", "-")
	for _, s := range []string{"", "0", "1", "2", "10", "+1", "-1", "+", "-", "+-1", "-+1", "--1", "++1", "01", "0010", " 1", "1 ", "\t1", "1\n",
		"1_0", "_1", "1_", "0x10", "0b1", "0o7", "1e3", "1.0", "1,000", "one", "٣", "\xef\xbc\x91", "１",
		"9223372036854775807", "9223372036854775808", "-9223372036854775808", "-9223372036854775809",
		"+9223372036854775807", "18446744073709551616", "999999999999999999", "1000000000000000000", "0000000000000000000001",
		"123456789012345678", "1234567890123456789", "12345678901234567890", "-0", "+0", "00", "=1", "1=1"} {
		run("fix", vHex(s))
	}
	alpha := []byte("0123456789+- _x.e\t")
	for i := 0; i < n; i++ {
		var b []byte
		switch r.Intn(4) {
		case 0: // around the fast-path length (19) and the int64 boundary
			if r.Intn(2) == 0 {
				b = append(b, "+-"[r.Intn(2)])
			}
			for k, l := 0, 16+r.Intn(6); k < l; k++ {
				b = append(b, byte('0'+r.Intn(10)))
			}
		case 1: // boundary +- small delta
			v := []string{"922337203685477580", "92233720368547758", "1844674407370955161"}[r.Intn(3)] + strconv.Itoa(r.Intn(100))
			if r.Intn(3) == 0 {
				v = "-" + v
			}
			b = []byte(v)
		case 2: // mostly digits, one foreign byte
			for k, l := 0, 1+r.Intn(6); k < l; k++ {
				b = append(b, byte('0'+r.Intn(10)))
			}
			if r.Intn(2) == 0 {
				p := r.Intn(len(b) + 1)
				b = append(b[:p], append([]byte{alpha[r.Intn(len(alpha))]}, b[p:]...)...)
			}
		default:
			for k, l := 0, r.Intn(8); k < l; k++ {
				if r.Intn(8) == 0 {
					b = append(b, byte(1+r.Intn(255)))
				} else {
					b = append(b, alpha[r.Intn(len(alpha))])
				}
			}
		}
		run("rnd", vHexB(b))
	}
}
