package metric

import (
	"context"
	"fmt"
	"runtime"
	"strconv"
	"strings"
	"sync"
	"sync/atomic"
	"testing"
	"time"

	"go.opentelemetry.io/otel/sdk/metric/metricdata"
)

// TestVerifC02Conc: free-running concurrent histories (run with -race).
//   conc <gen> <readers> <insts> <G> <rep> <A> <extra> => <record> …
// G adder goroutines; goroutine g adds the value 8^g exactly `rep` (<= 7) times to every stream
// (instrument j, attribute set a in 1..A), in a shuffled order; so the base-8 digit g of any reported
// total says how many of g's additions it contains. One collector goroutine per manual reader (plus
// `extra` additional collectors on reader 0), a ticker goroutine per periodic reader, occasional ForceFlush.
// When all adders have returned: one final Collect per manual reader, then MeterProvider.Shutdown.
// record = "<collector id>:<reader>:<ok|err>;<streams>"; records of one collector are in its program order;
// collector ids: 0..nr-1 = the reader's own collector / export sequence, 100+k = extra collectors,
// 1000+r = the final collect of reader r (after every Add has returned).
// After MeterProvider.Shutdown returned, one token per periodic reader:
//   X:<reader>:<max Export calls in flight>:<Export calls started after Shutdown returned>:<started>:<returned>:<Collect after Shutdown ok|err>
// (the ghost counters of the fine-grained reader LTS, Otel/C02/ReaderLts.lean), and one token per ManualReader:
//   M:<reader>:<Collect after Shutdown ok|err>:<metrics it carried>:<second Shutdown ok|err>   (Otel/C02/ManualLts.lean).
func TestVerifC02Conc(t *testing.T) {
	out := vOpen(t)
	defer out.Close()
	c02InstallTicker(t)
	c02InstallErrHandler(t)

	run := func(gen string, cfg c02Cfg, G, rep, A, extra int, seed uint64) {
		// "+ex": exemplar filter always-on, so every Add also goes through Offer and every collection through
		// collectExemplars of the default reservoirs, under the race detector; the values must be what they are without
		// (exemplars_do_not_change_values), so the line is judged exactly as the others
		cfg.exOn = strings.HasSuffix(gen, "+ex")
		s := c02New(cfg)
		defer s.close()
		ctx := context.Background()
		for r := range cfg.readers {
			s.stamps[r] = r
		}
		var stop atomic.Bool
		var adders, collectors sync.WaitGroup
		start := make(chan struct{})
		for g := 0; g < G; g++ {
			adders.Add(1)
			go func(g int) {
				defer adders.Done()
				rr := &vRand{s: seed*1000003 + uint64(g)}
				type slot struct{ j, a int }
				var sched []slot
				for j := range cfg.insts {
					for a := 1; a <= A; a++ {
						for k := 0; k < rep; k++ {
							sched = append(sched, slot{j, a})
						}
					}
				}
				for i := len(sched) - 1; i > 0; i-- {
					k := rr.Intn(i + 1)
					sched[i], sched[k] = sched[k], sched[i]
				}
				v := int64(1) << (3 * uint(g))
				<-start
				for i, sl := range sched {
					s.adders[sl.j](sl.a, v)
					if i%7 == rr.Intn(7) {
						runtime.Gosched()
					}
				}
			}(g)
		}
		collector := func(id, r int, max int, seed uint64) {
			defer collectors.Done()
			rr := &vRand{s: seed}
			<-start
			for i := 0; i < max && !stop.Load(); i++ {
				if s.ticks[r] != nil {
					if id >= 100 || rr.Intn(4) == 0 {
						_ = s.mp.ForceFlush(ctx)
					} else if !s.tick(r) {
						return
					}
				} else {
					s.collect(id, r)
				}
				switch rr.Intn(3) {
				case 0:
					runtime.Gosched()
				case 1:
					time.Sleep(time.Duration(rr.Intn(50)) * time.Microsecond)
				}
			}
		}
		for r := range cfg.readers {
			collectors.Add(1)
			go collector(r, r, 12, seed*7919+uint64(r))
		}
		for k := 0; k < extra; k++ {
			collectors.Add(1)
			go collector(100+k, 0, 8, seed*104729+uint64(k))
		}
		close(start)
		adders.Wait()
		stop.Store(true)
		collectors.Wait()
		// every Add has returned: final collections
		for r := range cfg.readers {
			if s.ticks[r] == nil {
				s.collect(1000+r, r)
			}
		}
		s.mu.Lock()
		for r := range cfg.readers {
			s.stamps[r] = 1000 + r
		}
		s.mu.Unlock()
		_ = s.mp.Shutdown(ctx)
		// Shutdown has returned: whatever is tried now (a stale tick, ForceFlush, Collect, a second Shutdown) must not
		// reach the exporter (reader_no_export_after_shutdown) and Collect must answer with an error
		var xs []string
		for r, e := range s.exps {
			if e == nil {
				continue
			}
			e.shutRet.Store(true)
			select {
			case s.ticks[r] <- time.Now():
			case <-time.After(200 * time.Microsecond):
			}
			_ = s.readers[r].(*PeriodicReader).ForceFlush(ctx)
			var rm metricdata.ResourceMetrics
			after := "ok"
			if err := s.readers[r].Collect(ctx, &rm); err != nil {
				after = "err"
			}
			_ = s.readers[r].Shutdown(ctx)
			runtime.Gosched()
			xs = append(xs, fmt.Sprintf("X:%d:%d:%d:%d:%d:%s", r, e.maxIn.Load(), e.late.Load(), e.begun.Load(), e.ended.Load(), after))
		}
		// … and on every ManualReader: a further Collect is refused and carries nothing, a further Shutdown is refused
		for r, rd := range s.readers {
			if s.exps[r] != nil {
				continue
			}
			var rm metricdata.ResourceMetrics
			after, n := "ok", 0
			if err := rd.Collect(ctx, &rm); err != nil {
				after = "err"
			}
			for _, sm := range rm.ScopeMetrics {
				n += len(sm.Metrics)
			}
			second := "ok"
			if err := rd.Shutdown(ctx); err != nil {
				second = "err"
			}
			xs = append(xs, fmt.Sprintf("M:%d:%s:%d:%s", r, after, n, second))
		}
		s.mu.Lock()
		recs := strings.Join(append(append([]string{}, s.recs...), xs...), " ")
		s.stamp = -1
		s.stamps = map[int]int{}
		s.mu.Unlock()
		out.Line("conc %s %s %d %d %d %d => %s", gen, cfg.String(), G, rep, A, extra, recs)
	}

	if rp := vReplayLines(); rp != nil {
		for i, f := range rp {
			if f[0] != "conc" || len(f) < 8 {
				continue
			}
			a := func(k int) int { n, _ := strconv.Atoi(f[k]); return n }
			run(f[1], c02ParseCfg(f[2], f[3]), a(4), a(5), a(6), a(7), vSeed()+uint64(i))
		}
		return
	}

	r := &vRand{s: vSeed()}
	n := vN(300)
	temps := []string{"d", "c"}
	for i := 0; i < n; i++ {
		var rs, is []string
		nr := 1 + r.Intn(2)
		for k := 0; k < nr; k++ {
			rs = append(rs, "m"+vPick(r, temps)+vPick(r, temps))
		}
		if i%2 == 0 {
			rs[0] = "mdd" // a delta reader that several collectors may share
		}
		if r.Intn(3) != 0 {
			p := "p" + vPick(r, temps) + vPick(r, temps)
			at := r.Intn(len(rs) + 1)
			rs = append(rs[:at], append([]string{p}, rs[at:]...)...)
		}
		if r.Intn(4) == 0 {
			// a reader that rejects / drops a sum kind, before or between the others
			x := "m" + vPick(r, temps) + vPick(r, temps) + vPick(r, []string{"u", "c", "b", "D"})
			at := r.Intn(len(rs))
			rs = append(rs[:at], append([]string{x}, rs[at:]...)...)
		}
		ni := 1 + r.Intn(3)
		for k := 0; k < ni; k++ {
			is = append(is, vPick(r, []string{"ic", "iu", "fc", "fu"}))
		}
		cfg := c02ParseCfg(strings.Join(rs, ","), strings.Join(is, ","))
		G := 2 + r.Intn(15)
		gen := "rnd"
		if i%3 == 1 {
			gen = "rnd+ex"
		}
		run(gen, cfg, G, 1+r.Intn(7), 1+r.Intn(3), r.Intn(2), r.U64())
	}
}
