package metric

import (
	"context"
	"fmt"
	"math"
	"strconv"
	"strings"
	"testing"

	otelmetric "go.opentelemetry.io/otel/metric"
	"go.opentelemetry.io/otel/sdk/metric/metricdata"
)

// TestVerifC07Valid: parameter validation of the two histogram aggregations (sdk/metric/aggregation.go).
//
//	vexpo <gen> <maxSize> <maxScale> => ok|err
//	vhist <gen> <bounds,> => ok|err          (boundaries as integers)
//	path <gen> <kind 0..6> <i|f> <inst bounds,|-> <reader agg> <view -|n|c> <view agg> <d|c> | <values 1,> | <values 2,>
//	     => <err 0|1> none | S | G | H <bounds,> <counts,> <count> <sum> <min|-> <max|-> |
//	        E <scale> <posOff> <pos,> <negOff> <neg,> <zero> <count> <min|-> <max|-> <sum>
//	  the ways a histogram configuration reaches the aggregator through the public API: instrument option
//	  (WithExplicitBucketBoundaries), reader aggregation selector, NewView mask, hand-written View function;
//	  agg: - (nil) | d (default) | x (drop) | h:<bounds,>:<noMinMax> | e:<maxSize>:<maxScale>:<noMinMax>;
//	  instead of the result: panic:<index|makeslice|other> when recording or collecting panicked (F46);
//	  kind: 0 Counter 1 UpDownCounter 2 Histogram 3 Gauge 4-6 the observable forms; two collections into one
//	  re-used ResourceMetrics, the second one is observed.
func TestVerifC07Valid(t *testing.T) {
	out := vOpen(t)
	defer out.Close()
	res := func(err error) string {
		if err != nil {
			return "err"
		}
		return "ok"
	}
	expo := func(gen string, ms, sc int32) {
		a := AggregationBase2ExponentialHistogram{MaxSize: ms, MaxScale: sc}
		out.Line("vexpo %s %d %d => %s", gen, ms, sc, res(a.err()))
	}
	hist := func(gen string, b []int64) {
		fb := make([]float64, len(b))
		ss := make([]string, len(b))
		for i, x := range b {
			fb[i] = float64(x)
			ss[i] = fmt.Sprint(x)
		}
		s := strings.Join(ss, ",")
		if len(b) == 0 {
			s = "-"
		}
		a := AggregationExplicitBucketHistogram{Boundaries: fb}
		out.Line("vhist %s %s => %s", gen, s, res(a.err()))
	}
	parse := func(s string) []int64 {
		if s == "-" {
			return nil
		}
		var r []int64
		for _, p := range strings.Split(s, ",") {
			v, _ := strconv.ParseInt(p, 10, 64)
			r = append(r, v)
		}
		return r
	}
	if rp := vReplayLines(); rp != nil {
		for _, f := range rp {
			switch f[0] {
			case "vexpo":
				ms, _ := strconv.Atoi(f[2])
				sc, _ := strconv.Atoi(f[3])
				expo(f[1], int32(ms), int32(sc))
			case "vhist":
				hist(f[1], parse(f[2]))
			case "path":
				c07ReplayPath(out, f)
			}
		}
		return
	}
	// exhaustive small scope: every (maxSize, maxScale) around all the limits
	for ms := int32(-3); ms <= 6; ms++ {
		for sc := int32(-40); sc <= 40; sc++ {
			expo("exh", ms, sc)
		}
	}
	r := &vRand{s: vSeed()}
	n := vN(2000)
	for i := 0; i < n; i++ {
		if r.Intn(3) == 0 {
			c07GenPath(out, r)
			continue
		}
		if r.Bool() {
			expo("rnd", int32(r.U64()), int32(r.Intn(64)-32))
			if r.Intn(4) == 0 {
				expo("rnd", int32(r.Intn(400)-10), int32(r.U64()))
			}
			continue
		}
		nb := r.Intn(6)
		b := make([]int64, nb)
		cur := int64(r.Intn(20) - 10)
		for j := range b {
			b[j] = cur
			switch r.Intn(6) {
			case 0:
			case 1:
				cur -= int64(r.Intn(3))
			default:
				cur += 1 + int64(r.Intn(5))
			}
		}
		hist("rnd", b)
	}
}

// ---------------------------------------------------------------- configuration paths (public API)

func c07PCsv(xs []int64) string {
	if len(xs) == 0 {
		return "-"
	}
	ss := make([]string, len(xs))
	for i, x := range xs {
		ss[i] = strconv.FormatInt(x, 10)
	}
	return strings.Join(ss, ",")
}

func c07PParse(s string) []int64 {
	if s == "-" || s == "" {
		return nil
	}
	var r []int64
	for _, p := range strings.Split(s, ",") {
		v, err := strconv.ParseInt(p, 10, 64)
		if err != nil {
			panic(err)
		}
		r = append(r, v)
	}
	return r
}

func c07PFloats(xs []int64) []float64 {
	r := make([]float64, len(xs))
	for i, x := range xs {
		r[i] = float64(x)
	}
	return r
}

// c07PAgg parses the aggregation token; nil for "-".
func c07PAgg(s string) Aggregation {
	f := strings.Split(s, ":")
	switch f[0] {
	case "d":
		return AggregationDefault{}
	case "x":
		return AggregationDrop{}
	case "h":
		return AggregationExplicitBucketHistogram{Boundaries: c07PFloats(c07PParse(f[1])), NoMinMax: f[2] == "1"}
	case "e":
		ms, _ := strconv.Atoi(f[1])
		sc, _ := strconv.Atoi(f[2])
		return AggregationBase2ExponentialHistogram{MaxSize: int32(ms), MaxScale: int32(sc), NoMinMax: f[3] == "1"}
	}
	return nil
}

func c07ReplayPath(out *vOut, f []string) {
	// path gen kind num inst reader vk vagg temp | v1 | v2
	kind, _ := strconv.Atoi(f[2])
	c07RunPath(out, f[1], kind, f[3], f[4], f[5], f[6], f[7], f[8] == "d", c07PParse(f[10]), c07PParse(f[12]))
}

func c07PNum(x float64) string {
	if x != math.Trunc(x) || math.Abs(x) > 1<<62 {
		return fmt.Sprintf("f%016x", math.Float64bits(x))
	}
	return strconv.FormatFloat(x, 'f', 0, 64)
}

func c07RunPath(out *vOut, gen string, kind int, num, inst, rdrAgg, vk, vagg string, delta bool, v1, v2 []int64) {
	t := "c"
	if delta {
		t = "d"
	}
	in := fmt.Sprintf("path %s %d %s %s %s %s %s %s | %s | %s", gen, kind, num, inst, rdrAgg, vk, vagg, t,
		c07PCsv(v1), c07PCsv(v2))
	defer func() {
		if e := recover(); e != nil {
			// a panic is an observation (finding F46: a hand-written View function's aggregation is not validated)
			cls := "other"
			switch m := fmt.Sprint(e); {
			case strings.Contains(m, "index out of range"):
				cls = "index"
			case strings.Contains(m, "makeslice"):
				cls = "makeslice"
			}
			out.Line("%s => panic:%s", in, cls)
		}
	}()
	ctx := context.Background()
	ropts := []ManualReaderOption{}
	if delta {
		ropts = append(ropts, WithTemporalitySelector(func(InstrumentKind) metricdata.Temporality {
			return metricdata.DeltaTemporality
		}))
	}
	if rdrAgg != "-" {
		ra := c07PAgg(rdrAgg)
		ropts = append(ropts, WithAggregationSelector(func(InstrumentKind) Aggregation { return ra }))
	}
	rdr := NewManualReader(ropts...)
	popts := []Option{WithReader(rdr)}
	switch vk {
	case "n":
		popts = append(popts, WithView(NewView(Instrument{Name: "*"}, Stream{Aggregation: c07PAgg(vagg)})))
	case "c":
		va := c07PAgg(vagg)
		popts = append(popts, WithView(func(i Instrument) (Stream, bool) {
			return Stream{Name: i.Name, Description: i.Description, Unit: i.Unit, Aggregation: va}, true
		}))
	}
	mp := NewMeterProvider(popts...)
	defer func() { _ = mp.Shutdown(ctx) }()
	m := mp.Meter("c07")
	var cur []int64
	var rec func(v int64)
	var err error
	if num == "i" {
		cb := otelmetric.WithInt64Callback(func(_ context.Context, o otelmetric.Int64Observer) error {
			for _, v := range cur {
				o.Observe(v)
			}
			return nil
		})
		switch kind {
		case 0:
			var c otelmetric.Int64Counter
			c, err = m.Int64Counter("p")
			rec = func(v int64) { c.Add(ctx, v) }
		case 1:
			var c otelmetric.Int64UpDownCounter
			c, err = m.Int64UpDownCounter("p")
			rec = func(v int64) { c.Add(ctx, v) }
		case 2:
			var c otelmetric.Int64Histogram
			if inst != "-" {
				c, err = m.Int64Histogram("p", otelmetric.WithExplicitBucketBoundaries(c07PFloats(c07PParse(inst))...))
			} else {
				c, err = m.Int64Histogram("p")
			}
			rec = func(v int64) { c.Record(ctx, v) }
		case 3:
			var c otelmetric.Int64Gauge
			c, err = m.Int64Gauge("p")
			rec = func(v int64) { c.Record(ctx, v) }
		case 4:
			_, err = m.Int64ObservableCounter("p", cb)
		case 5:
			_, err = m.Int64ObservableUpDownCounter("p", cb)
		case 6:
			_, err = m.Int64ObservableGauge("p", cb)
		}
	} else {
		cb := otelmetric.WithFloat64Callback(func(_ context.Context, o otelmetric.Float64Observer) error {
			for _, v := range cur {
				o.Observe(float64(v))
			}
			return nil
		})
		switch kind {
		case 0:
			var c otelmetric.Float64Counter
			c, err = m.Float64Counter("p")
			rec = func(v int64) { c.Add(ctx, float64(v)) }
		case 1:
			var c otelmetric.Float64UpDownCounter
			c, err = m.Float64UpDownCounter("p")
			rec = func(v int64) { c.Add(ctx, float64(v)) }
		case 2:
			var c otelmetric.Float64Histogram
			if inst != "-" {
				c, err = m.Float64Histogram("p", otelmetric.WithExplicitBucketBoundaries(c07PFloats(c07PParse(inst))...))
			} else {
				c, err = m.Float64Histogram("p")
			}
			rec = func(v int64) { c.Record(ctx, float64(v)) }
		case 3:
			var c otelmetric.Float64Gauge
			c, err = m.Float64Gauge("p")
			rec = func(v int64) { c.Record(ctx, float64(v)) }
		case 4:
			_, err = m.Float64ObservableCounter("p", cb)
		case 5:
			_, err = m.Float64ObservableUpDownCounter("p", cb)
		case 6:
			_, err = m.Float64ObservableGauge("p", cb)
		}
	}
	var rm metricdata.ResourceMetrics // re-used for both collections
	for _, vals := range [][]int64{v1, v2} {
		cur = vals
		if rec != nil {
			for _, v := range vals {
				rec(v)
			}
		}
		if e := rdr.Collect(ctx, &rm); e != nil {
			out.Line("%s => collect-error", in)
			return
		}
	}
	res := "none"
	nm := 0
	for _, sm := range rm.ScopeMetrics {
		for _, mt := range sm.Metrics {
			nm++
			res = c07PData(mt.Data)
		}
	}
	if nm > 1 {
		res = "multi"
	}
	out.Line("%s => %d %s", in, c07PB(err != nil), res)
}

func c07PB(b bool) int {
	if b {
		return 1
	}
	return 0
}

func c07PU(xs []uint64) string {
	if len(xs) == 0 {
		return "-"
	}
	ss := make([]string, len(xs))
	for i, x := range xs {
		ss[i] = strconv.FormatUint(x, 10)
	}
	return strings.Join(ss, ",")
}

func c07PExt[N int64 | float64](e metricdata.Extrema[N]) string {
	v, ok := e.Value()
	if !ok {
		return "-"
	}
	return c07PNum(float64(v))
}

func c07PHist[N int64 | float64](d metricdata.Histogram[N]) string {
	if len(d.DataPoints) != 1 {
		return "multi"
	}
	dp := d.DataPoints[0]
	bs := make([]string, len(dp.Bounds))
	for i, b := range dp.Bounds {
		bs[i] = c07PNum(b)
	}
	b := "-"
	if len(bs) > 0 {
		b = strings.Join(bs, ",")
	}
	return fmt.Sprintf("H %s %s %d %s %s %s", b, c07PU(dp.BucketCounts), dp.Count, c07PNum(float64(dp.Sum)),
		c07PExt(dp.Min), c07PExt(dp.Max))
}

func c07PExpo[N int64 | float64](d metricdata.ExponentialHistogram[N]) string {
	if len(d.DataPoints) != 1 {
		return "multi"
	}
	dp := d.DataPoints[0]
	return fmt.Sprintf("E %d %d %s %d %s %d %d %s %s %s", dp.Scale, dp.PositiveBucket.Offset,
		c07PU(dp.PositiveBucket.Counts), dp.NegativeBucket.Offset, c07PU(dp.NegativeBucket.Counts), dp.ZeroCount,
		dp.Count, c07PExt(dp.Min), c07PExt(dp.Max), c07PNum(float64(dp.Sum)))
}

func c07PData(d metricdata.Aggregation) string {
	switch x := d.(type) {
	case metricdata.Histogram[int64]:
		return c07PHist(x)
	case metricdata.Histogram[float64]:
		return c07PHist(x)
	case metricdata.ExponentialHistogram[int64]:
		return c07PExpo(x)
	case metricdata.ExponentialHistogram[float64]:
		return c07PExpo(x)
	case metricdata.Sum[int64], metricdata.Sum[float64]:
		return "S"
	case metricdata.Gauge[int64], metricdata.Gauge[float64]:
		return "G"
	}
	return "other"
}

// c07PGenBounds: sorted / unsorted / duplicate / empty / single boundary lists (small integers).
func c07PGenBounds(r *vRand) []int64 {
	n := vPick(r, []int{0, 1, 2, 3, 5})
	b := make([]int64, n)
	cur := int64(r.Intn(20) - 10)
	for i := range b {
		b[i] = cur
		cur += 1 + int64(r.Intn(6))
	}
	switch r.Intn(5) {
	case 0:
		for i := range b {
			j := r.Intn(i + 1)
			b[i], b[j] = b[j], b[i]
		}
	case 1:
		if n > 1 {
			b[r.Intn(n)] = b[r.Intn(n)]
		}
	}
	return b
}

// c07PGenAgg: an aggregation token; valid=true restricts exponential parameters to the accepted ones (a
// hand-written View function hands its aggregation to the aggregator without validation).
func c07PGenAgg(r *vRand, validExpo bool) string {
	switch r.Intn(9) {
	case 0:
		return "-"
	case 1:
		return "d"
	case 2:
		return "x"
	case 3, 4, 5:
		return fmt.Sprintf("h:%s:%d", c07PCsv(c07PGenBounds(r)), r.Intn(2))
	default:
		ms := vPick(r, []int{1, 2, 3, 4, 8, 20, 160})
		sc := r.Intn(31) - 10
		if !validExpo && r.Intn(3) == 0 {
			ms = vPick(r, []int{0, -1, -5, 1, 4})
			sc = vPick(r, []int{21, 25, -11, -20, 20, -10, 0})
		}
		return fmt.Sprintf("e:%d:%d:%d", ms, sc, r.Intn(2))
	}
}

func c07GenPath(out *vOut, r *vRand) {
	kind := r.Intn(7)
	if r.Intn(3) == 0 {
		kind = 2
	}
	num := vPick(r, []string{"i", "f"})
	inst := "-"
	if kind == 2 && r.Intn(2) == 0 {
		inst = c07PCsv(c07PGenBounds(r))
	}
	rdr := "-"
	if r.Intn(2) == 0 {
		rdr = c07PGenAgg(r, false)
	}
	vk := vPick(r, []string{"-", "-", "n", "n", "c"})
	vagg := "-"
	switch vk {
	case "n":
		vagg = c07PGenAgg(r, false)
	case "c":
		// hand-written View function: nothing validates what it returns (known finding F46 for exponential
		// parameters outside the accepted range)
		vagg = c07PGenAgg(r, false)
		if r.Intn(5) == 0 { // F46: parameters err() would reject
			vagg = fmt.Sprintf("e:%d:%d:%d", vPick(r, []int{0, -1, -5, 1, 4, 4}),
				vPick(r, []int{21, 25, -11, -15, -20, -40, 20, 0}), r.Intn(2))
		} else if r.Intn(2) == 0 { // boundaries that no validation has seen: unsorted, duplicates
			b := c07PGenBounds(r)
			for i := range b {
				j := r.Intn(i + 1)
				b[i], b[j] = b[j], b[i]
			}
			vagg = fmt.Sprintf("h:%s:%d", c07PCsv(b), r.Intn(2))
		}
	}
	monotonic := kind == 0 || kind == 4
	vals := func() []int64 {
		n := vPick(r, []int{0, 1, 2, 3, 6})
		v := make([]int64, n)
		for i := range v {
			switch r.Intn(6) {
			case 0:
				v[i] = 0
			case 1:
				v[i] = int64(vPick(r, []int{3, 5, 6, 7, 10, 12, 100, 1000, 100000}))
			default:
				v[i] = int64(r.Intn(41) - 12)
			}
			if monotonic && v[i] < 0 {
				v[i] = -v[i]
			}
			if a := uint64(max(v[i], -v[i])); a != 0 && a&(a-1) == 0 {
				// exact powers of two sit on a bucket boundary of every scale (F14 zone of the float index; the
				// agg leg covers them with the logged indices) — here the model uses the exact index
				v[i] *= 3
			}
		}
		return v
	}
	c07RunPath(out, "rnd", kind, num, inst, rdr, vk, vagg, r.Bool(), vals(), vals())
}
