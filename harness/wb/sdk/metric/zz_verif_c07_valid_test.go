package metric

import (
	"fmt"
	"strconv"
	"strings"
	"testing"
)

// TestVerifC07Valid: parameter validation of the two histogram aggregations (sdk/metric/aggregation.go).
//
//	vexpo <gen> <maxSize> <maxScale> => ok|err
//	vhist <gen> <bounds,> => ok|err          (boundaries as integers)
func TestVerifC07Valid(t *testing.T) {
	out := vOpen(t)
	defer out.Close()
	res := func(err error) string {
		if err != nil {
			return "err"
		}
		return "ok"
	}
	expo := func(gen string, ms, sc int32) {
		a := AggregationBase2ExponentialHistogram{MaxSize: ms, MaxScale: sc}
		out.Line("vexpo %s %d %d => %s", gen, ms, sc, res(a.err()))
	}
	hist := func(gen string, b []int64) {
		fb := make([]float64, len(b))
		ss := make([]string, len(b))
		for i, x := range b {
			fb[i] = float64(x)
			ss[i] = fmt.Sprint(x)
		}
		s := strings.Join(ss, ",")
		if len(b) == 0 {
			s = "-"
		}
		a := AggregationExplicitBucketHistogram{Boundaries: fb}
		out.Line("vhist %s %s => %s", gen, s, res(a.err()))
	}
	parse := func(s string) []int64 {
		if s == "-" {
			return nil
		}
		var r []int64
		for _, p := range strings.Split(s, ",") {
			v, _ := strconv.ParseInt(p, 10, 64)
			r = append(r, v)
		}
		return r
	}
	if rp := vReplayLines(); rp != nil {
		for _, f := range rp {
			switch f[0] {
			case "vexpo":
				ms, _ := strconv.Atoi(f[2])
				sc, _ := strconv.Atoi(f[3])
				expo(f[1], int32(ms), int32(sc))
			case "vhist":
				hist(f[1], parse(f[2]))
			}
		}
		return
	}
	// exhaustive small scope: every (maxSize, maxScale) around all the limits
	for ms := int32(-3); ms <= 6; ms++ {
		for sc := int32(-40); sc <= 40; sc++ {
			expo("exh", ms, sc)
		}
	}
	r := &vRand{s: vSeed()}
	n := vN(2000)
	for i := 0; i < n; i++ {
		if r.Bool() {
			expo("rnd", int32(r.U64()), int32(r.Intn(64)-32))
			if r.Intn(4) == 0 {
				expo("rnd", int32(r.Intn(400)-10), int32(r.U64()))
			}
			continue
		}
		nb := r.Intn(6)
		b := make([]int64, nb)
		cur := int64(r.Intn(20) - 10)
		for j := range b {
			b[j] = cur
			switch r.Intn(6) {
			case 0:
			case 1:
				cur -= int64(r.Intn(3))
			default:
				cur += 1 + int64(r.Intn(5))
			}
		}
		hist("rnd", b)
	}
}
