package trace

import (
	"context"
	"fmt"
	"os"
	"strconv"
	"strings"
	"testing"
)

// C04, leg `limits`: where the six span limits come from (span_limits.go NewSpanLimits, sdk/internal/env firstInt /
// IntEnvOr, provider.go NewTracerProvider / WithSpanLimits / WithRawSpanLimits). One case per line:
//
//	lims <gen> <8 env tokens> <opts|-> => <attrCount> <valueLen> <eventCount> <linkCount> <perEvent> <perLink>
//
// env tokens, in this order: OTEL_SPAN_ATTRIBUTE_VALUE_LENGTH_LIMIT OTEL_ATTRIBUTE_VALUE_LENGTH_LIMIT
// OTEL_SPAN_ATTRIBUTE_COUNT_LIMIT OTEL_ATTRIBUTE_COUNT_LIMIT OTEL_SPAN_EVENT_COUNT_LIMIT OTEL_EVENT_ATTRIBUTE_COUNT_LIMIT
// OTEL_SPAN_LINK_COUNT_LIMIT OTEL_LINK_ATTRIBUTE_COUNT_LIMIT; `-` = not set, x<hex> = value.
// opts = `+`-separated, in the order passed: c:<6 ints> = WithSpanLimits, r:<6 ints> = WithRawSpanLimits; the ints in the
// order of the observation. Observed: the provider's spanLimits (what every span of its tracers is limited by).

var vC04LimKeys = []string{
	"OTEL_SPAN_ATTRIBUTE_VALUE_LENGTH_LIMIT", "OTEL_ATTRIBUTE_VALUE_LENGTH_LIMIT",
	"OTEL_SPAN_ATTRIBUTE_COUNT_LIMIT", "OTEL_ATTRIBUTE_COUNT_LIMIT",
	"OTEL_SPAN_EVENT_COUNT_LIMIT", "OTEL_EVENT_ATTRIBUTE_COUNT_LIMIT",
	"OTEL_SPAN_LINK_COUNT_LIMIT", "OTEL_LINK_ATTRIBUTE_COUNT_LIMIT",
}

func vC04ParseLims(t string) SpanLimits {
	p := strings.Split(t, ",")
	n := func(i int) int { v, _ := strconv.Atoi(p[i]); return v }
	return SpanLimits{AttributeCountLimit: n(0), AttributeValueLengthLimit: n(1), EventCountLimit: n(2),
		LinkCountLimit: n(3), AttributePerEventCountLimit: n(4), AttributePerLinkCountLimit: n(5)}
}

func vC04Lims1(gen string, envs []string, opts string) string {
	for i, k := range vC04LimKeys {
		if envs[i] == "-" {
			os.Unsetenv(k)
		} else {
			os.Setenv(k, vUnhex(envs[i]))
		}
	}
	defer func() {
		for _, k := range vC04LimKeys {
			os.Unsetenv(k)
		}
	}()
	var o []TracerProviderOption
	if opts != "-" {
		for _, t := range strings.Split(opts, "+") {
			if t[0] == 'c' {
				o = append(o, WithSpanLimits(vC04ParseLims(t[2:])))
			} else {
				o = append(o, WithRawSpanLimits(vC04ParseLims(t[2:])))
			}
		}
	}
	tp := NewTracerProvider(o...)
	sl := tp.spanLimits
	_ = tp.Shutdown(context.Background())
	return fmt.Sprintf("lims %s %s %s => %d %d %d %d %d %d", gen, strings.Join(envs, " "), opts,
		sl.AttributeCountLimit, sl.AttributeValueLengthLimit, sl.EventCountLimit, sl.LinkCountLimit,
		sl.AttributePerEventCountLimit, sl.AttributePerLinkCountLimit)
}

var vC04EnvVals = []string{"0", "1", "5", "-1", "+7", "64", "007", "abc", "12x", " 5", "5 ", "1_000", "",
	"9223372036854775807", "9223372036854775808", "-9223372036854775808", "-", "+", "1e3", "0x10", "٣", "-0"}

func TestVerifC04Limits(t *testing.T) {
	out := vOpen(t)
	defer out.Close()
	if rp := vReplayLines(); rp != nil {
		for _, f := range rp {
			if len(f) == 11 && f[0] == "lims" {
				out.Line("%s", vC04Lims1(f[1], f[2:10], f[10]))
			}
		}
		return
	}
	r := &vRand{s: vSeed() ^ 0xc0411}
	n := vN(2000)
	vals := []int{-1, 0, 1, 2, 5, 128, 1000, -7}
	for i := 0; i < n; i++ {
		envs := make([]string, 8)
		dens := 1 + r.Intn(4)
		for j := range envs {
			envs[j] = "-"
			if r.Intn(dens) == 0 {
				envs[j] = vHex(vPick(r, vC04EnvVals))
			}
		}
		opts := "-"
		if m := r.Intn(3); m > 0 && r.Bool() {
			xs := make([]string, m)
			for j := range xs {
				ls := make([]string, 6)
				for k := range ls {
					ls[k] = strconv.Itoa(vPick(r, vals))
				}
				xs[j] = vPick(r, []string{"c:", "r:"}) + strings.Join(ls, ",")
			}
			opts = strings.Join(xs, "+")
		}
		out.Line("%s", vC04Lims1("rnd", envs, opts))
	}
}
