package trace

import (
	"context"
	"errors"
	"fmt"
	"math"
	"strconv"
	"strings"
	"testing"

	"go.opentelemetry.io/otel/attribute"
	"go.opentelemetry.io/otel/codes"
	"go.opentelemetry.io/otel/trace"
)

// TestVerifC04Span: op scripts run on a real recording span obtained through the public API
// (NewTracerProvider + WithRawSpanLimits + a recording SpanProcessor). One script per line:
//
//	span <gen> <attrCount> <valueLen> <eventCount> <linkCount> <perEvent> <perLink> <hex name> | op | op … =>
//	     <#OnEnd calls> <snapshot given to OnEnd> ## <span read back through ReadOnlySpan after the last op>
//
// The format of ops / snapshots is described in /verif/lean/Otel/C04/Main.lean.

type vC04Rec struct{ snaps []ReadOnlySpan }

func (r *vC04Rec) OnStart(context.Context, ReadWriteSpan) {}
func (r *vC04Rec) OnEnd(s ReadOnlySpan)                   { r.snaps = append(r.snaps, s) }
func (r *vC04Rec) Shutdown(context.Context) error         { return nil }
func (r *vC04Rec) ForceFlush(context.Context) error       { return nil }

// ---------------------------------------------------------------- tokens -> API values

func vC04Seq(p string) []string {
	if p == "" {
		return nil
	}
	return strings.Split(p, ";")
}

func vC04Bits(s string) float64 {
	u, err := strconv.ParseUint(strings.TrimPrefix(s, "f"), 16, 64)
	if err != nil {
		panic("bad float token " + s)
	}
	return math.Float64frombits(u)
}

func vC04ParseKV(tok string) attribute.KeyValue {
	i := strings.IndexByte(tok, '=')
	k := attribute.Key(vUnhex(tok[:i]))
	v := tok[i+1:]
	tag, p := v, ""
	if j := strings.IndexByte(v, ':'); j >= 0 {
		tag, p = v[:j], v[j+1:]
	}
	switch tag {
	case "N":
		return attribute.KeyValue{Key: k}
	case "B":
		return k.Bool(p == "1")
	case "I":
		n, _ := strconv.ParseInt(p, 10, 64)
		return k.Int64(n)
	case "F":
		return k.Float64(vC04Bits(p))
	case "S":
		return k.String(vUnhex(p))
	case "BS":
		out := []bool{}
		for _, e := range vC04Seq(p) {
			out = append(out, e == "1")
		}
		return k.BoolSlice(out)
	case "IS":
		out := []int64{}
		for _, e := range vC04Seq(p) {
			n, _ := strconv.ParseInt(e, 10, 64)
			out = append(out, n)
		}
		return k.Int64Slice(out)
	case "FS":
		out := []float64{}
		for _, e := range vC04Seq(p) {
			out = append(out, vC04Bits(e))
		}
		return k.Float64Slice(out)
	case "SS":
		out := []string{}
		for _, e := range vC04Seq(p) {
			out = append(out, vUnhex(e))
		}
		return k.StringSlice(out)
	}
	panic("bad value token " + tok)
}

func vC04ParseKVs(tok string) []attribute.KeyValue {
	if tok == "-" {
		return nil
	}
	var out []attribute.KeyValue
	for _, t := range strings.Split(tok, ",") {
		out = append(out, vC04ParseKV(t))
	}
	return out
}

func vC04ParseSC(tok string) trace.SpanContext {
	p := strings.Split(tok, ":")
	tid, _ := strconv.Atoi(p[0])
	sid, _ := strconv.Atoi(p[1])
	nts, _ := strconv.Atoi(p[2])
	cfg := trace.SpanContextConfig{}
	cfg.TraceID[15] = byte(tid)
	cfg.SpanID[7] = byte(sid)
	if nts > 0 {
		var members []string
		for i := 0; i < nts; i++ {
			members = append(members, fmt.Sprintf("k%d=v", i))
		}
		ts, err := trace.ParseTraceState(strings.Join(members, ","))
		if err != nil {
			panic(err)
		}
		cfg.TraceState = ts
	}
	return trace.NewSpanContext(cfg)
}

// ---------------------------------------------------------------- API values -> tokens

func vC04Join[T any](xs []T, f func(T) string) string {
	out := make([]string, len(xs))
	for i, x := range xs {
		out[i] = f(x)
	}
	return strings.Join(out, ";")
}

func vC04B(b bool) string {
	if b {
		return "1"
	}
	return "0"
}
func vC04F(f float64) string { return fmt.Sprintf("f%016x", math.Float64bits(f)) }

func vC04Val(v attribute.Value) string {
	switch v.Type() {
	case attribute.INVALID:
		return "N"
	case attribute.BOOL:
		return "B:" + vC04B(v.AsBool())
	case attribute.INT64:
		return "I:" + strconv.FormatInt(v.AsInt64(), 10)
	case attribute.FLOAT64:
		return "F:" + vC04F(v.AsFloat64())
	case attribute.STRING:
		return "S:" + vHex(v.AsString())
	case attribute.BOOLSLICE:
		return "BS:" + vC04Join(v.AsBoolSlice(), vC04B)
	case attribute.INT64SLICE:
		return "IS:" + vC04Join(v.AsInt64Slice(), func(n int64) string { return strconv.FormatInt(n, 10) })
	case attribute.FLOAT64SLICE:
		return "FS:" + vC04Join(v.AsFloat64Slice(), vC04F)
	case attribute.STRINGSLICE:
		return "SS:" + vC04Join(v.AsStringSlice(), vHex)
	}
	return "?" + v.Type().String()
}

func vC04KVs(kvs []attribute.KeyValue) string {
	if len(kvs) == 0 {
		return "-"
	}
	out := make([]string, len(kvs))
	for i, a := range kvs {
		out[i] = vHex(string(a.Key)) + "=" + vC04Val(a.Value)
	}
	return strings.Join(out, ",")
}

func vC04SC(sc trace.SpanContext) string {
	t, s := sc.TraceID(), sc.SpanID()
	return fmt.Sprintf("%d:%d:%d", t[15], s[7], sc.TraceState().Len())
}

func vC04Dump(s ReadOnlySpan) string {
	evs, lns := "-", "-"
	if es := s.Events(); len(es) > 0 {
		out := make([]string, len(es))
		for i, e := range es {
			out[i] = fmt.Sprintf("%s~%s~%d", vHex(e.Name), vC04KVs(e.Attributes), e.DroppedAttributeCount)
		}
		evs = strings.Join(out, "+")
	}
	if ls := s.Links(); len(ls) > 0 {
		out := make([]string, len(ls))
		for i, l := range ls {
			out[i] = fmt.Sprintf("%s~%s~%d", vC04SC(l.SpanContext), vC04KVs(l.Attributes), l.DroppedAttributeCount)
		}
		lns = strings.Join(out, "+")
	}
	st := s.Status()
	return fmt.Sprintf("%s %d %s %s %d %s %d %s %d", vHex(s.Name()), uint32(st.Code), vHex(st.Description),
		vC04KVs(s.Attributes()), s.DroppedAttributes(), evs, s.DroppedEvents(), lns, s.DroppedLinks())
}

// ---------------------------------------------------------------- running one script

func vC04Split(toks []string) [][]string {
	var ops [][]string
	var cur []string
	for _, t := range toks {
		if t == "|" {
			if len(cur) > 0 {
				ops = append(ops, cur)
			}
			cur = nil
			continue
		}
		cur = append(cur, t)
	}
	if len(cur) > 0 {
		ops = append(ops, cur)
	}
	return ops
}

func vC04Run(lim [6]int, name string, ops [][]string) string {
	rec := &vC04Rec{}
	tp := NewTracerProvider(WithRawSpanLimits(SpanLimits{
		AttributeCountLimit: lim[0], AttributeValueLengthLimit: lim[1], EventCountLimit: lim[2],
		LinkCountLimit: lim[3], AttributePerEventCountLimit: lim[4], AttributePerLinkCountLimit: lim[5],
	}), WithSpanProcessor(rec))
	defer func() { _ = tp.Shutdown(context.Background()) }()

	// leading LN* SA? are given to Start as WithLinks / WithAttributes (newRecordingSpan adds the links, then the attributes)
	var so []trace.SpanStartOption
	i := 0
	var links []trace.Link
	for ; i < len(ops) && ops[i][0] == "LN"; i++ {
		links = append(links, trace.Link{SpanContext: vC04ParseSC(ops[i][1]), Attributes: vC04ParseKVs(ops[i][2])})
	}
	if len(links) > 0 {
		so = append(so, trace.WithLinks(links...))
	}
	if i < len(ops) && ops[i][0] == "SA" {
		so = append(so, trace.WithAttributes(vC04ParseKVs(ops[i][1])...))
		i++
	}
	_, span := tp.Tracer("verif").Start(context.Background(), name, so...)
	for ; i < len(ops); i++ {
		op := ops[i]
		switch op[0] {
		case "sa", "SA":
			span.SetAttributes(vC04ParseKVs(op[1])...)
		case "ev":
			kvs := vC04ParseKVs(op[2])
			switch {
			case kvs == nil:
				span.AddEvent(vUnhex(op[1]))
			case len(kvs) >= 2:
				// several WithAttributes options extend each other (trace/config.go)
				h := len(kvs) / 2
				span.AddEvent(vUnhex(op[1]), trace.WithAttributes(kvs[:h]...), trace.WithAttributes(kvs[h:]...))
			default:
				span.AddEvent(vUnhex(op[1]), trace.WithAttributes(kvs...))
			}
		case "ln", "LN":
			span.AddLink(trace.Link{SpanContext: vC04ParseSC(op[1]), Attributes: vC04ParseKVs(op[2])})
		case "re":
			var err error
			if op[1] != "-" {
				err = errors.New(vUnhex(op[1]))
			}
			kvs := vC04ParseKVs(op[2])
			if kvs == nil {
				span.RecordError(err)
			} else {
				span.RecordError(err, trace.WithAttributes(kvs...))
			}
		case "st":
			c, _ := strconv.Atoi(op[1])
			span.SetStatus(codes.Code(c), vUnhex(op[2]))
		case "nm":
			span.SetName(vUnhex(op[1]))
		case "end":
			span.End()
		default:
			panic("bad op " + op[0])
		}
	}
	atEnd := "- - - - - - - - -"
	if len(rec.snaps) > 0 {
		atEnd = vC04Dump(rec.snaps[0])
	}
	live := "- - - - - - - - -"
	if ro, ok := span.(ReadOnlySpan); ok {
		live = vC04Dump(ro)
	}
	return fmt.Sprintf("%d %s ## %s", len(rec.snaps), atEnd, live)
}

// ---------------------------------------------------------------- generators

var vC04Lims = []int{-1, 0, 1, 2, 3, 5, 128}

// six keys; the last one holds an invalid byte and a 2-byte character (keys are byte strings for the span)
var vC04Keys = []string{"a", "b", "c", "d", "e", "k\xff\xc5\xa1"}
var vC04Floats = []uint64{0, 0x8000000000000000, 0x3ff8000000000000, 0x7ff8000000000001, 0x7ff0000000000000, 0xfff0000000000000, 0x0000000000000001, 0x40091eb851eb851f}

func vC04Str(r *vRand) string {
	switch r.Intn(12) {
	case 0: // straddles the 128 limit in characters, with a few invalid bytes
		n := 124 + r.Intn(10)
		var sb strings.Builder
		for i := 0; i < n; i++ {
			if r.Intn(40) == 0 {
				sb.WriteString(vPieces[r.Intn(len(vPieces))])
			} else {
				sb.WriteString(vValidPieces[r.Intn(len(vValidPieces))])
			}
		}
		return sb.String()
	case 1, 2, 3:
		return vValidStr(r, 8)
	case 4:
		return ""
	default:
		return vStr(r, 8)
	}
}

func vC04GenVal(r *vRand) string {
	switch r.Intn(20) {
	case 0:
		return "N"
	case 1:
		return "B:" + vC04B(r.Bool())
	case 2, 3:
		return "I:" + strconv.FormatInt(int64(r.U64()>>uint(r.Intn(64)))*int64(1-2*r.Intn(2)), 10)
	case 4:
		return "F:" + fmt.Sprintf("f%016x", vPick(r, vC04Floats))
	case 5:
		n := r.Intn(4)
		xs := make([]string, n)
		for i := range xs {
			xs[i] = vC04B(r.Bool())
		}
		return "BS:" + strings.Join(xs, ";")
	case 6:
		n := r.Intn(4)
		xs := make([]string, n)
		for i := range xs {
			xs[i] = strconv.Itoa(r.Intn(7) - 3)
		}
		return "IS:" + strings.Join(xs, ";")
	case 7:
		n := r.Intn(4)
		xs := make([]string, n)
		for i := range xs {
			xs[i] = fmt.Sprintf("f%016x", vPick(r, vC04Floats))
		}
		return "FS:" + strings.Join(xs, ";")
	case 8, 9, 10:
		n := r.Intn(4)
		xs := make([]string, n)
		for i := range xs {
			xs[i] = vHex(vC04Str(r))
		}
		return "SS:" + strings.Join(xs, ";")
	default:
		return "S:" + vHex(vC04Str(r))
	}
}

func vC04GenKey(r *vRand, wide int) string {
	if r.Intn(16) == 0 {
		return ""
	}
	if wide > 0 {
		return "k" + strconv.Itoa(r.Intn(wide))
	}
	return vPick(r, vC04Keys)
}

func vC04GenKVs(r *vRand, max int, wide int) string {
	n := r.Intn(max + 1)
	if n == 0 {
		return "-"
	}
	xs := make([]string, n)
	for i := range xs {
		xs[i] = vHex(vC04GenKey(r, wide)) + "=" + vC04GenVal(r)
	}
	return strings.Join(xs, ",")
}

func vC04GenSC(r *vRand) string {
	return fmt.Sprintf("%d:%d:%d", r.Intn(3), r.Intn(3), r.Intn(3)/2)
}

func vC04GenOp(r *vRand, wide int) []string {
	switch x := r.Intn(100); {
	case x < 42:
		return []string{"sa", vC04GenKVs(r, 6, wide)}
	case x < 56:
		return []string{"ev", vHex(vValidStr(r, 2)), vC04GenKVs(r, 4, wide)}
	case x < 66:
		return []string{"ln", vC04GenSC(r), vC04GenKVs(r, 3, wide)}
	case x < 74:
		if r.Intn(8) == 0 {
			return []string{"re", "-", vC04GenKVs(r, 3, wide)}
		}
		return []string{"re", vHex(vStr(r, 3)), vC04GenKVs(r, 3, wide)}
	case x < 88:
		return []string{"st", strconv.Itoa(r.Intn(3)), vHex(vStr(r, 2))}
	case x < 95:
		return []string{"nm", vHex(vStr(r, 3))}
	default:
		return []string{"end"}
	}
}

func vC04Line(out *vOut, gen string, lim [6]int, name string, ops [][]string) {
	var sb strings.Builder
	fmt.Fprintf(&sb, "span %s %d %d %d %d %d %d %s", gen, lim[0], lim[1], lim[2], lim[3], lim[4], lim[5], vHex(name))
	for _, op := range ops {
		sb.WriteString(" | ")
		sb.WriteString(strings.Join(op, " "))
	}
	out.Line("%s => %s", sb.String(), vC04Run(lim, name, ops))
}

func vC04EnsureEnd(ops [][]string) [][]string {
	for _, op := range ops {
		if op[0] == "end" {
			return ops
		}
	}
	return append(ops, []string{"end"})
}

func TestVerifC04Span(t *testing.T) {
	out := vOpen(t)
	defer out.Close()
	if rp := vReplayLines(); rp != nil {
		for _, f := range rp {
			if f[0] != "span" || len(f) < 9 {
				continue
			}
			var lim [6]int
			for i := range lim {
				lim[i], _ = strconv.Atoi(f[2+i])
			}
			vC04Line(out, f[1], lim, vUnhex(f[8]), vC04Split(f[9:]))
		}
		return
	}
	r := &vRand{s: vSeed() ^ 0xc04}
	n := vN(5000)

	if os_exhaustive() {
		// every script of <= 4 ops over a reduced op alphabet, all six limits = L for L in -1..2
		alpha := [][]string{
			{"sa", "x61=I:1"},
			{"sa", "x62=S:" + vHex("h\xc3\xa9llo\xff")},
			{"sa", "x61=I:3,x63=I:4"},
			{"sa", "x=I:1,x61=N"},
			{"ev", "x65", "x61=I:1,x62=I:2"},
			{"ln", "1:1:0", "x61=I:1"},
			{"st", "1", "x64"},
			{"st", "2", "x"},
			{"end"},
		}
		var rec func(prefix [][]string, depth int)
		rec = func(prefix [][]string, depth int) {
			for l := -1; l <= 2; l++ {
				vC04Line(out, "exh", [6]int{l, l, l, l, l, l}, "n", vC04EnsureEnd(append([][]string{}, prefix...)))
			}
			if depth == 4 {
				return
			}
			for _, op := range alpha {
				rec(append(append([][]string{}, prefix...), op), depth+1)
			}
		}
		rec(nil, 0)
	}

	for i := 0; i < n; i++ {
		var lim [6]int
		for j := range lim {
			lim[j] = vPick(r, vC04Lims)
		}
		name := vStr(r, 2)
		var ops [][]string
		gen := "rnd"
		switch x := r.Intn(200); {
		case x < 6:
			// many distinct keys: the attribute limit 128 (and 5, and none) is really reached
			gen = "wide"
			lim[0] = vPick(r, []int{128, 128, -1, 5})
			k := 12 + r.Intn(14)
			for j := 0; j < k; j++ {
				if r.Intn(6) == 0 {
					ops = append(ops, vC04GenOp(r, 140))
				} else {
					ops = append(ops, []string{"sa", vC04GenKVs(r, 14, 140)})
				}
			}
		case x < 8:
			// more events / links than the 128 limit
			gen = "many"
			lim[2] = vPick(r, []int{128, 128, 5})
			lim[3] = vPick(r, []int{128, 128, 5})
			k := 125 + r.Intn(12)
			for j := 0; j < k; j++ {
				ops = append(ops, []string{"ev", vHex("e" + strconv.Itoa(j)), "-"})
				ops = append(ops, []string{"ln", "1:1:0", "x61=I:" + strconv.Itoa(j)})
			}
		default:
			if r.Intn(3) == 0 {
				gen = "start"
				for k := r.Intn(3); k > 0; k-- {
					ops = append(ops, []string{"LN", vC04GenSC(r), vC04GenKVs(r, 3, 0)})
				}
				if r.Bool() {
					ops = append(ops, []string{"SA", vC04GenKVs(r, 6, 0)})
				}
			}
			k := r.Intn(41)
			if r.Intn(4) == 0 {
				k = r.Intn(6)
			}
			for j := 0; j < k; j++ {
				ops = append(ops, vC04GenOp(r, 0))
			}
		}
		vC04Line(out, gen, lim, name, vC04EnsureEnd(ops))
	}
}
