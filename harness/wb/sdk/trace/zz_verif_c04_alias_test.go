package trace

import (
	"context"
	"errors"
	"fmt"
	"reflect"
	"strconv"
	"strings"
	"testing"

	"go.opentelemetry.io/otel/attribute"
	"go.opentelemetry.io/otel/codes"
	"go.opentelemetry.io/otel/trace"
)

// Caller-buffer scripts (line kind `spanb`, leg `alias`; helpers of zz_verif_c04_span_test.go): the attribute arguments of
// AddEvent / RecordError / SetAttributes / AddLink / Tracer.Start options are SUB-SLICES OF CALLER-OWNED ARRAYS that have
// spare capacity behind them and that the caller keeps writing to afterwards (the scratch-buffer and the attribute-table
// idioms). What is compared: the snapshot handed to OnEnd and the span read back — both dumped AFTER the last caller
// write — and the final content of every caller array over its whole capacity. This drives the option/config code of
// the API module (trace/config.go: attributeOption.applyEvent / applySpan, NewEventConfig, NewSpanStartConfig, WithLinks)
// with slices for which "store the argument" and "copy the argument" differ observably.
//
//	spanb <gen> <6 limits> <hex name> <cap0,cap1,cap2> | op | op … =>
//	      <#OnEnd> <snapshot at End> ## <span read back> ## <array 0> <array 1> <array 2> <spare>
//
//	op = the ops of `span` lines (literal arguments) and
//	     wr <b> <off> <kvs>          the caller writes: copy(array_b[off:], kvs)
//	     sab <segs>                  SetAttributes(seg...) (several segments: their concatenation)
//	     evb <hex name> <segs>       AddEvent(name, WithAttributes(seg1...), WithAttributes(seg2...), …)
//	     reb <hex msg|-> <segs>      RecordError(err, WithAttributes(seg1...), …)
//	     lnb <tid:sid:ts> <seg>      AddLink(Link{sc, seg})
//	     LN/LNB/SA/SAB (leading)     Tracer.Start options: the links split over two WithLinks options (slices with spare
//	                                 capacity), SAB = one WithAttributes option per segment
//	seg  = <b>:<off>:<n> = array_b[off : off+n] (capacity = cap_b - off); segs = seg+seg+… or `-`
//	array dump = kvs over the whole capacity (never written cells are `x=N`); spare = number of cells in the spare
//	capacity of the []Link / []EventOption slices handed to the SDK that are no longer zero after the script.
//
// AddLink copies the attributes it keeps (span.go `slices.Clone`, the F44 repair in /repo 48fa451; before it the link kept
// the caller's slice): the generators write to every array — also the ones that fed lnb/LNB — between the calls and after End.

type vC04Seg struct{ b, off, n int }

func vC04ParseSegs(tok string) []vC04Seg {
	if tok == "-" {
		return nil
	}
	var out []vC04Seg
	for _, t := range strings.Split(tok, "+") {
		p := strings.Split(t, ":")
		b, _ := strconv.Atoi(p[0])
		off, _ := strconv.Atoi(p[1])
		n, _ := strconv.Atoi(p[2])
		out = append(out, vC04Seg{b, off, n})
	}
	return out
}

type vC04Bufs [][]attribute.KeyValue

func (bs vC04Bufs) seg(s vC04Seg) []attribute.KeyValue {
	if s.b >= len(bs) || s.off > len(bs[s.b]) {
		return nil
	}
	b := bs[s.b]
	end := s.off + s.n
	if end > len(b) {
		end = len(b)
	}
	return b[s.off:end] // capacity reaches to the end of the caller's array
}

// concat: one segment is handed over as it is (the variadic parameter then IS the caller's slice)
func (bs vC04Bufs) concat(segs []vC04Seg) []attribute.KeyValue {
	if len(segs) == 1 {
		return bs.seg(segs[0])
	}
	var all []attribute.KeyValue
	for _, s := range segs {
		all = append(all, bs.seg(s)...)
	}
	return all
}

func (bs vC04Bufs) attrOpts(segs []vC04Seg) []trace.EventOption {
	// the option slice has spare capacity: RecordError must not append its own option into it (F45, /repo 30d2a20)
	opts := make([]trace.EventOption, 0, len(segs)+2)
	for _, s := range segs {
		opts = append(opts, trace.WithAttributes(bs.seg(s)...))
	}
	return opts
}

func vC04RunB(lim [6]int, name string, caps []int, ops [][]string) string {
	rec := &vC04Rec{}
	tp := NewTracerProvider(WithRawSpanLimits(SpanLimits{
		AttributeCountLimit: lim[0], AttributeValueLengthLimit: lim[1], EventCountLimit: lim[2],
		LinkCountLimit: lim[3], AttributePerEventCountLimit: lim[4], AttributePerLinkCountLimit: lim[5],
	}), WithSpanProcessor(rec))
	defer func() { _ = tp.Shutdown(context.Background()) }()

	bufs := make(vC04Bufs, len(caps))
	for i, c := range caps {
		bufs[i] = make([]attribute.KeyValue, c)
	}
	write := func(op []string) {
		b, _ := strconv.Atoi(op[1])
		off, _ := strconv.Atoi(op[2])
		if b < len(bufs) && off <= len(bufs[b]) {
			copy(bufs[b][off:], vC04ParseKVs(op[3]))
		}
	}

	// leading block: wr* (LN|LNB)* (SA|SAB)? are given to Start
	var so []trace.SpanStartOption
	var links []trace.Link
	i := 0
loop:
	for ; i < len(ops); i++ {
		switch ops[i][0] {
		case "wr":
			if len(links) > 0 {
				break loop // a write after the first link belongs to the body: the links are read by Start
			}
			write(ops[i])
		case "LN":
			links = append(links, trace.Link{SpanContext: vC04ParseSC(ops[i][1]), Attributes: vC04ParseKVs(ops[i][2])})
		case "LNB":
			sg := vC04ParseSegs(ops[i][2])
			links = append(links, trace.Link{SpanContext: vC04ParseSC(ops[i][1]), Attributes: bufs.seg(sg[0])})
		default:
			break loop
		}
	}
	var spareLinks [][]trace.Link
	if len(links) > 0 {
		h := len(links) / 2
		for _, part := range [][]trace.Link{links[:h], links[h:]} {
			if len(part) == 0 {
				continue
			}
			ls := make([]trace.Link, len(part), len(part)+3)
			copy(ls, part)
			spareLinks = append(spareLinks, ls)
			so = append(so, trace.WithLinks(ls...))
		}
	}
	if i < len(ops) && ops[i][0] == "SA" {
		so = append(so, trace.WithAttributes(vC04ParseKVs(ops[i][1])...))
		i++
	} else if i < len(ops) && ops[i][0] == "SAB" {
		for _, s := range vC04ParseSegs(ops[i][1]) {
			so = append(so, trace.WithAttributes(bufs.seg(s)...))
		}
		i++
	}
	_, span := tp.Tracer("verif").Start(context.Background(), name, so...)
	spareOpts := 0
	for ; i < len(ops); i++ {
		op := ops[i]
		switch op[0] {
		case "wr":
			write(op)
		case "sa", "SA":
			span.SetAttributes(vC04ParseKVs(op[1])...)
		case "sab", "SAB":
			span.SetAttributes(bufs.concat(vC04ParseSegs(op[1]))...)
		case "ev":
			if kvs := vC04ParseKVs(op[2]); kvs == nil {
				span.AddEvent(vUnhex(op[1]))
			} else {
				span.AddEvent(vUnhex(op[1]), trace.WithAttributes(kvs...))
			}
		case "evb":
			span.AddEvent(vUnhex(op[1]), bufs.attrOpts(vC04ParseSegs(op[2]))...)
		case "ln", "LN":
			span.AddLink(trace.Link{SpanContext: vC04ParseSC(op[1]), Attributes: vC04ParseKVs(op[2])})
		case "lnb", "LNB":
			sg := vC04ParseSegs(op[2])
			span.AddLink(trace.Link{SpanContext: vC04ParseSC(op[1]), Attributes: bufs.seg(sg[0])})
		case "re", "reb":
			var err error
			if op[1] != "-" {
				err = errors.New(vUnhex(op[1]))
			}
			if op[0] == "reb" {
				o := bufs.attrOpts(vC04ParseSegs(op[2]))
				span.RecordError(err, o...)
				for _, x := range o[len(o):cap(o)] {
					if x != nil {
						spareOpts++
					}
				}
			} else if kvs := vC04ParseKVs(op[2]); kvs == nil {
				span.RecordError(err)
			} else {
				span.RecordError(err, trace.WithAttributes(kvs...))
			}
		case "st":
			c, _ := strconv.Atoi(op[1])
			span.SetStatus(codes.Code(c), vUnhex(op[2]))
		case "nm":
			span.SetName(vUnhex(op[1]))
		case "end":
			span.End()
		default:
			panic("bad op " + op[0])
		}
	}
	atEnd := "- - - - - - - - -"
	if len(rec.snaps) > 0 {
		atEnd = vC04Dump(rec.snaps[0])
	}
	live := "- - - - - - - - -"
	if ro, ok := span.(ReadOnlySpan); ok {
		live = vC04Dump(ro)
	}
	spare := spareOpts
	for _, ls := range spareLinks {
		for _, l := range ls[len(ls):cap(ls)] {
			if !reflect.DeepEqual(l, trace.Link{}) {
				spare++
			}
		}
	}
	dump := make([]string, len(bufs))
	for j, b := range bufs {
		dump[j] = vC04KVs(b)
	}
	return fmt.Sprintf("%d %s ## %s ## %s %d", len(rec.snaps), atEnd, live, strings.Join(dump, " "), spare)
}

// ---------------------------------------------------------------- generator

func vC04GenSeg(r *vRand, b int, caps []int) string {
	c := caps[b]
	if c == 0 {
		return fmt.Sprintf("%d:0:0", b)
	}
	off := r.Intn(c)
	n := r.Intn(c - off + 1)
	if r.Intn(3) > 0 && n > 3 {
		n = 1 + r.Intn(3)
	}
	return fmt.Sprintf("%d:%d:%d", b, off, n)
}

func vC04GenSegs(r *vRand, caps []int, max int) string {
	n := 1 + r.Intn(max)
	xs := make([]string, n)
	for i := range xs {
		xs[i] = vC04GenSeg(r, r.Intn(len(caps)), caps)
	}
	return strings.Join(xs, "+")
}

// recognisable small values: the write counter makes every written cell distinct
func vC04GenFill(r *vRand, n int, ctr *int) string {
	if n == 0 {
		return "-"
	}
	xs := make([]string, n)
	for i := range xs {
		*ctr++
		if r.Intn(10) == 0 {
			xs[i] = vHex(vC04GenKey(r, 0)) + "=" + vC04GenVal(r)
		} else {
			xs[i] = vHex(vPick(r, vC04Keys[:5])) + "=I:" + strconv.Itoa(*ctr)
		}
	}
	return strings.Join(xs, ",")
}

func vC04GenWrite(r *vRand, b int, caps []int, ctr *int) []string {
	c := caps[b]
	if c == 0 {
		return []string{"wr", strconv.Itoa(b), "0", "-"}
	}
	off := 0
	if r.Intn(3) == 0 {
		off = r.Intn(c)
	}
	n := 1 + r.Intn(c-off)
	return []string{"wr", strconv.Itoa(b), strconv.Itoa(off), vC04GenFill(r, n, ctr)}
}

func vC04GenAliasScript(r *vRand) (caps []int, ops [][]string) {
	nw := 3 // arrays the caller writes to after the leading block
	caps = []int{vPick(r, []int{2, 4, 6, 8}), vPick(r, []int{0, 3, 5, 8}), vPick(r, []int{0, 2, 4, 6})}
	ctr := 0
	// leading block: fill the arrays
	for b := range caps {
		if caps[b] > 0 && r.Intn(8) > 0 {
			ops = append(ops, []string{"wr", strconv.Itoa(b), "0", vC04GenFill(r, caps[b]-r.Intn(2), &ctr)})
		}
	}
	if r.Intn(3) == 0 {
		for k := r.Intn(4); k > 0; k-- {
			if r.Bool() {
				ops = append(ops, []string{"LNB", vC04GenSC(r), vC04GenSeg(r, r.Intn(len(caps)), caps)})
			} else {
				ops = append(ops, []string{"LN", vC04GenSC(r), vC04GenKVs(r, 3, 0)})
			}
		}
		switch r.Intn(3) {
		case 0:
			ops = append(ops, []string{"SAB", vC04GenSegs(r, caps, 3)})
		case 1:
			ops = append(ops, []string{"SA", vC04GenKVs(r, 4, 0)})
		}
	}
	k := 2 + r.Intn(14)
	for j := 0; j < k; j++ {
		switch x := r.Intn(100); {
		case x < 26:
			ops = append(ops, vC04GenWrite(r, r.Intn(nw), caps, &ctr))
		case x < 50:
			ops = append(ops, []string{"evb", vHex("e" + strconv.Itoa(j)), vC04GenSegs(r, caps, 2)})
		case x < 66:
			msg := vHex("m" + strconv.Itoa(j))
			if r.Intn(10) == 0 {
				msg = "-"
			}
			ops = append(ops, []string{"reb", msg, vC04GenSegs(r, caps, 2)})
		case x < 76:
			ops = append(ops, []string{"sab", vC04GenSeg(r, r.Intn(len(caps)), caps)})
		case x < 84:
			ops = append(ops, []string{"lnb", vC04GenSC(r), vC04GenSeg(r, r.Intn(len(caps)), caps)})
		default:
			ops = append(ops, vC04GenOp(r, 0))
		}
	}
	if r.Intn(4) > 0 {
		// the caller re-uses its arrays after the span has ended, too
		ops = append(vC04EnsureEnd(ops), vC04GenWrite(r, 0, caps, &ctr))
		if caps[1] > 0 {
			ops = append(ops, vC04GenWrite(r, 1, caps, &ctr))
		}
		if nw == 3 && caps[2] > 0 && r.Bool() {
			ops = append(ops, vC04GenWrite(r, 2, caps, &ctr))
		}
	}
	return caps, vC04EnsureEnd(ops)
}

func vC04LineB(out *vOut, gen string, lim [6]int, name string, caps []int, ops [][]string) {
	var sb strings.Builder
	cs := make([]string, len(caps))
	for i, c := range caps {
		cs[i] = strconv.Itoa(c)
	}
	fmt.Fprintf(&sb, "spanb %s %d %d %d %d %d %d %s %s", gen, lim[0], lim[1], lim[2], lim[3], lim[4], lim[5], vHex(name), strings.Join(cs, ","))
	for _, op := range ops {
		sb.WriteString(" | ")
		sb.WriteString(strings.Join(op, " "))
	}
	out.Line("%s => %s", sb.String(), vC04RunB(lim, name, caps, ops))
}

func vC04ReplayB(out *vOut, f []string) {
	var lim [6]int
	for i := range lim {
		lim[i], _ = strconv.Atoi(f[2+i])
	}
	var caps []int
	for _, c := range strings.Split(f[9], ",") {
		n, _ := strconv.Atoi(c)
		caps = append(caps, n)
	}
	vC04LineB(out, f[1], lim, vUnhex(f[8]), caps, vC04Split(f[10:]))
}

func TestVerifC04Alias(t *testing.T) {
	out := vOpen(t)
	defer out.Close()
	if rp := vReplayLines(); rp != nil {
		for _, f := range rp {
			if f[0] == "spanb" && len(f) >= 10 {
				vC04ReplayB(out, f)
			}
		}
		return
	}
	r := &vRand{s: vSeed() ^ 0xc04a11a5}
	n := vN(4000)
	for i := 0; i < n; i++ {
		var lim [6]int
		for j := range lim {
			lim[j] = vPick(r, vC04Lims)
		}
		if r.Intn(3) > 0 {
			lim[4] = vPick(r, []int{-1, -1, 128, 3, 2})
		}
		if r.Intn(3) > 0 {
			lim[2] = vPick(r, []int{-1, 128, 5, 3})
		}
		caps, ops := vC04GenAliasScript(r)
		vC04LineB(out, "alias", lim, vStr(r, 2), caps, ops)
	}
}
