package trace

// C01 harness: batch span processor.
//   TestVerifC01Sched: controlled schedules (gated exporter, no timer), one API call at a time, wait for
//     quiescence, observe after every op. Line: `sched <gen> <cap> <maxB> <blocking> | ops… => obs…`
//   TestVerifC01Hist: free-running stress histories with linearizable stamps, judged by the Spec oracle only.
//     Line: `hist <gen> <cap> <maxB> <blocking> <dropped> | events… => -`

import (
	"context"
	"encoding/binary"
	"errors"
	"fmt"
	"runtime"
	"sort"
	"strconv"
	"strings"
	"sync"
	"sync/atomic"
	"testing"
	"time"

	"go.opentelemetry.io/otel"
	"go.opentelemetry.io/otel/trace"
)

// the package's own tests install a global error handler that is not safe for concurrent use (trace_test.go
// storingHandler); export errors are reported from several worker goroutines here, so use a safe one.
func c01SafeHandler() func() {
	otel.SetErrorHandler(otel.ErrorHandlerFunc(func(error) {}))
	return func() { otel.SetErrorHandler(handler) }
}

func c01Span(id int, sampled bool) ReadOnlySpan {
	var tid trace.TraceID
	var sid trace.SpanID
	binary.BigEndian.PutUint64(tid[8:], uint64(id)+1)
	binary.BigEndian.PutUint64(sid[:], uint64(id)+1)
	fl := trace.TraceFlags(0)
	if sampled {
		fl = trace.FlagsSampled
	}
	sc := trace.NewSpanContext(trace.SpanContextConfig{TraceID: tid, SpanID: sid, TraceFlags: fl})
	return &snapshot{spanContext: sc, name: "s" + strconv.Itoa(id)}
}

func c01ID(s ReadOnlySpan) int {
	tid := s.SpanContext().TraceID()
	return int(binary.BigEndian.Uint64(tid[8:])) - 1
}

func c01Dot(ids []int) string {
	if len(ids) == 0 {
		return "-"
	}
	ss := make([]string, len(ids))
	for i, v := range ids {
		ss[i] = strconv.Itoa(v)
	}
	return strings.Join(ss, ".")
}

// ---------------------------------------------------------------- controlled schedules

// c01ParkReq is a parking request the verif-tag hook (zz_verif_c01_park_test.go) consumes: the goroutine that was
// started for the call and reaches the named verifPoint is parked until `release` is closed. Requests are keyed by
// goroutine id, so scripts (each with its own processor) can run in parallel.
type c01ParkReq struct {
	name    string
	parked  chan struct{}
	release chan struct{}
}

var c01Park sync.Map // goroutine id -> *c01ParkReq

// c01Reach: goroutine id -> *atomic.Bool, set when that goroutine reaches the hook "bsp.OnEnd.checked", i.e. its OnEnd
// passed the `stopped` check (the span is accepted: the model's label `accept`). c01HookOn is set by the verif-tagged
// file when the hooks are compiled in; without them the harness falls back to loading `stopped` before the call.
var c01Reach sync.Map
var c01HookOn atomic.Bool
var c01ReachN, c01ParkN atomic.Int64 // number of armed recorders / parking requests

// c01OnEnd calls OnEnd in the current goroutine and reports whether the call passed the processor's own `stopped`
// check (exact with the hooks; otherwise `stopped` was still false just before the call).
func c01OnEnd(bsp *batchSpanProcessor, s ReadOnlySpan) bool {
	flag := &atomic.Bool{}
	c01OnEndFlag(bsp, s, flag)
	return flag.Load()
}

// c01OnEndFlag is c01OnEnd with the flag owned by the caller, so that it can be read while the call is still blocked.
func c01OnEndFlag(bsp *batchSpanProcessor, s ReadOnlySpan, flag *atomic.Bool) {
	if !c01HookOn.Load() {
		flag.Store(!bsp.stopped.Load())
		bsp.OnEnd(s)
		return
	}
	id := c01Goid()
	c01Reach.Store(id, flag)
	c01ReachN.Add(1)
	defer func() { c01Reach.Delete(id); c01ReachN.Add(-1) }()
	bsp.OnEnd(s)
}

func c01Goid() int {
	var buf [64]byte
	n := runtime.Stack(buf[:], false)
	f := strings.Fields(string(buf[:n]))
	if len(f) < 2 {
		return -1
	}
	id, _ := strconv.Atoi(f[1])
	return id
}

// c01HookFn is installed as VerifPointFn by the verif-tagged file.
func c01HookFn(name string) {
	// no overhead (no timing change of the code under test) at points nobody is interested in: the hist leg only
	// records OnEnd.checked, the park leg only looks while a parking request is armed
	wantReach := name == "bsp.OnEnd.checked" && c01ReachN.Load() > 0
	if !wantReach && c01ParkN.Load() == 0 {
		return
	}
	id := c01Goid()
	if wantReach {
		if v, ok := c01Reach.Load(id); ok {
			v.(*atomic.Bool).Store(true)
		}
	}
	if v, ok := c01Park.Load(id); ok {
		req := v.(*c01ParkReq)
		if req.name == name {
			c01Park.Delete(id)
			close(req.parked)
			<-req.release
		}
	}
}

// c01ParkCall starts `call` in a goroutine after arming a parking request for `name`; it returns the request if the
// goroutine parked there, or nil if the call went by without reaching the point (e.g. stopped was already set).
func c01ParkCall(r *c01Run, name string, call func()) *c01ParkReq {
	req := &c01ParkReq{name: name, parked: make(chan struct{}), release: make(chan struct{})}
	done := make(chan struct{})
	r.pending.Add(1)
	go func() {
		defer r.pending.Done()
		defer close(done)
		id := c01Goid()
		c01Park.Store(id, req)
		c01ParkN.Add(1)
		defer func() { c01Park.Delete(id); c01ParkN.Add(-1) }()
		call()
	}()
	select {
	case <-req.parked:
		return req
	case <-done:
		return nil
	case <-time.After(2 * time.Second):
		return nil
	}
}

type c01GateExp struct {
	mu       sync.Mutex
	log      [][]int
	inExport bool
	atGate   bool // blocked on the gate (inExport stays true until the call returns)
	gate     chan int // 1 = return nil, 0 = return an error, 2 = wait until the export context is done, return ctx.Err()
	shutdown int
}

func (e *c01GateExp) ExportSpans(ctx context.Context, spans []ReadOnlySpan) error {
	ids := make([]int, len(spans))
	for i, s := range spans {
		ids[i] = c01ID(s)
	}
	e.mu.Lock()
	e.log = append(e.log, ids)
	e.inExport = true
	e.atGate = true
	e.mu.Unlock()
	code := <-e.gate
	e.mu.Lock()
	e.atGate = false
	e.mu.Unlock()
	var err error
	switch code {
	case 0:
		err = errors.New("scripted export error")
	case 2:
		// an exporter that gives up when its context ends (ExportTimeout / cancelled ForceFlush context)
		select {
		case <-ctx.Done():
			err = ctx.Err()
		case <-time.After(2 * time.Second):
			err = errors.New("export context never ended")
		}
	}
	e.mu.Lock()
	e.inExport = false
	e.mu.Unlock()
	return err
}

func (e *c01GateExp) Shutdown(ctx context.Context) error {
	e.mu.Lock()
	e.shutdown++
	e.mu.Unlock()
	return nil
}

type c01Run struct {
	bsp     *batchSpanProcessor
	exp     *c01GateExp
	mu      sync.Mutex
	ended   map[int]bool   // OnEnd returned
	ffRes   map[int]string // fid -> p|o|e
	sdRes   []string       // one of p|o|e per Shutdown call, in call order (empty: none called)
	pending sync.WaitGroup
	pkSpan  map[int]*c01ParkReq
	pkFF    map[int]*c01ParkReq
	pkSd    *c01ParkReq
}

func (r *c01Run) obs() string {
	r.exp.mu.Lock()
	bs := make([]string, len(r.exp.log))
	for i, b := range r.exp.log {
		bs[i] = c01Dot(b)
	}
	inx := 0
	if r.exp.inExport {
		inx = 1
	}
	nsd := r.exp.shutdown
	r.exp.mu.Unlock()
	l := "-"
	if len(bs) > 0 {
		l = strings.Join(bs, "/")
	}
	r.mu.Lock()
	fids := []int{}
	for f := range r.ffRes {
		fids = append(fids, f)
	}
	sort.Ints(fids)
	fs := make([]string, len(fids))
	for i, f := range fids {
		fs[i] = fmt.Sprintf("%d:%s", f, r.ffRes[f])
	}
	ended := []int{}
	for id := range r.ended {
		ended = append(ended, id)
	}
	sort.Ints(ended)
	sd := "n"
	if len(r.sdRes) > 0 {
		sd = strings.Join(r.sdRes, "")
	}
	r.mu.Unlock()
	f := "-"
	if len(fs) > 0 {
		f = strings.Join(fs, ",")
	}
	return fmt.Sprintf("L=%s;X=%d;F=%s;S=%s;D=%d;Q=%d;E=%s;H=%d", l, inx, f, sd,
		atomic.LoadUint32(&r.bsp.dropped), len(r.bsp.queue), c01Dot(ended), nsd)
}

// settle waits until the observation has been stable for `win`.
func (r *c01Run) settle(win time.Duration) string {
	last := r.obs()
	stableSince := time.Now()
	deadline := time.Now().Add(2 * time.Second)
	for time.Now().Before(deadline) {
		time.Sleep(win / 8)
		runtime.Gosched()
		cur := r.obs()
		if cur != last {
			last = cur
			stableSince = time.Now()
			continue
		}
		if time.Since(stableSince) >= win {
			return cur
		}
	}
	return last
}

func c01RunSched(capQ, maxB int, blocking bool, ops []string, win time.Duration) []string {
	exp := &c01GateExp{gate: make(chan int)}
	exportTimeout := time.Duration(0)
	for _, op := range ops {
		if op == "gt" {
			exportTimeout = 10 * time.Millisecond // scripts with a `gt` op run with an export timeout
		}
	}
	opts := []BatchSpanProcessorOption{WithMaxQueueSize(capQ), WithMaxExportBatchSize(maxB), WithBatchTimeout(time.Hour), WithExportTimeout(exportTimeout)}
	if blocking {
		opts = append(opts, WithBlocking())
	}
	bsp := NewBatchSpanProcessor(exp, opts...).(*batchSpanProcessor)
	r := &c01Run{bsp: bsp, exp: exp, ended: map[int]bool{}, ffRes: map[int]string{},
		pkSpan: map[int]*c01ParkReq{}, pkFF: map[int]*c01ParkReq{}}
	// a Shutdown call (any number of them, each in its own goroutine): records its result under its call index
	// expired: the call is made with a context that has already ended (op `st`)
	shutdownCallCtx := func(idx int, expired bool) func() {
		return func() {
			ctx := context.Background()
			if expired {
				c, cancel := context.WithCancel(ctx)
				cancel()
				ctx = c
			}
			err := bsp.Shutdown(ctx)
			r.mu.Lock()
			if err == nil {
				r.sdRes[idx] = "o"
			} else {
				r.sdRes[idx] = "e"
			}
			r.mu.Unlock()
		}
	}
	shutdownCall := func(idx int) func() { return shutdownCallCtx(idx, false) }
	out := []string{}
	for _, op := range ops {
		switch {
		case op == "g+" || op == "g-" || op == "gt":
			exp.mu.Lock()
			in := exp.atGate
			exp.mu.Unlock()
			if in {
				select {
				case exp.gate <- map[string]int{"g+": 1, "g-": 0, "gt": 2}[op]:
				case <-time.After(time.Second):
				}
				if op == "gt" {
					// the call returns when its context ends (10 ms export timeout): wait for that before observing
					for i := 0; i < 2000; i++ {
						exp.mu.Lock()
						in = exp.inExport
						exp.mu.Unlock()
						if !in {
							break
						}
						time.Sleep(time.Millisecond)
					}
				}
			}
		case op == "sp": // Shutdown parked right after it stored `stopped`
			r.mu.Lock()
			idx := len(r.sdRes)
			r.sdRes = append(r.sdRes, "p")
			r.mu.Unlock()
			if idx == 0 {
				r.pkSd = c01ParkCall(r, "bsp.Shutdown.stored", shutdownCall(idx))
			} else {
				// not the first call: it waits inside stopOnce.Do and never reaches the hook — an ordinary call
				r.pending.Add(1)
				go func() {
					defer r.pending.Done()
					shutdownCall(idx)()
				}()
			}
		case op == "sr":
			if r.pkSd != nil {
				close(r.pkSd.release)
				r.pkSd = nil
			}
		case strings.HasPrefix(op, "fp"): // ForceFlush parked right after its stopped check
			fid, _ := strconv.Atoi(op[2:])
			r.mu.Lock()
			r.ffRes[fid] = "p"
			r.mu.Unlock()
			if req := c01ParkCall(r, "bsp.ForceFlush.checked", func() {
				err := bsp.ForceFlush(context.Background())
				r.mu.Lock()
				if err == nil {
					r.ffRes[fid] = "o"
				} else {
					r.ffRes[fid] = "e"
				}
				r.mu.Unlock()
			}); req != nil {
				r.pkFF[fid] = req
			}
		case strings.HasPrefix(op, "fr"):
			fid, _ := strconv.Atoi(op[2:])
			if req := r.pkFF[fid]; req != nil {
				close(req.release)
				delete(r.pkFF, fid)
			}
		case op[0] == 'p': // OnEnd parked right after its stopped check
			id, _ := strconv.Atoi(op[1:])
			reached := make(chan bool, 1)
			req := c01ParkCall(r, "bsp.OnEnd.checked", func() {
				bsp.OnEnd(c01Span(id, true))
				// the call reached the hook iff it passed the stopped check: only then is it an accepted End, and it has
				// "returned" (model: `seen`) once the send or drop is done
				if <-reached {
					r.mu.Lock()
					r.ended[id] = true
					r.mu.Unlock()
				}
			})
			reached <- req != nil
			if req != nil {
				r.pkSpan[id] = req
			}
		case op[0] == 'r' && len(op) > 1:
			id, _ := strconv.Atoi(op[1:])
			if req := r.pkSpan[id]; req != nil {
				close(req.release)
				delete(r.pkSpan, id)
			}
		case op == "s" || op == "st": // every `s` is a Shutdown call of its own goroutine: the first wins stopOnce, the others wait in Once.Do
			// `st`: the same with a context that has already ended — the winner returns ctx.Err() from its select while the
			// goroutine it started goes on; a call that does not win waits in Once.Do regardless of its context
			r.mu.Lock()
			idx := len(r.sdRes)
			r.sdRes = append(r.sdRes, "p")
			r.mu.Unlock()
			r.pending.Add(1)
			expired := op == "st"
			go func() {
				defer r.pending.Done()
				shutdownCallCtx(idx, expired)()
			}()
		case op[0] == 'u': // OnEnd of an unsampled span: must return at once, nothing queued, nothing counted
			id, _ := strconv.Atoi(op[1:])
			r.pending.Add(1)
			go func() {
				defer r.pending.Done()
				bsp.OnEnd(c01Span(id, false))
			}()
		case op[0] == 'e':
			id, _ := strconv.Atoi(op[1:])
			r.pending.Add(1)
			go func() {
				defer r.pending.Done()
				stoppedBefore := bsp.stopped.Load()
				bsp.OnEnd(c01Span(id, true))
				if !stoppedBefore {
					// the model's `seen` holds the ids that passed the stopped check and were sent or dropped
					r.mu.Lock()
					r.ended[id] = true
					r.mu.Unlock()
				}
			}()
		case op[0] == 'f':
			fid, _ := strconv.Atoi(op[1:])
			r.mu.Lock()
			r.ffRes[fid] = "p"
			r.mu.Unlock()
			r.pending.Add(1)
			go func() {
				defer r.pending.Done()
				err := bsp.ForceFlush(context.Background())
				r.mu.Lock()
				if err == nil {
					r.ffRes[fid] = "o"
				} else {
					r.ffRes[fid] = "e"
				}
				r.mu.Unlock()
			}()
		}
		out = append(out, r.settle(win))
	}
	for _, req := range r.pkSpan {
		close(req.release)
	}
	for _, req := range r.pkFF {
		close(req.release)
	}
	if r.pkSd != nil {
		close(r.pkSd.release)
	}
	// clean up: release every blocked exporter call, shut down, wait for our goroutines (goleak TestMain)
	done := make(chan struct{})
	go func() {
		for {
			select {
			case exp.gate <- 1:
			case <-done:
				return
			}
		}
	}()
	_ = bsp.Shutdown(context.Background())
	// unblock producers stuck on a full queue after the worker has exited
	fin := make(chan struct{})
	go func() { r.pending.Wait(); close(fin) }()
	for {
		select {
		case <-fin:
			close(done)
			return out
		case <-bsp.queue:
		case <-time.After(5 * time.Second):
			close(done)
			return append(out, "CLEANUP-TIMEOUT")
		}
	}
}

// c01GenOps generates a race-free script (see DESIGN §5 C01: at most one ForceFlush outstanding, no End while
// one is outstanding), using a light abstract state to know what is outstanding.
func c01GenOps(r *vRand, n int) []string {
	ops := []string{}
	nextID, nextF := 1, 1
	// `st` = Shutdown with a context that has already ended. When it is the call that wins stopOnce it returns ctx.Err()
	// at once while its goroutine goes on draining; any Shutdown call made after that returns nil immediately, before the
	// drain is over (known finding F47).
	shutdownOp := func() (string, bool) {
		if r.Intn(4) == 0 {
			return "st", true
		}
		return "s", true
	}
	for i := 0; i < n; i++ {
		switch k := r.Intn(20); {
		case k < 10:
			if r.Intn(5) == 0 {
				ops = append(ops, "u"+strconv.Itoa(nextID)) // unsampled span
			} else {
				ops = append(ops, "e"+strconv.Itoa(nextID))
			}
			nextID++
		case k < 14:
			ops = append(ops, "g+")
		case k < 15:
			if r.Intn(3) == 0 {
				ops = append(ops, "gt")
			} else {
				ops = append(ops, "g-")
			}
		case k < 18:
			ops = append(ops, "f"+strconv.Itoa(nextF))
			nextF++
			// drain the flush: enough gates for it to have returned (worst case: the export in progress, one
			// export per queued span, its own export), optionally a Shutdown in between
			sdAt := -1
			if r.Intn(4) == 0 {
				sdAt = r.Intn(8)
			}
			for j := 0; j < 8; j++ {
				if j == sdAt {
					if op, ok := shutdownOp(); ok {
						ops = append(ops, op)
					}
				}
				if r.Intn(6) == 0 {
					ops = append(ops, vPick(r, []string{"g-", "g-", "gt"}))
				} else {
					ops = append(ops, "g+")
				}
			}
		default:
			if op, ok := shutdownOp(); ok {
				ops = append(ops, op)
			}
			// often a second (third) Shutdown caller right away: it must wait in stopOnce.Do until the first is done
			for r.Intn(2) == 0 {
				if op, ok := shutdownOp(); ok {
					ops = append(ops, op)
				}
			}
		}
	}
	return ops
}

func TestVerifC01Sched(t *testing.T) {
	out := vOpen(t)
	defer out.Close()
	defer c01SafeHandler()()
	type job struct {
		gen         string
		capQ, maxB  int
		blocking    bool
		ops         []string
	}
	jobs := []job{}
	if rp := vReplayLines(); rp != nil {
		for _, f := range rp {
			if f[0] != "sched" {
				continue
			}
			c, _ := strconv.Atoi(f[2])
			m, _ := strconv.Atoi(f[3])
			jobs = append(jobs, job{f[1], c, m, f[4] == "1", f[6:]})
		}
	} else {
		r := &vRand{s: vSeed()}
		n := vN(300)
		for i := 0; i < n; i++ {
			jobs = append(jobs, job{"rnd", 1 + r.Intn(4), 1 + r.Intn(3), r.Intn(3) == 0, c01GenOps(r, 3+r.Intn(12))})
		}
	}
	res := make([][]string, len(jobs))
	sem := make(chan struct{}, 2*runtime.GOMAXPROCS(0))
	var wg sync.WaitGroup
	for i := range jobs {
		wg.Add(1)
		sem <- struct{}{}
		go func(i int) {
			defer wg.Done()
			defer func() { <-sem }()
			j := jobs[i]
			a := c01RunSched(j.capQ, j.maxB, j.blocking, j.ops, 3*time.Millisecond)
			b := c01RunSched(j.capQ, j.maxB, j.blocking, j.ops, 3*time.Millisecond)
			if strings.Join(a, " ") != strings.Join(b, " ") {
				// timing judgement differed between two runs: take a much longer quiescence window
				a = c01RunSched(j.capQ, j.maxB, j.blocking, j.ops, 40*time.Millisecond)
			}
			res[i] = a
		}(i)
	}
	wg.Wait()
	for i, j := range jobs {
		b := 0
		if j.blocking {
			b = 1
		}
		out.Line("sched %s %d %d %d | %s => %s", j.gen, j.capQ, j.maxB, b, strings.Join(j.ops, " "), strings.Join(res[i], " "))
	}
}

// ---------------------------------------------------------------- free-running stress histories

type c01Ev struct {
	seq uint64
	s   string
}

type c01HistExp struct {
	shutDone atomic.Bool // the exporter's Shutdown has returned (the processor calls it after the worker has exited)
	seq    *atomic.Uint64
	mu     sync.Mutex
	evs    []c01Ev
	r      *vRand
	rmu    sync.Mutex
	failEv int
}

func (e *c01HistExp) stamp(s string) {
	q := e.seq.Add(1)
	e.mu.Lock()
	e.evs = append(e.evs, c01Ev{q, s})
	e.mu.Unlock()
}

func (e *c01HistExp) ExportSpans(ctx context.Context, spans []ReadOnlySpan) error {
	ids := make([]int, len(spans))
	for i, s := range spans {
		ids[i] = c01ID(s)
	}
	e.stamp("XS:" + c01Dot(ids))
	e.rmu.Lock()
	d := e.r.Intn(4)
	fail := e.failEv > 0 && e.r.Intn(e.failEv) == 0
	e.rmu.Unlock()
	if d == 0 {
		time.Sleep(time.Duration(50+d*100) * time.Microsecond)
	} else {
		runtime.Gosched()
	}
	e.stamp("XE")
	if fail {
		return errors.New("scripted")
	}
	return nil
}

func (e *c01HistExp) Shutdown(ctx context.Context) error {
	e.stamp("DS")
	runtime.Gosched()
	e.stamp("DE")
	e.shutDone.Store(true)
	return nil
}

// c01Watch runs f; if it does not return within 3 s the history gets a hang event (a hang is an observation): `tag` is
// HS for a Shutdown call, HF<fid> / HE<id> for a ForceFlush / End call, and for those the harness adds what it sees
// of the queue at that moment (white-box): `+` = filled to its capacity, `-` = not. A producer that is blocked while the
// exporter has already been shut down (the worker has exited) and the queue is full can never be served (known finding
// F42): that is declared after 300 ms already. It returns false if the call hung.
func c01Watch(exp *c01HistExp, bsp *batchSpanProcessor, tag string, f func()) bool {
	done := make(chan struct{})
	go func() { f(); close(done) }()
	start := time.Now()
	for {
		select {
		case <-done:
			return true
		case <-time.After(100 * time.Millisecond):
		}
		full := len(bsp.queue) == cap(bsp.queue)
		el := time.Since(start)
		if el >= 3*time.Second || (tag != "HS" && el >= 300*time.Millisecond && full && exp.shutDone.Load()) {
			if tag != "HS" {
				if full {
					tag += "+"
				} else {
					tag += "-"
				}
			}
			exp.stamp(tag)
			return false
		}
	}
}

// c01HistShutdown makes one Shutdown call and stamps its return. Stamps are made after the call has returned, so two calls
// that return at almost the same moment may be stamped in either order; the oracle reads "a nil return after an error
// return" as known finding F47, so an error return must not be stamped later than a nil return that really followed it:
// a call with a context that may end counts as pending until its SR- is stamped (or until it has returned nil), and a
// call that returned nil waits (bounded) for the pending ones before it stamps SR+. Delaying a return stamp is sound
// (returns are stamped no earlier than they happen).
func c01HistShutdown(exp *c01HistExp, bsp *batchSpanProcessor, ctx context.Context, mayExpire bool, pending *atomic.Int32) {
	if mayExpire {
		pending.Add(1)
	}
	err := bsp.Shutdown(ctx)
	if err != nil {
		exp.stamp("SR-")
		if mayExpire {
			pending.Add(-1)
		}
		return
	}
	if mayExpire {
		pending.Add(-1)
	}
	for i := 0; i < 2000 && pending.Load() > 0; i++ {
		time.Sleep(time.Millisecond)
	}
	exp.stamp("SR+")
}

func c01OneHist(seed uint64) string {
	r := &vRand{s: seed}
	capQ := 1 + r.Intn(6)
	maxB := 1 + r.Intn(4)
	blocking := r.Intn(3) == 0
	var seq atomic.Uint64
	exp := &c01HistExp{seq: &seq, r: &vRand{s: seed ^ 0xabcdef}, failEv: []int{0, 0, 3, 7}[r.Intn(4)]}
	opts := []BatchSpanProcessorOption{WithMaxQueueSize(capQ), WithMaxExportBatchSize(maxB)}
	switch r.Intn(3) {
	case 0:
		opts = append(opts, WithBatchTimeout(time.Hour))
	case 1:
		opts = append(opts, WithBatchTimeout(200*time.Microsecond))
	default:
		opts = append(opts, WithBatchTimeout(time.Millisecond))
	}
	if blocking {
		opts = append(opts, WithBlocking())
	}
	bsp := NewBatchSpanProcessor(exp, opts...).(*batchSpanProcessor)
	nprod := 1 + r.Intn(6)
	perProd := 2 + r.Intn(12)
	nff := r.Intn(4)
	withSD := r.Intn(4) != 0
	var wg sync.WaitGroup
	for p := 0; p < nprod; p++ {
		wg.Add(1)
		pr := &vRand{s: seed + uint64(p)*7919}
		go func(p int) {
			defer wg.Done()
			for k := 0; k < perProd; k++ {
				id := p*1000 + k
				sampled := pr.Intn(8) != 0
				// only an End that was not refused because of Shutdown counts as "accepted" (the model's `accept`): with the
				// verif hooks exactly the calls that passed the processor's own stopped check. An End that does not return
				// (blocking mode, full queue) gets the hang event HE<id>; the producer then stops.
				accepted := &atomic.Bool{}
				if !c01Watch(exp, bsp, "HE"+strconv.Itoa(id), func() {
					c01OnEndFlag(bsp, c01Span(id, sampled), accepted)
					if accepted.Load() {
						if sampled {
							exp.stamp("E" + strconv.Itoa(id))
						} else {
							exp.stamp("U" + strconv.Itoa(id))
						}
					}
				}) {
					return
				}
				if pr.Intn(3) == 0 {
					runtime.Gosched()
				}
			}
		}(p)
	}
	for f := 0; f < nff; f++ {
		wg.Add(1)
		fr := &vRand{s: seed + uint64(f)*104729}
		go func(f int) {
			defer wg.Done()
			time.Sleep(time.Duration(fr.Intn(400)) * time.Microsecond)
			exp.stamp("FC" + strconv.Itoa(f))
			c01Watch(exp, bsp, "HF"+strconv.Itoa(f), func() {
				err := bsp.ForceFlush(context.Background())
				if err == nil {
					exp.stamp("FR" + strconv.Itoa(f) + "+")
				} else {
					exp.stamp("FR" + strconv.Itoa(f) + "-")
				}
			})
		}(f)
	}
	var sdErrPending atomic.Int32
	nsd := 0
	if withSD {
		nsd = 1 + r.Intn(3) // several concurrent Shutdown callers: one wins stopOnce, the others wait for it
	}
	for k := 0; k < nsd; k++ {
		wg.Add(1)
		delay := time.Duration(r.Intn(600)) * time.Microsecond
		// some Shutdown calls get a context that has already ended (mode 0) or that ends after 0..300 µs (mode 1): if such a
		// call wins stopOnce and its context ends before the drain is over it returns ctx.Err() (event SR-) while its goroutine
		// goes on; a call that does not win waits in Once.Do regardless of its context
		mode := r.Intn(5)
		tmo := time.Duration(r.Intn(300)) * time.Microsecond
		go func() {
			defer wg.Done()
			time.Sleep(delay)
			ctx := context.Background()
			switch mode {
			case 0:
				c, cancel := context.WithCancel(ctx)
				cancel()
				ctx = c
			case 1:
				c, cancel := context.WithTimeout(ctx, tmo)
				defer cancel()
				ctx = c
			}
			exp.stamp("SC")
			c01Watch(exp, bsp, "HS", func() { c01HistShutdown(exp, bsp, ctx, mode <= 1, &sdErrPending) })
		}()
	}
	wg.Wait()
	if !withSD {
		// quiesce: flush, then shut down outside the recorded obligations
		exp.stamp("FC99")
		c01Watch(exp, bsp, "HF99", func() {
			if bsp.ForceFlush(context.Background()) == nil {
				exp.stamp("FR99+")
			} else {
				exp.stamp("FR99-")
			}
		})
	}
	exp.stamp("SC")
	c01Watch(exp, bsp, "HS", func() { c01HistShutdown(exp, bsp, context.Background(), false, &sdErrPending) })
	// a Shutdown call whose context ended has left its goroutine draining: wait until the exporter has been shut down, so
	// that the history is complete (and no goroutine of this processor outlives the test)
	for i := 0; i < 3000 && !exp.shutDone.Load(); i++ {
		time.Sleep(time.Millisecond)
	}
	// unblock leaked producers / flushes (queue full after the worker exited)
	for i := 0; i < 256; i++ {
		select {
		case <-bsp.queue:
		default:
			time.Sleep(20 * time.Microsecond)
		}
	}
	exp.mu.Lock()
	evs := append([]c01Ev{}, exp.evs...)
	exp.mu.Unlock()
	sort.Slice(evs, func(i, j int) bool { return evs[i].seq < evs[j].seq })
	ss := make([]string, len(evs))
	for i, e := range evs {
		ss[i] = e.s
	}
	b := 0
	if blocking {
		b = 1
	}
	return fmt.Sprintf("hist stress %d %d %d %d | %s => -", capQ, maxB, b, atomic.LoadUint32(&bsp.dropped), strings.Join(ss, " "))
}

// c01RecordedHists: histories recorded from the real code that are kept as witnesses (also in harness/corpus/C01/hist.trace).
var c01RecordedHists = []string{
	// known finding F42, as it hit the unchanged tree under parallel load (VERIF_SEED=101, quick tier; recorded before the
	// harness said which call hung: HANG): queue capacity 1; ForceFlush 2 was called before the first Shutdown, the marker
	// of another ForceFlush occupies the queue of the exited worker, ForceFlush 2 blocks at its marker send until the
	// harness's cleanup drains the queue (FR2+ at the very end). Expected verdict: KNOWN:F42
	"hist recorded 1 4 0 0 | FC1 FC0 FC2 SC FR1+ E0 FR0+ XS:2000.1000.0 XE DS DE SR+ SC SR+ E1000 E2000 HANG SC SR+ FR2+ => -",
}

func TestVerifC01Hist(t *testing.T) {
	out := vOpen(t)
	defer out.Close()
	defer c01SafeHandler()()
	if vReplayLines() != nil {
		return // free-running histories cannot be re-executed; the replay file holds the history itself
	}
	// recorded histories (free-running histories cannot be re-executed): judged again on every run
	for _, l := range c01RecordedHists {
		out.Line("%s", l)
	}
	n := vN(200)
	seed := vSeed()
	res := make([]string, n)
	sem := make(chan struct{}, 4)
	var wg sync.WaitGroup
	for i := 0; i < n; i++ {
		wg.Add(1)
		sem <- struct{}{}
		go func(i int) {
			defer wg.Done()
			defer func() { <-sem }()
			res[i] = c01OneHist(seed*1000003 + uint64(i))
		}(i)
	}
	wg.Wait()
	for _, l := range res {
		out.Line("%s", l)
	}
}
