package trace

// C09 correspondence harness (white-box, injected with go test -overlay; /repo is not modified).
//
// Line kinds (one self-contained case per line; see /verif/lean/Otel/C09/Main.lean):
//
//	ratio <gen> f<bits> <nanconv> x<tid> => <decision>
//	tree  <gen> <A|S|B> <nanconv> <sampler expr> <none|ctx> <ext tid> <ext sid> <flags> <ts> <remote>
//	      | <pidx> <newroot> <genTid> <genSid> <dec> <ts|P> | ...
//	      => <tid> <sid> <flags> <ts> <remote> <rec> <T|S> <ansDec> <ansTs> <seenTid> <ptid> <psid> <pflags> <pts> <premote> | ... | exp:S <sid/tid/ptid/psid> ... | exp:B ... | exp:K ... | exp:Q ... | exp:R ...
//	      (one exp group per stock processor configuration registered on the provider: simple, batch, batch blocking,
//	       batch small export batch, batch blocking with queue/batch size 1)
//	ids   <gen> x<stream> <ops T/S...> => x<id>,x<id>,...
//	uniq  <gen> <count> => <duplicates> <zero ids>
//	env   <gen> <x<name>|-> <hasArg> <err|f<bits>> <nanconv> => <sampler struct|-> <errclass>
//
// sampler expr (prefix notation, comma separated): A always, N never, R<bits> TraceIDRatioBased, C scripted custom
// sampler, P,<root>,<rs>,<rns>,<ls>,<lns> ParentBased with all four options, D the provider's default sampler.

import (
	"context"
	"errors"
	"fmt"
	"math"
	"math/big"
	"math/rand"
	"os"
	"slices"
	"strconv"
	"strings"
	"sync"
	"testing"

	"go.opentelemetry.io/otel"
	"go.opentelemetry.io/otel/attribute"
	"go.opentelemetry.io/otel/trace"
)

// ---- platform parameter: what uint64(NaN) gives here, taken from the implementation itself
func c09NanConv() uint64 {
	if s, ok := TraceIDRatioBased(math.NaN()).(*traceIDRatioSampler); ok {
		return s.traceIDUpperBound
	}
	return 0
}

// ---- scripted pieces
type c09Script struct {
	dec SamplingDecision
	ts  *trace.TraceState // nil: answer with the parent context's tracestate
}

type c09Custom struct{ cur *c09Script }

func (c c09Custom) ShouldSample(p SamplingParameters) SamplingResult {
	ts := trace.SpanContextFromContext(p.ParentContext).TraceState()
	if c.cur.ts != nil {
		ts = *c.cur.ts
	}
	return SamplingResult{Decision: c.cur.dec, Tracestate: ts}
}
func (c c09Custom) Description() string { return "c09Custom" }

type c09Seen struct {
	tid trace.TraceID
	psc trace.SpanContext
	res SamplingResult
	n   int
}

// c09Recorder is the provider's sampler: it records what the sampler under test saw and answered.
type c09Recorder struct {
	inner Sampler
	seen  *c09Seen
}

func (r c09Recorder) ShouldSample(p SamplingParameters) SamplingResult {
	res := r.inner.ShouldSample(p)
	r.seen.tid = p.TraceID
	r.seen.psc = trace.SpanContextFromContext(p.ParentContext)
	r.seen.res = res
	r.seen.n++
	return res
}
func (r c09Recorder) Description() string { return "c09Recorder" }

// c09Gen is a custom IDGenerator handing out scripted ids verbatim.
type c09Gen struct {
	tid  trace.TraceID
	sid  trace.SpanID
	call string
}

func (g *c09Gen) NewIDs(context.Context) (trace.TraceID, trace.SpanID) {
	g.call += "T"
	return g.tid, g.sid
}
func (g *c09Gen) NewSpanID(context.Context, trace.TraceID) trace.SpanID {
	g.call += "S"
	return g.sid
}

type c09Exporter struct {
	mu    sync.Mutex
	spans []ReadOnlySpan
}

func (e *c09Exporter) ExportSpans(_ context.Context, ss []ReadOnlySpan) error {
	e.mu.Lock()
	defer e.mu.Unlock()
	e.spans = append(e.spans, ss...)
	return nil
}
func (e *c09Exporter) Shutdown(context.Context) error { return nil }

// ---- parsing helpers for the line formats
func c09F(s string) float64 {
	u, err := strconv.ParseUint(strings.TrimPrefix(s, "f"), 16, 64)
	if err != nil {
		panic("bad float token " + s)
	}
	return math.Float64frombits(u)
}
func c09Ftok(f float64) string { return fmt.Sprintf("f%016x", math.Float64bits(f)) }

func c09TID(s string) (t trace.TraceID) { copy(t[:], vUnhex(s)); return }
func c09SID(s string) (t trace.SpanID)  { copy(t[:], vUnhex(s)); return }

func c09TS(s string) trace.TraceState {
	ts, err := trace.ParseTraceState(s)
	if err != nil {
		panic("harness tracestate must be valid: " + s)
	}
	return ts
}

// c09BuildSampler builds the sampler expression through the public constructors.
func c09BuildSampler(toks []string, cur *c09Script) (Sampler, []string) {
	t := toks[0]
	rest := toks[1:]
	switch {
	case t == "A":
		return AlwaysSample(), rest
	case t == "N":
		return NeverSample(), rest
	case t == "C":
		return c09Custom{cur: cur}, rest
	case t == "P":
		var s [5]Sampler
		for i := range s {
			s[i], rest = c09BuildSampler(rest, cur)
		}
		return ParentBased(s[0], WithRemoteParentSampled(s[1]), WithRemoteParentNotSampled(s[2]),
			WithLocalParentSampled(s[3]), WithLocalParentNotSampled(s[4])), rest
	case strings.HasPrefix(t, "R"):
		return TraceIDRatioBased(c09F(t[1:])), rest
	}
	panic("bad sampler token " + t)
}

func c09CtxStr(sc trace.SpanContext) string {
	tid, sid := sc.TraceID(), sc.SpanID()
	r := 0
	if sc.IsRemote() {
		r = 1
	}
	return fmt.Sprintf("%s %s %d %s %d", vHexB(tid[:]), vHexB(sid[:]), byte(sc.TraceFlags()), vHex(sc.TraceState().String()), r)
}

// c09RunTree executes the input part of a tree line (tokens after the generator tag) and returns the observed part.
func c09RunTree(f []string) string {
	proc, samp, kind := f[0], f[2], f[3]
	cur := &c09Script{}
	seen := &c09Seen{}
	gen := &c09Gen{}
	// EVERY stock span-processor configuration is registered side by side, each with its own in-memory exporter
	// (the <S|B|A> token of the line is kept for old corpus lines; all configurations are always run):
	//   exp:S simple; exp:B batch (defaults); exp:K batch WithBlocking(); exp:Q batch with export batches of 2;
	//   exp:R batch WithBlocking(), queue and batch size 1.
	_ = proc
	exps := []*c09Exporter{{}, {}, {}, {}, {}}
	expTags := []string{"exp:S", "exp:B", "exp:K", "exp:Q", "exp:R"}
	opts := []TracerProviderOption{WithIDGenerator(gen),
		WithSpanProcessor(NewSimpleSpanProcessor(exps[0])),
		WithSpanProcessor(NewBatchSpanProcessor(exps[1])),
		WithSpanProcessor(NewBatchSpanProcessor(exps[2], WithBlocking())),
		WithSpanProcessor(NewBatchSpanProcessor(exps[3], WithMaxExportBatchSize(2))),
		WithSpanProcessor(NewBatchSpanProcessor(exps[4], WithBlocking(), WithMaxQueueSize(1), WithMaxExportBatchSize(1))),
	}
	var tp *TracerProvider
	if samp == "D" {
		// the provider's default sampler: wrap it after construction (white-box)
		tp = NewTracerProvider(opts...)
		tp.sampler = c09Recorder{inner: tp.sampler, seen: seen}
	} else {
		s, rest := c09BuildSampler(strings.Split(samp, ","), cur)
		if len(rest) != 0 {
			panic("trailing sampler tokens")
		}
		tp = NewTracerProvider(append(opts, WithSampler(c09Recorder{inner: s, seen: seen}))...)
	}
	tr := tp.Tracer("c09")
	extCtx := context.Background()
	if kind == "ctx" {
		fl, _ := strconv.Atoi(f[6])
		sc := trace.NewSpanContext(trace.SpanContextConfig{
			TraceID: c09TID(f[4]), SpanID: c09SID(f[5]), TraceFlags: trace.TraceFlags(fl), TraceState: c09TS(vUnhex(f[7])),
		})
		if f[8] == "1" {
			extCtx = trace.ContextWithRemoteSpanContext(extCtx, sc)
		} else {
			extCtx = trace.ContextWithSpanContext(extCtx, sc)
		}
	}
	// nodes
	var groups [][]string
	var g []string
	for _, t := range f[9:] {
		if t == "|" {
			if g != nil {
				groups = append(groups, g)
			}
			g = []string{}
			continue
		}
		g = append(g, t)
	}
	if g != nil {
		groups = append(groups, g)
	}
	ctxs := make([]context.Context, 0, len(groups))
	spans := make([]trace.Span, 0, len(groups))
	var out []string
	for _, n := range groups {
		pidx, _ := strconv.Atoi(n[0])
		pctx := extCtx
		if pidx >= 0 {
			pctx = ctxs[pidx]
		}
		var so []trace.SpanStartOption
		if n[1] == "1" {
			so = append(so, trace.WithNewRoot())
		}
		gen.tid, gen.sid, gen.call = c09TID(n[2]), c09SID(n[3]), ""
		d, _ := strconv.Atoi(n[4])
		cur.dec = SamplingDecision(d)
		cur.ts = nil
		if n[5] != "P" {
			ts := c09TS(vUnhex(n[5]))
			cur.ts = &ts
		}
		*seen = c09Seen{}
		ctx, sp := tr.Start(pctx, "n", so...)
		ctxs = append(ctxs, ctx)
		spans = append(spans, sp)
		rec := 0
		if sp.IsRecording() {
			rec = 1
		}
		call := gen.call
		if seen.n != 1 {
			call += fmt.Sprintf("!sampler-called-%d-times", seen.n)
		}
		out = append(out, fmt.Sprintf("%s %d %s %d %s %s %s", c09CtxStr(sp.SpanContext()), rec, call,
			seen.res.Decision, vHex(seen.res.Tracestate.String()), vHexB(seen.tid[:]), c09CtxStr(seen.psc)))
	}
	for i := len(spans) - 1; i >= 0; i-- {
		spans[i].End()
	}
	// flush every processor before observing, then shut the provider down (stops the batch workers)
	_ = tp.ForceFlush(context.Background())
	_ = tp.Shutdown(context.Background())
	for k, exp := range exps {
		exp.mu.Lock()
		es := []string{expTags[k]}
		for _, s := range exp.spans {
			sc, p := s.SpanContext(), s.Parent()
			sid, tid, ptid, psid := sc.SpanID(), sc.TraceID(), p.TraceID(), p.SpanID()
			es = append(es, fmt.Sprintf("%s/%s/%s/%s", vHexB(sid[:]), vHexB(tid[:]), vHexB(ptid[:]), vHexB(psid[:])))
		}
		exp.mu.Unlock()
		out = append(out, strings.Join(es, " "))
	}
	return strings.Join(out, " | ")
}

// ---- ratio
func c09RunRatio(f []string) string {
	s := TraceIDRatioBased(c09F(f[0]))
	res := s.ShouldSample(SamplingParameters{ParentContext: context.Background(), TraceID: c09TID(f[2]), Name: "r"})
	return strconv.Itoa(int(res.Decision))
}

func c09RatioTID(r *vRand, x uint64) string {
	var t trace.TraceID
	for i := 0; i < 8; i++ {
		t[i] = byte(r.U64())
	}
	lo := x<<1 | r.U64()&1
	for i := 0; i < 8; i++ {
		t[8+i] = byte(lo >> (56 - 8*i))
	}
	return vHexB(t[:])
}

// c09IndepBound: floor(f * 2^63) computed with math/big (independent of the implementation); ok=false outside (0,1).
func c09IndepBound(f float64) (uint64, bool) {
	if !(f > 0 && f < 1) {
		return 0, false
	}
	bf := new(big.Float).SetPrec(2000).SetFloat64(f)
	bf.Mul(bf, new(big.Float).SetPrec(2000).SetMantExp(big.NewFloat(1), 63))
	i, _ := bf.Int(nil)
	return i.Uint64(), true
}

func c09BoundaryRatios() []float64 {
	one := 1.0
	half := 0.5
	p63 := math.Ldexp(1, -63)
	return []float64{
		0, math.Copysign(0, -1), math.SmallestNonzeroFloat64, -math.SmallestNonzeroFloat64,
		math.Float64frombits(0x000fffffffffffff), math.Float64frombits(0x0010000000000000), // largest subnormal, smallest normal
		p63, math.Nextafter(p63, 0), math.Nextafter(p63, 1), math.Ldexp(1, -64), math.Ldexp(1, -62), math.Ldexp(3, -63),
		math.Ldexp(1, -11), math.Nextafter(math.Ldexp(1, -11), 0), math.Ldexp(1, -10), math.Nextafter(math.Ldexp(1, -10), 1), math.Ldexp(1, -12),
		0.25, 0.1, 1.0 / 3, half, math.Nextafter(half, 0), math.Nextafter(half, 1), 0.75, 0.999,
		math.Nextafter(one, 0), one, math.Nextafter(one, 2), 2, 1e300, math.MaxFloat64, -1, -0.5, -1e-300,
		math.Inf(1), math.Inf(-1), math.NaN(), math.Float64frombits(0xfff8000000000001), math.Float64frombits(0x7ff0000000000001),
	}
}

func c09RandRatio(r *vRand) float64 {
	switch r.Intn(8) {
	case 0: // any bit pattern
		return math.Float64frombits(r.U64())
	case 1: // subnormal / tiny
		return math.Float64frombits(r.U64() & 0x001fffffffffffff)
	case 2: // around 2^-63 .. 2^-40: bounds of a few bits
		return math.Ldexp(float64(1+r.Intn(1<<20))/float64(1<<20), -63+r.Intn(24))
	case 3: // sparse mantissa near a power of two
		e := -r.Intn(70)
		f := math.Ldexp(1, e)
		if r.Bool() {
			return math.Nextafter(f, 0)
		}
		return math.Nextafter(f, 2)
	case 4: // near the shift boundary 2^-11 / 2^-10 (mantissa shifted left vs right)
		return math.Float64frombits((uint64(1023-12+r.Intn(4)) << 52) | (r.U64() & 0xfffffffffffff))
	default: // uniform exponent in [-70, -1], random mantissa
		return math.Float64frombits((uint64(1023-1-r.Intn(70)) << 52) | (r.U64() & 0xfffffffffffff))
	}
}

func c09EmitRatio(out *vOut, r *vRand, gen string, f float64, nanc uint64) {
	ft := c09Ftok(f)
	var xs []uint64
	if s, ok := TraceIDRatioBased(f).(*traceIDRatioSampler); ok {
		b := s.traceIDUpperBound
		xs = append(xs, b-1, b, b+1)
	}
	if b, ok := c09IndepBound(f); ok {
		xs = append(xs, b-1, b, b+1)
	}
	xs = append(xs, 0, 1, 1<<63-1, 1<<62, r.U64()>>1, r.U64()>>1)
	for _, x := range xs {
		x &= 1<<63 - 1
		tid := c09RatioTID(r, x)
		in := []string{ft, strconv.FormatUint(nanc, 10), tid}
		out.Line("ratio %s %s => %s", gen, strings.Join(in, " "), c09RunRatio(in))
	}
}

// ---- id generator over a scripted math/rand source
type c09Src struct {
	b   []byte
	pos int
}

func (s *c09Src) Int63() int64 {
	var v int64
	for i := 0; i < 7; i++ {
		var c byte = 1
		if s.pos < len(s.b) {
			c = s.b[s.pos]
		}
		s.pos++
		v |= int64(c) << (8 * i)
	}
	return v
}
func (s *c09Src) Seed(int64) {}

func c09RunIDs(f []string) string {
	stream := []byte(vUnhex(f[0]))
	gen := &randomIDGenerator{randSource: rand.New(&c09Src{b: stream})}
	var ids []string
	for _, op := range f[1] {
		if op == 'T' {
			t, s := gen.NewIDs(context.Background())
			ids = append(ids, vHexB(t[:]), vHexB(s[:]))
		} else {
			s := gen.NewSpanID(context.Background(), trace.TraceID{})
			ids = append(ids, vHexB(s[:]))
		}
	}
	return strings.Join(ids, ",")
}

func c09GenIDs(r *vRand) (string, []string) {
	nops := 1 + r.Intn(4)
	var ops strings.Builder
	var st []byte
	mode := r.Intn(3)
	chunk := func(n int) {
		// zero chunks first (retries), then a chunk with at least one non-zero byte
		for k := r.Intn(4) - 1; k > 0; k-- {
			st = append(st, make([]byte, n)...)
		}
		c := make([]byte, n)
		switch r.Intn(4) {
		case 0: // a single non-zero byte at an edge
			c[vPick(r, []int{0, n - 1, n / 2})] = byte(1 + r.Intn(255))
		default:
			for i := range c {
				c[i] = byte(r.U64())
			}
			c[r.Intn(n)] |= 1
		}
		st = append(st, c...)
	}
	for i := 0; i < nops; i++ {
		if r.Bool() {
			ops.WriteByte('T')
			if mode != 2 {
				chunk(16)
				chunk(8)
			}
		} else {
			ops.WriteByte('S')
			if mode != 2 {
				chunk(8)
			}
		}
	}
	gen := "chunks"
	if mode == 2 {
		// sparse unaligned stream: mostly zero bytes
		gen = "sparse"
		n := 24 * nops * (1 + r.Intn(4))
		for i := 0; i < n; i++ {
			if r.Intn(12) == 0 {
				st = append(st, byte(1+r.Intn(255)))
			} else {
				st = append(st, 0)
			}
		}
	}
	// padding: non-zero bytes so that every loop terminates inside the printed stream
	for i := 0; i < 24*(nops+1); i++ {
		st = append(st, 1)
	}
	return gen, []string{vHexB(st), ops.String()}
}

func c09Uniq(n int) string {
	// "unique within the process": ids are drawn from SEVERAL default generators (one per TracerProvider in a real
	// process, e.g. two providers side by side or a provider that was replaced), interleaved; a duplicate across
	// generators counts like a duplicate within one.
	gs := []IDGenerator{defaultIDGenerator(), defaultIDGenerator(), defaultIDGenerator(),
		NewTracerProvider().idGenerator, NewTracerProvider().idGenerator}
	ids := make([]uint64, 0, n)
	zeros := 0
	ctx := context.Background()
	for i := 0; i < n; i++ {
		g := gs[(i/3)%len(gs)]
		var s trace.SpanID
		if i%4 == 0 {
			var t trace.TraceID
			t, s = g.NewIDs(ctx)
			if !t.IsValid() {
				zeros++
			}
		} else {
			s = g.NewSpanID(ctx, trace.TraceID{})
		}
		if !s.IsValid() {
			zeros++
		}
		var v uint64
		for _, b := range s {
			v = v<<8 | uint64(b)
		}
		ids = append(ids, v)
	}
	slices.Sort(ids)
	dups := 0
	for i := 1; i < len(ids); i++ {
		if ids[i] == ids[i-1] {
			dups++
		}
	}
	return fmt.Sprintf("%d %d", dups, zeros)
}

// ---- env
func c09SamplerStruct(s Sampler) string {
	switch v := s.(type) {
	case nil:
		return "-"
	case alwaysOnSampler:
		return "A"
	case alwaysOffSampler:
		return "N"
	case *traceIDRatioSampler:
		return "B" + strconv.FormatUint(v.traceIDUpperBound, 10)
	case traceIDRatioSampler:
		return "B" + strconv.FormatUint(v.traceIDUpperBound, 10)
	case parentBased:
		return "P," + c09SamplerStruct(v.root) + "," + c09SamplerStruct(v.config.remoteParentSampled) + "," +
			c09SamplerStruct(v.config.remoteParentNotSampled) + "," + c09SamplerStruct(v.config.localParentSampled) + "," +
			c09SamplerStruct(v.config.localParentNotSampled)
	}
	return fmt.Sprintf("?%T", s)
}

func c09RunEnv(f []string, arg string) string {
	// f: name hasArg pf nanconv ; the argument text itself is carried by the caller (generation) or rebuilt (replay)
	if f[0] == "-" {
		os.Unsetenv(tracesSamplerKey)
	} else {
		os.Setenv(tracesSamplerKey, vUnhex(f[0]))
	}
	if f[1] == "1" {
		os.Setenv(tracesSamplerArgKey, arg)
	} else {
		os.Unsetenv(tracesSamplerArgKey)
	}
	s, err := samplerFromEnv()
	os.Unsetenv(tracesSamplerKey)
	os.Unsetenv(tracesSamplerArgKey)
	cls := "ok"
	var pe samplerArgParseError
	var ue errUnsupportedSampler
	switch {
	case err == nil:
	case errors.As(err, &ue):
		cls = "unsupported"
	case errors.As(err, &pe):
		cls = "parse"
	case errors.Is(err, errNegativeTraceIDRatio):
		cls = "negative"
	case errors.Is(err, errGreaterThanOneTraceIDRatio):
		cls = "gt1"
	default:
		cls = "other"
	}
	return c09SamplerStruct(s) + " " + cls
}

func c09PF(arg string) string {
	v, err := strconv.ParseFloat(strings.TrimSpace(arg), 64)
	if err != nil {
		return "err"
	}
	return c09Ftok(v)
}

// c09ArgFor rebuilds an argument text for a replayed env line from its ParseFloat token.
func c09ArgFor(pf string) string {
	if pf == "err" {
		return "garbage"
	}
	return strconv.FormatFloat(c09F(pf), 'g', -1, 64)
}

var c09EnvNames = []string{"always_on", "always_off", "traceidratio", "parentbased_always_on", "parentbased_always_off", "parentbased_traceidratio"}

func c09GenEnv(r *vRand) (gen string, f []string, arg string) {
	gen = "name"
	name := vPick(r, c09EnvNames)
	switch r.Intn(10) {
	case 0:
		name = strings.ToUpper(name)
		gen = "upper"
	case 1:
		b := []byte(name)
		i := r.Intn(len(b))
		if b[i] >= 'a' && b[i] <= 'z' {
			b[i] -= 32
		}
		name = vPick(r, []string{" ", "\t", "\n ", "\r\n", ""}) + string(b) + vPick(r, []string{" ", "\t\t", "\v", "\f", ""})
		gen = "spaced"
	case 2:
		name = vPick(r, []string{"", " ", "always", "always_on_", "alwayson", "traceidratio ", "jaeger_remote", "xray", "parentbased", "parentbased_jaeger_remote", "always_on,always_off", "trace id ratio", "always on", "a"})
		gen = "odd"
	case 3:
		b := []byte(name)
		b[r.Intn(len(b))] = byte(33 + r.Intn(94))
		name = string(b)
		gen = "typo"
	}
	nameTok := vHex(name)
	if r.Intn(25) == 0 {
		nameTok = "-"
		gen = "unset"
	}
	hasArg := r.Intn(5) != 0
	if hasArg {
		switch r.Intn(6) {
		case 0:
			arg = vPick(r, []string{"", " ", "abc", "0.5x", "1,0", "0..5", "--1", "1e", "0x", "half", "0.5 0.5"})
		case 1:
			arg = vPick(r, []string{"nan", "NaN", "inf", "+Inf", "-inf", "-0", "+0", "0", "1", "1.0", "1.0000000000000002", "0.9999999999999999", "-1e-320", "1e-320", "5e-324", "1e400", "-1e400", "0x1p-2", "1_0", "1e-30", ".5", "5.e-1"})
		case 2:
			arg = vPick(r, []string{" 0.25", "0.25 ", "\t0.75\n", " -3 ", " 2 "})
		case 3:
			arg = strconv.FormatFloat(c09RandRatio(r), 'g', -1, 64)
		case 4:
			arg = strconv.FormatFloat(float64(r.Intn(1001))/1000, 'f', -1, 64)
		default:
			arg = strconv.FormatFloat(float64(r.Intn(4001)-2000)/1000, 'f', -1, 64)
		}
	}
	ha := "0"
	pf := "err"
	if hasArg {
		ha = "1"
		pf = c09PF(arg)
	}
	return gen, []string{nameTok, ha, pf}, arg
}

// ---- provider: which sampler NewTracerProvider ends up with (env first, then the options, then the default)
// Line: `prov <gen> <name|-> <hasArg> <pf> <nanconv> <opt;opt;…|-> => <sampler structure> <error handed to otel.Handle 0|1>`
// opt: nil (WithSampler(nil)) · A · N · R<ftok> (TraceIDRatioBased) · PA · PN · PR<ftok> (ParentBased(…))
func c09ProvOpt(tok string) Sampler {
	switch {
	case tok == "nil":
		return nil
	case tok == "A":
		return AlwaysSample()
	case tok == "N":
		return NeverSample()
	case tok == "PA":
		return ParentBased(AlwaysSample())
	case tok == "PN":
		return ParentBased(NeverSample())
	case strings.HasPrefix(tok, "PR"):
		return ParentBased(TraceIDRatioBased(c09F(tok[2:])))
	case strings.HasPrefix(tok, "R"):
		return TraceIDRatioBased(c09F(tok[1:]))
	}
	panic("bad prov option " + tok)
}

func c09RunProv(f []string, arg string) string {
	// f: name hasArg pf nanconv opts
	if f[0] == "-" {
		os.Unsetenv(tracesSamplerKey)
	} else {
		os.Setenv(tracesSamplerKey, vUnhex(f[0]))
	}
	if f[1] == "1" {
		os.Setenv(tracesSamplerArgKey, arg)
	} else {
		os.Unsetenv(tracesSamplerArgKey)
	}
	handled := 0
	otel.SetErrorHandler(otel.ErrorHandlerFunc(func(error) { handled++ }))
	var opts []TracerProviderOption
	if f[4] != "-" {
		for _, t := range strings.Split(f[4], ";") {
			opts = append(opts, WithSampler(c09ProvOpt(t)))
		}
	}
	tp := NewTracerProvider(opts...)
	st := c09SamplerStruct(tp.sampler)
	_ = tp.Shutdown(context.Background())
	otel.SetErrorHandler(handler)
	os.Unsetenv(tracesSamplerKey)
	os.Unsetenv(tracesSamplerArgKey)
	h := "0"
	if handled > 0 {
		h = "1"
	}
	if handled > 1 {
		h = "2"
	}
	return st + " " + h
}

func c09GenProv(r *vRand) (string, []string, string) {
	gen, f, arg := c09GenEnv(r)
	if r.Intn(3) == 0 { // environment unset: options / default alone
		f[0], gen = "-", "unset"
	}
	n := vPick(r, []int{0, 0, 1, 1, 2, 3, 4})
	opts := "-"
	if n > 0 {
		xs := make([]string, n)
		for i := range xs {
			switch r.Intn(8) {
			case 0, 1, 2:
				xs[i] = "nil"
			case 3:
				xs[i] = "A"
			case 4:
				xs[i] = "N"
			case 5:
				xs[i] = "R" + c09Ftok(c09RandRatio(r))
			case 6:
				xs[i] = vPick(r, []string{"PA", "PN"})
			default:
				xs[i] = "PR" + c09Ftok(c09RandRatio(r))
			}
		}
		opts = strings.Join(xs, ";")
	}
	return "prov-" + gen, f, arg + "\x00" + opts
}

// ---- what the sampler is shown of the start configuration and what it contributes (SamplingResult.Attributes)
// Line: `sparams <gen> <kind> <hex name> <start attrs k=v;…|-> <links> <decision> <sampler attrs k=v;…|->
//        => <hex seen name> <seen kind> <seen attrs> <seen links> <recording> <span kind|0> <span attrs|->`
type c09SPSampler struct {
	dec   SamplingDecision
	attrs []attribute.KeyValue
	seen  *SamplingParameters
}

func (s c09SPSampler) ShouldSample(p SamplingParameters) SamplingResult {
	*s.seen = p
	return SamplingResult{Decision: s.dec, Attributes: s.attrs, Tracestate: trace.SpanContextFromContext(p.ParentContext).TraceState()}
}
func (s c09SPSampler) Description() string { return "c09SPSampler" }

func c09SPAttrs(tok string) []attribute.KeyValue {
	if tok == "-" {
		return nil
	}
	var out []attribute.KeyValue
	for _, e := range strings.Split(tok, ";") {
		p := strings.SplitN(e, "=", 2)
		v, _ := strconv.ParseInt(p[1], 10, 64)
		out = append(out, attribute.Int64("k"+p[0], v))
	}
	return out
}

func c09SPRender(kvs []attribute.KeyValue) string {
	if len(kvs) == 0 {
		return "-"
	}
	xs := make([]string, len(kvs))
	for i, a := range kvs {
		xs[i] = strings.TrimPrefix(string(a.Key), "k") + "=" + strconv.FormatInt(a.Value.AsInt64(), 10)
	}
	return strings.Join(xs, ";")
}

func c09RunSParams(f []string) string {
	// f: kind name cfgattrs nlinks dec samplerattrs
	kind, _ := strconv.Atoi(f[0])
	nl, _ := strconv.Atoi(f[3])
	dec, _ := strconv.Atoi(f[4])
	var seen SamplingParameters
	tp := NewTracerProvider(WithSampler(c09SPSampler{dec: SamplingDecision(dec), attrs: c09SPAttrs(f[5]), seen: &seen}))
	defer func() { _ = tp.Shutdown(context.Background()) }()
	so := []trace.SpanStartOption{trace.WithSpanKind(trace.SpanKind(kind))}
	if cfg := c09SPAttrs(f[2]); cfg != nil {
		so = append(so, trace.WithAttributes(cfg...))
	}
	if nl > 0 {
		links := make([]trace.Link, nl)
		for i := range links {
			links[i].SpanContext = trace.NewSpanContext(trace.SpanContextConfig{TraceID: trace.TraceID{1}, SpanID: trace.SpanID{byte(i + 1)}})
		}
		so = append(so, trace.WithLinks(links...))
	}
	_, span := tp.Tracer("verif").Start(context.Background(), vUnhex(f[1]), so...)
	rec, sk, attrs := "0", 0, "-"
	if ro, ok := span.(ReadOnlySpan); ok && span.IsRecording() {
		rec, sk, attrs = "1", int(ro.SpanKind()), c09SPRender(ro.Attributes())
	}
	span.End()
	return fmt.Sprintf("%s %d %s %d %s %d %s", vHex(seen.Name), int(seen.Kind), c09SPRender(seen.Attributes), len(seen.Links), rec, sk, attrs)
}

func c09GenSParams(r *vRand) (string, []string) {
	attrs := func(max int) string {
		n := r.Intn(max + 1)
		if n == 0 {
			return "-"
		}
		xs := make([]string, n)
		for i := range xs {
			xs[i] = strconv.Itoa(r.Intn(5)) + "=" + strconv.Itoa(r.Intn(200)-100)
		}
		return strings.Join(xs, ";")
	}
	kind := vPick(r, []int{0, 1, 2, 3, 4, 5, 6, 7, 255})
	dec := vPick(r, []int{0, 1, 2, 2, 1, 3})
	return "sp", []string{strconv.Itoa(kind), vHex(vValidStr(r, 3)), attrs(5), strconv.Itoa(vPick(r, []int{0, 0, 1, 3})), strconv.Itoa(dec), attrs(4)}
}

// ---- Sampler.Description() of the stock samplers
// Line: `desc <gen> <prefix encoding> => <hex Description()>`; encoding: A · N · R <ftok> <hex of the %g text> · P + 5 sub-expressions
// (root, remoteParentSampled, remoteParentNotSampled, localParentSampled, localParentNotSampled = the EFFECTIVE configuration:
// the generator omits options that equal the default, shuffles them and sometimes gives an overridden one first).
func c09DescFromToks(toks []string) (Sampler, []string) {
	switch toks[0] {
	case "A":
		return AlwaysSample(), toks[1:]
	case "N":
		return NeverSample(), toks[1:]
	case "R":
		return TraceIDRatioBased(c09F(toks[1])), toks[3:]
	case "P":
		rest := toks[1:]
		var sub [5]Sampler
		for i := range sub {
			sub[i], rest = c09DescFromToks(rest)
		}
		return ParentBased(sub[0], WithRemoteParentSampled(sub[1]), WithRemoteParentNotSampled(sub[2]),
			WithLocalParentSampled(sub[3]), WithLocalParentNotSampled(sub[4])), rest
	}
	panic("bad desc token " + toks[0])
}

func c09DescGen(r *vRand, depth int) ([]string, Sampler) {
	if depth < 2 && r.Intn(3) != 0 {
		toks := []string{"P"}
		rt, root := c09DescGen(r, depth+1)
		toks = append(toks, rt...)
		defaults := []string{"A", "N", "A", "N"}
		mk := []func(Sampler) ParentBasedSamplerOption{WithRemoteParentSampled, WithRemoteParentNotSampled, WithLocalParentSampled, WithLocalParentNotSampled}
		var opts []ParentBasedSamplerOption
		for i := 0; i < 4; i++ {
			var st []string
			var sub Sampler
			if r.Intn(3) == 0 {
				st = []string{defaults[i]}
				if defaults[i] == "A" {
					sub = AlwaysSample()
				} else {
					sub = NeverSample()
				}
			} else {
				st, sub = c09DescGen(r, depth+1)
			}
			toks = append(toks, st...)
			if len(st) == 1 && st[0] == defaults[i] && r.Intn(2) == 0 {
				continue // the default: option omitted
			}
			if r.Intn(5) == 0 {
				opts = append(opts, mk[i](TraceIDRatioBased(0.125))) // overridden by the later option of the same kind
			}
			opts = append(opts, mk[i](sub))
		}
		// the four kinds are independent: any order of DIFFERENT kinds gives the same configuration (rotate)
		if k := r.Intn(len(opts) + 1); k > 0 && k < len(opts) && r.Intn(2) == 0 {
			ok := true // rotating must not move an overriding duplicate before its victim: only rotate duplicate-free lists
			seen := map[string]bool{}
			for _, o := range opts {
				n := fmt.Sprintf("%T", o)
				if seen[n] {
					ok = false
				}
				seen[n] = true
			}
			if ok {
				opts = append(opts[k:], opts[:k]...)
			}
		}
		return toks, ParentBased(root, opts...)
	}
	switch r.Intn(4) {
	case 0:
		return []string{"A"}, AlwaysSample()
	case 1:
		return []string{"N"}, NeverSample()
	}
	f := c09RandRatio(r)
	if r.Intn(4) == 0 {
		f = vPick(r, c09BoundaryRatios())
	}
	return []string{"R", c09Ftok(f), vHex(strconv.FormatFloat(f, 'g', -1, 64))}, TraceIDRatioBased(f)
}

// ---- uniqueness, observed through the API: several providers x several goroutines; and a custom generator that repeats
// an id once — the SDK does NOT de-duplicate, the repeated id must come through unchanged.
// Line: `uniq2 <gen> <providers> <goroutines> <spans per goroutine> => <duplicate span ids> <invalid ids> <repeated id passed through 0|1>`
type c09RepeatGen struct {
	mu sync.Mutex
	n  int
}

func (g *c09RepeatGen) NewIDs(context.Context) (trace.TraceID, trace.SpanID) {
	g.mu.Lock()
	defer g.mu.Unlock()
	g.n++
	k := g.n
	if k == 3 {
		k = 2 // the third call repeats the second one's ids
	}
	return trace.TraceID{0xaa, byte(k)}, trace.SpanID{0xbb, byte(k)}
}
func (g *c09RepeatGen) NewSpanID(ctx context.Context, _ trace.TraceID) trace.SpanID {
	_, s := g.NewIDs(ctx)
	return s
}

func c09Uniq2(np, ng, per int) string {
	var mu sync.Mutex
	seen := map[trace.SpanID]int{}
	invalid := 0
	var wg sync.WaitGroup
	for p := 0; p < np; p++ {
		tp := NewTracerProvider(WithSampler(vPick(&vRand{s: uint64(p) + 1}, []Sampler{AlwaysSample(), NeverSample(), ParentBased(AlwaysSample())})))
		defer func() { _ = tp.Shutdown(context.Background()) }()
		tr := tp.Tracer("verif")
		for g := 0; g < ng; g++ {
			wg.Add(1)
			go func() {
				defer wg.Done()
				local := make([]trace.SpanContext, 0, 2*per)
				for i := 0; i < per; i++ {
					ctx, s := tr.Start(context.Background(), "r")
					_, c := tr.Start(ctx, "c")
					local = append(local, s.SpanContext(), c.SpanContext())
					if c.SpanContext().TraceID() != s.SpanContext().TraceID() {
						mu.Lock()
						invalid++
						mu.Unlock()
					}
					c.End()
					s.End()
				}
				mu.Lock()
				for _, sc := range local {
					seen[sc.SpanID()]++
					if !sc.IsValid() {
						invalid++
					}
				}
				mu.Unlock()
			}()
		}
	}
	wg.Wait()
	dups := 0
	for _, n := range seen {
		if n > 1 {
			dups += n - 1
		}
	}
	// custom generator repeating itself once
	tp := NewTracerProvider(WithIDGenerator(&c09RepeatGen{}), WithSampler(AlwaysSample()))
	defer func() { _ = tp.Shutdown(context.Background()) }()
	var got []trace.SpanContext
	for i := 0; i < 4; i++ {
		_, s := tp.Tracer("verif").Start(context.Background(), "x")
		got = append(got, s.SpanContext())
		s.End()
	}
	pass := "0"
	if got[1].SpanID() == got[2].SpanID() && got[1].TraceID() == got[2].TraceID() && got[0].SpanID() != got[1].SpanID() &&
		got[3].SpanID() == (trace.SpanID{0xbb, 4}) {
		pass = "1"
	}
	return fmt.Sprintf("%d %d %s", dups, invalid, pass)
}

// ---- tree generation
var c09TraceStates = []string{"", "", "a=1", "b=2,a=1", "vendor@sys=x:y", "k=" + strings.Repeat("v", 40), "a=1,b=2,c=3,d=4"}

func c09RandID(r *vRand, n int) string {
	b := make([]byte, n)
	switch r.Intn(12) {
	case 0: // zero id: a custom generator's ids are taken verbatim
	case 1:
		b[n-1] = 1
	case 2:
		b[0] = 0x80
	default:
		for i := range b {
			b[i] = byte(r.U64())
		}
	}
	return vHexB(b)
}

func c09RandValidID(r *vRand, n int) string {
	b := make([]byte, n)
	for i := range b {
		b[i] = byte(r.U64())
	}
	b[r.Intn(n)] |= 1
	return vHexB(b)
}

func c09RandLeaf(r *vRand) string {
	switch r.Intn(7) {
	case 0, 1:
		return "A"
	case 2:
		return "N"
	case 3, 4:
		return "C"
	case 5:
		return "R" + c09Ftok(vPick(r, []float64{0.5, 0.25, 0.75, 0, 1, 1e-3, math.Nextafter(1, 0)}))[1:]
	default:
		f := c09RandRatio(r)
		if f != f {
			f = 0.5
		}
		return "R" + c09Ftok(f)[1:]
	}
}

func c09RandSampler(r *vRand, depth int) string {
	k := r.Intn(10)
	if depth >= 2 || k < 4 {
		return c09RandLeaf(r)
	}
	if k == 4 && depth == 0 {
		return "D"
	}
	if k < 7 {
		// ParentBased(root) with default delegates
		return "P," + c09RandSampler(r, depth+1) + ",A,N,A,N"
	}
	parts := []string{"P"}
	for i := 0; i < 5; i++ {
		parts = append(parts, c09RandSampler(r, depth+1))
	}
	return strings.Join(parts, ",")
}

func c09GenTree(r *vRand, nanc uint64) (string, []string) {
	proc := "A" // all stock processor configurations side by side
	samp := c09RandSampler(r, 0)
	f := []string{proc, strconv.FormatUint(nanc, 10), samp}
	gen := "ext-none"
	zt, zs := vHexB(make([]byte, 16)), vHexB(make([]byte, 8))
	switch r.Intn(8) {
	case 0, 1:
		f = append(f, "none", zt, zs, "0", "x", "0")
	case 2: // explicit zero span context
		f = append(f, "ctx", zt, zs, "0", "x", "0")
		gen = "ext-zero"
	case 3: // invalid parents of all shapes (zero trace id and/or zero span id), possibly with flags and tracestate
		tid, sid := zt, zs
		switch r.Intn(3) {
		case 0:
			sid = c09RandValidID(r, 8)
		case 1:
			tid = c09RandValidID(r, 16)
		}
		f = append(f, "ctx", tid, sid, strconv.Itoa(vPick(r, []int{0, 1, 2, 3, 255, 254, r.Intn(256)})), vHex(vPick(r, c09TraceStates)), strconv.Itoa(r.Intn(2)))
		gen = "ext-invalid"
	default:
		rem := r.Intn(2)
		f = append(f, "ctx", c09RandValidID(r, 16), c09RandValidID(r, 8),
			strconv.Itoa(vPick(r, []int{0, 1, 0, 1, 2, 3, 255, 254, r.Intn(256)})), vHex(vPick(r, c09TraceStates)), strconv.Itoa(rem))
		gen = "ext-local"
		if rem == 1 {
			gen = "ext-remote"
		}
	}
	n := 1 + r.Intn(8)
	depth := make([]int, n)
	for i := 0; i < n; i++ {
		pidx := -1
		if i > 0 && r.Intn(5) != 0 {
			// pick an earlier node of depth < 4 (prefer the most recent: deeper trees)
			for try := 0; try < 4; try++ {
				c := i - 1 - r.Intn(min(i, 3))
				if depth[c] < 4 {
					pidx = c
					break
				}
			}
		}
		if pidx >= 0 {
			depth[i] = depth[pidx] + 1
		}
		nr := "0"
		if r.Intn(10) == 0 {
			nr = "1"
		}
		var gt, gs string
		if i > 0 && r.Intn(8) == 0 {
			// a custom generator that repeats itself: the ids it returned for an earlier node (taken verbatim by newSpan)
			prev := f[len(f)-7*(1+r.Intn(i)):]
			gt, gs = prev[3], prev[4]
			if r.Intn(2) == 0 {
				gt = c09RandValidID(r, 16)
			}
		} else if r.Intn(6) == 0 {
			gt, gs = c09RandID(r, 16), c09RandID(r, 8)
		} else {
			gt, gs = c09RandValidID(r, 16), c09RandValidID(r, 8)
		}
		dec := vPick(r, []int{0, 1, 2, 2, 2, 1, 0, 3, 255, r.Intn(256)})
		ts := "P"
		if r.Intn(3) == 0 {
			ts = vHex(vPick(r, c09TraceStates))
		}
		f = append(f, "|", strconv.Itoa(pidx), nr, gt, gs, strconv.Itoa(dec), ts)
	}
	return gen, f
}

func TestVerifC09Sampling(t *testing.T) {
	out := vOpen(t)
	defer out.Close()
	nanc := c09NanConv()
	oldS, hadS := os.LookupEnv(tracesSamplerKey)
	oldA, hadA := os.LookupEnv(tracesSamplerArgKey)
	os.Unsetenv(tracesSamplerKey)
	os.Unsetenv(tracesSamplerArgKey)
	defer func() {
		if hadS {
			os.Setenv(tracesSamplerKey, oldS)
		}
		if hadA {
			os.Setenv(tracesSamplerArgKey, oldA)
		}
	}()
	if rp := vReplayLines(); rp != nil {
		for _, f := range rp {
			in := f[2:]
			switch f[0] {
			case "ratio":
				in[1] = strconv.FormatUint(nanc, 10)
				out.Line("ratio %s %s => %s", f[1], strings.Join(in, " "), c09RunRatio(in))
			case "tree":
				in[1] = strconv.FormatUint(nanc, 10)
				out.Line("tree %s %s => %s", f[1], strings.Join(in, " "), c09RunTree(in))
			case "ids":
				out.Line("ids %s %s => %s", f[1], strings.Join(in, " "), c09RunIDs(in))
			case "uniq":
				n, _ := strconv.Atoi(in[0])
				out.Line("uniq %s %d => %s", f[1], n, c09Uniq(n))
			case "env":
				in[3] = strconv.FormatUint(nanc, 10)
				out.Line("env %s %s => %s", f[1], strings.Join(in, " "), c09RunEnv(in, c09ArgFor(in[2])))
			case "desc":
				smp, _ := c09DescFromToks(in)
				out.Line("desc %s %s => %s", f[1], strings.Join(in, " "), vHex(smp.Description()))
			case "uniq2":
				a, _ := strconv.Atoi(in[0])
				b, _ := strconv.Atoi(in[1])
				c, _ := strconv.Atoi(in[2])
				out.Line("uniq2 %s %d %d %d => %s", f[1], a, b, c, c09Uniq2(a, b, c))
			case "sparams":
				out.Line("sparams %s %s => %s", f[1], strings.Join(in, " "), c09RunSParams(in))
			case "prov":
				in[3] = strconv.FormatUint(nanc, 10)
				out.Line("prov %s %s => %s", f[1], strings.Join(in, " "), c09RunProv(in, c09ArgFor(in[2])))
			}
		}
		return
	}
	r := &vRand{s: vSeed()}
	n := vN(20000)
	// fixed part: every boundary ratio, the uniqueness observation
	for _, f := range c09BoundaryRatios() {
		c09EmitRatio(out, r, "boundary", f, nanc)
	}
	un := 1000000
	if os_exhaustive() {
		un = 10000000
	}
	out.Line("uniq default %d => %s", un, c09Uniq(un))
	if os_exhaustive() {
		out.Line("uniq2 api 4 8 20000 => %s", c09Uniq2(4, 8, 20000))
	} else {
		out.Line("uniq2 api 3 4 3000 => %s", c09Uniq2(3, 4, 3000))
	}
	if os_exhaustive() {
		// pairs-of-ratios sweep is implicit: every boundary ratio is run against the boundary ids of every other one
		rs := c09BoundaryRatios()
		for _, a := range rs {
			for _, b := range rs {
				if s, ok := TraceIDRatioBased(b).(*traceIDRatioSampler); ok {
					for _, x := range []uint64{s.traceIDUpperBound - 1, s.traceIDUpperBound} {
						in := []string{c09Ftok(a), strconv.FormatUint(nanc, 10), c09RatioTID(r, x&(1<<63-1))}
						out.Line("ratio pairs %s => %s", strings.Join(in, " "), c09RunRatio(in))
					}
				}
			}
		}
	}
	for i := 0; i < n; {
		switch k := r.Intn(20); {
		case k < 2:
			c09EmitRatio(out, r, "random", c09RandRatio(r), nanc)
			i += 12
		case k < 4:
			gen, f := c09GenIDs(r)
			out.Line("ids %s %s => %s", gen, strings.Join(f, " "), c09RunIDs(f))
			i++
		case k < 6:
			gen, f, arg := c09GenEnv(r)
			f = append(f, strconv.FormatUint(nanc, 10))
			out.Line("env %s %s => %s", gen, strings.Join(f, " "), c09RunEnv(f, arg))
			i++
		case k == 9:
			toks, smp := c09DescGen(r, 0)
			out.Line("desc rnd %s => %s", strings.Join(toks, " "), vHex(smp.Description()))
			i++
		case k < 7:
			gen, f := c09GenSParams(r)
			out.Line("sparams %s %s => %s", gen, strings.Join(f, " "), c09RunSParams(f))
			i++
		case k < 9:
			gen, f, ao := c09GenProv(r)
			p := strings.SplitN(ao, "\x00", 2)
			f = append(f, strconv.FormatUint(nanc, 10), p[1])
			out.Line("prov %s %s => %s", gen, strings.Join(f, " "), c09RunProv(f, p[0]))
			i++
		default:
			gen, f := c09GenTree(r, nanc)
			out.Line("tree %s %s => %s", gen, strings.Join(f, " "), c09RunTree(f))
			i++
		}
	}
}
