package trace

// C10 harness: a span ends exactly once; the tracing API is safe under concurrent use.
//   TestVerifC10Sched: controlled schedules. A script is executed one op at a time; End calls run in their own
//     goroutines and are stopped at gates (the white-box `executionTracerTaskEnd` hook, SpanProcessors whose OnEnd
//     blocks); after every op each End goroutine is blocked at a gate or has returned (exact hand-shake, no timing).
//     Replayed label by label on the LTS. Line format: /verif/lean/Otel/C10/Main.lean.
//   TestVerifC10AttrRace: known finding F36 (snapshot reader vs Attributes() on the ended span), reproduced in a
//     race-instrumented CHILD process so that its report stays out of this process's output; observation only.
//   TestVerifC10Hist: free-running stress histories (2–16 goroutines, -race) with linearizable stamps, judged by the
//     Spec oracle only.
// Uses the op/snapshot wire helpers of the C04 harness (zz_verif_c04_span_test.go, injected with this file).

import (
	"bytes"
	"context"
	"errors"
	"fmt"
	"io"
	"os"
	"os/exec"
	"runtime"
	rtrace "runtime/trace"
	"sort"
	"strconv"
	"strings"
	"sync"
	"sync/atomic"
	"testing"
	"time"

	"go.opentelemetry.io/otel"
	"go.opentelemetry.io/otel/attribute"
	"go.opentelemetry.io/otel/codes"
	"go.opentelemetry.io/otel/trace"
)

var c10Base = time.Unix(1700000000, 0)

// the package's own tests install a global error handler that is not goroutine-safe (trace_test.go storingHandler)
func c10SafeHandler() func() {
	otel.SetErrorHandler(otel.ErrorHandlerFunc(func(error) {}))
	return func() { otel.SetErrorHandler(handler) }
}

func c10Gid() uint64 {
	var buf [64]byte
	b := buf[:runtime.Stack(buf[:], false)]
	b = bytes.TrimPrefix(b, []byte("goroutine "))
	if i := bytes.IndexByte(b, ' '); i >= 0 {
		b = b[:i]
	}
	n, _ := strconv.ParseUint(string(b), 10, 64)
	return n
}

func c10EtIdx(t time.Time) int {
	if t.IsZero() {
		return 0
	}
	d := t.Sub(c10Base)
	if d%time.Second != 0 || d <= 0 {
		return 999999
	}
	return int(d / time.Second)
}

// ---------------------------------------------------------------- controlled schedules

type c10Del struct {
	p    int
	s    ReadOnlySpan
	dump string
}

type c10Run struct {
	mu      sync.Mutex
	target  trace.SpanID
	pgate   bool
	calls   map[uint64]int    // goroutine id -> End call id
	ev      map[int]chan string
	release map[int]chan struct{}
	open    chan struct{} // closed at clean-up: every gate lets through
	dels    []c10Del
	wg      sync.WaitGroup
}

func (r *c10Run) callOf() (int, bool) {
	g := c10Gid()
	r.mu.Lock()
	defer r.mu.Unlock()
	k, ok := r.calls[g]
	return k, ok
}

// block reports that call k is blocked at `what` and waits for its release.
func (r *c10Run) block(k int, what string) {
	r.mu.Lock()
	ev, rel := r.ev[k], r.release[k]
	r.mu.Unlock()
	select {
	case <-r.open: // clean-up: every gate is open
		return
	default:
	}
	select {
	case ev <- what:
	case <-r.open:
		return
	}
	select {
	case <-rel:
	case <-r.open:
	}
}

type c10Proc struct {
	id int
	r  *c10Run
}

// c10GateErr: an error whose Error() — user code the SDK calls while formatting — parks on a gate when it is called
// from one of the script's call goroutines (observation `E`).
type c10GateErr struct {
	r   *c10Run
	msg string
}

func (e *c10GateErr) Error() string {
	if k, ok := e.r.callOf(); ok {
		e.r.block(k, "E")
	}
	return e.msg
}

func (p *c10Proc) OnStart(context.Context, ReadWriteSpan) {}
func (p *c10Proc) OnEnd(s ReadOnlySpan) {
	if s.SpanContext().SpanID() != p.r.target {
		return
	}
	d := c10Del{p.id, s, vC04Dump(s)}
	p.r.mu.Lock()
	p.r.dels = append(p.r.dels, d)
	p.r.mu.Unlock()
	if p.r.pgate {
		if k, ok := p.r.callOf(); ok {
			p.r.block(k, "P"+strconv.Itoa(p.id))
		}
	}
}
func (p *c10Proc) Shutdown(context.Context) error   { return nil }
func (p *c10Proc) ForceFlush(context.Context) error { return nil }

const c10Wait = 3 * time.Second

// number of scripts in which something hung: after a few the generator stops (every further one would cost seconds)
var c10Hangs atomic.Int32

// c10Sampler: the span under test (a root span) gets `root`; a child named "child:D" / "child:R" / "child:S" is dropped /
// recorded only / recorded and sampled. Child counts must not depend on what the sampler decides for the child.
type c10Sampler struct{ root SamplingDecision }

func (s *c10Sampler) ShouldSample(p SamplingParameters) SamplingResult {
	psc := trace.SpanContextFromContext(p.ParentContext)
	d := RecordAndSample
	if !psc.IsValid() {
		d = s.root
	} else if strings.HasPrefix(p.Name, "child:") {
		switch p.Name[6:] {
		case "D":
			d = Drop
		case "R":
			d = RecordOnly
		}
	}
	return SamplingResult{Decision: d, Tracestate: psc.TraceState()}
}
func (s *c10Sampler) Description() string { return "c10Sampler" }

func c10Root(recordOnly bool) *c10Sampler {
	if recordOnly {
		return &c10Sampler{root: RecordOnly}
	}
	return &c10Sampler{root: RecordAndSample}
}

func c10RunSched(task string, pgate, parentRO bool, lim [6]int, name string, ops [][]string) (string, string) {
	tp := NewTracerProvider(WithRawSpanLimits(SpanLimits{
		AttributeCountLimit: lim[0], AttributeValueLengthLimit: lim[1], EventCountLimit: lim[2],
		LinkCountLimit: lim[3], AttributePerEventCountLimit: lim[4], AttributePerLinkCountLimit: lim[5],
	}), WithSampler(c10Root(parentRO)))
	defer func() { _ = tp.Shutdown(context.Background()) }()
	r := &c10Run{pgate: pgate, calls: map[uint64]int{}, ev: map[int]chan string{}, release: map[int]chan struct{}{},
		open: make(chan struct{})}
	procs := map[int]*c10Proc{}
	registered := map[int]bool{}
	rtOn := false
	if task == "r" {
		if err := rtrace.Start(io.Discard); err == nil {
			rtOn = true
		}
	}
	tr := tp.Tracer("verif")
	ctx, span := tr.Start(context.Background(), name)
	if rtOn {
		rtrace.Stop() // the task exists; its End is what matters
	}
	rs := span.(*recordingSpan)
	r.target = rs.spanContext.SpanID()
	rs.mu.Lock()
	switch task {
	case "g":
		rs.executionTracerTaskEnd = func() {
			if k, ok := r.callOf(); ok {
				r.block(k, "T")
			}
		}
	case "r":
		if rs.executionTracerTaskEnd == nil {
			task = "0"
		}
	default:
		rs.executionTracerTaskEnd = nil
	}
	rs.mu.Unlock()

	hung := false
	state := map[int]string{} // End call -> last observation
	await := func(k int) string {
		r.mu.Lock()
		ev := r.ev[k]
		r.mu.Unlock()
		select {
		case o := <-ev:
			state[k] = o
			return o
		case <-time.After(c10Wait):
			state[k] = "H"
			hung = true
			return "H"
		}
	}
	obs := make([]string, 0, len(ops))
	nTr := 0
	// watchdog: a span method that blocks for good (mutex held across a gate) is an observation (`H`)
	guarded := func(f func() string) string {
		done := make(chan string, 1)
		r.wg.Add(1)
		go func() { defer r.wg.Done(); done <- f() }()
		select {
		case o := <-done:
			return o
		case <-time.After(c10Wait):
			hung = true
			return "H"
		}
	}
	// startCall runs body in its own goroutine as call k (End, gated RecordError, panicking End)
	startCall := func(k int, body func(), panics bool) {
		r.mu.Lock()
		r.ev[k] = make(chan string, 16)
		r.release[k] = make(chan struct{})
		ev := r.ev[k]
		r.mu.Unlock()
		state[k] = "?"
		r.wg.Add(1)
		go func() {
			defer r.wg.Done()
			g := c10Gid()
			r.mu.Lock()
			r.calls[g] = k
			r.mu.Unlock()
			res := "r"
			func() {
				defer func() {
					if recover() != nil && !panics {
						res = "X" // a panic inside a span method is an observation
					}
				}()
				body()
			}()
			r.mu.Lock()
			delete(r.calls, g)
			r.mu.Unlock()
			select {
			case ev <- res:
			case <-r.open:
			}
		}()
	}
	endAt := func(k int) trace.SpanEndOption {
		return trace.WithTimestamp(c10Base.Add(time.Duration(k) * time.Second))
	}
	// the span methods called synchronously by the script
	runSync := func(op []string) string {
		switch op[0] {
		case "ir":
			return vC04B(span.IsRecording())
		case "ch":
			dec := "S"
			if len(op) > 1 {
				dec = op[1]
			}
			_, child := tr.Start(ctx, "child:"+dec)
			child.End()
		case "sa":
			span.SetAttributes(vC04ParseKVs(op[1])...)
		case "ev":
			if kvs := vC04ParseKVs(op[2]); kvs == nil {
				span.AddEvent(vUnhex(op[1]))
			} else {
				span.AddEvent(vUnhex(op[1]), trace.WithAttributes(kvs...))
			}
		case "ln":
			span.AddLink(trace.Link{SpanContext: vC04ParseSC(op[1]), Attributes: vC04ParseKVs(op[2])})
		case "re":
			var err error
			if op[1] != "-" {
				err = errors.New(vUnhex(op[1]))
			}
			if kvs := vC04ParseKVs(op[2]); kvs == nil {
				span.RecordError(err)
			} else {
				span.RecordError(err, trace.WithAttributes(kvs...))
			}
		case "st":
			c, _ := strconv.Atoi(op[1])
			span.SetStatus(codes.Code(c), vUnhex(op[2]))
		case "nm":
			span.SetName(vUnhex(op[1]))
		default:
			panic("bad op " + op[0])
		}
		return "-"
	}
	isSync := func(op []string) bool {
		switch op[0] {
		case "ir", "ch", "sa", "ev", "ln", "re", "st", "nm":
			return true
		}
		return false
	}
	// A call parked inside Error() sits INSIDE a critical section of the span (unchanged tree: RecordError and the
	// panic path of End format under s.mu). Exactly one more op may then be issued: it is started, given a bounded
	// head start (so that, should the mutex NOT be held, it really gets ahead) and not awaited — its observation is
	// `~` whatever happened; what happened shows in the final snapshots only. Then the gate must be released.
	parkedE := 0
	var pendFinish func() string
	const headStart = 25 * time.Millisecond
	for _, op := range ops {
		if hung {
			break
		}
		if parkedE != 0 {
			k := -1
			if op[0] == "g" {
				k, _ = strconv.Atoi(op[1])
			}
			switch {
			case k == parkedE:
				r.mu.Lock()
				rel := r.release[k]
				r.mu.Unlock()
				o := "H"
				select {
				case rel <- struct{}{}:
					o = await(k)
				case <-time.After(c10Wait):
					hung = true
				}
				parkedE = 0
				if pendFinish != nil {
					o += "+" + pendFinish()
					pendFinish = nil
				}
				obs = append(obs, o)
			case pendFinish == nil && op[0] == "e":
				k2, _ := strconv.Atoi(op[1])
				if _, dup := state[k2]; dup {
					obs = append(obs, "!")
					break
				}
				startCall(k2, func() { span.End(endAt(k2)) }, false)
				r.mu.Lock()
				ev := r.ev[k2]
				r.mu.Unlock()
				early := ""
				select {
				case early = <-ev:
					state[k2] = early
				case <-time.After(headStart):
				}
				pendFinish = func() string {
					if early != "" {
						return early
					}
					return await(k2)
				}
				obs = append(obs, "~")
			case pendFinish == nil && isSync(op):
				done := make(chan string, 1)
				r.wg.Add(1)
				opc := op
				go func() { defer r.wg.Done(); done <- runSync(opc) }()
				early := ""
				select {
				case early = <-done:
				case <-time.After(headStart):
				}
				pendFinish = func() string {
					if early != "" {
						return early
					}
					select {
					case o := <-done:
						return o
					case <-time.After(c10Wait):
						hung = true
						return "H"
					}
				}
				obs = append(obs, "~")
			default:
				obs = append(obs, "!")
			}
			continue
		}
		o := "-"
		switch op[0] {
		case "e":
			k, _ := strconv.Atoi(op[1])
			if _, dup := state[k]; dup {
				o = "X"
				break
			}
			startCall(k, func() { span.End(endAt(k)) }, false)
			o = await(k)
		case "rE", "pe":
			k, _ := strconv.Atoi(op[1])
			if _, dup := state[k]; dup {
				o = "X"
				break
			}
			gerr := &c10GateErr{r: r, msg: vUnhex(op[2])}
			if op[0] == "rE" {
				startCall(k, func() { span.RecordError(gerr) }, false)
			} else {
				startCall(k, func() {
					defer span.End(endAt(k))
					panic(gerr)
				}, true)
			}
			if o = await(k); o == "E" {
				parkedE = k
			}
		case "g":
			k, _ := strconv.Atoi(op[1])
			if st := state[k]; st == "T" || strings.HasPrefix(st, "P") {
				r.mu.Lock()
				rel := r.release[k]
				r.mu.Unlock()
				select {
				case rel <- struct{}{}:
					o = await(k)
				case <-time.After(c10Wait):
					o = "H"
				}
			}
		case "ot":
			nTr++
			o = guarded(func() string {
				_ = tp.Tracer("t" + strconv.Itoa(nTr%3))
				_ = tp.ForceFlush(context.Background())
				return "-"
			})
		case "rg":
			p, _ := strconv.Atoi(op[1])
			if !registered[p] {
				if procs[p] == nil {
					procs[p] = &c10Proc{id: p, r: r}
				}
				tp.RegisterSpanProcessor(procs[p])
				registered[p] = true
			}
		case "ur":
			p, _ := strconv.Atoi(op[1])
			if procs[p] == nil {
				procs[p] = &c10Proc{id: p, r: r}
			}
			tp.UnregisterSpanProcessor(procs[p])
			registered[p] = false
		default:
			opc := op
			o = guarded(func() string { return runSync(opc) })
		}
		obs = append(obs, o)
	}
	if parkedE != 0 && !hung {
		// a script must not end with a call parked inside a critical section: implicit release (the driver does the same)
		r.mu.Lock()
		rel := r.release[parkedE]
		r.mu.Unlock()
		select {
		case rel <- struct{}{}:
			await(parkedE)
		case <-time.After(c10Wait):
			hung = true
		}
		if pendFinish != nil {
			pendFinish()
		}
	}
	// final observations, taken while End calls may still be blocked at their gates
	r.mu.Lock()
	dels := append([]c10Del{}, r.dels...)
	r.mu.Unlock()
	fin := []string{"0 0 0"}
	if !hung {
		if guarded(func() string {
			fin[0] = fmt.Sprintf("%s %d %d", vC04B(span.IsRecording()), rs.ChildSpanCount(), c10EtIdx(rs.EndTime()))
			return "-"
		}) == "H" {
			obs = append(obs, "H")
		}
	}
	for _, d := range dels {
		fin = append(fin, fmt.Sprintf("%d %d %d %s %s", d.p, c10EtIdx(d.s.EndTime()), d.s.ChildSpanCount(),
			vC04B(vC04Dump(d.s) == d.dump), d.dump))
	}
	// clean up: open every gate, wait for the End goroutines (goleak TestMain)
	close(r.open)
	if hung {
		c10Hangs.Add(1)
	}
	done := make(chan struct{})
	go func() { r.wg.Wait(); close(done) }()
	select {
	case <-done:
	case <-time.After(c10Wait):
		obs = append(obs, "H")
		c10Hangs.Add(1)
	}
	return task, strings.Join(obs, " ") + " ## " + strings.Join(fin, " ; ")
}

func c10GenSched(r *vRand) (string, bool, bool, [6]int, string, [][]string) {
	var lim [6]int
	for j := range lim {
		lim[j] = vPick(r, []int{-1, -1, 0, 1, 2, 3, 5, 128})
	}
	task := vPick(r, []string{"0", "0", "g", "g", "g", "r"})
	pgate := r.Intn(3) != 0
	parentRO := r.Intn(3) == 0
	name := vStr(r, 2)
	var ops [][]string
	reg := map[int]bool{}
	np := r.Intn(4)
	for p := 1; p <= np; p++ {
		ops = append(ops, []string{"rg", strconv.Itoa(p)})
		reg[p] = true
	}
	n := 3 + r.Intn(24)
	nextE := 1
	blocked := []int{}
	for i := 0; i < n; i++ {
		switch x := r.Intn(100); {
		case x < 30:
			op := vC04GenOp(r, 0)
			if op[0] == "end" {
				op = []string{"ir"}
			}
			ops = append(ops, op)
		case x < 38:
			ops = append(ops, []string{"ir"})
		case x < 48:
			ops = append(ops, []string{"ch", vPick(r, []string{"S", "S", "D", "D", "R"})})
		case x < 52:
			ops = append(ops, []string{"ot"})
		case x < 58:
			p := 1 + r.Intn(4)
			if reg[p] {
				ops = append(ops, []string{"ur", strconv.Itoa(p)})
				reg[p] = false
			} else {
				ops = append(ops, []string{"rg", strconv.Itoa(p)})
				reg[p] = true
			}
		case x < 66 && nextE <= 4:
			ops = append(ops, []string{"e", strconv.Itoa(nextE)})
			blocked = append(blocked, nextE)
			nextE++
		case x < 69 && nextE <= 6:
			// user code parked INSIDE a critical section: gated Error() of RecordError / of a panicking End; at most one
			// op while it is parked, then the release
			k := nextE
			nextE++
			kind := vPick(r, []string{"rE", "rE", "pe"})
			ops = append(ops, []string{kind, strconv.Itoa(k), vHex(vValidStr(r, 2))})
			switch y := r.Intn(24); { // one op in a third of the cases (each costs the head start on the unchanged tree)
			case y < 4 && nextE <= 6:
				ops = append(ops, []string{"e", strconv.Itoa(nextE)})
				blocked = append(blocked, nextE)
				nextE++
			case y < 6:
				op := vC04GenOp(r, 0)
				if op[0] == "end" {
					op = []string{"ir"}
				}
				ops = append(ops, op)
			case y < 7:
				ops = append(ops, []string{"ch", vPick(r, []string{"S", "D"})})
			case y < 8:
				ops = append(ops, []string{"ir"})
			}
			ops = append(ops, []string{"g", strconv.Itoa(k)})
			if kind == "pe" {
				blocked = append(blocked, k)
			}
		default:
			if len(blocked) > 0 {
				ops = append(ops, []string{"g", strconv.Itoa(vPick(r, blocked))})
			} else {
				ops = append(ops, []string{"ir"})
			}
		}
	}
	// mostly drain the winner so that "exactly once" is exercised
	if nextE > 1 && r.Intn(4) != 0 {
		for i := 0; i < 7; i++ {
			ops = append(ops, []string{"g", "1"})
		}
	}
	return task, pgate, parentRO, lim, name, ops
}

func c10SchedLine(out *vOut, gen, task string, pgate, parentRO bool, lim [6]int, name string, ops [][]string) {
	task, res := c10RunSched(task, pgate, parentRO, lim, name, ops)
	pg := vC04B(pgate)
	if parentRO {
		pg += "R" // the span under test is RecordOnly (recording, not sampled)
	}
	var sb strings.Builder
	fmt.Fprintf(&sb, "sched %s %s %s %d %d %d %d %d %d %s", gen, task, pg, lim[0], lim[1], lim[2], lim[3], lim[4], lim[5], vHex(name))
	for _, op := range ops {
		sb.WriteString(" | ")
		sb.WriteString(strings.Join(op, " "))
	}
	out.Line("%s => %s", sb.String(), res)
}

func TestVerifC10Sched(t *testing.T) {
	out := vOpen(t)
	defer out.Close()
	defer c10SafeHandler()()
	if rp := vReplayLines(); rp != nil {
		for _, f := range rp {
			if f[0] != "sched" || len(f) < 11 {
				continue
			}
			var lim [6]int
			for i := range lim {
				lim[i], _ = strconv.Atoi(f[4+i])
			}
			if c10Hangs.Load() < 3 {
				c10SchedLine(out, f[1], f[2], strings.HasPrefix(f[3], "1"), strings.HasSuffix(f[3], "R"), lim, vUnhex(f[10]), vC04Split(f[11:]))
			}
		}
		return
	}
	r := &vRand{s: vSeed() ^ 0xc10}
	n := vN(1500)
	for i := 0; i < n && c10Hangs.Load() < 3; i++ {
		task, pgate, parentRO, lim, name, ops := c10GenSched(r)
		c10SchedLine(out, "rnd", task, pgate, parentRO, lim, name, ops)
	}
}

// ---------------------------------------------------------------- free-running stress histories

type c10Ev struct {
	seq uint64
	s   string
}

type c10Hist struct {
	seq    atomic.Uint64
	mu     sync.Mutex
	evs    []c10Ev
	target trace.SpanID
	snaps  []string       // rendering at OnEnd time
	spans  []ReadOnlySpan // the snapshot objects, re-read at the end
}

func (h *c10Hist) stamp(s string) {
	q := h.seq.Add(1)
	h.mu.Lock()
	h.evs = append(h.evs, c10Ev{q, s})
	h.mu.Unlock()
}

func c10HRender(s ReadOnlySpan) string {
	name := 999999
	if n := s.Name(); strings.HasPrefix(n, "n") {
		name, _ = strconv.Atoi(n[1:])
	}
	var uniq, shared []string
	for _, a := range s.Attributes() {
		k := string(a.Key)
		switch {
		case strings.HasPrefix(k, "u"):
			uniq = append(uniq, k[1:])
			if p := strings.Split(k[1:], "_"); len(p) != 2 || strconv.FormatInt(a.Value.AsInt64(), 10) != p[0] {
				uniq = append(uniq, "999999_999999") // value does not belong to the call that owns the key
			}
		case strings.HasPrefix(k, "s"):
			shared = append(shared, k[1:]+"="+strconv.FormatInt(a.Value.AsInt64(), 10))
		default:
			uniq = append(uniq, "999999_0")
		}
	}
	var evs []string
	for _, e := range s.Events() {
		if e.Name == "exception" {
			// RecordError(errors.New("<call id>")): rendered as the event of that call; the event must be COMPLETE
			// (exception.type and exception.message, nothing else) — a torn event renders as 999999
			id, typ := "999999", false
			for _, a := range e.Attributes {
				switch string(a.Key) {
				case "exception.message":
					id = a.Value.AsString()
				case "exception.type":
					typ = a.Value.AsString() == "*errors.errorString"
				}
			}
			if !typ || len(e.Attributes) != 2 {
				id = "999999"
			}
			evs = append(evs, id)
			continue
		}
		evs = append(evs, e.Name)
	}
	j := func(xs []string, sep string) string {
		if len(xs) == 0 {
			return "-"
		}
		return strings.Join(xs, sep)
	}
	return fmt.Sprintf("%d %d %d %d %s %s %s", c10EtIdx(s.EndTime()), s.ChildSpanCount(), name, uint32(s.Status().Code),
		j(uniq, ","), j(shared, ","), j(evs, "."))
}

type c10HProc struct {
	id int
	h  *c10Hist
}

func (p *c10HProc) OnStart(context.Context, ReadWriteSpan) {}
func (p *c10HProc) OnEnd(s ReadOnlySpan) {
	if s.SpanContext().SpanID() != p.h.target {
		return
	}
	rd := c10HRender(s)
	p.h.mu.Lock()
	idx := -1
	for i, x := range p.h.spans {
		if x == s || p.h.snaps[i] == rd {
			idx = i
			break
		}
	}
	if idx < 0 {
		p.h.snaps = append(p.h.snaps, rd)
		p.h.spans = append(p.h.spans, s)
		idx = len(p.h.snaps) - 1
	}
	p.h.mu.Unlock()
	p.h.stamp(fmt.Sprintf("OE%d:%d", p.id, idx))
}
func (p *c10HProc) Shutdown(context.Context) error   { return nil }
func (p *c10HProc) ForceFlush(context.Context) error { return nil }

func c10OneHist(seed uint64, gen string) string {
	r := &vRand{s: seed}
	h := &c10Hist{}
	nPerm := 1 + r.Intn(3)
	nShared := r.Intn(4)
	parentRO := r.Intn(3) == 0
	if parentRO {
		gen += "-ro" // the shared span is RecordOnly
	}
	opts := []TracerProviderOption{WithRawSpanLimits(SpanLimits{-1, -1, -1, -1, -1, -1}), WithSampler(c10Root(parentRO))}
	perm := []string{}
	for p := 1; p <= nPerm; p++ {
		opts = append(opts, WithSpanProcessor(&c10HProc{id: p, h: h}))
		perm = append(perm, strconv.Itoa(p))
	}
	tp := NewTracerProvider(opts...)
	defer func() { _ = tp.Shutdown(context.Background()) }()
	tr := tp.Tracer("verif")
	ctx, span := tr.Start(context.Background(), "n0")
	rs := span.(*recordingSpan)
	h.target = rs.spanContext.SpanID()

	ng := 2 + r.Intn(15)
	nEnders := 1 + r.Intn(4)
	if r.Intn(12) == 0 {
		nEnders = 0
	}
	start := make(chan struct{})
	var wg sync.WaitGroup
	for g := 0; g < ng; g++ {
		wg.Add(1)
		gr := &vRand{s: seed*31 + uint64(g)*7919 + 1}
		nops := 2 + gr.Intn(9)
		endAt := -1
		if g < nEnders {
			endAt = gr.Intn(nops)
		}
		go func(g int) {
			defer wg.Done()
			defer func() {
				if rec := recover(); rec != nil {
					h.stamp("PANIC")
				}
			}()
			<-start
			for j := 0; j < nops; j++ {
				i := g*100 + j + 1
				is := strconv.Itoa(i)
				if j == endAt {
					h.stamp("ENc" + is)
					span.End(trace.WithTimestamp(c10Base.Add(time.Duration(i) * time.Second)))
					h.stamp("ENr" + is)
					continue
				}
				switch x := gr.Intn(100); {
				case x < 30:
					k := gr.Intn(5)
					kvs := make([]attribute.KeyValue, 0, k+nShared)
					for a := 0; a < k; a++ {
						kvs = append(kvs, attribute.Int("u"+is+"_"+strconv.Itoa(a), i))
					}
					for a := 0; a < nShared; a++ {
						kvs = append(kvs, attribute.Int("s"+strconv.Itoa(a), i))
					}
					h.stamp("SAc" + is + ":" + strconv.Itoa(k))
					span.SetAttributes(kvs...)
					h.stamp("SAr" + is)
				case x < 38:
					h.stamp("EVc" + is)
					span.AddEvent(is)
					h.stamp("EVr" + is)
				case x < 45:
					// RecordError is a mutator like AddEvent (formats under s.mu, then addEvent): same obligations
					h.stamp("EVc" + is)
					span.RecordError(errors.New(is))
					h.stamp("EVr" + is)
				case x < 53:
					h.stamp("NMc" + is)
					span.SetName("n" + is)
					h.stamp("NMr" + is)
				case x < 61:
					c := gr.Intn(3)
					h.stamp("STc" + is + ":" + strconv.Itoa(c))
					span.SetStatus(codes.Code(c), "d")
					h.stamp("STr" + is)
				case x < 73:
					// the sampler drops / records-only / samples the child: it is counted on the parent all the same
					cname := "child:" + []string{"S", "D", "D", "R"}[gr.Intn(4)]
					h.stamp("CHc" + is)
					_, child := tr.Start(ctx, cname)
					h.stamp("CHr" + is)
					child.End()
				case x < 85:
					h.stamp("IRc" + is)
					v := span.IsRecording()
					h.stamp("IRr" + is + ":" + vC04B(v))
				case x < 88:
					span.RecordError(nil)
					span.AddLink(trace.Link{})
					_ = rs.ChildSpanCount()
					_ = rs.EndTime()
				default:
					// provider / tracer methods, mixed in
					switch gr.Intn(4) {
					case 0:
						_ = tp.Tracer("t" + strconv.Itoa(gr.Intn(3)))
					case 1:
						_ = tp.ForceFlush(context.Background())
					default:
						q := &c10HProc{id: 10 + i, h: h}
						tp.RegisterSpanProcessor(q)
						if gr.Bool() {
							runtime.Gosched()
						}
						tp.UnregisterSpanProcessor(q)
					}
					h.stamp("OT")
				}
				if gr.Intn(3) == 0 {
					runtime.Gosched()
				}
			}
		}(g)
	}
	close(start)
	done := make(chan struct{})
	go func() { wg.Wait(); close(done) }()
	select {
	case <-done:
	case <-time.After(20 * time.Second):
		h.stamp("HANG")
	}
	h.mu.Lock()
	evs := append([]c10Ev{}, h.evs...)
	snaps := append([]string{}, h.snaps...)
	spans := append([]ReadOnlySpan{}, h.spans...)
	h.mu.Unlock()
	sort.Slice(evs, func(i, j int) bool { return evs[i].seq < evs[j].seq })
	ss := make([]string, len(evs))
	for i, e := range evs {
		ss[i] = e.s
	}
	fin := []string{fmt.Sprintf("%s %d %d", vC04B(span.IsRecording()), c10EtIdx(rs.EndTime()), rs.ChildSpanCount())}
	for i, s := range spans {
		fin = append(fin, snaps[i]+" "+vC04B(c10HRender(s) == snaps[i]))
	}
	return fmt.Sprintf("hist %s %s %d | %s => %s", gen, strings.Join(perm, "."), nShared, strings.Join(ss, " "), strings.Join(fin, " ; "))
}

func TestVerifC10Hist(t *testing.T) {
	out := vOpen(t)
	defer out.Close()
	defer c10SafeHandler()()
	if vReplayLines() != nil {
		return // free-running histories cannot be re-executed; a replay file holds the history itself
	}
	n := vN(600)
	seed := vSeed()
	res := make([]string, n)
	batch := func(lo, hi int, gen string) {
		sem := make(chan struct{}, 4)
		var wg sync.WaitGroup
		for i := lo; i < hi; i++ {
			wg.Add(1)
			sem <- struct{}{}
			go func(i int) {
				defer wg.Done()
				defer func() { <-sem }()
				res[i] = c10OneHist(seed*1000003+uint64(i), gen)
			}(i)
		}
		wg.Wait()
	}
	// the last fifth of the histories runs with the Go execution tracer on: every span then owns a runtime/trace task
	cut := n - n/5
	batch(0, cut, "stress")
	if err := rtrace.Start(io.Discard); err == nil {
		batch(cut, n, "stress-rt")
		rtrace.Stop()
	} else {
		batch(cut, n, "stress")
	}
	for _, l := range res {
		out.Line("%s", l)
	}
}

// ---------------------------------------------------------------- F36: snapshot reader vs Attributes() on the ended span

// Line: `attrrace <gen> <n attrs> <dup keys> <concurrent Attributes() 0|1> => race | norace | race:other | err`
// The scenario runs in a child process (this test binary, race-instrumented because the leg has "race": true): the
// child's `WARNING: DATA RACE` must not reach the parent's output, it becomes the observation.

type c10ARProc struct {
	rw   ReadWriteSpan
	snap ReadOnlySpan
}

func (p *c10ARProc) OnStart(_ context.Context, s ReadWriteSpan) { p.rw = s }
func (p *c10ARProc) OnEnd(s ReadOnlySpan)                       { p.snap = s }
func (p *c10ARProc) Shutdown(context.Context) error             { return nil }
func (p *c10ARProc) ForceFlush(context.Context) error           { return nil }

func TestVerifC10AttrRaceChild(t *testing.T) {
	spec := os.Getenv("VERIF_C10_ATTRRACE")
	if spec == "" {
		t.Skip("child of TestVerifC10AttrRace only")
	}
	f := strings.Split(spec, ",")
	n, _ := strconv.Atoi(f[0])
	dup, _ := strconv.Atoi(f[1])
	conc := f[2] == "1"
	pp := &c10ARProc{}
	tp := NewTracerProvider(WithRawSpanLimits(SpanLimits{-1, -1, -1, -1, -1, -1}), WithSpanProcessor(pp))
	defer func() { _ = tp.Shutdown(context.Background()) }()
	_, span := tp.Tracer("verif").Start(context.Background(), "s")
	kvs := []attribute.KeyValue{}
	for i := 0; i < n; i++ {
		kvs = append(kvs, attribute.Int("k"+strconv.Itoa(i), i))
	}
	for i := 0; i < dup && i < n; i++ {
		kvs = append(kvs, attribute.Int("k"+strconv.Itoa(i), 100+i)) // duplicate key: de-duplication rewrites
	}
	span.SetAttributes(kvs...)
	span.End()
	snap, rw := pp.snap, pp.rw // what a processor legitimately holds: the exported snapshot and the span from OnStart
	start := make(chan struct{})
	var wg sync.WaitGroup
	var sink atomic.Int64
	reader := func() {
		defer wg.Done()
		<-start
		for i := 0; i < 3000; i++ {
			for _, a := range snap.Attributes() {
				sink.Add(a.Value.AsInt64())
			}
		}
	}
	wg.Add(2)
	go reader()
	if conc {
		go func() {
			defer wg.Done()
			<-start
			for i := 0; i < 3000; i++ {
				sink.Add(int64(len(rw.Attributes())))
			}
		}()
	} else {
		go reader() // control: two readers of the snapshot, nobody touches the span
	}
	close(start)
	wg.Wait()
}

func c10AttrRace(n, dup, conc int) string {
	cmd := exec.Command(os.Args[0], "-test.run", "^TestVerifC10AttrRaceChild$", "-test.count=1")
	env := []string{}
	for _, e := range os.Environ() {
		if strings.HasPrefix(e, "VERIF_") || strings.HasPrefix(e, "GORACE=") {
			continue
		}
		env = append(env, e)
	}
	cmd.Env = append(env, fmt.Sprintf("VERIF_C10_ATTRRACE=%d,%d,%d", n, dup, conc), "GORACE=halt_on_error=0")
	type res struct {
		out []byte
		err error
	}
	ch := make(chan res, 1)
	go func() { o, err := cmd.CombinedOutput(); ch <- res{o, err} }()
	var r res
	select {
	case r = <-ch:
	case <-time.After(120 * time.Second):
		if cmd.Process != nil {
			_ = cmd.Process.Kill()
		}
		<-ch
		return "err"
	}
	o := string(r.out)
	switch {
	case strings.Contains(o, "WARNING: DATA RACE"):
		if strings.Contains(o, "dedupeAttrsFromRecord") {
			return "race"
		}
		return "race:other"
	case r.err == nil && strings.Contains(o, "PASS"):
		return "norace"
	default:
		return "err"
	}
}

func TestVerifC10AttrRace(t *testing.T) {
	out := vOpen(t)
	defer out.Close()
	line := func(gen string, n, dup, conc int) {
		out.Line("attrrace %s %d %d %d => %s", gen, n, dup, conc, c10AttrRace(n, dup, conc))
	}
	if rp := vReplayLines(); rp != nil {
		for _, f := range rp {
			if f[0] != "attrrace" || len(f) < 5 {
				continue
			}
			n, _ := strconv.Atoi(f[2])
			dup, _ := strconv.Atoi(f[3])
			conc, _ := strconv.Atoi(f[4])
			line(f[1], n, dup, conc)
		}
		return
	}
	fixed := [][3]int{{3, 1, 1}, {3, 1, 0}, {1, 0, 1}, {0, 0, 1}, {5, 2, 1}, {4, 0, 0}}
	r := &vRand{s: vSeed() ^ 0xf36}
	n := vN(8)
	for i := 0; i < n; i++ {
		if i < len(fixed) {
			line("fixed", fixed[i][0], fixed[i][1], fixed[i][2])
			continue
		}
		k := r.Intn(9)
		conc := 1
		if r.Intn(4) == 0 {
			conc = 0 // control
		}
		line("rnd", k, r.Intn(k+1), conc)
	}
}

// ---------------------------------------------------------------- argument memory shared between calls (leg `alias`)

// Line: `alias <gen> <6 limits> | <op> | <op> … => <one 0|1 per op> ## <span idx> <immutable 0|1> <dump at OnEnd> ; …`
// A sequential script over several spans of one provider and several CALLER-OWNED attribute slices with spare capacity:
//   mk <kvs> <spare>            buf := append(make([]KeyValue, 0, n+spare), kvs...)   (buffer index = number of mk so far)
//   wr <b> <i> <kv>             buf_b[:cap(buf_b)][i] = kv   (the caller reuses / overwrites its slice after a call returned)
//   sp <hex name> <bufs a.b|-> <links sc@b+sc@-|->   Start(name, WithLinks(Link{sc, buf_b}…), WithAttributes(buf_a...), …)
//   sa <s> <b> · ev <s> <hex name> <bufs> · re <s> <hex msg|-> <bufs> · ln <s> <sc> <b|-> · st <s> <code> <hex> · nm <s> <hex>
//   end <s>
// After EVERY op every snapshot exported so far is re-read and compared with what OnEnd saw (the per-op flag).
type c10AliasProc struct {
	idx   map[trace.SpanID]int
	spans []ReadOnlySpan
	which []int
	dumps []string
}

func (p *c10AliasProc) OnStart(context.Context, ReadWriteSpan) {}
func (p *c10AliasProc) OnEnd(s ReadOnlySpan) {
	p.spans = append(p.spans, s)
	p.which = append(p.which, p.idx[s.SpanContext().SpanID()])
	p.dumps = append(p.dumps, vC04Dump(s))
}
func (p *c10AliasProc) Shutdown(context.Context) error   { return nil }
func (p *c10AliasProc) ForceFlush(context.Context) error { return nil }

func c10AliasIdx(tok string) []int {
	if tok == "-" {
		return nil
	}
	var out []int
	for _, t := range strings.Split(tok, ".") {
		n, _ := strconv.Atoi(t)
		out = append(out, n)
	}
	return out
}

func c10RunAlias(lim [6]int, ops [][]string) string {
	proc := &c10AliasProc{idx: map[trace.SpanID]int{}}
	tp := NewTracerProvider(WithRawSpanLimits(SpanLimits{
		AttributeCountLimit: lim[0], AttributeValueLengthLimit: lim[1], EventCountLimit: lim[2],
		LinkCountLimit: lim[3], AttributePerEventCountLimit: lim[4], AttributePerLinkCountLimit: lim[5],
	}), WithSampler(AlwaysSample()), WithSpanProcessor(proc))
	defer func() { _ = tp.Shutdown(context.Background()) }()
	tr := tp.Tracer("verif")
	var bufs [][]attribute.KeyValue
	var spans []trace.Span
	buf := func(i int) []attribute.KeyValue {
		if i < 0 || i >= len(bufs) {
			return nil
		}
		return bufs[i]
	}
	span := func(tok string) trace.Span {
		i, _ := strconv.Atoi(tok)
		if i < 0 || i >= len(spans) {
			return nil
		}
		return spans[i]
	}
	evOpts := func(tok string) []trace.EventOption {
		var o []trace.EventOption
		for _, b := range c10AliasIdx(tok) {
			o = append(o, trace.WithAttributes(buf(b)...))
		}
		return o
	}
	flags := make([]byte, 0, len(ops))
	for _, op := range ops {
		switch op[0] {
		case "mk":
			kvs := vC04ParseKVs(op[1])
			spare, _ := strconv.Atoi(op[2])
			b := make([]attribute.KeyValue, 0, len(kvs)+spare)
			bufs = append(bufs, append(b, kvs...))
		case "wr":
			b, _ := strconv.Atoi(op[1])
			i, _ := strconv.Atoi(op[2])
			if s := buf(b); s != nil && i < cap(s) {
				s[:cap(s)][i] = vC04ParseKV(op[3])
			}
		case "sp":
			var so []trace.SpanStartOption
			if op[3] != "-" {
				var links []trace.Link
				for _, l := range strings.Split(op[3], "+") {
					p := strings.Split(l, "@")
					lk := trace.Link{SpanContext: vC04ParseSC(p[0])}
					if p[1] != "-" {
						b, _ := strconv.Atoi(p[1])
						lk.Attributes = buf(b)
					}
					links = append(links, lk)
				}
				so = append(so, trace.WithLinks(links...))
			}
			for _, b := range c10AliasIdx(op[2]) {
				so = append(so, trace.WithAttributes(buf(b)...))
			}
			_, s := tr.Start(context.Background(), vUnhex(op[1]), so...)
			proc.idx[s.SpanContext().SpanID()] = len(spans)
			spans = append(spans, s)
		default:
			s := span(op[1])
			if s == nil {
				break
			}
			switch op[0] {
			case "sa":
				b, _ := strconv.Atoi(op[2])
				s.SetAttributes(buf(b)...)
			case "ev":
				s.AddEvent(vUnhex(op[2]), evOpts(op[3])...)
			case "re":
				var err error
				if op[2] != "-" {
					err = errors.New(vUnhex(op[2]))
				}
				s.RecordError(err, evOpts(op[3])...)
			case "ln":
				lk := trace.Link{SpanContext: vC04ParseSC(op[2])}
				if op[3] != "-" {
					b, _ := strconv.Atoi(op[3])
					lk.Attributes = buf(b)
				}
				s.AddLink(lk)
			case "st":
				c, _ := strconv.Atoi(op[2])
				s.SetStatus(codes.Code(c), vUnhex(op[3]))
			case "nm":
				s.SetName(vUnhex(op[2]))
			case "end":
				s.End()
			default:
				panic("bad alias op " + op[0])
			}
		}
		// re-read every snapshot exported so far
		same := byte('1')
		for i, sn := range proc.spans {
			if vC04Dump(sn) != proc.dumps[i] {
				same = '0'
			}
		}
		flags = append(flags, same)
	}
	fl := "-"
	if len(flags) > 0 {
		fl = string(flags)
	}
	fin := []string{}
	for i, sn := range proc.spans {
		fin = append(fin, fmt.Sprintf("%d %s %s", proc.which[i], vC04B(vC04Dump(sn) == proc.dumps[i]), proc.dumps[i]))
	}
	if len(fin) == 0 {
		fin = []string{"-"}
	}
	for _, s := range spans {
		s.End()
	}
	return fl + " ## " + strings.Join(fin, " ; ")
}

func c10GenAlias(r *vRand) ([6]int, [][]string) {
	var lim [6]int
	for j := range lim {
		lim[j] = vPick(r, []int{-1, -1, -1, 128, 128, 0, 1, 2, 3, 5})
	}
	kv := func() string { return vHex(vC04GenKey(r, 0)) + "=" + vC04GenVal(r) }
	var ops [][]string
	type bufInfo struct {
		cap      int
		linkUsed bool
	}
	var bufs []bufInfo
	mk := func() {
		kvs := vC04GenKVs(r, 3, 0)
		n := 0
		if kvs != "-" {
			n = strings.Count(kvs, ",") + 1
		}
		spare := vPick(r, []int{0, 0, 1, 2, 2, 4, 8})
		ops = append(ops, []string{"mk", kvs, strconv.Itoa(spare)})
		bufs = append(bufs, bufInfo{cap: n + spare})
	}
	nb := 1 + r.Intn(3)
	for i := 0; i < nb; i++ {
		mk()
	}
	pickBufs := func(max int) string {
		n := r.Intn(max + 1)
		if n == 0 {
			return "-"
		}
		xs := make([]string, n)
		for i := range xs {
			xs[i] = strconv.Itoa(r.Intn(len(bufs)))
		}
		return strings.Join(xs, ".")
	}
	linkBuf := func() string {
		if r.Intn(3) == 0 {
			return "-"
		}
		b := r.Intn(len(bufs))
		bufs[b].linkUsed = true
		return strconv.Itoa(b)
	}
	nspans := 0
	ended := map[int]bool{}
	sp := func() {
		links := "-"
		if r.Intn(4) == 0 {
			n := 1 + r.Intn(2)
			xs := make([]string, n)
			for i := range xs {
				xs[i] = vC04GenSC(r) + "@" + linkBuf()
			}
			links = strings.Join(xs, "+")
		}
		ops = append(ops, []string{"sp", vHex(vValidStr(r, 2)), pickBufs(2), links})
		nspans++
	}
	sp()
	n := 4 + r.Intn(20)
	for i := 0; i < n; i++ {
		s := strconv.Itoa(r.Intn(nspans))
		switch x := r.Intn(100); {
		case x < 4 && len(bufs) < 5:
			mk()
		case x < 22:
			// the caller reuses its slice: overwrite a cell (inside the length or in the spare capacity)
			var cand []int
			for b, bi := range bufs {
				if bi.cap > 0 {
					cand = append(cand, b)
				}
			}
			if len(cand) == 0 {
				mk()
				break
			}
			b := vPick(r, cand)
			if r.Intn(3) == 0 { // prefer a slice that was handed to AddLink / WithLinks (F44)
				for _, c := range cand {
					if bufs[c].linkUsed {
						b = c
					}
				}
			}
			ops = append(ops, []string{"wr", strconv.Itoa(b), strconv.Itoa(r.Intn(bufs[b].cap)), kv()})
		case x < 30 && nspans < 4:
			sp()
		case x < 38:
			ops = append(ops, []string{"sa", s, strconv.Itoa(r.Intn(len(bufs)))})
		case x < 56:
			ops = append(ops, []string{"ev", s, vHex(vValidStr(r, 2)), pickBufs(2)})
		case x < 74:
			msg := vHex(vStr(r, 3))
			if r.Intn(10) == 0 {
				msg = "-"
			}
			ops = append(ops, []string{"re", s, msg, pickBufs(2)})
		case x < 80:
			ops = append(ops, []string{"ln", s, vC04GenSC(r), linkBuf()})
		case x < 84:
			ops = append(ops, []string{"st", s, strconv.Itoa(r.Intn(3)), vHex(vStr(r, 2))})
		case x < 87:
			ops = append(ops, []string{"nm", s, vHex(vStr(r, 2))})
		default:
			ops = append(ops, []string{"end", s})
			si, _ := strconv.Atoi(s)
			ended[si] = true
		}
	}
	return lim, ops
}

func c10AliasLine(out *vOut, gen string, lim [6]int, ops [][]string) {
	var sb strings.Builder
	fmt.Fprintf(&sb, "alias %s %d %d %d %d %d %d", gen, lim[0], lim[1], lim[2], lim[3], lim[4], lim[5])
	for _, op := range ops {
		sb.WriteString(" | ")
		sb.WriteString(strings.Join(op, " "))
	}
	out.Line("%s => %s", sb.String(), c10RunAlias(lim, ops))
}

func TestVerifC10Alias(t *testing.T) {
	out := vOpen(t)
	defer out.Close()
	defer c10SafeHandler()()
	if rp := vReplayLines(); rp != nil {
		for _, f := range rp {
			if f[0] != "alias" || len(f) < 8 {
				continue
			}
			var lim [6]int
			for i := range lim {
				lim[i], _ = strconv.Atoi(f[2+i])
			}
			c10AliasLine(out, f[1], lim, vC04Split(f[8:]))
		}
		return
	}
	r := &vRand{s: vSeed() ^ 0xa11a5}
	n := vN(3000)
	for i := 0; i < n; i++ {
		lim, ops := c10GenAlias(r)
		c10AliasLine(out, "rnd", lim, ops)
	}
}

// ---------------------------------------------------------------- F45: RecordError appends to the caller's option slice (leg `optsrace`)

// Line: `optsrace <gen> <spare capacity of the option slice> <shared 0|1> <goroutines> => race|norace|race:other|err <mis|same>`
// G goroutines record errors on DIFFERENT spans (each span only takes its own mutex) passing `opts...` where opts has
// `spare` unused capacity and is (shared=1) one slice for all goroutines or (shared=0, control) one slice per goroutine.
// RecordError does `opts = append(opts, WithAttributes(exception.type, exception.message))`: with spare capacity that
// writes the caller's backing array. Child process, race-instrumented; `mis` = some exported span carries another
// span's exception.message.
type c10ORProc struct {
	mu  sync.Mutex
	mis bool
}

func (p *c10ORProc) OnStart(context.Context, ReadWriteSpan) {}
func (p *c10ORProc) OnEnd(s ReadOnlySpan) {
	for _, e := range s.Events() {
		for _, a := range e.Attributes {
			if string(a.Key) == "exception.message" && a.Value.AsString() != s.Name() {
				p.mu.Lock()
				p.mis = true
				p.mu.Unlock()
			}
		}
	}
}
func (p *c10ORProc) Shutdown(context.Context) error   { return nil }
func (p *c10ORProc) ForceFlush(context.Context) error { return nil }

func TestVerifC10OptsRaceChild(t *testing.T) {
	spec := os.Getenv("VERIF_C10_OPTSRACE")
	if spec == "" {
		t.Skip("child of TestVerifC10OptsRace only")
	}
	f := strings.Split(spec, ",")
	spare, _ := strconv.Atoi(f[0])
	shared := f[1] == "1"
	ng, _ := strconv.Atoi(f[2])
	pp := &c10ORProc{}
	tp := NewTracerProvider(WithSpanProcessor(pp))
	defer func() { _ = tp.Shutdown(context.Background()) }()
	tr := tp.Tracer("verif")
	mk := func() []trace.EventOption {
		o := make([]trace.EventOption, 0, 1+spare)
		return append(o, trace.WithAttributes(attribute.String("component", "db")))
	}
	common := mk()
	start := make(chan struct{})
	var wg sync.WaitGroup
	for g := 0; g < ng; g++ {
		wg.Add(1)
		go func(g int) {
			defer wg.Done()
			opts := common
			if !shared {
				opts = mk()
			}
			<-start
			for i := 0; i < 400; i++ {
				name := "g" + strconv.Itoa(g) + "-" + strconv.Itoa(i)
				_, s := tr.Start(context.Background(), name)
				s.RecordError(errors.New(name), opts...)
				s.End()
			}
		}(g)
	}
	close(start)
	wg.Wait()
	if pp.mis {
		fmt.Println("VERIF-MISATTRIBUTED")
	}
}

func c10OptsRace(spare, shared, ng int) string {
	cmd := exec.Command(os.Args[0], "-test.run", "^TestVerifC10OptsRaceChild$", "-test.count=1")
	env := []string{}
	for _, e := range os.Environ() {
		if strings.HasPrefix(e, "VERIF_") || strings.HasPrefix(e, "GORACE=") {
			continue
		}
		env = append(env, e)
	}
	cmd.Env = append(env, fmt.Sprintf("VERIF_C10_OPTSRACE=%d,%d,%d", spare, shared, ng), "GORACE=halt_on_error=0")
	type res struct {
		out []byte
		err error
	}
	ch := make(chan res, 1)
	go func() { o, err := cmd.CombinedOutput(); ch <- res{o, err} }()
	var r res
	select {
	case r = <-ch:
	case <-time.After(120 * time.Second):
		if cmd.Process != nil {
			_ = cmd.Process.Kill()
		}
		<-ch
		return "err same"
	}
	o := string(r.out)
	mis := "same"
	if strings.Contains(o, "VERIF-MISATTRIBUTED") {
		mis = "mis"
	}
	switch {
	case strings.Contains(o, "WARNING: DATA RACE"):
		if strings.Contains(o, "RecordError") {
			return "race " + mis
		}
		return "race:other " + mis
	case r.err == nil && strings.Contains(o, "PASS"):
		return "norace " + mis
	default:
		return "err " + mis
	}
}

func TestVerifC10OptsRace(t *testing.T) {
	out := vOpen(t)
	defer out.Close()
	line := func(gen string, spare, shared, ng int) {
		out.Line("optsrace %s %d %d %d => %s", gen, spare, shared, ng, c10OptsRace(spare, shared, ng))
	}
	if rp := vReplayLines(); rp != nil {
		for _, f := range rp {
			if f[0] != "optsrace" || len(f) < 5 {
				continue
			}
			a, _ := strconv.Atoi(f[2])
			b, _ := strconv.Atoi(f[3])
			c, _ := strconv.Atoi(f[4])
			line(f[1], a, b, c)
		}
		return
	}
	fixed := [][3]int{{3, 1, 2}, {0, 1, 2}, {3, 0, 2}, {1, 1, 4}, {8, 1, 3}, {2, 0, 4}}
	r := &vRand{s: vSeed() ^ 0xf45}
	n := vN(6)
	for i := 0; i < n; i++ {
		if i < len(fixed) {
			line("fixed", fixed[i][0], fixed[i][1], fixed[i][2])
			continue
		}
		line("rnd", r.Intn(5), r.Intn(2), 2+r.Intn(3))
	}
}
