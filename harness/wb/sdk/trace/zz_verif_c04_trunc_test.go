package trace

import (
	"strconv"
	"testing"
	"unicode/utf8"
)

// TestVerifC04Trunc: correspondence lines for truncate() and for the UTF-8 decoder model.
//
//	trunc <gen> <limit> <hex s> => <hex out>
//	dec <gen> <hex s> => <rune> <size>
func TestVerifC04Trunc(t *testing.T) {
	out := vOpen(t)
	defer out.Close()
	emitTrunc := func(gen string, limit int, s string) {
		out.Line("trunc %s %d %s => %s", gen, limit, vHex(s), vHex(truncate(limit, s)))
	}
	emitDec := func(gen string, s string) {
		r, n := utf8.DecodeRuneInString(s)
		out.Line("dec %s %s => %d %d", gen, vHex(s), r, n)
	}
	if rp := vReplayLines(); rp != nil {
		for _, f := range rp {
			switch f[0] {
			case "trunc":
				l, _ := strconv.Atoi(f[2])
				emitTrunc(f[1], l, vUnhex(f[3]))
			case "dec":
				emitDec(f[1], vUnhex(f[2]))
			}
		}
		return
	}
	r := &vRand{s: vSeed()}
	n := vN(20000)
	if os_exhaustive() {
		// all byte strings of length <= 4 over a 9-byte alphabet x limits -1..4
		alpha := []byte{'a', 0x80, 0xbf, 0xc5, 0xa1, 0xef, 0xbd, 0xf0, 0xff}
		var rec func(prefix []byte, depth int)
		rec = func(prefix []byte, depth int) {
			for l := -1; l <= 4; l++ {
				emitTrunc("exh", l, string(prefix))
			}
			emitDec("exh", string(prefix))
			if depth == 4 {
				return
			}
			for _, b := range alpha {
				rec(append(append([]byte{}, prefix...), b), depth+1)
			}
		}
		rec(nil, 0)
	}
	for i := 0; i < n; i++ {
		switch r.Intn(8) {
		case 0:
			emitDec("rnd", vStr(r, 3))
		case 1:
			// decoder: 1-4 arbitrary bytes with a plausible lead byte
			b := []byte{byte(0xc0 + r.Intn(0x40)), byte(0x70 + r.Intn(0x60)), byte(0x70 + r.Intn(0x60)), byte(0x70 + r.Intn(0x60))}
			emitDec("lead", string(b[:1+r.Intn(4)]))
		case 2:
			s := vValidStr(r, 8)
			emitTrunc("valid", r.Intn(utf8.RuneCountInString(s)+3)-1, s)
		default:
			s := vStr(r, 8)
			emitTrunc("mixed", r.Intn(len(s)+3)-1, s)
		}
	}
}
