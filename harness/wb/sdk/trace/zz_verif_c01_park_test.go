//go:build verif

package trace

// C01 harness, leg `park` (build tag verif): controlled schedules that additionally park goroutines at the
// verifPoint hooks of the batch span processor — an OnEnd after its stopped check (before the send), a ForceFlush
// after its stopped check (before its marker is sent), Shutdown after it stored `stopped` (before stopCh is closed) —
// so that the windows between those atomic steps, which the LTS has as separate labels (accept/send,
// ffCheck/ffEnqueue, sdStore/sdClose), are forced deterministically and compared with the model.
//   Line: `park <gen> <cap> <maxB> <blocking> | ops… => obs…`  (ops of leg sched plus p<id> r<id> fp<fid> fr<fid> sp sr)

import (
	"runtime"
	"strconv"
	"strings"
	"sync"
	"testing"
	"time"
)

func init() { VerifPointFn = c01HookFn; c01HookOn.Store(true) }

// c01GenParkOps: like c01GenOps, with parked calls. Race-freedom rules: at most one ForceFlush outstanding; no plain
// End while one is outstanding; every parked call is released before the script ends (order random).
func c01GenParkOps(r *vRand, n int) []string {
	ops := []string{}
	nextID, nextF := 1, 1
	parkedSpans := []int{}
	parkedFF := -1
	sdParked, sdDone := false, false
	ffOutstanding := func() bool { return parkedFF >= 0 }
	drain := func() {
		for j := 0; j < 8; j++ {
			if r.Intn(6) == 0 {
				ops = append(ops, "g-")
			} else {
				ops = append(ops, "g+")
			}
		}
	}
	for i := 0; i < n; i++ {
		switch k := r.Intn(24); {
		case k < 6 && !ffOutstanding():
			if r.Intn(5) == 0 {
				ops = append(ops, "u"+strconv.Itoa(nextID)) // unsampled span
			} else {
				ops = append(ops, "e"+strconv.Itoa(nextID))
			}
			nextID++
		case k < 10 && !ffOutstanding():
			ops = append(ops, "p"+strconv.Itoa(nextID))
			parkedSpans = append(parkedSpans, nextID)
			nextID++
		case k < 13 && len(parkedSpans) > 0:
			j := r.Intn(len(parkedSpans))
			ops = append(ops, "r"+strconv.Itoa(parkedSpans[j]))
			parkedSpans = append(parkedSpans[:j], parkedSpans[j+1:]...)
		case k < 16:
			ops = append(ops, "g+")
		case k < 17:
			ops = append(ops, "g-")
		case k < 19 && !ffOutstanding():
			ops = append(ops, "fp"+strconv.Itoa(nextF))
			parkedFF = nextF
			nextF++
		case k < 21 && ffOutstanding():
			ops = append(ops, "fr"+strconv.Itoa(parkedFF))
			parkedFF = -1
			drain()
		case k < 22 && !sdDone:
			ops = append(ops, "sp")
			sdParked, sdDone = true, true
		case k < 22 && sdDone:
			ops = append(ops, "s") // a further Shutdown caller: waits in stopOnce.Do while the first is parked / draining
		case k < 23 && sdParked:
			ops = append(ops, "sr")
			sdParked = false
		default:
			if !ffOutstanding() {
				ops = append(ops, "f"+strconv.Itoa(nextF))
				nextF++
				drain()
			}
		}
	}
	// release everything that is still parked, in random order, with gates in between
	for len(parkedSpans) > 0 || parkedFF >= 0 || sdParked {
		switch r.Intn(3) {
		case 0:
			if len(parkedSpans) > 0 {
				ops = append(ops, "r"+strconv.Itoa(parkedSpans[0]))
				parkedSpans = parkedSpans[1:]
			}
		case 1:
			if parkedFF >= 0 {
				ops = append(ops, "fr"+strconv.Itoa(parkedFF))
				parkedFF = -1
				drain()
			}
		default:
			if sdParked {
				ops = append(ops, "sr")
				sdParked = false
			}
		}
		ops = append(ops, "g+")
	}
	ops = append(ops, "g+", "g+", "g+", "g+")
	if r.Intn(2) == 0 {
		// a Shutdown call after everything was released: if an earlier Shutdown had completed before a parked OnEnd was
		// released, that span is a late span and this call returns nil without it (known finding F41)
		ops = append(ops, "s", "g+")
	}
	return ops
}

func TestVerifC01Park(t *testing.T) {
	out := vOpen(t)
	defer out.Close()
	defer c01SafeHandler()()
	type job struct {
		gen        string
		capQ, maxB int
		blocking   bool
		ops        []string
	}
	jobs := []job{}
	if rp := vReplayLines(); rp != nil {
		for _, f := range rp {
			if f[0] != "park" {
				continue
			}
			c, _ := strconv.Atoi(f[2])
			m, _ := strconv.Atoi(f[3])
			jobs = append(jobs, job{f[1], c, m, f[4] == "1", f[6:]})
		}
	} else {
		r := &vRand{s: vSeed()}
		n := vN(120)
		for i := 0; i < n; i++ {
			jobs = append(jobs, job{"rnd", 1 + r.Intn(3), 1 + r.Intn(3), r.Intn(3) == 0, c01GenParkOps(r, 4+r.Intn(14))})
		}
	}
	res := make([][]string, len(jobs))
	sem := make(chan struct{}, 2*runtime.GOMAXPROCS(0))
	var wg sync.WaitGroup
	for i := range jobs {
		wg.Add(1)
		sem <- struct{}{}
		go func(i int) {
			defer wg.Done()
			defer func() { <-sem }()
			j := jobs[i]
			a := c01RunSched(j.capQ, j.maxB, j.blocking, j.ops, 3*time.Millisecond)
			b := c01RunSched(j.capQ, j.maxB, j.blocking, j.ops, 3*time.Millisecond)
			if strings.Join(a, " ") != strings.Join(b, " ") {
				a = c01RunSched(j.capQ, j.maxB, j.blocking, j.ops, 40*time.Millisecond)
			}
			res[i] = a
		}(i)
	}
	wg.Wait()
	for i, j := range jobs {
		bl := 0
		if j.blocking {
			bl = 1
		}
		out.Line("park %s %d %d %d | %s => %s", j.gen, j.capQ, j.maxB, bl, strings.Join(j.ops, " "), strings.Join(res[i], " "))
	}
}
