package trace

import (
	"context"
	"fmt"
	"os"
	"strconv"
	"strings"
	"testing"
	"time"
)

// TestVerifC20Sdk: correspondence lines for the SDK-side configuration resolution of sdk/trace (property C20).
//
//	bsp  <gen> <oq> <ob> <od> <ot> <eq> <eb> <ed> <et> => <q> <b> <d ns> <t ns> <cap queue> <cap batch> | panic
//	     (panic = the constructor panicked, observed under recover: makechan/makeslice "size out of range", F31)
//	slim <gen> <none|lim|raw> <o: a,b,c,d,e,f> <gvl> <gcnt> <svl> <scnt> <ev> <evattr> <ln> <lnattr> => a,b,c,d,e,f | panic
//
// options: `-` = not passed, else a decimal int (durations in ms); environment: `-` = unset, else x<hex>.
var c20BspKeys = []string{"OTEL_BSP_MAX_QUEUE_SIZE", "OTEL_BSP_MAX_EXPORT_BATCH_SIZE", "OTEL_BSP_SCHEDULE_DELAY", "OTEL_BSP_EXPORT_TIMEOUT"}
var c20SlimKeys = []string{
	"OTEL_ATTRIBUTE_VALUE_LENGTH_LIMIT", "OTEL_ATTRIBUTE_COUNT_LIMIT",
	"OTEL_SPAN_ATTRIBUTE_VALUE_LENGTH_LIMIT", "OTEL_SPAN_ATTRIBUTE_COUNT_LIMIT",
	"OTEL_SPAN_EVENT_COUNT_LIMIT", "OTEL_EVENT_ATTRIBUTE_COUNT_LIMIT",
	"OTEL_SPAN_LINK_COUNT_LIMIT", "OTEL_LINK_ATTRIBUTE_COUNT_LIMIT",
}

func c20SetEnv(key, tok string) {
	if tok == "-" {
		os.Unsetenv(key)
		return
	}
	if err := os.Setenv(key, vUnhex(tok)); err != nil {
		panic(err)
	}
}

func c20ClearOtelEnv() {
	for _, kv := range os.Environ() {
		if strings.HasPrefix(kv, "OTEL_") {
			os.Unsetenv(kv[:strings.IndexByte(kv, '=')])
		}
	}
}

func c20OptInt(tok string) (int, bool) {
	if tok == "-" {
		return 0, false
	}
	n, err := strconv.Atoi(tok)
	if err != nil {
		panic("bad option token " + tok)
	}
	return n, true
}

func c20Bsp(out *vOut, gen string, a []string) {
	for i, k := range c20BspKeys {
		c20SetEnv(k, a[4+i])
	}
	var opts []BatchSpanProcessorOption
	if n, ok := c20OptInt(a[0]); ok {
		opts = append(opts, WithMaxQueueSize(n))
	}
	if n, ok := c20OptInt(a[1]); ok {
		opts = append(opts, WithMaxExportBatchSize(n))
	}
	if n, ok := c20OptInt(a[2]); ok {
		opts = append(opts, WithBatchTimeout(time.Duration(n)*time.Millisecond))
	}
	if n, ok := c20OptInt(a[3]); ok {
		opts = append(opts, WithExportTimeout(time.Duration(n)*time.Millisecond))
	}
	obs := func() (res string) {
		defer func() {
			if r := recover(); r != nil {
				res = "panic"
			}
		}()
		sp := NewBatchSpanProcessor(nil, opts...)
		bsp := sp.(*batchSpanProcessor)
		res = fmt.Sprintf("%d %d %d %d %d %d", bsp.o.MaxQueueSize, bsp.o.MaxExportBatchSize,
			int64(bsp.o.BatchTimeout), int64(bsp.o.ExportTimeout), cap(bsp.queue), cap(bsp.batch))
		_ = sp.Shutdown(context.Background())
		return res
	}()
	out.Line("bsp %s %s => %s", gen, strings.Join(a, " "), obs)
}

func c20Slim(out *vOut, gen string, a []string) {
	for i, k := range c20SlimKeys {
		c20SetEnv(k, a[2+i])
	}
	var o [6]int
	for i, f := range strings.Split(a[1], ",") {
		o[i], _ = strconv.Atoi(f)
	}
	sl := SpanLimits{AttributeValueLengthLimit: o[0], AttributeCountLimit: o[1], EventCountLimit: o[2],
		LinkCountLimit: o[3], AttributePerEventCountLimit: o[4], AttributePerLinkCountLimit: o[5]}
	obs := func() (res string) {
		defer func() {
			if r := recover(); r != nil {
				res = "panic"
			}
		}()
		var opts []TracerProviderOption
		switch a[0] {
		case "lim":
			opts = append(opts, WithSpanLimits(sl))
		case "raw":
			opts = append(opts, WithRawSpanLimits(sl))
		}
		tp := NewTracerProvider(opts...)
		l := tp.spanLimits
		res = fmt.Sprintf("%d,%d,%d,%d,%d,%d", l.AttributeValueLengthLimit, l.AttributeCountLimit, l.EventCountLimit,
			l.LinkCountLimit, l.AttributePerEventCountLimit, l.AttributePerLinkCountLimit)
		_ = tp.Shutdown(context.Background())
		return res
	}()
	out.Line("slim %s %s => %s", gen, strings.Join(a, " "), obs)
}

// integer environment values: absent, valid, and invalid (negative, overflow, garbage, spaces, float)
var c20IntEnv = []string{"-", "5", "600", "4096", "0", "-3", "abc", "99999999999999999999", "", " 5", "1.5", "+7", "007", "-1", "513", "2048", "5 ", "0x10", "1_000", "9223372036854775808", "-0"}

// duration variables additionally get parsable values around the int64-nanosecond overflow of
// time.Duration(n) * time.Millisecond: MaxInt64 (wraps to -1ms), 9223372036854 (largest exact), 9223372036855 (first
// overflow, negative), 10000000000000 (negative), 18446744073709 (wraps to a small negative), 18446744073710 (wraps back
// to a small positive), -9223372036855 (wraps to positive).
var c20DurEnv = append(append([]string{}, c20IntEnv...), "9223372036854775807", "9223372036855", "10000000000000",
	"9223372036854", "18446744073709", "18446744073710", "-9223372036855")

func c20EnvTok(s string) string {
	if s == "-" {
		return "-"
	}
	return vHex(s)
}

func TestVerifC20Sdk(t *testing.T) {
	out := vOpen(t)
	defer out.Close()
	c20ClearOtelEnv()
	defer c20ClearOtelEnv()
	if rp := vReplayLines(); rp != nil {
		for _, f := range rp {
			switch {
			case f[0] == "bsp" && len(f) == 10:
				c20Bsp(out, f[1], f[2:])
			case f[0] == "slim" && len(f) == 12:
				c20Slim(out, f[1], f[2:])
			}
		}
		return
	}
	r := &vRand{s: vSeed()}
	n := vN(3000)
	// --- exhaustive small scope (both tiers): sizes interact, so (oq, ob, eq, eb) is a full cross product
	optSz := []string{"-", "0", "5", "600", "4096", "-1"}
	envSz := []string{"-", "5", "600", "4096", "0", "-3", "abc", "99999999999999999999"}
	for _, oq := range optSz {
		for _, ob := range optSz {
			for _, eq := range envSz {
				for _, eb := range envSz {
					c20Bsp(out, "exh-size", []string{oq, ob, "-", "-", c20EnvTok(eq), c20EnvTok(eb), "-", "-"})
				}
			}
		}
	}
	// F31: parsable but huge sizes (>= 2^62) from an option or from OTEL_BSP_* reach make() and panic (observed under
	// recover). Sizes between 2^20 and 2^62 are never generated: make() would really allocate.
	hugeOpt := []string{"-", "5", "9223372036854775807", "4611686018427387904"}
	for _, oq := range hugeOpt {
		for _, ob := range hugeOpt {
			for _, eq := range hugeOpt {
				for _, eb := range hugeOpt {
					c20Bsp(out, "exh-huge", []string{oq, ob, "-", "-", c20EnvTok(eq), c20EnvTok(eb), "-", "-"})
				}
			}
		}
	}
	optMs := []string{"-", "0", "7", "60000", "-2", "9223372036855"}
	for _, od := range optMs {
		for _, ed := range c20DurEnv {
			c20Bsp(out, "exh-delay", []string{"-", "-", od, "-", "-", "-", c20EnvTok(ed), "-"})
			c20Bsp(out, "exh-timeout", []string{"-", "-", "-", od, "-", "-", "-", c20EnvTok(ed)})
		}
	}
	// span limits: per field, option mode x option value x specific x generic
	specIdx := []int{2, 3, 4, 6, 5, 7} // env token index of the specific key per field (field order of SpanLimits)
	genIdx := []int{0, 1, -1, -1, -1, -1}
	envLim := []string{"-", "5", "200", "0", "-3", "abc", "99999999999999999999", ""}
	for f := 0; f < 6; f++ {
		for _, mode := range []string{"none", "lim", "raw"} {
			ovals := []string{"9"}
			if mode != "none" {
				ovals = []string{"5", "0", "-1", "200"}
			}
			for _, ov := range ovals {
				for _, sv := range envLim {
					gvals := []string{"-"}
					if genIdx[f] >= 0 {
						gvals = envLim
					}
					for _, gv := range gvals {
						o := []string{"11", "12", "13", "14", "15", "16"}
						o[f] = ov
						a := []string{mode, strings.Join(o, ","), "-", "-", "-", "-", "-", "-", "-", "-"}
						a[2+specIdx[f]] = c20EnvTok(sv)
						if genIdx[f] >= 0 {
							a[2+genIdx[f]] = c20EnvTok(gv)
						}
						c20Slim(out, "exh", a)
					}
				}
			}
		}
	}
	// --- random combinations across settings
	optAny := []string{"-", "-", "0", "1", "5", "511", "512", "513", "600", "2047", "2048", "2049", "4096", "-1", "-7"}
	for i := 0; i < n; i++ {
		if r.Intn(3) > 0 {
			a := make([]string, 8)
			for j := 0; j < 4; j++ {
				a[j] = vPick(r, optAny)
			}
			for j := 4; j < 8; j++ {
				if r.Intn(3) == 0 {
					a[j] = "-"
				} else if j >= 6 { // OTEL_BSP_SCHEDULE_DELAY, OTEL_BSP_EXPORT_TIMEOUT
					a[j] = c20EnvTok(vPick(r, c20DurEnv))
				} else {
					a[j] = c20EnvTok(vPick(r, c20IntEnv))
				}
			}
			if r.Intn(400) == 0 { // a few huge sizes per run among the random combinations
				a[r.Intn(2)] = vPick(r, []string{"9223372036854775807", "4611686018427387904"})
			}
			if r.Intn(400) == 0 {
				a[4+r.Intn(2)] = c20EnvTok(vPick(r, []string{"9223372036854775807", "4611686018427387904", "6917529027641081856"}))
			}
			c20Bsp(out, "rnd", a)
		} else {
			a := make([]string, 10)
			a[0] = vPick(r, []string{"none", "lim", "raw"})
			o := make([]string, 6)
			for j := range o {
				o[j] = vPick(r, []string{"0", "-1", "1", "5", "128", "200", "-9"})
			}
			a[1] = strings.Join(o, ",")
			for j := 2; j < 10; j++ {
				if r.Intn(2) == 0 {
					a[j] = "-"
				} else {
					a[j] = c20EnvTok(vPick(r, c20IntEnv))
				}
			}
			c20Slim(out, "rnd", a)
		}
	}
}
