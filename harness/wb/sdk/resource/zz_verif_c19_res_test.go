package resource

import (
	"context"
	"encoding/hex"
	"errors"
	"fmt"
	"math"
	"os"
	"strconv"
	"strings"
	"sync"
	"testing"

	"go.opentelemetry.io/otel"
	"go.opentelemetry.io/otel/attribute"
)

// C19 correspondence harness (white-box in package resource, injected with go test -overlay).
// Line formats: see /verif/lean/Otel/C19/Main.lean (key-value tokens as in the C05 harness).

func c19Hex(s string) string { return hex.EncodeToString([]byte(s)) }

func c19Val(v attribute.Value) string {
	switch v.Type() {
	case attribute.BOOL:
		if v.AsBool() {
			return "b1"
		}
		return "b0"
	case attribute.INT64:
		return fmt.Sprintf("i%016x", uint64(v.AsInt64()))
	case attribute.FLOAT64:
		return fmt.Sprintf("f%016x", math.Float64bits(v.AsFloat64()))
	case attribute.STRING:
		return "s" + c19Hex(v.AsString())
	case attribute.BOOLSLICE:
		s := "B"
		for _, b := range v.AsBoolSlice() {
			if b {
				s += ".1"
			} else {
				s += ".0"
			}
		}
		return s
	case attribute.INT64SLICE:
		s := "I"
		for _, x := range v.AsInt64Slice() {
			s += fmt.Sprintf(".%016x", uint64(x))
		}
		return s
	case attribute.FLOAT64SLICE:
		s := "F"
		for _, x := range v.AsFloat64Slice() {
			s += fmt.Sprintf(".%016x", math.Float64bits(x))
		}
		return s
	case attribute.STRINGSLICE:
		s := "S"
		for _, x := range v.AsStringSlice() {
			s += "." + c19Hex(x)
		}
		return s
	}
	return "n"
}

func c19KVs(kvs []attribute.KeyValue) string {
	if len(kvs) == 0 {
		return "-"
	}
	parts := make([]string, len(kvs))
	for i, kv := range kvs {
		parts[i] = c19Hex(string(kv.Key)) + "=" + c19Val(kv.Value)
	}
	return strings.Join(parts, ",")
}

func c19Unhex(s string) string {
	b, err := hex.DecodeString(s)
	if err != nil {
		panic("bad hex in replay: " + s)
	}
	return string(b)
}

func c19U64(s string) uint64 {
	u, err := strconv.ParseUint(s, 16, 64)
	if err != nil {
		panic("bad u64 in replay: " + s)
	}
	return u
}

func c19Dotted(s string) []string { return strings.Split(s, ".")[1:] }

func c19ParseVal(s string) attribute.Value {
	switch s[0] {
	case 'n':
		return attribute.Value{}
	case 'b':
		return attribute.BoolValue(s == "b1")
	case 'i':
		return attribute.Int64Value(int64(c19U64(s[1:])))
	case 'f':
		return attribute.Float64Value(math.Float64frombits(c19U64(s[1:])))
	case 's':
		return attribute.StringValue(c19Unhex(s[1:]))
	case 'B':
		xs := []bool{}
		for _, e := range c19Dotted(s) {
			xs = append(xs, e == "1")
		}
		return attribute.BoolSliceValue(xs)
	case 'I':
		xs := []int64{}
		for _, e := range c19Dotted(s) {
			xs = append(xs, int64(c19U64(e)))
		}
		return attribute.Int64SliceValue(xs)
	case 'F':
		xs := []float64{}
		for _, e := range c19Dotted(s) {
			xs = append(xs, math.Float64frombits(c19U64(e)))
		}
		return attribute.Float64SliceValue(xs)
	case 'S':
		xs := []string{}
		for _, e := range c19Dotted(s) {
			xs = append(xs, c19Unhex(e))
		}
		return attribute.StringSliceValue(xs)
	}
	panic("bad value token " + s)
}

func c19ParseKVs(s string) []attribute.KeyValue {
	if s == "-" {
		return nil
	}
	var out []attribute.KeyValue
	for _, p := range strings.Split(s, ",") {
		i := strings.IndexByte(p, '=')
		out = append(out, attribute.KeyValue{Key: attribute.Key(c19Unhex(p[:i])), Value: c19ParseVal(p[i+1:])})
	}
	return c19Tab.slice(out)
}

// Shared argument table: every attribute slice handed to the API (NewWithAttributes, NewSchemaless,
// WithAttributes) is a sub-slice WITH SPARE CAPACITY of this one table; after the calls of a line
// the table is overwritten and re-used (scribble), then later calls are made, and only then are the
// results of the line and its operand resources read (settle). An implementation that keeps the
// caller's slice, or hands out internal storage, shows up as a changed late reading.
type c19Arena struct {
	tab  []attribute.KeyValue
	used int
}

var c19Tab = &c19Arena{tab: make([]attribute.KeyValue, 1024)}

var c19Junk = attribute.String("zz.scribbled", "junk")

func (a *c19Arena) slice(kvs []attribute.KeyValue) []attribute.KeyValue {
	n := len(kvs)
	if a.used+n+3 > len(a.tab) {
		// never reached within one line (lines are small); keep going on a fresh table
		a.tab, a.used = make([]attribute.KeyValue, 1024+n), 0
	}
	s := a.tab[a.used : a.used+n : a.used+n+3]
	copy(s, kvs)
	a.used += n + 3
	return s
}

func (a *c19Arena) scribble() {
	for i := 0; i < a.used && i < len(a.tab); i++ {
		a.tab[i] = c19Junk
	}
	a.used = 0
}

type c19Watch struct {
	r     *Resource
	early string
}

// settle: scribble over the argument table, mutate slices the API handed out, make later calls,
// then re-read every watched resource. Returns "" or a description of what changed.
func c19Settle(ws []*Resource) string {
	early := make([]string, len(ws))
	for i, r := range ws {
		early[i] = c19Res(r)
	}
	c19Tab.scribble()
	for _, r := range ws {
		at := r.Attributes()
		for i := range at {
			at[i] = c19Junk
		}
		if r != nil {
			it := r.Iter()
			sl := it.ToSlice()
			for i := range sl {
				sl[i] = c19Junk
			}
		}
	}
	// later calls, on the same (re-used) table and on the watched resources
	later := NewWithAttributes("http://later", c19Tab.slice([]attribute.KeyValue{c19Junk, attribute.Int("zz.later", 1)})...)
	for _, r := range ws {
		if m, _ := Merge(r, later); m != nil {
			at := m.Attributes()
			for i := range at {
				at[i] = c19Junk
			}
		}
		_, _ = Merge(later, r)
	}
	c19Tab.scribble()
	for i, r := range ws {
		if l := c19Res(r); l != early[i] {
			return fmt.Sprintf("UNSTABLE:operand%d:%s->%s", i, early[i], l)
		}
	}
	return ""
}

// resource token (input): nil | <kvs>@x<schema> -> NewWithAttributes(schema, kvs...)
func c19MkRes(tok string) *Resource {
	if tok == "nil" {
		return nil
	}
	i := strings.LastIndexByte(tok, '@')
	kvs := c19ParseKVs(tok[:i])
	return NewWithAttributes(c19Unhex(tok[i+2:]), kvs...)
}

func c19Res(r *Resource) string {
	return c19KVs(r.Attributes()) + "@x" + c19Hex(r.SchemaURL())
}

func c19Err(err error) string {
	if err == nil {
		return "ok"
	}
	s := "err:"
	if errors.Is(err, ErrPartialResource) {
		s += "p"
	}
	if errors.Is(err, ErrSchemaURLConflict) {
		s += "c"
	}
	return s
}

type c19Detector struct {
	res *Resource
	err error
}

func (d c19Detector) Detect(context.Context) (*Resource, error) { return d.res, d.err }

var c19Fatal = errors.New("scripted fatal error")

func c19MkDet(tok string) Detector {
	if tok == "nild" {
		return nil
	}
	if strings.HasPrefix(tok, "sd:") {
		return c19MkStringDet(tok)
	}
	i := strings.IndexByte(tok, ':')
	d := c19Detector{res: c19MkRes(tok[i+1:])}
	switch tok[:i] {
	case "ok":
	case "p":
		d.err = fmt.Errorf("%w: scripted", ErrPartialResource)
	case "f":
		d.err = c19Fatal
	case "c":
		d.err = fmt.Errorf("%w: scripted", ErrSchemaURLConflict)
	case "pc":
		d.err = errors.Join(fmt.Errorf("%w: scripted", ErrPartialResource), fmt.Errorf("%w: scripted", ErrSchemaURLConflict))
	default:
		panic("bad detector token " + tok)
	}
	return d
}

type c19Emitter struct {
	out     *vOut
	handled *int
}

func (e c19Emitter) schemaless(gen, kvs string) {
	var r *Resource
	if gen == "with" {
		r = NewWithAttributes("http://s/1", c19ParseKVs(kvs)...)
	} else {
		r = NewSchemaless(c19ParseKVs(kvs)...)
	}
	if u := c19Settle([]*Resource{r}); u != "" {
		e.out.Line("schemaless %s %s => %s", gen, kvs, u)
		return
	}
	at := r.Attributes()
	if r.Len() != len(at) {
		at = append(at, attribute.String("BADLEN", ""))
	}
	e.out.Line("schemaless %s %s => %s", gen, kvs, c19KVs(at))
}

func (e c19Emitter) merge(gen, a, b string) {
	ra, rb := c19MkRes(a), c19MkRes(b)
	r, err := Merge(ra, rb)
	if u := c19Settle([]*Resource{ra, rb, r}); u != "" {
		e.out.Line("merge %s %s %s => %s", gen, a, b, u)
		return
	}
	e.out.Line("merge %s %s %s => %s %s", gen, a, b, c19Res(r), c19Err(err))
}

func (e c19Emitter) merge3(gen, a, b, c string) {
	ra, rb, rc := c19MkRes(a), c19MkRes(b), c19MkRes(c)
	ab, e1 := Merge(ra, rb)
	l, e2 := Merge(ab, rc)
	bc, e3 := Merge(rb, rc)
	r, e4 := Merge(ra, bc)
	if u := c19Settle([]*Resource{ra, rb, rc, ab, bc, l, r}); u != "" {
		e.out.Line("merge3 %s %s %s %s => %s", gen, a, b, c, u)
		return
	}
	e.out.Line("merge3 %s %s %s %s => %s %s %s %s %s %s", gen, a, b, c, c19Res(l), c19Err(e1), c19Err(e2), c19Res(r), c19Err(e3), c19Err(e4))
}

func (e c19Emitter) env(gen, attrs, svc string) {
	// an environment value cannot hold a NUL byte
	attrs = strings.ReplaceAll(attrs, "\x00", "0")
	svc = strings.ReplaceAll(svc, "\x00", "0")
	if os.Setenv(resourceAttrKey, attrs) != nil || os.Setenv(svcNameKey, svc) != nil {
		panic("setenv failed")
	}
	*e.handled = 0
	r, err := fromEnv{}.Detect(context.Background())
	h := *e.handled
	if u := c19Settle([]*Resource{r}); u != "" {
		e.out.Line("env %s x%s x%s => %s", gen, c19Hex(attrs), c19Hex(svc), u)
		return
	}
	e.out.Line("env %s x%s x%s => %s %s %d", gen, c19Hex(attrs), c19Hex(svc), c19Res(r), c19Err(err), h)
}

// envrt: a list of (key, value) pairs rendered as k1=%XX…,k2=… (every value byte percent-encoded) and parsed back
func (e c19Emitter) envrt(gen string, keys, vals []string) {
	parts := make([]string, len(keys))
	shown := make([]string, len(keys))
	for i := range keys {
		var b strings.Builder
		for j := 0; j < len(vals[i]); j++ {
			fmt.Fprintf(&b, "%%%02X", vals[i][j])
		}
		parts[i] = keys[i] + "=" + b.String()
		shown[i] = c19Hex(keys[i]) + "=" + c19Hex(vals[i])
	}
	s := strings.Join(parts, ",")
	if os.Setenv(resourceAttrKey, s) != nil || os.Setenv(svcNameKey, "") != nil {
		panic("setenv failed")
	}
	*e.handled = 0
	r, err := fromEnv{}.Detect(context.Background())
	h := *e.handled
	ps := "-"
	if len(shown) > 0 {
		ps = strings.Join(shown, ";")
	}
	if u := c19Settle([]*Resource{r}); u != "" {
		e.out.Line("envrt %s %s x%s => %s", gen, ps, c19Hex(s), u)
		return
	}
	e.out.Line("envrt %s %s x%s => %s %s %d", gen, ps, c19Hex(s), c19Res(r), c19Err(err), h)
}

var c19RtKeys = []string{"k", "", "š", "a b", "\xff", "a.b", "service.name", " k", "k ", "k\u00a0", "\u2003a", "a,b", "a=b", "\tk",
	"k\xc2", "\xa0k", "\xc2", "a\u00a0b", "%41", "k%", "\u0085", "x\u3000"}

func c19GenRt(r *vRand) (string, []string, []string) {
	n := r.Intn(5)
	keys, vals := make([]string, n), make([]string, n)
	gen := "ok"
	for i := range keys {
		if r.Intn(4) == 0 {
			keys[i] = vPick(r, c19RtKeys)
		} else {
			keys[i] = vPick(r, c19RtKeys[:7])
		}
		vals[i] = vPick(r, []string{"", "v", " ", "a b", "%", ",=", "\xff\x00", "\u00a0", "%41"})
		if r.Intn(3) == 0 {
			vals[i] = vStr(r, 6)
		}
	}
	return gen, keys, vals
}

// default: resource.Default() twice (the sync.Once is re-armed first), the environment changed in between
func (e c19Emitter) deflt(gen, a1, s1, a2, s2 string) {
	clean := func(x string) string { return strings.ReplaceAll(x, "\x00", "0") }
	a1, s1, a2, s2 = clean(a1), clean(s1), clean(a2), clean(s2)
	set := func(a, s string) {
		if os.Setenv(resourceAttrKey, a) != nil || os.Setenv(svcNameKey, s) != nil {
			panic("setenv failed")
		}
	}
	set(a1, s1)
	defaultResourceOnce = sync.Once{}
	defaultResource = nil
	sv, sve := defaultServiceNameDetector{}.Detect(context.Background())
	ts, tse := telemetrySDK{}.Detect(context.Background())
	*e.handled = 0
	r1 := Default()
	h1 := *e.handled
	early := c19Res(r1)
	set(a2, s2)
	*e.handled = 0
	r2 := Default()
	h2 := *e.handled
	same := 0
	if r1 == r2 {
		same = 1
	}
	u := c19Settle([]*Resource{r1, r2, sv, ts})
	if l := c19Res(r1); u == "" && l != early {
		u = "UNSTABLE:default:" + early + "->" + l
	}
	if u != "" {
		e.out.Line("default %s x%s x%s x%s x%s => %s", gen, c19Hex(a1), c19Hex(s1), c19Hex(a2), c19Hex(s2), u)
		return
	}
	e.out.Line("default %s x%s x%s x%s x%s %s %s => %s %d %s %d %d", gen, c19Hex(a1), c19Hex(s1), c19Hex(a2), c19Hex(s2),
		c19DetTok(sv, sve), c19DetTok(ts, tse), early, h1, c19Res(r2), h2, same)
}

// what a detector returned, as a detector token: <ok|p|f|c|pc>:<resource|nil>
func c19DetTok(r *Resource, err error) string {
	cls := "ok"
	if err != nil {
		p, c := errors.Is(err, ErrPartialResource), errors.Is(err, ErrSchemaURLConflict)
		switch {
		case p && c:
			cls = "pc"
		case p:
			cls = "p"
		case c:
			cls = "c"
		default:
			cls = "f"
		}
	}
	if r == nil {
		return cls + ":nil"
	}
	return cls + ":" + c19Res(r)
}

// the built-in options of config.go and, per option, the detectors it stands for according to its
// documentation (name as in the Lean model's BDet, detector value), in order
type c19BI struct {
	name string
	det  Detector
}

var c19Builtin = map[string]struct {
	opt  func() Option
	dets []c19BI
}{
	"Host":                      {WithHost, []c19BI{{"host", host{}}}},
	"HostID":                    {WithHostID, []c19BI{{"hostID", hostIDDetector{}}}},
	"TelemetrySDK":              {WithTelemetrySDK, []c19BI{{"telemetrySDK", telemetrySDK{}}}},
	"OS":                        {WithOS, []c19BI{{"osType", osTypeDetector{}}, {"osDescription", osDescriptionDetector{}}}},
	"OSType":                    {WithOSType, []c19BI{{"osType", osTypeDetector{}}}},
	"OSDescription":             {WithOSDescription, []c19BI{{"osDescription", osDescriptionDetector{}}}},
	"Process": {WithProcess, []c19BI{{"processPID", processPIDDetector{}}, {"processExecutableName", processExecutableNameDetector{}},
		{"processExecutablePath", processExecutablePathDetector{}}, {"processCommandArgs", processCommandArgsDetector{}},
		{"processOwner", processOwnerDetector{}}, {"processRuntimeName", processRuntimeNameDetector{}},
		{"processRuntimeVersion", processRuntimeVersionDetector{}}, {"processRuntimeDescription", processRuntimeDescriptionDetector{}}}},
	"ProcessPID":                {WithProcessPID, []c19BI{{"processPID", processPIDDetector{}}}},
	"ProcessExecutableName":     {WithProcessExecutableName, []c19BI{{"processExecutableName", processExecutableNameDetector{}}}},
	"ProcessExecutablePath":     {WithProcessExecutablePath, []c19BI{{"processExecutablePath", processExecutablePathDetector{}}}},
	"ProcessCommandArgs":        {WithProcessCommandArgs, []c19BI{{"processCommandArgs", processCommandArgsDetector{}}}},
	"ProcessOwner":              {WithProcessOwner, []c19BI{{"processOwner", processOwnerDetector{}}}},
	"ProcessRuntimeName":        {WithProcessRuntimeName, []c19BI{{"processRuntimeName", processRuntimeNameDetector{}}}},
	"ProcessRuntimeVersion":     {WithProcessRuntimeVersion, []c19BI{{"processRuntimeVersion", processRuntimeVersionDetector{}}}},
	"ProcessRuntimeDescription": {WithProcessRuntimeDescription, []c19BI{{"processRuntimeDescription", processRuntimeDescriptionDetector{}}}},
	"Container":                 {WithContainer, []c19BI{{"containerID", cgroupContainerIDDetector{}}}},
	"ContainerID":               {WithContainerID, []c19BI{{"containerID", cgroupContainerIDDetector{}}}},
}

var c19BuiltinNames = []string{"Host", "HostID", "TelemetrySDK", "OS", "OSType", "OSDescription", "Process", "ProcessPID",
	"ProcessExecutableName", "ProcessExecutablePath", "ProcessCommandArgs", "ProcessOwner", "ProcessRuntimeName",
	"ProcessRuntimeVersion", "ProcessRuntimeDescription", "Container", "ContainerID"}

// StringDetector token: sd:x<schema>:x<key>:<x<value>|err>
func c19MkStringDet(tok string) Detector {
	f := strings.Split(tok, ":")
	val := f[3]
	return StringDetector(c19Unhex(f[1][1:]), attribute.Key(c19Unhex(f[2][1:])), func() (string, error) {
		if val == "err" {
			return "", c19Fatal
		}
		return c19Unhex(val[1:]), nil
	})
}

func (e c19Emitter) detect(gen, init string, dets []string) {
	ds := make([]Detector, len(dets))
	var ws []*Resource
	for i, d := range dets {
		ds[i] = c19MkDet(d)
		if cd, ok := ds[i].(c19Detector); ok {
			ws = append(ws, cd.res)
		}
	}
	var r *Resource
	var err error
	if init == "" && gen != "new" {
		r, err = Detect(context.Background(), ds...)
	} else {
		r, err = New(context.Background(), WithSchemaURL(init), WithDetectors(ds...))
	}
	if u := c19Settle(append(ws, r)); u != "" {
		e.out.Line("detect %s x%s %s => %s", gen, c19Hex(init), strings.Join(dets, " "), u)
		return
	}
	e.out.Line("detect %s x%s %s => %s %s", gen, c19Hex(init), strings.Join(dets, " "), c19Res(r), c19Err(err))
}

func (e c19Emitter) requal(gen, a, b string) {
	ra, rb := c19MkRes(a), c19MkRes(b)
	m := map[attribute.Distinct]int{ra.Equivalent(): 1}
	_, found := m[rb.Equivalent()]
	eq := 0
	if ra.Equal(rb) {
		eq = 1
	}
	f := 0
	if found {
		f = 1
	}
	e.out.Line("requal %s %s %s => %d %d", gen, a, b, eq, f)
}

// racc: every accessor of a resource, nil receivers included; tokens: nil | empty | <kvs>@x<schema>
func (e c19Emitter) racc(gen, a, b string) {
	mk := func(tok string) *Resource {
		if tok == "empty" {
			return Empty()
		}
		return c19MkRes(tok)
	}
	ra, rb := mk(a), mk(b)
	it := ra.Iter()
	n := 0
	for it.Next() {
		n++
	}
	if ra.Set().Len() != ra.Len() {
		n = -1
	}
	if u := c19Settle([]*Resource{ra, rb}); u != "" {
		e.out.Line("racc %s %s %s => %s", gen, a, b, u)
		return
	}
	eq, eqr := 0, 0
	if ra.Equal(rb) {
		eq = 1
	}
	if rb.Equal(ra) {
		eqr = 1
	}
	e.out.Line("racc %s %s %s => %s x%s %d %d x%s x%s %d %d", gen, a, b, c19KVs(ra.Attributes()), c19Hex(ra.SchemaURL()), ra.Len(), n,
		c19Hex(ra.String()), c19Hex(ra.Encoded(attribute.DefaultEncoder())), eq, eqr)
}

// a resource token whose values are STRING / BOOL / INT64 / INVALID only
func c19GenPlainRes(r *vRand) string {
	switch r.Intn(6) {
	case 0:
		return "nil"
	case 1:
		return "empty"
	case 2:
		return "-@x" + c19Hex(vPick(r, c19Schemas))
	}
	n := r.Intn(5)
	kvs := make([]attribute.KeyValue, 0, n)
	for i := 0; i < n; i++ {
		var v attribute.Value
		switch r.Intn(5) {
		case 0:
			v = attribute.Value{}
		case 1:
			v = attribute.BoolValue(r.Bool())
		case 2:
			v = attribute.Int64Value(int64(r.Intn(5)) - 2)
		default:
			v = attribute.StringValue(vPick(r, []string{"", "v", "a=b,c\\d", "x y", "š"}))
		}
		kvs = append(kvs, attribute.KeyValue{Key: attribute.Key(vPick(r, c19Keys)), Value: v})
	}
	return c19KVs(kvs) + "@x" + c19Hex(vPick(r, c19Schemas))
}

// detectors with identity for resource.New: the same kind+id on a line is the SAME detector value
type c19PtrDet struct {
	res *Resource
	err error
}

func (d *c19PtrDet) Detect(context.Context) (*Resource, error) { return d.res, d.err }

type c19Table struct{ m map[int]c19Detector }

// comparable struct: two values with the same id (and table) are ==
type c19StructDet struct {
	id  int
	tab *c19Table
}

func (d c19StructDet) Detect(context.Context) (*Resource, error) {
	x := d.tab.m[d.id]
	return x.res, x.err
}

// not comparable (func field)
type c19FuncDet struct {
	f func() (*Resource, error)
}

func (d c19FuncDet) Detect(context.Context) (*Resource, error) { return d.f() }

// new: resource.New(ctx, opts...) driven through the options of config.go
func (e c19Emitter) newRes(gen, attrs, svc string, optToks []string) {
	attrs = strings.ReplaceAll(attrs, "\x00", "0")
	svc = strings.ReplaceAll(svc, "\x00", "0")
	if os.Setenv(resourceAttrKey, attrs) != nil || os.Setenv(svcNameKey, svc) != nil {
		panic("setenv failed")
	}
	tab := &c19Table{m: map[int]c19Detector{}}
	ptrs := map[string]*c19PtrDet{}
	var ws []*Resource
	mk := func(tok string) Detector {
		if tok == "nild" {
			return nil
		}
		i := strings.IndexByte(tok, '/')
		kid := tok[:i]
		if strings.HasPrefix(tok[i+1:], "sd:") {
			return c19MkStringDet(tok[i+1:])
		}
		base := c19MkDet(tok[i+1:]).(c19Detector)
		ws = append(ws, base.res)
		switch kid[0] {
		case 'P':
			if p, ok := ptrs[kid]; ok {
				return p
			}
			p := &c19PtrDet{res: base.res, err: base.err}
			ptrs[kid] = p
			return p
		case 'S':
			id, _ := strconv.Atoi(kid[1:])
			if _, ok := tab.m[id]; !ok {
				tab.m[id] = base
			}
			return c19StructDet{id: id, tab: tab}
		}
		return c19FuncDet{f: func() (*Resource, error) { return base.res, base.err }}
	}
	var opts []Option
	shown := make([]string, len(optToks))
	for i, tok := range optToks {
		shown[i] = tok
		switch {
		case tok == "env":
			opts = append(opts, WithFromEnv())
		case strings.HasPrefix(tok, "sch:"):
			opts = append(opts, WithSchemaURL(c19Unhex(tok[5:])))
		case strings.HasPrefix(tok, "attrs:"):
			opts = append(opts, WithAttributes(c19ParseKVs(tok[6:])...))
		case strings.HasPrefix(tok, "tsdk:"):
			opts = append(opts, WithTelemetrySDK())
			// what this built-in detector returns is an input of the line
			r, _ := telemetrySDK{}.Detect(context.Background())
			shown[i] = "tsdk:" + c19Res(r)
		case strings.HasPrefix(tok, "bi:"):
			name := strings.Split(tok, ":")[1]
			b := c19Builtin[name]
			opts = append(opts, b.opt())
			// what each built-in detector returns in this process is an input of the line
			parts := make([]string, len(b.dets))
			for j, d := range b.dets {
				r, err := d.det.Detect(context.Background())
				parts[j] = d.name + "/" + c19DetTok(r, err)
			}
			shown[i] = "bi:" + name + ":" + strings.Join(parts, ";")
		case strings.HasPrefix(tok, "dets:"):
			var ds []Detector
			if body := tok[5:]; body != "" {
				for _, d := range strings.Split(body, ";") {
					ds = append(ds, mk(d))
				}
			}
			opts = append(opts, WithDetectors(ds...))
		default:
			panic("bad option token " + tok)
		}
	}
	*e.handled = 0
	r, err := New(context.Background(), opts...)
	sep := ""
	if len(shown) > 0 {
		sep = " "
	}
	if u := c19Settle(append(ws, r)); u != "" {
		e.out.Line("new %s x%s x%s%s%s => %s", gen, c19Hex(attrs), c19Hex(svc), sep, strings.Join(shown, " "), u)
		return
	}
	e.out.Line("new %s x%s x%s%s%s => %s %s", gen, c19Hex(attrs), c19Hex(svc), sep, strings.Join(shown, " "), c19Res(r), c19Err(err))
}

func c19GenNew(r *vRand) (string, string, string, []string) {
	// 2-4 detectors with identity
	nd := 2 + r.Intn(3)
	defs := make([]string, nd)
	for i := range defs {
		d := c19GenDet(r)
		for d == "nild" {
			d = c19GenDet(r)
		}
		defs[i] = fmt.Sprintf("%s%d/%s", vPick(r, []string{"P", "P", "S", "S", "F"}), i, d)
	}
	attrs, svc := "", ""
	if r.Intn(3) > 0 {
		attrs = vPick(r, []string{"a=env", "k=1,service.name=fromattrs", "b=%41, c = x", "a=env,noeq", ""})
		svc = c19GenSvc(r)
	}
	kvsOpt := func() string {
		if r.Intn(3) == 0 {
			return "attrs:" + c19KVs([]attribute.KeyValue{attribute.String("service.name", "fallback"), attribute.String("a", "fallback")})
		}
		return "attrs:" + c19GenKVs(r)
	}
	gen := "rnd"
	var opts []string
	switch r.Intn(6) {
	case 0:
		// a detector given again after another one, in one option
		gen = "aba"
		a, b := defs[0], defs[1]
		opts = []string{"dets:" + a + ";" + b + ";" + a}
	case 1:
		// … or in separate options, with something in between
		gen = "aba"
		a := vPick(r, defs)
		mid := vPick(r, []string{"dets:" + vPick(r, defs), kvsOpt(), "env"})
		opts = []string{"dets:" + a, mid, "dets:" + a}
	case 2:
		gen = "envtwice"
		opts = []string{"env", kvsOpt(), "env"}
		if r.Bool() {
			opts = append([]string{"tsdk:-@x"}, append(opts, "tsdk:-@x")...)
		}
	default:
		for n := r.Intn(6); n > 0; n-- {
			switch r.Intn(20) {
			case 0, 1, 2:
				opts = append(opts, kvsOpt())
			case 3, 4, 5:
				opts = append(opts, "env")
			case 6, 7:
				opts = append(opts, "sch:x"+c19Hex(vPick(r, c19Schemas)))
			case 8, 9:
				opts = append(opts, "tsdk:-@x")
			case 10:
				opts = append(opts, "dets:")
			case 11, 12:
				if r.Bool() {
					opts = append(opts, "bi:"+vPick(r, []string{"OS", "Process", "Process", "Container"}))
				} else {
					opts = append(opts, "bi:"+vPick(r, c19BuiltinNames))
				}
			default:
				k := 1 + r.Intn(3)
				ds := make([]string, k)
				for j := range ds {
					ds[j] = vPick(r, defs)
					if r.Intn(12) == 0 {
						ds[j] = "nild"
					}
				}
				opts = append(opts, "dets:"+strings.Join(ds, ";"))
			}
		}
	}
	return gen, attrs, svc, opts
}

var c19Keys = []string{"a", "b", "c", "d", "service.name", "", "k"}
var c19Schemas = []string{"", "http://s/1", "http://s/2", "http://s/3"}

func c19GenVal(r *vRand) attribute.Value {
	switch r.Intn(12) {
	case 0:
		return attribute.Value{}
	case 1:
		return attribute.BoolValue(r.Bool())
	case 2, 3:
		return attribute.Int64Value(int64(r.Intn(3)))
	case 4:
		return attribute.Float64Value(math.Float64frombits(vPick(r, []uint64{0, 0x8000000000000000, 0x3ff8000000000000, 0x7ff8000000000001})))
	case 5:
		xs := []float64{}
		for i, n := 0, r.Intn(3); i < n; i++ {
			xs = append(xs, math.Float64frombits(vPick(r, []uint64{0, 0x8000000000000000, 0x3ff8000000000000, 0x7ff8000000000001})))
		}
		return attribute.Float64SliceValue(xs)
	case 6:
		return attribute.StringSliceValue([]string{"x", ""}[:r.Intn(3)])
	case 7:
		return attribute.Int64SliceValue([]int64{1, 2}[:r.Intn(3)])
	default:
		return attribute.StringValue(vPick(r, []string{"", "v", "w", "x y"}))
	}
}

func c19GenKVs(r *vRand) string {
	n := r.Intn(9)
	kvs := make([]attribute.KeyValue, 0, n)
	for i := 0; i < n; i++ {
		kvs = append(kvs, attribute.KeyValue{Key: attribute.Key(vPick(r, c19Keys)), Value: c19GenVal(r)})
	}
	return c19KVs(kvs)
}

func c19GenRes(r *vRand) string {
	if r.Intn(8) == 0 {
		return "nil"
	}
	return c19GenKVs(r) + "@x" + c19Hex(vPick(r, c19Schemas))
}

var c19EnvKeys = []string{"k", "a.b", "service.name", " k ", "", "a", "k%20", "\tk", "š", "k\u00a0", "\u2003a"}
var c19EnvVals = []string{"v", "%41", "%4", "%zz", "%", "a%20b", " v ", "x=y", "š", "\xff", "%e2%82%ac", "\u00a0w\u00a0", "\u2003", "\t", "",
	"+", "%2C", "%3D", " %zz ", "%%41", "v\u3000", "\u0085v", "a b", "%c5"}

func c19GenEnv(r *vRand) string {
	switch r.Intn(10) {
	case 0:
		return vStr(r, 6)
	case 1:
		return vPick(r, []string{"", " ", "\t \n", ",", "=", ",,", "=,=", " , ", "\u00a0", "k", "k=", "=v", "%"})
	}
	n := 1 + r.Intn(5)
	parts := make([]string, n)
	for i := range parts {
		switch r.Intn(12) {
		case 0:
			parts[i] = vPick(r, c19EnvKeys) // missing "="
		case 1:
			parts[i] = ""
		case 2:
			parts[i] = vStr(r, 4)
		default:
			parts[i] = vPick(r, c19EnvKeys) + vPick(r, []string{"=", "=", "=", " = ", "= "}) + vPick(r, c19EnvVals)
		}
	}
	s := strings.Join(parts, ",")
	if r.Intn(6) == 0 {
		s = vPick(r, []string{" ", "\t", "\u00a0", "\u2003 "}) + s + vPick(r, []string{" ", "\n", "\u3000", ""})
	}
	return strings.ReplaceAll(s, "\x00", "0")
}

func c19GenSvc(r *vRand) string {
	switch r.Intn(6) {
	case 0, 1:
		return ""
	case 2:
		return vPick(r, []string{" ", " svc ", "\u00a0x\u00a0", "a,b=c", "%41"})
	default:
		return vPick(r, []string{"svc", "my service", "š"})
	}
}

func c19GenDet(r *vRand) string {
	switch r.Intn(13) {
	case 0:
		return "nild"
	case 12:
		val := "err"
		if r.Intn(4) > 0 {
			val = "x" + c19Hex(vPick(r, []string{"", "v", "sd value"}))
		}
		return "sd:x" + c19Hex(vPick(r, c19Schemas)) + ":x" + c19Hex(vPick(r, c19Keys)) + ":" + val
	case 1, 2:
		return "p:" + c19GenRes(r)
	case 3, 4:
		return "f:" + c19GenRes(r)
	case 5:
		return vPick(r, []string{"c:", "pc:"}) + c19GenRes(r)
	default:
		return "ok:" + c19GenRes(r)
	}
}

func TestVerifC19Res(t *testing.T) {
	out := vOpen(t)
	defer out.Close()
	// a panic of the code under test is an observation: it becomes an (unparsable) trace line, so the
	// run cannot pass for a truncated trace
	defer func() {
		if p := recover(); p != nil {
			out.Line("panic harness => %s", strings.ReplaceAll(fmt.Sprint(p), " ", "_"))
			t.Errorf("panic: %v", p)
		}
	}()
	handled := 0
	otel.SetErrorHandler(otel.ErrorHandlerFunc(func(error) { handled++ }))
	// registers the restoration of both variables (and forbids t.Parallel)
	t.Setenv(resourceAttrKey, "")
	t.Setenv(svcNameKey, "")
	t.Setenv("OTEL_GO_X_RESOURCE", "")
	defer func() { defaultResourceOnce = sync.Once{}; defaultResource = nil }()
	e := c19Emitter{out, &handled}
	if rp := vReplayLines(); rp != nil {
		for _, f := range rp {
			switch f[0] {
			case "schemaless":
				e.schemaless(f[1], f[2])
			case "merge":
				e.merge(f[1], f[2], f[3])
			case "merge3":
				e.merge3(f[1], f[2], f[3], f[4])
			case "env":
				e.env(f[1], c19Unhex(f[2][1:]), c19Unhex(f[3][1:]))
			case "detect":
				e.detect(f[1], c19Unhex(f[2][1:]), f[3:])
			case "requal":
				e.requal(f[1], f[2], f[3])
			case "racc":
				e.racc(f[1], f[2], f[3])
			case "new":
				toks := append([]string{}, f[4:]...)
				for i, t := range toks {
					if strings.HasPrefix(t, "bi:") {
						toks[i] = "bi:" + strings.Split(t, ":")[1]
					}
				}
				e.newRes(f[1], c19Unhex(f[2][1:]), c19Unhex(f[3][1:]), toks)
			case "envrt":
				var ks, vs []string
				if f[2] != "-" {
					for _, p := range strings.Split(f[2], ";") {
						i := strings.IndexByte(p, '=')
						ks = append(ks, c19Unhex(p[:i]))
						vs = append(vs, c19Unhex(p[i+1:]))
					}
				}
				e.envrt(f[1], ks, vs)
			case "default":
				e.deflt(f[1], c19Unhex(f[2][1:]), c19Unhex(f[3][1:]), c19Unhex(f[4][1:]), c19Unhex(f[5][1:]))
			}
		}
		return
	}
	r := &vRand{s: vSeed()}
	n := vN(20000)
	if os_exhaustive() {
		// all environment strings of length <= 5 over an 8-byte alphabet
		alpha := []byte{'a', 'k', '=', ',', '%', ' ', '4', '1'}
		var rec func(prefix []byte, depth int)
		rec = func(prefix []byte, depth int) {
			e.env("exh", string(prefix), "")
			if depth == 5 {
				return
			}
			for _, b := range alpha {
				rec(append(append([]byte{}, prefix...), b), depth+1)
			}
		}
		rec(nil, 0)
	}
	for i := 0; i < n; i++ {
		switch r.Intn(23) {
		case 22:
			a, b := c19GenPlainRes(r), c19GenPlainRes(r)
			gen := "rnd"
			if r.Intn(3) == 0 {
				b, gen = vPick(r, []string{"nil", "empty", "-@x", "-@x687474703a2f2f732f31", "6b=n@x"}), "vs-empty"
			}
			e.racc(gen, a, b)
		case 21:
			gen, ks, vs := c19GenRt(r)
			e.envrt(gen, ks, vs)
		case 20:
			gen := "rnd"
			a2, s2 := c19GenEnv(r), c19GenSvc(r)
			if r.Intn(3) == 0 {
				a2, s2, gen = "", "", "cleared"
			}
			a1 := c19GenEnv(r)
			if r.Intn(3) == 0 {
				// the environment tries to override what the other two default detectors provide
				a1 = vPick(r, []string{"telemetry.sdk.name=custom", "telemetry.sdk.language=rust,service.name=fromattrs", "service.name=fromattrs"}) + "," + a1
				gen += "-override"
			}
			e.deflt(gen, a1, c19GenSvc(r), a2, s2)
		case 16, 17, 18, 19:
			gen, attrs, svc, opts := c19GenNew(r)
			e.newRes(gen, attrs, svc, opts)
		case 0, 1:
			gen := "rnd"
			if r.Intn(4) == 0 {
				gen = "with"
			}
			e.schemaless(gen, c19GenKVs(r))
		case 2, 3, 4:
			a := c19GenRes(r)
			b := c19GenRes(r)
			gen := "rnd"
			switch r.Intn(6) {
			case 0:
				b, gen = a, "idem"
			case 1:
				b, gen = "-@x"+c19Hex(vPick(r, c19Schemas)), "emptyb"
			case 2:
				a, gen = "-@x"+c19Hex(vPick(r, c19Schemas)), "emptya"
			}
			e.merge(gen, a, b)
		case 5, 6, 7:
			e.merge3("rnd", c19GenRes(r), c19GenRes(r), c19GenRes(r))
		case 8, 9, 10, 11:
			e.env("rnd", c19GenEnv(r), c19GenSvc(r))
		case 12, 13, 14:
			nd := r.Intn(5)
			ds := make([]string, nd)
			for j := range ds {
				ds[j] = c19GenDet(r)
			}
			init := ""
			gen := "rnd"
			if r.Intn(3) == 0 {
				init, gen = vPick(r, c19Schemas), "new"
			}
			e.detect(gen, init, ds)
		default:
			a := c19GenRes(r)
			b := c19GenRes(r)
			gen := "rnd"
			if r.Intn(2) == 0 {
				// same mapping, different order / duplicates
				if a != "nil" {
					i := strings.LastIndexByte(a, '@')
					kvs := c19ParseKVs(a[:i])
					w := map[attribute.Key]attribute.KeyValue{}
					for _, kv := range kvs {
						w[kv.Key] = kv
					}
					var re []attribute.KeyValue
					for j := len(kvs) - 1; j >= 0; j-- {
						if kv, ok := w[kvs[j].Key]; ok {
							re = append(re, kv)
							delete(w, kvs[j].Key)
						}
					}
					b, gen = c19KVs(re)+"@x"+c19Hex(vPick(r, c19Schemas)), "same"
				} else {
					b, gen = "-@x", "same"
				}
			}
			e.requal(gen, a, b)
		}
	}
}
