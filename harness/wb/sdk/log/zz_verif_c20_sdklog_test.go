package log

import (
	"context"
	"fmt"
	"os"
	"strconv"
	"strings"
	"testing"
	"time"
)

// TestVerifC20Sdklog: correspondence lines for the configuration resolution of sdk/log (property C20).
//
//	blrp <gen> <oq> <oi ns> <ot ns> <ob> <obuf> <eq> <ei> <et> <eb> => <q> <i ns> <t ns> <b> <buf> | panic
//	llim <gen> <ocnt> <olen> <ecnt> <elen> => <cnt> <len> | panic
//
// options: `-` = not passed, else a decimal int; environment: `-` = unset, else x<hex>.
var c20BlrpKeys = []string{"OTEL_BLRP_MAX_QUEUE_SIZE", "OTEL_BLRP_SCHEDULE_DELAY", "OTEL_BLRP_EXPORT_TIMEOUT", "OTEL_BLRP_MAX_EXPORT_BATCH_SIZE"}
var c20LlimKeys = []string{"OTEL_LOGRECORD_ATTRIBUTE_COUNT_LIMIT", "OTEL_LOGRECORD_ATTRIBUTE_VALUE_LENGTH_LIMIT"}

func c20SetEnv(key, tok string) {
	if tok == "-" {
		os.Unsetenv(key)
		return
	}
	if err := os.Setenv(key, vUnhex(tok)); err != nil {
		panic(err)
	}
}

func c20ClearOtelEnv() {
	for _, kv := range os.Environ() {
		if strings.HasPrefix(kv, "OTEL_") {
			os.Unsetenv(kv[:strings.IndexByte(kv, '=')])
		}
	}
}

func c20OptInt(tok string) (int, bool) {
	if tok == "-" {
		return 0, false
	}
	n, err := strconv.Atoi(tok)
	if err != nil {
		panic("bad option token " + tok)
	}
	return n, true
}

func c20Blrp(out *vOut, gen string, a []string) {
	for i, k := range c20BlrpKeys {
		c20SetEnv(k, a[5+i])
	}
	var opts []BatchProcessorOption
	if n, ok := c20OptInt(a[0]); ok {
		opts = append(opts, WithMaxQueueSize(n))
	}
	if n, ok := c20OptInt(a[1]); ok {
		opts = append(opts, WithExportInterval(time.Duration(n)))
	}
	if n, ok := c20OptInt(a[2]); ok {
		opts = append(opts, WithExportTimeout(time.Duration(n)))
	}
	if n, ok := c20OptInt(a[3]); ok {
		opts = append(opts, WithExportMaxBatchSize(n))
	}
	if n, ok := c20OptInt(a[4]); ok {
		opts = append(opts, WithExportBufferSize(n))
	}
	obs := func() (res string) {
		defer func() {
			if r := recover(); r != nil {
				res = "panic"
			}
		}()
		c := newBatchConfig(opts)
		return fmt.Sprintf("%d %d %d %d %d", c.maxQSize.Value, int64(c.expInterval.Value), int64(c.expTimeout.Value),
			c.expMaxBatchSize.Value, c.expBufferSize.Value)
	}()
	out.Line("blrp %s %s => %s", gen, strings.Join(a, " "), obs)
}

// c20BlrpLive builds the real processor (goroutine, queue, ring) for a case: a panic or a hang there is an observation.
func c20BlrpLive(opts []BatchProcessorOption) (res string) {
	defer func() {
		if r := recover(); r != nil {
			res = "panic"
		}
	}()
	done := make(chan struct{})
	go func() {
		defer close(done)
		defer func() { recover() }()
		p := NewBatchProcessor(nil, opts...)
		_ = p.Shutdown(context.Background())
	}()
	select {
	case <-done:
		return "ok"
	case <-time.After(20 * time.Second):
		return "hang"
	}
}

func c20Llim(out *vOut, gen string, a []string) {
	for i, k := range c20LlimKeys {
		c20SetEnv(k, a[2+i])
	}
	obs := func() (res string) {
		defer func() {
			if r := recover(); r != nil {
				res = "panic"
			}
		}()
		var opts []LoggerProviderOption
		if n, ok := c20OptInt(a[0]); ok {
			opts = append(opts, WithAttributeCountLimit(n))
		}
		if n, ok := c20OptInt(a[1]); ok {
			opts = append(opts, WithAttributeValueLengthLimit(n))
		}
		p := NewLoggerProvider(opts...)
		res = fmt.Sprintf("%d %d", p.attributeCountLimit, p.attributeValueLengthLimit)
		_ = p.Shutdown(context.Background())
		return res
	}()
	out.Line("llim %s %s => %s", gen, strings.Join(a, " "), obs)
}

var c20IntEnv = []string{"-", "5", "600", "4096", "0", "-3", "abc", "99999999999999999999", "", " 5", "1.5", "+7", "007", "-1", "513", "2048", "5 ", "0x10", "1_000", "9223372036854775808", "-0"}

func c20EnvTok(s string) string {
	if s == "-" {
		return "-"
	}
	return vHex(s)
}

func TestVerifC20Sdklog(t *testing.T) {
	out := vOpen(t)
	defer out.Close()
	c20ClearOtelEnv()
	defer c20ClearOtelEnv()
	if rp := vReplayLines(); rp != nil {
		for _, f := range rp {
			switch {
			case f[0] == "blrp" && len(f) == 11:
				c20Blrp(out, f[1], f[2:])
			case f[0] == "llim" && len(f) == 6:
				c20Llim(out, f[1], f[2:])
			}
		}
		return
	}
	r := &vRand{s: vSeed()}
	n := vN(3000)
	// --- exhaustive small scope (both tiers): queue and batch size interact (clampMax)
	optSz := []string{"-", "0", "5", "600", "4096", "-1"}
	envSz := []string{"-", "5", "600", "4096", "0", "-3", "abc", "99999999999999999999"}
	for _, oq := range optSz {
		for _, ob := range optSz {
			for _, eq := range envSz {
				for _, eb := range envSz {
					c20Blrp(out, "exh-size", []string{oq, "-", "-", ob, "-", c20EnvTok(eq), "-", "-", c20EnvTok(eb)})
				}
			}
		}
	}
	optNs := []string{"-", "0", "1", "7000000", "60000000000", "-2"}
	for _, od := range optNs {
		for _, ed := range c20IntEnv {
			c20Blrp(out, "exh-interval", []string{"-", od, "-", "-", "-", "-", c20EnvTok(ed), "-", "-"})
			c20Blrp(out, "exh-timeout", []string{"-", "-", od, "-", "-", "-", "-", c20EnvTok(ed), "-"})
		}
	}
	for _, ob := range []string{"-", "0", "1", "3", "-5"} {
		c20Blrp(out, "exh-buf", []string{"-", "-", "-", "-", ob, "-", "-", "-", "-"})
	}
	optLim := []string{"-", "0", "5", "200", "-1", "-7"}
	for _, oc := range optLim {
		for _, ec := range c20IntEnv {
			c20Llim(out, "exh-cnt", []string{oc, "-", c20EnvTok(ec), "-"})
			c20Llim(out, "exh-len", []string{"-", oc, "-", c20EnvTok(ec)})
		}
	}
	// the real processor is built for a few out-of-range combinations (no panic, no hang)
	live := 0
	for _, q := range []int{-1, 0, 1, 5} {
		for _, b := range []int{-1, 0, 1, 9} {
			if c20BlrpLive([]BatchProcessorOption{WithMaxQueueSize(q), WithExportMaxBatchSize(b), WithExportInterval(-1), WithExportTimeout(0), WithExportBufferSize(-3)}) != "ok" {
				live++
			}
		}
	}
	if live != 0 {
		// reported through a line the driver cannot agree with
		out.Line("blrplive - => crashed-or-hung:%d", live)
	}
	// --- random combinations across settings
	optAny := []string{"-", "-", "0", "1", "5", "511", "512", "513", "600", "2047", "2048", "2049", "4096", "-1", "-7", "1000000"}
	for i := 0; i < n; i++ {
		if r.Intn(4) > 0 {
			a := make([]string, 9)
			for j := 0; j < 5; j++ {
				a[j] = vPick(r, optAny)
			}
			for j := 5; j < 9; j++ {
				if r.Intn(3) == 0 {
					a[j] = "-"
				} else {
					a[j] = c20EnvTok(vPick(r, c20IntEnv))
				}
			}
			c20Blrp(out, "rnd", a)
		} else {
			a := []string{vPick(r, optLim), vPick(r, optLim), c20EnvTok(vPick(r, c20IntEnv)), c20EnvTok(vPick(r, c20IntEnv))}
			c20Llim(out, "rnd", a)
		}
	}
}
