package log

import (
	"context"
	"fmt"
	"os"
	"strconv"
	"strings"
	"testing"
	"time"
)

// TestVerifC20Sdklog: correspondence lines for the configuration resolution of sdk/log (property C20).
//
//	blrp <gen> <oq> <oi ns> <ot ns> <ob> <obuf> <eq> <ei> <et> <eb> <live L|-> => <q> <i ns> <t ns> <b> <buf> <ok|panic|hang|-> | panic
//	     live = L: NewBatchProcessor is really built (ticker, queue ring, goroutine) and shut down; a panic
//	     (e.g. time.NewTicker: non-positive interval) or a hang (20 s) there is the last observed token
//	llim <gen> <ocnt> <olen> <ecnt> <elen> => <cnt> <len> | panic
//
// options: `-` = not passed, else a decimal int; environment: `-` = unset, else x<hex>.
var c20BlrpKeys = []string{"OTEL_BLRP_MAX_QUEUE_SIZE", "OTEL_BLRP_SCHEDULE_DELAY", "OTEL_BLRP_EXPORT_TIMEOUT", "OTEL_BLRP_MAX_EXPORT_BATCH_SIZE"}
var c20LlimKeys = []string{"OTEL_LOGRECORD_ATTRIBUTE_COUNT_LIMIT", "OTEL_LOGRECORD_ATTRIBUTE_VALUE_LENGTH_LIMIT"}

func c20SetEnv(key, tok string) {
	if tok == "-" {
		os.Unsetenv(key)
		return
	}
	if err := os.Setenv(key, vUnhex(tok)); err != nil {
		panic(err)
	}
}

func c20ClearOtelEnv() {
	for _, kv := range os.Environ() {
		if strings.HasPrefix(kv, "OTEL_") {
			os.Unsetenv(kv[:strings.IndexByte(kv, '=')])
		}
	}
}

func c20OptInt(tok string) (int, bool) {
	if tok == "-" {
		return 0, false
	}
	n, err := strconv.Atoi(tok)
	if err != nil {
		panic("bad option token " + tok)
	}
	return n, true
}

func c20Blrp(out *vOut, gen string, a []string) {
	for i, k := range c20BlrpKeys {
		c20SetEnv(k, a[5+i])
	}
	var opts []BatchProcessorOption
	if n, ok := c20OptInt(a[0]); ok {
		opts = append(opts, WithMaxQueueSize(n))
	}
	if n, ok := c20OptInt(a[1]); ok {
		opts = append(opts, WithExportInterval(time.Duration(n)))
	}
	if n, ok := c20OptInt(a[2]); ok {
		opts = append(opts, WithExportTimeout(time.Duration(n)))
	}
	if n, ok := c20OptInt(a[3]); ok {
		opts = append(opts, WithExportMaxBatchSize(n))
	}
	if n, ok := c20OptInt(a[4]); ok {
		opts = append(opts, WithExportBufferSize(n))
	}
	live := a[9]
	obs := func() (res string) {
		defer func() {
			if r := recover(); r != nil {
				res = "panic"
			}
		}()
		c := newBatchConfig(opts)
		// the real processor is only built when nothing large would be allocated
		if live == "L" && (c.maxQSize.Value > 4096 || c.expMaxBatchSize.Value > 4096 || c.expBufferSize.Value > 4096) {
			live = "-"
		}
		lv := "-"
		if live == "L" {
			lv = c20BlrpLive(opts)
		}
		return fmt.Sprintf("%d %d %d %d %d %s", c.maxQSize.Value, int64(c.expInterval.Value), int64(c.expTimeout.Value),
			c.expMaxBatchSize.Value, c.expBufferSize.Value, lv)
	}()
	a = append(append([]string{}, a[:9]...), live)
	out.Line("blrp %s %s => %s", gen, strings.Join(a, " "), obs)
}

// c20BlrpLive builds the real processor (goroutine, queue, ring) for a case: a panic or a hang there is an observation.
func c20BlrpLive(opts []BatchProcessorOption) string {
	res := make(chan string, 1)
	go func() {
		defer func() {
			if r := recover(); r != nil {
				res <- "panic"
			}
		}()
		p := NewBatchProcessor(nil, opts...)
		_ = p.Shutdown(context.Background())
		res <- "ok"
	}()
	select {
	case s := <-res:
		return s
	case <-time.After(20 * time.Second):
		return "hang"
	}
}

func c20Llim(out *vOut, gen string, a []string) {
	for i, k := range c20LlimKeys {
		c20SetEnv(k, a[2+i])
	}
	obs := func() (res string) {
		defer func() {
			if r := recover(); r != nil {
				res = "panic"
			}
		}()
		var opts []LoggerProviderOption
		if n, ok := c20OptInt(a[0]); ok {
			opts = append(opts, WithAttributeCountLimit(n))
		}
		if n, ok := c20OptInt(a[1]); ok {
			opts = append(opts, WithAttributeValueLengthLimit(n))
		}
		p := NewLoggerProvider(opts...)
		res = fmt.Sprintf("%d %d", p.attributeCountLimit, p.attributeValueLengthLimit)
		_ = p.Shutdown(context.Background())
		return res
	}()
	out.Line("llim %s %s => %s", gen, strings.Join(a, " "), obs)
}

var c20IntEnv = []string{"-", "5", "600", "4096", "0", "-3", "abc", "99999999999999999999", "", " 5", "1.5", "+7", "007", "-1", "513", "2048", "5 ", "0x10", "1_000", "9223372036854775808", "-0"}

// duration variables additionally get parsable values around the int64-nanosecond overflow of
// time.Duration(n) * time.Millisecond: MaxInt64 (wraps to -1ms), 9223372036854 (largest exact), 9223372036855 (first
// overflow, negative), 10000000000000 (negative), 18446744073709 (wraps to a small negative), 18446744073710 (wraps back
// to a small positive), -9223372036855 (wraps to positive).
var c20DurEnv = append(append([]string{}, c20IntEnv...), "9223372036854775807", "9223372036855", "10000000000000",
	"9223372036854", "18446744073709", "18446744073710", "-9223372036855")

func c20EnvTok(s string) string {
	if s == "-" {
		return "-"
	}
	return vHex(s)
}

func TestVerifC20Sdklog(t *testing.T) {
	out := vOpen(t)
	defer out.Close()
	c20ClearOtelEnv()
	defer c20ClearOtelEnv()
	if rp := vReplayLines(); rp != nil {
		for _, f := range rp {
			switch {
			case f[0] == "blrp" && len(f) == 12:
				c20Blrp(out, f[1], f[2:])
			case f[0] == "llim" && len(f) == 6:
				c20Llim(out, f[1], f[2:])
			}
		}
		return
	}
	r := &vRand{s: vSeed()}
	n := vN(3000)
	// --- exhaustive small scope (both tiers): queue and batch size interact (clampMax)
	optSz := []string{"-", "0", "5", "600", "4096", "-1"}
	envSz := []string{"-", "5", "600", "4096", "0", "-3", "abc", "99999999999999999999"}
	for _, oq := range optSz {
		for _, ob := range optSz {
			for _, eq := range envSz {
				for _, eb := range envSz {
					c20Blrp(out, "exh-size", []string{oq, "-", "-", ob, "-", c20EnvTok(eq), "-", "-", c20EnvTok(eb), "L"})
				}
			}
		}
	}
	optNs := []string{"-", "0", "1", "7000000", "60000000000", "-2"}
	for _, od := range optNs {
		for _, ed := range c20DurEnv {
			c20Blrp(out, "exh-interval", []string{"-", od, "-", "-", "-", "-", c20EnvTok(ed), "-", "-", "L"})
			c20Blrp(out, "exh-timeout", []string{"-", "-", od, "-", "-", "-", "-", c20EnvTok(ed), "-", "L"})
			c20Blrp(out, "exh-both", []string{"-", od, od, "-", "-", "-", c20EnvTok(ed), c20EnvTok(ed), "-", "L"})
		}
	}
	for _, ob := range []string{"-", "0", "1", "3", "-5"} {
		c20Blrp(out, "exh-buf", []string{"-", "-", "-", "-", ob, "-", "-", "-", "-", "L"})
	}
	optLim := []string{"-", "0", "5", "200", "-1", "-7"}
	for _, oc := range optLim {
		for _, ec := range c20IntEnv {
			c20Llim(out, "exh-cnt", []string{oc, "-", c20EnvTok(ec), "-"})
			c20Llim(out, "exh-len", []string{"-", oc, "-", c20EnvTok(ec)})
		}
	}
	// the real processor is built for a few out-of-range combinations (no panic, no hang)
	live := 0
	for _, q := range []int{-1, 0, 1, 5} {
		for _, b := range []int{-1, 0, 1, 9} {
			if c20BlrpLive([]BatchProcessorOption{WithMaxQueueSize(q), WithExportMaxBatchSize(b), WithExportInterval(-1), WithExportTimeout(0), WithExportBufferSize(-3)}) != "ok" {
				live++
			}
		}
	}
	if live != 0 {
		// reported through a line the driver cannot agree with
		out.Line("blrplive - => crashed-or-hung:%d", live)
	}
	// --- random combinations across settings
	optAny := []string{"-", "-", "0", "1", "5", "511", "512", "513", "600", "2047", "2048", "2049", "4096", "-1", "-7", "1000000"}
	for i := 0; i < n; i++ {
		if r.Intn(4) > 0 {
			a := make([]string, 10)
			for j := 0; j < 5; j++ {
				a[j] = vPick(r, optAny)
			}
			for j := 5; j < 9; j++ {
				if r.Intn(3) == 0 {
					a[j] = "-"
				} else if j == 6 || j == 7 { // OTEL_BLRP_SCHEDULE_DELAY, OTEL_BLRP_EXPORT_TIMEOUT
					a[j] = c20EnvTok(vPick(r, c20DurEnv))
				} else {
					a[j] = c20EnvTok(vPick(r, c20IntEnv))
				}
			}
			a[9] = "-"
			if r.Intn(4) == 0 {
				a[9] = "L"
			}
			c20Blrp(out, "rnd", a)
		} else {
			a := []string{vPick(r, optLim), vPick(r, optLim), c20EnvTok(vPick(r, c20IntEnv)), c20EnvTok(vPick(r, c20IntEnv))}
			c20Llim(out, "rnd", a)
		}
	}
}
