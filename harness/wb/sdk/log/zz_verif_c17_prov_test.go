package log

import (
	"context"
	"fmt"
	"os"
	"strconv"
	"strings"
	"testing"

	"go.opentelemetry.io/otel"
	"go.opentelemetry.io/otel/log"
	"go.opentelemetry.io/otel/sdk/resource"
)

// C17, leg `prov`: where a record's limits come from (provider.go newProviderConfig / NewLoggerProvider, setting.go
// getenv / fallback / Resolve, the option functions, logger.newRecord copying the provider's limits). One case per line:
//
//	prov <gen> <env count|-> <env length|-> <opts|-> <k> => <attributeCountLimit> <attributeValueLengthLimit> <len> <dropped>
//
// env = hex of the value of OTEL_LOGRECORD_ATTRIBUTE_COUNT_LIMIT / …_VALUE_LENGTH_LIMIT (`-` = not set, `x` = set to "");
// opts = the LoggerProviderOptions in the order passed: c<int> = WithAttributeCountLimit, l<int> = WithAttributeValueLengthLimit;
// k = number of distinct int attributes of one record emitted through Logger.Emit; len/dropped = AttributesLen /
// DroppedAttributes of the record the processor receives. helpers (c17proc) are in zz_verif_c17_rec_test.go.

const (
	c17envCnt = "OTEL_LOGRECORD_ATTRIBUTE_COUNT_LIMIT"
	c17envLen = "OTEL_LOGRECORD_ATTRIBUTE_VALUE_LENGTH_LIMIT"
)

func c17setenv(key, tok string) {
	if tok == "-" {
		os.Unsetenv(key)
	} else {
		os.Setenv(key, vUnhex(tok))
	}
}

func c17prov(gen, ec, el, opts string, k int) string {
	c17setenv(c17envCnt, ec)
	c17setenv(c17envLen, el)
	defer os.Unsetenv(c17envCnt)
	defer os.Unsetenv(c17envLen)
	var got *Record
	p := &c17proc{fn: func(rec *Record) { c := rec.Clone(); got = &c }}
	o := []LoggerProviderOption{WithResource(resource.Empty()), WithProcessor(p)}
	if opts != "-" {
		for _, t := range strings.Split(opts, ",") {
			n, _ := strconv.Atoi(t[1:])
			if t[0] == 'c' {
				o = append(o, WithAttributeCountLimit(n))
			} else {
				o = append(o, WithAttributeValueLengthLimit(n))
			}
		}
	}
	lp := NewLoggerProvider(o...)
	var ar log.Record
	for i := 0; i < k; i++ {
		ar.AddAttributes(log.Int("k"+strconv.Itoa(i), i))
	}
	ctx := context.Background()
	lp.Logger("verif").Emit(ctx, ar)
	_ = lp.Shutdown(ctx)
	ln, dr := -1, -1
	if got != nil {
		ln, dr = got.AttributesLen(), got.DroppedAttributes()
	}
	return fmt.Sprintf("prov %s %s %s %s %d => %d %d %d %d", gen, ec, el, opts, k,
		lp.attributeCountLimit, lp.attributeValueLengthLimit, ln, dr)
}

var c17envVals = []string{"-", "-", "-", "x", "0", "1", "5", "-1", "+7", "128", "007", "abc", "12x", " 5", "5 ", "1_000",
	"9223372036854775807", "9223372036854775808", "-9223372036854775808", "-9223372036854775809",
	"-", "+", "--1", "+-1", "1e3", "0x10", "٣", "3.0", "-0", "+0", "99999999999999999999"}

func c17envTok(r *vRand) string {
	v := vPick(r, c17envVals)
	if v == "-" || v == "x" {
		if v == "-" && r.Intn(6) == 0 {
			return vHex("-") // the one-character string "-"
		}
		return v
	}
	if r.Intn(8) == 0 {
		v = strconv.Itoa(r.Intn(300) - 20)
	}
	return vHex(v)
}

func TestVerifC17Prov(t *testing.T) {
	out := vOpen(t)
	defer out.Close()
	// getenv reports unparsable values through the global error handler: keep the test log quiet
	otel.SetErrorHandler(otel.ErrorHandlerFunc(func(error) {}))
	if rp := vReplayLines(); rp != nil {
		for _, f := range rp {
			if len(f) < 6 || f[0] != "prov" {
				continue
			}
			k, _ := strconv.Atoi(f[5])
			out.Line("%s", c17prov(f[1], f[2], f[3], f[4], k))
		}
		return
	}
	r := &vRand{s: vSeed() ^ 0xc17}
	n := vN(1500)
	lims := []int{-1, 0, 1, 2, 5, 128, 1000, -7}
	for i := 0; i < n; i++ {
		opts := "-"
		if m := r.Intn(4); m > 0 && r.Intn(3) > 0 {
			xs := make([]string, m)
			for j := range xs {
				xs[j] = vPick(r, []string{"c", "l", "c"}) + strconv.Itoa(vPick(r, lims))
			}
			opts = strings.Join(xs, ",")
		}
		out.Line("%s", c17prov("rnd", c17envTok(r), c17envTok(r), opts, vPick(r, []int{0, 1, 3, 6, 9, 130})))
	}
}
