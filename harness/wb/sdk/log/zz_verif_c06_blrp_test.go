package log

// C06 harness: log batch processor.
//   TestVerifC06Sched: controlled schedules (gated recording exporter, export interval 1 h so that only
//     triggers / flushes move data), one API call at a time, wait for quiescence, observe after every op.
//     Line: `sched <gen> <cap> <batch> <buf> | ops… => obs…`
//   TestVerifC06Hist: free-running stress histories with linearizable stamps, judged by the Spec oracle only.
//     Line: `hist <gen> <cap> <batch> <buf> <dropped> | events… => -`
// Every emitted record is changed through every Record setter after Emit returned; the exporter compares
// what it receives with the value at emit time (L7).

import (
	"context"
	"encoding/binary"
	"errors"
	"fmt"
	"runtime"
	"sort"
	"strconv"
	"strings"
	"sync"
	"sync/atomic"
	"testing"
	"time"

	"github.com/go-logr/logr"

	"go.opentelemetry.io/otel"
	"go.opentelemetry.io/otel/internal/global"
	"go.opentelemetry.io/otel/log"
	"go.opentelemetry.io/otel/trace"
)

// ---------------------------------------------------------------- records

func c06Attrs(id int) []log.KeyValue {
	return []log.KeyValue{
		log.Int("id", id), log.String("s", "v"+strconv.Itoa(id)), log.Int("a2", id+2), log.Int("a3", id+3),
		log.Int("a4", id+4), log.Int("a5", id+5), log.Int("a6", id+6), log.Bool("b", id%2 == 0),
	}
}

func c06TraceID(id int) (t trace.TraceID, s trace.SpanID) {
	binary.BigEndian.PutUint64(t[8:], uint64(id)+1)
	binary.BigEndian.PutUint64(s[:], uint64(id)+1)
	return
}

func c06Record(id int) Record {
	r := Record{attributeValueLengthLimit: -1}
	r.SetBody(log.Int64Value(int64(id)))
	r.SetEventName("ev" + strconv.Itoa(id))
	r.SetTimestamp(time.Unix(int64(id), 0))
	r.SetObservedTimestamp(time.Unix(int64(id)+1, 0))
	r.SetSeverity(log.Severity(1 + id%20))
	r.SetSeverityText("sev" + strconv.Itoa(id))
	t, s := c06TraceID(id)
	r.SetTraceID(t)
	r.SetSpanID(s)
	r.SetTraceFlags(trace.FlagsSampled)
	r.SetAttributes(c06Attrs(id)...)
	return r
}

func id0(r *Record) bool { return r.AttributesLen()%2 == 1 }

// c06Scramble changes the caller's record through every setter.
func c06Scramble(r *Record) {
	r.SetBody(log.StringValue("changed"))
	r.SetEventName("changed")
	r.SetTimestamp(time.Unix(7, 7))
	r.SetObservedTimestamp(time.Unix(8, 8))
	r.SetSeverity(log.SeverityFatal4)
	r.SetSeverityText("changed")
	r.SetTraceID(trace.TraceID{0xff})
	r.SetSpanID(trace.SpanID{0xff})
	r.SetTraceFlags(0)
	// overwrite in place: keys held in the inline array and keys held in the `back` slice (shared unless cloned)
	r.AddAttributes(log.Int("a6", -6), log.Bool("b", id0(r)), log.Int("id", -1), log.String("extra", "x"))
	r.SetAttributes(log.Int("id", -2), log.String("s", "changed"), log.Int("a2", -2), log.Int("a3", -3),
		log.Int("a4", -4), log.Int("a5", -5), log.Int("a6", -6), log.Int("a7", -7))
}

// c06Check returns the id of an exported record and whether it still equals the value at emit time.
func c06Check(r *Record) (int, bool) {
	if r.Body().Kind() != log.KindInt64 {
		return -1, false
	}
	id := int(r.Body().AsInt64())
	t, s := c06TraceID(id)
	ok := r.EventName() == "ev"+strconv.Itoa(id) && r.Timestamp().Equal(time.Unix(int64(id), 0)) &&
		r.ObservedTimestamp().Equal(time.Unix(int64(id)+1, 0)) && r.Severity() == log.Severity(1+id%20) &&
		r.SeverityText() == "sev"+strconv.Itoa(id) && r.TraceID() == t && r.SpanID() == s &&
		r.TraceFlags() == trace.FlagsSampled
	want := c06Attrs(id)
	i := 0
	r.WalkAttributes(func(kv log.KeyValue) bool {
		if i >= len(want) || !kv.Equal(want[i]) {
			ok = false
		}
		i++
		return true
	})
	if i != len(want) || r.AttributesLen() != len(want) {
		ok = false
	}
	return id, ok
}

func c06Dot(ids []int) string {
	if len(ids) == 0 {
		return "-"
	}
	ss := make([]string, len(ids))
	for i, v := range ids {
		ss[i] = strconv.Itoa(v)
	}
	return strings.Join(ss, ".")
}

// the package's own tests install global error handlers / loggers that are not meant for concurrent use
func c06Quiet() func() {
	orig := otel.GetErrorHandler()
	otel.SetErrorHandler(otel.ErrorHandlerFunc(func(error) {}))
	return func() { otel.SetErrorHandler(orig) }
}

// ---------------------------------------------------------------- controlled schedules

type c06GateExp struct {
	mu       sync.Mutex
	log      [][]int
	active   int  // exporter calls in progress (must never exceed 1)
	overlaps int  // exporter calls entered while another one was in progress (L3)
	calls    int  // exporter calls so far
	timedOut bool // the context of the latest call has been cancelled (per-export timeout fired); the call goes on
	changed  int
	// outcome of the export in progress (g+ nil, g- error, gc context.Canceled, gd context.DeadlineExceeded): every call
	// has its own one-slot token channel, so handing over a token never blocks the harness (an unbuffered shared gate
	// deadlocked the harness when the call it had just seen `active` had already taken a token and was leaving)
	tok   chan string // token slot of the call in progress (nil: no call)
	given bool        // that call has been given its token (it is leaving)
	auto  bool        // clean-up: every call returns nil at once
	open_ map[chan string]bool // calls in progress that have no token yet (more than one only if the code under test overlaps calls)
}

// open hands `op` to the exporter call in progress. A call that already has its token is leaving: wait (bounded,
// never verdict-deciding: the script's next observation is taken after quiescence anyway) until it has left, so
// that "no call in progress" (token is a no-op, as for the model) and "a new call is waiting" are told apart.
func (e *c06GateExp) open(op string) {
	deadline := time.Now().Add(2 * time.Second)
	for {
		e.mu.Lock()
		if e.active == 0 || e.tok == nil {
			e.mu.Unlock()
			return // nothing to open
		}
		if !e.given {
			e.tok <- op // one-slot buffer, empty: cannot block
			e.given = true
			delete(e.open_, e.tok)
			e.mu.Unlock()
			return
		}
		e.mu.Unlock()
		if time.Now().After(deadline) {
			return
		}
		time.Sleep(50 * time.Microsecond)
	}
}

// release makes the call in progress and every later call return nil at once (clean-up).
func (e *c06GateExp) release() {
	e.mu.Lock()
	e.auto = true
	for t := range e.open_ {
		t <- "g+"
	}
	e.open_ = nil
	e.given = true
	e.mu.Unlock()
}

func (e *c06GateExp) Export(ctx context.Context, recs []Record) error {
	ids := make([]int, len(recs))
	bad := 0
	for i := range recs {
		id, ok := c06Check(&recs[i])
		ids[i] = id
		if !ok {
			bad++
		}
	}
	e.mu.Lock()
	e.log = append(e.log, ids)
	e.changed += bad
	if e.active > 0 {
		e.overlaps++
	}
	e.active++
	e.calls++
	me := e.calls
	e.timedOut = false
	tok := make(chan string, 1)
	e.tok, e.given = tok, false
	if e.auto {
		tok <- "g+"
		e.given = true
	} else {
		if e.open_ == nil {
			e.open_ = map[chan string]bool{}
		}
		e.open_[tok] = true
	}
	e.mu.Unlock()
	// this exporter does NOT honour its context: it stays in the call until the script opens the gate, also after
	// the per-export timeout (timeoutExporter) has cancelled the context; it only records that it saw the cancellation
	done := ctx.Done()
	var res string
	for waiting := true; waiting; {
		select {
		case res = <-tok:
			waiting = false
		case <-done:
			done = nil
			e.mu.Lock()
			if e.calls == me {
				e.timedOut = true
			}
			e.mu.Unlock()
		}
	}
	e.mu.Lock()
	e.active--
	if e.tok == tok {
		e.tok = nil
	}
	e.mu.Unlock()
	return c06ExportErr(res)
}

// c06ExportErr maps a scripted outcome to the exporter's result. The context errors are what an exporter returns
// when the per-chunk deadline set by timeoutExporter expires or its context is cancelled: the processor must go on
// with the remaining chunks all the same (each chunk gets a fresh deadline).
func c06ExportErr(res string) error {
	switch res {
	case "g-":
		return errors.New("scripted export error")
	case "gc":
		return context.Canceled
	case "gd":
		return fmt.Errorf("scripted exporter: %w", context.DeadlineExceeded)
	}
	return nil
}
func (e *c06GateExp) Shutdown(context.Context) error   { return nil }
func (e *c06GateExp) ForceFlush(context.Context) error { return nil }

// c06ArmPark is set by the verif-tagged harness file (hooks in /repo, build tag verif): it arms a one-shot park
// at the named verifPoint and returns the channel that releases the parked goroutine.
var c06ArmPark func(name string) chan struct{}

type c06Run struct {
	parked  map[string]chan struct{}
	bp      *BatchProcessor
	exp     *c06GateExp
	mu      sync.Mutex
	ended   map[int]bool
	ffRes   map[int]string
	ffStop  map[int]context.CancelFunc // ForceFlush contexts (op `c<fid>` cancels)
	sdRes   map[int]string
	lastQ   int
	pending sync.WaitGroup
}

func c06Status(m map[int]string) string {
	ks := []int{}
	for k := range m {
		ks = append(ks, k)
	}
	sort.Ints(ks)
	if len(ks) == 0 {
		return "-"
	}
	ss := make([]string, len(ks))
	for i, k := range ks {
		ss[i] = fmt.Sprintf("%d:%s", k, m[k])
	}
	return strings.Join(ss, ",")
}

func (r *c06Run) obs() string {
	r.exp.mu.Lock()
	bs := make([]string, len(r.exp.log))
	for i, b := range r.exp.log {
		bs[i] = c06Dot(b)
	}
	inx := 0
	if r.exp.active > 0 {
		inx = 1
	}
	changed := r.exp.changed
	overlaps := r.exp.overlaps
	r.exp.mu.Unlock()
	l := "-"
	if len(bs) > 0 {
		l = strings.Join(bs, "/")
	}
	// the queue lock may be held for a long time by a TryDequeue whose callback waits for inputMu
	if r.bp.q.TryLock() {
		r.lastQ = r.bp.q.len
		r.bp.q.Unlock()
	}
	r.mu.Lock()
	f := c06Status(r.ffRes)
	s := c06Status(r.sdRes)
	ended := []int{}
	for id := range r.ended {
		ended = append(ended, id)
	}
	r.mu.Unlock()
	sort.Ints(ended)
	return fmt.Sprintf("L=%s;X=%d;F=%s;S=%s;D=%d;Q=%d;E=%s;M=%d;O=%d", l, inx, f, s, r.bp.q.dropped.Load(), r.lastQ, c06Dot(ended), changed, overlaps)
}

func (r *c06Run) settle(win time.Duration) string {
	last := r.obs()
	stableSince := time.Now()
	deadline := time.Now().Add(2 * time.Second)
	for time.Now().Before(deadline) {
		time.Sleep(win / 8)
		runtime.Gosched()
		cur := r.obs()
		if cur != last {
			last = cur
			stableSince = time.Now()
			continue
		}
		if time.Since(stableSince) >= win {
			return cur
		}
	}
	return last
}

func c06Res(err error) string {
	if err == nil {
		return "o"
	}
	return "e"
}

// c06RunSched returns the effective configuration and one observation per op.
func c06RunSched(capQ, batch, buf int, ops []string, win time.Duration) (cfg [3]int, out []string) {
	exp := &c06GateExp{}
	// scripts with a `t` op (wait until the per-export timeout has fired) run with a short export timeout
	expTimeout := time.Hour
	for _, op := range ops {
		if op == "t" {
			expTimeout = 15 * time.Millisecond
		}
	}
	bp := NewBatchProcessor(exp, WithMaxQueueSize(capQ), WithExportMaxBatchSize(batch), WithExportBufferSize(buf),
		WithExportInterval(time.Hour), WithExportTimeout(expTimeout))
	cfg = [3]int{bp.q.cap, bp.batchSize, cap(bp.exporter.input)}
	r := &c06Run{bp: bp, exp: exp, ended: map[int]bool{}, ffRes: map[int]string{}, ffStop: map[int]context.CancelFunc{}, sdRes: map[int]string{}, parked: map[string]chan struct{}{}}
	for _, op := range ops {
		parkedOp := false
		// forced schedules: `p?` arms a park at a hook and starts the call, `r?` releases it
		if len(op) >= 2 && (op[0] == 'p' || op[0] == 'r') {
			key := op[1:]
			if op == "rs" {
				key = "s"
			}
			if op[0] == 'r' {
				if ch, ok := r.parked[key]; ok {
					close(ch)
					delete(r.parked, key)
				}
				out = append(out, r.settle(win))
				continue
			}
			if c06ArmPark == nil {
				panic("forced schedule without the verif build tag")
			}
			switch op[1] {
			case 'e':
				r.parked[key] = c06ArmPark("blrp.OnEmit.checked")
			case 'f':
				r.parked[key] = c06ArmPark("blrp.ForceFlush.checked")
			case 's':
				r.parked["s"] = c06ArmPark("blrp.bufferExporter.Export.enter")
			}
			op = op[1:]
			parkedOp = true
		}
		switch {
		case op == "g+" || op == "g-" || op == "gc" || op == "gd":
			exp.open(op)
		case op == "t":
			// wait until the exporter call in progress has seen its context cancelled by the export timeout (observed,
			// not slept for); the call itself goes on. No call in progress: nothing to wait for.
			deadline := time.Now().Add(3 * time.Second) // never decides a verdict: `t` is a no-op for the model
			for {
				exp.mu.Lock()
				in, fired := exp.active > 0, exp.timedOut
				exp.mu.Unlock()
				if !in || fired || time.Now().After(deadline) {
					break
				}
				time.Sleep(500 * time.Microsecond)
			}
		case op[0] == 's':
			k, _ := strconv.Atoi(op[1:])
			r.mu.Lock()
			_, dup := r.sdRes[k]
			if !dup {
				r.sdRes[k] = "p"
			}
			r.mu.Unlock()
			if !dup {
				r.pending.Add(1)
				go func() {
					defer r.pending.Done()
					e := c06Res(bp.Shutdown(context.Background()))
					r.mu.Lock()
					r.sdRes[k] = e
					r.mu.Unlock()
				}()
			}
		case op[0] == 'e':
			id, _ := strconv.Atoi(op[1:])
			r.pending.Add(1)
			emitDone := make(chan struct{})
			go func() {
				defer r.pending.Done()
				defer close(emitDone)
				stoppedBefore := bp.stopped.Load()
				rec := c06Record(id)
				_ = bp.OnEmit(context.Background(), &rec)
				c06Scramble(&rec)
				if !stoppedBefore {
					r.mu.Lock()
					r.ended[id] = true
					r.mu.Unlock()
				}
			}()
			if !parkedOp {
				// OnEmit never blocks: wait for the call itself instead of inferring its end from a quiescence window
				// (on a loaded machine the goroutine may not even have started within the window, and the next
				// emit of the script would overtake it)
				select {
				case <-emitDone:
				case <-time.After(5 * time.Second):
				}
			}
		case op[0] == 'f':
			fid, _ := strconv.Atoi(op[1:])
			r.mu.Lock()
			_, dup := r.ffRes[fid]
			if !dup {
				r.ffRes[fid] = "p"
			}
			r.mu.Unlock()
			if !dup {
				r.pending.Add(1)
				ctx, cancel := context.WithCancel(context.Background())
				r.mu.Lock()
				r.ffStop[fid] = cancel
				r.mu.Unlock()
				go func() {
					defer r.pending.Done()
					defer cancel()
					e := c06Res(bp.ForceFlush(ctx))
					r.mu.Lock()
					r.ffRes[fid] = e
					r.mu.Unlock()
				}()
			}
		case op[0] == 'c':
			// the context of ForceFlush <fid> expires (while its request / marker waits behind the gated exporter)
			fid, _ := strconv.Atoi(op[1:])
			r.mu.Lock()
			cancel := r.ffStop[fid]
			r.mu.Unlock()
			if cancel != nil {
				cancel()
			}
		}
		out = append(out, r.settle(win))
	}
	// clean up: release every parked goroutine and every blocked exporter call, shut down, wait for our goroutines
	for k, ch := range r.parked {
		close(ch)
		delete(r.parked, k)
	}
	if c06ArmPark != nil {
		c06ArmPark("") // disarm whatever is still armed
	}
	exp.release()
	fin := make(chan struct{})
	go func() {
		_ = bp.Shutdown(context.Background())
		r.pending.Wait()
		// a Shutdown that lost the swap returns at once: wait for the exportSync goroutine of the winner
		select {
		case <-bp.exporter.done:
		case <-time.After(5 * time.Second):
		}
		close(fin)
	}()
	select {
	case <-fin:
	case <-time.After(10 * time.Second):
		out = append(out, "CLEANUP-TIMEOUT")
	}
	return cfg, out
}

// c06GenOps generates a script; most scripts keep at most one ForceFlush outstanding (the driver recognises
// and skips the comparison of the ones in which goroutines of the processor compete).
func c06GenOps(r *vRand, n int) []string {
	ops := []string{}
	nextID, nextF, nextS := 1, 1, 1
	bad := func() string { return []string{"g-", "g-", "gc", "gd"}[r.Intn(4)] }
	gates := func(k int, sdAt int) {
		for j := 0; j < k; j++ {
			if j == sdAt {
				ops = append(ops, "s"+strconv.Itoa(nextS))
				nextS++
			}
			if r.Intn(7) == 0 {
				ops = append(ops, bad())
			} else {
				ops = append(ops, "g+")
			}
		}
	}
	for i := 0; i < n; i++ {
		switch k := r.Intn(24); {
		case k < 11:
			ops = append(ops, "e"+strconv.Itoa(nextID))
			nextID++
		case k < 15:
			ops = append(ops, "g+")
		case k < 16:
			if r.Intn(3) == 0 {
				ops = append(ops, "t")
			} else {
				ops = append(ops, "g+")
			}
		case k < 17:
			ops = append(ops, bad())
		case k < 21:
			ops = append(ops, "f"+strconv.Itoa(nextF))
			nextF++
			sdAt := -1
			if r.Intn(4) == 0 {
				sdAt = r.Intn(6)
			}
			gates(2+r.Intn(7), sdAt)
		case k < 23:
			ops = append(ops, "s"+strconv.Itoa(nextS))
			nextS++
			if r.Intn(3) == 0 { // a second Shutdown / a ForceFlush while the first is in progress
				if r.Bool() {
					ops = append(ops, "s"+strconv.Itoa(nextS))
					nextS++
				} else {
					ops = append(ops, "f"+strconv.Itoa(nextF))
					nextF++
				}
			}
			gates(r.Intn(6), -1)
		default:
			// burst: overflow the queue
			for j := 0; j < 3+r.Intn(5); j++ {
				ops = append(ops, "e"+strconv.Itoa(nextID))
				nextID++
			}
		}
	}
	return ops
}

// c06GenFFTimeout: ForceFlush calls whose context expires while their records / marker are still queued behind the
// gated (busy) exporter, followed by further emits and flushes (one of them may expire too), then the exporter
// recovers. Export buffer sizes 1..3.
func c06GenFFTimeout(r *vRand, capQ, batch, buf int) []string {
	ops := []string{}
	id, f := 1, 1
	emit := func(n int) {
		for ; n > 0; n-- {
			ops = append(ops, "e"+strconv.Itoa(id))
			id++
		}
	}
	emit(batch) // first batch: inside the gated exporter
	if r.Bool() {
		emit(batch * (1 + r.Intn(buf))) // some batches buffered behind it
	}
	rounds := 2 + r.Intn(2)
	for j := 0; j < rounds; j++ {
		emit(1 + r.Intn(2))
		ops = append(ops, "f"+strconv.Itoa(f))
		if j < rounds-1 || r.Intn(3) == 0 {
			ops = append(ops, "c"+strconv.Itoa(f))
		}
		f++
	}
	if r.Intn(4) == 0 {
		ops = append(ops, "s1")
	}
	for j := 0; j < id+4; j++ {
		if r.Intn(8) == 0 {
			ops = append(ops, []string{"g-", "gc", "gd"}[r.Intn(3)])
		} else {
			ops = append(ops, "g+")
		}
	}
	if r.Intn(3) == 0 {
		ops = append(ops, "f"+strconv.Itoa(f), "g+", "g+")
	}
	return ops
}

// c06GenBacklog builds a backlog of more than two batches behind a gated exporter and a full export buffer, then
// drains it at once with Shutdown (deterministic: the poll goroutine is stopped first, the flushed slice is one
// request of several chunks) or ForceFlush (its request has several chunks whichever of poll loop / ForceFlush
// dequeues first), and lets chunks fail in every way, context errors included.
func c06GenBacklog(r *vRand, capQ, batch, buf int) []string {
	ops := []string{}
	id := 1
	n := batch*(1+buf) + capQ // first batch in the exporter, `buf` batches buffered, the queue full
	if r.Intn(3) == 0 {
		n += 1 + r.Intn(3) // and overflowing
	}
	for ; id <= n; id++ {
		ops = append(ops, "e"+strconv.Itoa(id))
	}
	if r.Intn(3) == 0 {
		ops = append(ops, "f1")
	} else {
		ops = append(ops, "s1")
	}
	for j := 0; j < n+3; j++ {
		switch r.Intn(4) {
		case 0:
			ops = append(ops, []string{"g-", "gc", "gd", "gd"}[r.Intn(4)])
		default:
			ops = append(ops, "g+")
		}
	}
	if ops[len(ops)-n-3+buf+1] == "g+" { // make sure an early chunk of the big request fails with a context error
		ops[len(ops)-n-3+buf+1] = []string{"gc", "gd"}[r.Intn(2)]
	}
	return ops
}

// c06GenTimeout: the exporter ignores its deadline. An export is in progress with more work pending (buffered
// batches, queued records, a ForceFlush or a Shutdown); the per-export timeout fires (`t`: observed inside the
// exporter); nothing may move until the gate opens: no second Export call, no Shutdown return.
func c06GenTimeout(r *vRand, capQ, batch, buf int) []string {
	ops := []string{}
	id := 1
	emit := func(k int) {
		for j := 0; j < k; j++ {
			ops = append(ops, "e"+strconv.Itoa(id))
			id++
		}
	}
	emit(batch * (1 + r.Intn(buf+2)))
	ops = append(ops, "t")
	switch r.Intn(4) {
	case 0:
		ops = append(ops, "s1", "t")
	case 1:
		ops = append(ops, "f1", "t")
	case 2:
		emit(1 + r.Intn(capQ))
		ops = append(ops, "t", "s1")
	default:
		emit(1 + r.Intn(capQ))
	}
	for j := 0; j < 3+r.Intn(6); j++ {
		ops = append(ops, []string{"g+", "g+", "g+", "t", "g-", "gd"}[r.Intn(6)])
		if r.Intn(3) == 0 {
			ops = append(ops, "t")
		}
	}
	return ops
}

func TestVerifC06Sched(t *testing.T) {
	out := vOpen(t)
	defer out.Close()
	defer c06Quiet()()
	type job struct {
		gen             string
		capQ, batch, bf int
		ops             []string
	}
	jobs := []job{}
	if rp := vReplayLines(); rp != nil {
		for _, f := range rp {
			if f[0] != "sched" || len(f) < 7 {
				continue
			}
			c, _ := strconv.Atoi(f[2])
			b, _ := strconv.Atoi(f[3])
			u, _ := strconv.Atoi(f[4])
			jobs = append(jobs, job{f[1], c, b, u, f[6:]})
		}
	} else {
		r := &vRand{s: vSeed()}
		n := vN(300)
		for i := 0; i < n; i++ {
			if i%5 == 4 {
				c, b, u := 4+r.Intn(3), 1+r.Intn(2), 1+r.Intn(3)
				jobs = append(jobs, job{"backlog", c, b, u, c06GenBacklog(r, c, b, u)})
				continue
			}
			if i%10 == 7 {
				c, b, u := 3+r.Intn(3), 1+r.Intn(2), 1+r.Intn(2)
				jobs = append(jobs, job{"timeout", c, b, u, c06GenTimeout(r, c, b, u)})
				continue
			}
			if i%10 == 2 {
				c, b, u := 3+r.Intn(4), 1+r.Intn(2), 1+r.Intn(3)
				jobs = append(jobs, job{"fftimeout", c, b, u, c06GenFFTimeout(r, c, b, u)})
				continue
			}
			jobs = append(jobs, job{"rnd", 1 + r.Intn(5), 1 + r.Intn(4), 1 + r.Intn(3), c06GenOps(r, 3+r.Intn(12))})
		}
	}
	type resT struct {
		cfg [3]int
		obs []string
	}
	results := make([]resT, len(jobs))
	sem := make(chan struct{}, runtime.GOMAXPROCS(0))
	var wg sync.WaitGroup
	for i := range jobs {
		wg.Add(1)
		sem <- struct{}{}
		go func(i int) {
			defer wg.Done()
			defer func() { <-sem }()
			j := jobs[i]
			cfg, a := c06RunSched(j.capQ, j.batch, j.bf, j.ops, 3*time.Millisecond)
			_, b := c06RunSched(j.capQ, j.batch, j.bf, j.ops, 3*time.Millisecond)
			if strings.Join(a, " ") != strings.Join(b, " ") {
				// the timing judgement differed between two runs: take a much longer quiescence window
				_, a = c06RunSched(j.capQ, j.batch, j.bf, j.ops, 40*time.Millisecond)
			}
			results[i] = resT{cfg, a}
		}(i)
	}
	wg.Wait()
	for i, j := range jobs {
		c := results[i].cfg
		out.Line("sched %s %d %d %d | %s => %s", j.gen, c[0], c[1], c[2], strings.Join(j.ops, " "), strings.Join(results[i].obs, " "))
	}
}

// ---------------------------------------------------------------- free-running stress histories

type c06Ev struct {
	seq uint64
	s   string
}

type c06HistExp struct {
	seq    atomic.Uint64
	mu     sync.Mutex
	evs    []c06Ev
	r      *vRand
	rmu    sync.Mutex
	failEv int
}

func (e *c06HistExp) stamp(s string) {
	q := e.seq.Add(1)
	e.mu.Lock()
	e.evs = append(e.evs, c06Ev{q, s})
	e.mu.Unlock()
}

func (e *c06HistExp) Export(ctx context.Context, recs []Record) error {
	ids := make([]int, len(recs))
	bad := false
	for i := range recs {
		id, ok := c06Check(&recs[i])
		ids[i] = id
		if !ok {
			bad = true
		}
	}
	e.stamp("XS:" + c06Dot(ids))
	if bad {
		e.stamp("XM")
	}
	e.rmu.Lock()
	d := e.r.Intn(4)
	fail := e.failEv > 0 && e.r.Intn(e.failEv) == 0
	kind := []string{"g-", "gc", "gd"}[e.r.Intn(3)]
	e.rmu.Unlock()
	if d == 0 {
		time.Sleep(time.Duration(50+e.r.Intn(200)) * time.Microsecond)
	} else {
		runtime.Gosched()
	}
	e.stamp("XE")
	if fail {
		return c06ExportErr(kind)
	}
	return nil
}
func (e *c06HistExp) Shutdown(context.Context) error   { return nil }
func (e *c06HistExp) ForceFlush(context.Context) error { return nil }

// c06Sink receives the SDK's internal log; it sums the "dropped log records" warnings of the poll goroutine.
type c06Sink struct{ dropped *atomic.Uint64 }

func (s c06Sink) Init(logr.RuntimeInfo)  {}
func (s c06Sink) Enabled(level int) bool { return true }
func (s c06Sink) Info(level int, msg string, kv ...any) {
	if msg != "dropped log records" {
		return
	}
	for i := 0; i+1 < len(kv); i += 2 {
		if k, ok := kv[i].(string); ok && k == "dropped" {
			if d, ok := kv[i+1].(uint64); ok {
				s.dropped.Add(d)
			}
		}
	}
}
func (s c06Sink) Error(error, string, ...any)    {}
func (s c06Sink) WithValues(...any) logr.LogSink { return s }
func (s c06Sink) WithName(string) logr.LogSink   { return s }

func c06OneHist(seed uint64, warned *atomic.Uint64) string {
	r := &vRand{s: seed}
	capQ := 1 + r.Intn(8)
	batch := 1 + r.Intn(4)
	buf := 1 + r.Intn(3)
	exp := &c06HistExp{r: &vRand{s: seed ^ 0xabcdef}, failEv: []int{0, 0, 3, 7}[r.Intn(4)]}
	iv := []time.Duration{time.Hour, 200 * time.Microsecond, time.Millisecond}[r.Intn(3)]
	warned.Store(0)
	// in a third of the histories the export timeout is shorter than the exporter's latency; the exporter ignores it
	expTimeout := []time.Duration{time.Hour, time.Hour, 30 * time.Microsecond}[(&vRand{s: seed ^ 0x7157}).Intn(3)]
	bp := NewBatchProcessor(exp, WithMaxQueueSize(capQ), WithExportMaxBatchSize(batch), WithExportBufferSize(buf),
		WithExportInterval(iv), WithExportTimeout(expTimeout))
	prov := NewLoggerProvider(WithProcessor(bp))
	lg := prov.Logger("c06")
	nprod := 1 + r.Intn(5)
	perProd := 2 + r.Intn(14)
	nff := r.Intn(4)
	nsd := []int{0, 1, 1, 1, 2}[r.Intn(5)]
	var wg sync.WaitGroup
	for p := 0; p < nprod; p++ {
		wg.Add(1)
		pr := &vRand{s: seed + uint64(p)*7919}
		go func(p int) {
			defer wg.Done()
			for k := 0; k < perProd; k++ {
				id := p*1000 + k
				stoppedBefore := bp.stopped.Load()
				if p%2 == 0 {
					rec := c06Record(id)
					_ = bp.OnEmit(context.Background(), &rec)
					c06Scramble(&rec)
				} else {
					// through the Logger: the API record is converted, then handed to OnEmit
					var ar log.Record
					ar.SetBody(log.Int64Value(int64(id)))
					ar.SetEventName("ev" + strconv.Itoa(id))
					ar.SetTimestamp(time.Unix(int64(id), 0))
					ar.SetObservedTimestamp(time.Unix(int64(id)+1, 0))
					ar.SetSeverity(log.Severity(1 + id%20))
					ar.SetSeverityText("sev" + strconv.Itoa(id))
					ar.AddAttributes(c06Attrs(id)...)
					t, s := c06TraceID(id)
					sc := trace.NewSpanContext(trace.SpanContextConfig{TraceID: t, SpanID: s, TraceFlags: trace.FlagsSampled})
					lg.Emit(trace.ContextWithSpanContext(context.Background(), sc), ar)
					ar.SetBody(log.StringValue("changed"))
					ar.SetSeverityText("changed")
					ar.AddAttributes(log.Int("late", 1))
				}
				// accepted for sure only if the processor is still not stopped after Emit returned; if a Shutdown
				// started during the call the record may have been accepted or refused ("A": may be exported,
				// need not be)
				if !bp.stopped.Load() {
					exp.stamp("E" + strconv.Itoa(id))
				} else if !stoppedBefore {
					exp.stamp("A" + strconv.Itoa(id))
				}
				if pr.Intn(3) == 0 {
					runtime.Gosched()
				}
				if pr.Intn(9) == 0 {
					time.Sleep(time.Duration(pr.Intn(150)) * time.Microsecond)
				}
			}
		}(p)
	}
	for f := 0; f < nff; f++ {
		wg.Add(1)
		fr := &vRand{s: seed + uint64(f)*104729}
		go func(f int) {
			defer wg.Done()
			time.Sleep(time.Duration(fr.Intn(500)) * time.Microsecond)
			exp.stamp("FC" + strconv.Itoa(f))
			if bp.ForceFlush(context.Background()) == nil {
				exp.stamp("FR" + strconv.Itoa(f) + "+")
			} else {
				exp.stamp("FR" + strconv.Itoa(f) + "-")
			}
		}(f)
	}
	for k := 0; k < nsd; k++ {
		wg.Add(1)
		sr := &vRand{s: seed + uint64(k)*15485863}
		go func(k int) {
			defer wg.Done()
			time.Sleep(time.Duration(sr.Intn(700)) * time.Microsecond)
			exp.stamp("SC" + strconv.Itoa(k))
			if bp.Shutdown(context.Background()) == nil {
				exp.stamp("SR" + strconv.Itoa(k) + "+")
			} else {
				exp.stamp("SR" + strconv.Itoa(k) + "-")
			}
		}(k)
	}
	wg.Wait()
	if nsd == 0 {
		exp.stamp("FC99")
		if bp.ForceFlush(context.Background()) == nil {
			exp.stamp("FR99+")
		} else {
			exp.stamp("FR99-")
		}
	}
	exp.stamp("SC9")
	if bp.Shutdown(context.Background()) == nil {
		exp.stamp("SR9+")
	} else {
		exp.stamp("SR9-")
	}
	select {
	case <-bp.exporter.done:
	case <-time.After(5 * time.Second):
	}
	time.Sleep(200 * time.Microsecond)
	exp.mu.Lock()
	evs := append([]c06Ev{}, exp.evs...)
	exp.mu.Unlock()
	sort.Slice(evs, func(i, j int) bool { return evs[i].seq < evs[j].seq })
	ss := make([]string, len(evs))
	for i, e := range evs {
		ss[i] = e.s
	}
	dropped := warned.Load() + bp.q.dropped.Load()
	return fmt.Sprintf("hist stress %d %d %d %d | %s => -", bp.q.cap, bp.batchSize, cap(bp.exporter.input), dropped, strings.Join(ss, " "))
}

func TestVerifC06Hist(t *testing.T) {
	out := vOpen(t)
	defer out.Close()
	defer c06Quiet()()
	if vReplayLines() != nil {
		return // free-running histories cannot be re-executed; the replay file holds the history itself
	}
	orig := global.GetLogger()
	var warned atomic.Uint64
	global.SetLogger(logr.New(c06Sink{&warned}))
	defer global.SetLogger(orig)
	n := vN(300)
	seed := vSeed()
	// one history at a time: the dropped-records warning carries no processor identity
	for i := 0; i < n; i++ {
		out.Line("%s", c06OneHist(seed*1000003+uint64(i), &warned))
	}
}
