package log

import (
	"context"
	"encoding/hex"
	"fmt"
	"math"
	"strconv"
	"strings"
	"testing"

	"go.opentelemetry.io/otel/log"
	"go.opentelemetry.io/otel/sdk/resource"
)

// C17 correspondence harness (white-box, package log = sdk/log). One script per trace line:
//
//	rec <gen> <cl> <ll> <op> <attr>* | <op> <attr>* | … => <dump> | <dump> | …
//
// op = set | add | emit (first op only: Logger.Emit -> logger.newRecord, the rest of the script then runs
// inside Processor.OnEmit on the record handed to the processor) | clone | cset | cadd (on the clone).
// attr = <key hex>:<atoms,…> in prefix notation (see lean/Otel/C17/Main.lean).
// dump = AttributesLen DroppedAttributes attrs-in-WalkAttributes-order [& the same for the clone].
//
// applyValueLimits rewrites the nested slice/map backing arrays of the caller's values in place: the
// values handed to the implementation are built freshly from a pristine tree (c17v) for every call and the
// inputs are printed from that tree.

type c17v struct {
	kind byte // e b i d s y L M
	b    bool
	i    int64
	f    uint64
	s    string
	l    []c17v
	m    []c17kv
}
type c17kv struct {
	k string
	v c17v
}
type c17op struct {
	kind  string
	attrs []c17kv
}

func (v c17v) build() log.Value {
	switch v.kind {
	case 'b':
		return log.BoolValue(v.b)
	case 'i':
		return log.Int64Value(v.i)
	case 'd':
		return log.Float64Value(math.Float64frombits(v.f))
	case 's':
		return log.StringValue(v.s)
	case 'y':
		return log.BytesValue([]byte(v.s))
	case 'L':
		out := make([]log.Value, 0, len(v.l))
		for _, e := range v.l {
			out = append(out, e.build())
		}
		return log.SliceValue(out...)
	case 'M':
		return log.MapValue(c17build(v.m)...)
	}
	return log.Value{}
}

func c17build(kvs []c17kv) []log.KeyValue {
	out := make([]log.KeyValue, 0, len(kvs))
	for _, kv := range kvs {
		out = append(out, log.KeyValue{Key: kv.k, Value: kv.v.build()})
	}
	return out
}

func (v c17v) atoms(sb *strings.Builder) {
	switch v.kind {
	case 'b':
		if v.b {
			sb.WriteString("b1")
		} else {
			sb.WriteString("b0")
		}
	case 'i':
		fmt.Fprintf(sb, "i%d", v.i)
	case 'd':
		fmt.Fprintf(sb, "d%016x", v.f)
	case 's':
		sb.WriteString("s" + hex.EncodeToString([]byte(v.s)))
	case 'y':
		sb.WriteString("y" + hex.EncodeToString([]byte(v.s)))
	case 'L':
		fmt.Fprintf(sb, "L%d", len(v.l))
		for _, e := range v.l {
			sb.WriteByte(',')
			e.atoms(sb)
		}
	case 'M':
		fmt.Fprintf(sb, "M%d", len(v.m))
		for _, kv := range v.m {
			sb.WriteString(",k" + hex.EncodeToString([]byte(kv.k)) + ",")
			kv.v.atoms(sb)
		}
	default:
		sb.WriteString("e")
	}
}

func c17attrTok(kv c17kv) string {
	var sb strings.Builder
	sb.WriteString(hex.EncodeToString([]byte(kv.k)) + ":")
	kv.v.atoms(&sb)
	return sb.String()
}

// observed value -> pristine tree (so that the same printer is used for both directions)
func c17fromValue(v log.Value) c17v {
	switch v.Kind() {
	case log.KindBool:
		return c17v{kind: 'b', b: v.AsBool()}
	case log.KindInt64:
		return c17v{kind: 'i', i: v.AsInt64()}
	case log.KindFloat64:
		return c17v{kind: 'd', f: math.Float64bits(v.AsFloat64())}
	case log.KindString:
		return c17v{kind: 's', s: v.AsString()}
	case log.KindBytes:
		return c17v{kind: 'y', s: string(v.AsBytes())}
	case log.KindSlice:
		out := c17v{kind: 'L'}
		for _, e := range v.AsSlice() {
			out.l = append(out.l, c17fromValue(e))
		}
		return out
	case log.KindMap:
		out := c17v{kind: 'M'}
		for _, kv := range v.AsMap() {
			out.m = append(out.m, c17kv{kv.Key, c17fromValue(kv.Value)})
		}
		return out
	}
	return c17v{kind: 'e'}
}

func c17dump(r *Record) string {
	var sb strings.Builder
	fmt.Fprintf(&sb, "%d %d", r.AttributesLen(), r.DroppedAttributes())
	r.WalkAttributes(func(kv log.KeyValue) bool {
		sb.WriteByte(' ')
		sb.WriteString(c17attrTok(c17kv{kv.Key, c17fromValue(kv.Value)}))
		return true
	})
	return sb.String()
}

type c17proc struct{ fn func(*Record) }

func (p *c17proc) OnEmit(_ context.Context, r *Record) error { p.fn(r); return nil }
func (p *c17proc) Shutdown(context.Context) error           { return nil }
func (p *c17proc) ForceFlush(context.Context) error         { return nil }

// c17run executes one script on the real code and returns the trace line.
func c17run(gen string, cl, ll int, ops []c17op) string {
	var in, dumps []string
	for _, op := range ops {
		s := op.kind
		for _, a := range op.attrs {
			s += " " + c17attrTok(a)
		}
		in = append(in, s)
	}
	var clone *Record
	rest := func(rec *Record, ops []c17op) {
		for _, op := range ops {
			switch op.kind {
			case "set":
				rec.SetAttributes(c17build(op.attrs)...)
			case "add":
				rec.AddAttributes(c17build(op.attrs)...)
			case "clone":
				c := rec.Clone()
				clone = &c
			case "cset":
				clone.SetAttributes(c17build(op.attrs)...)
			case "cadd":
				clone.AddAttributes(c17build(op.attrs)...)
			}
			d := c17dump(rec)
			if clone != nil {
				d += " & " + c17dump(clone)
			}
			dumps = append(dumps, d)
		}
	}
	if len(ops) > 0 && ops[0].kind == "emit" {
		ctx := context.Background()
		p := &c17proc{fn: func(rec *Record) {
			dumps = append(dumps, c17dump(rec))
			rest(rec, ops[1:])
		}}
		lp := NewLoggerProvider(WithResource(resource.Empty()), WithProcessor(p),
			WithAttributeCountLimit(cl), WithAttributeValueLengthLimit(ll))
		var ar log.Record
		ar.AddAttributes(c17build(ops[0].attrs)...)
		lp.Logger("verif").Emit(ctx, ar)
		_ = lp.Shutdown(ctx)
	} else {
		rest(&Record{attributeCountLimit: cl, attributeValueLengthLimit: ll}, ops)
	}
	return fmt.Sprintf("rec %s %d %d %s => %s", gen, cl, ll, strings.Join(in, " | "), strings.Join(dumps, " | "))
}

// ---- replay: parse the input part of a line back into a script

func c17parseVal(atoms []string) (c17v, []string) {
	if len(atoms) == 0 {
		panic("c17: short value")
	}
	a, restA := atoms[0], atoms[1:]
	unhex := func(s string) string {
		b, err := hex.DecodeString(s)
		if err != nil {
			panic("c17: bad hex " + s)
		}
		return string(b)
	}
	switch a[0] {
	case 'e':
		return c17v{kind: 'e'}, restA
	case 'b':
		return c17v{kind: 'b', b: a == "b1"}, restA
	case 'i':
		n, _ := strconv.ParseInt(a[1:], 10, 64)
		return c17v{kind: 'i', i: n}, restA
	case 'd':
		n, _ := strconv.ParseUint(a[1:], 16, 64)
		return c17v{kind: 'd', f: n}, restA
	case 's', 'y':
		return c17v{kind: a[0], s: unhex(a[1:])}, restA
	case 'L':
		n, _ := strconv.Atoi(a[1:])
		out := c17v{kind: 'L'}
		for i := 0; i < n; i++ {
			var e c17v
			e, restA = c17parseVal(restA)
			out.l = append(out.l, e)
		}
		return out, restA
	case 'M':
		n, _ := strconv.Atoi(a[1:])
		out := c17v{kind: 'M'}
		for i := 0; i < n; i++ {
			k := unhex(restA[0][1:])
			var e c17v
			e, restA = c17parseVal(restA[1:])
			out.m = append(out.m, c17kv{k, e})
		}
		return out, restA
	}
	panic("c17: bad atom " + a)
}

func c17parseLine(f []string) (gen string, cl, ll int, ops []c17op) {
	gen = f[1]
	cl, _ = strconv.Atoi(f[2])
	ll, _ = strconv.Atoi(f[3])
	cur := -1
	for _, tok := range f[4:] {
		switch {
		case tok == "|":
			cur = -1
		case cur < 0:
			ops = append(ops, c17op{kind: tok})
			cur = len(ops) - 1
		default:
			i := strings.IndexByte(tok, ':')
			kb, err := hex.DecodeString(tok[:i])
			if err != nil {
				panic("c17: bad key hex " + tok)
			}
			v, _ := c17parseVal(strings.Split(tok[i+1:], ","))
			ops[cur].attrs = append(ops[cur].attrs, c17kv{string(kb), v})
		}
	}
	return
}

// ---- generators

var c17strs = []string{"", "x", "ab", "abc", "abcd", "hello world", "h\xc5\xa1llo", "š€", "€€€€",
	"\xef\xbf\xbd\xef\xbf\xbdz", "\xef\xbf\xbd\xef\xbf\xbd\xef\xbf\xbd\xef\xbf\xbd", "\xffab", "\xff", "a\xffb\xffc\xffd",
	"\U0001F600\U0001F600x", "\xc5", "ab\xe2\x82", "\xf0\x9f\x98abc"}
var c17floats = []uint64{0, 0x8000000000000000, 0x3ff8000000000000, 0x7ff8000000000000, 0x7ff0000000000000, 0xfff0000000000000}
var c17keys = []string{"a", "b", "c", "d", "e", "f", "g", "h", "i", "j", "", "\xff", "š"}

func c17genVal(r *vRand, depth int) c17v {
	k := r.Intn(16)
	switch {
	case k == 0:
		return c17v{kind: 'e'}
	case k == 1:
		return c17v{kind: 'b', b: r.Bool()}
	case k == 2:
		return c17v{kind: 'i', i: int64(r.Intn(7)) - 3}
	case k == 3:
		return c17v{kind: 'd', f: vPick(r, c17floats)}
	case k == 4:
		return c17v{kind: 'y', s: vStr(r, 3)}
	case k <= 7 && depth > 0:
		out := c17v{kind: 'L'}
		for n := r.Intn(4); n > 0; n-- {
			out.l = append(out.l, c17genVal(r, depth-1))
		}
		return out
	case k <= 10 && depth > 0:
		out := c17v{kind: 'M'}
		for n := r.Intn(5); n > 0; n-- {
			out.m = append(out.m, c17kv{c17keys[r.Intn(3)], c17genVal(r, depth-1)})
		}
		return out
	case k == 11:
		return c17v{kind: 's', s: vStr(r, 6)}
	}
	return c17v{kind: 's', s: vPick(r, c17strs)}
}

func c17genAttrs(r *vRand, nkeys, max int) []c17kv {
	var out []c17kv
	for n := r.Intn(max + 1); n > 0; n-- {
		out = append(out, c17kv{c17keys[r.Intn(nkeys)], c17genVal(r, 3)})
	}
	return out
}

func c17genScript(r *vRand) (string, int, int, []c17op) {
	cl := vPick(r, []int{-1, 0, 1, 2, 5, 6, 5, 6, 3, 7, 9})
	ll := vPick(r, []int{-1, 0, 1, 3, 1, 3, 2})
	gen, nkeys := "few", 4
	switch r.Intn(4) {
	case 0:
		gen, nkeys = "many", 10
	case 1:
		gen, nkeys = "wide", len(c17keys)
	case 2:
		gen, nkeys = "mid", 7
	}
	calls := 1 + r.Intn(4)
	if r.Intn(5) == 0 {
		calls = 1 + r.Intn(12)
	}
	var ops []c17op
	hasClone := false
	if r.Intn(5) == 0 {
		gen = "emit-" + gen
		ops = append(ops, c17op{"emit", c17genAttrs(r, nkeys, 9)})
	}
	for len(ops) < calls {
		k := r.Intn(20)
		switch {
		case k <= 1 && !hasClone:
			ops = append(ops, c17op{kind: "clone"})
			hasClone = true
		case hasClone && k < 8:
			ops = append(ops, c17op{vPick(r, []string{"cadd", "cadd", "cadd", "cset"}), c17genAttrs(r, nkeys, 9)})
		case k < 12 && k >= 8:
			ops = append(ops, c17op{"set", c17genAttrs(r, nkeys, 9)})
		default:
			ops = append(ops, c17op{"add", c17genAttrs(r, nkeys, 9)})
		}
	}
	if hasClone {
		gen += "-clone"
	}
	return gen, cl, ll, ops
}

func TestVerifC17Rec(t *testing.T) {
	out := vOpen(t)
	defer out.Close()
	if rp := vReplayLines(); rp != nil {
		for _, f := range rp {
			if len(f) < 4 || f[0] != "rec" {
				continue
			}
			gen, cl, ll, ops := c17parseLine(f)
			out.Line("%s", c17run(gen, cl, ll, ops))
		}
		return
	}
	r := &vRand{s: vSeed()}
	n := vN(5000)
	if os_exhaustive() {
		// all scripts of <= 3 set/add calls x <= 2 attributes over a 4-attribute alphabet, 6 limit pairs
		dupMap := c17v{kind: 'M', m: []c17kv{{"k", c17v{kind: 's', s: "abcd"}}, {"k", c17v{kind: 's', s: "š€z"}}}}
		alpha := []c17kv{{"a", c17v{kind: 's', s: "wxyz"}}, {"b", c17v{kind: 's', s: "é\xff€"}}, {"a", dupMap}, {"c", c17v{kind: 'L', l: []c17v{{kind: 's', s: "pqrs"}, {kind: 'i', i: 1}}}}}
		var contents [][]c17kv
		contents = append(contents, nil)
		for _, x := range alpha {
			contents = append(contents, []c17kv{x})
			for _, y := range alpha {
				contents = append(contents, []c17kv{x, y})
			}
		}
		var opsAll []c17op
		for _, c := range contents {
			opsAll = append(opsAll, c17op{"set", c}, c17op{"add", c})
		}
		lims := [][2]int{{-1, -1}, {0, 0}, {1, 1}, {2, 3}, {3, 1}, {2, -1}}
		var rec func(prefix []c17op)
		rec = func(prefix []c17op) {
			if len(prefix) > 0 {
				for _, lm := range lims {
					out.Line("%s", c17run("exh", lm[0], lm[1], prefix))
				}
			}
			if len(prefix) == 3 {
				return
			}
			for _, o := range opsAll {
				rec(append(append([]c17op{}, prefix...), o))
			}
		}
		rec(nil)
	}
	for i := 0; i < n; i++ {
		gen, cl, ll, ops := c17genScript(r)
		out.Line("%s", c17run(gen, cl, ll, ops))
	}
}
