//go:build verif

package log

// C06 harness, forced schedules (build tag verif: /repo's sdk/log calls verifPoint(name) at four synchronisation
// points; see verif_on.go). A goroutine is parked at a hook and released by the script, so that the races behind
// the known findings F37 / F22 are executed deterministically on the real code and replayed on the LTS.
//   ops in addition to the sched leg's: `pe<id>`/`re<id>` park/release an Emit right after its stopped check,
//   `pf<fid>`/`rf<fid>` a ForceFlush right after its stopped check, `ps<k>`/`rs` Shutdown at the entry of
//   bufferExporter.Export (after q.Flush(), before the flushed slice is enqueued).

import (
	"strconv"
	"strings"
	"sync"
	"testing"
	"time"
)

var (
	c06ParkMu  sync.Mutex
	c06Pending = map[string]chan struct{}{}
)

func init() {
	c06ArmPark = func(name string) chan struct{} {
		c06ParkMu.Lock()
		defer c06ParkMu.Unlock()
		if name == "" {
			c06Pending = map[string]chan struct{}{}
			return nil
		}
		ch := make(chan struct{})
		c06Pending[name] = ch
		return ch
	}
	VerifPointFn = func(name string) {
		c06ParkMu.Lock()
		ch := c06Pending[name]
		delete(c06Pending, name)
		c06ParkMu.Unlock()
		if ch != nil {
			<-ch
		}
	}
}

// scripts that are deterministic for every queue size >= 3, batch size >= 2 (no poll trigger before Shutdown)
// and every buffer size
var c06ForcedScripts = map[string]string{
	// F37: record 2 (Emit passed the check before Shutdown) is enqueued behind Shutdown's Flush and dequeued by a
	// ForceFlush (that also passed its check before) before Shutdown enqueues its slice [1]
	"F37": "e1 pe2 pf7 ps1 re2 rf7 rs g+ g+ g+ g+",
	// the same with an exporter error on the overtaking record
	"F37-b": "e1 pe2 pf7 ps1 re2 rf7 rs g- g+ g+ g+",
	// F22 on ForceFlush's normal path: Shutdown holds the flushed slice, the ForceFlush finds the queue empty
	"F22-raced": "e1 pf7 ps1 rf7 g+ rs g+ g+ g+",
	// an Emit racing a Shutdown that completes: the record stays in the queue, nothing is claimed about it
	"late-emit": "pe1 s1 re1 f2 s2",
	// a ForceFlush dequeues into a stopped buffer exporter: the records are discarded, it returns nil (errStopped)
	"discard": "pe1 pf7 s1 re1 rf7",
	// no race: parked and released calls in program order
	"plain": "e1 pe2 re2 pf7 rf7 g+ g+ ps1 rs g+ g+",
}

func TestVerifC06Forced(t *testing.T) {
	out := vOpen(t)
	defer out.Close()
	defer c06Quiet()()
	type job struct {
		gen             string
		capQ, batch, bf int
		ops             []string
	}
	jobs := []job{}
	if rp := vReplayLines(); rp != nil {
		for _, f := range rp {
			if f[0] != "sched" || len(f) < 7 {
				continue
			}
			c, _ := strconv.Atoi(f[2])
			b, _ := strconv.Atoi(f[3])
			u, _ := strconv.Atoi(f[4])
			jobs = append(jobs, job{f[1], c, b, u, f[6:]})
		}
	} else {
		r := &vRand{s: vSeed()}
		names := []string{"F37", "F37-b", "F22-raced", "late-emit", "discard", "plain"}
		n := vN(12)
		for i := 0; i < n; i++ {
			nm := names[i%len(names)]
			jobs = append(jobs, job{"forced-" + nm, 3 + r.Intn(3), 2 + r.Intn(2), 1 + r.Intn(3), strings.Fields(c06ForcedScripts[nm])})
		}
	}
	// one script at a time: the hook function is a package-level variable
	for _, j := range jobs {
		cfg, a := c06RunSched(j.capQ, j.batch, j.bf, j.ops, 4*time.Millisecond)
		_, b := c06RunSched(j.capQ, j.batch, j.bf, j.ops, 4*time.Millisecond)
		if strings.Join(a, " ") != strings.Join(b, " ") {
			_, a = c06RunSched(j.capQ, j.batch, j.bf, j.ops, 40*time.Millisecond)
		}
		out.Line("sched %s %d %d %d | %s => %s", j.gen, cfg[0], cfg[1], cfg[2], strings.Join(j.ops, " "), strings.Join(a, " "))
	}
}
