// C06 — `struct` leg: the layers around the batch processor's concurrent core, each driven directly and compared
// with its Lean model (lean/Otel/C06/{Ring,Chain,RecHeap}.lean, driver lean/Otel/C06/DeepDrv.lean).
//
//	ring  — the record queue of batch.go on the linked ring of ring.go (Enqueue / TryDequeue / Flush / Len / Dropped)
//	chain — newChunkExporter(newTimeoutExporter(exporter, timeout), size).Export: chunks, per-chunk context, errors
//	rec   — storage of Record: struct copies, Clone, in-place overwrite / append / SetAttributes with argument slices
//	        that are sub-slices (with spare capacity) of ONE shared table which is rewritten afterwards; records are
//	        emitted through BatchProcessor.OnEmit directly and through Logger.Emit with three processors
//	        [pre-mutator, BatchProcessor, post-mutator]; the caller's records, the table and the records the exporter
//	        received are all re-read after every later operation.
package log

import (
	"context"
	"errors"
	"fmt"
	"strconv"
	"strings"
	"sync"
	"testing"
	"time"

	"go.opentelemetry.io/otel/log"
)

func c06IDRecord(id int) Record {
	var r Record
	r.SetBody(log.Int64Value(int64(id)))
	return r
}

func c06IDs(rs []Record) []int {
	ids := make([]int, len(rs))
	for i := range rs {
		ids[i] = int(rs[i].Body().AsInt64())
	}
	return ids
}

// ---------------------------------------------------------------- ring

func c06RingCase(capQ int, ops []string) []string {
	q := newQueue(capQ)
	out := make([]string, 0, len(ops))
	for _, op := range ops {
		switch {
		case op == "f":
			out = append(out, "r"+c06Dot(c06IDs(q.Flush()))+":0")
		case op == "l":
			out = append(out, "n"+strconv.Itoa(q.Len()))
		case op == "x":
			out = append(out, "n"+strconv.FormatUint(q.Dropped(), 10))
		case op[0] == 'e':
			id, _ := strconv.Atoi(op[1:])
			out = append(out, "n"+strconv.Itoa(q.Enqueue(c06IDRecord(id))))
		case op[0] == 'd':
			n, _ := strconv.Atoi(op[1 : len(op)-1])
			ok := op[len(op)-1] == '+'
			buf := make([]Record, n)
			var got []int
			rem := q.TryDequeue(buf, func(r []Record) bool {
				got = c06IDs(r)
				return ok
			})
			out = append(out, "r"+c06Dot(got)+":"+strconv.Itoa(rem))
		}
	}
	return out
}

func c06GenRing(r *vRand, capQ int) []string {
	n := 4 + r.Intn(30)
	ops := make([]string, 0, n)
	id := 1
	for i := 0; i < n; i++ {
		switch k := r.Intn(20); {
		case k < 11:
			ops = append(ops, "e"+strconv.Itoa(id))
			id++
		case k < 15:
			s := "+"
			if r.Intn(10) < 3 {
				s = "-"
			}
			ops = append(ops, "d"+strconv.Itoa(r.Intn(capQ+3))+s)
		case k < 16:
			ops = append(ops, "f")
		case k < 18:
			ops = append(ops, "l")
		default:
			ops = append(ops, "x")
		}
	}
	return ops
}

// ---------------------------------------------------------------- chain

type c06ChainExp struct {
	beh     []string
	i       int
	calls   []string
	par     bool
	tmo     time.Duration
	prevRet time.Time
}

func (e *c06ChainExp) Export(ctx context.Context, recs []Record) error {
	b := "+"
	if e.i < len(e.beh) {
		b = e.beh[e.i]
	}
	e.i++
	// `x`: the context handed over is not a usable one: already done (cancelled parent), or — with a timeout — its
	// deadline is earlier than (return of the previous call + timeout), i.e. it is not a fresh per-call timeout.
	// (Deterministic: compares instants fixed by the code under test, not elapsed time.)
	stale := ctx.Err() != nil
	if !e.par && e.tmo > 0 {
		dl, ok := ctx.Deadline()
		stale = !ok || dl.Before(e.prevRet.Add(e.tmo))
	}
	var err error
	switch b {
	case "-":
		err = errors.New("export failed")
	case "w":
		if ctx.Done() == nil {
			err = errors.New("would block for ever")
		} else {
			<-ctx.Done()
			err = ctx.Err()
		}
	}
	res := "o"
	switch {
	case errors.Is(err, context.DeadlineExceeded):
		res = "d"
	case errors.Is(err, context.Canceled):
		res = "c"
	case err != nil:
		res = "e"
	}
	x := "f"
	if stale {
		x = "x"
	}
	e.calls = append(e.calls, c06Dot(c06IDs(recs))+":"+x+":"+res)
	e.prevRet = time.Now()
	return err
}
func (e *c06ChainExp) Shutdown(context.Context) error   { return nil }
func (e *c06ChainExp) ForceFlush(context.Context) error { return nil }

// gen `bp…`: the chain is the one NewBatchProcessor builds (taken out of its bufferExporter), so that the order of the
// wrappers and the options → constructor arguments path are part of what is compared; otherwise the constructors
// are called directly (which also reaches their `<= 0` branches).
func c06ChainCase(gen string, size int, tmo, par bool, n int, beh []string) []string {
	T := time.Duration(0)
	if tmo {
		T = time.Hour
		for _, b := range beh {
			if b == "w" {
				T = 15 * time.Millisecond
			}
		}
	}
	e := &c06ChainExp{beh: beh, par: par, tmo: T}
	var exp Exporter
	if strings.HasPrefix(gen, "bp") && size >= 1 && tmo {
		bp := NewBatchProcessor(e, WithMaxQueueSize(64), WithExportMaxBatchSize(size), WithExportTimeout(T),
			WithExportInterval(time.Hour))
		defer func() { _ = bp.Shutdown(context.Background()) }()
		exp = bp.exporter.Exporter
	} else {
		exp = newChunkExporter(newTimeoutExporter(e, T), size)
	}
	ctx := context.Background()
	if par {
		c, cancel := context.WithCancel(ctx)
		cancel()
		ctx = c
	}
	recs := make([]Record, n)
	for i := range recs {
		recs[i] = c06IDRecord(i + 1)
	}
	e.prevRet = time.Now()
	err := exp.Export(ctx, recs)
	f := "err=0"
	if err != nil {
		f = "err=1"
	}
	return append(e.calls, f)
}

// ---------------------------------------------------------------- rec

type c06Handle struct {
	r    Record
	kind byte // 'c' caller's, 'h' queued, 'x' exported
}

type c06RecExp struct {
	mu   sync.Mutex
	recv []Record
}

func (e *c06RecExp) Export(_ context.Context, recs []Record) error {
	e.mu.Lock()
	e.recv = append(e.recv, recs...) // struct copies: they share whatever storage the SDK handed over
	e.mu.Unlock()
	return nil
}
func (e *c06RecExp) Shutdown(context.Context) error   { return nil }
func (e *c06RecExp) ForceFlush(context.Context) error { return nil }

type c06Mutator struct {
	on      bool
	key, v  int
	setBody bool
	stash   *Record
}

func (m *c06Mutator) OnEmit(_ context.Context, r *Record) error {
	if !m.on {
		return nil
	}
	r.AddAttributes(log.Int("k"+strconv.Itoa(m.key), m.v))
	if m.setBody {
		r.SetBody(log.Int64Value(777))
	}
	if m.stash != nil {
		*m.stash = *r // the record as the pipeline leaves it (struct copy: shares `back` with Emit's local)
	}
	return nil
}
func (m *c06Mutator) Shutdown(context.Context) error   { return nil }
func (m *c06Mutator) ForceFlush(context.Context) error { return nil }

func c06KVs(r *Record) string {
	var sb strings.Builder
	n := 0
	r.WalkAttributes(func(kv log.KeyValue) bool {
		if n > 0 {
			sb.WriteByte(',')
		}
		n++
		sb.WriteString(strings.TrimPrefix(kv.Key, "k"))
		sb.WriteByte(':')
		if kv.Value.Kind() == log.KindInt64 {
			sb.WriteString(strconv.FormatInt(kv.Value.AsInt64(), 10))
		} else {
			sb.WriteString("?")
		}
		return true
	})
	if n == 0 {
		return "-"
	}
	return sb.String()
}

func c06Body(r *Record) string {
	if r.Body().Kind() != log.KindInt64 {
		return "?"
	}
	return strconv.FormatInt(r.Body().AsInt64(), 10)
}

func c06Nums(s string) []int {
	parts := strings.Split(s, ".")
	out := make([]int, len(parts))
	for i, p := range parts {
		out[i], _ = strconv.Atoi(p)
	}
	return out
}

func c06RecCase(tblSize int, ops []string) []string {
	ctx := context.Background()
	tbl := make([]log.KeyValue, tblSize)
	for k := range tbl {
		tbl[k] = log.Int("k"+strconv.Itoa(k), k)
	}
	exp := &c06RecExp{}
	bp := NewBatchProcessor(exp, WithMaxQueueSize(512), WithExportMaxBatchSize(3), WithExportBufferSize(2),
		WithExportInterval(time.Hour))
	pre, post := &c06Mutator{}, &c06Mutator{setBody: true}
	prov := NewLoggerProvider(WithProcessor(pre), WithProcessor(bp), WithProcessor(post))
	logger := prov.Logger("c06")
	defer func() { _ = prov.Shutdown(ctx) }()

	var hs []*c06Handle
	var pending []int // queued handles in emission order
	seenExp := 0
	obs := func() string {
		var sb strings.Builder
		sb.WriteString("T=")
		for k := range tbl {
			if k > 0 {
				sb.WriteByte(',')
			}
			sb.WriteString(strings.TrimPrefix(tbl[k].Key, "k") + ":" + strconv.FormatInt(tbl[k].Value.AsInt64(), 10))
		}
		if len(tbl) == 0 {
			sb.WriteByte('-')
		}
		sb.WriteString(";H=")
		if len(hs) == 0 {
			sb.WriteByte('-')
		}
		for i, h := range hs {
			if i > 0 {
				sb.WriteByte('/')
			}
			switch h.kind {
			case 'h':
				sb.WriteByte('h')
			case 'x':
				sb.WriteString("x" + c06Body(&h.r) + "~" + c06KVs(&h.r))
			default:
				sb.WriteString("c" + c06Body(&h.r) + "~" + c06KVs(&h.r) + "~" + strconv.Itoa(cap(h.r.back)))
			}
		}
		return sb.String()
	}
	valid := func(i int) bool { return i >= 0 && i < len(hs) && hs[i].kind == 'c' }
	out := make([]string, 0, len(ops))
	for _, op := range ops {
		a := []int{}
		if len(op) > 1 {
			a = c06Nums(op[1:])
		}
		switch op[0] {
		case 'm':
			r := Record{attributeValueLengthLimit: -1}
			r.SetBody(log.Int64Value(int64(a[0])))
			hs = append(hs, &c06Handle{r: r, kind: 'c'})
		case 'c':
			if valid(a[0]) {
				hs = append(hs, &c06Handle{r: hs[a[0]].r.Clone(), kind: 'c'})
			}
		case 'y':
			if valid(a[0]) {
				hs = append(hs, &c06Handle{r: hs[a[0]].r, kind: 'c'})
			}
		case 'b':
			if valid(a[0]) {
				hs[a[0]].r.SetBody(log.Int64Value(int64(a[1])))
			}
		case 'a':
			if valid(a[0]) {
				hs[a[0]].r.AddAttributes(tbl[a[1]:a[2]]...)
			}
		case 'k':
			if valid(a[0]) {
				hs[a[0]].r.AddAttributes(log.Int("k"+strconv.Itoa(a[1]), a[2]))
			}
		case 's':
			if valid(a[0]) {
				hs[a[0]].r.SetAttributes(tbl[a[1]:a[2]]...)
			}
		case 'w':
			tbl[a[0]] = log.Int("k"+strconv.Itoa(a[1]), a[2])
		case 'e':
			if valid(a[0]) {
				_ = bp.OnEmit(ctx, &hs[a[0]].r)
				hs = append(hs, &c06Handle{kind: 'h'})
				pending = append(pending, len(hs)-1)
			}
		case 'L':
			var lr log.Record
			lr.SetBody(log.Int64Value(int64(a[2])))
			lr.AddAttributes(tbl[a[0]:a[1]]...)
			tmp := &c06Handle{kind: 'c'}
			*pre = c06Mutator{on: true, key: a[3], v: a[4]}
			*post = c06Mutator{on: true, key: a[5], v: a[6], setBody: true, stash: &tmp.r}
			logger.Emit(ctx, lr)
			pre.on, post.on = false, false
			hs = append(hs, tmp, &c06Handle{kind: 'h'})
			pending = append(pending, len(hs)-1)
		case 'F':
			_ = bp.ForceFlush(ctx)
			exp.mu.Lock()
			for seenExp < len(exp.recv) && len(pending) > 0 {
				h := hs[pending[0]]
				h.r, h.kind = exp.recv[seenExp], 'x'
				pending = pending[1:]
				seenExp++
			}
			exp.mu.Unlock()
		}
		out = append(out, obs())
	}
	return out
}

// c06GenRec: scripts over one shared table. `pipeline` scripts follow the pattern argument-slice-with-spare-capacity →
// emit → mutate the record and the table → flush → mutate again → flush; `rnd` scripts mix everything.
func c06GenRec(r *vRand, tblSize int, pipeline bool) []string {
	ops := []string{}
	callers := []int{} // indices of caller handles
	n := 0             // number of handles
	add := func(op string, newCallers, newOther int) {
		ops = append(ops, op)
		for i := 0; i < newCallers; i++ {
			callers = append(callers, n)
			n++
		}
		n += newOther
	}
	sl := func(minLen int) (int, int) {
		a := r.Intn(tblSize - minLen + 1)
		b := a + minLen + r.Intn(tblSize-a-minLen+1)
		return a, b
	}
	pick := func() int { return callers[r.Intn(len(callers))] }
	lastSet := map[int][2]int{} // handle -> table range of its last SetAttributes (keys a+5..b-1 live in `back`)
	mutate := func(h int) {
		switch r.Intn(8) {
		case 0:
			add(fmt.Sprintf("k%d.%d.%d", h, r.Intn(tblSize+3), 100+r.Intn(900)), 0, 0) // overwrite in place / append one
		case 1:
			a, b := sl(1)
			add(fmt.Sprintf("a%d.%d.%d", h, a, b), 0, 0)
		case 2:
			a, b := sl(0)
			lastSet[h] = [2]int{a, b}
			add(fmt.Sprintf("s%d.%d.%d", h, a, b), 0, 0)
		case 3:
			add(fmt.Sprintf("b%d.%d", h, 100+r.Intn(900)), 0, 0)
		case 4, 5:
			k := r.Intn(tblSize)
			key := k
			if r.Intn(4) == 0 {
				key = r.Intn(tblSize + 2) // duplicate keys inside the table: exercises the in-place de-duplication
			}
			add(fmt.Sprintf("w%d.%d.%d", k, key, 100+r.Intn(900)), 0, 0)
		default:
			key := 5 + r.Intn(tblSize-4)
			if ab, ok := lastSet[h]; ok && ab[1]-ab[0] > 5 {
				key = ab[0] + 5 + r.Intn(ab[1]-ab[0]-5) // a key that lives in `back`: overwritten in place
			}
			add(fmt.Sprintf("k%d.%d.%d", h, key, 100+r.Intn(900)), 0, 0)
		}
	}
	if pipeline {
		add(fmt.Sprintf("m%d", 1+r.Intn(9)), 1, 0)
		a, b := sl(6 + r.Intn(3))
		lastSet[0] = [2]int{a, b}
		add(fmt.Sprintf("s0.%d.%d", a, b), 0, 0)
		for i := r.Intn(3); i > 0; i-- {
			add(fmt.Sprintf("k0.%d.%d", tblSize+i, i), 0, 0) // appended keys: `back` gets spare capacity
		}
		rounds := 2 + r.Intn(3)
		for j := 0; j < rounds; j++ {
			if r.Intn(3) == 0 {
				a, b := sl(5 + r.Intn(4))
				add(fmt.Sprintf("L%d.%d.%d.%d.%d.%d.%d", a, b, 10+j, a+r.Intn(b-a+2), 100+r.Intn(900), a+r.Intn(b-a+2), 100+r.Intn(900)), 1, 1)
			} else {
				add(fmt.Sprintf("e%d", pick()), 0, 1)
			}
			for i := 1 + r.Intn(4); i > 0; i-- {
				mutate(pick())
			}
			if r.Intn(4) != 0 {
				add("F", 0, 0)
				for i := 1 + r.Intn(3); i > 0; i-- {
					mutate(pick())
				}
			}
		}
		add("F", 0, 0)
		mutate(pick())
		return ops
	}
	add(fmt.Sprintf("m%d", 1+r.Intn(9)), 1, 0)
	for i := 3 + r.Intn(25); i > 0; i-- {
		switch k := r.Intn(20); {
		case k < 1:
			add(fmt.Sprintf("m%d", 1+r.Intn(9)), 1, 0)
		case k < 3:
			add(fmt.Sprintf("c%d", pick()), 1, 0)
		case k < 5:
			add(fmt.Sprintf("y%d", pick()), 1, 0)
		case k < 8:
			add(fmt.Sprintf("e%d", pick()), 0, 1)
		case k < 9:
			a, b := sl(0)
			add(fmt.Sprintf("L%d.%d.%d.%d.%d.%d.%d", a, b, 10+i, r.Intn(tblSize+2), 100+r.Intn(900), r.Intn(tblSize+2), 100+r.Intn(900)), 1, 1)
		case k < 11:
			add("F", 0, 0)
		default:
			mutate(pick())
		}
	}
	add("F", 0, 0)
	return ops
}

// ---------------------------------------------------------------- test

func TestVerifC06Struct(t *testing.T) {
	out := vOpen(t)
	defer out.Close()
	defer c06Quiet()()
	type job struct {
		kind, gen string
		p         []int
		ops       []string
	}
	jobs := []job{}
	if rp := vReplayLines(); rp != nil {
		for _, f := range rp {
			bar := -1
			for i, x := range f {
				if x == "|" {
					bar = i
					break
				}
			}
			if bar < 3 {
				continue
			}
			p := []int{}
			for _, x := range f[2:bar] {
				v, _ := strconv.Atoi(x)
				p = append(p, v)
			}
			if (f[0] == "ring" && len(p) == 1) || (f[0] == "chain" && len(p) == 4) || (f[0] == "rec" && len(p) == 1) {
				jobs = append(jobs, job{f[0], f[1], p, f[bar+1:]})
			}
		}
	} else {
		r := &vRand{s: vSeed() ^ 0xc06d}
		n := vN(600)
		for i := 0; i < n; i++ {
			switch i % 3 {
			case 0:
				c := 1 + r.Intn(6)
				if r.Intn(8) == 0 {
					c = 7 + r.Intn(10)
				}
				jobs = append(jobs, job{"ring", "rnd", []int{c}, c06GenRing(r, c)})
			case 1:
				size := vPick(r, []int{-1, 0, 1, 1, 2, 2, 3, 4})
				tmo, par := r.Intn(4) != 0, r.Intn(6) == 0
				nrec := r.Intn(10)
				beh := []string{}
				waits := 0
				for k := r.Intn(6); k > 0; k-- {
					b := vPick(r, []string{"+", "+", "-", "w"})
					if b == "w" && ((!tmo && !par) || waits >= 2 || i%12 != 1) {
						b = "-"
					}
					if b == "w" {
						waits++
					}
					beh = append(beh, b)
				}
				bi := func(b bool) int {
					if b {
						return 1
					}
					return 0
				}
				gen := "ctor"
				if size >= 1 && tmo && r.Bool() {
					gen = "bp"
				}
				jobs = append(jobs, job{"chain", gen, []int{size, bi(tmo), bi(par), nrec}, beh})
			default:
				ts := 8 + r.Intn(9)
				pl := r.Intn(3) != 0
				gen := "rnd"
				if pl {
					gen = "pipeline"
				}
				jobs = append(jobs, job{"rec", gen, []int{ts}, c06GenRec(r, ts, pl)})
			}
		}
		if os_exhaustive() {
			// every op sequence of length 5 over a small alphabet, capacities 1..3
			alpha := []string{"e", "d1+", "d2-", "d3+", "f", "x"}
			for c := 1; c <= 3; c++ {
				total := 1
				for i := 0; i < 5; i++ {
					total *= len(alpha)
				}
				for code := 0; code < total; code++ {
					ops := make([]string, 5)
					x, id := code, 1
					for i := range ops {
						ops[i] = alpha[x%len(alpha)]
						x /= len(alpha)
						if ops[i] == "e" {
							ops[i] = "e" + strconv.Itoa(id)
							id++
						}
					}
					jobs = append(jobs, job{"ring", "exh", []int{c}, append(ops, "l", "f")})
				}
			}
		}
	}
	results := make([][]string, len(jobs))
	sem := make(chan struct{}, 8)
	var wg sync.WaitGroup
	for i := range jobs {
		j := jobs[i]
		run := func() {
			switch j.kind {
			case "ring":
				results[i] = c06RingCase(j.p[0], j.ops)
			case "chain":
				results[i] = c06ChainCase(j.gen, j.p[0], j.p[1] == 1, j.p[2] == 1, j.p[3], j.ops)
			case "rec":
				results[i] = c06RecCase(j.p[0], j.ops)
			}
		}
		if j.kind == "chain" && strings.Contains(strings.Join(j.ops, ""), "w") {
			wg.Add(1)
			sem <- struct{}{}
			go func() { defer wg.Done(); defer func() { <-sem }(); run() }()
		} else {
			run()
		}
	}
	wg.Wait()
	for i, j := range jobs {
		ps := make([]string, len(j.p))
		for k, v := range j.p {
			ps[k] = strconv.Itoa(v)
		}
		out.Line("%s %s %s | %s => %s", j.kind, j.gen, strings.Join(ps, " "), strings.Join(j.ops, " "), strings.Join(results[i], " "))
	}
}
