package retry

// C14 correspondence harness for internal/retry (the six generated copies are identical, so this ONE file is
// overlaid into each of the six `internal/retry` packages by the legs loop_* of checks/C14.json).
//
//   loop <gen> <wmode f|r> <enabled> <initial> <maxInterval> <maxElapsed> <cancel -|j:c> <script>
//        => <res> <attempts> <delays|-> <elapsed lo:hi,…|-> g<bits|-> p<0|1|-> t<ns>
//     script: comma separated items  o | f | r<throttle ns>  each optionally followed by @<sleep µs>
//     wmode f: waitFunc replaced by a recorder (returns at once; implements "ctx done c ns into wait j");
//     wmode r: the real wait() (wrapped only to record the requested delay and the time it is entered);
//              cancel j:0 = the context is cancelled inside attempt j.
//     t: wall time of the whole call (an upper-bound sanity check with 2 s slack only, never compared tightly)
//     res: ok | fatal | retry (Enabled=false, the retryable error returned as is) | elapsed | would | cancel | other
//     elapsed: per attempt, bounds [lo,hi] (ns) on what time.Since(startTime) can have read after it
//     g: per real wait, 1 iff the next attempt started no earlier than the throttle after the failure
//     p: 1 iff the call returned within 2 s of the cancellation
//   wait <gen> <delay ns> <ctx n|pre|d<µs>|t<µs>> => <nil|err> e<0|1> p<0|1|->
//     e: 1 iff nil was returned before `delay` had passed; p: err returned within 2 s of the context being done

import (
	"context"
	"errors"
	"fmt"
	"strconv"
	"strings"
	"testing"
	"time"
)

type vRetryErr struct {
	id       int
	throttle time.Duration
}

func (e *vRetryErr) Error() string { return fmt.Sprintf("verif retryable %d", e.id) }

type vFatalErr struct{ id int }

func (e *vFatalErr) Error() string { return fmt.Sprintf("verif fatal %d", e.id) }

var vErrExhausted = errors.New("verif script exhausted")

func vEval(err error) (bool, time.Duration) {
	if r, ok := err.(*vRetryErr); ok {
		return true, r.throttle
	}
	return false, 0
}

type vLoopCase struct {
	gen, wmode       string
	enabled          bool
	initial, maxI    int64
	maxE             int64
	cancel           string
	script           []string
}

func vSpin(d time.Duration) {
	t := time.Now()
	for time.Since(t) < d {
	}
}

func vRunLoop(out *vOut, c vLoopCase) {
	cfg := Config{Enabled: c.enabled, InitialInterval: time.Duration(c.initial), MaxInterval: time.Duration(c.maxI), MaxElapsedTime: time.Duration(c.maxE)}
	ctx, cancel := context.WithCancel(context.Background())
	defer cancel()
	cj, cc := -1, int64(0)
	if c.cancel != "-" {
		p := strings.SplitN(c.cancel, ":", 2)
		cj, _ = strconv.Atoi(p[0])
		cc, _ = strconv.ParseInt(p[1], 10, 64)
	}
	var delays []string
	var fnEntry, fnRet, hiMark []time.Time
	var cancelTime time.Time
	var lastErr error
	waitIdx := 0
	saved := waitFunc
	defer func() { waitFunc = saved }()
	if c.wmode == "f" {
		waitFunc = func(ctx context.Context, d time.Duration) error {
			hiMark = append(hiMark, time.Now())
			delays = append(delays, strconv.FormatInt(int64(d), 10))
			k := waitIdx
			waitIdx++
			if cj >= 0 && k >= cj {
				var off int64
				if k == cj {
					off = cc
				}
				cancel()
				if off < int64(d) {
					return ctx.Err()
				}
			}
			return nil
		}
	} else {
		// the real wait(), wrapped only to record when it is entered and which delay was requested
		waitFunc = func(ctx context.Context, d time.Duration) error {
			hiMark = append(hiMark, time.Now())
			delays = append(delays, strconv.FormatInt(int64(d), 10))
			return wait(ctx, d)
		}
	}
	fn := func(ctx context.Context) error {
		fnEntry = append(fnEntry, time.Now())
		i := len(fnEntry) - 1
		if i >= len(c.script) {
			lastErr = vErrExhausted
			fnRet = append(fnRet, time.Now())
			return lastErr
		}
		item := c.script[i]
		if at := strings.IndexByte(item, '@'); at >= 0 {
			us, _ := strconv.Atoi(item[at+1:])
			time.Sleep(time.Duration(us) * time.Microsecond)
			item = item[:at]
		}
		vSpin(2 * time.Microsecond)
		if c.wmode == "r" && cj == i {
			cancelTime = time.Now()
			cancel()
		}
		var err error
		switch item[0] {
		case 'o':
		case 'f':
			err = &vFatalErr{i}
		case 'r':
			th, _ := strconv.ParseInt(item[1:], 10, 64)
			err = &vRetryErr{i, time.Duration(th)}
		}
		lastErr = err
		fnRet = append(fnRet, time.Now())
		return err
	}
	tBefore := time.Now()
	err := cfg.RequestFunc(vEval)(ctx, fn)
	tAfter := time.Now()

	res := "other"
	switch {
	case err == nil:
		res = "ok"
	case err == vErrExhausted:
		res = "exhausted"
	case err == lastErr:
		if _, ok := err.(*vFatalErr); ok {
			res = "fatal"
		} else {
			res = "retry"
		}
	case strings.HasPrefix(err.Error(), "max retry time elapsed: ") && errors.Is(err, lastErr):
		res = "elapsed"
	case strings.HasPrefix(err.Error(), "max retry time would elapse: ") && errors.Is(err, lastErr):
		res = "would"
	case errors.Is(err, context.Canceled) && errors.Is(err, lastErr):
		res = "cancel"
	}
	n := len(fnEntry)
	el := make([]string, n)
	for i := 0; i < n; i++ {
		lo := fnRet[i].Sub(fnEntry[0])
		var hiT time.Time
		switch {
		case i < len(hiMark):
			hiT = hiMark[i]
		case i+1 < n:
			hiT = fnEntry[i+1]
		default:
			hiT = tAfter
		}
		el[i] = fmt.Sprintf("%d:%d", int64(lo), int64(hiT.Sub(tBefore)))
	}
	g, p := "-", "-"
	if c.wmode == "r" {
		g = ""
		for i := 0; i+1 < n; i++ {
			th := time.Duration(0)
			if it := c.script[i]; it[0] == 'r' {
				s := it[1:]
				if at := strings.IndexByte(s, '@'); at >= 0 {
					s = s[:at]
				}
				v, _ := strconv.ParseInt(s, 10, 64)
				th = time.Duration(v)
			}
			if fnEntry[i+1].Sub(fnRet[i]) >= th {
				g += "1"
			} else {
				g += "0"
			}
		}
		if g == "" {
			g = "-"
		}
		if !cancelTime.IsZero() {
			if tAfter.Sub(cancelTime) < 2*time.Second {
				p = "1"
			} else {
				p = "0"
			}
		}
	}
	ds := "-"
	if len(delays) > 0 {
		ds = strings.Join(delays, ",")
	}
	es := "-"
	if n > 0 {
		es = strings.Join(el, ",")
	}
	out.Line("loop %s %s %d %d %d %d %s %s => %s %d %s %s g%s p%s t%d", c.gen, c.wmode, vB(c.enabled), c.initial, c.maxI, c.maxE,
		c.cancel, strings.Join(c.script, ","), res, n, ds, es, g, p, int64(tAfter.Sub(tBefore)))
}

func vB(b bool) int {
	if b {
		return 1
	}
	return 0
}

func vRunWait(out *vOut, gen string, delay int64, mode string) {
	ctx, cancel := context.WithCancel(context.Background())
	defer cancel()
	var doneAt time.Time
	t0 := time.Now()
	switch {
	case mode == "n":
	case mode == "pre":
		cancel()
		doneAt = t0
	case mode[0] == 'd':
		us, _ := strconv.Atoi(mode[1:])
		doneAt = t0.Add(time.Duration(us) * time.Microsecond)
		tm := time.AfterFunc(time.Duration(us)*time.Microsecond, cancel)
		defer tm.Stop()
	case mode[0] == 't':
		us, _ := strconv.Atoi(mode[1:])
		doneAt = t0.Add(time.Duration(us) * time.Microsecond)
		var c2 context.CancelFunc
		ctx, c2 = context.WithDeadline(ctx, doneAt)
		defer c2()
	}
	t1 := time.Now()
	err := wait(ctx, time.Duration(delay))
	t2 := time.Now()
	r, e, p := "nil", 0, "-"
	if err != nil {
		r = "other"
		if err == ctx.Err() && (errors.Is(err, context.Canceled) || errors.Is(err, context.DeadlineExceeded)) {
			r = "err"
		}
		p = "0"
		if t2.Sub(doneAt) < 2*time.Second {
			p = "1"
		}
	} else if t2.Sub(t1) < time.Duration(delay) {
		e = 1
	}
	out.Line("wait %s %d %s => %s e%d p%s", gen, delay, mode, r, e, p)
}

func TestVerifC14Loop(t *testing.T) {
	out := vOpen(t)
	defer out.Close()
	if rp := vReplayLines(); rp != nil {
		for _, f := range rp {
			switch {
			case f[0] == "loop" && len(f) >= 9:
				ini, _ := strconv.ParseInt(f[4], 10, 64)
				mi, _ := strconv.ParseInt(f[5], 10, 64)
				me, _ := strconv.ParseInt(f[6], 10, 64)
				vRunLoop(out, vLoopCase{gen: f[1], wmode: f[2], enabled: f[3] == "1", initial: ini, maxI: mi, maxE: me, cancel: f[7], script: strings.Split(f[8], ",")})
			case f[0] == "wait" && len(f) >= 4:
				d, _ := strconv.ParseInt(f[2], 10, 64)
				vRunWait(out, f[1], d, f[3])
			}
		}
		return
	}
	r := &vRand{s: vSeed()}
	n := vN(1500)
	const hour = int64(time.Hour)
	const mid = int64(3 * time.Millisecond)

	// wait(): fixed table (clear separations only, plus the exact tie)
	for _, w := range []struct {
		d int64
		m string
	}{{0, "n"}, {1000, "n"}, {1000000, "n"}, {3000000, "n"}, {hour, "pre"}, {hour, "d500"}, {hour, "t1000"},
		{1000000, "d200000"}, {500000, "t200000"}, {0, "pre"}, {-5, "n"}, {hour, "d3000"}, {1000000000, "pre"}} {
		vRunWait(out, "tab", w.d, w.m)
	}

	// "budget": real waits under a small MaxElapsedTime and a script that never ends by itself — the call has to
	// give up by the clock; number of attempts and return time are bounded (retry_attempts_bounded, retry_returns_by)
	for i := 0; i < 10+n/300 && i < 60; i++ {
		ini := vPick(r, []int64{1000000, 2000000, 600000})
		c := vLoopCase{gen: "budget", wmode: "r", enabled: true, initial: ini, maxI: ini * int64(1+r.Intn(2)),
			maxE: vPick(r, []int64{3000000, 4000000, 5000000}), cancel: "-"}
		for j := 0; j < 14; j++ {
			c.script = append(c.script, vPick(r, []string{"r0", "r0", "r0", "r1000", "r300000"}))
		}
		if r.Intn(4) == 0 {
			c.script[r.Intn(3)] = "r0@2500" // one slow attempt
		}
		c.script = append(c.script, "o")
		vRunLoop(out, c)
	}

	sleeps, reals := 0, 0
	for i := 0; i < n; i++ {
		c := vLoopCase{wmode: "f", enabled: r.Intn(10) != 0, cancel: "-"}
		c.initial = vPick(r, []int64{0, 1, 2, 10, 1000, 1000000, 5000000000})
		c.maxI = vPick(r, []int64{0, 1, c.initial, c.initial * 2, c.initial * 10, 30000000000})
		kind := r.Intn(12)
		switch {
		case kind < 3:
			c.gen, c.maxE = "nolimit", 0
		case kind < 5:
			c.gen, c.maxE = "tiny", vPick(r, []int64{1, 100, -1})
		case kind < 10:
			c.gen, c.maxE = "hour", hour
		default:
			c.gen, c.maxE = "mid", mid
		}
		k := r.Intn(6)
		if r.Intn(4) == 0 {
			k = r.Intn(2)
		}
		M := c.maxE
		for j := 0; j < k; j++ {
			var th int64
			switch r.Intn(8) {
			case 0, 1:
				th = 0
			case 2:
				th = vPick(r, []int64{1, 5, 1000, 1000000000, -5})
			case 3:
				th = int64(r.Intn(20))
			case 4:
				if M > 1000000000 {
					th = M - 1000000000*int64(1+r.Intn(3))
				} else {
					th = 7
				}
			case 5:
				th = M + int64(r.Intn(3)) - 1 // M-1, M, M+1: the elapsed+throttle > max boundary
			case 6:
				th = 2 * M
			default:
				th = c.initial
			}
			item := "r" + strconv.FormatInt(th, 10)
			if c.gen == "mid" && sleeps < 40 && r.Intn(3) == 0 {
				item += "@12000"
				sleeps++
			}
			c.script = append(c.script, item)
		}
		switch r.Intn(5) {
		case 0:
			c.script = append(c.script, "f")
		case 1:
			c.script = append(c.script, "o", "r3")
		default:
			c.script = append(c.script, "o")
		}
		if r.Intn(6) == 0 && k > 0 {
			c.cancel = fmt.Sprintf("%d:%d", r.Intn(k), vPick(r, []int64{0, 0, 1, 5, 1000, c.initial, c.initial / 2, 1 << 60}))
			c.gen += "+cancel"
		}
		// a slice of the cases runs through the real wait()
		if reals < 60 && r.Intn(12) == 0 {
			reals++
			c.wmode = "r"
			c.gen = "real"
			c.enabled = true
			c.initial = vPick(r, []int64{1000, 200000})
			c.maxI = c.initial
			c.maxE = vPick(r, []int64{0, hour})
			c.cancel = "-"
			k = 1 + r.Intn(3)
			c.script = nil
			for j := 0; j < k; j++ {
				c.script = append(c.script, "r"+strconv.FormatInt(vPick(r, []int64{0, 1000, 1000000, 2000000}), 10))
			}
			c.script = append(c.script, vPick(r, []string{"o", "f"}))
			if r.Intn(2) == 0 {
				j := r.Intn(k)
				c.script[j] = "r" + strconv.FormatInt(vPick(r, []int64{hour / 2, 1000000000}), 10)
				if c.maxE != 0 {
					c.script[j] = "r1000000000"
				}
				c.cancel = fmt.Sprintf("%d:0", j)
				c.gen = "real+cancel"
			}
		}
		vRunLoop(out, c)
	}
}
