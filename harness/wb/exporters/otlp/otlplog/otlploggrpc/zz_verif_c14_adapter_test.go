package otlploggrpc

// C14: package specific part of the gRPC client harness (how a client is built and one upload is made).

import (
	"context"
	"sync"
	"time"

	sdklog "go.opentelemetry.io/otel/sdk/log"

	"google.golang.org/grpc"
	"google.golang.org/grpc/credentials/insecure"
	"google.golang.org/protobuf/proto"

	collogpb "go.opentelemetry.io/proto/otlp/collector/logs/v1"
	logpb "go.opentelemetry.io/proto/otlp/logs/v1"
)

const vPkgTag = "log"
const vCanStop = false

type vUploader struct {
	upload      func(context.Context) error
	stop        func() error
	waitStopped func()
	close       func()
	request     proto.Message
}

type vFake struct{ core *vCore }

func (f vFake) Export(ctx context.Context, in *collogpb.ExportLogsServiceRequest, _ ...grpc.CallOption) (*collogpb.ExportLogsServiceResponse, error) {
	has, rej, msg, err := f.core.next(ctx, in)
	if err != nil && !has {
		return nil, err
	}
	resp := &collogpb.ExportLogsServiceResponse{}
	if has {
		resp.PartialSuccess = &collogpb.ExportLogsPartialSuccess{RejectedLogRecords: rej, ErrorMessage: msg}
	}
	return resp, err
}

// one never-connecting ClientConn shared by all clients of the run (handed over with WithGRPCConn)
var vConn *grpc.ClientConn
var vConnOnce sync.Once

func vSharedConn() *grpc.ClientConn {
	vConnOnce.Do(func() {
		c, err := grpc.NewClient("verif.invalid:4317", grpc.WithTransportCredentials(insecure.NewCredentials()))
		if err != nil {
			panic(err)
		}
		vConn = c
	})
	return vConn
}

func vCloseAll() {
	if vConn != nil {
		_ = vConn.Close()
	}
}

// vTimeoutOpts: the client timeout dimension (d: option absent = default 10 s, p: 30 s, z: 0 = none, q: 30 ms)
func vTimeoutOpts(to string) []Option {
	switch to {
	case "p":
		return []Option{WithTimeout(30 * time.Second)}
	case "z":
		return []Option{WithTimeout(0)}
	case "q":
		return []Option{WithTimeout(30 * time.Millisecond)}
	}
	return nil
}

func vNewClient(core *vCore, rc RetryConfig, to string) *client {
	cfg := newConfig(append([]Option{WithGRPCConn(vSharedConn()), WithRetry(rc)}, vTimeoutOpts(to)...))
	c, err := newClient(cfg)
	if err != nil {
		panic(err)
	}
	c.lsc = vFake{core}
	return c
}

// vExporter: what the `shut` scenario drives — the package's Exporter (Export / Shutdown) over the scripted client.
type vExporter struct {
	export   func(context.Context) error
	shutdown func(context.Context) error
	close    func()
}

func vNewExporter(core *vCore, rc RetryConfig, to string) *vExporter {
	e := newExporter(vNewClient(core, rc, to))
	recs := make([]sdklog.Record, 1)
	recs[0].SetSeverityText("verif-c14")
	return &vExporter{
		export:   func(ctx context.Context) error { return e.Export(ctx, recs) },
		shutdown: e.Shutdown,
		close:    func() {},
	}
}

func vNewUploader(core *vCore, rc RetryConfig, to string) *vUploader {
	c := vNewClient(core, rc, to)
	rl := []*logpb.ResourceLogs{{ScopeLogs: []*logpb.ScopeLogs{{LogRecords: []*logpb.LogRecord{{
		TimeUnixNano: 1, ObservedTimeUnixNano: 2, SeverityText: "verif-c14"}}}}}}
	return &vUploader{
		upload:      func(ctx context.Context) error { return c.UploadLogs(ctx, rl) },
		stop:        func() error { return nil },
		waitStopped: func() {},
		close:       func() {},
		request:     &collogpb.ExportLogsServiceRequest{ResourceLogs: rl},
	}
}
