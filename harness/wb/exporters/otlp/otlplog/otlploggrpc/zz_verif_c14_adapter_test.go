package otlploggrpc

// C14: package specific part of the gRPC client harness (how a client is built and one upload is made).

import (
	"context"
	"sync"

	"google.golang.org/grpc"
	"google.golang.org/grpc/credentials/insecure"
	"google.golang.org/protobuf/proto"

	collogpb "go.opentelemetry.io/proto/otlp/collector/logs/v1"
	logpb "go.opentelemetry.io/proto/otlp/logs/v1"
)

const vPkgTag = "log"
const vCanStop = false

type vUploader struct {
	upload      func(context.Context) error
	stop        func()
	waitStopped func()
	close       func()
	request     proto.Message
}

type vFake struct{ core *vCore }

func (f vFake) Export(ctx context.Context, in *collogpb.ExportLogsServiceRequest, _ ...grpc.CallOption) (*collogpb.ExportLogsServiceResponse, error) {
	has, rej, msg, err := f.core.next(ctx, in)
	if err != nil && !has {
		return nil, err
	}
	resp := &collogpb.ExportLogsServiceResponse{}
	if has {
		resp.PartialSuccess = &collogpb.ExportLogsPartialSuccess{RejectedLogRecords: rej, ErrorMessage: msg}
	}
	return resp, err
}

// one never-connecting ClientConn shared by all clients of the run (handed over with WithGRPCConn)
var vConn *grpc.ClientConn
var vConnOnce sync.Once

func vSharedConn() *grpc.ClientConn {
	vConnOnce.Do(func() {
		c, err := grpc.NewClient("verif.invalid:4317", grpc.WithTransportCredentials(insecure.NewCredentials()))
		if err != nil {
			panic(err)
		}
		vConn = c
	})
	return vConn
}

func vCloseAll() {
	if vConn != nil {
		_ = vConn.Close()
	}
}

func vNewUploader(core *vCore, rc RetryConfig) *vUploader {
	cfg := newConfig([]Option{WithGRPCConn(vSharedConn()), WithRetry(rc)})
	c, err := newClient(cfg)
	if err != nil {
		panic(err)
	}
	c.lsc = vFake{core}
	rl := []*logpb.ResourceLogs{{ScopeLogs: []*logpb.ScopeLogs{{LogRecords: []*logpb.LogRecord{{
		TimeUnixNano: 1, ObservedTimeUnixNano: 2, SeverityText: "verif-c14"}}}}}}
	return &vUploader{
		upload:      func(ctx context.Context) error { return c.UploadLogs(ctx, rl) },
		stop:        func() {},
		waitStopped: func() {},
		close:       func() {},
		request:     &collogpb.ExportLogsServiceRequest{ResourceLogs: rl},
	}
}
