package otlploggrpc

// C14 correspondence harness, gRPC clients (generic part; identical in the three gRPC exporter packages except
// for the package clause — the package specific part is zz_verif_c14_adapter_test.go).
//
// The generated service client of the package's client struct is replaced by a scripted one, so every upload
// goes through the real Upload path: partial-success handling, status.Code check, `retryable`,
// retry.RequestFunc with the REAL wait, exportContext / stop context.
//
//   clsg <gen> <resp> => <ok:<handled>|fatal|retry:<throttle ns>>
//        one upload with retry disabled; the returned error goes through the package's `retryable`
//   upg <gen> <pkg> <enabled> <M 0|H|T> <cancel -|pre|at<j>|stop<j>> <resp> | <resp> …
//        => <res> <attempts> s<0|1> h<n> g<bits|-> p<0|1|->       (same meaning as the HTTP `uph` line)
//   resp: <code>;<details>;<partial>   code: 0..99 | w<code> (status error wrapped with %w) | e (plain error = 2)
//   details: - | d.d.d with d = n (another detail type) | r<ns> (RetryInfo) | z (RetryInfo without delay)
//   partial: - | <rejected>:<msg hex>   (only with code 0)

import (
	"context"
	"errors"
	"fmt"
	"strconv"
	"strings"
	"sync"
	"testing"
	"time"

	"google.golang.org/genproto/googleapis/rpc/errdetails"
	"google.golang.org/grpc/codes"
	"google.golang.org/grpc/status"
	"google.golang.org/protobuf/proto"
	"google.golang.org/protobuf/protoadapt"
	"google.golang.org/protobuf/types/known/durationpb"

	"go.opentelemetry.io/otel"
)

type vGItem struct {
	err     error
	partial bool
	rej     int64
	msg     string
	hint    time.Duration
}

// vCore is the scripted collector behind the typed fake service client of the adapter.
type vCore struct {
	mu        sync.Mutex
	script    []vGItem
	reqs      []proto.Message
	arrive    []time.Time
	answered  []time.Time
	hook      func(i int)
	ctxAware  bool
	exhausted bool
}

// next returns (has partial success, rejected, message, error) for the next call.
func (c *vCore) next(ctx context.Context, req proto.Message) (bool, int64, string, error) {
	now := time.Now()
	c.mu.Lock()
	i := len(c.reqs)
	c.reqs = append(c.reqs, proto.Clone(req))
	c.arrive = append(c.arrive, now)
	c.mu.Unlock()
	defer func() {
		c.mu.Lock()
		c.answered = append(c.answered, time.Now())
		c.mu.Unlock()
	}()
	if c.ctxAware && ctx.Err() != nil {
		// what a real ClientConn does with a context that is already done
		return false, 0, "", status.FromContextError(ctx.Err()).Err()
	}
	if c.hook != nil {
		c.hook(i)
	}
	if i >= len(c.script) {
		c.exhausted = true
		return false, 0, "", status.Error(codes.InvalidArgument, "verif script exhausted")
	}
	it := c.script[i]
	return it.partial, it.rej, it.msg, it.err
}

func vParseG(tok string) (vGItem, bool) {
	p := strings.Split(tok, ";")
	if len(p) != 3 {
		return vGItem{}, false
	}
	var it vGItem
	wrapped := false
	cs := p[0]
	if cs == "e" {
		it.err = errors.New("verif plain error")
	} else {
		if cs[0] == 'w' {
			wrapped, cs = true, cs[1:]
		}
		code, err := strconv.Atoi(cs)
		if err != nil {
			return it, false
		}
		if code != 0 {
			st := status.New(codes.Code(code), "verif")
			if p[1] != "-" {
				var details []protoadapt.MessageV1
				first := true
				for _, d := range strings.Split(p[1], ".") {
					switch d[0] {
					case 'n':
						details = append(details, &errdetails.DebugInfo{Detail: "verif"})
					case 'z':
						details = append(details, &errdetails.RetryInfo{})
						first = false
					case 'r':
						ns, _ := strconv.ParseInt(d[1:], 10, 64)
						details = append(details, &errdetails.RetryInfo{RetryDelay: durationpb.New(time.Duration(ns))})
						if first {
							it.hint = time.Duration(ns)
						}
						first = false
					default:
						return it, false
					}
				}
				st2, err := st.WithDetails(details...)
				if err != nil {
					return it, false
				}
				st = st2
			}
			it.err = st.Err()
			if wrapped {
				it.err = fmt.Errorf("verif wrap: %w", it.err)
			}
		}
	}
	if p[2] != "-" {
		q := strings.Split(p[2], ":")
		it.partial = true
		it.rej, _ = strconv.ParseInt(q[0], 10, 64)
		it.msg = vUnhex(q[1])
	}
	return it, true
}

var vHandled struct {
	mu sync.Mutex
	n  int
}
var vSetupOnce sync.Once

func vSetup() {
	vSetupOnce.Do(func() {
		otel.SetErrorHandler(otel.ErrorHandlerFunc(func(error) {
			vHandled.mu.Lock()
			vHandled.n++
			vHandled.mu.Unlock()
		}))
	})
}

func vTakeHandled() int {
	vHandled.mu.Lock()
	defer vHandled.mu.Unlock()
	n := vHandled.n
	vHandled.n = 0
	return n
}

func vB(b bool) int {
	if b {
		return 1
	}
	return 0
}

func vCls(out *vOut, gen, tok string) {
	it, ok := vParseG(tok)
	if !ok {
		return
	}
	core := &vCore{script: []vGItem{it}}
	up := vNewUploader(core, RetryConfig{Enabled: false})
	defer up.close()
	vTakeHandled()
	err := up.upload(context.Background())
	h := vTakeHandled()
	o := ""
	if err == nil {
		o = fmt.Sprintf("ok:%d", h)
	} else if r, th := retryable(err); r {
		o = fmt.Sprintf("retry:%d", int64(th))
	} else {
		o = "fatal"
	}
	if len(core.reqs) != 1 {
		o += fmt.Sprintf("!attempts=%d", len(core.reqs))
	}
	out.Line("clsg %s %s => %s", gen, tok, o)
}

func vUp(out *vOut, gen string, enabled bool, msel, cancelMode string, toks []string) {
	var script []vGItem
	for _, t := range toks {
		it, ok := vParseG(t)
		if !ok {
			return
		}
		script = append(script, it)
	}
	rc := RetryConfig{Enabled: enabled, InitialInterval: 1, MaxInterval: 1}
	switch msel {
	case "H":
		rc.MaxElapsedTime = time.Hour
	case "T":
		rc.MaxElapsedTime = 1
	}
	if cancelMode != "-" {
		rc.InitialInterval, rc.MaxInterval = 4*time.Millisecond, 4*time.Millisecond
		if strings.HasSuffix(cancelMode, "0") || cancelMode == "pre" {
			rc.InitialInterval, rc.MaxInterval = time.Hour, time.Hour
		}
	}
	core := &vCore{script: script, ctxAware: cancelMode == "pre"}
	up := vNewUploader(core, rc)
	defer up.close()
	ctx, cancel := context.WithCancel(context.Background())
	defer cancel()
	var cancelTime time.Time
	var stopDone chan struct{}
	switch {
	case cancelMode == "pre":
		cancel()
	case strings.HasPrefix(cancelMode, "at"):
		j, _ := strconv.Atoi(cancelMode[2:])
		core.hook = func(i int) {
			if i == j {
				cancelTime = time.Now()
				cancel()
			}
		}
	case strings.HasPrefix(cancelMode, "stop"):
		j, _ := strconv.Atoi(cancelMode[4:])
		core.hook = func(i int) {
			if i == j {
				cancelTime = time.Now()
				stopDone = make(chan struct{})
				go func() { defer close(stopDone); up.stop() }()
				// the shutdown has to have fired its stop context before the scripted answer is returned
				up.waitStopped()
			}
		}
	}
	vTakeHandled()
	err := up.upload(ctx)
	tAfter := time.Now()
	if stopDone != nil {
		<-stopDone
	}
	h := vTakeHandled()
	n := len(core.reqs)
	res := "fatal"
	switch {
	case err == nil:
		res = "ok"
	case n == 0 && errors.Is(err, context.Canceled):
		res = "ctx"
	case strings.HasPrefix(err.Error(), "max retry time elapsed: "):
		res = "elapsed"
	case strings.HasPrefix(err.Error(), "max retry time would elapse: "):
		res = "would"
	case errors.Is(err, context.Canceled):
		res = "cancel"
	case func() bool { r, _ := retryable(err); return r }():
		res = "retry"
	}
	if core.exhausted {
		res = "exhausted"
	}
	same := 1
	for _, q := range core.reqs {
		if !proto.Equal(q, up.request) {
			same = 0
		}
	}
	g := ""
	for i := 0; i+1 < n && i < len(script) && i < len(core.answered); i++ {
		if core.arrive[i+1].Sub(core.answered[i]) >= script[i].hint {
			g += "1"
		} else {
			g += "0"
		}
	}
	if g == "" {
		g = "-"
	}
	p := "-"
	if !cancelTime.IsZero() {
		p = "0"
		if tAfter.Sub(cancelTime) < 2*time.Second {
			p = "1"
		}
	}
	out.Line("upg %s %s %d %s %s %s => %s %d s%d h%d g%s p%s", gen, vPkgTag, vB(enabled), msel, cancelMode,
		strings.Join(toks, " | "), res, n, same, h, g, p)
}

var vDetails = []string{"-", "r0", "r1", "r2000000", "z", "n", "n.r1500000", "r1000000.n", "n.n", "r-4", "r3000000.r1"}

func vRandG(r *vRand, retryBias bool) string {
	code := ""
	switch r.Intn(10) {
	case 0, 1, 2, 3:
		code = strconv.Itoa(vPick(r, []int{1, 4, 8, 8, 10, 11, 14, 15}))
	case 4:
		code = "0"
	case 5:
		code = strconv.Itoa(vPick(r, []int{2, 3, 5, 6, 7, 9, 12, 13, 16, 17}))
	case 6:
		code = vPick(r, []string{"e", "w14", "w8", "w3"})
	default:
		if retryBias {
			code = strconv.Itoa(vPick(r, []int{14, 8, 4}))
		} else {
			code = "0"
		}
	}
	det := "-"
	if code != "0" && code != "e" && r.Intn(2) == 0 {
		det = vPick(r, vDetails)
	}
	part := "-"
	if code == "0" && r.Intn(2) == 0 {
		part = fmt.Sprintf("%d:%s", vPick(r, []int64{0, 0, 2, -1}), vHex(vPick(r, []string{"", "", "quota"})))
	}
	return code + ";" + det + ";" + part
}

func TestVerifC14Client(t *testing.T) {
	out := vOpen(t)
	defer out.Close()
	vSetup()
	defer vCloseAll()
	if rp := vReplayLines(); rp != nil {
		for _, f := range rp {
			switch {
			case f[0] == "clsg" && len(f) >= 3:
				vCls(out, f[1], f[2])
			case f[0] == "upg" && len(f) >= 7:
				var toks []string
				for _, x := range f[6:] {
					if x != "|" {
						toks = append(toks, x)
					}
				}
				vUp(out, f[1], f[3] == "1", f[4], f[5], toks)
			}
		}
		return
	}
	r := &vRand{s: vSeed()}
	n := vN(600)
	// (i) classification: all codes (and two beyond the defined ones) x the detail table; plain and wrapped
	for code := 0; code <= 18; code++ {
		if code == 0 {
			vCls(out, "exh", "0;-;-")
			for _, rej := range []int64{0, 5, -1} {
				for _, m := range []string{"", "slow down"} {
					vCls(out, "partial", fmt.Sprintf("0;-;%d:%s", rej, vHex(m)))
				}
			}
			continue
		}
		for _, d := range append(append([]string{}, vDetails...), "r3000000000", "r4611686018427387904") {
			vCls(out, "exh", fmt.Sprintf("%d;%s;-", code, d))
			vCls(out, "wrap", fmt.Sprintf("w%d;%s;-", code, d))
		}
	}
	vCls(out, "plain", "e;-;-")
	vCls(out, "exh", "99;r5;-")
	for i := 0; i < n/2; i++ {
		vCls(out, "rnd", vRandG(r, false))
	}
	// (ii)+(iii) whole uploads
	for i := 0; i < n; i++ {
		k := r.Intn(5)
		var toks []string
		slow := 0
		for j := 0; j < k; j++ {
			t := vRandG(r, true)
			if strings.Contains(t, "000") { // ms-scale RetryInfo: at most two real waits per case
				slow++
				if slow > 2 {
					t = strings.Split(t, ";")[0] + ";r1;-"
				}
			}
			toks = append(toks, t)
		}
		toks = append(toks, vPick(r, []string{"0;-;-", "0;-;-", "3;-;-", "0;-;2:" + vHex("partial"), "8;-;-", "e;-;-"}))
		enabled := r.Intn(8) != 0
		msel := vPick(r, []string{"0", "H", "H", "H", "T"})
		cancelMode := "-"
		gen := "rnd"
		if enabled && k > 0 && r.Intn(5) == 0 {
			msel = "0"
			switch c := r.Intn(4); {
			case c == 0:
				cancelMode, gen = "pre", "pre"
			case c == 1 && vCanStop:
				cancelMode, gen = fmt.Sprintf("stop%d", r.Intn(min(k, 2))), "stop"
			default:
				cancelMode, gen = fmt.Sprintf("at%d", r.Intn(min(k, 2))), "cancel"
			}
		}
		vUp(out, gen, enabled, msel, cancelMode, toks)
	}
	// RetryInfo honoured end to end, always present
	vUp(out, "hint", true, "H", "-", []string{"14;r3000000;-", "8;n.r2000000;-", "0;-;-"})
}
