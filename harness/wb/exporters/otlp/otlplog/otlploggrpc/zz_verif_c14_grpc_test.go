package otlploggrpc

// C14 correspondence harness, gRPC clients (generic part; identical in the three gRPC exporter packages except
// for the package clause — the package specific part is zz_verif_c14_adapter_test.go).
//
// The generated service client of the package's client struct is replaced by a scripted one, so every upload
// goes through the real Upload path: partial-success handling, status.Code check, `retryable`,
// retry.RequestFunc with the REAL wait, exportContext / stop context.
//
//   clsg <gen> <resp> => <ok:<handled>|fatal|retry:<throttle ns>>
//        one upload with retry disabled; the returned error goes through the package's `retryable`
//   upg <gen> <pkg>,t<d|p|z|q> <enabled> <M 0|H|T> <cancel -|pre|at<j>|stop<j>|dl0> <resp> | <resp> …
//        => <res> <attempts> s<0|1> h<n> g<bits|-> p<0|1|-> S<-|nil|ctx|other|stuck>   (as the HTTP `uph` line)
//     t: client timeout option — d none given (default 10 s), p WithTimeout(30 s), z WithTimeout(0) = none,
//        q WithTimeout(30 ms) (only with cancel dl0: the client's own deadline ends the first retry wait)
//     p: the upload returned within 2 s of the cancellation / stop signal (0 = it was still pending then: the
//        harness's watchdog released it by cancelling the caller's context); S: what Stop returned (stuck = not
//        within 2 s of being called)
//   shutg <gen> <pkg>,t<d|p|z> <pend backoff|stall> => S<nil|ctx|other|stuck> E<nil|ctx|other|stuck> n<attempts>
//     an export is pending (1 h retry back-off after Unavailable, or an attempt the collector never answers), then
//     Shutdown/Stop is called with a 100 ms deadline; S/E = what Shutdown and the pending export had returned at the
//     final observation 2 s later (judged by outcome only); afterwards the caller's context is cancelled.
//   resp: <code>;<details>;<partial>   code: 0..99 | w<code> (status error wrapped with %w) | e (plain error = 2)
//   details: - | d.d.d with d = n (another detail type) | r<ns> (RetryInfo) | z (RetryInfo without delay)
//   partial: - | <rejected>:<msg hex>   (only with code 0)

import (
	"context"
	"errors"
	"fmt"
	"strconv"
	"strings"
	"sync"
	"testing"
	"time"

	"google.golang.org/genproto/googleapis/rpc/errdetails"
	"google.golang.org/grpc/codes"
	"google.golang.org/grpc/status"
	"google.golang.org/protobuf/proto"
	"google.golang.org/protobuf/protoadapt"
	"google.golang.org/protobuf/types/known/durationpb"

	"go.opentelemetry.io/otel"
)

type vGItem struct {
	err     error
	partial bool
	rej     int64
	msg     string
	hint    time.Duration
}

// vCore is the scripted collector behind the typed fake service client of the adapter.
type vCore struct {
	mu        sync.Mutex
	script    []vGItem
	reqs      []proto.Message
	arrive    []time.Time
	answered  []time.Time
	hook      func(i int)
	ctxAware  bool
	stall     bool // the collector never answers: the attempt ends only with its context
	exhausted bool
}

// next returns (has partial success, rejected, message, error) for the next call.
func (c *vCore) next(ctx context.Context, req proto.Message) (bool, int64, string, error) {
	now := time.Now()
	c.mu.Lock()
	i := len(c.reqs)
	c.reqs = append(c.reqs, proto.Clone(req))
	c.arrive = append(c.arrive, now)
	c.mu.Unlock()
	defer func() {
		c.mu.Lock()
		c.answered = append(c.answered, time.Now())
		c.mu.Unlock()
	}()
	if c.ctxAware && ctx.Err() != nil {
		// what a real ClientConn does with a context that is already done
		return false, 0, "", status.FromContextError(ctx.Err()).Err()
	}
	if c.hook != nil {
		c.hook(i)
	}
	if c.stall {
		<-ctx.Done()
		return false, 0, "", status.FromContextError(ctx.Err()).Err()
	}
	if i >= len(c.script) {
		c.exhausted = true
		return false, 0, "", status.Error(codes.InvalidArgument, "verif script exhausted")
	}
	it := c.script[i]
	return it.partial, it.rej, it.msg, it.err
}

func vParseG(tok string) (vGItem, bool) {
	p := strings.Split(tok, ";")
	if len(p) != 3 {
		return vGItem{}, false
	}
	var it vGItem
	wrapped := false
	cs := p[0]
	if cs == "e" {
		it.err = errors.New("verif plain error")
	} else {
		if cs[0] == 'w' {
			wrapped, cs = true, cs[1:]
		}
		code, err := strconv.Atoi(cs)
		if err != nil {
			return it, false
		}
		if code != 0 {
			st := status.New(codes.Code(code), "verif")
			if p[1] != "-" {
				var details []protoadapt.MessageV1
				first := true
				for _, d := range strings.Split(p[1], ".") {
					switch d[0] {
					case 'n':
						details = append(details, &errdetails.DebugInfo{Detail: "verif"})
					case 'z':
						details = append(details, &errdetails.RetryInfo{})
						first = false
					case 'r':
						ns, _ := strconv.ParseInt(d[1:], 10, 64)
						details = append(details, &errdetails.RetryInfo{RetryDelay: durationpb.New(time.Duration(ns))})
						if first {
							it.hint = time.Duration(ns)
						}
						first = false
					default:
						return it, false
					}
				}
				st2, err := st.WithDetails(details...)
				if err != nil {
					return it, false
				}
				st = st2
			}
			it.err = st.Err()
			if wrapped {
				it.err = fmt.Errorf("verif wrap: %w", it.err)
			}
		}
	}
	if p[2] != "-" {
		q := strings.Split(p[2], ":")
		it.partial = true
		it.rej, _ = strconv.ParseInt(q[0], 10, 64)
		it.msg = vUnhex(q[1])
	}
	return it, true
}

var vHandled struct {
	mu sync.Mutex
	n  int
}
var vSetupOnce sync.Once

func vSetup() {
	vSetupOnce.Do(func() {
		otel.SetErrorHandler(otel.ErrorHandlerFunc(func(error) {
			vHandled.mu.Lock()
			vHandled.n++
			vHandled.mu.Unlock()
		}))
	})
}

func vTakeHandled() int {
	vHandled.mu.Lock()
	defer vHandled.mu.Unlock()
	n := vHandled.n
	vHandled.n = 0
	return n
}

func vB(b bool) int {
	if b {
		return 1
	}
	return 0
}

func vCls(out *vOut, gen, tok string) {
	it, ok := vParseG(tok)
	if !ok {
		return
	}
	core := &vCore{script: []vGItem{it}}
	up := vNewUploader(core, RetryConfig{Enabled: false}, "d")
	defer up.close()
	vTakeHandled()
	err := up.upload(context.Background())
	h := vTakeHandled()
	o := ""
	if err == nil {
		o = fmt.Sprintf("ok:%d", h)
	} else if r, th := retryable(err); r {
		o = fmt.Sprintf("retry:%d", int64(th))
	} else {
		o = "fatal"
	}
	if len(core.reqs) != 1 {
		o += fmt.Sprintf("!attempts=%d", len(core.reqs))
	}
	out.Line("clsg %s %s => %s", gen, tok, o)
}

func vUp(out *vOut, gen, to string, enabled bool, msel, cancelMode string, toks []string) {
	var script []vGItem
	for _, t := range toks {
		it, ok := vParseG(t)
		if !ok {
			return
		}
		script = append(script, it)
	}
	rc := RetryConfig{Enabled: enabled, InitialInterval: 1, MaxInterval: 1}
	switch msel {
	case "H":
		rc.MaxElapsedTime = time.Hour
	case "T":
		rc.MaxElapsedTime = 1
	}
	if cancelMode != "-" {
		rc.InitialInterval, rc.MaxInterval = 4*time.Millisecond, 4*time.Millisecond
		if strings.HasSuffix(cancelMode, "0") || cancelMode == "pre" {
			rc.InitialInterval, rc.MaxInterval = time.Hour, time.Hour
		}
	}
	core := &vCore{script: script, ctxAware: cancelMode == "pre"}
	up := vNewUploader(core, rc, to)
	defer up.close()
	ctx, cancel := context.WithCancel(context.Background())
	defer cancel()
	var cancelTime time.Time
	var stopDone chan struct{}
	var stopErr error
	var stopTook time.Duration
	sig := make(chan struct{}) // closed when the cancellation / stop signal has been given
	var sigOnce sync.Once
	switch {
	case cancelMode == "pre":
		cancel()
	case cancelMode == "dl0":
		// nothing to do: the client's own 30 ms timeout is the event (the watchdog is armed from the start)
		cancelTime = time.Now().Add(30 * time.Millisecond)
		sigOnce.Do(func() { close(sig) })
	case strings.HasPrefix(cancelMode, "at"):
		j, _ := strconv.Atoi(cancelMode[2:])
		core.hook = func(i int) {
			if i == j {
				cancelTime = time.Now()
				cancel()
				sigOnce.Do(func() { close(sig) })
			}
		}
	case strings.HasPrefix(cancelMode, "stop"):
		j, _ := strconv.Atoi(cancelMode[4:])
		core.hook = func(i int) {
			if i == j {
				cancelTime = time.Now()
				stopDone = make(chan struct{})
				go func() {
					defer close(stopDone)
					t0 := time.Now()
					stopErr = up.stop()
					stopTook = time.Since(t0)
				}()
				// the shutdown has to have fired its stop context before the scripted answer is returned
				up.waitStopped()
				sigOnce.Do(func() { close(sig) })
			}
		}
	}
	vTakeHandled()
	// the upload runs under a watchdog: if it is still pending 2 s after the cancellation / stop signal it is
	// released through the caller's context, so that a stuck export is an observation (p0), not a hung harness
	done := make(chan error, 1)
	go func() { done <- up.upload(ctx) }()
	var err error
	stuck := false
	select {
	case err = <-done:
	case <-sig:
		select {
		case err = <-done:
		case <-time.After(2 * time.Second):
			stuck = true
			cancel()
			err = <-done
		}
	}
	tAfter := time.Now()
	sres := "-"
	if stopDone != nil {
		<-stopDone
		switch {
		case stopTook >= 2*time.Second:
			sres = "stuck"
		case stopErr == nil:
			sres = "nil"
		case errors.Is(stopErr, context.Canceled) || errors.Is(stopErr, context.DeadlineExceeded):
			sres = "ctx"
		default:
			sres = "other"
		}
	}
	h := vTakeHandled()
	n := len(core.reqs)
	res := "fatal"
	switch {
	case err == nil:
		res = "ok"
	case n == 0 && errors.Is(err, context.Canceled):
		res = "ctx"
	case strings.HasPrefix(err.Error(), "max retry time elapsed: "):
		res = "elapsed"
	case strings.HasPrefix(err.Error(), "max retry time would elapse: "):
		res = "would"
	case errors.Is(err, context.Canceled) || (cancelMode == "dl0" && errors.Is(err, context.DeadlineExceeded)):
		res = "cancel"
	case func() bool { r, _ := retryable(err); return r }():
		res = "retry"
	}
	if core.exhausted {
		res = "exhausted"
	}
	same := 1
	for _, q := range core.reqs {
		if !proto.Equal(q, up.request) {
			same = 0
		}
	}
	g := ""
	for i := 0; i+1 < n && i < len(script) && i < len(core.answered); i++ {
		if core.arrive[i+1].Sub(core.answered[i]) >= script[i].hint {
			g += "1"
		} else {
			g += "0"
		}
	}
	if g == "" {
		g = "-"
	}
	p := "-"
	if !cancelTime.IsZero() {
		p = "0"
		if !stuck && tAfter.Sub(cancelTime) < 2*time.Second {
			p = "1"
		}
	}
	out.Line("upg %s %s,t%s %d %s %s %s => %s %d s%d h%d g%s p%s S%s", gen, vPkgTag, to, vB(enabled), msel, cancelMode,
		strings.Join(toks, " | "), res, n, same, h, g, p, sres)
}

func vErrClass(err error) string {
	switch {
	case err == nil:
		return "nil"
	case errors.Is(err, context.Canceled) || errors.Is(err, context.DeadlineExceeded):
		return "ctx"
	}
	return "other"
}

// vShut: an export is pending, then the exporter is shut down with a short deadline (see the header).
func vShut(gen, to, pend string) string {
	rc := RetryConfig{Enabled: true, InitialInterval: time.Hour, MaxInterval: time.Hour}
	st, _ := vParseG("14;-;-")
	core := &vCore{script: []vGItem{st, st, st}, stall: pend == "stall"}
	ex := vNewExporter(core, rc, to)
	defer ex.close()
	ctx, release := context.WithCancel(context.Background())
	defer release()
	expDone := make(chan error, 1)
	go func() { expDone <- ex.export(ctx) }()
	// wait until the first attempt has reached the collector (and, for back-off, has been answered)
	for t0 := time.Now(); time.Since(t0) < 10*time.Second; time.Sleep(200 * time.Microsecond) {
		core.mu.Lock()
		a, b := len(core.arrive), len(core.answered)
		core.mu.Unlock()
		if a >= 1 && (pend == "stall" || b >= 1) {
			break
		}
	}
	time.Sleep(5 * time.Millisecond)
	sctx, c2 := context.WithTimeout(context.Background(), 100*time.Millisecond)
	defer c2()
	shDone := make(chan error, 1)
	go func() { shDone <- ex.shutdown(sctx) }()
	sres, eres := "stuck", "stuck"
	final := time.After(2 * time.Second)
	var shErr, exErr error
	shRet, exRet := false, false
obs:
	for !(shRet && exRet) {
		select {
		case shErr = <-shDone:
			shRet, sres = true, vErrClass(shErr)
		case exErr = <-expDone:
			exRet, eres = true, vErrClass(exErr)
		case <-final:
			break obs
		}
	}
	core.mu.Lock()
	n := len(core.arrive)
	core.mu.Unlock()
	// release whatever is still pending: the caller gives up
	release()
	for _, w := range []struct {
		ret bool
		ch  chan error
	}{{shRet, shDone}, {exRet, expDone}} {
		if !w.ret {
			select {
			case <-w.ch:
			case <-time.After(20 * time.Second):
				panic("verif: export/shutdown still blocked 20 s after the caller's context was cancelled")
			}
		}
	}
	return fmt.Sprintf("shutg %s %s,t%s %s => S%s E%s n%d", gen, vPkgTag, to, pend, sres, eres, n)
}

func vToOf(tok string) string {
	for _, p := range strings.Split(tok, ",")[1:] {
		if len(p) == 2 && p[0] == 't' {
			return p[1:]
		}
	}
	return "d"
}

var vDetails = []string{"-", "r0", "r1", "r2000000", "z", "n", "n.r1500000", "r1000000.n", "n.n", "r-4", "r3000000.r1"}

func vRandG(r *vRand, retryBias bool) string {
	code := ""
	switch r.Intn(10) {
	case 0, 1, 2, 3:
		code = strconv.Itoa(vPick(r, []int{1, 4, 8, 8, 10, 11, 14, 15}))
	case 4:
		code = "0"
	case 5:
		code = strconv.Itoa(vPick(r, []int{2, 3, 5, 6, 7, 9, 12, 13, 16, 17}))
	case 6:
		code = vPick(r, []string{"e", "w14", "w8", "w3"})
	default:
		if retryBias {
			code = strconv.Itoa(vPick(r, []int{14, 8, 4}))
		} else {
			code = "0"
		}
	}
	det := "-"
	if code != "0" && code != "e" && r.Intn(2) == 0 {
		det = vPick(r, vDetails)
	}
	part := "-"
	if code == "0" && r.Intn(2) == 0 {
		part = fmt.Sprintf("%d:%s", vPick(r, []int64{0, 0, 2, -1}), vHex(vPick(r, []string{"", "", "quota"})))
	}
	return code + ";" + det + ";" + part
}

func TestVerifC14Client(t *testing.T) {
	out := vOpen(t)
	defer out.Close()
	vSetup()
	defer vCloseAll()
	if rp := vReplayLines(); rp != nil {
		for _, f := range rp {
			switch {
			case f[0] == "clsg" && len(f) >= 3:
				vCls(out, f[1], f[2])
			case f[0] == "upg" && len(f) >= 7:
				var toks []string
				for _, x := range f[6:] {
					if x != "|" {
						toks = append(toks, x)
					}
				}
				vUp(out, f[1], vToOf(f[2]), f[3] == "1", f[4], f[5], toks)
			case f[0] == "shutg" && len(f) >= 4:
				out.Line("%s", vShut(f[1], vToOf(f[2]), f[3]))
			}
		}
		return
	}
	r := &vRand{s: vSeed()}
	n := vN(600)
	// (i) classification: all codes (and two beyond the defined ones) x the detail table; plain and wrapped
	for code := 0; code <= 18; code++ {
		if code == 0 {
			vCls(out, "exh", "0;-;-")
			for _, rej := range []int64{0, 5, -1} {
				for _, m := range []string{"", "slow down"} {
					vCls(out, "partial", fmt.Sprintf("0;-;%d:%s", rej, vHex(m)))
				}
			}
			continue
		}
		for _, d := range append(append([]string{}, vDetails...), "r3000000000", "r4611686018427387904") {
			vCls(out, "exh", fmt.Sprintf("%d;%s;-", code, d))
			vCls(out, "wrap", fmt.Sprintf("w%d;%s;-", code, d))
		}
	}
	vCls(out, "plain", "e;-;-")
	vCls(out, "exh", "99;r5;-")
	for i := 0; i < n/2; i++ {
		vCls(out, "rnd", vRandG(r, false))
	}
	// (ii)+(iii) whole uploads
	for i := 0; i < n; i++ {
		k := r.Intn(5)
		var toks []string
		slow := 0
		for j := 0; j < k; j++ {
			t := vRandG(r, true)
			if strings.Contains(t, "000") { // ms-scale RetryInfo: at most two real waits per case
				slow++
				if slow > 2 {
					t = strings.Split(t, ";")[0] + ";r1;-"
				}
			}
			toks = append(toks, t)
		}
		toks = append(toks, vPick(r, []string{"0;-;-", "0;-;-", "3;-;-", "0;-;2:" + vHex("partial"), "8;-;-", "e;-;-"}))
		enabled := r.Intn(8) != 0
		msel := vPick(r, []string{"0", "H", "H", "H", "T"})
		cancelMode := "-"
		gen := "rnd"
		if enabled && k > 0 && r.Intn(5) == 0 {
			msel = "0"
			switch c := r.Intn(4); {
			case c == 0:
				cancelMode, gen = "pre", "pre"
			case c == 1 && vCanStop:
				cancelMode, gen = fmt.Sprintf("stop%d", r.Intn(min(k, 2))), "stop"
			default:
				cancelMode, gen = fmt.Sprintf("at%d", r.Intn(min(k, 2))), "cancel"
			}
		}
		vUp(out, gen, vPick(r, []string{"d", "d", "p", "z", "z"}), enabled, msel, cancelMode, toks)
	}
	// RetryInfo honoured end to end, always present
	vUp(out, "hint", "d", true, "H", "-", []string{"14;r3000000;-", "8;n.r2000000;-", "0;-;-"})
	// every timeout configuration x {cancel, stop} in the first retry wait, always present
	for _, to := range []string{"d", "p", "z"} {
		vUp(out, "cancel", to, true, "0", "at0", []string{"14;-;-", "0;-;-"})
		if vCanStop {
			vUp(out, "stop", to, true, "0", "stop0", []string{"14;-;-", "0;-;-"})
			vUp(out, "stop", to, true, "0", "stop1", []string{"4;-;-", "14;-;-", "0;-;-"})
		}
	}
	// the client's own timeout ends a pending retry wait (gRPC: the timeout spans the whole upload)
	vUp(out, "deadline", "q", true, "0", "dl0", []string{"14;-;-", "0;-;-"})
	vUp(out, "deadline", "q", true, "H", "dl0", []string{"8;r1;-", "0;-;-"})
	// export pending -> Shutdown with a 100 ms deadline; the scenarios of one leg run concurrently
	var wg sync.WaitGroup
	lines := make([]string, 6)
	for i, to := range []string{"d", "p", "z"} {
		for j, pend := range []string{"backoff", "stall"} {
			wg.Add(1)
			go func() { defer wg.Done(); lines[2*i+j] = vShut("tab", to, pend) }()
		}
	}
	wg.Wait()
	for _, l := range lines {
		out.Line("%s", l)
	}
}
