package otlploghttp

// C14 correspondence harness, HTTP clients (generic part; identical in the three HTTP exporter packages except
// for the package clause — the package specific part is zz_verif_c14_adapter_test.go).
//
// A scripted RoundTripper is registered for the "http" scheme on the package's `ourTransport`
// (http.Transport.RegisterProtocol), so clients are built by the package's own constructors and every request
// goes through the real Upload path: newRequest, request.reset, http.Client.Do, status handling,
// newResponseError, evaluate, retry.RequestFunc with the REAL wait.
//
//   clsh <gen> <resp> => <ok:<handled>|fatal|retry:<throttle ns>>
//        one upload with retry disabled; the returned error goes through the package's `evaluate`
//   uph <gen> <pkg>,gz<0|1>,t<d|p|z|q>,c<d|t|p|b> <enabled> <M 0|H|T> <cancel -|pre|at<j>|stop<j>> <resp> | <resp> …
//        => <res> <attempts> s<0|1> h<n> g<bits|-> p<0|1|-> S<-|nil|ctx|other|stuck>
//     t: client timeout option — d none given (default 10 s), p WithTimeout(30 s), z WithTimeout(0) = none, q WithTimeout(80 ms)
//     c: construction path of the client — d shared package-level transport, t WithTLSClientConfig, p WithProxy, b both
//        (t/p/b: the constructor clones the transport; the scripted protocol is then registered on the clone, which is
//        still the http.Client the constructor built; otlploghttp: ignored, see its adapter)
//     resp net 3: the request is accepted and never answered (ends only with the request context, i.e. http.Client.Timeout)
//        (http.Client.Timeout: per attempt, 0 = no limit)
//     p: the upload returned within 2 s of the cancellation / Stop (0 = still pending then: the harness's watchdog
//        released it through the caller's context); S: what Stop returned (stuck = not within 2 s)
//   shuth <gen> <pkg>,t<d|p|z> <pend backoff|stall> => S<nil|ctx|other|stuck> E<nil|ctx|other|stuck> n<attempts>
//     an export is pending (1 h retry back-off after 503, or a request the collector never answers), then
//     Shutdown/Stop is called with a 100 ms deadline; S/E = what Shutdown and the pending export had returned at the
//     final observation 2 s later (judged by outcome only); afterwards the caller's context is cancelled.
//     M: MaxElapsedTime 0 (none) | H (1 h) | T (1 ns);  res: ok|fatal|retry|elapsed|would|cancel|ctx
//     s: every attempt carried the same bytes and they are the expected (possibly gzipped) request message
//     h: number of errors handed to otel.Handle; g: per wait, 1 iff the next request arrived no earlier than
//     the Retry-After seconds after the previous answer; p: returned within 2 s of the cancellation
//   resp: <status>;<Retry-After value hex|->;<net 0 response|1 temporary error|2 other error>;<body>
//   body: e | p<ct>:<rejected>:<msg hex> | n<ct> | g<ct>   (ct 1 = application/x-protobuf)

import (
	"bytes"
	"compress/gzip"
	"context"
	"errors"
	"fmt"
	"io"
	"net/http"
	"strconv"
	"strings"
	"sync"
	"testing"
	"time"

	"go.opentelemetry.io/otel"
)

type vTempErr struct{}

func (vTempErr) Error() string   { return "verif temporary network error" }
func (vTempErr) Temporary() bool { return true }
func (vTempErr) Timeout() bool   { return false }

type vHTTPItem struct {
	status int
	hdr    *string
	net    int
	body   []byte
	ct     string
}

type vRT struct {
	mu        sync.Mutex
	script    []vHTTPItem
	bodies    [][]byte
	encs      []string
	arrive    []time.Time
	answered  []time.Time
	hook      func(i int)
	stall     bool // the collector never answers: the attempt ends only with its context
	exhausted bool
}

var vCurRT *vRT

// vPath: construction path of the next client (read by the adapter's vNewUploader)
var vPath = "d"

// vRTs: host -> *vRT for the scenarios that run concurrently (each uses its own endpoint host)
var vRTs sync.Map
var vRegOnce sync.Once

type vDispatch struct{}

func (vDispatch) RoundTrip(req *http.Request) (*http.Response, error) {
	if v, ok := vRTs.Load(req.URL.Host); ok {
		return v.(*vRT).RoundTrip(req)
	}
	return vCurRT.RoundTrip(req)
}

func (rt *vRT) RoundTrip(req *http.Request) (*http.Response, error) {
	now := time.Now()
	var b []byte
	if req.Body != nil {
		b, _ = io.ReadAll(req.Body)
		req.Body.Close()
	}
	rt.mu.Lock()
	i := len(rt.bodies)
	rt.bodies = append(rt.bodies, b)
	rt.encs = append(rt.encs, req.Header.Get("Content-Encoding")+"/"+req.Header.Get("Content-Type")+"/"+req.Method+"/"+strconv.FormatInt(req.ContentLength, 10))
	rt.arrive = append(rt.arrive, now)
	rt.mu.Unlock()
	if rt.hook != nil {
		rt.hook(i)
	}
	if rt.stall {
		<-req.Context().Done()
		return nil, req.Context().Err()
	}
	defer func() {
		rt.mu.Lock()
		rt.answered = append(rt.answered, time.Now())
		rt.mu.Unlock()
	}()
	if i >= len(rt.script) {
		rt.exhausted = true
		return &http.Response{StatusCode: 400, Status: "400 verif script exhausted", Header: http.Header{}, Body: io.NopCloser(bytes.NewReader(nil)), Request: req}, nil
	}
	it := rt.script[i]
	switch it.net {
	case 3:
		<-req.Context().Done()
		return nil, req.Context().Err()
	case 1:
		return nil, vTempErr{}
	case 2:
		return nil, errors.New("verif permanent network error")
	}
	h := http.Header{}
	if it.hdr != nil {
		h["Retry-After"] = []string{*it.hdr}
	}
	if it.ct != "" {
		h.Set("Content-Type", it.ct)
	}
	return &http.Response{StatusCode: it.status, Status: fmt.Sprintf("%d verif", it.status), Header: h,
		Body: io.NopCloser(bytes.NewReader(it.body)), Request: req, Proto: "HTTP/1.1", ProtoMajor: 1, ProtoMinor: 1}, nil
}

func vParseResp(tok string) (vHTTPItem, bool) {
	p := strings.Split(tok, ";")
	if len(p) != 4 {
		return vHTTPItem{}, false
	}
	var it vHTTPItem
	it.status, _ = strconv.Atoi(p[0])
	if p[1] != "-" {
		s := vUnhex(p[1])
		it.hdr = &s
	}
	it.net, _ = strconv.Atoi(p[2])
	b := p[3]
	ct := func(c byte) string {
		if c == '1' {
			return "application/x-protobuf"
		}
		return "application/json"
	}
	switch b[0] {
	case 'e':
	case 'n':
		it.ct, it.body = ct(b[1]), []byte{0x78, 0x01} // unknown field 15 = 1: a non-empty message without partial_success
	case 'g':
		it.ct, it.body = ct(b[1]), []byte{0xff, 0xff, 0xff}
	case 'p':
		q := strings.Split(b[3:], ":")
		n, _ := strconv.ParseInt(q[0], 10, 64)
		it.ct, it.body = ct(b[1]), vPartialBody(n, vUnhex(q[1]))
	default:
		return it, false
	}
	return it, true
}

var vHandled struct {
	mu sync.Mutex
	n  int
}

func vSetup() {
	vRegOnce.Do(func() {
		ourTransport.RegisterProtocol("http", vDispatch{})
		otel.SetErrorHandler(otel.ErrorHandlerFunc(func(error) {
			vHandled.mu.Lock()
			vHandled.n++
			vHandled.mu.Unlock()
		}))
	})
}

func vTakeHandled() int {
	vHandled.mu.Lock()
	defer vHandled.mu.Unlock()
	n := vHandled.n
	vHandled.n = 0
	return n
}

func vCls(out *vOut, gen, tok string) {
	it, ok := vParseResp(tok)
	if !ok {
		return
	}
	rt := &vRT{script: []vHTTPItem{it}}
	vCurRT = rt
	up := vNewUploader("", false, RetryConfig{Enabled: false}, "d")
	vTakeHandled()
	err := up.upload(context.Background())
	h := vTakeHandled()
	o := ""
	if err == nil {
		o = fmt.Sprintf("ok:%d", h)
	} else if r, th := evaluate(err); r {
		o = fmt.Sprintf("retry:%d", int64(th))
	} else {
		o = "fatal"
	}
	if len(rt.bodies) != 1 {
		o += fmt.Sprintf("!attempts=%d", len(rt.bodies))
	}
	out.Line("clsh %s %s => %s", gen, tok, o)
}

func vUp(out *vOut, gen, to, path string, gz, enabled bool, msel, cancelMode string, toks []string) {
	var script []vHTTPItem
	for _, t := range toks {
		it, ok := vParseResp(t)
		if !ok {
			return
		}
		script = append(script, it)
	}
	rc := RetryConfig{Enabled: enabled, InitialInterval: 1, MaxInterval: 1}
	switch msel {
	case "H":
		rc.MaxElapsedTime = time.Hour
	case "T":
		rc.MaxElapsedTime = 1
	}
	if cancelMode != "-" {
		// the wait that follows the cancellation must be one that only the context can end (1 h when the
		// cancellation comes in the first attempt; a few ms otherwise, because the earlier waits are real)
		rc.InitialInterval, rc.MaxInterval = 4*time.Millisecond, 4*time.Millisecond
		if strings.HasSuffix(cancelMode, "0") || cancelMode == "pre" {
			rc.InitialInterval, rc.MaxInterval = time.Hour, time.Hour
		}
	}
	rt := &vRT{script: script}
	vCurRT = rt
	vPath = path
	up := vNewUploader("", gz, rc, to)
	vPath = "d"
	sig := make(chan struct{}) // closed when the cancellation / stop signal has been given
	var sigOnce sync.Once
	sres := "-"
	ctx, cancel := context.WithCancel(context.Background())
	defer cancel()
	var cancelTime time.Time
	switch {
	case cancelMode == "pre":
		cancel()
	case strings.HasPrefix(cancelMode, "at"):
		j, _ := strconv.Atoi(cancelMode[2:])
		rt.hook = func(i int) {
			if i == j {
				cancelTime = time.Now()
				cancel()
				sigOnce.Do(func() { close(sig) })
			}
		}
	case strings.HasPrefix(cancelMode, "stop"):
		j, _ := strconv.Atoi(cancelMode[4:])
		rt.hook = func(i int) {
			if i == j {
				cancelTime = time.Now()
				serr := up.stop()
				switch {
				case time.Since(cancelTime) >= 2*time.Second:
					sres = "stuck"
				default:
					sres = vErrClass(serr)
				}
				sigOnce.Do(func() { close(sig) })
			}
		}
	}
	vTakeHandled()
	// the upload runs under a watchdog: if it is still pending 2 s after the cancellation / Stop it is released
	// through the caller's context, so that a stuck export is an observation (p0), not a hung harness
	done := make(chan error, 1)
	go func() { done <- up.upload(ctx) }()
	var err error
	stuck := false
	select {
	case err = <-done:
	case <-sig:
		select {
		case err = <-done:
		case <-time.After(2 * time.Second):
			stuck = true
			cancel()
			err = <-done
		}
	case <-time.After(8 * time.Second):
		// no script without a cancellation takes this long (a never-answered request ends at the 80 ms client timeout):
		// the upload is blocked — released through the caller's context and reported p0
		stuck = true
		cancel()
		err = <-done
	}
	tAfter := time.Now()
	h := vTakeHandled()
	n := len(rt.bodies)
	res := "fatal"
	switch {
	case err == nil:
		res = "ok"
	case n == 0 && errors.Is(err, context.Canceled):
		res = "ctx"
	case strings.HasPrefix(err.Error(), "max retry time elapsed: "):
		res = "elapsed"
	case strings.HasPrefix(err.Error(), "max retry time would elapse: "):
		res = "would"
	case func() bool { r, _ := evaluate(err); return r }():
		res = "retry"
	case errors.Is(err, context.Canceled):
		res = "cancel"
	}
	if rt.exhausted {
		res = "exhausted"
	}
	same := 1
	want := up.payload
	for i, b := range rt.bodies {
		if !bytes.Equal(b, rt.bodies[0]) {
			same = 0
		}
		// framing (Model.newRequest / request_framing): Content-Encoding iff gzip; ContentLength = len(payload) without
		// compression, -1 ("not used") with it
		wantEnc := "/application/x-protobuf/POST/" + strconv.Itoa(len(want))
		if gz {
			wantEnc = "gzip/application/x-protobuf/POST/-1"
		}
		if rt.encs[i] != wantEnc {
			same = 0
		}
		plain := b
		if gz {
			zr, e := gzip.NewReader(bytes.NewReader(b))
			if e != nil {
				same = 0
				continue
			}
			plain, e = io.ReadAll(zr)
			if e != nil {
				same = 0
			}
		}
		if !bytes.Equal(plain, want) {
			same = 0
		}
	}
	g := ""
	for i := 0; i+1 < n && i < len(script) && i < len(rt.answered); i++ {
		hint := time.Duration(0)
		if script[i].hdr != nil && script[i].net == 0 && vAllDigits(*script[i].hdr) {
			if v, e := strconv.ParseInt(*script[i].hdr, 10, 64); e == nil && v < 1000000 {
				hint = time.Duration(v) * time.Second
			}
		}
		if rt.arrive[i+1].Sub(rt.answered[i]) >= hint {
			g += "1"
		} else {
			g += "0"
		}
	}
	if g == "" {
		g = "-"
	}
	p := "-"
	if stuck {
		p = "0"
	}
	if !cancelTime.IsZero() {
		p = "0"
		if !stuck && tAfter.Sub(cancelTime) < 2*time.Second {
			p = "1"
		}
	}
	out.Line("uph %s %s,gz%d,t%s,c%s %d %s %s %s => %s %d s%d h%d g%s p%s S%s", gen, vPkgTag, vB(gz), to, path, vB(enabled), msel, cancelMode,
		strings.Join(toks, " | "), res, n, same, h, g, p, sres)
}

func vErrClass(err error) string {
	switch {
	case err == nil:
		return "nil"
	case errors.Is(err, context.Canceled) || errors.Is(err, context.DeadlineExceeded):
		return "ctx"
	}
	return "other"
}

// vShut: an export is pending, then the exporter is shut down with a short deadline (see the header).
func vShut(host, gen, to, pend string) string {
	rc := RetryConfig{Enabled: true, InitialInterval: time.Hour, MaxInterval: time.Hour}
	st, _ := vParseResp("503;-;0;e")
	rt := &vRT{script: []vHTTPItem{st, st, st}, stall: pend == "stall"}
	vRTs.Store(host, rt)
	defer vRTs.Delete(host)
	ex := vNewExporter(host, rc, to)
	ctx, release := context.WithCancel(context.Background())
	defer release()
	expDone := make(chan error, 1)
	go func() { expDone <- ex.export(ctx) }()
	// wait until the first attempt has reached the collector (and, for back-off, has been answered)
	for t0 := time.Now(); time.Since(t0) < 10*time.Second; time.Sleep(200 * time.Microsecond) {
		rt.mu.Lock()
		a, b := len(rt.arrive), len(rt.answered)
		rt.mu.Unlock()
		if a >= 1 && (pend == "stall" || b >= 1) {
			break
		}
	}
	time.Sleep(5 * time.Millisecond)
	sctx, c2 := context.WithTimeout(context.Background(), 100*time.Millisecond)
	defer c2()
	shDone := make(chan error, 1)
	go func() { shDone <- ex.shutdown(sctx) }()
	sres, eres := "stuck", "stuck"
	final := time.After(2 * time.Second)
	shRet, exRet := false, false
obs:
	for !(shRet && exRet) {
		select {
		case e := <-shDone:
			shRet, sres = true, vErrClass(e)
		case e := <-expDone:
			exRet, eres = true, vErrClass(e)
		case <-final:
			break obs
		}
	}
	rt.mu.Lock()
	n := len(rt.arrive)
	rt.mu.Unlock()
	// release whatever is still pending: the caller gives up
	release()
	for _, w := range []struct {
		ret bool
		ch  chan error
	}{{shRet, shDone}, {exRet, expDone}} {
		if !w.ret {
			select {
			case <-w.ch:
			case <-time.After(20 * time.Second):
				panic("verif: export/shutdown still blocked 20 s after the caller's context was cancelled")
			}
		}
	}
	return fmt.Sprintf("shuth %s %s,t%s %s => S%s E%s n%d", gen, vPkgTag, to, pend, sres, eres, n)
}

func vToOf(tok string) string {
	for _, p := range strings.Split(tok, ",")[1:] {
		if len(p) == 2 && p[0] == 't' {
			return p[1:]
		}
	}
	return "d"
}

func vPathOf(tok string) string {
	for _, p := range strings.Split(tok, ",")[1:] {
		if len(p) == 2 && p[0] == 'c' {
			return p[1:]
		}
	}
	return "d"
}

func vAllDigits(s string) bool {
	if s == "" {
		return false
	}
	for i := 0; i < len(s); i++ {
		if s[i] < '0' || s[i] > '9' {
			return false
		}
	}
	return true
}

func vB(b bool) int {
	if b {
		return 1
	}
	return 0
}

var vHdrs = []string{"-", vHex("0"), vHex("1"), vHex("10"), vHex("abc"), vHex("Wed, 21 Oct 2015 07:28:00 GMT")}
var vHdrsMore = []string{vHex(""), vHex("+3"), vHex("-2"), vHex("007"), vHex("9223372036854775807"), vHex("9223372036854775808"),
	vHex("-9223372036854775808"), vHex(" 5"), vHex("5 "), vHex("1.5"), vHex("1_0"), vHex("0x10"), vHex("2"), vHex("120")}

func vRandResp(r *vRand, retryBias bool) string {
	st := 0
	switch r.Intn(10) {
	case 0, 1, 2, 3:
		st = vPick(r, []int{429, 502, 503, 504})
	case 4:
		st = vPick(r, []int{200, 201, 204, 299})
	case 5:
		st = vPick(r, []int{199, 300, 400, 404, 408, 428, 430, 500, 501, 505, 599})
	case 6:
		st = 100 + r.Intn(500)
	default:
		if retryBias {
			st = vPick(r, []int{429, 502, 503, 504})
		} else {
			st = 200
		}
	}
	hdr := vPick(r, vHdrs)
	if r.Intn(3) == 0 {
		hdr = vPick(r, vHdrsMore)
	}
	if r.Intn(3) == 0 {
		hdr = "-"
	}
	net := 0
	if r.Intn(12) == 0 {
		net = 1 + r.Intn(2)
	}
	body := "e"
	switch r.Intn(8) {
	case 0:
		body = fmt.Sprintf("p%d:%d:%s", vB(r.Intn(5) != 0), vPick(r, []int64{0, 0, 1, 7, -1}), vHex(vPick(r, []string{"", "", "quota", "x"})))
	case 1:
		body = fmt.Sprintf("n%d", r.Intn(2))
	case 2:
		body = fmt.Sprintf("g%d", r.Intn(2))
	}
	return fmt.Sprintf("%d;%s;%d;%s", st, hdr, net, body)
}

func TestVerifC14Client(t *testing.T) {
	out := vOpen(t)
	defer out.Close()
	vSetup()
	if rp := vReplayLines(); rp != nil {
		for _, f := range rp {
			switch {
			case f[0] == "clsh" && len(f) >= 3:
				vCls(out, f[1], f[2])
			case f[0] == "uph" && len(f) >= 7:
				var toks []string
				for _, x := range f[6:] {
					if x != "|" {
						toks = append(toks, x)
					}
				}
				vUp(out, f[1], vToOf(f[2]), vPathOf(f[2]), strings.Contains(f[2], "gz1"), f[3] == "1", f[4], f[5], toks)
			case f[0] == "shuth" && len(f) >= 4:
				out.Line("%s", vShut("verif-replay.invalid:4318", f[1], vToOf(f[2]), f[3]))
			}
		}
		return
	}
	r := &vRand{s: vSeed()}
	n := vN(600)
	// (i) classification: every status 100..599 x the header table, plain body
	hs := vHdrs
	if os_exhaustive() {
		hs = append(append([]string{}, vHdrs...), vHdrsMore...)
	}
	for st := 100; st <= 599; st++ {
		for _, h := range hs {
			vCls(out, "exh", fmt.Sprintf("%d;%s;0;e", st, h))
		}
	}
	for _, h := range vHdrsMore {
		for _, st := range []int{200, 429, 500, 503} {
			vCls(out, "hdr", fmt.Sprintf("%d;%s;0;e", st, h))
		}
	}
	for _, net := range []int{1, 2} {
		for _, h := range vHdrs {
			vCls(out, "net", fmt.Sprintf("503;%s;%d;e", h, net))
		}
	}
	for _, st := range []int{199, 200, 202, 299, 300, 429, 503} {
		for _, ct := range []int{0, 1} {
			for _, rej := range []int64{0, 3, -1} {
				for _, m := range []string{"", "slow down"} {
					vCls(out, "partial", fmt.Sprintf("%d;-;0;p%d:%d:%s", st, ct, rej, vHex(m)))
				}
			}
			vCls(out, "body", fmt.Sprintf("%d;-;0;n%d", st, ct))
			vCls(out, "body", fmt.Sprintf("%d;-;0;g%d", st, ct))
		}
	}
	for i := 0; i < n/2; i++ {
		vCls(out, "rnd", vRandResp(r, false))
	}
	// (ii)+(iii) whole uploads
	f19 := 0
	for i := 0; i < n; i++ {
		k := r.Intn(5)
		var toks []string
		for j := 0; j < k; j++ {
			t := vRandResp(r, true)
			// positive Retry-After seconds would cost real seconds if F19 were repaired: keep them rare and small
			if strings.Contains(t, ";"+vHex("10")+";") || strings.Contains(t, ";"+vHex("120")+";") || strings.Contains(t, ";"+vHex("9223372036854775807")+";") {
				t = strings.Replace(t, ";"+strings.Split(t, ";")[1]+";", ";-;", 1)
			}
			if strings.Contains(t, ";"+vHex("1")+";") || strings.Contains(t, ";"+vHex("2")+";") || strings.Contains(t, ";"+vHex("007")+";") {
				if f19 >= 6 {
					t = strings.Replace(t, ";"+strings.Split(t, ";")[1]+";", ";"+vHex("0")+";", 1)
				} else {
					f19++
				}
			}
			toks = append(toks, t)
		}
		toks = append(toks, vPick(r, []string{"200;-;0;e", "200;-;0;e", "400;-;0;e", "200;-;0;p1:2:" + vHex("partial"), "503;-;2;e", "204;-;0;n1"}))
		enabled := r.Intn(8) != 0
		msel := vPick(r, []string{"0", "H", "H", "T"})
		cancelMode := "-"
		gen := "rnd"
		if enabled && k > 0 && r.Intn(5) == 0 {
			msel = "0"
			switch c := r.Intn(4); {
			case c == 0:
				cancelMode, gen = "pre", "pre"
			case c == 1 && vCanStop:
				cancelMode, gen = fmt.Sprintf("stop%d", r.Intn(min(k, 2))), "stop"
			default:
				cancelMode, gen = fmt.Sprintf("at%d", r.Intn(min(k, 2))), "cancel"
			}
			for j := range toks { // a hint in seconds never matters here; keep the script free of them
				p := strings.Split(toks[j], ";")
				p[1] = "-"
				toks[j] = strings.Join(p, ";")
			}
		}
		vUp(out, gen, vPick(r, []string{"d", "d", "p", "z", "z"}), vPick(r, []string{"d", "d", "t", "p", "b"}), r.Intn(2) == 0, enabled, msel, cancelMode, toks)
	}
	// F19 end to end, always present: Retry-After: 1 then success
	vUp(out, "f19", "d", "d", false, true, "H", "-", []string{"503;" + vHex("1") + ";0;e", "200;-;0;e"})
	vUp(out, "f19", "z", "b", true, true, "0", "-", []string{"429;" + vHex("2") + ";0;e", "200;-;0;e"})
	// every timeout configuration x {cancel, stop} in the first retry wait, always present
	for _, to := range []string{"d", "p", "z"} {
		for _, pa := range []string{"d", "b"} {
			vUp(out, "cancel", to, pa, false, true, "0", "at0", []string{"503;-;0;e", "200;-;0;e"})
			if vCanStop {
				vUp(out, "stop", to, pa, true, true, "0", "stop0", []string{"503;-;0;e", "200;-;0;e"})
				vUp(out, "stop", to, pa, false, true, "0", "stop1", []string{"429;-;0;e", "503;-;1;e", "200;-;0;e"})
			}
		}
	}
	// a request that is accepted and never answered, client timeout 80 ms, on every construction path: the attempt is
	// abandoned at the timeout (temporary error), retried, delivered
	for _, pa := range []string{"d", "t", "p", "b"} {
		vUp(out, "stall", "q", pa, pa == "t", true, "0", "-", []string{"503;-;3;e", "200;-;0;e"})
		vUp(out, "stall", "q", pa, false, true, "H", "-", []string{"429;-;0;e", "200;-;3;e", "200;-;0;p1:2:" + vHex("partial")})
	}
	// export pending -> Shutdown with a 100 ms deadline; the scenarios of one leg run concurrently
	var wg sync.WaitGroup
	lines := make([]string, 6)
	for i, to := range []string{"d", "p", "z"} {
		for j, pend := range []string{"backoff", "stall"} {
			wg.Add(1)
			go func() {
				defer wg.Done()
				lines[2*i+j] = vShut(fmt.Sprintf("verif-shut%d.invalid:4318", 2*i+j), "tab", to, pend)
			}()
		}
	}
	wg.Wait()
	for _, l := range lines {
		out.Line("%s", l)
	}
}
