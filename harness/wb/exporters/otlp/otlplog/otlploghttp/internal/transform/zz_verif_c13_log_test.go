// C13 — log legs (the SAME file is injected into otlploghttp/internal/transform and otlploggrpc/internal/transform:
// same seeded generator, so both legs print identical line sets when the two generated copies agree, and each leg
// is compared with the Lean model).
// Random batches of sdk/log Records (logtest.RecordFactory) -> transform.ResourceLogs -> proto.Marshal ->
// proto.Unmarshal -> canonical dump of the decoded LogsData. The canonical input is read back from the Record
// through its public accessors (the SDK de-duplicates attribute keys when the record is built).
//
// line: logs <gen> <caseSeed> <batch> => <dump>
//
//	batch = ( rec… ) ; rec = ( xeventName time observed severity xseverityText body (attrs) xtraceid xspanid flags dropped res scope )
//	body/value = ( e ) | ( b 0|1 ) | ( i n ) | ( f f<bits> ) | ( s x… ) | ( y x… ) | ( l ( v… ) ) | ( m ( ( xkey v )… ) )
//	attrs = ( ( xkey value )… ) ; res = ( (attrs) xschemaURL ) ; scope = ( xname xversion xschemaURL (attrs) )
package transform

import (
	"sort"
	"strings"
	"testing"
	"time"

	"google.golang.org/protobuf/proto"

	"google.golang.org/protobuf/reflect/protoreflect"

	"go.opentelemetry.io/otel/attribute"
	api "go.opentelemetry.io/otel/log"
	"go.opentelemetry.io/otel/sdk/instrumentation"
	"go.opentelemetry.io/otel/sdk/log"
	"go.opentelemetry.io/otel/sdk/log/logtest"
	"go.opentelemetry.io/otel/sdk/resource"
	"go.opentelemetry.io/otel/trace"
	lpb "go.opentelemetry.io/proto/otlp/logs/v1"
)

func c13GenLVal(r *vRand, depth int) api.Value {
	k := r.Intn(8)
	if depth <= 0 && k >= 6 {
		k = r.Intn(6)
	}
	if k == 0 && r.Intn(100) != 0 {
		k = 1 + r.Intn(5) // the empty value (F33) only in a few cases per run
	}
	switch k {
	case 0:
		return api.Value{}
	case 1:
		return api.BoolValue(r.Bool())
	case 2:
		return api.Int64Value(c13Int(r))
	case 3:
		return api.Float64Value(c13Float(r, true))
	case 4:
		return api.StringValue(vValidStr(r, 4))
	case 5:
		n := r.Intn(4)
		b := make([]byte, n)
		for i := range b {
			b[i] = byte(vPick(r, []int{0, 1, 0x7f, 0x80, 0xff, 0xc3}))
		}
		if n == 0 && r.Bool() {
			b = nil
		}
		return api.BytesValue(b)
	case 6:
		n := r.Intn(4)
		vs := make([]api.Value, n)
		for i := range vs {
			vs[i] = c13GenLVal(r, depth-1)
		}
		return api.SliceValue(vs...)
	default:
		return api.MapValue(c13GenLKVs(r, 3, depth-1)...)
	}
}

func c13GenLKVs(r *vRand, max, depth int) []api.KeyValue {
	n := r.Intn(max + 1)
	out := make([]api.KeyValue, n)
	for i := range out {
		out[i] = api.KeyValue{Key: c13Key(r), Value: c13GenLVal(r, depth)}
	}
	return out
}

func c13GenLogScope(r *vRand) *instrumentation.Scope {
	switch r.Intn(7) {
	case 0:
		return nil
	case 1:
		return &instrumentation.Scope{}
	case 2:
		return &instrumentation.Scope{Name: vPick(r, []string{"lib", "lib2", "š"})}
	case 3:
		return &instrumentation.Scope{Name: "lib", Version: vPick(r, []string{"v1", "v2", ""})}
	case 4:
		return &instrumentation.Scope{SchemaURL: "https://s/1"}
	default:
		s := &instrumentation.Scope{Name: vValidStr(r, 3), Version: vValidStr(r, 2), SchemaURL: vPick(r, []string{"", "https://s/1", "u"})}
		if kvs := c13SetKVs(r, 3, false); len(kvs) > 0 {
			s.Attributes = attribute.NewSet(kvs...)
		}
		return s
	}
}

func c13GenLogResources(r *vRand, n int, conflict bool) []*resource.Resource {
	out := make([]*resource.Resource, 0, n+1)
	for i := 0; i < n; i++ {
		switch r.Intn(7) {
		case 0:
			out = append(out, nil)
		case 1:
			out = append(out, resource.Empty())
		case 2:
			out = append(out, resource.NewSchemaless(c13SetKVs(r, 3, false)...))
		case 3:
			out = append(out, resource.NewWithAttributes("https://r/empty")) // no attributes, schema URL only
		default:
			kvs := c13SetKVs(r, 3, false)
			out = append(out, resource.NewWithAttributes(vPick(r, []string{"", "https://r/1", "https://r/2"}), kvs...))
			if conflict && r.Intn(2) == 0 {
				out = append(out, resource.NewWithAttributes("https://r/other", kvs...))
			}
		}
	}
	if len(out) == 0 {
		out = append(out, nil)
	}
	return out
}

var c13Dropped = []int{0, 0, 0, 1, 7, 1<<31 - 1, 1 << 31, 1<<32 - 1, 1 << 32, 1<<32 + 1, 1<<53 + 1, 1<<63 - 1}

func c13GenRecord(r *vRand, res *resource.Resource, sc *instrumentation.Scope, depth int) log.Record {
	var tid trace.TraceID
	var sid trace.SpanID
	if r.Intn(3) != 0 {
		for i := range tid {
			tid[i] = byte(r.U64())
		}
	}
	if r.Intn(3) != 0 {
		for i := range sid {
			sid[i] = byte(r.U64())
		}
	}
	dropped := vPick(r, c13Dropped) // never negative (assumption: Record.DroppedAttributes() >= 0)
	f := logtest.RecordFactory{
		EventName:            vValidStr(r, 2),
		Timestamp:            time.Unix(0, c13TimeNanos(r)),
		ObservedTimestamp:    time.Unix(0, c13TimeNanos(r)),
		Severity:             api.Severity(r.Intn(29) - 2),
		SeverityText:         vValidStr(r, 2),
		Body:                 c13GenLVal(r, depth),
		Attributes:           c13GenLKVs(r, 4, depth-1),
		TraceID:              tid,
		SpanID:               sid,
		TraceFlags:           trace.TraceFlags(vPick(r, []int{0, 1, 1, 2, 255})),
		Resource:             res,
		InstrumentationScope: sc,
		DroppedAttributes:    dropped,
	}
	if r.Intn(8) == 0 {
		f.Timestamp = time.Time{}
	}
	return f.NewRecord()
}

func c13GenLogBatch(tag string, cs uint64, idx int) []log.Record {
	r := &vRand{s: cs}
	switch tag {
	case "wit-f18":
		// F18 witness (fixed in e7e7b80): DroppedAttributes 7 must arrive as dropped_attributes_count 7
		return []log.Record{logtest.RecordFactory{Body: api.StringValue("b"), DroppedAttributes: 7}.NewRecord()}
	case "fixed":
		// one record whose encoded size does not depend on the seed
		return []log.Record{logtest.RecordFactory{Body: api.StringValue("fixed-" + c13Hex16(r.U64())), Severity: api.SeverityInfo, SeverityText: "INFO",
			Timestamp: time.Unix(1700000000, int64(r.Intn(1000000000))), ObservedTimestamp: time.Unix(1700000001, int64(r.Intn(1000000000))),
			Attributes: []api.KeyValue{api.String("k", c13Hex16(r.U64()))}, Resource: resource.NewSchemaless(attribute.String("service.name", "fixed"))}.NewRecord()}
	case "wit-f32":
		// former F32 witness (repaired in 089ce94): same resource attributes, schema URLs "a" and "b"
		return []log.Record{
			logtest.RecordFactory{Body: api.StringValue("b"), Resource: resource.NewWithAttributes("a", attribute.String("r", "1"))}.NewRecord(),
			logtest.RecordFactory{Body: api.StringValue("b"), Resource: resource.NewWithAttributes("b", attribute.String("r", "1"))}.NewRecord(),
		}
	case "wit-f33":
		// minimal F33 witness: a record without a body
		return []log.Record{logtest.RecordFactory{SeverityText: "t"}.NewRecord()}
	case "empty":
		if r.Bool() {
			return nil
		}
		return []log.Record{}
	case "sev":
		// severity sweep: every value −2 … 26 in turn
		f := logtest.RecordFactory{Severity: api.Severity(int(cs%29) - 2), Body: api.StringValue("s"), SeverityText: "t"}
		return []log.Record{f.NewRecord()}
	case "onerec":
		return []log.Record{c13GenRecord(r, c13GenLogResources(r, 1, false)[0], c13GenLogScope(r), 4)}
	}
	nRes, nSc, nRec := r.Intn(5), r.Intn(5), r.Intn(7)
	if tag == "groups" {
		nRec = 4 + r.Intn(9)
	}
	ress := c13GenLogResources(r, nRes, tag == "reskey")
	scs := make([]*instrumentation.Scope, 0, nSc+1)
	for i := 0; i < nSc; i++ {
		scs = append(scs, c13GenLogScope(r))
	}
	if len(scs) == 0 {
		scs = append(scs, nil)
	}
	out := make([]log.Record, 0, nRec)
	for i := 0; i < nRec; i++ {
		depth := 2
		if tag == "groups" {
			depth = 0
		}
		out = append(out, c13GenRecord(r, ress[r.Intn(len(ress))], scs[r.Intn(len(scs))], depth))
	}
	return out
}

func c13PrintLVal(w *c13W, v api.Value) {
	w.open()
	switch v.Kind() {
	case api.KindBool:
		w.tok("b")
		w.boolean(v.AsBool())
	case api.KindInt64:
		w.tok("i")
		w.i64(v.AsInt64())
	case api.KindFloat64:
		w.tok("f")
		w.f64(v.AsFloat64())
	case api.KindString:
		w.tok("s")
		w.str(v.AsString())
	case api.KindBytes:
		w.tok("y")
		w.bytes(v.AsBytes())
	case api.KindSlice:
		w.tok("l")
		w.open()
		for _, x := range v.AsSlice() {
			c13PrintLVal(w, x)
		}
		w.close()
	case api.KindMap:
		w.tok("m")
		w.open()
		for _, kv := range v.AsMap() {
			w.open()
			w.str(kv.Key)
			c13PrintLVal(w, kv.Value)
			w.close()
		}
		w.close()
	default:
		w.tok("e")
	}
	w.close()
}

func c13PrintRecord(w *c13W, rec log.Record) {
	w.open()
	w.str(rec.EventName())
	w.i64(rec.Timestamp().UnixNano())
	w.i64(rec.ObservedTimestamp().UnixNano())
	w.i64(int64(rec.Severity()))
	w.str(rec.SeverityText())
	c13PrintLVal(w, rec.Body())
	w.open()
	rec.WalkAttributes(func(kv api.KeyValue) bool {
		w.open()
		w.str(kv.Key)
		c13PrintLVal(w, kv.Value)
		w.close()
		return true
	})
	w.close()
	tid, sid := rec.TraceID(), rec.SpanID()
	w.bytes(tid[:])
	w.bytes(sid[:])
	w.u64(uint64(rec.TraceFlags()))
	w.i64(int64(rec.DroppedAttributes()))
	res := rec.Resource()
	w.open()
	c13PrintIter(w, res.Iter())
	w.str(res.SchemaURL())
	w.close()
	sc := rec.InstrumentationScope()
	w.open()
	w.str(sc.Name)
	w.str(sc.Version)
	w.str(sc.SchemaURL)
	c13PrintIter(w, sc.Attributes.Iter())
	w.close()
	w.close()
}

func c13RunLogs(out *vOut, tag string, cs uint64, idx int) {
	batch := c13GenLogBatch(tag, cs, idx)
	var w c13W
	w.open()
	for _, rec := range batch {
		c13PrintRecord(&w, rec)
	}
	w.close()
	rl := ResourceLogs(batch)
	var back lpb.LogsData
	if err := c13WireRoundTrip(&lpb.LogsData{ResourceLogs: rl}, &back); err != nil {
		out.Line("logs %s %d %s => err:wire", tag, cs, w.String())
		return
	}
	ms := make([]protoreflect.Message, len(back.ResourceLogs))
	for i, m := range back.ResourceLogs {
		ms[i] = m.ProtoReflect()
	}
	out.Line("logs %s %d %s => %s", tag, cs, w.String(), c13DumpSorted(ms))
}

func TestVerifC13Log(t *testing.T) {
	out := vOpen(t)
	defer out.Close()
	if tags, seeds, replay := c13ReplayCases("logs"); replay {
		if c13TmplReplay() {
			c13TmplLines(out)
		}
		for i := range tags {
			c13RunLogs(out, tags[i], seeds[i], i)
		}
		return
	}
	seed, n := vSeed(), vN(3000)
	c13TmplLines(out)
	c13LogSens(out)
	c13RunLogs(out, "wit-f18", 0, 0)
	c13RunLogs(out, "wit-f32", 0, 0)
	c13RunLogs(out, "wit-f33", 0, 0)
	for i := 0; i < 29; i++ {
		c13RunLogs(out, "sev", uint64(i), i)
	}
	for i := 0; i < n; i++ {
		tag := "mix"
		switch i % 10 {
		case 0:
			tag = "onerec"
		case 1, 2, 3:
			tag = "groups"
		case 4:
			tag = "reskey"
		case 5:
			if i%50 == 5 {
				tag = "empty"
			}
		}
		c13RunLogs(out, tag, c13CaseSeed(seed, i), i)
	}
}

// ---------------------------------------------------------------- model-free sensitivity
// line: sens log 0 <field> => changed|same
func c13EncOneLog(f logtest.RecordFactory) string {
	rl := ResourceLogs([]log.Record{f.NewRecord()})
	b, _ := proto.MarshalOptions{Deterministic: true}.Marshal(&lpb.LogsData{ResourceLogs: rl})
	return string(b)
}

func c13LogSens(out *vOut) {
	base := func() logtest.RecordFactory {
		return logtest.RecordFactory{
			EventName: "ev", Timestamp: time.Unix(1, 0), ObservedTimestamp: time.Unix(2, 0), Severity: api.SeverityWarn, SeverityText: "W",
			Body: api.MapValue(api.String("b", "1")), Attributes: []api.KeyValue{api.String("k", "v"), api.Slice("s", api.IntValue(1))},
			TraceID: trace.TraceID{1}, SpanID: trace.SpanID{2}, TraceFlags: 1, DroppedAttributes: 3,
			Resource:             resource.NewWithAttributes("rs", attribute.String("r", "1")),
			InstrumentationScope: &instrumentation.Scope{Name: "s", Version: "v", SchemaURL: "ss", Attributes: attribute.NewSet(attribute.String("sa", "1"))},
		}
	}
	b := c13EncOneLog(base())
	muts := map[string]func(f *logtest.RecordFactory){
		"event name":   func(f *logtest.RecordFactory) { f.EventName = "x" },
		"timestamp":    func(f *logtest.RecordFactory) { f.Timestamp = time.Unix(5, 0) },
		"observed":     func(f *logtest.RecordFactory) { f.ObservedTimestamp = time.Unix(5, 0) },
		"severity":     func(f *logtest.RecordFactory) { f.Severity = api.SeverityError },
		"severitytext": func(f *logtest.RecordFactory) { f.SeverityText = "E" },
		"body":         func(f *logtest.RecordFactory) { f.Body = api.MapValue(api.String("b", "2")) },
		"attr":         func(f *logtest.RecordFactory) { f.Attributes = f.Attributes[:1] },
		"traceid":      func(f *logtest.RecordFactory) { f.TraceID = trace.TraceID{9} },
		"spanid":       func(f *logtest.RecordFactory) { f.SpanID = trace.SpanID{9} },
		"flags":        func(f *logtest.RecordFactory) { f.TraceFlags = 0 },
		"dropped":      func(f *logtest.RecordFactory) { f.DroppedAttributes = 9 },
		"res attr": func(f *logtest.RecordFactory) {
			f.Resource = resource.NewWithAttributes("rs", attribute.String("r", "2"))
		},
		"res schema": func(f *logtest.RecordFactory) {
			f.Resource = resource.NewWithAttributes("rs2", attribute.String("r", "1"))
		},
		"scope name":   func(f *logtest.RecordFactory) { f.InstrumentationScope.Name = "t" },
		"scope ver":    func(f *logtest.RecordFactory) { f.InstrumentationScope.Version = "w" },
		"scope schema": func(f *logtest.RecordFactory) { f.InstrumentationScope.SchemaURL = "tt" },
		"scope attrs": func(f *logtest.RecordFactory) {
			f.InstrumentationScope.Attributes = attribute.NewSet(attribute.String("sa", "2"))
		},
	}
	names := make([]string, 0, len(muts))
	for name := range muts {
		names = append(names, name)
	}
	sort.Strings(names)
	for _, name := range names {
		f := base()
		muts[name](&f)
		res := "changed"
		if c13EncOneLog(f) == b {
			res = "same"
		}
		out.Line("sens log 0 log.%s => %s", strings.ReplaceAll(name, " ", "-"), res)
	}
}
