package otlploghttp

// C14: package specific part of the HTTP client harness (how a client is built and one upload is made).

import (
	"context"
	"time"

	sdklog "go.opentelemetry.io/otel/sdk/log"
	"net/http"
	"net/url"

	"google.golang.org/protobuf/proto"

	collogpb "go.opentelemetry.io/proto/otlp/collector/logs/v1"
	logpb "go.opentelemetry.io/proto/otlp/logs/v1"
)

const vPkgTag = "log"
const vCanStop = false

type vUploader struct {
	upload  func(context.Context) error
	stop    func() error
	payload []byte
}

// vTimeoutOpts: the client timeout dimension (d: option absent = default 10 s, p: 30 s, z: 0 = none)
func vTimeoutOpts(to string) []Option {
	switch to {
	case "p":
		return []Option{WithTimeout(30 * time.Second)}
	case "z":
		return []Option{WithTimeout(0)}
	case "q":
		return []Option{WithTimeout(80 * time.Millisecond)}
	}
	return nil
}

func vHost(host string) string {
	if host == "" {
		return "verif.invalid:4318"
	}
	return host
}

// vExporter: what the `shut` scenario drives.
type vExporter struct {
	export   func(context.Context) error
	shutdown func(context.Context) error
}

func vNewHTTPClient(host string, gz bool, rc RetryConfig, to string) (*httpClient, config) {
	comp := NoCompression
	if gz {
		comp = GzipCompression
	}
	cfg := newConfig(append([]Option{WithInsecure(), WithEndpoint(vHost(host)), WithRetry(rc), WithCompression(comp)}, vTimeoutOpts(to)...))
	// newHTTPClient always clones ourTransport (the default proxy setting is non-nil) and hides the httpClient
	// behind a method value, so the scripted RoundTripper cannot be reached through it: the httpClient is
	// assembled here exactly as newHTTPClient does (request template, compression, retry wiring, timeout), with the
	// scripted transport. Not covered for this package: the lines of newHTTPClient themselves.
	u := &url.URL{Scheme: "http", Host: cfg.endpoint.Value, Path: cfg.path.Value}
	req, err := http.NewRequest(http.MethodPost, u.String(), http.NoBody)
	if err != nil {
		panic(err)
	}
	req.Header.Set("Content-Type", "application/x-protobuf")
	return &httpClient{
		compression: cfg.compression.Value,
		req:         req,
		requestFunc: cfg.retryCfg.Value.RequestFunc(evaluate),
		client:      &http.Client{Transport: vDispatch{}, Timeout: cfg.timeout.Value},
	}, cfg
}

// the package's Exporter (Export / Shutdown) over the client with the scripted transport
func vNewExporter(host string, rc RetryConfig, to string) *vExporter {
	hc, cfg := vNewHTTPClient(host, false, rc, to)
	e, err := newExporter(&client{uploadLogs: hc.uploadLogs}, cfg)
	if err != nil {
		panic(err)
	}
	recs := make([]sdklog.Record, 1)
	recs[0].SetSeverityText("verif-c14")
	return &vExporter{export: func(ctx context.Context) error { return e.Export(ctx, recs) }, shutdown: e.Shutdown}
}

func vNewUploader(host string, gz bool, rc RetryConfig, to string) *vUploader {
	c, _ := vNewHTTPClient(host, gz, rc, to)
	rl := []*logpb.ResourceLogs{{ScopeLogs: []*logpb.ScopeLogs{{LogRecords: []*logpb.LogRecord{{
		TimeUnixNano: 1, ObservedTimeUnixNano: 2, SeverityText: "verif-c14"}}}}}}
	payload, err := proto.Marshal(&collogpb.ExportLogsServiceRequest{ResourceLogs: rl})
	if err != nil {
		panic(err)
	}
	return &vUploader{
		upload:  func(ctx context.Context) error { return c.uploadLogs(ctx, rl) },
		stop:    func() error { return nil },
		payload: payload,
	}
}

func vPartialBody(rejected int64, msg string) []byte {
	b, err := proto.Marshal(&collogpb.ExportLogsServiceResponse{
		PartialSuccess: &collogpb.ExportLogsPartialSuccess{RejectedLogRecords: rejected, ErrorMessage: msg}})
	if err != nil {
		panic(err)
	}
	return b
}
