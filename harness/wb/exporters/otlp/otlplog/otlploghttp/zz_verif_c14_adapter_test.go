package otlploghttp

// C14: package specific part of the HTTP client harness (how a client is built and one upload is made).

import (
	"context"
	"net/http"
	"net/url"

	"google.golang.org/protobuf/proto"

	collogpb "go.opentelemetry.io/proto/otlp/collector/logs/v1"
	logpb "go.opentelemetry.io/proto/otlp/logs/v1"
)

const vPkgTag = "log"
const vCanStop = false

type vUploader struct {
	upload  func(context.Context) error
	stop    func()
	payload []byte
}

func vNewUploader(gz bool, rc RetryConfig) *vUploader {
	comp := NoCompression
	if gz {
		comp = GzipCompression
	}
	cfg := newConfig([]Option{WithInsecure(), WithEndpoint("verif.invalid:4318"), WithRetry(rc), WithCompression(comp)})
	// newHTTPClient always clones ourTransport (the default proxy setting is non-nil) and hides the httpClient
	// behind a method value, so the scripted RoundTripper cannot be reached through it: the httpClient is
	// assembled here exactly as newHTTPClient does (request template, compression, retry wiring), with the
	// scripted transport. Not covered for this package: the lines of newHTTPClient themselves.
	u := &url.URL{Scheme: "http", Host: cfg.endpoint.Value, Path: cfg.path.Value}
	req, err := http.NewRequest(http.MethodPost, u.String(), http.NoBody)
	if err != nil {
		panic(err)
	}
	req.Header.Set("Content-Type", "application/x-protobuf")
	c := &httpClient{
		compression: cfg.compression.Value,
		req:         req,
		requestFunc: cfg.retryCfg.Value.RequestFunc(evaluate),
		client:      &http.Client{Transport: vDispatch{}, Timeout: cfg.timeout.Value},
	}
	rl := []*logpb.ResourceLogs{{ScopeLogs: []*logpb.ScopeLogs{{LogRecords: []*logpb.LogRecord{{
		TimeUnixNano: 1, ObservedTimeUnixNano: 2, SeverityText: "verif-c14"}}}}}}
	payload, err := proto.Marshal(&collogpb.ExportLogsServiceRequest{ResourceLogs: rl})
	if err != nil {
		panic(err)
	}
	return &vUploader{
		upload:  func(ctx context.Context) error { return c.uploadLogs(ctx, rl) },
		stop:    func() {},
		payload: payload,
	}
}

func vPartialBody(rejected int64, msg string) []byte {
	b, err := proto.Marshal(&collogpb.ExportLogsServiceResponse{
		PartialSuccess: &collogpb.ExportLogsPartialSuccess{RejectedLogRecords: rejected, ErrorMessage: msg}})
	if err != nil {
		panic(err)
	}
	return b
}
