package otlpmetricgrpc

// C14: package specific part of the gRPC client harness (how a client is built and one upload is made).

import (
	"context"
	"sync"
	"time"

	"go.opentelemetry.io/otel/sdk/metric/metricdata"

	"google.golang.org/grpc"
	"google.golang.org/grpc/credentials/insecure"
	"google.golang.org/protobuf/proto"

	"go.opentelemetry.io/otel/exporters/otlp/otlpmetric/otlpmetricgrpc/internal/oconf"
	colmetricpb "go.opentelemetry.io/proto/otlp/collector/metrics/v1"
	metricpb "go.opentelemetry.io/proto/otlp/metrics/v1"
)

const vPkgTag = "metric"
const vCanStop = false

type vUploader struct {
	upload      func(context.Context) error
	stop        func() error
	waitStopped func()
	close       func()
	request     proto.Message
}

type vFake struct{ core *vCore }

func (f vFake) Export(ctx context.Context, in *colmetricpb.ExportMetricsServiceRequest, _ ...grpc.CallOption) (*colmetricpb.ExportMetricsServiceResponse, error) {
	has, rej, msg, err := f.core.next(ctx, in)
	if err != nil && !has {
		return nil, err
	}
	resp := &colmetricpb.ExportMetricsServiceResponse{}
	if has {
		resp.PartialSuccess = &colmetricpb.ExportMetricsPartialSuccess{RejectedDataPoints: rej, ErrorMessage: msg}
	}
	return resp, err
}

// one never-connecting ClientConn shared by all clients of the run (handed over with WithGRPCConn)
var vConn *grpc.ClientConn
var vConnOnce sync.Once

func vSharedConn() *grpc.ClientConn {
	vConnOnce.Do(func() {
		c, err := grpc.NewClient("verif.invalid:4317", grpc.WithTransportCredentials(insecure.NewCredentials()))
		if err != nil {
			panic(err)
		}
		vConn = c
	})
	return vConn
}

func vCloseAll() {
	if vConn != nil {
		_ = vConn.Close()
	}
}

// vTimeoutOpts: the client timeout dimension (d: option absent = default 10 s, p: 30 s, z: 0 = none, q: 30 ms)
func vTimeoutOpts(to string) []Option {
	switch to {
	case "p":
		return []Option{WithTimeout(30 * time.Second)}
	case "z":
		return []Option{WithTimeout(0)}
	case "q":
		return []Option{WithTimeout(30 * time.Millisecond)}
	}
	return nil
}

func vNewClient(core *vCore, rc RetryConfig, to string) (*client, oconf.Config) {
	cfg := oconf.NewGRPCConfig(asGRPCOptions(append([]Option{WithGRPCConn(vSharedConn()), WithRetry(rc)}, vTimeoutOpts(to)...))...)
	c, err := newClient(context.Background(), cfg)
	if err != nil {
		panic(err)
	}
	c.msc = vFake{core}
	return c, cfg
}

// vExporter: what the `shut` scenario drives — the package's Exporter (Export / Shutdown) over the scripted client.
type vExporter struct {
	export   func(context.Context) error
	shutdown func(context.Context) error
	close    func()
}

func vNewExporter(core *vCore, rc RetryConfig, to string) *vExporter {
	c, cfg := vNewClient(core, rc, to)
	e, err := newExporter(c, cfg)
	if err != nil {
		panic(err)
	}
	rm := &metricdata.ResourceMetrics{}
	return &vExporter{
		export:   func(ctx context.Context) error { return e.Export(ctx, rm) },
		shutdown: e.Shutdown,
		close:    func() {},
	}
}

func vNewUploader(core *vCore, rc RetryConfig, to string) *vUploader {
	c, _ := vNewClient(core, rc, to)
	rm := &metricpb.ResourceMetrics{ScopeMetrics: []*metricpb.ScopeMetrics{{Metrics: []*metricpb.Metric{{
		Name: "verif-c14", Data: &metricpb.Metric_Gauge{Gauge: &metricpb.Gauge{DataPoints: []*metricpb.NumberDataPoint{{
			TimeUnixNano: 2, Value: &metricpb.NumberDataPoint_AsInt{AsInt: 7}}}}}}}}}}
	return &vUploader{
		upload:      func(ctx context.Context) error { return c.UploadMetrics(ctx, rm) },
		stop:        func() error { return nil },
		waitStopped: func() {},
		close:       func() {},
		request:     &colmetricpb.ExportMetricsServiceRequest{ResourceMetrics: []*metricpb.ResourceMetrics{rm}},
	}
}
