package otlpmetricgrpc

// C14: package specific part of the gRPC client harness (how a client is built and one upload is made).

import (
	"context"
	"sync"

	"google.golang.org/grpc"
	"google.golang.org/grpc/credentials/insecure"
	"google.golang.org/protobuf/proto"

	"go.opentelemetry.io/otel/exporters/otlp/otlpmetric/otlpmetricgrpc/internal/oconf"
	colmetricpb "go.opentelemetry.io/proto/otlp/collector/metrics/v1"
	metricpb "go.opentelemetry.io/proto/otlp/metrics/v1"
)

const vPkgTag = "metric"
const vCanStop = false

type vUploader struct {
	upload      func(context.Context) error
	stop        func()
	waitStopped func()
	close       func()
	request     proto.Message
}

type vFake struct{ core *vCore }

func (f vFake) Export(ctx context.Context, in *colmetricpb.ExportMetricsServiceRequest, _ ...grpc.CallOption) (*colmetricpb.ExportMetricsServiceResponse, error) {
	has, rej, msg, err := f.core.next(ctx, in)
	if err != nil && !has {
		return nil, err
	}
	resp := &colmetricpb.ExportMetricsServiceResponse{}
	if has {
		resp.PartialSuccess = &colmetricpb.ExportMetricsPartialSuccess{RejectedDataPoints: rej, ErrorMessage: msg}
	}
	return resp, err
}

// one never-connecting ClientConn shared by all clients of the run (handed over with WithGRPCConn)
var vConn *grpc.ClientConn
var vConnOnce sync.Once

func vSharedConn() *grpc.ClientConn {
	vConnOnce.Do(func() {
		c, err := grpc.NewClient("verif.invalid:4317", grpc.WithTransportCredentials(insecure.NewCredentials()))
		if err != nil {
			panic(err)
		}
		vConn = c
	})
	return vConn
}

func vCloseAll() {
	if vConn != nil {
		_ = vConn.Close()
	}
}

func vNewUploader(core *vCore, rc RetryConfig) *vUploader {
	cfg := oconf.NewGRPCConfig(asGRPCOptions([]Option{WithGRPCConn(vSharedConn()), WithRetry(rc)})...)
	c, err := newClient(context.Background(), cfg)
	if err != nil {
		panic(err)
	}
	c.msc = vFake{core}
	rm := &metricpb.ResourceMetrics{ScopeMetrics: []*metricpb.ScopeMetrics{{Metrics: []*metricpb.Metric{{
		Name: "verif-c14", Data: &metricpb.Metric_Gauge{Gauge: &metricpb.Gauge{DataPoints: []*metricpb.NumberDataPoint{{
			TimeUnixNano: 2, Value: &metricpb.NumberDataPoint_AsInt{AsInt: 7}}}}}}}}}}
	return &vUploader{
		upload:      func(ctx context.Context) error { return c.UploadMetrics(ctx, rm) },
		stop:        func() {},
		waitStopped: func() {},
		close:       func() {},
		request:     &colmetricpb.ExportMetricsServiceRequest{ResourceMetrics: []*metricpb.ResourceMetrics{rm}},
	}
}
