package otlpmetrichttp

// C20: package specific part of the effective-timeout harness (how the client is built and what it runs with).

import (
	"crypto/tls"
	"net/http"
	"net/url"
	"strings"
	"time"

	"go.opentelemetry.io/otel/exporters/otlp/otlpmetric/otlpmetrichttp/internal/oconf"
)

const c20eExp = "mh"
const c20eSpecific = "OTEL_EXPORTER_OTLP_METRICS_TIMEOUT"

var c20ePaths = []string{"def", "tls", "proxy", "tlsproxy"}

func c20eBuild(path string, optNs *int64) (int64, bool) {
	opts := []Option{WithInsecure(), WithEndpoint("verif.invalid:4318")}
	if strings.HasPrefix(path, "tls") {
		opts = append(opts, WithTLSClientConfig(&tls.Config{}))
	}
	if strings.HasSuffix(path, "proxy") {
		opts = append(opts, WithProxy(func(*http.Request) (*url.URL, error) { return nil, nil }))
	}
	if optNs != nil {
		opts = append(opts, WithTimeout(time.Duration(*optNs)))
	}
	c, err := newClient(oconf.NewHTTPConfig(asHTTPOptions(opts)...))
	if err != nil {
		panic(err)
	}
	return int64(c.httpClient.Timeout), c.httpClient.Transport == http.RoundTripper(ourTransport)
}
