package otlpmetrichttp

// C14: package specific part of the HTTP client harness (how a client is built and one upload is made).

import (
	"context"
	"crypto/tls"
	"net/http"
	"net/url"
	"time"

	"go.opentelemetry.io/otel/sdk/metric/metricdata"

	"google.golang.org/protobuf/proto"

	"go.opentelemetry.io/otel/exporters/otlp/otlpmetric/otlpmetrichttp/internal/oconf"
	colmetricpb "go.opentelemetry.io/proto/otlp/collector/metrics/v1"
	metricpb "go.opentelemetry.io/proto/otlp/metrics/v1"
)

const vPkgTag = "metric"
const vCanStop = false

type vUploader struct {
	upload  func(context.Context) error
	stop    func() error
	payload []byte
}

// vTimeoutOpts: the client timeout dimension (d: option absent = default 10 s, p: 30 s, z: 0 = none)
func vTimeoutOpts(to string) []Option {
	switch to {
	case "p":
		return []Option{WithTimeout(30 * time.Second)}
	case "z":
		return []Option{WithTimeout(0)}
	case "q":
		return []Option{WithTimeout(80 * time.Millisecond)}
	}
	return nil
}

// vPathOpts: the construction path dimension (vPath: d shared transport, t TLS configuration, p proxy, b both)
func vPathOpts() []Option {
	var o []Option
	if vPath == "t" || vPath == "b" {
		o = append(o, WithTLSClientConfig(&tls.Config{}))
	}
	if vPath == "p" || vPath == "b" {
		o = append(o, WithProxy(func(*http.Request) (*url.URL, error) { return nil, nil }))
	}
	return o
}

func vHost(host string) string {
	if host == "" {
		return "verif.invalid:4318"
	}
	return host
}

// vExporter: what the `shut` scenario drives.
type vExporter struct {
	export   func(context.Context) error
	shutdown func(context.Context) error
}

func vNewClient(host string, gz bool, rc RetryConfig, to string) (*client, oconf.Config) {
	comp := NoCompression
	if gz {
		comp = GzipCompression
	}
	cfg := oconf.NewHTTPConfig(asHTTPOptions(append(append([]Option{WithInsecure(), WithEndpoint(vHost(host)), WithRetry(rc), WithCompression(comp)}, vTimeoutOpts(to)...), vPathOpts()...))...)
	c, err := newClient(cfg)
	if err != nil {
		panic(err)
	}
	// a cloned transport (TLS configuration / proxy set) does not inherit the protocols registered on ourTransport: the
	// scripted one is registered on the clone — the http.Client itself stays the one newClient built
	if tr, ok := c.httpClient.Transport.(*http.Transport); ok && tr != ourTransport {
		tr.RegisterProtocol("http", vDispatch{})
	}
	return c, cfg
}

// the package's Exporter (Export / Shutdown) over the client with the scripted transport
func vNewExporter(host string, rc RetryConfig, to string) *vExporter {
	c, cfg := vNewClient(host, false, rc, to)
	e, err := newExporter(c, cfg)
	if err != nil {
		panic(err)
	}
	rm := &metricdata.ResourceMetrics{}
	return &vExporter{export: func(ctx context.Context) error { return e.Export(ctx, rm) }, shutdown: e.Shutdown}
}

func vNewUploader(host string, gz bool, rc RetryConfig, to string) *vUploader {
	c, _ := vNewClient(host, gz, rc, to)
	rm := &metricpb.ResourceMetrics{ScopeMetrics: []*metricpb.ScopeMetrics{{Metrics: []*metricpb.Metric{{
		Name: "verif-c14", Data: &metricpb.Metric_Gauge{Gauge: &metricpb.Gauge{DataPoints: []*metricpb.NumberDataPoint{{
			TimeUnixNano: 2, Value: &metricpb.NumberDataPoint_AsInt{AsInt: 7}}}}}}}}}}
	payload, err := proto.Marshal(&colmetricpb.ExportMetricsServiceRequest{ResourceMetrics: []*metricpb.ResourceMetrics{rm}})
	if err != nil {
		panic(err)
	}
	return &vUploader{
		upload:  func(ctx context.Context) error { return c.UploadMetrics(ctx, rm) },
		stop:    func() error { return nil },
		payload: payload,
	}
}

func vPartialBody(rejected int64, msg string) []byte {
	b, err := proto.Marshal(&colmetricpb.ExportMetricsServiceResponse{
		PartialSuccess: &colmetricpb.ExportMetricsPartialSuccess{RejectedDataPoints: rejected, ErrorMessage: msg}})
	if err != nil {
		panic(err)
	}
	return b
}
