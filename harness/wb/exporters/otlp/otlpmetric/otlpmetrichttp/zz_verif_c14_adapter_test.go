package otlpmetrichttp

// C14: package specific part of the HTTP client harness (how a client is built and one upload is made).

import (
	"context"

	"google.golang.org/protobuf/proto"

	"go.opentelemetry.io/otel/exporters/otlp/otlpmetric/otlpmetrichttp/internal/oconf"
	colmetricpb "go.opentelemetry.io/proto/otlp/collector/metrics/v1"
	metricpb "go.opentelemetry.io/proto/otlp/metrics/v1"
)

const vPkgTag = "metric"
const vCanStop = false

type vUploader struct {
	upload  func(context.Context) error
	stop    func()
	payload []byte
}

func vNewUploader(gz bool, rc RetryConfig) *vUploader {
	comp := NoCompression
	if gz {
		comp = GzipCompression
	}
	cfg := oconf.NewHTTPConfig(asHTTPOptions([]Option{WithInsecure(), WithEndpoint("verif.invalid:4318"), WithRetry(rc), WithCompression(comp)})...)
	c, err := newClient(cfg)
	if err != nil {
		panic(err)
	}
	rm := &metricpb.ResourceMetrics{ScopeMetrics: []*metricpb.ScopeMetrics{{Metrics: []*metricpb.Metric{{
		Name: "verif-c14", Data: &metricpb.Metric_Gauge{Gauge: &metricpb.Gauge{DataPoints: []*metricpb.NumberDataPoint{{
			TimeUnixNano: 2, Value: &metricpb.NumberDataPoint_AsInt{AsInt: 7}}}}}}}}}}
	payload, err := proto.Marshal(&colmetricpb.ExportMetricsServiceRequest{ResourceMetrics: []*metricpb.ResourceMetrics{rm}})
	if err != nil {
		panic(err)
	}
	return &vUploader{
		upload:  func(ctx context.Context) error { return c.UploadMetrics(ctx, rm) },
		stop:    func() {},
		payload: payload,
	}
}

func vPartialBody(rejected int64, msg string) []byte {
	b, err := proto.Marshal(&colmetricpb.ExportMetricsServiceResponse{
		PartialSuccess: &colmetricpb.ExportMetricsPartialSuccess{RejectedDataPoints: rejected, ErrorMessage: msg}})
	if err != nil {
		panic(err)
	}
	return b
}
