// C13 — static tie between the rendered copies of the templated transform code. Injected into the four
// `internal/transform` packages (otlpmetric{http,grpc}, otlplog{http,grpc}) next to the shared C13 helpers.
//
// For every .go file of the package under test that has a template internal/shared/otlp/<signal>/transform/<file>.tmpl:
// the file, the same-named file of the sibling exporter (http <-> grpc) and the template must be textually identical
// after normalisation: the three-line gotmpl header of a rendered copy is dropped, the `// import "…"` comment of the
// package clause is dropped, and the exporter's own import-path prefix
// go.opentelemetry.io/otel/exporters/otlp/<signal>/<exporter> is replaced by a placeholder (the only legitimate
// differences: gotmpl renders the template with `--data={}`, see <exporter>/internal/gen.go).
//
//	line: tmpl <signal>/<exporter> 0 <file> => same | differs:<sibling|template>:<file>:<line> | err:<what>
//
// Files are read from the source tree relative to the package directory (go test runs in it); when bin/mutant-run
// overlays a patched copy (VERIF_EXTRA_OVERLAY) the patched text is read instead, as the compiler does.
package transform

import (
	"encoding/json"
	"os"
	"path/filepath"
	"regexp"
	"sort"
	"strconv"
	"strings"
)

var (
	c13TmplPkgRe    = regexp.MustCompile(`^(package \w+)\s*//\s*import\s+"[^"]*"\s*$`)
	c13TmplImportRe = regexp.MustCompile(`go\.opentelemetry\.io/otel/exporters/otlp/otlp(log|metric|trace)/otlp(log|metric|trace)(http|grpc)`)
)

func c13TmplRead(path string, overlay map[string]string) ([]string, bool) {
	abs, err := filepath.Abs(path)
	if err != nil {
		return nil, false
	}
	if r, ok := overlay[abs]; ok {
		abs = r
	}
	b, err := os.ReadFile(abs)
	if err != nil {
		return nil, false
	}
	lines := strings.Split(strings.ReplaceAll(string(b), "\r\n", "\n"), "\n")
	// rendered copies start with "// Code created by gotmpl. DO NOT MODIFY." / "// source: …" / ""
	if len(lines) >= 3 && strings.HasPrefix(lines[0], "// Code created by gotmpl") && strings.HasPrefix(lines[1], "// source:") && lines[2] == "" {
		lines = lines[3:]
	}
	for i, l := range lines {
		if m := c13TmplPkgRe.FindStringSubmatch(l); m != nil {
			l = m[1]
		}
		lines[i] = c13TmplImportRe.ReplaceAllString(l, "EXPORTER")
	}
	return lines, true
}

func c13TmplFirstDiff(a, b []string) int {
	for i := 0; i < len(a) || i < len(b); i++ {
		if i >= len(a) || i >= len(b) || a[i] != b[i] {
			return i + 1
		}
	}
	return 0
}

// c13TmplReplay: the replay file asks for the tmpl lines
func c13TmplReplay() bool {
	for _, l := range vReplayLines() {
		if len(l) > 0 && l[0] == "tmpl" {
			return true
		}
	}
	return false
}

// c13TmplLines writes one `tmpl` line per templated file of the package directory.
func c13TmplLines(out *vOut) {
	overlay := map[string]string{}
	if p := os.Getenv("VERIF_EXTRA_OVERLAY"); p != "" {
		if b, err := os.ReadFile(p); err == nil {
			var o struct{ Replace map[string]string }
			if json.Unmarshal(b, &o) == nil {
				overlay = o.Replace
			}
		}
	}
	cwd, err := os.Getwd()
	if err != nil {
		out.Line("tmpl - 0 - => err:getwd")
		return
	}
	// …/exporters/otlp/<signal>/<exporter>/internal/transform
	exporter := filepath.Base(filepath.Dir(filepath.Dir(cwd)))
	signal := filepath.Base(filepath.Dir(filepath.Dir(filepath.Dir(cwd))))
	var sibling string
	switch {
	case strings.HasSuffix(exporter, "http"):
		sibling = strings.TrimSuffix(exporter, "http") + "grpc"
	case strings.HasSuffix(exporter, "grpc"):
		sibling = strings.TrimSuffix(exporter, "grpc") + "http"
	default:
		out.Line("tmpl %s/%s 0 - => err:not-an-exporter-dir", signal, exporter)
		return
	}
	sibDir := filepath.Join(cwd, "..", "..", "..", sibling, "internal", "transform")
	tmplDir := filepath.Join(cwd, "..", "..", "..", "..", "..", "..", "internal", "shared", "otlp", signal, "transform")
	ents, err := os.ReadDir(tmplDir)
	if err != nil {
		out.Line("tmpl %s/%s 0 - => err:no-template-dir", signal, exporter)
		return
	}
	var files []string
	for _, e := range ents {
		if strings.HasSuffix(e.Name(), ".go.tmpl") {
			files = append(files, strings.TrimSuffix(e.Name(), ".tmpl"))
		}
	}
	sort.Strings(files)
	if len(files) == 0 {
		out.Line("tmpl %s/%s 0 - => err:no-templates", signal, exporter)
	}
	for _, f := range files {
		own, ok1 := c13TmplRead(filepath.Join(cwd, f), overlay)
		sib, ok2 := c13TmplRead(filepath.Join(sibDir, f), overlay)
		tpl, ok3 := c13TmplRead(filepath.Join(tmplDir, f+".tmpl"), overlay)
		res := "same"
		switch {
		case !ok1:
			res = "err:own-copy-missing"
		case !ok2:
			res = "err:sibling-copy-missing"
		case !ok3:
			res = "err:template-missing"
		default:
			if n := c13TmplFirstDiff(own, sib); n != 0 {
				res = "differs:sibling:" + f + ":" + strconv.Itoa(n)
			} else if n := c13TmplFirstDiff(own, tpl); n != 0 {
				res = "differs:template:" + f + ":" + strconv.Itoa(n)
			}
		}
		out.Line("tmpl %s/%s 0 %s => %s", signal, exporter, f, res)
	}
}
